(* Gas/Budget.v — invariants and proofs ABOUT THE GENERATED DEFINITIONS of
   Gas/Budget_gen.v (tools/go2coq output for /repo/core/vm/gascosts.go).

   Every lemma refers to the generated definitions by name and is proved by
   unfolding them and linear arithmetic over the written-out wrap-around
   ([u64]/[i64]); nothing here depends on the textual shape of the generated
   bodies beyond that, so a harmless regeneration keeps the proofs, and a
   change of the arithmetic (a sign, a dropped refund, a swapped dimension)
   breaks them.

   The frame invariant, all quantities as unbounded integers.  A frame that was
   entered with execution gas E0, state-gas reservoir R, while its callers have
   a net state-gas usage of n outstanding, satisfies

     (I1)  ExecutionGas + UsedExecutionGas + Spilled = E0
     (I2)  StateGas     + UsedStateGas     - Spilled = R
     (L)   0 <= n + UsedStateGas      (refunds give back earlier charges of the tx)
     magnitudes: all uint64 fields >= 0, E0 + R + n < 2^63.

   UsedStateGas is signed: a frame may refund more than it charged itself. *)
From GV Require Import Lib.Tactics Gas.GoArith Gas.Budget_gen Gas.BudgetMachine.
Local Open Scope Z_scope.

Notation Ex := GasBudget_ExecutionGas.
Notation St := GasBudget_StateGas.
Notation UE := GasBudget_UsedExecutionGas.
Notation US := GasBudget_UsedStateGas.
Notation Sp := GasBudget_Spilled.

Definition T63 : Z := 9223372036854775808.
Definition T64 : Z := 18446744073709551616.

(* (I1) and (I2) *)
Definition I (g : GasBudget) (E0 R : Z) : Prop :=
  Ex g + UE g + Sp g = E0 /\ St g + US g - Sp g = R.

Definition frame_ok (E0 R n : Z) (g : GasBudget) : Prop :=
  0 <= E0 /\ 0 <= R /\ 0 <= n /\ E0 + R + n < T63 /\
  0 <= Ex g /\ 0 <= St g /\ 0 <= UE g /\ 0 <= Sp g /\
  I g E0 R /\ 0 <= n + US g.

Definition u64_range (x : Z) : Prop := 0 <= x < T64.

(* ------------------------------------------------------------------ tactics *)

Ltac gb_cbn :=
  unfold set_GasBudget_ExecutionGas, set_GasBudget_StateGas, set_GasBudget_UsedExecutionGas,
         set_GasBudget_UsedStateGas, set_GasBudget_Spilled in *;
  cbn [GasBudget_ExecutionGas GasBudget_StateGas GasBudget_UsedExecutionGas
       GasBudget_UsedStateGas GasBudget_Spilled
       GasCosts_ExecutionGas GasCosts_StateGas fst snd] in *.

Ltac unfold_inv := unfold frame_ok, I, u64_range, T63, T64 in *.

Ltac wraplia := unfold u64, i64 in *; lia.

Ltac split_ltb :=
  repeat match goal with
         | |- context [Z.ltb ?a ?b] => destruct (Z.ltb_spec a b)
         | |- context [Z.leb ?a ?b] => destruct (Z.leb_spec a b)
         end.

Lemma gb_eq a b c d e a' b' c' d' e' :
  a = a' -> b = b' -> c = c' -> d = d' -> e = e' ->
  mkGasBudget a b c d e = mkGasBudget a' b' c' d' e'.
Proof. intros; subst; reflexivity. Qed.

(* ---------------------------------------------------- unbounded-integer reading
   The same control flow as the Go code, over Z, with plain + and - (no mod). *)

Definition charge_spec (g : GasBudget) (ce cs : Z) : GasBudget * bool :=
  if Ex g <? ce then (g, false)
  else if St g <? cs then
    if Ex g - ce <? cs - St g then (g, false)
    else (mkGasBudget (Ex g - ce - (cs - St g)) 0 (UE g + ce) (US g + cs) (Sp g + (cs - St g)), true)
  else (mkGasBudget (Ex g - ce) (St g - cs) (UE g + ce) (US g + cs) (Sp g), true).

Definition charge_exec_only_spec (g : GasBudget) (r : Z) : GasBudget * bool :=
  if Ex g <? r then (g, false)
  else (mkGasBudget (Ex g - r) (St g) (UE g + r) (US g) (Sp g), true).

Definition refund_spec (g : GasBudget) (s : Z) : GasBudget :=
  let repay := Z.min s (Sp g) in
  mkGasBudget (Ex g + repay) (St g + (s - repay)) (UE g) (US g - s) (Sp g - repay).

Definition drain_spec (g : GasBudget) : GasBudget :=
  mkGasBudget 0 (St g) (UE g + Ex g) (US g) (Sp g).

Definition forward_spec (g : GasBudget) (e : Z) : GasBudget * GasBudget :=
  (mkGasBudget (Ex g - e) 0 (UE g + e) (US g) (Sp g), mkGasBudget e (St g) 0 0 0).

Definition exit_revert_spec (g : GasBudget) : GasBudget :=
  mkGasBudget (Ex g + Sp g) (St g + US g - Sp g) (UE g) 0 0.

Definition exit_halt_spec (g : GasBudget) : GasBudget :=
  mkGasBudget 0 (St g + US g - Sp g) (UE g + Ex g + Sp g) 0 0.

Definition exit_spec (x : exit_kind) (g : GasBudget) : GasBudget :=
  match x with XSuccess => g | XRevert => exit_revert_spec g | XHalt => exit_halt_spec g end.

Definition absorb_spec (p c : GasBudget) : GasBudget :=
  mkGasBudget (Ex p + Ex c) (St c) (UE p - Ex c - Sp c) (US p + US c) (Sp p + Sp c).

(* a caller suspended by Forward f whose callee got the reservoir Rc *)
Definition susp_ok (E0 R n : Z) (p : GasBudget) (f Rc : Z) : Prop :=
  0 <= E0 /\ 0 <= R /\ 0 <= n /\ E0 + R + n < T63 /\
  0 <= Ex p /\ St p = 0 /\ 0 <= Sp p /\ 0 <= f <= UE p /\ 0 <= Rc /\
  Ex p + UE p + Sp p = E0 /\ Rc + US p - Sp p = R /\ 0 <= n + US p.

(* ------------------------------------------------------------- no underflow
   Under the invariant and the callers' guards, each generated function equals
   its unbounded-integer reading: no addition, subtraction or int64 conversion
   in the generated code wraps. *)

Lemma charge_no_wrap E0 R n g ce cs :
  frame_ok E0 R n g -> u64_range ce -> u64_range cs ->
  GasBudget_charge g (mkGasCosts ce cs) = charge_spec g ce cs.
Proof.
  intros H Hce Hcs. destruct g as [ex st ue us sp].
  unfold GasBudget_charge, charge_spec. unfold_inv. gb_cbn.
  destruct (Z.ltb_spec ex ce); [reflexivity|].
  destruct (Z.ltb_spec st cs).
  - assert (Hx : u64 (ex - ce) = ex - ce) by wraplia.
    assert (Hy : u64 (cs - st) = cs - st) by wraplia.
    rewrite Hx, Hy.
    destruct (Z.ltb_spec (ex - ce) (cs - st)); [reflexivity|].
    f_equal. apply gb_eq; wraplia.
  - f_equal. apply gb_eq; wraplia.
Qed.

Lemma Charge_is_charge g c :
  GasBudget_Charge g c = (fst (GasBudget_charge g c), g, snd (GasBudget_charge g c)).
Proof. unfold GasBudget_Charge. destruct (GasBudget_charge g c); reflexivity. Qed.

Lemma ChargeExecution_is_Charge g r :
  GasBudget_ChargeExecution g r = GasBudget_Charge g (mkGasCosts r 0).
Proof.
  unfold GasBudget_ChargeExecution.
  destruct (GasBudget_Charge g (mkGasCosts r 0)) as [[a b] c]; reflexivity.
Qed.

Lemma ChargeState_is_Charge g s :
  GasBudget_ChargeState g s = GasBudget_Charge g (mkGasCosts 0 s).
Proof.
  unfold GasBudget_ChargeState.
  destruct (GasBudget_Charge g (mkGasCosts 0 s)) as [[a b] c]; reflexivity.
Qed.

Lemma charge_exec_only_no_wrap E0 R n g r :
  frame_ok E0 R n g -> u64_range r ->
  GasBudget_ChargeExecutionOnly g r = charge_exec_only_spec g r.
Proof.
  intros H Hr. destruct g as [ex st ue us sp].
  unfold GasBudget_ChargeExecutionOnly, charge_exec_only_spec. unfold_inv. gb_cbn.
  destruct (Z.ltb_spec ex r); [reflexivity|].
  f_equal. apply gb_eq; wraplia.
Qed.

Lemma refund_no_wrap E0 R n g s :
  frame_ok E0 R n g -> 0 <= s <= n + US g ->
  GasBudget_RefundState g s = refund_spec g s.
Proof.
  intros H Hs. destruct g as [ex st ue us sp].
  unfold GasBudget_RefundState, refund_spec. unfold_inv. gb_cbn.
  apply gb_eq; wraplia.
Qed.

Lemma drain_no_wrap E0 R n g :
  frame_ok E0 R n g -> GasBudget_DrainExecution g = drain_spec g.
Proof.
  intros H. destruct g as [ex st ue us sp].
  unfold GasBudget_DrainExecution, drain_spec. unfold_inv. gb_cbn.
  apply gb_eq; wraplia.
Qed.

Lemma forward_no_wrap E0 R n g e :
  frame_ok E0 R n g -> 0 <= e <= Ex g ->
  GasBudget_Forward g e = forward_spec g e.
Proof.
  intros H He. destruct g as [ex st ue us sp].
  unfold GasBudget_Forward, forward_spec. unfold_inv. gb_cbn.
  f_equal; apply gb_eq; wraplia.
Qed.

Lemma forward_all_is_forward g :
  GasBudget_ForwardAll g = GasBudget_Forward g (Ex g).
Proof.
  unfold GasBudget_ForwardAll. destruct (GasBudget_Forward g (Ex g)); reflexivity.
Qed.

Lemma exit_revert_no_wrap E0 R n g :
  frame_ok E0 R n g -> GasBudget_ExitRevert g = exit_revert_spec g.
Proof.
  intros H. destruct g as [ex st ue us sp].
  unfold GasBudget_ExitRevert, exit_revert_spec. unfold_inv. gb_cbn.
  assert (Hr : i64 (i64 (i64 st + us) - i64 sp) = st + us - sp) by wraplia.
  rewrite Hr. destruct (Z.ltb_spec (st + us - sp) 0); [lia|].
  apply gb_eq; wraplia.
Qed.

Lemma exit_halt_no_wrap E0 R n g :
  frame_ok E0 R n g -> GasBudget_ExitHalt g = exit_halt_spec g.
Proof.
  intros H. destruct g as [ex st ue us sp].
  unfold GasBudget_ExitHalt, exit_halt_spec. unfold_inv. gb_cbn.
  assert (Hr : i64 (i64 (i64 st + us) - i64 sp) = st + us - sp) by wraplia.
  rewrite Hr. destruct (Z.ltb_spec (st + us - sp) 0); [lia|].
  apply gb_eq; wraplia.
Qed.

Lemma exit_no_wrap E0 R n g x :
  frame_ok E0 R n g -> exit_of x g = exit_spec x g.
Proof.
  intros H. destruct x; cbn [exit_of exit_spec].
  - reflexivity.
  - eapply exit_revert_no_wrap; eassumption.
  - eapply exit_halt_no_wrap; eassumption.
Qed.

Lemma absorb_no_wrap E0 R n p f Rc c :
  susp_ok E0 R n p f Rc -> frame_ok f Rc (n + US p) c ->
  GasBudget_Absorb p c = absorb_spec p c.
Proof.
  intros Hp Hc. destruct p as [ex st ue us sp]. destruct c as [ex' st' ue' us' sp'].
  unfold GasBudget_Absorb, absorb_spec, susp_ok in *. unfold_inv. gb_cbn.
  apply gb_eq; wraplia.
Qed.

(* Used(initial) of the outermost frame is the scalar gas consumed *)
Lemma used_no_wrap E0 R g :
  frame_ok E0 R 0 g ->
  GasBudget_Used g (NewGasBudget E0 R) = UE g + US g /\ 0 <= UE g + US g <= E0 + R.
Proof.
  intros H. destruct g as [ex st ue us sp].
  unfold GasBudget_Used, NewGasBudget. unfold_inv. gb_cbn. split; wraplia.
Qed.

(* ------------------------------------------------- affordability <-> success
   unconditional: holds for every bit pattern, no invariant needed *)
Lemma charge_ok_iff_canafford g c :
  snd (GasBudget_charge g c) = GasBudget_CanAfford g c.
Proof.
  destruct g as [ex st ue us sp]; destruct c as [ce cs].
  unfold GasBudget_charge, GasBudget_CanAfford. gb_cbn.
  destruct (Z.ltb_spec ex ce); [reflexivity|].
  destruct (Z.ltb_spec st cs); [|reflexivity].
  destruct (Z.ltb_spec (u64 (ex - ce)) (u64 (cs - st)));
    destruct (Z.leb_spec (u64 (cs - st)) (u64 (ex - ce))); cbn [snd]; try reflexivity; lia.
Qed.

Lemma Charge_ok_iff_canafford g c :
  snd (GasBudget_Charge g c) = GasBudget_CanAfford g c.
Proof. rewrite Charge_is_charge. cbn [snd]. apply charge_ok_iff_canafford. Qed.

(* a failed charge leaves the budget untouched *)
Lemma charge_fail_unchanged g c :
  snd (GasBudget_charge g c) = false -> fst (GasBudget_charge g c) = g.
Proof.
  destruct g as [ex st ue us sp]; destruct c as [ce cs].
  unfold GasBudget_charge. gb_cbn.
  destruct (Z.ltb_spec ex ce); [reflexivity|].
  destruct (Z.ltb_spec st cs).
  - destruct (Z.ltb_spec (u64 (ex - ce)) (u64 (cs - st))); cbn [fst snd]; [reflexivity|discriminate].
  - cbn [fst snd]; discriminate.
Qed.

(* ------------------------------------------------- per-operation conservation *)

Lemma charge_spec_ok E0 R n g ce cs :
  frame_ok E0 R n g -> 0 <= ce -> 0 <= cs -> frame_ok E0 R n (fst (charge_spec g ce cs)).
Proof.
  intros H Hce Hcs. destruct g as [ex st ue us sp].
  unfold charge_spec. unfold_inv. gb_cbn.
  destruct (Z.ltb_spec ex ce); gb_cbn; [lia|].
  destruct (Z.ltb_spec st cs); [destruct (Z.ltb_spec (ex - ce) (cs - st))|]; gb_cbn; lia.
Qed.

Lemma charge_conserves E0 R n g ce cs :
  frame_ok E0 R n g -> u64_range ce -> u64_range cs ->
  frame_ok E0 R n (fst (GasBudget_charge g (mkGasCosts ce cs))).
Proof.
  intros H Hce Hcs. erewrite charge_no_wrap by eassumption.
  apply charge_spec_ok; unfold u64_range in *; tauto || lia.
Qed.

Lemma charge_exec_only_conserves E0 R n g r :
  frame_ok E0 R n g -> u64_range r ->
  frame_ok E0 R n (fst (GasBudget_ChargeExecutionOnly g r)).
Proof.
  intros H Hr. erewrite charge_exec_only_no_wrap by eassumption.
  destruct g as [ex st ue us sp]. unfold charge_exec_only_spec. unfold_inv. gb_cbn.
  destruct (Z.ltb_spec ex r); gb_cbn; lia.
Qed.

Lemma refund_conserves E0 R n g s :
  frame_ok E0 R n g -> 0 <= s <= n + US g ->
  frame_ok E0 R n (GasBudget_RefundState g s).
Proof.
  intros H Hs. erewrite refund_no_wrap by eassumption.
  destruct g as [ex st ue us sp]. unfold refund_spec. unfold_inv. gb_cbn. lia.
Qed.

Lemma drain_conserves E0 R n g :
  frame_ok E0 R n g -> frame_ok E0 R n (GasBudget_DrainExecution g).
Proof.
  intros H. erewrite drain_no_wrap by eassumption.
  destruct g as [ex st ue us sp]. unfold drain_spec. unfold_inv. gb_cbn. lia.
Qed.

Lemma exit_spec_ok E0 R n g x :
  frame_ok E0 R n g -> frame_ok E0 R n (exit_spec x g).
Proof.
  intros H. destruct g as [ex st ue us sp].
  destruct x; unfold exit_spec, exit_revert_spec, exit_halt_spec; unfold_inv; gb_cbn; lia.
Qed.

Lemma exit_conserves E0 R n g x :
  frame_ok E0 R n g -> frame_ok E0 R n (exit_of x g).
Proof. intros H. erewrite exit_no_wrap by eassumption. apply exit_spec_ok; assumption. Qed.

(* a reverted or halted frame hands back exactly the reservoir it started with:
   the [reservoir < 0] branch of the Go code is dead *)
Lemma exit_revert_reservoir E0 R n g :
  frame_ok E0 R n g ->
  St (GasBudget_ExitRevert g) = R /\ US (GasBudget_ExitRevert g) = 0 /\
  Sp (GasBudget_ExitRevert g) = 0 /\ Ex (GasBudget_ExitRevert g) = Ex g + Sp g /\
  UE (GasBudget_ExitRevert g) = UE g.
Proof.
  intros H. erewrite exit_revert_no_wrap by eassumption.
  destruct g as [ex st ue us sp]. unfold exit_revert_spec. unfold_inv. gb_cbn. lia.
Qed.

Lemma exit_halt_reservoir E0 R n g :
  frame_ok E0 R n g ->
  St (GasBudget_ExitHalt g) = R /\ US (GasBudget_ExitHalt g) = 0 /\
  Sp (GasBudget_ExitHalt g) = 0 /\ Ex (GasBudget_ExitHalt g) = 0 /\
  UE (GasBudget_ExitHalt g) = E0.
Proof.
  intros H. erewrite exit_halt_no_wrap by eassumption.
  destruct g as [ex st ue us sp]. unfold exit_halt_spec. unfold_inv. gb_cbn. lia.
Qed.

(* Forward: the caller is suspended consistently, the callee starts a fresh
   frame whose budgets are what was forwarded *)
Lemma forward_ok E0 R n g e :
  frame_ok E0 R n g -> 0 <= e <= Ex g ->
  susp_ok E0 R n (fst (GasBudget_Forward g e)) e (St g) /\
  frame_ok e (St g) (n + US (fst (GasBudget_Forward g e))) (snd (GasBudget_Forward g e)) /\
  snd (GasBudget_Forward g e) = NewGasBudget e (St g) /\
  US (fst (GasBudget_Forward g e)) = US g.
Proof.
  intros H He. erewrite forward_no_wrap by eassumption.
  destruct g as [ex st ue us sp]. unfold forward_spec, susp_ok, NewGasBudget. unfold_inv. gb_cbn.
  repeat split; lia.
Qed.

Lemma absorb_ok E0 R n p f Rc c :
  susp_ok E0 R n p f Rc -> frame_ok f Rc (n + US p) c ->
  frame_ok E0 R n (GasBudget_Absorb p c).
Proof.
  intros Hp Hc. erewrite absorb_no_wrap by eassumption.
  destruct p as [ex st ue us sp]. destruct c as [ex' st' ue' us' sp'].
  unfold absorb_spec, susp_ok in *. unfold_inv. gb_cbn. lia.
Qed.

Definition tot (g : GasBudget) : Z := Ex g + St g + UE g + US g.

Lemma frame_tot E0 R n g : frame_ok E0 R n g -> tot g = E0 + R.
Proof. destruct g; unfold tot; unfold_inv; gb_cbn; lia. Qed.

(* parent + child across Forward ... Absorb: whatever the callee does within its
   own invariant and however it exits, the caller's invariant is re-established
   and the totals add up at every stage *)
Lemma forward_absorb_conserves E0 R n g e :
  frame_ok E0 R n g -> 0 <= e <= Ex g ->
  let p := fst (GasBudget_Forward g e) in
  let c0 := snd (GasBudget_Forward g e) in
  tot p + tot c0 - e = tot g /\
  forall c x, frame_ok e (St g) (n + US p) c ->
    frame_ok E0 R n (GasBudget_Absorb p (exit_of x c)) /\
    tot p + tot (exit_of x c) - e = tot g /\
    tot (GasBudget_Absorb p (exit_of x c)) = tot g.
Proof.
  intros H He p c0.
  destruct (forward_ok E0 R n g e H He) as (Hs & Hc0 & _ & Hus).
  fold p in Hs, Hus. fold c0 in Hc0.
  assert (Htp : tot p = tot g - St g).
  { subst p. erewrite forward_no_wrap by eassumption.
    destruct g; unfold forward_spec, tot; gb_cbn; lia. }
  split.
  - rewrite (frame_tot _ _ _ _ Hc0). lia.
  - intros c x Hc.
    assert (Hx : frame_ok e (St g) (n + US p) (exit_of x c)) by (apply exit_conserves; assumption).
    assert (Ha : frame_ok E0 R n (GasBudget_Absorb p (exit_of x c))) by (eapply absorb_ok; eassumption).
    split; [assumption|]. split.
    + rewrite (frame_tot _ _ _ _ Hx). lia.
    + rewrite (frame_tot _ _ _ _ Ha). symmetry. eapply frame_tot; eassumption.
Qed.

(* ------------------------------------------------------------------ histories *)

Fixpoint parents_ok (E0 R n : Z) (ps : list (GasBudget * Z)) (rE rS : Z) : Prop :=
  match ps with
  | [] => E0 = rE /\ R = rS /\ n = 0
  | (p, f) :: ps' =>
      f = E0 /\ exists E0p Rp np,
        susp_ok E0p Rp np p f R /\ n = np + US p /\ parents_ok E0p Rp np ps' rE rS
  end.

Definition minv (rE rS : Z) (st : mstate) : Prop :=
  exists E0 R n, frame_ok E0 R n (cur st) /\ parents_ok E0 R n (stack st) rE rS.

Lemma sumZ_cons {A} (f : A -> Z) a l : sumZ f (a :: l) = f a + sumZ f l.
Proof. reflexivity. Qed.
Lemma sumZ_nil {A} (f : A -> Z) : sumZ f [] = 0.
Proof. reflexivity. Qed.

Lemma parents_outstanding E0 R n ps rE rS :
  parents_ok E0 R n ps rE rS -> sumZ (fun pf => US (fst pf)) ps = n.
Proof.
  revert E0 R n. induction ps as [|[p f] ps IH]; intros E0 R n H; cbn [parents_ok] in H.
  - rewrite sumZ_nil. lia.
  - destruct H as (_ & E0p & Rp & np & _ & Hn & Hps).
    rewrite sumZ_cons, (IH _ _ _ Hps). cbn [fst]. lia.
Qed.

Lemma outstanding_eq E0 R n st rE rS :
  parents_ok E0 R n (stack st) rE rS -> outstanding st = n + US (cur st).
Proof.
  intros H. unfold outstanding.
  pose proof (parents_outstanding _ _ _ _ _ _ H) as Hs. unfold sumZ in Hs. rewrite Hs. lia.
Qed.

Lemma is_u64_range x : is_u64 x = true -> u64_range x.
Proof. unfold is_u64, u64_range, T64. lia. Qed.

Lemma mstep_preserves rE rS st o :
  minv rE rS st -> guard st o = true -> minv rE rS (mstep st o).
Proof.
  intros (E0 & R & n & Hf & Hp) Hg. destruct st as [g ps]. cbn [cur stack] in *.
  destruct o; cbn [mstep guard cur stack] in *.
  - (* Charge *)
    apply andb_prop in Hg. destruct Hg as [He Hs]. apply is_u64_range in He, Hs.
    rewrite Charge_is_charge. exists E0, R, n. split; [|exact Hp].
    cbn [cur]. apply charge_conserves; assumption.
  - (* ChargeExecutionOnly *)
    apply is_u64_range in Hg.
    pose proof (charge_exec_only_conserves _ _ _ _ _ Hf Hg) as H.
    destruct (GasBudget_ChargeExecutionOnly g r) as [g' ok]. exists E0, R, n. split; assumption.
  - (* ChargeExecution *)
    apply is_u64_range in Hg.
    rewrite ChargeExecution_is_Charge, Charge_is_charge. exists E0, R, n. split; [|exact Hp].
    cbn [cur]. apply charge_conserves; [assumption..|unfold u64_range, T64; lia].
  - (* ChargeState *)
    apply is_u64_range in Hg.
    rewrite ChargeState_is_Charge, Charge_is_charge. exists E0, R, n. split; [|exact Hp].
    cbn [cur]. apply charge_conserves; [assumption|unfold u64_range, T64; lia|assumption].
  - (* Refund *)
    exists E0, R, n. split; [|exact Hp]. cbn [cur].
    apply refund_conserves; [assumption|].
    pose proof (outstanding_eq E0 R n (mkM g ps) rE rS Hp) as Ho. cbn [cur] in Ho. lia.
  - (* Drain *)
    exists E0, R, n. split; [|exact Hp]. cbn [cur]. apply drain_conserves; assumption.
  - (* Forward *)
    assert (He : 0 <= e <= Ex g) by lia.
    destruct (forward_ok _ _ _ _ _ Hf He) as (Hs & Hc & Hnew & Hus).
    destruct (GasBudget_Forward g e) as [g' child]. cbn [fst snd] in *.
    subst child. unfold NewGasBudget in *. gb_cbn.
    exists e, (St g), (n + US g'). cbn [cur stack]. split; [assumption|].
    cbn [parents_ok]. split; [reflexivity|].
    exists E0, R, n. split; [exact Hs|]. split; [reflexivity|exact Hp].
  - (* ForwardAll *)
    rewrite forward_all_is_forward.
    assert (He : 0 <= Ex g <= Ex g) by (unfold frame_ok in Hf; lia).
    destruct (forward_ok _ _ _ _ _ Hf He) as (Hs & Hc & Hnew & Hus).
    destruct (GasBudget_Forward g (Ex g)) as [g' child]. cbn [fst snd] in *.
    subst child. unfold NewGasBudget in *. gb_cbn.
    exists (Ex g), (St g), (n + US g'). cbn [cur stack]. split; [assumption|].
    cbn [parents_ok]. split; [reflexivity|].
    exists E0, R, n. split; [exact Hs|]. split; [reflexivity|exact Hp].
  - (* Return *)
    destruct ps as [|[p f] ps']; [discriminate|].
    cbn [parents_ok] in Hp. destruct Hp as (Hfe & E0p & Rp & np & Hs & Hn & Hps). subst f n.
    exists E0p, Rp, np. cbn [cur stack]. split; [|exact Hps].
    eapply absorb_ok; [eassumption|]. apply exit_conserves; assumption.
  - (* ExitSelf *)
    exists E0, R, n. split; [|exact Hp]. cbn [cur]. apply exit_conserves; assumption.
Qed.

Lemma minit_ok E S : 0 <= E -> 0 <= S -> E + S < T63 -> minv E S (minit E S).
Proof.
  intros. exists E, S, 0. unfold minit, NewGasBudget. cbn [cur stack parents_ok].
  split; [unfold_inv; gb_cbn; lia|auto].
Qed.

Lemma grun_minv rE rS ops : forall st st',
  minv rE rS st -> grun st ops = Some st' -> minv rE rS st' /\ mrun st ops = st'.
Proof.
  induction ops as [|o ops IH]; intros st st' Hi Hr; cbn [grun mrun fold_left] in *.
  - inversion Hr; subst; auto.
  - destruct (guard st o) eqn:Hg; [|discriminate].
    apply IH; [apply mstep_preserves; assumption|assumption].
Qed.

(* totals over the chain of active frames *)
Lemma parents_exec E0 R n ps rE rS :
  parents_ok E0 R n ps rE rS ->
  sumZ (fun pf => Ex (fst pf) + Sp (fst pf) + UE (fst pf) - snd pf) ps + E0 = rE.
Proof.
  revert E0 R n. induction ps as [|[p f] ps IH]; intros E0 R n H; cbn [parents_ok] in H.
  - rewrite sumZ_nil. lia.
  - destruct H as (Hf & E0p & Rp & np & Hs & Hn & Hps). specialize (IH _ _ _ Hps).
    rewrite sumZ_cons. cbn [fst snd]. unfold susp_ok in Hs. lia.
Qed.

Lemma parents_state E0 R n ps rE rS :
  parents_ok E0 R n ps rE rS ->
  sumZ (fun pf => St (fst pf) + US (fst pf) - Sp (fst pf)) ps + R = rS.
Proof.
  revert E0 R n. induction ps as [|[p f] ps IH]; intros E0 R n H; cbn [parents_ok] in H.
  - rewrite sumZ_nil. lia.
  - destruct H as (Hf & E0p & Rp & np & Hs & Hn & Hps). specialize (IH _ _ _ Hps).
    rewrite sumZ_cons. cbn [fst snd]. unfold susp_ok in Hs. lia.
Qed.

Lemma remaining_used_split st :
  remaining st + used st = exec_total st + state_total st.
Proof.
  destruct st as [g ps]. unfold remaining, used, exec_total, state_total. cbn [cur stack].
  induction ps as [|[p f] ps IH]; rewrite ?sumZ_nil, ?sumZ_cons in *; cbn [fst snd] in *; lia.
Qed.

(* every field of every active frame is non-negative and bounded by the gas the
   transaction was given *)
Definition frame_bounded (B : Z) (g : GasBudget) : Prop :=
  0 <= Ex g <= B /\ 0 <= St g <= B /\ 0 <= UE g <= B /\ 0 <= Sp g <= B /\ - B <= US g <= B.

Definition fields_bounded (B : Z) (st : mstate) : Prop :=
  frame_bounded B (cur st) /\ Forall (fun pf => frame_bounded B (fst pf)) (stack st).

Lemma chain_bound ps : forall E0 R n rE rS,
  parents_ok E0 R n ps rE rS -> 0 <= n -> E0 + R + n <= rE + rS.
Proof.
  induction ps as [|[p f] ps IH]; intros E0 R n rE rS H Hn0; cbn [parents_ok] in H.
  - lia.
  - destruct H as (Hf & E0p & Rp & np & Hs & Hn & Hps). unfold susp_ok in Hs.
    specialize (IH _ _ _ _ _ Hps). lia.
Qed.

Lemma parents_bounded ps : forall E0 R n rE rS,
  parents_ok E0 R n ps rE rS -> 0 <= E0 -> 0 <= R -> 0 <= n ->
  Forall (fun pf => frame_bounded (rE + rS) (fst pf)) ps.
Proof.
  induction ps as [|[p f] ps IH]; intros E0 R n rE rS H HE HR Hn0; cbn [parents_ok] in H.
  - constructor.
  - destruct H as (Hf & E0p & Rp & np & Hs & Hn & Hps).
    assert (Hnp : 0 <= np) by (unfold susp_ok in Hs; tauto).
    pose proof (chain_bound _ _ _ _ _ _ Hps Hnp) as Hcb.
    constructor.
    + cbn [fst]. unfold susp_ok in Hs. unfold frame_bounded. destruct p; gb_cbn. lia.
    + apply (IH _ _ _ _ _ Hps); unfold susp_ok in Hs; tauto.
Qed.

Lemma minv_facts rE rS st :
  minv rE rS st ->
  exec_total st = rE /\ state_total st = rS /\ remaining st + used st = rE + rS /\
  fields_bounded (rE + rS) st /\
  (stack st = [] -> I (cur st) rE rS /\ 0 <= US (cur st)).
Proof.
  intros (E0 & R & n & Hf & Hp). destruct st as [g ps]. cbn [cur stack] in *.
  pose proof (parents_exec _ _ _ _ _ _ Hp) as He.
  pose proof (parents_state _ _ _ _ _ _ Hp) as Hs.
  assert (Hex : exec_total (mkM g ps) = rE).
  { unfold exec_total. cbn [cur stack]. unfold frame_ok, I in Hf. lia. }
  assert (Hst : state_total (mkM g ps) = rS).
  { unfold state_total. cbn [cur stack]. unfold frame_ok, I in Hf. lia. }
  split; [exact Hex|]. split; [exact Hst|]. split; [rewrite remaining_used_split; lia|].
  assert (Hn0 : 0 <= n) by (unfold frame_ok in Hf; tauto).
  pose proof (chain_bound _ _ _ _ _ _ Hp Hn0) as Hcb.
  split.
  - split; [|apply (parents_bounded _ _ _ _ _ _ Hp); unfold frame_ok in Hf; tauto]. cbn [cur]. unfold frame_bounded. destruct g. unfold_inv. gb_cbn. lia.
  - intros ->. cbn [parents_ok] in Hp. destruct Hp as (-> & -> & ->).
    unfold frame_ok in Hf. split; [tauto|lia].
Qed.

(* THE history theorem: from a fresh budget (E, S) with E + S < 2^63, after any
   sequence of operations — including arbitrarily nested Forward/Exit/Absorb
   trees — each applied within its guard, the run of the GENERATED code (mrun)
   conserves gas in each dimension and in total, keeps every field within what
   was given, and when all frames have returned the outermost budget satisfies
   (I1), (I2) against (E, S) with a non-negative net state usage. *)
Theorem history_conserves E S ops st :
  0 <= E -> 0 <= S -> E + S < T63 ->
  grun (minit E S) ops = Some st ->
  mrun (minit E S) ops = st /\
  exec_total st = E /\ state_total st = S /\
  remaining st + used st = E + S /\
  fields_bounded (E + S) st /\
  (stack st = [] -> I (cur st) E S /\ 0 <= US (cur st)).
Proof.
  intros HE HS HB Hr.
  destruct (grun_minv E S ops _ _ (minit_ok E S HE HS HB) Hr) as (Hi & Hm).
  split; [exact Hm|]. apply minv_facts; exact Hi.
Qed.

(* no underflow along histories: at every step of a guarded history the
   generated operation coincides with its unbounded-integer reading *)
Definition mstep_spec (st : mstate) (o : op) : mstate :=
  let g := cur st in
  match o with
  | OCharge e s => mkM (fst (charge_spec g e s)) (stack st)
  | OChargeExecOnly r => mkM (fst (charge_exec_only_spec g r)) (stack st)
  | OChargeExecution r => mkM (fst (charge_spec g r 0)) (stack st)
  | OChargeState s => mkM (fst (charge_spec g 0 s)) (stack st)
  | ORefund s => mkM (refund_spec g s) (stack st)
  | ODrain => mkM (drain_spec g) (stack st)
  | OForward e => mkM (snd (forward_spec g e)) ((fst (forward_spec g e), e) :: stack st)
  | OForwardAll => mkM (snd (forward_spec g (Ex g))) ((fst (forward_spec g (Ex g)), Ex g) :: stack st)
  | OReturn x => match stack st with
                 | [] => st
                 | (p, _) :: ps => mkM (absorb_spec p (exit_spec x g)) ps
                 end
  | OExitSelf x => mkM (exit_spec x g) (stack st)
  end.

Lemma mstep_no_wrap rE rS st o :
  minv rE rS st -> guard st o = true -> mstep st o = mstep_spec st o.
Proof.
  intros (E0 & R & n & Hf & Hp) Hg. destruct st as [g ps]. cbn [cur stack] in *.
  destruct o; cbn [mstep mstep_spec guard cur stack] in *.
  - apply andb_prop in Hg. destruct Hg as [He Hs]. apply is_u64_range in He, Hs.
    rewrite Charge_is_charge. erewrite charge_no_wrap by eassumption. reflexivity.
  - apply is_u64_range in Hg. erewrite charge_exec_only_no_wrap by eassumption.
    destruct (charge_exec_only_spec g r); reflexivity.
  - apply is_u64_range in Hg. rewrite ChargeExecution_is_Charge, Charge_is_charge.
    erewrite charge_no_wrap; [reflexivity|eassumption|assumption|unfold u64_range, T64; lia].
  - apply is_u64_range in Hg. rewrite ChargeState_is_Charge, Charge_is_charge.
    erewrite charge_no_wrap; [reflexivity|eassumption|unfold u64_range, T64; lia|assumption].
  - erewrite refund_no_wrap; [reflexivity|eassumption|].
    pose proof (outstanding_eq E0 R n (mkM g ps) rE rS Hp) as Ho. cbn [cur] in Ho. lia.
  - erewrite drain_no_wrap by eassumption. reflexivity.
  - erewrite forward_no_wrap; [|eassumption|lia]. unfold forward_spec. cbn [fst snd]. gb_cbn. reflexivity.
  - rewrite forward_all_is_forward.
    erewrite forward_no_wrap; [|eassumption|unfold frame_ok in Hf; lia].
    unfold forward_spec. cbn [fst snd]. gb_cbn. reflexivity.
  - destruct ps as [|[p f] ps']; [discriminate|].
    cbn [parents_ok] in Hp. destruct Hp as (Hfe & E0p & Rp & np & Hs & Hn & Hps). subst f n.
    erewrite exit_no_wrap by eassumption.
    erewrite absorb_no_wrap; [reflexivity|eassumption|]. apply exit_spec_ok; assumption.
  - erewrite exit_no_wrap by eassumption. reflexivity.
Qed.

Fixpoint mrun_spec (st : mstate) (ops : list op) : mstate :=
  match ops with [] => st | o :: r => mrun_spec (mstep_spec st o) r end.

Theorem no_underflow E S ops st :
  0 <= E -> 0 <= S -> E + S < T63 ->
  grun (minit E S) ops = Some st ->
  mrun_spec (minit E S) ops = st.
Proof.
  intros HE HS HB. pose proof (minit_ok E S HE HS HB) as Hi. revert Hi.
  generalize (minit E S) as st0. revert st.
  induction ops as [|o ops IH]; intros st st0 Hi Hr; cbn [grun mrun_spec] in *.
  - inversion Hr; reflexivity.
  - destruct (guard st0 o) eqn:Hg; [|discriminate].
    rewrite <- (mstep_no_wrap E S st0 o Hi Hg).
    apply IH; [apply mstep_preserves; assumption|assumption].
Qed.

(* the run of the generated code and its unbounded-integer reading coincide *)
Corollary history_no_underflow E S ops st :
  0 <= E -> 0 <= S -> E + S < T63 ->
  grun (minit E S) ops = Some st ->
  mrun (minit E S) ops = mrun_spec (minit E S) ops.
Proof.
  intros HE HS HB Hr.
  rewrite (no_underflow E S ops st HE HS HB Hr).
  exact (proj1 (history_conserves E S ops st HE HS HB Hr)).
Qed.

(* every operation applied within its guard from a state satisfying the invariant
   is one of: per-operation equalities with the unbounded reading *)
Theorem no_underflow_ops :
  (forall E0 R n g ce cs, frame_ok E0 R n g -> u64_range ce -> u64_range cs ->
     GasBudget_charge g (mkGasCosts ce cs) = charge_spec g ce cs) /\
  (forall E0 R n g r, frame_ok E0 R n g -> u64_range r ->
     GasBudget_ChargeExecutionOnly g r = charge_exec_only_spec g r) /\
  (forall E0 R n g s, frame_ok E0 R n g -> 0 <= s <= n + US g ->
     GasBudget_RefundState g s = refund_spec g s) /\
  (forall E0 R n g, frame_ok E0 R n g -> GasBudget_DrainExecution g = drain_spec g) /\
  (forall E0 R n g e, frame_ok E0 R n g -> 0 <= e <= Ex g ->
     GasBudget_Forward g e = forward_spec g e) /\
  (forall E0 R n g, frame_ok E0 R n g -> GasBudget_ExitRevert g = exit_revert_spec g) /\
  (forall E0 R n g, frame_ok E0 R n g -> GasBudget_ExitHalt g = exit_halt_spec g) /\
  (forall E0 R n p f Rc c, susp_ok E0 R n p f Rc -> frame_ok f Rc (n + US p) c ->
     GasBudget_Absorb p c = absorb_spec p c).
Proof.
  repeat split.
  - exact charge_no_wrap.
  - exact charge_exec_only_no_wrap.
  - exact refund_no_wrap.
  - exact drain_no_wrap.
  - exact forward_no_wrap.
  - exact exit_revert_no_wrap.
  - exact exit_halt_no_wrap.
  - exact absorb_no_wrap.
Qed.
