(* Gas/Pool.v — proofs ABOUT THE GENERATED DEFINITIONS of Gas/Pool_gen.v
   (tools/go2coq output for /repo/core/gaspool.go): the block gas pool never
   hands out more than the block limit, never wraps, and its error branches are
   exactly the "does not fit" conditions.

   Guard (stated in every theorem through [pool_ams]/[pool_legacy]): the pool
   is created from a header gas limit < 2^63 (header validation casts the limit
   to int64; without the guard [cumulative + tx] can wrap past the comparison in
   ChargeGasAmsterdam). *)
From GV Require Import Lib.Tactics Gas.GoArith Gas.Pool_gen.
Local Open Scope Z_scope.

Notation Rem := GasPool_remaining.
Notation Ini := GasPool_initial.
Notation CU := GasPool_cumulativeUsed.
Notation CE := GasPool_cumulativeExecution.
Notation CS := GasPool_cumulativeState.

Definition P63 : Z := 9223372036854775808.
Definition P64 : Z := 18446744073709551616.

Ltac gp_cbn :=
  unfold set_GasPool_remaining, set_GasPool_initial, set_GasPool_cumulativeUsed,
         set_GasPool_cumulativeExecution, set_GasPool_cumulativeState in *;
  cbn [GasPool_remaining GasPool_initial GasPool_cumulativeUsed GasPool_cumulativeExecution
       GasPool_cumulativeState fst snd] in *.

Ltac poollia := unfold u64, i64 in *; lia.

Lemma gp_eq a b c d e a' b' c' d' e' :
  a = a' -> b = b' -> c = c' -> d = d' -> e = e' ->
  mkGasPool a b c d e = mkGasPool a' b' c' d' e'.
Proof. intros; subst; reflexivity. Qed.

(* ---- Amsterdam (EIP-8037) two-dimensional accounting ---- *)

Definition pool_ams (gp : GasPool) : Prop :=
  0 <= Ini gp < P63 /\ 0 <= CE gp <= Ini gp /\ 0 <= CS gp <= Ini gp /\
  0 <= CU gp <= CE gp + CS gp /\ Rem gp = Ini gp - CE gp.

Lemma new_pool_ams amount : 0 <= amount < P63 -> pool_ams (NewGasPool amount).
Proof. unfold pool_ams, NewGasPool, P63. gp_cbn. lia. Qed.

(* the inclusion check does not modify the pool and answers exactly
   "both reservations fit into what is left of their dimension" *)
Lemma check_amsterdam_spec gp er sr :
  pool_ams gp -> 0 <= er < P64 -> 0 <= sr < P64 ->
  GasPool_CheckGasAmsterdam gp er sr =
    (gp, if (er <=? Ini gp - CE gp) && (sr <=? Ini gp - CS gp) then 0 else ErrGasLimitReached).
Proof.
  intros H Her Hsr. destruct gp as [rem ini cu ce cs].
  unfold GasPool_CheckGasAmsterdam, pool_ams, P63, P64 in *. gp_cbn.
  assert (H1 : u64 (ini - ce) = ini - ce) by poollia.
  assert (H2 : u64 (ini - cs) = ini - cs) by poollia.
  rewrite H1, H2.
  destruct (Z.ltb_spec (ini - ce) er); destruct (Z.leb_spec er (ini - ce)); try lia; cbn [andb]; [reflexivity|].
  destruct (Z.ltb_spec (ini - cs) sr); destruct (Z.leb_spec sr (ini - cs)); try lia; reflexivity.
Qed.

(* charging a finished transaction: either it fits in both dimensions, the
   cumulative counters grow by exactly the amounts given (no wrap) and the
   invariant is kept; or the pool is untouched and the class is
   ErrGasLimitReached because a dimension would exceed the block limit *)
Lemma charge_amsterdam_spec gp te ts ru :
  pool_ams gp -> 0 <= te < P63 -> 0 <= ts < P63 -> 0 <= ru <= te + ts ->
  let r := GasPool_ChargeGasAmsterdam gp te ts ru in
  (snd r = 0 /\ CE gp + te <= Ini gp /\ CS gp + ts <= Ini gp /\
   fst r = mkGasPool (Ini gp - (CE gp + te)) (Ini gp) (CU gp + ru) (CE gp + te) (CS gp + ts) /\
   pool_ams (fst r))
  \/
  (snd r = ErrGasLimitReached /\ fst r = gp /\ (Ini gp < CE gp + te \/ Ini gp < CS gp + ts)).
Proof.
  intros H Hte Hts Hru. destruct gp as [rem ini cu ce cs].
  unfold GasPool_ChargeGasAmsterdam, pool_ams, P63, P64 in *. gp_cbn.
  assert (H1 : u64 (ce + te) = ce + te) by poollia.
  assert (H2 : u64 (cs + ts) = cs + ts) by poollia.
  rewrite H1, H2.
  destruct (Z.ltb_spec ini (Z.max (ce + te) (cs + ts))); gp_cbn.
  - right. split; [reflexivity|]. split; [reflexivity|]. lia.
  - left. split; [reflexivity|]. split; [lia|]. split; [lia|].
    assert (H3 : u64 (cu + ru) = cu + ru) by poollia.
    assert (H4 : u64 (ini - (ce + te)) = ini - (ce + te)) by poollia.
    rewrite H3, H4. split; [reflexivity|]. gp_cbn. lia.
Qed.

(* a transaction whose actual usage stays within the reservations that passed
   the inclusion check is always charged successfully *)
Lemma check_then_charge_ok gp er sr te ts ru :
  pool_ams gp -> 0 <= er < P64 -> 0 <= sr < P64 ->
  snd (GasPool_CheckGasAmsterdam gp er sr) = 0 ->
  0 <= te <= er -> 0 <= ts <= sr -> 0 <= ru <= te + ts ->
  snd (GasPool_ChargeGasAmsterdam gp te ts ru) = 0 /\
  pool_ams (fst (GasPool_ChargeGasAmsterdam gp te ts ru)) /\
  Ini (fst (GasPool_ChargeGasAmsterdam gp te ts ru)) = Ini gp.
Proof.
  intros H Her Hsr Hc Hte Hts Hru.
  rewrite check_amsterdam_spec in Hc by assumption. cbn [snd] in Hc.
  assert (Hfit : er <= Ini gp - CE gp /\ sr <= Ini gp - CS gp).
  { destruct (Z.leb_spec er (Ini gp - CE gp)); destruct (Z.leb_spec sr (Ini gp - CS gp));
      cbn [andb] in Hc; try (unfold ErrGasLimitReached in Hc; discriminate); lia. }
  assert (Hb : 0 <= te < P63 /\ 0 <= ts < P63) by (unfold pool_ams, P63 in *; lia).
  destruct (charge_amsterdam_spec gp te ts ru H (proj1 Hb) (proj2 Hb) Hru) as [(He & _ & _ & Heq & Hi)|(He & _ & Hover)].
  - split; [assumption|]. split; [assumption|]. rewrite Heq. reflexivity.
  - unfold pool_ams in H. lia.
Qed.

(* Used() never panics, never wraps and never exceeds the block limit *)
Lemma used_amsterdam gp :
  pool_ams gp ->
  GasPool_Used gp = Some (gp, Z.max (CE gp) (CS gp)) /\ 0 <= Z.max (CE gp) (CS gp) <= Ini gp.
Proof.
  intros H. destruct gp as [rem ini cu ce cs].
  unfold GasPool_Used, pool_ams, P63 in *. gp_cbn. split; [|lia].
  destruct (Z.ltb_spec 0 ce); destruct (Z.ltb_spec 0 cs); cbn [orb]; try reflexivity.
  destruct (Z.ltb_spec ini rem); [lia|].
  assert (H3 : u64 (ini - rem) = Z.max ce cs) by poollia. rewrite H3. reflexivity.
Qed.

(* a block of Amsterdam transactions: (execution reservation, state reservation,
   actual execution, actual state, receipt gas) *)
Record ams_tx := mkAmsTx { a_er : Z; a_sr : Z; a_te : Z; a_ts : Z; a_ru : Z }.

Definition ams_tx_ok (t : ams_tx) : Prop :=
  0 <= a_er t < P64 /\ 0 <= a_sr t < P64 /\ 0 <= a_te t <= a_er t /\ 0 <= a_ts t <= a_sr t /\
  0 <= a_ru t <= a_te t + a_ts t.

(* preCheck + settleGas of one transaction: skipped when the check refuses it *)
Definition ams_apply (gp : GasPool) (t : ams_tx) : GasPool * Z :=
  let '(gp1, e1) := GasPool_CheckGasAmsterdam gp (a_er t) (a_sr t) in
  if e1 =? 0 then GasPool_ChargeGasAmsterdam gp1 (a_te t) (a_ts t) (a_ru t) else (gp1, e1).

Definition ams_block (gp : GasPool) (txs : list ams_tx) : GasPool :=
  fold_left (fun g t => fst (ams_apply g t)) txs gp.

Lemma ams_apply_ok gp t :
  pool_ams gp -> ams_tx_ok t ->
  pool_ams (fst (ams_apply gp t)) /\ Ini (fst (ams_apply gp t)) = Ini gp /\
  (snd (ams_apply gp t) = 0 \/
   (snd (ams_apply gp t) = ErrGasLimitReached /\ fst (ams_apply gp t) = gp)).
Proof.
  intros H (Her & Hsr & Hte & Hts & Hru). unfold ams_apply.
  pose proof (check_amsterdam_spec gp _ _ H Her Hsr) as Hc. rewrite Hc.
  destruct ((a_er t <=? Ini gp - CE gp) && (a_sr t <=? Ini gp - CS gp)) eqn:Hfit.
  - change (0 =? 0) with true. cbn iota.
    assert (Hs : snd (GasPool_CheckGasAmsterdam gp (a_er t) (a_sr t)) = 0) by (rewrite Hc; reflexivity).
    destruct (check_then_charge_ok gp _ _ _ _ _ H Her Hsr Hs Hte Hts Hru) as (Hz & Hi & Hini).
    split; [assumption|]. split; [assumption|left; assumption].
  - change (ErrGasLimitReached =? 0) with false. cbn iota. cbn [fst snd].
    split; [assumption|]. split; [reflexivity|right; split; reflexivity].
Qed.

Theorem pool_within_limits_amsterdam limit txs :
  0 <= limit < P63 -> Forall ams_tx_ok txs ->
  let gp := ams_block (NewGasPool limit) txs in
  pool_ams gp /\ Ini gp = limit /\
  GasPool_Used gp = Some (gp, Z.max (CE gp) (CS gp)) /\
  Z.max (CE gp) (CS gp) <= limit /\ 0 <= Rem gp <= limit /\ CU gp <= 2 * limit.
Proof.
  intros Hl Htx. cbn zeta.
  assert (Hgen : forall gp, pool_ams gp -> Ini gp = limit ->
            pool_ams (ams_block gp txs) /\ Ini (ams_block gp txs) = limit).
  { induction Htx as [|t txs Ht _ IH]; intros gp Hi Hini; cbn [ams_block fold_left].
    - auto.
    - destruct (ams_apply_ok gp t Hi Ht) as (Hi' & Hini' & _).
      apply IH; [assumption|lia]. }
  destruct (Hgen (NewGasPool limit) (new_pool_ams limit Hl) eq_refl) as (Hi & Hini).
  destruct (used_amsterdam _ Hi) as (Hu & Hub).
  split; [assumption|]. split; [assumption|]. split; [assumption|].
  unfold pool_ams in Hi. lia.
Qed.

(* ---- legacy (pre-Amsterdam) scalar accounting ---- *)

Definition pool_legacy (gp : GasPool) : Prop :=
  0 <= Ini gp < P64 /\ CE gp = 0 /\ CS gp = 0 /\ 0 <= Rem gp /\ 0 <= CU gp /\
  Rem gp + CU gp = Ini gp.

Lemma new_pool_legacy amount : 0 <= amount < P64 -> pool_legacy (NewGasPool amount).
Proof. unfold pool_legacy, NewGasPool, P64. gp_cbn. lia. Qed.

(* buying gas: refused exactly when the limit exceeds what remains, otherwise the
   limit is subtracted without wrapping *)
Lemma check_legacy_spec gp amount :
  pool_legacy gp -> 0 <= amount < P64 ->
  GasPool_CheckGasLegacy gp amount =
    if Rem gp <? amount then (gp, ErrGasLimitReached)
    else (mkGasPool (Rem gp - amount) (Ini gp) (CU gp) (CE gp) (CS gp), 0).
Proof.
  intros H Ha. destruct gp as [rem ini cu ce cs].
  unfold GasPool_CheckGasLegacy, pool_legacy, P64 in *. gp_cbn.
  destruct (Z.ltb_spec rem amount); [reflexivity|].
  f_equal. apply gp_eq; poollia.
Qed.

(* one legacy transaction: buy [limit], then give back [returned] and record
   [used] with returned + used = limit.  The overflow branch of ChargeGasLegacy
   is dead and remaining + cumulativeUsed = initial is restored. *)
Lemma legacy_tx_ok gp limit returned used :
  pool_legacy gp -> 0 <= limit < P64 -> limit <= Rem gp ->
  0 <= returned -> 0 <= used -> returned + used = limit ->
  let gp1 := fst (GasPool_CheckGasLegacy gp limit) in
  snd (GasPool_CheckGasLegacy gp limit) = 0 /\
  GasPool_ChargeGasLegacy gp1 returned used =
    (mkGasPool (Rem gp - used) (Ini gp) (CU gp + used) (CE gp) (CS gp), 0) /\
  pool_legacy (fst (GasPool_ChargeGasLegacy gp1 returned used)).
Proof.
  intros H Hl Hfit Hr Hu Hsum. cbn zeta.
  rewrite (check_legacy_spec gp limit H Hl).
  destruct (Z.ltb_spec (Rem gp) limit); [lia|]. cbn [fst snd]. split; [reflexivity|].
  destruct gp as [rem ini cu ce cs].
  unfold GasPool_ChargeGasLegacy, pool_legacy, P64 in *. gp_cbn.
  assert (Hw1 : u64 (18446744073709551615 - returned) = 18446744073709551615 - returned) by poollia.
  rewrite Hw1.
  destruct (Z.ltb_spec (18446744073709551615 - returned) (rem - limit)); [lia|].
  assert (Hw2 : u64 (rem - limit + returned) = rem - used) by poollia.
  assert (Hw3 : u64 (cu + used) = cu + used) by poollia.
  rewrite Hw2, Hw3. split; [reflexivity|]. gp_cbn. lia.
Qed.

Lemma used_legacy gp :
  pool_legacy gp -> GasPool_Used gp = Some (gp, CU gp) /\ 0 <= CU gp <= Ini gp.
Proof.
  intros H. destruct gp as [rem ini cu ce cs].
  unfold GasPool_Used, pool_legacy, P64 in *. gp_cbn. split; [|lia].
  destruct H as (Hi & -> & -> & Hrem & Hcu & Hsum). cbn [Z.ltb Z.compare orb].
  destruct (Z.ltb_spec ini rem); [lia|].
  assert (H3 : u64 (ini - rem) = cu) by poollia. rewrite H3. reflexivity.
Qed.

(* a block of legacy transactions (gas limit, gas used); a transaction that does
   not fit is skipped *)
Definition legacy_apply (gp : GasPool) (t : Z * Z) : GasPool :=
  let '(limit, used) := t in
  let '(gp1, e1) := GasPool_CheckGasLegacy gp limit in
  if e1 =? 0 then fst (GasPool_ChargeGasLegacy gp1 (limit - used) used) else gp1.

Definition legacy_block (gp : GasPool) (txs : list (Z * Z)) : GasPool :=
  fold_left legacy_apply txs gp.

Definition legacy_tx_wf (t : Z * Z) : Prop := 0 <= snd t <= fst t /\ fst t < P64.

Lemma legacy_apply_ok gp t :
  pool_legacy gp -> legacy_tx_wf t -> pool_legacy (legacy_apply gp t) /\ Ini (legacy_apply gp t) = Ini gp.
Proof.
  intros H Ht. destruct t as [limit used]. unfold legacy_tx_wf in Ht. cbn [fst snd] in Ht.
  unfold legacy_apply.
  assert (Hl : 0 <= limit < P64) by lia.
  pose proof (check_legacy_spec gp limit H Hl) as Hc.
  destruct (Z.ltb_spec (Rem gp) limit) as [Hlt|Hge].
  - rewrite Hc. cbn [Z.eqb ErrGasLimitReached]. split; [assumption|reflexivity].
  - assert (Hr : 0 <= limit - used) by lia. assert (Hu : 0 <= used) by lia.
    assert (Hs : limit - used + used = limit) by lia.
    destruct (legacy_tx_ok gp limit (limit - used) used H Hl Hge Hr Hu Hs) as (Hz & Heq & Hi).
    rewrite Hc in *. cbn [fst snd Z.eqb] in *. split; [assumption|].
    rewrite Heq. reflexivity.
Qed.

Theorem pool_within_limits_legacy limit txs :
  0 <= limit < P64 -> Forall legacy_tx_wf txs ->
  let gp := legacy_block (NewGasPool limit) txs in
  pool_legacy gp /\ Ini gp = limit /\
  GasPool_Used gp = Some (gp, CU gp) /\ 0 <= CU gp <= limit /\ 0 <= Rem gp <= limit.
Proof.
  intros Hl Htx. cbn zeta.
  assert (Hgen : forall gp, pool_legacy gp -> Ini gp = limit ->
            pool_legacy (legacy_block gp txs) /\ Ini (legacy_block gp txs) = limit).
  { induction Htx as [|t txs Ht _ IH]; intros gp Hi Hini; cbn [legacy_block fold_left].
    - auto.
    - destruct (legacy_apply_ok gp t Hi Ht) as (Hi' & Hini'). apply IH; [assumption|lia]. }
  destruct (Hgen (NewGasPool limit) (new_pool_legacy limit Hl) eq_refl) as (Hi & Hini).
  destruct (used_legacy _ Hi) as (Hu & Hub).
  split; [assumption|]. split; [assumption|]. split; [assumption|].
  unfold pool_legacy in Hi. lia.
Qed.
