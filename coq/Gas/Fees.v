(* Gas/Fees.v — SPECIFICATION of the header fee and gas formulas (property C35),
   written from the EIP texts in unbounded integers (Z); no machine arithmetic,
   no reference to the Go code.  Constants are the EIPs' own names.

     EIP-1559  base fee update and gas-limit bounds (the 1/1024 rule and the 5000 minimum
               are the Yellow Paper's, restated in EIP-1559's validity checks)
     EIP-4844  excess blob gas, fake_exponential, base fee per blob gas
     EIP-7918  blob base fee bounded by execution cost (reserve price; Osaka)
     EIP-7691 / EIP-7892 (BPO)  blob schedule = parameters (target, max, update fraction)
     EIP-2 / EIP-2028 / EIP-2930 / EIP-3860 / EIP-7702   intrinsic gas
     EIP-7623  calldata floor
     EIP-2780 / EIP-7976 / EIP-7981 / EIP-8037 (Amsterdam drafts)  re-priced intrinsic/floor
               — the drafts are not available offline; their formulas here are taken
               from the constants' documentation in params/protocol_params.go.

   Loops of the EIP pseudo-code are given as big-step relations (no fuel). *)
From Coq Require Import ZArith List Bool.
Import ListNotations.
Local Open Scope Z_scope.

(* ---------------- EIP-1559 ---------------- *)
Definition INITIAL_BASE_FEE : Z := 1000000000.
Definition BASE_FEE_MAX_CHANGE_DENOMINATOR : Z := 8.
Definition ELASTICITY_MULTIPLIER : Z := 2.
Definition GAS_LIMIT_ADJUSTMENT_FACTOR : Z := 1024.
Definition GAS_LIMIT_MINIMUM : Z := 5000.

(* "assert header.gas_limit < parent_gas_limit + parent_gas_limit // 1024
    assert header.gas_limit > parent_gas_limit - parent_gas_limit // 1024
    assert header.gas_limit >= 5000"
   [parent_gas_limit] is already multiplied by the elasticity at the fork block. *)
Definition spec_gas_limit_in_bounds (parent_gas_limit gas_limit : Z) : bool :=
  (gas_limit <? parent_gas_limit + parent_gas_limit / GAS_LIMIT_ADJUSTMENT_FACTOR) &&
  (gas_limit >? parent_gas_limit - parent_gas_limit / GAS_LIMIT_ADJUSTMENT_FACTOR).
Definition spec_gas_limit_valid (parent_gas_limit gas_limit : Z) : bool :=
  spec_gas_limit_in_bounds parent_gas_limit gas_limit && (gas_limit >=? GAS_LIMIT_MINIMUM).
(* the same as an error class, bounds first: 0 valid, 1 out of bounds, 2 below the minimum *)
Definition spec_gas_limit_class (parent_gas_limit gas_limit : Z) : Z :=
  if negb (spec_gas_limit_in_bounds parent_gas_limit gas_limit) then 1
  else if gas_limit <? GAS_LIMIT_MINIMUM then 2 else 0.

(* expected base fee of a block whose parent is a (post-fork) EIP-1559 block *)
Definition spec_base_fee (parent_gas_limit parent_gas_used parent_base_fee : Z) : Z :=
  let parent_gas_target := parent_gas_limit / ELASTICITY_MULTIPLIER in
  if parent_gas_used =? parent_gas_target then parent_base_fee
  else if parent_gas_used >? parent_gas_target then
    let gas_used_delta := parent_gas_used - parent_gas_target in
    let base_fee_per_gas_delta :=
      Z.max (parent_base_fee * gas_used_delta / parent_gas_target / BASE_FEE_MAX_CHANGE_DENOMINATOR) 1 in
    parent_base_fee + base_fee_per_gas_delta
  else
    let gas_used_delta := parent_gas_target - parent_gas_used in
    let base_fee_per_gas_delta :=
      parent_base_fee * gas_used_delta / parent_gas_target / BASE_FEE_MAX_CHANGE_DENOMINATOR in
    parent_base_fee - base_fee_per_gas_delta.

(* "if INITIAL_FORK_BLOCK_NUMBER == block.number: expected = INITIAL_BASE_FEE" *)
Definition spec_expected_base_fee (parent_is_1559 : bool)
    (parent_gas_limit parent_gas_used parent_base_fee : Z) : Z :=
  if parent_is_1559 then spec_base_fee parent_gas_limit parent_gas_used parent_base_fee
  else INITIAL_BASE_FEE.

(* ---------------- EIP-4844 ---------------- *)
Definition GAS_PER_BLOB : Z := 131072.            (* 2**17 *)
Definition MIN_BASE_FEE_PER_BLOB_GAS : Z := 1.
Definition BLOB_BASE_COST : Z := 8192.            (* 2**13, EIP-7918 *)

(* def fake_exponential(factor, numerator, denominator):
       i = 1; output = 0; numerator_accum = factor * denominator
       while numerator_accum > 0:
           output += numerator_accum
           numerator_accum = (numerator_accum * numerator) // (denominator * i)
           i += 1
       return output // denominator                                              *)
Inductive fe_while (numerator denominator : Z) : Z -> Z -> Z -> Z -> Prop :=
| fe_while_exit : forall i output accum,
    accum <= 0 -> fe_while numerator denominator i output accum output
| fe_while_iter : forall i output accum r,
    accum > 0 ->
    fe_while numerator denominator (i + 1) (output + accum)
             (accum * numerator / (denominator * i)) r ->
    fe_while numerator denominator i output accum r.

Definition spec_fake_exponential (factor numerator denominator result : Z) : Prop :=
  exists output, fe_while numerator denominator 1 0 (factor * denominator) output /\
                 result = output / denominator.

(* get_base_fee_per_blob_gas *)
Definition spec_blob_base_fee (update_fraction excess_blob_gas result : Z) : Prop :=
  spec_fake_exponential MIN_BASE_FEE_PER_BLOB_GAS excess_blob_gas update_fraction result.

(* blob schedule (EIP-7691, EIP-7892): target and max blob counts, update fraction *)
Record blob_params := { bp_target : Z; bp_max : Z; bp_update_fraction : Z }.

(* EIP-4844 calc_excess_blob_gas *)
Definition spec_excess_blob_gas_4844 (p : blob_params) (parent_excess parent_used : Z) : Z :=
  let target_blob_gas := bp_target p * GAS_PER_BLOB in
  if parent_excess + parent_used <? target_blob_gas then 0
  else parent_excess + parent_used - target_blob_gas.

(* EIP-7918 calc_excess_blob_gas; [parent_blob_base_fee] = get_base_fee_per_blob_gas(parent) *)
Definition spec_excess_blob_gas_7918 (p : blob_params)
    (parent_excess parent_used parent_base_fee parent_blob_base_fee : Z) : Z :=
  let target_blob_gas := bp_target p * GAS_PER_BLOB in
  if parent_excess + parent_used <? target_blob_gas then 0
  else if BLOB_BASE_COST * parent_base_fee >? GAS_PER_BLOB * parent_blob_base_fee then
    parent_excess + parent_used * (bp_max p - bp_target p) / bp_max p
  else parent_excess + parent_used - target_blob_gas.

(* which schedule entry applies at a timestamp: that of the most recent activated fork
   that has an entry (EIP-7892).  [sched] lists (activation time, parameters) with the
   NEWEST fork first; a fork without activation time or without entry is skipped. *)
Fixpoint spec_active_blob_params (time : Z) (sched : list (option Z * option blob_params))
  : option blob_params :=
  match sched with
  | [] => None
  | (t, p) :: older =>
      match (match t, p with
             | Some t, Some p => if t <=? time then Some p else None
             | _, _ => None
             end) with
      | Some q => Some q
      | None => spec_active_blob_params time older
      end
  end.

(* ---------------- intrinsic gas ---------------- *)
Record spec_forks := {
  f_homestead : bool;     (* EIP-2 *)
  f_istanbul : bool;      (* EIP-2028 *)
  f_shanghai : bool;      (* EIP-3860 *)
  f_amsterdam : bool }.   (* EIP-2780, EIP-7976, EIP-7981, EIP-8037 *)

Definition TX_BASE_COST : Z := 21000.
Definition TX_CREATE_COST : Z := 32000.                 (* EIP-2: 21000 + 32000 for creations *)
Definition TX_DATA_ZERO_COST : Z := 4.
Definition TX_DATA_NONZERO_COST_FRONTIER : Z := 68.
Definition TX_DATA_NONZERO_COST_2028 : Z := 16.
Definition INITCODE_WORD_COST : Z := 2.                 (* EIP-3860 *)
Definition ACCESS_LIST_ADDRESS_COST : Z := 2400.        (* EIP-2930 *)
Definition ACCESS_LIST_STORAGE_KEY_COST : Z := 1900.    (* EIP-2930 *)
Definition PER_EMPTY_ACCOUNT_COST : Z := 25000.         (* EIP-7702 *)
Definition STANDARD_TOKEN_COST : Z := 4.                (* EIP-7623 *)
Definition TOTAL_COST_FLOOR_PER_TOKEN : Z := 10.        (* EIP-7623 *)
(* Amsterdam *)
Definition TX_BASE_COST_2780 : Z := 12000.
Definition TX_VALUE_COST_2780 : Z := 6000.
Definition COLD_ACCOUNT_ACCESS : Z := 3000.             (* EIP-8038 *)
Definition ACCOUNT_WRITE : Z := 9000.
Definition CREATE_ACCESS : Z := ACCOUNT_WRITE + COLD_ACCOUNT_ACCESS.
Definition ACCESS_LIST_ADDRESS_COST_AMSTERDAM : Z := 2900.
Definition ACCESS_LIST_STORAGE_KEY_COST_AMSTERDAM : Z := 2000.
Definition PER_AUTH_BASE_COST : Z := 7816.              (* EIP-8037 *)
Definition TOTAL_COST_FLOOR_PER_TOKEN_7976 : Z := 16.   (* EIP-7976 *)

(* ceil(n / 32) *)
Definition words (n : Z) : Z := (n + 31) / 32.

(* EIP-2780 base: sender charge + recipient touch + value transfer *)
Definition spec_base_2780 (is_create is_self has_value : bool) : Z :=
  TX_BASE_COST_2780
  + (if is_self then 0 else if is_create then CREATE_ACCESS else COLD_ACCOUNT_ACCESS)
  + (if has_value && negb is_self && negb is_create then TX_VALUE_COST_2780 else 0).

Definition spec_intrinsic_gas (f : spec_forks) (is_create is_self has_value : bool)
    (auth_count zero_bytes nonzero_bytes al_addresses al_storage_keys : Z) : Z :=
  let data_len := zero_bytes + nonzero_bytes in
  (* base *)
  (if f_amsterdam f then spec_base_2780 is_create is_self has_value
   else if is_create && f_homestead f then TX_BASE_COST + TX_CREATE_COST else TX_BASE_COST)
  (* EIP-7702 authorizations *)
  + auth_count * (if f_amsterdam f then PER_AUTH_BASE_COST else PER_EMPTY_ACCOUNT_COST)
  (* calldata *)
  + nonzero_bytes * (if f_istanbul f then TX_DATA_NONZERO_COST_2028 else TX_DATA_NONZERO_COST_FRONTIER)
  + zero_bytes * TX_DATA_ZERO_COST
  (* EIP-3860 init code *)
  + (if is_create && f_shanghai f then INITCODE_WORD_COST * words data_len else 0)
  (* EIP-2930 access list (EIP-7981: plus its data at the floor token price) *)
  + al_addresses * (if f_amsterdam f then ACCESS_LIST_ADDRESS_COST_AMSTERDAM else ACCESS_LIST_ADDRESS_COST)
  + al_storage_keys * (if f_amsterdam f then ACCESS_LIST_STORAGE_KEY_COST_AMSTERDAM else ACCESS_LIST_STORAGE_KEY_COST)
  + (if f_amsterdam f then
       al_addresses * (20 * STANDARD_TOKEN_COST * TOTAL_COST_FLOOR_PER_TOKEN_7976)
       + al_storage_keys * (32 * STANDARD_TOKEN_COST * TOTAL_COST_FLOOR_PER_TOKEN_7976)
     else 0).

(* EIP-7623: tokens_in_calldata = zero_bytes + nonzero_bytes * 4; floor = 21000 + 10 * tokens.
   EIP-7976/7981 (Amsterdam): every calldata byte and every access-list byte counts 4
   tokens, 16 gas per token, anchored at the EIP-2780 base. *)
Definition spec_floor_data_gas (f : spec_forks) (is_create is_self has_value : bool)
    (zero_bytes nonzero_bytes al_addresses al_storage_keys : Z) : Z :=
  if f_amsterdam f then
    spec_base_2780 is_create is_self has_value
    + TOTAL_COST_FLOOR_PER_TOKEN_7976 *
      (STANDARD_TOKEN_COST * (zero_bytes + nonzero_bytes)
       + al_addresses * (20 * STANDARD_TOKEN_COST) + al_storage_keys * (32 * STANDARD_TOKEN_COST))
  else
    TX_BASE_COST + TOTAL_COST_FLOOR_PER_TOKEN * (zero_bytes + nonzero_bytes * STANDARD_TOKEN_COST).
