(* Gas/FeesImpl.v — IMPLEMENTATION model of go-ethereum's header fee and gas
   arithmetic (property C35).  A statement-by-statement transcription of

     /repo/consensus/misc/gaslimit.go          VerifyGaslimit
     /repo/consensus/misc/eip1559/eip1559.go   VerifyEIP1559Header, CalcBaseFee
     /repo/consensus/misc/eip4844/eip4844.go   latestBlobConfig, CalcExcessBlobGas,
                                               calcExcessBlobGas, blobBaseFee, blobPrice,
                                               CalcBlobFee, fakeExponential
     /repo/core/state_transition.go            IntrinsicGas, intrinsicBaseGasEIP2780,
                                               FloorDataGas, toWordSize
     /repo/params/config.go                    isBlockForked, isTimestampForked, IsLondon,
                                               IsCancun, IsPrague, IsOsaka, IsBPO1..5
     /repo/params/protocol_params.go           the constants below

   with the machine arithmetic written out:  uint64 values are Z in [0, 2^64)
   and every Go expression that can wrap carries [u64] (mod 2^64); int64 values
   carry [i64] (two's complement); *big.Int is unbounded Z (nil = None);
   big.Int.Div is Euclidean division and panics on a zero divisor; the
   fakeExponential loop runs on binary fuel.  Go panics and error returns are
   explicit results, never totalised away.  No proofs in this file. *)
From Coq Require Import ZArith List Bool.
Import ListNotations.
Local Open Scope Z_scope.

(* ---------- results ---------- *)
Inductive res (A : Type) : Type :=
| Ok (a : A)
| Err (class : Z)       (* the Go function returned a non-nil error of this class *)
| Panic (class : Z)     (* the Go function panics: 1 nil dereference, 2 division by zero,
                           3 explicit panic("...") *)
| OutOfFuel.            (* the model's loop fuel ran out (shown unreachable) *)
Arguments Ok {A} a.
Arguments Err {A} class.
Arguments Panic {A} class.
Arguments OutOfFuel {A}.

Definition bind {A B} (r : res A) (f : A -> res B) : res B :=
  match r with
  | Ok a => f a
  | Err c => Err c
  | Panic c => Panic c
  | OutOfFuel => OutOfFuel
  end.
Notation "x <- r ;; k" := (bind r (fun x => k)) (at level 61, r at next level, right associativity).

Definition PanicNil := 1.
Definition PanicDivZero := 2.
Definition PanicExplicit := 3.

(* *p on a possibly-nil pointer *)
Definition deref {A} (o : option A) : res A :=
  match o with Some a => Ok a | None => Panic PanicNil end.

(* ---------- machine integers ---------- *)
Definition two64 : Z := 18446744073709551616.          (* 2^64 *)
Definition two63 : Z := 9223372036854775808.           (* 2^63 *)
Definition MaxUint64 : Z := 18446744073709551615.      (* math.MaxUint64 *)
Definition u64 (x : Z) : Z := x mod two64.                       (* uint64 wrap / conversion *)
Definition i64 (x : Z) : Z := (x + two63) mod two64 - two63.     (* int64 wrap / conversion *)

(* big.Int.Div (Euclidean division; panics on zero) *)
Definition big_div (a b : Z) : res Z :=
  if b =? 0 then Panic PanicDivZero
  else if 0 <? b then Ok (a / b) else Ok (- (a / - b)).

(* uint64 / uint64 (runtime panic on zero) *)
Definition u64_div (a b : Z) : res Z :=
  if b =? 0 then Panic PanicDivZero else Ok (a / b).

(* ---------- params/protocol_params.go ---------- *)
Definition GasLimitBoundDivisor : Z := 1024.
Definition MinGasLimit : Z := 5000.
Definition MaxGasLimit : Z := 9223372036854775807.   (* 0x7fffffffffffffff *)
Definition CallNewAccountGas : Z := 25000.
Definition TxGas : Z := 21000.
Definition TxGasContractCreation : Z := 53000.
Definition TxDataZeroGas : Z := 4.
Definition InitCodeWordGas : Z := 2.
Definition TxDataNonZeroGasFrontier : Z := 68.
Definition TxDataNonZeroGasEIP2028 : Z := 16.
Definition TxTokenPerNonZeroByte : Z := 4.
Definition TxCostFloorPerToken : Z := 10.
Definition TxCostFloorPerToken7976 : Z := 16.
Definition TxAccessListAddressGas : Z := 2400.
Definition TxAccessListStorageKeyGas : Z := 1900.
Definition ExecutionPerAuthBaseCost : Z := 7816.
Definition TxBaseCost2780 : Z := 12000.
Definition TxValueCost2780 : Z := 6000.
Definition ColdAccountAccessAmsterdam : Z := 3000.
Definition CreateAccessAmsterdam : Z := 12000.
Definition TxAccessListAddressGasAmsterdam : Z := 2900.
Definition TxAccessListStorageKeyGasAmsterdam : Z := 2000.
Definition DefaultBaseFeeChangeDenominator : Z := 8.
Definition DefaultElasticityMultiplier : Z := 2.
Definition InitialBaseFee : Z := 1000000000.
Definition BlobTxBlobGasPerBlob : Z := 131072.        (* 1 << 17 *)
Definition BlobTxMinBlobGasprice : Z := 1.
Definition BlobBaseCost : Z := 8192.                  (* 1 << 13 *)
Definition AddressLength : Z := 20.
Definition HashLength : Z := 32.

(* ---------- the projections of params.ChainConfig / types.Header that the
   transcribed functions read ---------- *)
Record blob_config := {                  (* params.BlobConfig / eip4844.BlobConfig *)
  bc_target : Z;                         (* int  (int64 on the 64-bit platform) *)
  bc_max : Z;                            (* int *)
  bc_update_fraction : Z }.              (* uint64 *)

Record blob_schedule := {                (* params.BlobScheduleConfig; nil entry = None *)
  bs_cancun : option blob_config; bs_prague : option blob_config;
  bs_bpo1 : option blob_config; bs_bpo2 : option blob_config; bs_bpo3 : option blob_config;
  bs_bpo4 : option blob_config; bs_bpo5 : option blob_config }.

Record chain_config := {
  cfg_london_block : option Z;           (* *big.Int, nil = None *)
  cfg_cancun_time : option Z;            (* *uint64 *)
  cfg_prague_time : option Z;
  cfg_osaka_time : option Z;
  cfg_bpo1_time : option Z; cfg_bpo2_time : option Z; cfg_bpo3_time : option Z;
  cfg_bpo4_time : option Z; cfg_bpo5_time : option Z;
  cfg_blob_schedule : option blob_schedule }.

Record header := {
  h_number : Z;                          (* *big.Int, non-nil *)
  h_gas_limit : Z;                       (* uint64 *)
  h_gas_used : Z;                        (* uint64 *)
  h_time : Z;                            (* uint64 *)
  h_base_fee : option Z;                 (* *big.Int *)
  h_excess_blob_gas : option Z;          (* *uint64 *)
  h_blob_gas_used : option Z }.          (* *uint64 *)

(* params/config.go isBlockForked *)
Definition is_block_forked (s head : option Z) : bool :=
  match s, head with
  | Some s, Some head => s <=? head
  | _, _ => false
  end.
(* params/config.go isTimestampForked *)
Definition is_timestamp_forked (s : option Z) (head : Z) : bool :=
  match s with Some s => s <=? head | None => false end.

Definition is_london (c : chain_config) (num : option Z) : bool :=
  is_block_forked (cfg_london_block c) num.
Definition is_cancun c num time := is_london c num && is_timestamp_forked (cfg_cancun_time c) time.
Definition is_prague c num time := is_london c num && is_timestamp_forked (cfg_prague_time c) time.
Definition is_osaka c num time := is_london c num && is_timestamp_forked (cfg_osaka_time c) time.
Definition is_bpo1 c num time := is_london c num && is_timestamp_forked (cfg_bpo1_time c) time.
Definition is_bpo2 c num time := is_london c num && is_timestamp_forked (cfg_bpo2_time c) time.
Definition is_bpo3 c num time := is_london c num && is_timestamp_forked (cfg_bpo3_time c) time.
Definition is_bpo4 c num time := is_london c num && is_timestamp_forked (cfg_bpo4_time c) time.
Definition is_bpo5 c num time := is_london c num && is_timestamp_forked (cfg_bpo5_time c) time.

(* ChainConfig.ElasticityMultiplier / BaseFeeChangeDenominator *)
Definition elasticity_multiplier (c : chain_config) : Z := DefaultElasticityMultiplier.
Definition base_fee_change_denominator (c : chain_config) : Z := DefaultBaseFeeChangeDenominator.

(* ================= consensus/misc/gaslimit.go ================= *)

(* VerifyGaslimit.  Result = error class: 0 nil, 1 "invalid gas limit: have …
   want … +/- …", 2 "invalid gas limit below 5000". *)
Definition verify_gaslimit (parentGasLimit headerGasLimit : Z) : Z :=
  (* diff := int64(parentGasLimit) - int64(headerGasLimit) *)
  let diff := i64 (i64 parentGasLimit - i64 headerGasLimit) in
  (* if diff < 0 { diff *= -1 } *)
  let diff := if diff <? 0 then i64 (diff * -1) else diff in
  (* limit := parentGasLimit / params.GasLimitBoundDivisor *)
  let limit := parentGasLimit / GasLimitBoundDivisor in
  (* if uint64(diff) >= limit { return error } *)
  if u64 diff >=? limit then 1
  (* if headerGasLimit < params.MinGasLimit { return error } *)
  else if headerGasLimit <? MinGasLimit then 2
  else 0.

(* ================= consensus/misc/eip1559/eip1559.go ================= *)

(* CalcBaseFee *)
Definition calc_base_fee (config : chain_config) (parent : header) : res Z :=
  (* if !config.IsLondon(parent.Number) { return InitialBaseFee } *)
  if negb (is_london config (Some (h_number parent))) then Ok InitialBaseFee else
  (* parentGasTarget := parent.GasLimit / config.ElasticityMultiplier() *)
  let parentGasTarget := h_gas_limit parent / elasticity_multiplier config in
  (* if parent.GasUsed == parentGasTarget { return new(big.Int).Set(parent.BaseFee) } *)
  if h_gas_used parent =? parentGasTarget then deref (h_base_fee parent) else
  if h_gas_used parent >? parentGasTarget then
    (* num.SetUint64(parent.GasUsed - parentGasTarget) *)
    let num := u64 (h_gas_used parent - parentGasTarget) in
    (* num.Mul(num, parent.BaseFee) *)
    parentBaseFee <- deref (h_base_fee parent) ;;
    let num := num * parentBaseFee in
    (* num.Div(num, denom.SetUint64(parentGasTarget)) *)
    num <- big_div num parentGasTarget ;;
    (* num.Div(num, denom.SetUint64(config.BaseFeeChangeDenominator())) *)
    num <- big_div num (base_fee_change_denominator config) ;;
    (* if num.Cmp(common.Big1) < 0 { return num.Add(parent.BaseFee, common.Big1) } *)
    if num <? 1 then Ok (parentBaseFee + 1)
    (* return num.Add(parent.BaseFee, num) *)
    else Ok (parentBaseFee + num)
  else
    (* num.SetUint64(parentGasTarget - parent.GasUsed) *)
    let num := u64 (parentGasTarget - h_gas_used parent) in
    parentBaseFee <- deref (h_base_fee parent) ;;
    let num := num * parentBaseFee in
    num <- big_div num parentGasTarget ;;
    num <- big_div num (base_fee_change_denominator config) ;;
    (* baseFee := num.Sub(parent.BaseFee, num) *)
    let baseFee := parentBaseFee - num in
    (* if baseFee.Cmp(common.Big0) < 0 { baseFee = common.Big0 } *)
    if baseFee <? 0 then Ok 0 else Ok baseFee.

(* VerifyEIP1559Header.  Ok class: 0 nil, 1/2 VerifyGaslimit's errors, 3 "header is
   missing baseFee", 4 "parent header is missing baseFee", 5 "invalid baseFee". *)
Definition verify_eip1559_header (config : chain_config) (parent hdr : header) : res Z :=
  (* parentGasLimit := parent.GasLimit
     if !config.IsLondon(parent.Number) { parentGasLimit = parent.GasLimit * config.ElasticityMultiplier() } *)
  let parentGasLimit :=
    if negb (is_london config (Some (h_number parent)))
    then u64 (h_gas_limit parent * elasticity_multiplier config)
    else h_gas_limit parent in
  (* if err := misc.VerifyGaslimit(parentGasLimit, header.GasLimit); err != nil { return err } *)
  let e := verify_gaslimit parentGasLimit (h_gas_limit hdr) in
  if negb (e =? 0) then Ok e else
  (* if header.BaseFee == nil { return error } *)
  match h_base_fee hdr with
  | None => Ok 3
  | Some headerBaseFee =>
    (* if config.IsLondon(parent.Number) && parent.BaseFee == nil { return error } *)
    if is_london config (Some (h_number parent)) &&
       (match h_base_fee parent with None => true | Some _ => false end) then Ok 4 else
    (* expectedBaseFee := CalcBaseFee(config, parent) *)
    expectedBaseFee <- calc_base_fee config parent ;;
    (* if header.BaseFee.Cmp(expectedBaseFee) != 0 { return error } *)
    if negb (headerBaseFee =? expectedBaseFee) then Ok 5 else Ok 0
  end.

(* ================= consensus/misc/eip4844/eip4844.go ================= *)

(* fakeExponential: loop state (i, output, accum); one evaluation of the loop
   condition + body is [fe_step]:  inl = next state, inr = loop exited with output. *)
Definition fe_state : Type := (Z * Z * Z)%type.

Definition fe_step (numerator denominator : Z) (s : fe_state) : res (fe_state + Z) :=
  let '(i, output, accum) := s in
  (* for ...; accum.Sign() > 0; ... *)
  if accum >? 0 then
    (* output.Add(output, accum) *)
    let output := output + accum in
    (* accum.Mul(accum, numerator) *)
    let accum := accum * numerator in
    (* accum.Div(accum, denominator) *)
    accum <- big_div accum denominator ;;
    (* accum.Div(accum, big.NewInt(int64(i))) *)
    accum <- big_div accum (i64 i) ;;
    (* i++ *)
    Ok (inl (i64 (i + 1), output, accum))
  else Ok (inr output).

(* binary fuel: [fe_run p] evaluates at most [Pos.to_nat p] loop steps;
   [Ok (inl s)] = fuel used up with the loop still running *)
Fixpoint fe_run (numerator denominator : Z) (fuel : positive) (s : fe_state) : res (fe_state + Z) :=
  match fuel with
  | xH => fe_step numerator denominator s
  | xO q =>
      r <- fe_run numerator denominator q s ;;
      match r with
      | inl s' => fe_run numerator denominator q s'
      | inr o => Ok (inr o)
      end
  | xI q =>
      r <- fe_step numerator denominator s ;;
      match r with
      | inl s1 =>
          r <- fe_run numerator denominator q s1 ;;
          match r with
          | inl s2 => fe_run numerator denominator q s2
          | inr o => Ok (inr o)
          end
      | inr o => Ok (inr o)
      end
  end.

Definition fake_exponential_fuel (fuel : positive) (factor numerator denominator : Z) : res Z :=
  (* output = new(big.Int); accum = new(big.Int).Mul(factor, denominator); for i := 1; … *)
  r <- fe_run numerator denominator fuel (1, 0, factor * denominator) ;;
  match r with
  | inl _ => OutOfFuel
  (* return output.Div(output, denominator) *)
  | inr output => big_div output denominator
  end.

(* the explicit fuel bound (FeesProofs.fake_exponential_terminates): with
   i0 = 2*numerator/denominator + 1 the accumulator at least halves from
   iteration i0 on, and before that it grows by at most a factor max(numerator,1)
   per iteration.  (Absolute values only matter outside the theorem's guard, for the
   negative arguments of the malformed correspondence stream.) *)
Definition fe_fuel (factor numerator denominator : Z) : positive :=
  let i0 := 2 * Z.abs numerator / Z.abs denominator + 1 in
  let a := Z.log2 (factor * denominator) + 1 in
  let lm := Z.log2 (Z.max (Z.abs numerator) 1) + 1 in
  Z.to_pos (i0 + a + i0 * lm + 2).

Definition fake_exponential (factor numerator denominator : Z) : res Z :=
  fake_exponential_fuel (fe_fuel factor numerator denominator) factor numerator denominator.

(* BlobConfig.blobBaseFee *)
Definition blob_base_fee (bc : blob_config) (excessBlobGas : Z) : res Z :=
  fake_exponential BlobTxMinBlobGasprice excessBlobGas (bc_update_fraction bc).

(* BlobConfig.blobPrice *)
Definition blob_price (bc : blob_config) (excessBlobGas : Z) : res Z :=
  f <- blob_base_fee bc excessBlobGas ;;
  Ok (f * BlobTxBlobGasPerBlob).

(* BlobConfig.maxBlobGas *)
Definition max_blob_gas (bc : blob_config) : Z := u64 (u64 (bc_max bc) * BlobTxBlobGasPerBlob).

(* latestBlobConfig; None = errors.New("no blob config") *)
Definition latest_blob_config (cfg : chain_config) (time : Z) : option blob_config :=
  match cfg_blob_schedule cfg with
  | None => None
  | Some s =>
    let london := cfg_london_block cfg in
    let pick (active : bool) (e : option blob_config) (otherwise : option blob_config) :=
      match active, e with
      | true, Some bc => Some bc
      | _, _ => otherwise
      end in
    pick (is_bpo5 cfg london time) (bs_bpo5 s)
   (pick (is_bpo4 cfg london time) (bs_bpo4 s)
   (pick (is_bpo3 cfg london time) (bs_bpo3 s)
   (pick (is_bpo2 cfg london time) (bs_bpo2 s)
   (pick (is_bpo1 cfg london time) (bs_bpo1 s)
   (pick (is_prague cfg london time) (bs_prague s)
   (pick (is_cancun cfg london time) (bs_cancun s) None))))))
  end.

(* calcExcessBlobGas *)
Definition calc_excess_blob_gas_inner (isOsaka : bool) (bcfg : blob_config) (parent : header) : res Z :=
  (* var parentExcessBlobGas, parentBlobGasUsed uint64
     if parent.ExcessBlobGas != nil { parentExcessBlobGas = *parent.ExcessBlobGas; parentBlobGasUsed = *parent.BlobGasUsed } *)
  pp <- match h_excess_blob_gas parent with
        | None => Ok (0, 0)
        | Some e => u <- deref (h_blob_gas_used parent) ;; Ok (e, u)
        end ;;
  let '(parentExcessBlobGas, parentBlobGasUsed) := pp in
  (* excessBlobGas = parentExcessBlobGas + parentBlobGasUsed *)
  let excessBlobGas := u64 (parentExcessBlobGas + parentBlobGasUsed) in
  (* targetGas = uint64(bcfg.Target) * params.BlobTxBlobGasPerBlob *)
  let targetGas := u64 (u64 (bc_target bcfg) * BlobTxBlobGasPerBlob) in
  (* if excessBlobGas < targetGas { return 0 } *)
  if excessBlobGas <? targetGas then Ok 0 else
  let original := Ok (u64 (excessBlobGas - targetGas)) in
  if isOsaka then
    (* baseCost = big.NewInt(params.BlobBaseCost); reservePrice = baseCost.Mul(baseCost, parent.BaseFee) *)
    parentBaseFee <- deref (h_base_fee parent) ;;
    let reservePrice := BlobBaseCost * parentBaseFee in
    (* blobPrice = bcfg.blobPrice(parentExcessBlobGas) *)
    blobPrice <- blob_price bcfg parentExcessBlobGas ;;
    (* if reservePrice.Cmp(blobPrice) > 0 *)
    if reservePrice >? blobPrice then
      (* scaledExcess := parentBlobGasUsed * uint64(bcfg.Max-bcfg.Target) / uint64(bcfg.Max) *)
      scaledExcess <- u64_div (u64 (parentBlobGasUsed * u64 (i64 (bc_max bcfg - bc_target bcfg))))
                              (u64 (bc_max bcfg)) ;;
      (* return parentExcessBlobGas + scaledExcess *)
      Ok (u64 (parentExcessBlobGas + scaledExcess))
    else original
  (* return excessBlobGas - targetGas *)
  else original.

(* CalcExcessBlobGas *)
Definition calc_excess_blob_gas (config : chain_config) (parent : header) (headTimestamp : Z) : res Z :=
  let isOsaka := is_osaka config (cfg_london_block config) headTimestamp in
  match latest_blob_config config headTimestamp with
  | None => Panic PanicExplicit      (* panic("calculating excess blob gas on nil blob config") *)
  | Some bcfg => calc_excess_blob_gas_inner isOsaka bcfg parent
  end.

(* CalcBlobFee *)
Definition calc_blob_fee (config : chain_config) (hdr : header) : res Z :=
  match latest_blob_config config (h_time hdr) with
  | None => Panic PanicExplicit      (* panic("calculating blob fee on unsupported fork") *)
  | Some bc =>
      e <- deref (h_excess_blob_gas hdr) ;;
      blob_base_fee bc e
  end.

(* ================= core/state_transition.go ================= *)

Record rules := {                      (* the fields of params.Rules that are read *)
  IsHomestead : bool; IsIstanbul : bool; IsShanghai : bool; IsAmsterdam : bool }.

Definition ErrGasUintOverflow : Z := 1.

(* toWordSize *)
Definition to_word_size (size : Z) : Z :=
  if size >? MaxUint64 - 31 then MaxUint64 / 32 + 1
  else u64 (size + 31) / 32.

(* the recurring two-statement pattern
     if (math.MaxUint64-gas)/cost < n { return 0, ErrGasUintOverflow }
     gas += n * cost                                                    *)
Definition checked_mul_add (gas n cost : Z) : res Z :=
  if (MaxUint64 - gas) / cost <? n then Err ErrGasUintOverflow
  else Ok (u64 (gas + u64 (n * cost))).

(* intrinsicBaseGasEIP2780, on the three facts it derives from (from, to, value) *)
Definition intrinsic_base_gas_eip2780 (isContractCreation isSelfTransfer hasValue : bool) : Z :=
  (* gas := params.TxBaseCost2780 *)
  let gas := TxBaseCost2780 in
  (* switch { case isSelfTransfer: ; case isContractCreation: gas += CreateAccessAmsterdam; default: gas += ColdAccountAccessAmsterdam } *)
  let gas := if isSelfTransfer then gas
             else if isContractCreation then u64 (gas + CreateAccessAmsterdam)
             else u64 (gas + ColdAccountAccessAmsterdam) in
  (* switch { case !hasValue || isSelfTransfer || isContractCreation: ; default: gas += TxValueCost2780 } *)
  if negb hasValue || isSelfTransfer || isContractCreation then gas
  else u64 (gas + TxValueCost2780).

(* IntrinsicGas on the quantities it reads off its arguments:
   authLen = None when authList == nil, else len(authList);
   dataLen = uint64(len(data)), z = uint64(bytes.Count(data, {0}));
   al = None when accessList == nil, else (len(accessList), accessList.StorageKeys()). *)
Definition intrinsic_gas_n (isContractCreation isSelfTransfer hasValue : bool)
    (authLen : option Z) (dataLen z : Z) (al : option (Z * Z)) (r : rules) : res Z :=
  (* var gas uint64; if rules.IsAmsterdam {…} else if isContractCreation && rules.IsHomestead {…} else {…} *)
  let gas :=
    if IsAmsterdam r then intrinsic_base_gas_eip2780 isContractCreation isSelfTransfer hasValue
    else if isContractCreation && IsHomestead r then TxGasContractCreation
    else TxGas in
  (* if authList != nil { gas += uint64(len(authList)) * cost }   — NOT overflow-checked *)
  let gas :=
    match authLen with
    | None => gas
    | Some n =>
        if IsAmsterdam r then u64 (gas + u64 (n * ExecutionPerAuthBaseCost))
        else u64 (gas + u64 (n * CallNewAccountGas))
    end in
  (* if dataLen > 0 { … } *)
  gas <- (if dataLen >? 0 then
            (* nz := dataLen - z *)
            let nz := u64 (dataLen - z) in
            let nonZeroGas := if IsIstanbul r then TxDataNonZeroGasEIP2028 else TxDataNonZeroGasFrontier in
            gas <- checked_mul_add gas nz nonZeroGas ;;
            gas <- checked_mul_add gas z TxDataZeroGas ;;
            if isContractCreation && IsShanghai r then
              let lenWords := to_word_size dataLen in
              checked_mul_add gas lenWords InitCodeWordGas
            else Ok gas
          else Ok gas) ;;
  (* if accessList != nil { … } *)
  match al with
  | None => Ok gas
  | Some (addresses, storageKeys) =>
      let addressCost := if IsAmsterdam r then TxAccessListAddressGasAmsterdam else TxAccessListAddressGas in
      let storageKeyCost := if IsAmsterdam r then TxAccessListStorageKeyGasAmsterdam else TxAccessListStorageKeyGas in
      gas <- checked_mul_add gas addresses addressCost ;;
      gas <- checked_mul_add gas storageKeys storageKeyCost ;;
      if IsAmsterdam r then
        (* const addressCost = AddressLength * TxCostFloorPerToken7976 * TxTokenPerNonZeroByte, storageKeyCost = HashLength * … *)
        let addressCost := AddressLength * TxCostFloorPerToken7976 * TxTokenPerNonZeroByte in
        let storageKeyCost := HashLength * TxCostFloorPerToken7976 * TxTokenPerNonZeroByte in
        gas <- checked_mul_add gas addresses addressCost ;;
        checked_mul_add gas storageKeys storageKeyCost
      else Ok gas
  end.

(* FloorDataGas on the same quantities (accessList nil or not is not distinguished:
   len(nil) = 0 and nil.StorageKeys() = 0) *)
Definition floor_data_gas_n (isContractCreation isSelfTransfer hasValue : bool)
    (dataLen z : Z) (addresses storageKeys : Z) (r : rules) : res Z :=
  tt <- (if IsAmsterdam r then
           (* if math.MaxUint64/params.TxTokenPerNonZeroByte < dataLen { overflow }; tokens = dataLen * 4 *)
           if MaxUint64 / TxTokenPerNonZeroByte <? dataLen then Err ErrGasUintOverflow else
           let tokens := u64 (dataLen * TxTokenPerNonZeroByte) in
           (* const addressTokenCost = uint64(common.AddressLength) * params.TxTokenPerNonZeroByte *)
           tokens <- checked_mul_add tokens addresses (AddressLength * TxTokenPerNonZeroByte) ;;
           (* const storageKeyTokenCost = uint64(common.HashLength) * params.TxTokenPerNonZeroByte *)
           tokens <- checked_mul_add tokens storageKeys (HashLength * TxTokenPerNonZeroByte) ;;
           Ok (tokens, TxCostFloorPerToken7976)
         else
           let nz := u64 (dataLen - z) in
           (* if math.MaxUint64/params.TxTokenPerNonZeroByte < nz { overflow }; tokens = nz * 4 *)
           if MaxUint64 / TxTokenPerNonZeroByte <? nz then Err ErrGasUintOverflow else
           let tokens := u64 (nz * TxTokenPerNonZeroByte) in
           (* if math.MaxUint64-tokens < z { overflow }; tokens += z *)
           if MaxUint64 - tokens <? z then Err ErrGasUintOverflow else
           let tokens := u64 (tokens + z) in
           Ok (tokens, TxCostFloorPerToken)) ;;
  let '(tokens, tokenCost) := tt in
  (* floorBase := params.TxGas; if rules.IsAmsterdam { floorBase = intrinsicBaseGasEIP2780(from, to, value) } *)
  let floorBase := if IsAmsterdam r then intrinsic_base_gas_eip2780 isContractCreation isSelfTransfer hasValue
                   else TxGas in
  (* if (math.MaxUint64-floorBase)/tokenCost < tokens { overflow } *)
  if (MaxUint64 - floorBase) / tokenCost <? tokens then Err ErrGasUintOverflow
  (* return floorBase + tokens*tokenCost, nil *)
  else Ok (u64 (floorBase + u64 (tokens * tokenCost))).

(* ---- the argument projections, on concrete Go-shaped arguments ---- *)
Fixpoint count_zero (data : list N) : Z :=
  match data with
  | [] => 0
  | b :: rest => (if N.eqb b 0 then 1 else 0) + count_zero rest
  end.
Definition zlen {A} (l : list A) : Z := Z.of_nat (length l).

Fixpoint bytes_eqb (a b : list N) : bool :=
  match a, b with
  | [], [] => true
  | x :: a', y :: b' => N.eqb x y && bytes_eqb a' b'
  | _, _ => false
  end.

(* AccessList.StorageKeys(): sum += len(tuple.StorageKeys) in int; an access list is
   given as the list of its tuples' storage-key counts *)
Definition storage_keys (al : list Z) : Z := fold_left (fun sum n => i64 (sum + n)) al 0.

Record tx_args := {
  ta_data : list N;
  ta_access_list : option (list Z);     (* nil / tuples' storage-key counts *)
  ta_auth_len : option Z;               (* nil / len(authList) *)
  ta_from : list N;
  ta_to : option (list N);              (* nil = contract creation *)
  ta_value : option Z }.                (* *uint256.Int *)

Definition ta_is_create (a : tx_args) : bool := match ta_to a with None => true | Some _ => false end.
Definition ta_is_self (a : tx_args) : bool :=
  match ta_to a with Some t => bytes_eqb t (ta_from a) | None => false end.
Definition ta_has_value (a : tx_args) : bool :=
  match ta_value a with Some v => negb (v =? 0) | None => false end.

Definition intrinsic_gas (a : tx_args) (r : rules) : res Z :=
  intrinsic_gas_n (ta_is_create a) (ta_is_self a) (ta_has_value a)
    (ta_auth_len a)
    (u64 (zlen (ta_data a))) (u64 (count_zero (ta_data a)))
    (match ta_access_list a with
     | None => None
     | Some al => Some (u64 (zlen al), u64 (storage_keys al))
     end) r.

Definition floor_data_gas (a : tx_args) (r : rules) : res Z :=
  let al := match ta_access_list a with None => [] | Some al => al end in
  floor_data_gas_n (ta_is_create a) (ta_is_self a) (ta_has_value a)
    (u64 (zlen (ta_data a))) (u64 (count_zero (ta_data a)))
    (u64 (zlen al)) (u64 (storage_keys al)) r.
