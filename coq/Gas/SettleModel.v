(* Gas/SettleModel.v — HAND model (no proofs) of the transaction-level settlement in
   /repo/core/state_transition.go: calcRefund (l.1151-1162) and the arithmetic of
   settleGas (l.963-1020), over the generated GasBudget record, with uint64
   wrap-around written out as in the generated files.  Tracer emissions and the ETH
   refund to the sender are not modelled.  Not translated by go2coq (the function is a
   method of stateTransition and reads chain configuration); tied to the code only by
   the transaction-level oracle of harness/c31 — see checks/C31.json. *)
From Coq Require Import ZArith Bool.
From GV Require Import Gas.GoArith Gas.Budget_gen.
Local Open Scope Z_scope.

(* Go: calcRefund — quotient = RefundQuotient (2), or RefundQuotientEIP3529 (5) from London *)
Definition calc_refund (london : bool) (gasUsedBeforeRefund refundCounter : Z) : Z :=
  let quotient := if london then 5 else 2 in
  let refund := gasUsedBeforeRefund / quotient in
  if refundCounter <? refund then refundCounter else refund.

Record settled := mkSettled {
  s_txState : Z; s_txExec : Z; s_gasUsed : Z; s_peakUsed : Z; s_gasLeft : Z; s_refund : Z }.

(* Go: settleGas up to (not including) the gas-pool charge; None = one of the two
   "negative topmost frame ... usage" errors *)
Definition settle_calc (g : GasBudget) (gasLimit floorDataGas refundCounter : Z)
           (london prague : bool) : option settled :=
  if GasBudget_UsedStateGas g <? 0 then None else
  let txStateGas := u64 (GasBudget_UsedStateGas g) in
  let gasLeft := u64 (GasBudget_ExecutionGas g + GasBudget_StateGas g) in
  let gasUsedBeforeRefund := u64 (gasLimit - gasLeft) in
  if gasUsedBeforeRefund <? txStateGas then None else
  let txExecutionGas := Z.max (u64 (gasUsedBeforeRefund - txStateGas)) floorDataGas in
  let refund := calc_refund london gasUsedBeforeRefund refundCounter in
  let gasLeft := u64 (gasLeft + refund) in
  let gasUsed := u64 (gasUsedBeforeRefund - refund) in
  let peakUsed := gasUsedBeforeRefund in
  if prague && (gasUsed <? floorDataGas) then
    let diff := u64 (floorDataGas - gasUsed) in
    Some (mkSettled txStateGas txExecutionGas floorDataGas (Z.max peakUsed floorDataGas)
                    (u64 (gasLeft - diff)) refund)
  else Some (mkSettled txStateGas txExecutionGas gasUsed peakUsed gasLeft refund).
