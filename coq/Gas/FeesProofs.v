(* Gas/FeesProofs.v — proofs relating the implementation model Gas/FeesImpl.v
   (transcribed from go-ethereum) to the specification Gas/Fees.v (written from the
   EIPs).  Property C35. *)
From GV Require Import Lib.Tactics Gas.FeesImpl Gas.Fees.
Local Open Scope Z_scope.

Ltac unf64 := unfold u64, i64, two64, two63, MaxUint64 in *.

Lemma u64_id x : 0 <= x < two64 -> u64 x = x.
Proof. unf64. intros. apply Z.mod_small. lia. Qed.

Lemma i64_id x : - two63 <= x < two63 -> i64 x = x.
Proof. unf64. intros. lia. Qed.

Lemma big_div_pos a b : 0 < b -> big_div a b = Ok (a / b).
Proof. intros. unfold big_div. destruct (b =? 0) eqn:?; [lia|]. destruct (0 <? b) eqn:?; [reflexivity|lia]. Qed.

(* ---------- gas limit ---------- *)
Lemma verify_gaslimit_diff p h :
  0 <= p < two64 -> 0 <= h < two64 -> Z.abs (p - h) < two63 ->
  verify_gaslimit p h = (if Z.abs (p - h) >=? p / 1024 then 1 else if h <? 5000 then 2 else 0).
Proof.
  intros Hp Hh Hd. unfold verify_gaslimit, GasLimitBoundDivisor, MinGasLimit.
  assert (E1 : i64 (i64 p - i64 h) = p - h) by (unf64; lia).
  rewrite E1.
  assert (E2 : u64 (if p - h <? 0 then i64 ((p - h) * -1) else p - h) = Z.abs (p - h)).
  { destruct (p - h <? 0) eqn:?; unf64; lia. }
  rewrite E2. reflexivity.
Qed.

Lemma gaslimit_eq_spec p h :
  0 <= p < two64 -> 0 <= h < two64 -> Z.abs (p - h) < two63 ->
  verify_gaslimit p h = spec_gas_limit_class p h.
Proof.
  intros Hp Hh Hd. rewrite verify_gaslimit_diff by assumption.
  unfold spec_gas_limit_class, spec_gas_limit_in_bounds, GAS_LIMIT_ADJUSTMENT_FACTOR, GAS_LIMIT_MINIMUM.
  destruct (Z.abs (p - h) >=? p / 1024) eqn:?; destruct (h <? p + p / 1024) eqn:?;
  destruct (h >? p - p / 1024) eqn:?; cbn [andb negb]; try reflexivity; lia.
Qed.

(* ---------- base fee ---------- *)
Lemma basefee_eq_spec c p bf :
  is_london c (Some (h_number p)) = true ->
  h_base_fee p = Some bf -> 0 <= bf ->
  0 <= h_gas_limit p < two64 -> 0 <= h_gas_used p < two64 ->
  (2 <= h_gas_limit p \/ h_gas_used p = 0) ->
  calc_base_fee c p = Ok (spec_base_fee (h_gas_limit p) (h_gas_used p) bf).
Proof.
  intros HL Hbf Hbf0 Hl Hu Hg.
  unfold calc_base_fee, spec_base_fee. rewrite HL. cbn [negb].
  unfold elasticity_multiplier, base_fee_change_denominator, DefaultElasticityMultiplier,
    DefaultBaseFeeChangeDenominator, ELASTICITY_MULTIPLIER, BASE_FEE_MAX_CHANGE_DENOMINATOR.
  set (t := h_gas_limit p / 2).
  assert (Ht : 0 <= t < two64) by (unfold t, two64 in *; lia).
  rewrite Hbf.
  destruct (h_gas_used p =? t) eqn:E1; [reflexivity|].
  assert (Htpos : 0 < t) by (unfold t in *; lia).
  destruct (h_gas_used p >? t) eqn:E2; cbn [deref bind].
  - rewrite u64_id by (unfold two64 in *; lia).
    rewrite big_div_pos by lia. cbn [bind]. rewrite big_div_pos by lia. cbn [bind].
    rewrite (Z.mul_comm bf).
    set (q := (h_gas_used p - t) * bf / t / 8).
    destruct (q <? 1) eqn:?; f_equal; lia.
  - rewrite u64_id by (unfold two64 in *; lia).
    rewrite big_div_pos by lia. cbn [bind]. rewrite big_div_pos by lia. cbn [bind].
    rewrite (Z.mul_comm bf).
    set (q := (t - h_gas_used p) * bf / t / 8).
    assert (q <= bf).
    { unfold q. apply Z.div_le_upper_bound; [lia|].
      apply Z.le_trans with bf; [|lia].
      apply Z.div_le_upper_bound; [lia|]. nia. }
    destruct (bf - q <? 0) eqn:?; [lia|reflexivity].
Qed.

(* ---------- fakeExponential ---------- *)
Fixpoint fe_run_nat (n d : Z) (k : nat) (s : fe_state) : res (fe_state + Z) :=
  match k with
  | O => Ok (inl s)
  | S k' => r <- fe_step n d s ;;
            match r with inl s' => fe_run_nat n d k' s' | inr o => Ok (inr o) end
  end.

Definition fe_cont (n d : Z) (k : nat) (r : fe_state + Z) : res (fe_state + Z) :=
  match r with inl s' => fe_run_nat n d k s' | inr o => Ok (inr o) end.

Lemma fe_run_nat_add n d a b s :
  fe_run_nat n d (a + b) s = r <- fe_run_nat n d a s ;; fe_cont n d b r.
Proof.
  revert s. induction a as [|a IH]; intros s; cbn [Nat.add fe_run_nat bind fe_cont]; [reflexivity|].
  destruct (fe_step n d s) as [[s'|o]| | |]; cbn [bind]; try reflexivity. apply IH.
Qed.

Lemma fe_run_eq n d p s : fe_run n d p s = fe_run_nat n d (Pos.to_nat p) s.
Proof.
  revert s. induction p as [q IH|q IH|]; intros s; cbn [fe_run].
  - rewrite Pos2Nat.inj_xI. cbn [fe_run_nat].
    destruct (fe_step n d s) as [[s1|o]| | |]; cbn [bind]; try reflexivity.
    replace (2 * Pos.to_nat q)%nat with (Pos.to_nat q + Pos.to_nat q)%nat by lia.
    rewrite fe_run_nat_add, <- IH.
    destruct (fe_run n d q s1) as [[s2|o]| | |]; cbn [bind fe_cont]; try reflexivity. apply IH.
  - rewrite Pos2Nat.inj_xO.
    replace (2 * Pos.to_nat q)%nat with (Pos.to_nat q + Pos.to_nat q)%nat by lia.
    rewrite fe_run_nat_add, <- IH.
    destruct (fe_run n d q s) as [[s2|o]| | |]; cbn [bind fe_cont]; try reflexivity. apply IH.
  - cbn [Pos.to_nat Pos.iter_op fe_run_nat]. change (Pos.to_nat 1) with 1%nat. cbn [fe_run_nat].
    destruct (fe_step n d s) as [[s1|o]| | |]; reflexivity.
Qed.

Lemma fe_run_nat_mono n d k k' s o :
  fe_run_nat n d k s = Ok (inr o) -> (k <= k')%nat -> fe_run_nat n d k' s = Ok (inr o).
Proof.
  revert k' s. induction k as [|k IH]; intros k' s H Hle; cbn [fe_run_nat] in H; [discriminate|].
  destruct k' as [|k']; [lia|]. cbn [fe_run_nat].
  destruct (fe_step n d s) as [[s1|o1]| | |]; cbn [bind] in *; try discriminate.
  - apply IH; [exact H|lia].
  - exact H.
Qed.

Lemma fe_step_exit n d i out acc : acc <= 0 -> fe_step n d (i, out, acc) = Ok (inr out).
Proof. intros. unfold fe_step. destruct (acc >? 0) eqn:?; [lia|reflexivity]. Qed.

Lemma fe_step_iter n d i out acc :
  0 < d -> 1 <= i < two63 - 1 -> acc > 0 ->
  fe_step n d (i, out, acc) = Ok (inl (i + 1, out + acc, acc * n / (d * i))).
Proof.
  intros Hd Hi Ha. unfold fe_step. destruct (acc >? 0) eqn:?; [|lia].
  rewrite big_div_pos by lia. cbn [bind]. rewrite (i64_id i) by (unfold two63 in *; lia).
  rewrite big_div_pos by lia. cbn [bind]. rewrite (i64_id (i + 1)) by (unfold two63 in *; lia).
  rewrite Z.div_div by lia. reflexivity.
Qed.

Section FE.
Variables n d : Z.
Hypothesis Hd : 0 < d.
Hypothesis Hn : 0 <= n.

(* phase 2: the accumulator at least halves *)
Lemma fe_phase2 : forall (k : nat) i out acc,
  1 <= i -> i + Z.of_nat k + 1 < two63 -> 2 * n <= d * i -> acc < 2 ^ Z.of_nat k ->
  exists o, fe_run_nat n d (S k) (i, out, acc) = Ok (inr o) /\ fe_while n d i out acc o.
Proof.
  induction k as [|k IH]; intros i out acc Hi Hb H2 Hacc.
  - exists out. cbn [fe_run_nat]. rewrite fe_step_exit by (cbn in Hacc; lia).
    split; [reflexivity|]. apply fe_while_exit. cbn in Hacc; lia.
  - destruct (Z_le_gt_dec acc 0) as [Hle|Hgt].
    + exists out. cbn [fe_run_nat]. rewrite fe_step_exit by lia.
      split; [reflexivity|]. apply fe_while_exit. lia.
    + cbn [fe_run_nat]. rewrite fe_step_iter by lia. cbn [bind].
      assert (A1 : 2 * n <= d * (i + 1)) by nia.
      assert (A2 : acc * n / (d * i) < 2 ^ Z.of_nat k).
      { apply Z.div_lt_upper_bound; [nia|].
        rewrite Nat2Z.inj_succ, Z.pow_succ_r in Hacc by lia.
        assert (0 < 2 ^ Z.of_nat k) by (apply Z.pow_pos_nonneg; lia).
        nia. }
      destruct (IH (i + 1) (out + acc) (acc * n / (d * i))) as [o [Hr Hw]]; try lia.
      exists o. split; [exact Hr|]. apply fe_while_iter; assumption.
Qed.

Fixpoint fuel1 (j a lm : nat) : nat :=
  match j with O => S a | S j' => S (fuel1 j' (a + lm) lm) end.

Lemma fuel1_eq j : forall a lm, fuel1 j a lm = (j + a + j * lm + 1)%nat.
Proof. induction j as [|j IH]; intros a lm; cbn [fuel1]; [lia|]. rewrite IH. lia. Qed.

(* phase 1: the accumulator grows by at most a factor 2^lm per iteration *)
Lemma fe_phase1 (lm : nat) : Z.max n 1 <= 2 ^ Z.of_nat lm ->
  forall (j a : nat) i out acc,
  1 <= i -> i + Z.of_nat (fuel1 j a lm) < two63 ->
  2 * n <= d * (i + Z.of_nat j) -> acc < 2 ^ Z.of_nat a ->
  exists o, fe_run_nat n d (fuel1 j a lm) (i, out, acc) = Ok (inr o) /\ fe_while n d i out acc o.
Proof.
  intros HM. induction j as [|j IH]; intros a i out acc Hi Hb H2 Hacc.
  - cbn [fuel1] in *. apply fe_phase2; solve [lia | rewrite Z.add_0_r in H2; exact H2].
  - cbn [fuel1] in *. destruct (Z_le_gt_dec acc 0) as [Hle|Hgt].
    + exists out. cbn [fe_run_nat]. rewrite fe_step_exit by lia.
      split; [reflexivity|]. apply fe_while_exit. lia.
    + cbn [fe_run_nat]. rewrite fe_step_iter by lia. cbn [bind].
      assert (A2 : acc * n / (d * i) < 2 ^ Z.of_nat (a + lm)).
      { apply Z.le_lt_trans with (acc * n).
        { apply Z.div_le_upper_bound; nia. }
        rewrite Nat2Z.inj_add, Z.pow_add_r by lia.
        assert (0 < 2 ^ Z.of_nat a) by (apply Z.pow_pos_nonneg; lia).
        assert (n <= 2 ^ Z.of_nat lm) by lia.
        nia. }
      assert (A1 : 2 * n <= d * (i + 1 + Z.of_nat j)).
      { replace (i + 1 + Z.of_nat j) with (i + Z.of_nat (S j)) by lia. exact H2. }
      destruct (IH (a + lm)%nat (i + 1) (out + acc) (acc * n / (d * i))) as [o [Hr Hw]]; try lia.
      exists o. split; [exact Hr|]. apply fe_while_iter; assumption.
Qed.
End FE.

(* the run from the initial state, with the explicit fuel *)
Lemma fe_fuel_enough f n d :
  0 < d -> 0 <= n ->
  let i0 := 2 * n / d + 1 in
  let a := Z.to_nat (Z.log2 (f * d) + 1) in
  let lm := Z.to_nat (Z.log2 (Z.max n 1) + 1) in
  (fuel1 (Z.to_nat (i0 - 1)) a lm <= Pos.to_nat (fe_fuel f n d))%nat /\
  Z.of_nat (fuel1 (Z.to_nat (i0 - 1)) a lm) <= Z.pos (fe_fuel f n d).
Proof.
  intros Hd Hn i0 a lm.
  assert (Hi0 : 1 <= i0) by (unfold i0; assert (0 <= 2 * n / d) by (apply Z.div_pos; lia); lia).
  assert (Ha : 0 <= Z.log2 (f * d)) by apply Z.log2_nonneg.
  assert (Hlm : 0 <= Z.log2 (Z.max n 1)) by apply Z.log2_nonneg.
  assert (E : Z.of_nat (fuel1 (Z.to_nat (i0 - 1)) a lm) <= Z.pos (fe_fuel f n d)).
  { rewrite fuel1_eq. unfold fe_fuel. rewrite (Z.abs_eq n), (Z.abs_eq d) by lia. fold i0.
    set (A := Z.log2 (f * d) + 1) in *. set (L := Z.log2 (Z.max n 1) + 1) in *.
    assert (0 < i0 + A + i0 * L + 2) by nia.
    rewrite Z2Pos.id by assumption.
    rewrite !Nat2Z.inj_add, Nat2Z.inj_mul. unfold a, lm. rewrite !Z2Nat.id by lia.
    change (Z.of_nat 1) with 1. nia. }
  split; [|exact E]. apply Nat2Z.inj_le. rewrite positive_nat_Z. exact E.
Qed.

Lemma fe_run_total f n d :
  0 < d -> 0 <= n -> Z.pos (fe_fuel f n d) < two63 - 1 ->
  exists o, fe_run n d (fe_fuel f n d) (1, 0, f * d) = Ok (inr o) /\
            fe_while n d 1 0 (f * d) o.
Proof.
  intros Hd Hn Hg.
  pose proof (fe_fuel_enough f n d Hd Hn) as [Hle HleZ]. cbv zeta in Hle, HleZ.
  set (i0 := 2 * n / d + 1) in *.
  set (a := Z.to_nat (Z.log2 (f * d) + 1)) in *.
  set (lm := Z.to_nat (Z.log2 (Z.max n 1) + 1)) in *.
  assert (Hi0 : 1 <= i0) by (unfold i0; assert (0 <= 2 * n / d) by (apply Z.div_pos; lia); lia).
  destruct (fe_phase1 n d Hd Hn lm) with (j := Z.to_nat (i0 - 1)) (a := a) (i := 1) (out := 0) (acc := f * d)
    as [o [Hr Hw]].
  - unfold lm. rewrite Z2Nat.id by (pose proof (Z.log2_nonneg (Z.max n 1)); lia).
    assert (0 < Z.max n 1) by lia.
    pose proof (Z.log2_spec (Z.max n 1) H) as [_ Hlt].
    replace (Z.succ (Z.log2 (Z.max n 1))) with (Z.log2 (Z.max n 1) + 1) in Hlt by lia. lia.
  - lia.
  - unfold two63 in *. lia.
  - rewrite Z2Nat.id by lia. replace (1 + (i0 - 1)) with i0 by lia. unfold i0.
    pose proof (Z.mul_succ_div_gt (2 * n) d Hd). lia.
  - unfold a. rewrite Z2Nat.id by (pose proof (Z.log2_nonneg (f * d)); lia).
    destruct (Z_le_gt_dec (f * d) 0) as [Hle0|Hgt0].
    + apply Z.le_lt_trans with 0; [exact Hle0|]. apply Z.pow_pos_nonneg; [lia|].
      pose proof (Z.log2_nonneg (f * d)); lia.
    + assert (Hp : 0 < f * d) by lia.
      pose proof (Z.log2_spec (f * d) Hp) as [_ Hlt].
      replace (Z.succ (Z.log2 (f * d))) with (Z.log2 (f * d) + 1) in Hlt by lia. exact Hlt.
  - exists o. split; [|exact Hw]. rewrite fe_run_eq.
    apply fe_run_nat_mono with (k := fuel1 (Z.to_nat (i0 - 1)) a lm); assumption.
Qed.

Lemma fe_while_det n d i out acc r1 :
  fe_while n d i out acc r1 -> forall r2, fe_while n d i out acc r2 -> r1 = r2.
Proof.
  induction 1 as [i out acc Hle|i out acc r Hgt Hw IH]; intros r2 H2; inversion H2; subst;
    first [lia | apply IH; assumption].
Qed.

Lemma spec_fake_exponential_det f n d r1 r2 :
  spec_fake_exponential f n d r1 -> spec_fake_exponential f n d r2 -> r1 = r2.
Proof.
  intros [o1 [H1 E1]] [o2 [H2 E2]]. rewrite (fe_while_det _ _ _ _ _ _ H1 _ H2) in E1. congruence.
Qed.

Theorem fake_exponential_eq_spec f n d :
  0 < d -> 0 <= n -> Z.pos (fe_fuel f n d) < two63 - 1 ->
  exists r, fake_exponential f n d = Ok r /\ spec_fake_exponential f n d r.
Proof.
  intros Hd Hn Hg. destruct (fe_run_total f n d Hd Hn Hg) as [o [Hr Hw]].
  exists (o / d). unfold fake_exponential, fake_exponential_fuel. rewrite Hr. cbn [bind].
  rewrite big_div_pos by lia. split; [reflexivity|]. exists o. split; [exact Hw|reflexivity].
Qed.

Theorem fake_exponential_terminates f n d :
  0 < d -> 0 <= n -> Z.pos (fe_fuel f n d) < two63 - 1 ->
  fake_exponential f n d <> OutOfFuel /\ forall c, fake_exponential f n d <> Panic c.
Proof.
  intros Hd Hn Hg. destruct (fake_exponential_eq_spec f n d Hd Hn Hg) as [r [E _]].
  rewrite E. split; [discriminate|intros c; discriminate].
Qed.

Theorem fake_exponential_spec_iff f n d r :
  0 < d -> 0 <= n -> Z.pos (fe_fuel f n d) < two63 - 1 ->
  (fake_exponential f n d = Ok r <-> spec_fake_exponential f n d r).
Proof.
  intros Hd Hn Hg. destruct (fake_exponential_eq_spec f n d Hd Hn Hg) as [r0 [E S]]. split.
  - intros H. rewrite E in H. injection H as <-. exact S.
  - intros H. rewrite E. f_equal. eapply spec_fake_exponential_det; eassumption.
Qed.

(* a zero denominator: big.Int.Div panics (division by zero) — never a silent 0 *)
Lemma fake_exponential_zero_den f n : fake_exponential f n 0 = Panic PanicDivZero.
Proof.
  unfold fake_exponential, fake_exponential_fuel. rewrite fe_run_eq.
  destruct (Pos2Nat.is_succ (fe_fuel f n 0)) as [k ->]. cbn [fe_run_nat].
  rewrite fe_step_exit by lia. reflexivity.
Qed.

(* the loop-counter guard holds for every uint64 excess and every update fraction
   >= 512 (the smallest in params is 3338477) *)
Lemma fe_fuel_blob n d :
  0 <= n < two64 -> 512 <= d < two64 -> Z.pos (fe_fuel 1 n d) < two63 - 1.
Proof.
  intros Hn Hd. unfold fe_fuel. rewrite (Z.abs_eq n), (Z.abs_eq d) by lia.
  assert (H1 : 0 <= 2 * n / d) by (apply Z.div_pos; lia).
  assert (H2 : 2 * n / d < 2 ^ 56).
  { apply Z.div_lt_upper_bound; [lia|]. unfold two64 in *. lia. }
  assert (H3 : Z.log2 (1 * d) < 64).
  { apply Z.log2_lt_pow2; [lia|]. unfold two64 in *. lia. }
  assert (H4 : Z.log2 (Z.max n 1) < 64).
  { apply Z.log2_lt_pow2; [lia|]. unfold two64 in *. lia. }
  pose proof (Z.log2_nonneg (1 * d)). pose proof (Z.log2_nonneg (Z.max n 1)).
  set (A := Z.log2 (1 * d)) in *. set (L := Z.log2 (Z.max n 1)) in *. set (q := 2 * n / d) in *.
  assert (0 < q + 1 + (A + 1) + (q + 1) * (L + 1) + 2) by nia.
  rewrite Z2Pos.id by assumption. unfold two63.
  assert ((q + 1) * (L + 1) <= (q + 1) * 64) by nia.
  change (2 ^ 56) with 72057594037927936 in H2. lia.
Qed.

(* ---------- excess blob gas ---------- *)
Definition bp_of (bc : blob_config) : blob_params :=
  {| bp_target := bc_target bc; bp_max := bc_max bc; bp_update_fraction := bc_update_fraction bc |}.

Definition parent_blob_fields (p : header) : option (Z * Z) :=
  match h_excess_blob_gas p with
  | None => Some (0, 0)
  | Some e => match h_blob_gas_used p with Some u => Some (e, u) | None => None end
  end.

(* pre-Osaka: EIP-4844.  Guards: the uint64 sum and the target product do not wrap. *)
Theorem excess_blob_gas_eq_spec_4844 bc p e u :
  parent_blob_fields p = Some (e, u) ->
  0 <= e -> 0 <= u -> e + u < two64 ->
  0 <= bc_target bc -> bc_target bc * 131072 < two64 ->
  calc_excess_blob_gas_inner false bc p = Ok (spec_excess_blob_gas_4844 (bp_of bc) e u).
Proof.
  intros Hp He Hu Hs Ht Htt. unfold calc_excess_blob_gas_inner, parent_blob_fields in *.
  assert (Epp : (match h_excess_blob_gas p with
                 | None => Ok (0, 0)
                 | Some e0 => u0 <- deref (h_blob_gas_used p) ;; Ok (e0, u0) end) = Ok (e, u)).
  { destruct (h_excess_blob_gas p); [destruct (h_blob_gas_used p); [|discriminate]|];
      injection Hp as <- <-; reflexivity. }
  rewrite Epp. cbn [bind]. unfold BlobTxBlobGasPerBlob.
  rewrite (u64_id (e + u)) by lia.
  rewrite (u64_id (bc_target bc)) by (unfold two64 in *; lia).
  rewrite (u64_id (bc_target bc * 131072)) by lia.
  unfold spec_excess_blob_gas_4844, GAS_PER_BLOB. cbn [bp_of bp_target].
  destruct (e + u <? bc_target bc * 131072) eqn:?; [reflexivity|].
  rewrite u64_id by (unfold two64 in *; lia). reflexivity.
Qed.

(* Osaka: EIP-7918.  Additional guards: base fee present, update fraction positive
   and loop-counter guard, 0 < max < 2^63, target <= max, and the scaled product
   does not wrap. *)
Theorem excess_blob_gas_eq_spec_7918 bc p e u bf :
  parent_blob_fields p = Some (e, u) -> h_base_fee p = Some bf ->
  0 <= e -> 0 <= u -> e + u < two64 ->
  0 <= bc_target bc <= bc_max bc -> 0 < bc_max bc < two63 -> bc_target bc * 131072 < two64 ->
  u * (bc_max bc - bc_target bc) < two64 ->
  0 < bc_update_fraction bc -> Z.pos (fe_fuel 1 e (bc_update_fraction bc)) < two63 - 1 ->
  exists blobfee,
    spec_blob_base_fee (bc_update_fraction bc) e blobfee /\
    calc_excess_blob_gas_inner true bc p = Ok (spec_excess_blob_gas_7918 (bp_of bc) e u bf blobfee).
Proof.
  intros Hp Hbf He Hu Hs Ht Hm Htt Hsc Huf Hg.
  destruct (fake_exponential_eq_spec 1 e (bc_update_fraction bc) Huf He Hg) as [fee [Efee Sfee]].
  exists fee. split; [exact Sfee|].
  unfold calc_excess_blob_gas_inner, parent_blob_fields in *.
  assert (Epp : (match h_excess_blob_gas p with
                 | None => Ok (0, 0)
                 | Some e0 => u0 <- deref (h_blob_gas_used p) ;; Ok (e0, u0) end) = Ok (e, u)).
  { destruct (h_excess_blob_gas p); [destruct (h_blob_gas_used p); [|discriminate]|];
      injection Hp as <- <-; reflexivity. }
  rewrite Epp. cbn [bind]. unfold BlobTxBlobGasPerBlob, BlobBaseCost.
  rewrite (u64_id (e + u)) by lia.
  rewrite (u64_id (bc_target bc)) by (unfold two64, two63 in *; lia).
  rewrite (u64_id (bc_target bc * 131072)) by lia.
  unfold spec_excess_blob_gas_7918, GAS_PER_BLOB, BLOB_BASE_COST. cbn [bp_of bp_target bp_max].
  destruct (e + u <? bc_target bc * 131072) eqn:?; [reflexivity|].
  rewrite Hbf. cbn [deref bind].
  unfold blob_price, blob_base_fee, BlobTxMinBlobGasprice, BlobTxBlobGasPerBlob. rewrite Efee. cbn [bind].
  rewrite (Z.mul_comm fee 131072).
  destruct (8192 * bf >? 131072 * fee) eqn:?.
  - rewrite (i64_id (bc_max bc - bc_target bc)) by (unfold two63 in *; lia).
    rewrite (u64_id (bc_max bc - bc_target bc)) by (unfold two64, two63 in *; lia).
    rewrite (u64_id (u * _)) by nia.
    rewrite (u64_id (bc_max bc)) by (unfold two64, two63 in *; lia).
    unfold u64_div. destruct (bc_max bc =? 0) eqn:?; [lia|]. cbn [bind].
    assert (0 <= u * (bc_max bc - bc_target bc) / bc_max bc <= u).
    { split; [apply Z.div_pos; nia|]. apply Z.div_le_upper_bound; nia. }
    rewrite u64_id by lia. reflexivity.
  - rewrite u64_id by (unfold two64 in *; lia). reflexivity.
Qed.

(* CalcBlobFee / blobBaseFee *)
Theorem blob_base_fee_eq_spec bc e :
  0 <= e < two64 -> 512 <= bc_update_fraction bc < two64 ->
  exists fee, blob_base_fee bc e = Ok fee /\ spec_blob_base_fee (bc_update_fraction bc) e fee.
Proof.
  intros He Hd. unfold blob_base_fee, spec_blob_base_fee, BlobTxMinBlobGasprice, MIN_BASE_FEE_PER_BLOB_GAS.
  apply fake_exponential_eq_spec; [lia|lia|]. apply fe_fuel_blob; assumption.
Qed.

(* latestBlobConfig picks the entry of the latest activated fork that has one *)
Definition schedule_list (c : chain_config) (s : blob_schedule) : list (option Z * option blob_params) :=
  [ (cfg_bpo5_time c, option_map bp_of (bs_bpo5 s));
    (cfg_bpo4_time c, option_map bp_of (bs_bpo4 s));
    (cfg_bpo3_time c, option_map bp_of (bs_bpo3 s));
    (cfg_bpo2_time c, option_map bp_of (bs_bpo2 s));
    (cfg_bpo1_time c, option_map bp_of (bs_bpo1 s));
    (cfg_prague_time c, option_map bp_of (bs_prague s));
    (cfg_cancun_time c, option_map bp_of (bs_cancun s)) ].

Lemma pick_eq (t : option Z) (e o : option blob_config) time :
  option_map bp_of (match is_timestamp_forked t time, e with
                    | true, Some bc => Some bc
                    | _, _ => o
                    end) =
  match (match t, option_map bp_of e with
         | Some t, Some p => if t <=? time then Some p else None
         | _, _ => None
         end) with
  | Some q => Some q
  | None => option_map bp_of o
  end.
Proof.
  unfold is_timestamp_forked. destruct t as [t|], e as [e|]; cbn [option_map]; try reflexivity;
    destruct (t <=? time); reflexivity.
Qed.

Theorem latest_blob_config_eq_spec c s lb time :
  cfg_blob_schedule c = Some s -> cfg_london_block c = Some lb ->
  option_map bp_of (latest_blob_config c time) = spec_active_blob_params time (schedule_list c s).
Proof.
  intros Hs Hl. unfold latest_blob_config. rewrite Hs.
  unfold is_bpo5, is_bpo4, is_bpo3, is_bpo2, is_bpo1, is_prague, is_cancun, is_london, is_block_forked.
  rewrite Hl. rewrite Z.leb_refl. cbn [andb].
  rewrite !pick_eq. reflexivity.
Qed.

Lemma latest_blob_config_no_london c time :
  cfg_london_block c = None -> latest_blob_config c time = None.
Proof.
  intros Hl. unfold latest_blob_config. destruct (cfg_blob_schedule c) as [s|]; [|reflexivity].
  unfold is_bpo5, is_bpo4, is_bpo3, is_bpo2, is_bpo1, is_prague, is_cancun, is_london, is_block_forked.
  rewrite Hl. reflexivity.
Qed.

(* ---------- intrinsic gas ---------- *)
Lemma checked_mul_add_eq gas n c :
  0 <= gas < two64 -> 0 <= n -> 0 < c ->
  checked_mul_add gas n c =
    if gas + n * c <? two64 then Ok (gas + n * c) else Err ErrGasUintOverflow.
Proof.
  intros Hg Hn Hc. unfold checked_mul_add.
  pose proof (Z.mul_succ_div_gt (MaxUint64 - gas) c Hc).
  pose proof (Z.mul_div_le (MaxUint64 - gas) c Hc).
  destruct ((MaxUint64 - gas) / c <? n) eqn:E1; destruct (gas + n * c <? two64) eqn:E2;
    unfold MaxUint64, two64 in *; try reflexivity; try nia.
  assert (0 <= n * c) by nia.
  unfold u64, two64. rewrite (Z.mod_small (n * c)) by lia. rewrite Z.mod_small by lia. reflexivity.
Qed.

Lemma to_word_size_eq s : 0 <= s < two64 -> to_word_size s = words s.
Proof.
  intros Hs. unfold to_word_size, words, u64, MaxUint64, two64 in *.
  destruct (s >? 18446744073709551615 - 31) eqn:?; [|rewrite Z.mod_small by lia; reflexivity].
  change (18446744073709551615 / 32 + 1) with 576460752303423488. lia.
Qed.

Definition forks_of (r : rules) : spec_forks :=
  {| f_homestead := IsHomestead r; f_istanbul := IsIstanbul r;
     f_shanghai := IsShanghai r; f_amsterdam := IsAmsterdam r |}.

Lemma base_2780_eq c s v :
  intrinsic_base_gas_eip2780 c s v = spec_base_2780 c s v /\
  12000 <= spec_base_2780 c s v <= 30000.
Proof. destruct c, s, v; vm_compute; split; try reflexivity; split; discriminate. Qed.

Definition auth_count (a : option Z) : Z := match a with Some n => n | None => 0 end.
Definition al_addresses (al : option (Z * Z)) : Z := match al with Some (a, _) => a | None => 0 end.
Definition al_keys (al : option (Z * Z)) : Z := match al with Some (_, k) => k | None => 0 end.

Definition res_of_unbounded (v : Z) : res Z :=
  if v <? two64 then Ok v else Err ErrGasUintOverflow.

Ltac cma :=
  rewrite checked_mul_add_eq by lia;
  match goal with |- context [?x <? two64] =>
    let E := fresh "E" in destruct (x <? two64) eqn:E; cbn [bind];
    [| match goal with |- context [?y <? two64] =>
         let E' := fresh "E" in destruct (y <? two64) eqn:E'; [exfalso; lia | reflexivity] end ]
  end.

Theorem intrinsic_gas_eq_spec create self hasv auth dataLen z al r :
  0 <= z <= dataLen -> dataLen < two64 ->
  0 <= al_addresses al < two64 -> 0 <= al_keys al < two64 ->
  (* the authorization product is added without overflow check: guard *)
  0 <= auth_count auth -> auth_count auth * 25000 < two64 - 53000 ->
  intrinsic_gas_n create self hasv auth dataLen z al r =
  res_of_unbounded
    (spec_intrinsic_gas (forks_of r) create self hasv (auth_count auth) z (dataLen - z)
                        (al_addresses al) (al_keys al)).
Proof.
  intros Hz Hd Haa Hak Hau0 Hau.
  assert (Htw : two64 = 18446744073709551616) by reflexivity.
  unfold intrinsic_gas_n, spec_intrinsic_gas, res_of_unbounded. cbn [forks_of f_homestead f_istanbul f_shanghai f_amsterdam].
  destruct (base_2780_eq create self hasv) as [-> Hb].
  set (B := spec_base_2780 create self hasv) in *.
  replace (z + (dataLen - z)) with dataLen by lia.
  rewrite (to_word_size_eq dataLen) by lia.
  assert (Hw : 0 <= words dataLen <= dataLen) by (unfold words; lia).
  set (W := words dataLen) in *.
  rewrite (u64_id (dataLen - z)) by lia.
  unfold TxGasContractCreation, TxGas, ExecutionPerAuthBaseCost, CallNewAccountGas,
    TxDataNonZeroGasEIP2028, TxDataNonZeroGasFrontier, TxDataZeroGas, InitCodeWordGas,
    TxAccessListAddressGasAmsterdam, TxAccessListAddressGas, TxAccessListStorageKeyGasAmsterdam,
    TxAccessListStorageKeyGas, AddressLength, HashLength, TxCostFloorPerToken7976, TxTokenPerNonZeroByte,
    TX_BASE_COST, TX_CREATE_COST, PER_AUTH_BASE_COST, PER_EMPTY_ACCOUNT_COST, TX_DATA_NONZERO_COST_2028,
    TX_DATA_NONZERO_COST_FRONTIER, TX_DATA_ZERO_COST, INITCODE_WORD_COST,
    ACCESS_LIST_ADDRESS_COST_AMSTERDAM, ACCESS_LIST_ADDRESS_COST, ACCESS_LIST_STORAGE_KEY_COST_AMSTERDAM,
    ACCESS_LIST_STORAGE_KEY_COST, STANDARD_TOKEN_COST, TOTAL_COST_FLOOR_PER_TOKEN_7976.
  (* the starting gas after the (unchecked) authorization charge *)
  set (g0 := if IsAmsterdam r then B else if create && IsHomestead r then 53000 else 21000).
  assert (Hg0 : 12000 <= g0 <= 53000) by (unfold g0; destruct (IsAmsterdam r), (create && IsHomestead r); lia).
  set (g0s := if IsAmsterdam r then B else if create && IsHomestead r then 21000 + 32000 else 21000).
  assert (Eg0 : g0s = g0) by (unfold g0, g0s; destruct (IsAmsterdam r), (create && IsHomestead r); reflexivity).
  rewrite Eg0. clearbody g0. clear Eg0 g0s.
  destruct (create && IsShanghai r) eqn:EIC;
  destruct (IsAmsterdam r) eqn:EA; destruct (IsIstanbul r) eqn:EI;
  (destruct auth as [na|]; cbn [auth_count] in *;
   [ rewrite (u64_id (na * _)) by lia;
     rewrite (u64_id (g0 + na * _)) by lia | ]);
  (destruct (dataLen >? 0) eqn:ED;
   [ cma; cma; try cma; cbn [bind] | cbn [bind]; assert (dataLen = 0) by lia; subst dataLen;
     assert (z = 0) by lia; subst z; assert (W = 0) by (unfold W, words; reflexivity) ]);
  (destruct al as [[ad ks]|]; cbn [al_addresses al_keys] in *;
   [ cma; cma; try (cma; cma) | ]);
  match goal with |- Ok ?a = (if ?b <? two64 then _ else _) =>
    replace b with a by lia;
    let E' := fresh "E" in destruct (a <? two64) eqn:E'; [reflexivity | exfalso; lia] end.
Qed.

(* the auth-list guard is necessary: beyond it the unchecked product wraps *)
Lemma intrinsic_gas_auth_wrap_example :
  let r := {| IsHomestead := true; IsIstanbul := true; IsShanghai := true; IsAmsterdam := false |} in
  intrinsic_gas_n false false false (Some 737869762948383) 0 0 None r = Ok 44384 /\
  spec_intrinsic_gas (forks_of r) false false false 737869762948383 0 0 0 0 = 18446744073709596000.
Proof. vm_compute. split; reflexivity. Qed.

(* ---------- floor data gas ---------- *)
Theorem floor_gas_eq_spec create self hasv dataLen z addresses keys r :
  0 <= z <= dataLen -> dataLen < two64 ->
  0 <= addresses < two64 -> 0 <= keys < two64 ->
  floor_data_gas_n create self hasv dataLen z addresses keys r =
  res_of_unbounded
    (spec_floor_data_gas (forks_of r) create self hasv z (dataLen - z) addresses keys).
Proof.
  intros Hz Hd Ha Hk.
  assert (Htw : two64 = 18446744073709551616) by reflexivity.
  unfold floor_data_gas_n, spec_floor_data_gas, res_of_unbounded. cbn [forks_of f_amsterdam].
  destruct (base_2780_eq create self hasv) as [-> Hb].
  set (B := spec_base_2780 create self hasv) in *.
  replace (z + (dataLen - z)) with dataLen by lia.
  unfold TxTokenPerNonZeroByte, AddressLength, HashLength, TxCostFloorPerToken7976, TxCostFloorPerToken,
    TxGas, STANDARD_TOKEN_COST, TOTAL_COST_FLOOR_PER_TOKEN_7976, TOTAL_COST_FLOOR_PER_TOKEN, TX_BASE_COST.
  change (MaxUint64 / 4) with 4611686018427387903.
  destruct (IsAmsterdam r) eqn:EA.
  - destruct (4611686018427387903 <? dataLen) eqn:E0; cbn [bind].
    { match goal with |- context [?y <? two64] => destruct (y <? two64) eqn:?; [exfalso; lia|reflexivity] end. }
    rewrite (u64_id (dataLen * 4)) by lia.
    cma. cma.
    match goal with |- context [(MaxUint64 - B) / 16 <? ?t] =>
      pose proof (Z.mul_succ_div_gt (MaxUint64 - B) 16 ltac:(lia));
      pose proof (Z.mul_div_le (MaxUint64 - B) 16 ltac:(lia));
      destruct ((MaxUint64 - B) / 16 <? t) eqn:E3 end;
    unfold MaxUint64 in *;
    match goal with |- context [?y <? two64] => destruct (y <? two64) eqn:? end;
    try reflexivity; try (exfalso; lia).
    rewrite (u64_id (_ * 16)) by lia. rewrite u64_id by lia. f_equal. lia.
  - rewrite (u64_id (dataLen - z)) by lia.
    destruct (4611686018427387903 <? dataLen - z) eqn:E0; cbn [bind].
    { match goal with |- context [?y <? two64] => destruct (y <? two64) eqn:?; [exfalso; lia|reflexivity] end. }
    rewrite (u64_id ((dataLen - z) * 4)) by lia.
    destruct (MaxUint64 - (dataLen - z) * 4 <? z) eqn:E1; cbn [bind].
    { unfold MaxUint64 in *.
      match goal with |- context [?y <? two64] => destruct (y <? two64) eqn:?; [exfalso; lia|reflexivity] end. }
    unfold MaxUint64 in *. rewrite (u64_id ((dataLen - z) * 4 + z)) by lia.
    match goal with |- context [(?M - 21000) / 10 <? ?t] =>
      pose proof (Z.mul_succ_div_gt (M - 21000) 10 ltac:(lia));
      pose proof (Z.mul_div_le (M - 21000) 10 ltac:(lia));
      destruct ((M - 21000) / 10 <? t) eqn:E3 end;
    match goal with |- context [?y <? two64] => destruct (y <? two64) eqn:? end;
    try reflexivity; try (exfalso; lia).
    rewrite (u64_id (_ * 10)) by lia. rewrite u64_id by lia. f_equal. lia.
Qed.

(* ---------- on Go-shaped arguments ---------- *)
Lemma count_zero_bounds data : 0 <= count_zero data <= zlen data.
Proof.
  unfold zlen. induction data as [|b rest IH]; cbn [count_zero length]; [lia|].
  destruct (N.eqb b 0); lia.
Qed.

Definition ta_al_pair (a : tx_args) : option (Z * Z) :=
  match ta_access_list a with
  | None => None
  | Some al => Some (u64 (zlen al), u64 (storage_keys al))
  end.

Lemma u64_range x : 0 <= u64 x < two64.
Proof. unfold u64, two64. apply Z.mod_pos_bound. lia. Qed.

Theorem intrinsic_gas_args_eq_spec a r :
  zlen (ta_data a) < two64 ->
  0 <= auth_count (ta_auth_len a) -> auth_count (ta_auth_len a) * 25000 < two64 - 53000 ->
  intrinsic_gas a r =
  res_of_unbounded
    (spec_intrinsic_gas (forks_of r) (ta_is_create a) (ta_is_self a) (ta_has_value a)
       (auth_count (ta_auth_len a)) (count_zero (ta_data a)) (zlen (ta_data a) - count_zero (ta_data a))
       (al_addresses (ta_al_pair a)) (al_keys (ta_al_pair a))).
Proof.
  intros Hl Ha0 Ha. unfold intrinsic_gas. pose proof (count_zero_bounds (ta_data a)) as Hc.
  assert (Hlen : 0 <= zlen (ta_data a)) by (unfold zlen; lia).
  rewrite (u64_id (zlen (ta_data a))) by lia. rewrite (u64_id (count_zero (ta_data a))) by lia.
  fold (ta_al_pair a).
  apply intrinsic_gas_eq_spec; try lia.
  - unfold ta_al_pair. destruct (ta_access_list a); cbn [al_addresses]; [apply u64_range|unfold two64; lia].
  - unfold ta_al_pair. destruct (ta_access_list a); cbn [al_keys]; [apply u64_range|unfold two64; lia].
Qed.

Definition ta_al_list (a : tx_args) : list Z :=
  match ta_access_list a with None => [] | Some al => al end.

Theorem floor_gas_args_eq_spec a r :
  zlen (ta_data a) < two64 ->
  floor_data_gas a r =
  res_of_unbounded
    (spec_floor_data_gas (forks_of r) (ta_is_create a) (ta_is_self a) (ta_has_value a)
       (count_zero (ta_data a)) (zlen (ta_data a) - count_zero (ta_data a))
       (u64 (zlen (ta_al_list a))) (u64 (storage_keys (ta_al_list a)))).
Proof.
  intros Hl. unfold floor_data_gas. fold (ta_al_list a).
  pose proof (count_zero_bounds (ta_data a)) as Hc.
  assert (Hlen : 0 <= zlen (ta_data a)) by (unfold zlen; lia).
  rewrite (u64_id (zlen (ta_data a))) by lia. rewrite (u64_id (count_zero (ta_data a))) by lia.
  apply floor_gas_eq_spec; try lia; apply u64_range.
Qed.

(* the access-list projections are the true counts when they fit *)
Lemma storage_keys_sum al :
  Forall (fun n => 0 <= n) al -> fold_right Z.add 0 al < two63 ->
  storage_keys al = fold_right Z.add 0 al.
Proof.
  intros Hpos Hsum. unfold storage_keys.
  assert (G : forall acc, 0 <= acc -> acc + fold_right Z.add 0 al < two63 ->
              fold_left (fun sum n => i64 (sum + n)) al acc = acc + fold_right Z.add 0 al).
  { induction Hpos as [|n l Hn Hl IH]; intros acc Hacc Hb; cbn [fold_left fold_right] in *; [lia|].
    assert (0 <= fold_right Z.add 0 l).
    { clear - Hl. induction Hl; cbn [fold_right]; lia. }
    rewrite i64_id by (unfold two63 in *; lia). rewrite IH by lia. lia. }
  rewrite G by lia. lia.
Qed.

(* ---------- base fee step bound ---------- *)
Theorem basefee_step_bound c p bf r :
  is_london c (Some (h_number p)) = true ->
  h_base_fee p = Some bf -> 0 <= bf ->
  0 <= h_gas_limit p < two64 -> 0 <= h_gas_used p < two64 -> 2 <= h_gas_limit p ->
  (* the elasticity bound: at most twice the target is used *)
  h_gas_used p <= 2 * (h_gas_limit p / 2) ->
  calc_base_fee c p = Ok r ->
  Z.abs (r - bf) <= Z.max (bf / 8) 1 /\
  (h_gas_used p > h_gas_limit p / 2 -> bf + 1 <= r) /\
  (h_gas_used p < h_gas_limit p / 2 -> bf - bf / 8 <= r <= bf) /\
  (h_gas_used p = h_gas_limit p / 2 -> r = bf).
Proof.
  intros HL Hbf Hbf0 Hl Hu Hg He Hr.
  rewrite (basefee_eq_spec c p bf) in Hr by (try assumption; lia). injection Hr as <-.
  unfold spec_base_fee, ELASTICITY_MULTIPLIER, BASE_FEE_MAX_CHANGE_DENOMINATOR.
  set (t := h_gas_limit p / 2) in *. set (u := h_gas_used p) in *.
  assert (Ht : 0 < t) by (unfold t; lia).
  destruct (u =? t) eqn:E1; [lia|]. destruct (u >? t) eqn:E2.
  - assert (Hq : 0 <= bf * (u - t) / t / 8 <= bf / 8).
    { split; [apply Z.div_pos; [apply Z.div_pos; nia|lia]|].
      apply Z.div_le_mono; [lia|]. apply Z.div_le_upper_bound; nia. }
    lia.
  - assert (Hq : 0 <= bf * (t - u) / t / 8 <= bf / 8).
    { split; [apply Z.div_pos; [apply Z.div_pos; nia|lia]|].
      apply Z.div_le_mono; [lia|]. apply Z.div_le_upper_bound; nia. }
    lia.
Qed.

(* with an odd gas limit a full block exceeds twice the target and the increase can
   exceed parent/8: the 12.5% bound needs the elasticity guard above *)
Lemma basefee_step_bound_odd_limit_refuted :
  exists c p bf r,
    is_london c (Some (h_number p)) = true /\ h_base_fee p = Some bf /\
    h_gas_used p <= h_gas_limit p /\ calc_base_fee c p = Ok r /\
    r - bf > Z.max (bf / 8) 1.
Proof.
  exists {| cfg_london_block := Some 0; cfg_cancun_time := None; cfg_prague_time := None;
            cfg_osaka_time := None; cfg_bpo1_time := None; cfg_bpo2_time := None; cfg_bpo3_time := None;
            cfg_bpo4_time := None; cfg_bpo5_time := None; cfg_blob_schedule := None |},
         {| h_number := 10; h_gas_limit := 30000001; h_gas_used := 30000001; h_time := 0;
            h_base_fee := Some 8000000000; h_excess_blob_gas := None; h_blob_gas_used := None |},
         8000000000, 9000000066.
  vm_compute. repeat split; congruence.
Qed.

Lemma basefee_pre_london c p :
  is_london c (Some (h_number p)) = false ->
  calc_base_fee c p = Ok (spec_expected_base_fee false (h_gas_limit p) (h_gas_used p) 0).
Proof. intros H. unfold calc_base_fee. rewrite H. reflexivity. Qed.

(* a zero gas target with gas used: big.Int.Div panics *)
Lemma basefee_zero_target_panics c p bf :
  is_london c (Some (h_number p)) = true -> h_base_fee p = Some bf ->
  0 <= h_gas_limit p < 2 -> 0 < h_gas_used p < two64 ->
  calc_base_fee c p = Panic PanicDivZero.
Proof.
  intros HL Hbf Hl Hu. unfold calc_base_fee. rewrite HL, Hbf. cbn [negb].
  unfold elasticity_multiplier, DefaultElasticityMultiplier.
  replace (h_gas_limit p / 2) with 0 by lia.
  destruct (h_gas_used p =? 0) eqn:?; [lia|]. destruct (h_gas_used p >? 0) eqn:?; [|lia].
  reflexivity.
Qed.

(* ---------- gas limit, continued ---------- *)
Theorem gaslimit_valid_iff p h :
  0 <= p < two64 -> 0 <= h < two64 -> Z.abs (p - h) < two63 ->
  (verify_gaslimit p h = 0 <-> spec_gas_limit_valid p h = true).
Proof.
  intros Hp Hh Hd. rewrite gaslimit_eq_spec by assumption.
  unfold spec_gas_limit_class, spec_gas_limit_valid, GAS_LIMIT_MINIMUM.
  destruct (spec_gas_limit_in_bounds p h); cbn [negb andb]; [|split; discriminate].
  destruct (h <? 5000) eqn:?; destruct (h >=? 5000) eqn:?; try lia; split; congruence.
Qed.

Corollary gaslimit_eq_spec_capped p h :
  0 <= p <= MaxGasLimit -> 0 <= h <= MaxGasLimit ->
  verify_gaslimit p h = spec_gas_limit_class p h.
Proof.
  unfold MaxGasLimit. intros. apply gaslimit_eq_spec; unfold two64, two63; lia.
Qed.

(* beyond the guard the int64 subtraction wraps and the implementation accepts what
   the specification rejects; this input is reachable through VerifyEIP1559Header at
   the London transition block (parent limit 2^63-1 is doubled to 2^64-2) *)
Lemma gaslimit_beyond_guard_refuted :
  exists p h, 0 <= p < two64 /\ 0 <= h <= MaxGasLimit /\
              verify_gaslimit p h = 0 /\ spec_gas_limit_class p h = 1.
Proof. exists 18446744073709551614, 5000. vm_compute. repeat split; congruence. Qed.

Lemma eip1559_transition_refuted :
  exists c parent hdr,
    is_london c (Some (h_number parent)) = false /\
    h_gas_limit parent <= MaxGasLimit /\ h_gas_limit hdr <= MaxGasLimit /\
    verify_eip1559_header c parent hdr = Ok 0 /\
    spec_gas_limit_valid (h_gas_limit parent * ELASTICITY_MULTIPLIER) (h_gas_limit hdr) = false.
Proof.
  exists {| cfg_london_block := Some 1; cfg_cancun_time := None; cfg_prague_time := None;
            cfg_osaka_time := None; cfg_bpo1_time := None; cfg_bpo2_time := None; cfg_bpo3_time := None;
            cfg_bpo4_time := None; cfg_bpo5_time := None; cfg_blob_schedule := None |},
         {| h_number := 0; h_gas_limit := 9223372036854775807; h_gas_used := 0; h_time := 0;
            h_base_fee := None; h_excess_blob_gas := None; h_blob_gas_used := None |},
         {| h_number := 1; h_gas_limit := 5000; h_gas_used := 0; h_time := 1;
            h_base_fee := Some 1000000000; h_excess_blob_gas := None; h_blob_gas_used := None |}.
  vm_compute. repeat split; congruence.
Qed.

(* VerifyEIP1559Header for a London parent within the cap *)
Theorem verify_eip1559_eq_spec c parent hdr bf hbf :
  is_london c (Some (h_number parent)) = true ->
  h_base_fee parent = Some bf -> 0 <= bf -> h_base_fee hdr = Some hbf ->
  0 <= h_gas_limit parent <= MaxGasLimit -> 0 <= h_gas_limit hdr <= MaxGasLimit ->
  0 <= h_gas_used parent < two64 -> (2 <= h_gas_limit parent \/ h_gas_used parent = 0) ->
  verify_eip1559_header c parent hdr =
    Ok (let e := spec_gas_limit_class (h_gas_limit parent) (h_gas_limit hdr) in
        if negb (e =? 0) then e
        else if hbf =? spec_base_fee (h_gas_limit parent) (h_gas_used parent) bf then 0 else 5).
Proof.
  intros HL Hbf Hbf0 Hh Hp Hhl Hu Hg. unfold verify_eip1559_header. rewrite HL. cbn [negb].
  rewrite gaslimit_eq_spec_capped by assumption. cbv zeta.
  destruct (negb (spec_gas_limit_class (h_gas_limit parent) (h_gas_limit hdr) =? 0)); [reflexivity|].
  rewrite Hh, Hbf. cbn [andb].
  rewrite (basefee_eq_spec c parent bf) by (try assumption; unfold MaxGasLimit, two64 in *; lia).
  cbn [bind]. destruct (hbf =? _); reflexivity.
Qed.
