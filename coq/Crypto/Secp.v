(* Crypto/Secp.v — an executable secp256k1 over Z (Jacobian coordinates, the
   special-prime reduction 2^256 = 2^32 + 977 mod p) with SEC 1 4.1.6 public-key
   recovery, written from SEC 1 / SEC 2 only.

   THIS IS A TEST ORACLE, not a verified curve: nothing about the group law is
   proved.  It is used (a) by Crypto/SecpTest.v, which checks by vm_compute that it
   reproduces go-ethereum's crypto.Sign / crypto.Ecrecover on fixed vectors, and
   (b) by Run/C03.v on the few kind-8 cases of the correspondence run, as a third
   implementation next to libsecp256k1 (cgo) and decred (CGO_ENABLED=0).
   The C03 theorems do not depend on this file: they take the scheme as a
   hypothesis ([recover_sign]), which is NOT proved for this or any curve. *)
From Coq Require Import ZArith List Bool.
Import ListNotations.
Local Open Scope Z_scope.
Definition sp_p : Z := 0xFFFFFFFFFFFFFFFFFFFFFFFFFFFFFFFFFFFFFFFFFFFFFFFFFFFFFFFEFFFFFC2F.
Definition sp_n : Z := 0xFFFFFFFFFFFFFFFFFFFFFFFFFFFFFFFEBAAEDCE6AF48A03BBFD25E8CD0364141.
Definition sp_gx : Z := 0x79BE667EF9DCBBAC55A06295CE870B07029BFCDB2DCE28D959F2815B16F81798.
Definition sp_gy : Z := 0x483ADA7726A3C4655DA4FBFC0E1108A8FD17B448A68554199C47D08FFB10D4B8.
Definition mask256 : Z := 2 ^ 256 - 1.
Definition sp_c : Z := 2 ^ 32 + 977.

(* x mod p for 0 <= x < 2^512, by folding the high half: 2^256 = 2^32 + 977 (mod p) *)
Definition fred (x : Z) : Z :=
  let x1 := Z.land x mask256 + Z.shiftr x 256 * sp_c in
  let x2 := Z.land x1 mask256 + Z.shiftr x1 256 * sp_c in
  let x3 := Z.land x2 mask256 + Z.shiftr x2 256 * sp_c in
  if x3 <? sp_p then x3 else x3 - sp_p.
Definition fmul (a b : Z) : Z := fred (a * b).
Definition fsub (a b : Z) : Z := if b <=? a then a - b else a - b + sp_p.
Definition fadd (a b : Z) : Z := let s := a + b in if s <? sp_p then s else s - sp_p.

Fixpoint pow_bits (mul : Z -> Z -> Z) (x : Z) (bits : list bool) (acc : Z) : Z :=
  match bits with
  | [] => acc
  | b :: r => let a2 := mul acc acc in pow_bits mul x r (if b then mul a2 x else a2)
  end.
Fixpoint pos_bits (p : positive) (acc : list bool) : list bool :=
  match p with
  | xH => true :: acc
  | xO q => pos_bits q (false :: acc)
  | xI q => pos_bits q (true :: acc)
  end.
Definition z_bits (z : Z) : list bool := match z with Zpos p => pos_bits p [] | _ => [] end.
Definition fpow (x e : Z) : Z := pow_bits fmul x (z_bits e) 1.
Definition finv (x : Z) : Z := fpow x (sp_p - 2).

Definition nmul (a b : Z) : Z := (a * b) mod sp_n.
Definition ninv (x : Z) : Z := pow_bits nmul x (z_bits (sp_n - 2)) 1.

(* Jacobian points (X, Y, Z), Z = 0 is infinity *)
Definition jpoint := (Z * Z * Z)%type.
Definition jinf : jpoint := (1, 1, 0).
Definition jdouble (P : jpoint) : jpoint :=
  let '(X, Y, Zc) := P in
  if (Zc =? 0) || (Y =? 0) then jinf else
  let Y2 := fmul Y Y in
  let S := fmul 4 (fmul X Y2) in
  let M := fmul 3 (fmul X X) in
  let X' := fsub (fmul M M) (fadd S S) in
  let Y' := fsub (fmul M (fsub S X')) (fmul 8 (fmul Y2 Y2)) in
  (X', Y', fmul (fadd Y Y) Zc).
(* mixed addition: P Jacobian + (x2, y2) affine *)
Definition jadd_affine (P : jpoint) (x2 y2 : Z) : jpoint :=
  let '(X1, Y1, Z1) := P in
  if Z1 =? 0 then (x2, y2, 1) else
  let Z1Z1 := fmul Z1 Z1 in
  let U2 := fmul x2 Z1Z1 in
  let S2 := fmul y2 (fmul Z1 Z1Z1) in
  let Hh := fsub U2 X1 in
  let R := fsub S2 Y1 in
  if Hh =? 0 then (if R =? 0 then jdouble P else jinf) else
  let H2 := fmul Hh Hh in
  let H3 := fmul Hh H2 in
  let X1H2 := fmul X1 H2 in
  let X3 := fsub (fsub (fmul R R) H3) (fadd X1H2 X1H2) in
  let Y3 := fsub (fmul R (fsub X1H2 X3)) (fmul Y1 H3) in
  (X3, Y3, fmul Z1 Hh).
Fixpoint jmul_bits (bits : list bool) (x y : Z) (acc : jpoint) : jpoint :=
  match bits with
  | [] => acc
  | b :: r => let d := jdouble acc in jmul_bits r x y (if b then jadd_affine d x y else d)
  end.
Definition jmul (k x y : Z) : jpoint := jmul_bits (z_bits k) x y jinf.
Definition to_affine (P : jpoint) : option (Z * Z) :=
  let '(X, Y, Zc) := P in
  if Zc =? 0 then None else
  let zi := finv Zc in let zi2 := fmul zi zi in
  Some (fmul X zi2, fmul Y (fmul zi zi2)).

(* SEC 1 4.1.6 public key recovery; z = the hash as an integer; recid = overflow<<1 | parity *)
Definition sp_recover (z r s recid : Z) : option (Z * Z) :=
  if (r <? 1) || (sp_n <=? r) || (s <? 1) || (sp_n <=? s) || (recid <? 0) || (3 <? recid) then None else
  let x := if 2 <=? recid then r + sp_n else r in
  if sp_p <=? x then None else
  let y2 := fadd (fmul x (fmul x x)) 7 in
  let y := fpow y2 ((sp_p + 1) / 4) in
  if negb (fmul y y =? y2) then None else
  let y := if Bool.eqb (Z.odd y) (Z.odd recid) then y else sp_p - y in
  let rinv := ninv r in
  let u1 := (sp_n - nmul (z mod sp_n) rinv) mod sp_n in
  let u2 := nmul s rinv in
  match to_affine (jmul u2 x y) with
  | None => to_affine (jmul u1 sp_gx sp_gy)
  | Some (ax, ay) => to_affine (jadd_affine (jmul u1 sp_gx sp_gy) ax ay)
  end.
Definition sp_pub (d : Z) : option (Z * Z) := to_affine (jmul d sp_gx sp_gy).
