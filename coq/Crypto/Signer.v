(* Crypto/Signer.v — executable model of the transaction signer layer of
   /repo/core/types/transaction_signing.go (FrontierSigner, HomesteadSigner,
   EIP155Signer, modernSigner = Berlin/London/Cancun/Prague; MakeSigner,
   LatestSigner, SignTx, WithSignature, Sender, recoverPlain, deriveChainId,
   decodeSignature), of the per-type sigHash / setSignatureValues of
   core/types/tx_*.go, of isProtectedV / Protected / sanityCheckSignature of
   core/types/transaction.go and of crypto.ValidateSignatureValues
   (crypto/crypto.go), over an ABSTRACT signature scheme.

   The curve (crypto.Sign / crypto.Ecrecover, crypto/secp256k1, decred) and
   Keccak-256 are Section variables: [sign], [recover], [pub], [addr_of], [H].
   Definitions only; the lemmas are in Crypto/SignerProofs.v.

   Number conventions: *big.Int values (V, R, S, chain ids) are [Z], unbounded;
   the places where Go truncates (byte arithmetic in decodeSignature /
   SignatureValues, big.Int.Uint64, uint64 subtraction, byte(...) in
   recoverPlain / deriveChainId / sanityCheckSignature, uint256.SetFromBig) are
   written out with explicit [mod].  Payload fields (nonce, gas, value ...) are
   [N] (the harness only builds non-negative ones; a negative big.Int makes
   rlp.Encode fail, which rlpHash ignores — not modelled). *)
From GV Require Import Lib.Bytes Rlp.Item Rlp.Codec.
From Coq Require Import ZArith.
Local Open Scope Z_scope.

(* ---------- math/big helpers ---------- *)

(* big.Int.BitLen: length of the absolute value in bits, 0 for 0 *)
Definition bitlen (z : Z) : Z := if z =? 0 then 0 else Z.log2 (Z.abs z) + 1.
(* big.Int.Uint64: the low 64 bits of the ABSOLUTE value (nat.go low64) *)
Definition two64 : Z := 2 ^ 64.
Definition two256 : Z := 2 ^ 256.
Definition u64 (z : Z) : Z := Z.abs z mod two64.
(* uint64 subtraction *)
Definition sub64 (a b : Z) : Z := (a - b) mod two64.
(* uint256.Int.SetFromBig (conversion.go:244): low 256 bits of |b|, negated
   (two's complement) when b < 0; the returned overflow flag is len(words) > 4 *)
Definition u256_from_big (z : Z) : Z :=
  let m := Z.abs z mod two256 in
  if z <? 0 then (two256 - m) mod two256 else m.
Definition u256_overflow (z : Z) : bool := two256 <=? Z.abs z.

(* ---------- crypto/crypto.go ---------- *)

(* crypto.go:47-48  secp256k1N, secp256k1halfN = N / 2 *)
Definition secp_n : Z :=
  0xFFFFFFFFFFFFFFFFFFFFFFFFFFFFFFFEBAAEDCE6AF48A03BBFD25E8CD0364141.
Definition secp_half_n : Z := secp_n / 2.

(* crypto.go ValidateSignatureValues(v byte, r, s *big.Int, homestead bool) *)
Definition validate_signature_values (v r s : Z) (homestead : bool) : bool :=
  if (r <? 1) || (s <? 1) then false
  else if homestead && (s >? secp_half_n) then false
  else (r <? secp_n) && (s <? secp_n) && ((v =? 0) || (v =? 1)).

(* ---------- transactions ---------- *)

Inductive txtype := LegacyTx | AccessListTx | DynamicFeeTx | BlobTx | SetCodeTx.
Definition txtype_code (t : txtype) : N :=
  match t with LegacyTx => 0 | AccessListTx => 1 | DynamicFeeTx => 2
             | BlobTx => 3 | SetCodeTx => 4 end%N.
Definition is_legacy (t : txtype) : bool :=
  match t with LegacyTx => true | _ => false end.
(* BlobTx / SetCodeTx hold ChainID, V, R, S as uint256.Int *)
Definition is_u256_type (t : txtype) : bool :=
  match t with BlobTx | SetCodeTx => true | _ => false end.

(* tx_setcode.go SetCodeAuthorization *)
Record authz := { a_chain : N; a_addr : list N; a_nonce : N; a_v : N; a_r : N; a_s : N }.

(* everything a transaction carries except chain id and signature; a field
   that a type does not have is ignored by that type's functions *)
Record payload := {
  p_nonce : N;
  p_price : N;             (* GasPrice (legacy, access list) / GasTipCap *)
  p_feecap : N;            (* GasFeeCap (dynamic fee, blob, set code) *)
  p_gas : N;
  p_to : option (list N);  (* nil = contract creation; blob/setcode: always Some *)
  p_value : N;
  p_data : list N;
  p_access : list (list N * list (list N));
  p_blobfeecap : N;
  p_blobhashes : list (list N);
  p_auth : list authz }.

Record tx := {
  t_type : txtype;
  t_payload : payload;
  t_chain : Z;             (* ChainID field of typed txs (legacy: unused, derived from V) *)
  t_v : Z; t_r : Z; t_s : Z }.

Definition set_vrs (t : tx) (v r s : Z) : tx :=
  {| t_type := t_type t; t_payload := t_payload t; t_chain := t_chain t;
     t_v := v; t_r := r; t_s := s |}.
Definition set_chain_vrs (t : tx) (c v r s : Z) : tx :=
  {| t_type := t_type t; t_payload := t_payload t; t_chain := c;
     t_v := v; t_r := r; t_s := s |}.

(* transaction_signing.go:507 deriveChainId *)
Definition derive_chain_id (v : Z) : Z :=
  if bitlen v <=? 64 then
    let v' := u64 v in
    if (v' =? 27) || (v' =? 28) then 0 else sub64 v' 35 / 2
  else Z.shiftr (v - 35) 1.

(* transaction.go:257 isProtectedV *)
Definition is_protected_v (v : Z) : bool :=
  if bitlen v <=? 8 then
    let v' := u64 v in
    negb (v' =? 27) && negb (v' =? 28) && negb (v' =? 1) && negb (v' =? 0)
  else true.

(* transaction.go:267 Protected (V is never nil after NewTx's copy()) *)
Definition tx_protected (t : tx) : bool :=
  match t_type t with LegacyTx => is_protected_v (t_v t) | _ => true end.

(* Transaction.ChainId = inner.chainID(): tx_legacy.go:96 deriveChainId(tx.V);
   typed: the ChainID field *)
Definition tx_chain_id (t : tx) : Z :=
  match t_type t with LegacyTx => derive_chain_id (t_v t) | _ => t_chain t end.

(* Transaction.GasPrice(): gasPrice() is GasFeeCap for 1559-style types *)
Definition tx_gas_price (t : tx) : N :=
  match t_type t with
  | LegacyTx | AccessListTx => p_price (t_payload t)
  | _ => p_feecap (t_payload t)
  end.

(* ---------- signature-hash preimages (rlpHash / prefixedRlpHash arguments) ---------- *)

Definition it_n (n : N) : item := Str (be_bytes n).
Definition it_z (z : Z) : item := it_n (Z.to_N z).
Definition it_to (o : option (list N)) : item :=
  Str (match o with Some a => a | None => [] end).
Definition it_access (al : list (list N * list (list N))) : item :=
  Lst (map (fun e => Lst [Str (fst e); Lst (map Str (snd e))]) al).
Definition it_auth (a : authz) : item :=
  Lst [it_n (a_chain a); Str (a_addr a); it_n (a_nonce a); it_n (a_v a);
       it_n (a_r a); it_n (a_s a)].

(* the fields that enter the signature hash, in order, with the optional type
   prefix byte: tx_legacy.go:128, tx_access_list.go:131, tx_dynamic_fee.go:127,
   tx_blob.go:438, tx_setcode.go:231 — none of V, R, S, and not the tx's own
   ChainID field: the chain id hashed is the SIGNER's *)
Definition inner_sig_fields (ty : txtype) (p : payload) (chain : Z) : option N * list item :=
  match ty with
  | LegacyTx =>
      (None, [it_n (p_nonce p); it_n (p_price p); it_n (p_gas p); it_to (p_to p);
              it_n (p_value p); Str (p_data p); it_z chain; it_n 0; it_n 0])
  | AccessListTx =>
      (Some 1%N, [it_z chain; it_n (p_nonce p); it_n (p_price p); it_n (p_gas p);
                  it_to (p_to p); it_n (p_value p); Str (p_data p); it_access (p_access p)])
  | DynamicFeeTx =>
      (Some 2%N, [it_z chain; it_n (p_nonce p); it_n (p_price p); it_n (p_feecap p);
                  it_n (p_gas p); it_to (p_to p); it_n (p_value p); Str (p_data p);
                  it_access (p_access p)])
  | BlobTx =>
      (Some 3%N, [it_z chain; it_n (p_nonce p); it_n (p_price p); it_n (p_feecap p);
                  it_n (p_gas p); it_to (p_to p); it_n (p_value p); Str (p_data p);
                  it_access (p_access p); it_n (p_blobfeecap p);
                  Lst (map Str (p_blobhashes p))])
  | SetCodeTx =>
      (Some 4%N, [it_z chain; it_n (p_nonce p); it_n (p_price p); it_n (p_feecap p);
                  it_n (p_gas p); it_to (p_to p); it_n (p_value p); Str (p_data p);
                  it_access (p_access p); Lst (map it_auth (p_auth p))])
  end.

Definition preimage_bytes (f : option N * list item) : list N :=
  (match fst f with Some b => [b] | None => [] end) ++ enc (Lst (snd f)).

Definition inner_preimage (t : tx) (chain : Z) : list N :=
  preimage_bytes (inner_sig_fields (t_type t) (t_payload t) chain).

(* transaction_signing.go:458 FrontierSigner.Hash: six fields through the
   accessors Nonce/GasPrice/Gas/To/Value/Data *)
Definition frontier_preimage (t : tx) : list N :=
  let p := t_payload t in
  preimage_bytes (None, [it_n (p_nonce p); it_n (tx_gas_price t); it_n (p_gas p);
                         it_to (p_to p); it_n (p_value p); Str (p_data p)]).

(* ---------- signers ---------- *)

Inductive fork := Berlin | London | Cancun | Prague.
Inductive signer :=
| Frontier
| Homestead
| EIP155 (chain : Z)
| Modern (f : fork) (chain : Z).    (* modernSigner; legacy part = EIP155 chain *)

Definition fork_rank (f : fork) : N :=
  match f with Berlin => 0 | London => 1 | Cancun => 2 | Prague => 3 end%N.

(* newModernSigner's txtypes bitmap + supportsType *)
Definition modern_supports (f : fork) (ty : txtype) : bool :=
  match ty with
  | LegacyTx | AccessListTx => true
  | DynamicFeeTx => (1 <=? fork_rank f)%N
  | BlobTx => (2 <=? fork_rank f)%N
  | SetCodeTx => (3 <=? fork_rank f)%N
  end.

Definition signer_supports (sg : signer) (ty : txtype) : bool :=
  match sg with
  | Frontier | Homestead | EIP155 _ => is_legacy ty
  | Modern f _ => modern_supports f ty
  end.

(* Signer.ChainID(): nil for Frontier / Homestead *)
Definition signer_chain_id (sg : signer) : option Z :=
  match sg with Frontier | Homestead => None | EIP155 c | Modern _ c => Some c end.

(* Signer.Hash preimage *)
Definition signer_preimage (sg : signer) (t : tx) : list N :=
  match sg with
  | Frontier | Homestead => frontier_preimage t
  | EIP155 c | Modern _ c => inner_preimage t c
  end.

Inductive serr :=
| ErrInvalidSig | ErrTxTypeNotSupported | ErrInvalidChainId
| ErrRecoverFailed              (* crypto.Ecrecover returned an error *)
| ErrUnexpectedProtection       (* sanityCheckSignature only *)
| PanicOverflow                 (* uint256.MustFromBig panics (SetCodeTx, chain id >= 2^256) *)
| PanicNilChainID.              (* typed tx given a nil signer chain id: unreachable, see proofs *)
Definition serr_code (e : serr) : Z :=
  match e with
  | ErrInvalidSig => 1 | ErrTxTypeNotSupported => 2 | ErrInvalidChainId => 3
  | ErrRecoverFailed => 4 | ErrUnexpectedProtection => 5 | PanicOverflow => 6
  | PanicNilChainID => 7
  end.
Inductive res (A : Type) := ROk (a : A) | RErr (e : serr).
Arguments ROk {A} a. Arguments RErr {A} e.

(* decodeSignature: v = byte(sig[64] + 27) (byte addition wraps) *)
Definition decode_v (recid : Z) : Z := (recid + 27) mod 256.

(* FrontierSigner.SignatureValues (HomesteadSigner delegates to it) *)
Definition frontier_sigvals (t : tx) (r s recid : Z) : res (Z * Z * Z) :=
  if is_legacy (t_type t) then ROk (r, s, decode_v recid) else RErr ErrTxTypeNotSupported.

(* EIP155Signer.SignatureValues: V = int64(byte(sig[64] + 35)) + 2*chainId
   when chainId.Sign() != 0 *)
Definition eip155_sigvals (c : Z) (t : tx) (r s recid : Z) : res (Z * Z * Z) :=
  if is_legacy (t_type t) then
    if c =? 0 then ROk (r, s, decode_v recid)
    else ROk (r, s, (recid + 35) mod 256 + c + c)
  else RErr ErrTxTypeNotSupported.

(* modernSigner.SignatureValues *)
Definition modern_sigvals (f : fork) (c : Z) (t : tx) (r s recid : Z) : res (Z * Z * Z) :=
  if negb (modern_supports f (t_type t)) then RErr ErrTxTypeNotSupported
  else if is_legacy (t_type t) then eip155_sigvals c t r s recid
  else if negb (t_chain t =? 0) && negb (t_chain t =? c) then RErr ErrInvalidChainId
  else ROk (r, s, recid).

Definition signature_values (sg : signer) (t : tx) (r s recid : Z) : res (Z * Z * Z) :=
  match sg with
  | Frontier | Homestead => frontier_sigvals t r s recid
  | EIP155 c => eip155_sigvals c t r s recid
  | Modern f c => modern_sigvals f c t r s recid
  end.

(* inner.setSignatureValues(signer.ChainID(), v, r, s) on the copy *)
Definition set_signature_values (t : tx) (chain : option Z) (v r s : Z) : res tx :=
  match t_type t with
  | LegacyTx => ROk (set_vrs t v r s)
  | AccessListTx | DynamicFeeTx =>
      match chain with
      | Some c => ROk (set_chain_vrs t c v r s)
      | None => RErr PanicNilChainID
      end
  | BlobTx =>   (* tx_blob.go:323 SetFromBig, overflow ignored *)
      match chain with
      | Some c => ROk (set_chain_vrs t (u256_from_big c) (u256_from_big v)
                         (u256_from_big r) (u256_from_big s))
      | None => RErr PanicNilChainID
      end
  | SetCodeTx => (* tx_setcode.go:216 uint256.MustFromBig(chainID) *)
      match chain with
      | Some c => if u256_overflow c then RErr PanicOverflow
                  else ROk (set_chain_vrs t (u256_from_big c) (u256_from_big v)
                              (u256_from_big r) (u256_from_big s))
      | None => RErr PanicNilChainID
      end
  end.

(* Transaction.WithSignature(signer, sig) with sig = r(32) || s(32) || recid(1) *)
Definition with_signature (sg : signer) (t : tx) (r s recid : Z) : res tx :=
  match signature_values sg t r s recid with
  | RErr e => RErr e
  | ROk (r', s', v') => set_signature_values t (signer_chain_id sg) v' r' s'
  end.

(* transaction.go:231 sanityCheckSignature *)
Definition sanity_check_signature (v r s : Z) (maybe_protected : bool) : res unit :=
  if is_protected_v v && negb maybe_protected then RErr ErrUnexpectedProtection
  else
    let plain_v :=
      if is_protected_v v then
        let chain := u64 (derive_chain_id v) in
        (sub64 (sub64 (u64 v) 35) ((2 * chain) mod two64)) mod 256
      else if maybe_protected then sub64 (u64 v) 27 mod 256
      else u64 v mod 256 in
    if validate_signature_values plain_v r s false then ROk tt else RErr ErrInvalidSig.

Section Scheme.
  Variables key pubkey : Type.
  Variable H : list N -> list N.                          (* crypto.Keccak256 *)
  Variable sign : key -> list N -> Z * Z * Z.             (* crypto.Sign: (r, s, recid) *)
  Variable recover : list N -> Z -> Z -> Z -> option pubkey.  (* crypto.Ecrecover *)
  Variable pub : key -> pubkey.
  Variable addr_of : pubkey -> list N.                    (* Keccak256(pub[1:])[12:] *)

  Definition signer_hash (sg : signer) (t : tx) : list N := H (signer_preimage sg t).

  (* transaction_signing.go:479 recoverPlain.  Ecrecover always returns a
     65-byte key starting with 4, so the "invalid public key" branch is part
     of [recover]'s failure. *)
  Definition recover_plain (h : list N) (R S Vb : Z) (homestead : bool) : res (list N) :=
    if bitlen Vb >? 8 then RErr ErrInvalidSig
    else
      let V := sub64 (u64 Vb) 27 mod 256 in
      if negb (validate_signature_values V R S homestead) then RErr ErrInvalidSig
      else match recover h R S V with
           | None => RErr ErrRecoverFailed
           | Some pk => ROk (addr_of pk)
           end.

  (* FrontierSigner.Sender / HomesteadSigner.Sender *)
  Definition frontier_sender (t : tx) : res (list N) :=
    if is_legacy (t_type t)
    then recover_plain (H (frontier_preimage t)) (t_r t) (t_s t) (t_v t) false
    else RErr ErrTxTypeNotSupported.
  Definition homestead_sender (t : tx) : res (list N) :=
    if is_legacy (t_type t)
    then recover_plain (H (frontier_preimage t)) (t_r t) (t_s t) (t_v t) true
    else RErr ErrTxTypeNotSupported.

  (* EIP155Signer.Sender *)
  Definition eip155_sender (c : Z) (t : tx) : res (list N) :=
    if negb (is_legacy (t_type t)) then RErr ErrTxTypeNotSupported
    else if negb (tx_protected t) then homestead_sender t
    else if negb (tx_chain_id t =? c) then RErr ErrInvalidChainId
    else recover_plain (H (inner_preimage t c)) (t_r t) (t_s t) (t_v t - c - c - 8) true.

  (* modernSigner.Sender *)
  Definition modern_sender (f : fork) (c : Z) (t : tx) : res (list N) :=
    if negb (modern_supports f (t_type t)) then RErr ErrTxTypeNotSupported
    else if is_legacy (t_type t) then eip155_sender c t
    else if negb (tx_chain_id t =? c) then RErr ErrInvalidChainId
    else recover_plain (H (inner_preimage t c)) (t_r t) (t_s t) (t_v t + 27) true.

  Definition sender (sg : signer) (t : tx) : res (list N) :=
    match sg with
    | Frontier => frontier_sender t
    | Homestead => homestead_sender t
    | EIP155 c => eip155_sender c t
    | Modern f c => modern_sender f c t
    end.

  (* SignTx: h := s.Hash(tx); sig := crypto.Sign(h, prv); tx.WithSignature(s, sig)
     (the key is assumed valid: crypto.Sign's own errors are not modelled) *)
  Definition sign_tx (sg : signer) (t : tx) (k : key) : res tx :=
    match sign k (signer_hash sg t) with
    | (r, s, recid) => with_signature sg t r s recid
    end.
End Scheme.

(* ---------- MakeSigner / LatestSigner ---------- *)

Record config := {
  c_chain : option Z;                         (* ChainID, nil allowed *)
  c_homestead : option Z; c_eip155 : option Z;
  c_berlin : option Z; c_london : option Z;   (* fork blocks *)
  c_cancun : option N; c_prague : option N }. (* fork times *)

(* params/config.go isBlockForked / isTimestampForked *)
Definition is_block_forked (s head : option Z) : bool :=
  match s, head with Some s, Some h => s <=? h | _, _ => false end.
Definition is_time_forked (s : option N) (head : N) : bool :=
  match s with Some s => (s <=? head)%N | None => false end.

(* newModernSigner panics when chainID is nil or <= 0: [None] *)
Definition new_modern_signer (c : option Z) (f : fork) : option signer :=
  match c with
  | Some c => if c <=? 0 then None else Some (Modern f c)
  | None => None
  end.
(* NewEIP155Signer(nil) uses chain id 0 *)
Definition new_eip155_signer (c : option Z) : signer :=
  EIP155 (match c with Some c => c | None => 0 end).

(* transaction_signing.go:41 MakeSigner; [None] = the constructor panics *)
Definition make_signer (cfg : config) (num : option Z) (time : N) : option signer :=
  if is_block_forked (c_london cfg) num && is_time_forked (c_prague cfg) time
  then new_modern_signer (c_chain cfg) Prague
  else if is_block_forked (c_london cfg) num && is_time_forked (c_cancun cfg) time
  then new_modern_signer (c_chain cfg) Cancun
  else if is_block_forked (c_london cfg) num then new_modern_signer (c_chain cfg) London
  else if is_block_forked (c_berlin cfg) num then new_modern_signer (c_chain cfg) Berlin
  else if is_block_forked (c_eip155 cfg) num then Some (new_eip155_signer (c_chain cfg))
  else if is_block_forked (c_homestead cfg) num then Some Homestead
  else Some Frontier.

Definition is_some {A} (o : option A) : bool := match o with Some _ => true | None => false end.

(* transaction_signing.go:69 LatestSigner *)
Definition latest_signer (cfg : config) : option signer :=
  match c_chain cfg with
  | Some _ =>
      if is_some (c_prague cfg) then new_modern_signer (c_chain cfg) Prague
      else if is_some (c_cancun cfg) then new_modern_signer (c_chain cfg) Cancun
      else if is_some (c_london cfg) then new_modern_signer (c_chain cfg) London
      else if is_some (c_berlin cfg) then new_modern_signer (c_chain cfg) Berlin
      else if is_some (c_eip155 cfg) then Some (new_eip155_signer (c_chain cfg))
      else Some Homestead
  | None => Some Homestead
  end.

(* transaction_signing.go:99 LatestSignerForChainID *)
Definition latest_signer_for_chain_id (c : option Z) : option signer :=
  match c with Some _ => new_modern_signer c Prague | None => Some Homestead end.
