(* Crypto/KeystoreProofs.v — lemmas about Crypto/Keystore.v (C52). *)
From Coq Require Import List NArith ZArith Bool Lia.
From GV Require Import Lib.Tactics Lib.Bytes Lib.BytesProofs Crypto.Keystore.
Import ListNotations.
Local Open Scope N_scope.

(* ---------- byte-string equality ---------- *)
Lemma bytes_eqb_eq a : forall b, bytes_eqb a b = true <-> a = b.
Proof.
  induction a as [|x a IH]; destruct b as [|y b]; cbn; split; try congruence; try discriminate.
  - intros E. apply andb_true_iff in E as [E1 E2]. apply N.eqb_eq in E1. apply IH in E2. congruence.
  - intros E; inversion E; subst. rewrite N.eqb_refl. cbn. apply IH. reflexivity.
Qed.
Lemma bytes_eqb_refl a : bytes_eqb a a = true.
Proof. apply bytes_eqb_eq. reflexivity. Qed.
Lemma bytes_eqb_neq a b : a <> b -> bytes_eqb a b = false.
Proof. intros Hn. destruct (bytes_eqb a b) eqn:E; [apply bytes_eqb_eq in E; contradiction|reflexivity]. Qed.
Lemma bytes_eqb_false a b : bytes_eqb a b = false -> a <> b.
Proof. intros E ->. rewrite bytes_eqb_refl in E. discriminate. Qed.

(* ---------- hex ---------- *)
Lemma from_hex_digit v : v < 16 -> from_hex_char (hex_digit v) = Some v.
Proof.
  intros Hv. unfold from_hex_char, hex_digit.
  destruct (v <? 10) eqn:E;
    repeat match goal with |- context [if ?c then _ else _] => destruct c eqn:? end;
    try (f_equal; lia); exfalso; lia.
Qed.

Lemma xtob_digits b : b < 256 -> xtob (hex_digit (b / 16)) (hex_digit (b mod 16)) = Some b.
Proof.
  intros Hb. unfold xtob.
  rewrite !from_hex_digit.
  - f_equal. pose proof (N.div_mod b 16). lia.
  - apply N.mod_lt. lia.
  - apply N.div_lt_upper_bound; lia.
Qed.

Lemma hex_decode_encode l : bytesb l = true -> hex_decode (hex_encode l) = Some l.
Proof.
  induction l as [|b r IH]; [reflexivity|]. intros Hb. cbn [bytesb forallb] in Hb.
  apply andb_true_iff in Hb as [Hb1 Hb2]. apply N.ltb_lt in Hb1.
  cbn [hex_encode hex_decode]. rewrite xtob_digits by exact Hb1.
  fold (bytesb r) in Hb2. rewrite (IH Hb2). reflexivity.
Qed.

(* ---------- xor ---------- *)
Lemma xor_bytes_len a : forall k, length k = length a -> length (xor_bytes a k) = length a.
Proof. induction a as [|x a IH]; destruct k as [|y k]; cbn; intros E; try discriminate; auto. Qed.

Lemma xor_bytes_invol a : forall k, length k = length a -> xor_bytes (xor_bytes a k) k = a.
Proof.
  induction a as [|x a IH]; destruct k as [|y k]; cbn; intros E; try discriminate; auto.
  rewrite N.lxor_assoc, N.lxor_nilpotent, N.lxor_0_r. f_equal. apply IH. lia.
Qed.

Lemma lxor_byte x y : x < 256 -> y < 256 -> N.lxor x y < 256.
Proof.
  intros Hx Hy. change 256 with (2 ^ 8) in *.
  destruct (N.eq_dec (N.lxor x y) 0) as [E|E]; [rewrite E; reflexivity|].
  apply N.log2_lt_pow2; [lia|].
  eapply N.le_lt_trans; [apply N.log2_lxor|].
  apply N.max_lub_lt.
  - destruct (N.eq_dec x 0) as [->|]; [cbn; lia|]. apply N.log2_lt_pow2; lia.
  - destruct (N.eq_dec y 0) as [->|]; [cbn; lia|]. apply N.log2_lt_pow2; lia.
Qed.

Lemma xor_bytes_bytes a : forall k, bytesb a = true -> bytesb k = true -> bytesb (xor_bytes a k) = true.
Proof.
  induction a as [|x a IH]; destruct k as [|y k]; cbn; intros Ha Hk; auto.
  apply andb_true_iff in Ha as [Ha1 Ha2]. apply andb_true_iff in Hk as [Hk1 Hk2].
  apply andb_true_iff. split.
  - apply N.ltb_lt. apply lxor_byte; apply N.ltb_lt; assumption.
  - apply IH; assumption.
Qed.

(* ---------- padded32 ---------- *)
Lemma be_decode_zeros k l : be_decode (repeat 0 k ++ l) = be_decode l.
Proof. induction k as [|k IH]; [reflexivity|]. cbn [repeat app]. rewrite be_decode_cons, IH. lia. Qed.

Lemma bytesb_repeat0 k : bytesb (repeat 0 k) = true.
Proof. induction k; cbn; auto. Qed.

Lemma padded32_spec d : d < 2 ^ 256 ->
  length (padded32 d) = 32%nat /\ be_decode (padded32 d) = d /\ bytesb (padded32 d) = true.
Proof.
  intros Hd. unfold padded32.
  assert (Hl : (length (be_bytes d) <= 32)%nat).
  { apply be_bytes_len_le. change (256 ^ N.of_nat 32) with (2 ^ 256). exact Hd. }
  split; [|split].
  - rewrite app_length, repeat_length. lia.
  - rewrite be_decode_zeros. apply be_bytes_decode.
  - rewrite bytesb_app, bytesb_repeat0, be_bytes_bytes. reflexivity.
Qed.

(* ---------- uuid ---------- *)
Lemma uuid_parse_string u : length u = 16%nat -> bytesb u = true -> uuid_parse (uuid_string u) = Some u.
Proof.
  intros Hl Hb.
  do 16 (destruct u as [|? u]; [discriminate|]). destruct u; [|discriminate]. clear Hl.
  cbn [bytesb forallb] in Hb.
  repeat match goal with H : _ && _ = true |- _ => apply andb_true_iff in H as [? H] end.
  repeat match goal with H : byteb _ = true |- _ => apply N.ltb_lt in H end.
  unfold uuid_string, uuid_parse.
  cbn [firstn skipn hex_encode app length Nat.eqb].
  unfold uuid_body, is_dash, uuid_positions.
  cbn [nth_error andb omap xtob_at].
  rewrite !xtob_digits by assumption. reflexivity.
Qed.

(* ---------- JSON round trip of the struct ---------- *)
Lemma unmarshal_to_json a c1 c2 c3 c4 c5 c6 i :
  unmarshal_env false
    [(s_address, JStr a);
     (s_crypto, cj_to_json (mkCJ c1 c2 c3 c4 c5 c6)); (s_id, JStr i); (s_version, jint 3)]
  = Ok (mkEnv a (mkCJ c1 c2 c3 c4 c5 c6) i 3).
Proof. vm_compute. reflexivity. Qed.

Lemma is_v1_to_json a c i v :
  is_v1 [(s_address, JStr a); (s_crypto, c); (s_id, JStr i); (s_version, jint v)] = false.
Proof. reflexivity. Qed.

Lemma fold_res_err {A B} (P : err -> Prop) (f : A -> B -> res A) :
  (forall a x e, f a x = Err e -> P e) ->
  forall l a e, fold_res f l a = Err e -> P e.
Proof.
  intros Hf. induction l as [|x l IH]; cbn; intros a e He; [discriminate|].
  destruct (f a x) eqn:E; [eauto|]. inversion He; subst. eauto.
Qed.

Lemma set_string_err o v e : set_string o v = Err e -> e = EJson.
Proof. destruct v; cbn; congruence. Qed.

Ltac bind_err :=
  repeat match goal with
  | H : bind ?r _ = Err _ |- _ =>
      let E := fresh "E" in destruct r eqn:E; cbn [bind] in H;
      [try discriminate|inversion H; subst; clear H]
  | H : set_string _ _ = Err _ |- _ => apply set_string_err in H
  end.

Lemma set_cipherparams_err iv kv e : set_cipherparams iv kv = Err e -> e = EJson.
Proof. unfold set_cipherparams. destruct (field_is _ _); [apply set_string_err|discriminate]. Qed.

Lemma set_crypto_err c kv e : set_crypto c kv = Err e -> e = EJson.
Proof.
  destruct kv as [k v]. unfold set_crypto.
  repeat (destruct (field_is _ k)); intros He; bind_err; auto; try discriminate;
    destruct v; try discriminate; try congruence; bind_err; auto.
  all: try (eapply (fold_res_err (fun e => e = EJson)); [|eassumption];
            intros; eapply set_cipherparams_err; eassumption).
Qed.

Lemma set_int_err o v e : set_int o v = Err e -> e = EJson.
Proof. destruct v as [| |[z|] t| | | |]; cbn; try congruence. destruct (int64_ok z); congruence. Qed.

Lemma set_env_err v1 en kv e : set_env v1 en kv = Err e -> e = EJson.
Proof.
  destruct kv as [k v]. unfold set_env.
  repeat (destruct (field_is _ k)); intros He; bind_err; auto; try discriminate.
  - destruct v; try discriminate; try congruence; bind_err; auto.
    eapply (fold_res_err (fun e => e = EJson)); [|eassumption].
    intros; eapply set_crypto_err; eassumption.
  - destruct v1; bind_err; auto; try discriminate.
    match goal with H : set_int _ _ = Err _ |- _ => apply set_int_err in H; auto end.
Qed.

Lemma unmarshal_env_err v1 kvs e : unmarshal_env v1 kvs = Err e -> e = EJson.
Proof.
  unfold unmarshal_env. apply (fold_res_err (fun e => e = EJson)).
  intros; eapply set_env_err; eassumption.
Qed.

Section Proofs.
  Variable H : list N -> list N.
  Variable kdf : kdf_alg -> list N -> list N -> option (list N).
  Variable ctr : list N -> list N -> nat -> option (list N).
  Variable cbc : list N -> list N -> list N -> option (list N).
  Variable addr_of : list N -> option (list N).

  Notation get_kdf_key' := (fun lg => get_kdf_key lg kdf).
  Notation decrypt_data' := (fun lg => decrypt_data_v3 lg H kdf ctr).
  Notation decrypt_key_v3' := (fun lg => decrypt_key_v3 lg H kdf ctr).
  Notation decrypt_key_v1' := (fun lg => decrypt_key_v1 lg H kdf cbc).
  Notation decrypt_key' := (fun lg => decrypt_key lg H kdf ctr cbc addr_of).
  Notation get_key' := (fun lg => get_key lg H kdf ctr cbc addr_of).

  (* ---------- inversion of a successful DecryptDataV3 ---------- *)
  Lemma decrypt_data_inv lg cj auth pt :
    decrypt_data_v3 lg H kdf ctr cj auth = Ok pt ->
    exists mac iv ct dk,
      cj_cipher cj = s_aes128ctr /\
      hex_decode (cj_mac cj) = Some mac /\ hex_decode (cj_iv cj) = Some iv /\
      hex_decode (cj_ciphertext cj) = Some ct /\
      get_kdf_key lg kdf cj auth = Ok dk /\ mac_of H dk ct = mac /\
      aes_ctr_xor ctr (firstn 16 dk) ct iv = Ok pt.
  Proof.
    unfold decrypt_data_v3. intros He.
    destruct (bytes_eqb (cj_cipher cj) s_aes128ctr) eqn:Ec; [|discriminate]. cbn [negb] in He.
    destruct (hex_decode (cj_mac cj)) as [mac|]; [|discriminate].
    destruct (hex_decode (cj_iv cj)) as [iv|]; [|discriminate].
    destruct (negb lg && negb (Nat.eqb (length iv) 16)); [discriminate|].
    destruct (hex_decode (cj_ciphertext cj)) as [ct|]; [|discriminate].
    destruct (get_kdf_key lg kdf cj auth) as [dk|]; [|discriminate].
    destruct (bytes_eqb (mac_of H dk ct) mac) eqn:Em; [|discriminate]. cbn [negb] in He.
    exists mac, iv, ct, dk. apply bytes_eqb_eq in Ec. apply bytes_eqb_eq in Em.
    repeat split; try reflexivity; assumption.
  Qed.

  Lemma run_kdf_len alg auth salt dklen dk : run_kdf kdf alg auth salt dklen = Ok dk -> length dk = 32%nat.
  Proof.
    unfold run_kdf. destruct (dklen <=? 0)%Z; [discriminate|].
    destruct (kdf alg auth salt) as [x|]; [|discriminate].
    destruct (Nat.eqb (length x) 32) eqn:E; [|discriminate]. intros Hx; inversion Hx; subst.
    apply Nat.eqb_eq. exact E.
  Qed.

  (* ---------- EncryptDataV3 / DecryptDataV3 round trip ---------- *)
  Hypothesis H_bytes : forall m, bytesb (H m) = true.
  Hypothesis ctr_bytes : forall k iv n ks, ctr k iv n = Some ks -> bytesb ks = true.

  Lemma params_lookups n p salt_hex :
    let m := [(s_dklen, jint 32); (s_n, jint n); (s_p, jint p); (s_r, jint 8); (s_salt, JStr salt_hex)] in
    mget s_salt m = Some (JStr salt_hex) /\ mget s_dklen m = Some (jint 32) /\
    mget s_n m = Some (jint n) /\ mget s_r m = Some (jint 8) /\ mget s_p m = Some (jint p).
  Proof. repeat split; reflexivity. Qed.

  Lemma decrypt_encrypt_data lg data auth n p salt iv cj :
    bytesb data = true -> bytesb salt = true -> bytesb iv = true ->
    encrypt_data_v3 H kdf ctr data auth n p salt iv = Ok cj ->
    decrypt_data_v3 lg H kdf ctr cj auth = Ok data.
  Proof.
    intros Hd Hs Hi He. unfold encrypt_data_v3 in He.
    destruct (scrypt_params_ok n 8 p) eqn:Eok; [|discriminate]. cbn [negb] in He.
    destruct (run_kdf kdf (KScrypt n 8 p) auth salt 32) as [dk|] eqn:Ek; [|discriminate].
    cbn [bind] in He.
    destruct (aes_ctr_xor ctr (firstn 16 dk) data iv) as [ct|] eqn:Ea; [|discriminate].
    cbn [bind] in He. inversion He; subst cj; clear He.
    unfold aes_ctr_xor in Ea.
    destruct (Nat.eqb (length iv) 16) eqn:El; [|discriminate]. cbn [negb] in Ea.
    destruct (ctr (firstn 16 dk) iv (length data)) as [ks|] eqn:Ec; [|discriminate].
    destruct (Nat.eqb (length ks) (length data)) eqn:Elk; [|discriminate].
    inversion Ea; subst ct; clear Ea. apply Nat.eqb_eq in Elk.
    pose proof (ctr_bytes _ _ _ _ Ec) as Hks.
    assert (Hct : bytesb (xor_bytes data ks) = true) by (apply xor_bytes_bytes; assumption).
    unfold decrypt_data_v3. cbn [cj_cipher cj_mac cj_iv cj_ciphertext].
    rewrite bytes_eqb_refl. cbn [negb].
    rewrite !hex_decode_encode by (first [assumption | apply H_bytes]).
    rewrite El. rewrite andb_false_r.
    (* getKDFKey on the parameters just written *)
    unfold get_kdf_key. cbn [cj_kdfparams cj_kdf].
    destruct (params_lookups n p (hex_encode salt)) as (L1 & L2 & L3 & L4 & L5).
    cbv zeta in L1, L2, L3, L4, L5. rewrite L1, L2, L3, L4, L5.
    rewrite hex_decode_encode by exact Hs.
    cbn [ensure_int jint]. rewrite andb_false_r.
    rewrite bytes_eqb_refl. rewrite Eok, Ek.
    rewrite bytes_eqb_refl. cbn [negb].
    unfold aes_ctr_xor. rewrite El. cbn [negb].
    rewrite xor_bytes_len by exact Elk. rewrite Ec.
    rewrite Elk, Nat.eqb_refl. rewrite xor_bytes_invol by exact Elk. reflexivity.
  Qed.

  (* ---------- EncryptKey / DecryptKey round trip ---------- *)
  Lemma decrypt_encrypt lg d addr id auth n p salt iv e a :
    0 < d -> d < secp256k1N ->
    length id = 16%nat -> bytesb id = true -> bytesb salt = true -> bytesb iv = true ->
    addr_of (padded32 d) = Some a ->
    encrypt_key H kdf ctr d addr id auth n p salt iv = Ok e ->
    decrypt_key lg H kdf ctr cbc addr_of (to_json e) auth = Ok (padded32 d, a, id).
  Proof.
    intros Hd0 HdN Hil Hib Hs Hi Ha He.
    assert (Hd256 : d < 2 ^ 256) by (eapply N.lt_trans; [exact HdN|reflexivity]).
    destruct (padded32_spec d Hd256) as (Pl & Pd & Pb).
    unfold encrypt_key in He.
    destruct (encrypt_data_v3 H kdf ctr (padded32 d) auth n p salt iv) as [cj|] eqn:Ed; [|discriminate].
    cbn [bind] in He. inversion He; subst e; clear He.
    pose proof (decrypt_encrypt_data lg _ _ _ _ _ _ _ Pb Hs Hi Ed) as Hdec.
    unfold decrypt_key, to_json. cbn [obj_of bind e_address e_crypto e_id e_version].
    unfold decrypt_obj.
    rewrite is_v1_to_json.
    destruct cj as [c1 c2 c3 c4 c5 c6]. rewrite unmarshal_to_json. cbn [bind].
    unfold decrypt_key_v3. cbn [e_version e_id e_crypto].
    rewrite Z.eqb_refl. cbn [negb]. rewrite uuid_parse_string by assumption.
    rewrite Hdec. cbn [bind fst snd].
    unfold to_ecdsa. rewrite Pl, Pd. cbn [Nat.eqb negb].
    replace (secp256k1N <=? d) with false by (symmetry; apply N.leb_gt; exact HdN).
    replace (d =? 0) with false by (symmetry; apply N.eqb_neq; lia).
    rewrite Ha. reflexivity.
  Qed.

  (* ---------- a different MAC key is rejected (wrong passphrase, changed salt / KDF parameters) ---------- *)
  Lemma mac_key_change_detected lg cj cj' auth auth' pt dk dk' ct :
    decrypt_data_v3 lg H kdf ctr cj auth = Ok pt ->
    get_kdf_key lg kdf cj auth = Ok dk ->
    hex_decode (cj_ciphertext cj) = Some ct ->
    (* cj' differs from cj at most in kdf / kdfparams *)
    cj_cipher cj' = cj_cipher cj -> cj_mac cj' = cj_mac cj -> cj_iv cj' = cj_iv cj ->
    cj_ciphertext cj' = cj_ciphertext cj ->
    get_kdf_key lg kdf cj' auth' = Ok dk' ->
    skipn 16 dk' <> skipn 16 dk ->
    (H (skipn 16 dk' ++ ct) = H (skipn 16 dk ++ ct) -> skipn 16 dk' ++ ct = skipn 16 dk ++ ct) ->
    decrypt_data_v3 lg H kdf ctr cj' auth' = Err EDecrypt.
  Proof.
    intros Hok Hk Hct E1 E2 E3 E4 Hk' Hne Hinj.
    destruct (decrypt_data_inv _ _ _ _ Hok) as (mac & iv & ct0 & dk0 & Hc & Hm & Hiv & Hct0 & Hk0 & Hmac & Hx).
    rewrite Hk in Hk0; inversion Hk0; subst dk0. rewrite Hct in Hct0; inversion Hct0; subst ct0.
    assert (Hivlen : negb lg && negb (Nat.eqb (length iv) 16) = false).
    { unfold decrypt_data_v3 in Hok. rewrite Hc, bytes_eqb_refl, Hm, Hiv in Hok. cbn [negb] in Hok.
      destruct (negb lg && negb (Nat.eqb (length iv) 16)); [discriminate|reflexivity]. }
    unfold decrypt_data_v3. rewrite E1, E2, E3, E4, Hc, bytes_eqb_refl, Hm, Hiv, Hivlen, Hct, Hk'. cbn [negb].
    destruct (bytes_eqb (mac_of H dk' ct) mac) eqn:Em; [|reflexivity].
    apply bytes_eqb_eq in Em. exfalso. apply Hne.
    unfold mac_of in Em, Hmac. rewrite <- Hmac in Em. apply Hinj in Em.
    apply app_inv_tail in Em. exact Em.
  Qed.

  Lemma wrong_pass_fails_data lg cj auth auth' pt dk dk' ct :
    decrypt_data_v3 lg H kdf ctr cj auth = Ok pt ->
    get_kdf_key lg kdf cj auth = Ok dk ->
    hex_decode (cj_ciphertext cj) = Some ct ->
    get_kdf_key lg kdf cj auth' = Ok dk' ->
    skipn 16 dk' <> skipn 16 dk ->
    (H (skipn 16 dk' ++ ct) = H (skipn 16 dk ++ ct) -> skipn 16 dk' ++ ct = skipn 16 dk ++ ct) ->
    decrypt_data_v3 lg H kdf ctr cj auth' = Err EDecrypt.
  Proof. intros. eapply mac_key_change_detected with (cj := cj); eauto. Qed.

  (* the same derived key opens the file: the premise of wrong_pass_fails is necessary *)
  Lemma same_dk_accepted lg cj auth auth' dk :
    get_kdf_key lg kdf cj auth = Ok dk -> get_kdf_key lg kdf cj auth' = Ok dk ->
    decrypt_data_v3 lg H kdf ctr cj auth' = decrypt_data_v3 lg H kdf ctr cj auth.
  Proof. intros E1 E2. unfold decrypt_data_v3. rewrite E1, E2. reflexivity. Qed.


  (* ---------- key-file level, for files written by EncryptKey ---------- *)
  Lemma get_kdf_key_encrypted lg data auth n p salt iv cj :
    bytesb salt = true ->
    encrypt_data_v3 H kdf ctr data auth n p salt iv = Ok cj ->
    forall auth', get_kdf_key lg kdf cj auth' = run_kdf kdf (KScrypt n 8 p) auth' salt 32.
  Proof.
    intros Hs He auth'. unfold encrypt_data_v3 in He.
    destruct (scrypt_params_ok n 8 p) eqn:Eok; [|discriminate]. cbn [negb] in He.
    destruct (run_kdf kdf (KScrypt n 8 p) auth salt 32) as [dk|] eqn:Ek; [|discriminate].
    cbn [bind] in He.
    destruct (aes_ctr_xor ctr (firstn 16 dk) data iv) as [ct|] eqn:Ea; [|discriminate].
    cbn [bind] in He. inversion He; subst cj; clear He.
    unfold get_kdf_key. cbn [cj_kdfparams cj_kdf].
    destruct (params_lookups n p (hex_encode salt)) as (L1 & L2 & L3 & L4 & L5).
    cbv zeta in L1, L2, L3, L4, L5. rewrite L1, L2, L3, L4, L5.
    rewrite hex_decode_encode by exact Hs.
    cbn [ensure_int jint]. rewrite andb_false_r, bytes_eqb_refl, Eok. reflexivity.
  Qed.

  Lemma run_kdf_some alg auth salt dk :
    kdf alg auth salt = Some dk -> length dk = 32%nat -> run_kdf kdf alg auth salt 32 = Ok dk.
  Proof. intros E L. unfold run_kdf. cbn. rewrite E, L. reflexivity. Qed.

  Lemma wrong_pass_fails lg d addr id auth auth' n p salt iv e dk dk' :
    d < 2 ^ 256 -> length id = 16%nat -> bytesb id = true -> bytesb salt = true -> bytesb iv = true ->
    encrypt_key H kdf ctr d addr id auth n p salt iv = Ok e ->
    kdf (KScrypt n 8 p) auth salt = Some dk ->
    kdf (KScrypt n 8 p) auth' salt = Some dk' -> length dk' = 32%nat ->
    skipn 16 dk' <> skipn 16 dk ->
    (forall ct, H (skipn 16 dk' ++ ct) = H (skipn 16 dk ++ ct) -> skipn 16 dk' ++ ct = skipn 16 dk ++ ct) ->
    decrypt_key lg H kdf ctr cbc addr_of (to_json e) auth' = Err EDecrypt.
  Proof.
    intros Hd256 Hil Hib Hs Hi He Hk Hk' Hl' Hne Hinj.
    destruct (padded32_spec d Hd256) as (Pl & Pd & Pb).
    unfold encrypt_key in He.
    destruct (encrypt_data_v3 H kdf ctr (padded32 d) auth n p salt iv) as [cj|] eqn:Ed; [|discriminate].
    cbn [bind] in He. inversion He; subst e; clear He.
    pose proof (decrypt_encrypt_data lg _ _ _ _ _ _ _ Pb Hs Hi Ed) as Hdec.
    pose proof (get_kdf_key_encrypted lg _ _ _ _ _ _ _ Hs Ed) as Hg.
    destruct (decrypt_data_inv _ _ _ _ Hdec) as (mac & iv0 & ct & dk0 & _ & _ & _ & Hct & Hk0 & _ & _).
    assert (dk0 = dk).
    { rewrite Hg in Hk0. unfold run_kdf in Hk0. cbn in Hk0. rewrite Hk in Hk0.
      destruct (Nat.eqb (length dk) 32); congruence. }
    subst dk0.
    assert (Hw : decrypt_data_v3 lg H kdf ctr cj auth' = Err EDecrypt).
    { eapply wrong_pass_fails_data; eauto. rewrite Hg. apply run_kdf_some; assumption. }
    unfold decrypt_key, to_json. cbn [obj_of bind e_address e_crypto e_id e_version].
    unfold decrypt_obj. rewrite is_v1_to_json.
    destruct cj as [c1 c2 c3 c4 c5 c6]. rewrite unmarshal_to_json. cbn [bind].
    unfold decrypt_key_v3. cbn [e_version e_id e_crypto].
    rewrite Z.eqb_refl. cbn [negb]. rewrite uuid_parse_string by assumption.
    rewrite Hw. reflexivity.
  Qed.

  (* ---------- corruption of single fields ---------- *)
  Definition with_ct (cj : crypto_json) (c : list N) : crypto_json :=
    mkCJ (cj_cipher cj) c (cj_iv cj) (cj_kdf cj) (cj_kdfparams cj) (cj_mac cj).
  Definition with_mac (cj : crypto_json) (m : list N) : crypto_json :=
    mkCJ (cj_cipher cj) (cj_ciphertext cj) (cj_iv cj) (cj_kdf cj) (cj_kdfparams cj) m.
  Definition with_iv (cj : crypto_json) (i : list N) : crypto_json :=
    mkCJ (cj_cipher cj) (cj_ciphertext cj) i (cj_kdf cj) (cj_kdfparams cj) (cj_mac cj).

  Lemma ivlen_of_ok lg cj auth pt iv :
    decrypt_data_v3 lg H kdf ctr cj auth = Ok pt -> hex_decode (cj_iv cj) = Some iv ->
    negb lg && negb (Nat.eqb (length iv) 16) = false.
  Proof.
    intros Hok Hiv. unfold decrypt_data_v3 in Hok.
    destruct (negb (bytes_eqb (cj_cipher cj) s_aes128ctr)); [discriminate|].
    destruct (hex_decode (cj_mac cj)); [|discriminate]. rewrite Hiv in Hok.
    destruct (negb lg && negb (Nat.eqb (length iv) 16)); [discriminate|reflexivity].
  Qed.

  Lemma ciphertext_corruption_detected lg cj auth pt dk ct c' ct' :
    decrypt_data_v3 lg H kdf ctr cj auth = Ok pt ->
    get_kdf_key lg kdf cj auth = Ok dk ->
    hex_decode (cj_ciphertext cj) = Some ct ->
    hex_decode c' = Some ct' -> ct' <> ct ->
    (H (skipn 16 dk ++ ct') = H (skipn 16 dk ++ ct) -> skipn 16 dk ++ ct' = skipn 16 dk ++ ct) ->
    decrypt_data_v3 lg H kdf ctr (with_ct cj c') auth = Err EDecrypt.
  Proof.
    intros Hok Hk Hct Hc' Hne Hinj.
    destruct (decrypt_data_inv _ _ _ _ Hok) as (mac & iv & ct0 & dk0 & Hc & Hm & Hiv & Hct0 & Hk0 & Hmac & Hx).
    rewrite Hk in Hk0; inversion Hk0; subst dk0. rewrite Hct in Hct0; inversion Hct0; subst ct0.
    pose proof (ivlen_of_ok _ _ _ _ _ Hok Hiv) as Hil.
    unfold decrypt_data_v3, with_ct. cbn [cj_cipher cj_mac cj_iv cj_ciphertext].
    rewrite Hc, bytes_eqb_refl, Hm, Hiv, Hil, Hc'. cbn [negb].
    change (get_kdf_key lg kdf _ auth) with (get_kdf_key lg kdf cj auth). rewrite Hk.
    destruct (bytes_eqb (mac_of H dk ct') mac) eqn:Em; [|reflexivity].
    apply bytes_eqb_eq in Em. exfalso. apply Hne.
    unfold mac_of in Em, Hmac. rewrite <- Hmac in Em. apply Hinj in Em.
    apply app_inv_head in Em. exact Em.
  Qed.

  Lemma ciphertext_bad_hex_detected lg cj auth pt c' :
    decrypt_data_v3 lg H kdf ctr cj auth = Ok pt -> hex_decode c' = None ->
    decrypt_data_v3 lg H kdf ctr (with_ct cj c') auth = Err EHex.
  Proof.
    intros Hok Hc'.
    destruct (decrypt_data_inv _ _ _ _ Hok) as (mac & iv & ct0 & dk0 & Hc & Hm & Hiv & _).
    pose proof (ivlen_of_ok _ _ _ _ _ Hok Hiv) as Hil.
    unfold decrypt_data_v3, with_ct. cbn [cj_cipher cj_mac cj_iv cj_ciphertext].
    rewrite Hc, bytes_eqb_refl, Hm, Hiv, Hil, Hc'. reflexivity.
  Qed.

  Lemma mac_corruption_detected lg cj auth pt m' :
    decrypt_data_v3 lg H kdf ctr cj auth = Ok pt ->
    hex_decode m' <> hex_decode (cj_mac cj) ->
    decrypt_data_v3 lg H kdf ctr (with_mac cj m') auth = Err EDecrypt \/
    decrypt_data_v3 lg H kdf ctr (with_mac cj m') auth = Err EHex.
  Proof.
    intros Hok Hne.
    destruct (decrypt_data_inv _ _ _ _ Hok) as (mac & iv & ct & dk & Hc & Hm & Hiv & Hct & Hk & Hmac & Hx).
    pose proof (ivlen_of_ok _ _ _ _ _ Hok Hiv) as Hil.
    unfold decrypt_data_v3, with_mac. cbn [cj_cipher cj_mac cj_iv cj_ciphertext].
    rewrite Hc, bytes_eqb_refl. cbn [negb].
    destruct (hex_decode m') as [mac'|] eqn:Em'; [|right; reflexivity]. left.
    rewrite Hiv, Hil, Hct.
    change (get_kdf_key lg kdf _ auth) with (get_kdf_key lg kdf cj auth). rewrite Hk.
    destruct (bytes_eqb (mac_of H dk ct) mac') eqn:Em; [|reflexivity].
    apply bytes_eqb_eq in Em. exfalso. apply Hne. rewrite Hm. congruence.
  Qed.

  (* the IV is NOT authenticated: another 16-byte IV is accepted and yields another plaintext *)
  Lemma iv_change_undetected lg cj auth pt dk ct i' iv' ks' :
    decrypt_data_v3 lg H kdf ctr cj auth = Ok pt ->
    get_kdf_key lg kdf cj auth = Ok dk ->
    hex_decode (cj_ciphertext cj) = Some ct ->
    hex_decode i' = Some iv' -> length iv' = 16%nat ->
    ctr (firstn 16 dk) iv' (length ct) = Some ks' -> length ks' = length ct ->
    decrypt_data_v3 lg H kdf ctr (with_iv cj i') auth = Ok (xor_bytes ct ks').
  Proof.
    intros Hok Hk Hct Hi' Hl Hctr Hlk.
    destruct (decrypt_data_inv _ _ _ _ Hok) as (mac & iv & ct0 & dk0 & Hc & Hm & Hiv & Hct0 & Hk0 & Hmac & Hx).
    rewrite Hk in Hk0; inversion Hk0; subst dk0. rewrite Hct in Hct0; inversion Hct0; subst ct0.
    unfold decrypt_data_v3, with_iv. cbn [cj_cipher cj_mac cj_iv cj_ciphertext].
    rewrite Hc, bytes_eqb_refl, Hm, Hi', Hl, Hct. cbn [negb Nat.eqb]. rewrite andb_false_r.
    change (get_kdf_key lg kdf _ auth) with (get_kdf_key lg kdf cj auth). rewrite Hk.
    rewrite Hmac, bytes_eqb_refl. cbn [negb].
    unfold aes_ctr_xor. rewrite Hl. cbn [Nat.eqb negb]. rewrite Hctr, Hlk, Nat.eqb_refl. reflexivity.
  Qed.

  (* ---------- version and cipher ---------- *)
  Lemma version_checked lg e auth : e_version e <> 3%Z -> decrypt_key_v3 lg H kdf ctr e auth = Err EVersion.
  Proof.
    intros Hv. unfold decrypt_key_v3.
    destruct (e_version e =? 3)%Z eqn:E; [apply Z.eqb_eq in E; contradiction|reflexivity].
  Qed.

  Lemma cipher_checked lg cj auth : cj_cipher cj <> s_aes128ctr -> decrypt_data_v3 lg H kdf ctr cj auth = Err ECipher.
  Proof. intros Hc. unfold decrypt_data_v3. rewrite (bytes_eqb_neq _ _ Hc). reflexivity. Qed.

  Lemma decrypt_key_v3_ok_inv lg e auth r :
    decrypt_key_v3 lg H kdf ctr e auth = Ok r ->
    e_version e = 3%Z /\ cj_cipher (e_crypto e) = s_aes128ctr /\ uuid_parse (e_id e) = Some (snd r).
  Proof.
    unfold decrypt_key_v3. intros He.
    destruct (e_version e =? 3)%Z eqn:Ev; [|discriminate]. cbn [negb] in He. apply Z.eqb_eq in Ev.
    destruct (uuid_parse (e_id e)) as [id|]; [|discriminate].
    destruct (decrypt_data_v3 lg H kdf ctr (e_crypto e) auth) as [pt|] eqn:Ed; [|discriminate].
    cbn [bind] in He. inversion He; subst r. cbn [snd].
    destruct (decrypt_data_inv _ _ _ _ Ed) as (? & ? & ? & ? & Hc & _). auto.
  Qed.

  Lemma version_and_cipher_checked lg j auth r :
    decrypt_key lg H kdf ctr cbc addr_of j auth = Ok r ->
    exists kvs, obj_of j = Ok kvs /\
      (is_v1 kvs = true \/
       exists e, unmarshal_env false kvs = Ok e /\ e_version e = 3%Z /\ cj_cipher (e_crypto e) = s_aes128ctr).
  Proof.
    unfold decrypt_key. intros He.
    destruct (obj_of j) as [kvs|]; [|discriminate]. cbn [bind] in He. exists kvs. split; [reflexivity|].
    unfold decrypt_obj in He. destruct (is_v1 kvs); [left; reflexivity|right].
    destruct (unmarshal_env false kvs) as [e|]; [|discriminate]. cbn [bind] in He.
    destruct (decrypt_key_v3 lg H kdf ctr e auth) as [r0|] eqn:Ek; [|discriminate].
    exists e. destruct (decrypt_key_v3_ok_inv _ _ _ _ Ek) as (A & B & _). auto.
  Qed.

  (* the address field of the file is never read by DecryptKey; GetKey compares the DERIVED address *)
  Lemma address_field_ignored lg e a' auth :
    decrypt_key_v3 lg H kdf ctr (mkEnv a' (e_crypto e) (e_id e) (e_version e)) auth = decrypt_key_v3 lg H kdf ctr e auth.
  Proof. reflexivity. Qed.

  Lemma get_key_address lg addr j auth r :
    get_key lg H kdf ctr cbc addr_of addr j auth = Ok r ->
    snd (fst r) = addr /\ decrypt_key lg H kdf ctr cbc addr_of j auth = Ok r.
  Proof.
    unfold get_key. destruct (decrypt_key lg H kdf ctr cbc addr_of j auth) as [r0|]; [|discriminate].
    cbn [bind]. destruct (bytes_eqb (snd (fst r0)) addr) eqn:E; [|discriminate].
    intros Hr; inversion Hr; subst. apply bytes_eqb_eq in E. auto.
  Qed.
End Proofs.

(* ---------- totality: the repaired code never panics ---------- *)
Section Total.
  Variable H : list N -> list N.
  Variable kdf : kdf_alg -> list N -> list N -> option (list N).
  Variable ctr : list N -> list N -> nat -> option (list N).
  Variable cbc : list N -> list N -> list N -> option (list N).
  Variable addr_of : list N -> option (list N).

  Ltac break_match :=
    repeat match goal with
    | |- context [match ?x with _ => _ end] => destruct x eqn:?
    end.

  Lemma get_kdf_key_total cj auth : get_kdf_key false kdf cj auth <> Err EPanic.
  Proof.
    unfold get_kdf_key, run_kdf, panic_or, ensure_int. cbn [negb andb].
    break_match; try (intro; discriminate); exfalso; lia.
  Qed.

  Lemma decrypt_data_total cj auth : decrypt_data_v3 false H kdf ctr cj auth <> Err EPanic.
  Proof.
    unfold decrypt_data_v3. cbn [negb andb].
    destruct (bytes_eqb (cj_cipher cj) s_aes128ctr); [|intro; discriminate].
    destruct (hex_decode (cj_mac cj)); [|intro; discriminate].
    destruct (hex_decode (cj_iv cj)) as [iv|]; [|intro; discriminate].
    destruct (Nat.eqb (length iv) 16) eqn:El; [|intro; discriminate]. cbn [negb].
    destruct (hex_decode (cj_ciphertext cj)); [|intro; discriminate].
    destruct (get_kdf_key false kdf cj auth) eqn:Ek.
    - destruct (negb _); [intro; discriminate|].
      unfold aes_ctr_xor. rewrite El. cbn [negb]. break_match; intro; discriminate.
    - intros E. inversion E; subst. eapply get_kdf_key_total; eassumption.
  Qed.

  Lemma decrypt_key_v3_total e auth : decrypt_key_v3 false H kdf ctr e auth <> Err EPanic.
  Proof.
    unfold decrypt_key_v3. destruct (negb _); [intro; discriminate|].
    destruct (uuid_parse (e_id e)); [|intro; discriminate].
    destruct (decrypt_data_v3 false H kdf ctr (e_crypto e) auth) eqn:Ed; cbn [bind]; [intro; discriminate|].
    intros E; inversion E; subst. eapply decrypt_data_total; eassumption.
  Qed.

  Lemma decrypt_key_v1_total e auth : decrypt_key_v1 false H kdf cbc e auth <> Err EPanic.
  Proof.
    unfold decrypt_key_v1. cbn [negb andb].
    destruct (uuid_parse (e_id e)); [|intro; discriminate].
    destruct (hex_decode (cj_mac (e_crypto e))); [|intro; discriminate].
    destruct (hex_decode (cj_iv (e_crypto e))) as [iv|]; [|intro; discriminate].
    destruct (Nat.eqb (length iv) 16) eqn:El; [|intro; discriminate]. cbn [negb].
    destruct (hex_decode (cj_ciphertext (e_crypto e))) as [ct|]; [|intro; discriminate].
    destruct (Nat.eqb (Nat.modulo (length ct) 16) 0) eqn:Ec; [|intro; discriminate]. cbn [negb].
    destruct (get_kdf_key false kdf (e_crypto e) auth) eqn:Ek.
    - destruct (negb _); [intro; discriminate|].
      unfold aes_cbc_decrypt. rewrite El, Ec. cbn [negb]. break_match; cbn [bind]; intro; discriminate.
    - intros E. inversion E; subst. eapply get_kdf_key_total; eassumption.
  Qed.

  Lemma decrypt_key_total j auth : decrypt_key false H kdf ctr cbc addr_of j auth <> Err EPanic.
  Proof.
    unfold decrypt_key. destruct (obj_of j) as [kvs|e] eqn:Eo; cbn [bind].
    2:{ destruct j; cbn in Eo; inversion Eo; intro; discriminate. }
    destruct (decrypt_obj false H kdf ctr cbc kvs auth) as [r|e] eqn:Ed; cbn [bind].
    - unfold to_ecdsa. break_match; cbn [bind]; intro; discriminate.
    - intros E; inversion E; subst. unfold decrypt_obj in Ed.
      destruct (is_v1 kvs).
      + destruct (unmarshal_env true kvs) eqn:Eu; cbn [bind] in Ed.
        * eapply decrypt_key_v1_total; eassumption.
        * inversion Ed; subst. apply unmarshal_env_err in Eu. discriminate.
      + destruct (unmarshal_env false kvs) eqn:Eu; cbn [bind] in Ed.
        * eapply decrypt_key_v3_total; eassumption.
        * inversion Ed; subst. apply unmarshal_env_err in Eu. discriminate.
  Qed.

  Lemma get_key_total addr j auth : get_key false H kdf ctr cbc addr_of addr j auth <> Err EPanic.
  Proof.
    unfold get_key. destruct (decrypt_key false H kdf ctr cbc addr_of j auth) eqn:Ed; cbn [bind].
    - destruct (bytes_eqb _ _); intro; discriminate.
    - intros E; inversion E; subst. eapply decrypt_key_total; eassumption.
  Qed.

  (* the code before the repair: three witnesses (missing kdfparams; dklen 0; a 15-byte IV is
     reached only with the right passphrase, see C52 corpus) *)
  Definition legacy_panic_file : jv :=
    JObj [(s_version, jint 3);
          (s_id, JStr (uuid_string (repeat 0 16)));
          (s_crypto, JObj [(s_cipher, JStr s_aes128ctr); (s_mac, JStr []); (s_ciphertext, JStr []);
                           (s_cipherparams, JObj [(s_iv, JStr [])])])].

  Lemma legacy_panics auth : decrypt_key true H kdf ctr cbc addr_of legacy_panic_file auth = Err EPanic.
  Proof. vm_compute. reflexivity. Qed.

  Lemma repaired_rejects auth : decrypt_key false H kdf ctr cbc addr_of legacy_panic_file auth = Err EIvLen.
  Proof. vm_compute. reflexivity. Qed.
End Total.

(* ---------- a concrete instance (non-vacuity of the hypotheses) ---------- *)
Definition toy_H (m : list N) : list N := map (fun x => x mod 256) m.
Definition toy_kdf (_ : kdf_alg) (pass _ : list N) : option (list N) :=
  Some (repeat (lenN pass) 16 ++ repeat (lenN pass + 1) 16).
Definition toy_ctr (_ _ : list N) (n : nat) : option (list N) := Some (repeat 90 n).
Definition toy_cbc (_ _ ct : list N) : option (list N) := Some ct.
Definition toy_addr (k : list N) : option (list N) := Some (firstn 20 k).

Definition res3_eqb (r : res (list N * list N * list N)) (k a i : list N) : bool :=
  match r with Ok (k', a', i') => bytes_eqb k' k && bytes_eqb a' a && bytes_eqb i' i | Err _ => false end.
Definition is_err {A} (r : res A) (e : err) : bool :=
  match r with
  | Err EDecrypt => match e with EDecrypt => true | _ => false end
  | Err EVersion => match e with EVersion => true | _ => false end
  | Err ECipher => match e with ECipher => true | _ => false end
  | _ => false
  end.

Definition nonvacuous_check : bool :=
  let id := [1;2;3;4;5;6;7;8;9;10;11;12;13;14;15;255] in
  let pass := [112;119] in let wrong := [112;119;32] in
  let salt := repeat 7 32 in let iv := repeat 9 16 in
  let d := 0x1234567890abcdef in
  match encrypt_key toy_H toy_kdf toy_ctr d (repeat 1 20) id pass 4 1 salt iv with
  | Ok e =>
      let j := to_json e in
      res3_eqb (decrypt_key false toy_H toy_kdf toy_ctr toy_cbc toy_addr j pass)
               (padded32 d) (firstn 20 (padded32 d)) id &&
      is_err (decrypt_key false toy_H toy_kdf toy_ctr toy_cbc toy_addr j wrong) EDecrypt &&
      is_err (decrypt_key_v3 false toy_H toy_kdf toy_ctr
                (mkEnv (e_address e) (e_crypto e) (e_id e) 4) pass) EVersion &&
      is_err (decrypt_data_v3 false toy_H toy_kdf toy_ctr
                (with_mac (e_crypto e) (hex_encode [0])) pass) EDecrypt &&
      negb (bytes_eqb (cj_ciphertext (e_crypto e)) (hex_encode (padded32 d)))
  | Err _ => false
  end.
