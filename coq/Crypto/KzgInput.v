(* Crypto/KzgInput.v — input-canonicality model for the EIP-4844 KZG entry points of
   /repo/crypto/kzg4844 (VerifyProof, VerifyBlobProof, BlobToCommitment, ComputeProof).
   Both backends (go-eth-kzg over gnark-crypto, c-kzg-4844 over blst) must reject
   * a 32-byte big-endian field element that is >= the BLS12-381 scalar modulus r, and
   * a 48-byte compressed G1 point whose flag bits are malformed (compression bit
     clear; infinity bit set with any other bit set) or whose x coordinate is >= the
     base-field modulus p.
   This file models ONLY these syntactic checks.  Whether x is on the curve / in the
   subgroup and the verification equation itself are NOT modelled (differential
   between the backends only).  Class 0 = no modelled check rejects. *)
From Coq Require Import List NArith.
Import ListNotations.
Local Open Scope N_scope.

Definition bls_r : N :=
  52435875175126190479447740508185965837690552500527637822603658699938581184513.
Definition bls_p : N :=
  4002409555221667393417789825735904156556882819939007885332058136124031650490837864442687629129015664037894272559787.

Fixpoint be_numN (acc : N) (b : list N) : N :=
  match b with [] => acc | x :: r => be_numN (acc * 256 + x) r end.

(* a serialized scalar: exactly 32 bytes, value < r *)
Definition fe_canonical (b : list N) : bool :=
  Nat.eqb (length b) 32 && (be_numN 0 b <? bls_r).

(* a serialized compressed G1 point: exactly 48 bytes, flags as in the ZCash format *)
Definition g1c_wellformed (b : list N) : bool :=
  match b with
  | b0 :: rest =>
      Nat.eqb (length rest) 47 &&
      (if b0 <? 128 then false                                   (* compression bit clear *)
       else if 64 <=? b0 mod 128 then                            (* infinity bit *)
         (b0 =? 192) && forallb (fun x => x =? 0) rest
       else be_numN (b0 mod 32) rest <? bls_p)
  | [] => false
  end.

(* the blob is exactly [fuel] 32-byte chunks, each a canonical scalar (Go: a fixed-size
   array of 4096*32 bytes, so only the canonicality part can fail) *)
Fixpoint blob_canonical (fuel : nat) (b : list N) : bool :=
  match fuel with
  | O => match b with [] => true | _ => false end
  | S f =>
      match b with
      | [] => false
      | _ => fe_canonical (firstn 32 b) && blob_canonical f (skipn 32 b)
      end
  end.

(* VerifyProof(commitment, z, y, proof): first failing modelled check, 0 if none *)
Definition verify_proof_class (commitment z y proof : list N) : N :=
  if negb (g1c_wellformed commitment) then 1 else
  if negb (fe_canonical z) then 2 else
  if negb (fe_canonical y) then 3 else
  if negb (g1c_wellformed proof) then 4 else 0.

(* VerifyBlobProof(blob, commitment, proof); the blob is [nfe] field elements *)
Definition verify_blob_class (nfe : nat) (blob commitment proof : list N) : N :=
  if negb (blob_canonical nfe blob) then 6 else
  if negb (g1c_wellformed commitment) then 1 else
  if negb (g1c_wellformed proof) then 4 else 0.

(* BlobToCommitment(blob) / ComputeProof(blob, z) *)
Definition blob_class (nfe : nat) (blob : list N) : N :=
  if negb (blob_canonical nfe blob) then 6 else 0.
