(* Crypto/Keystore.v — executable model of the Web3 secret-storage code of
   /repo/accounts/keystore (passphrase.go, key.go, presale.go helpers, keystore.go GetKey).

   MODEL ONLY (no proofs).  Transcribed from the Go code, in the order the Go code
   performs its checks; every early `return err` is an error CLASS, every Go run-time
   panic on the path (type assertion on a dynamic JSON value, slice bound, cipher.NewCTR /
   NewCBCDecrypter / CryptBlocks argument checks) is the explicit class [EPanic].

   What is abstract (Section variables, supplied as DATA by the correspondence check):
     H        Keccak-256 (instantiated with Keccak.Sponge.keccak256 in Run/C52.v)
     kdf      first 32 output bytes of scrypt / PBKDF2-HMAC-SHA256 for (alg, password, salt).
              golang.org/x/crypto/pbkdf2.Key returns dk[:keyLen] of a buffer whose capacity
              is a multiple of 32, and the Go code slices derivedKey[16:32] / [:16] (legal up
              to the CAPACITY), so for every dklen >= 1 the bytes used are these 32 bytes,
              independently of dklen; dklen <= 0 panics.  None = "no data for this input"
              (class EOracle, a model artefact that can never equal an implementation result).
     ctr      AES-128-CTR keystream (key, iv, length)
     cbc      raw AES-128-CBC decryption (key, iv, ciphertext), before un-padding (V1 files)
     addr_of  Ethereum address of a 32-byte private key (secp256k1 + Keccak)
   What is NOT modelled: JSON text syntax (the input is the JSON value tree; text that
   encoding/json rejects is the token [JInvalid]); non-ASCII case folding of struct field
   names; memory/CPU exhaustion for huge n, r, p, c, dklen. *)
Require Import Coq.Strings.String Coq.Strings.Ascii.
From Coq Require Import List NArith ZArith Bool.
From GV Require Import Lib.Bytes.
Import ListNotations.
Local Open Scope N_scope.

(* ---------- strings as byte lists ---------- *)
Definition str (s : string) : list N := map N_of_ascii (list_ascii_of_string s).

Definition s_address : list N := Eval vm_compute in str "address".
Definition s_crypto : list N := Eval vm_compute in str "crypto".
Definition s_id : list N := Eval vm_compute in str "id".
Definition s_version : list N := Eval vm_compute in str "version".
Definition s_cipher : list N := Eval vm_compute in str "cipher".
Definition s_ciphertext : list N := Eval vm_compute in str "ciphertext".
Definition s_cipherparams : list N := Eval vm_compute in str "cipherparams".
Definition s_iv : list N := Eval vm_compute in str "iv".
Definition s_kdf : list N := Eval vm_compute in str "kdf".
Definition s_kdfparams : list N := Eval vm_compute in str "kdfparams".
Definition s_mac : list N := Eval vm_compute in str "mac".
Definition s_salt : list N := Eval vm_compute in str "salt".
Definition s_dklen : list N := Eval vm_compute in str "dklen".
Definition s_n : list N := Eval vm_compute in str "n".
Definition s_r : list N := Eval vm_compute in str "r".
Definition s_p : list N := Eval vm_compute in str "p".
Definition s_c : list N := Eval vm_compute in str "c".
Definition s_prf : list N := Eval vm_compute in str "prf".
Definition s_aes128ctr : list N := Eval vm_compute in str "aes-128-ctr".
Definition s_scrypt : list N := Eval vm_compute in str "scrypt".
Definition s_pbkdf2 : list N := Eval vm_compute in str "pbkdf2".
Definition s_hmac_sha256 : list N := Eval vm_compute in str "hmac-sha256".
Definition s_one : list N := Eval vm_compute in str "1".
Definition s_urn : list N := Eval vm_compute in str "URN:UUID:".   (* folded *)

Fixpoint bytes_eqb (a b : list N) : bool :=
  match a, b with
  | [], [] => true
  | x :: a', y :: b' => (x =? y) && bytes_eqb a' b'
  | _, _ => false
  end.

(* ---------- errors ---------- *)
Inductive err :=
| EJson        (* encoding/json error (syntax or type) *)
| EVersion     (* "version not supported" *)
| EUuid        (* uuid.Parse error *)
| ECipher      (* "cipher not supported" *)
| EHex         (* hex.DecodeString error (mac, iv, ciphertext, salt) *)
| EKdf         (* scrypt parameter error, unsupported PRF, unsupported KDF *)
| EDecrypt     (* ErrDecrypt: MAC mismatch (or V1 padding) *)
| EInvalidKey  (* crypto.ToECDSA error *)
| EAddrMismatch(* GetKey: key content mismatch *)
| EPanic       (* the Go code panics here *)
| EOracle      (* model artefact: Section data missing *)
| EIvLen.      (* repaired code: "invalid IV length" / "invalid ciphertext length" (V1) *)

Inductive res (A : Type) := Ok (a : A) | Err (e : err).
Arguments Ok {A} a.
Arguments Err {A} e.

Definition bind {A B} (r : res A) (f : A -> res B) : res B :=
  match r with Ok a => f a | Err e => Err e end.

Fixpoint fold_res {A B} (f : A -> B -> res A) (l : list B) (a : A) : res A :=
  match l with
  | [] => Ok a
  | x :: r => match f a x with Ok a' => fold_res f r a' | Err e => Err e end
  end.

Fixpoint omap {A B} (f : A -> option B) (l : list A) : option (list B) :=
  match l with
  | [] => Some []
  | x :: r => match f x, omap f r with Some y, Some t => Some (y :: t) | _, _ => None end
  end.

(* ---------- encoding/hex ---------- *)
(* hex.fromHexChar *)
Definition from_hex_char (c : N) : option N :=
  if (48 <=? c) && (c <=? 57) then Some (c - 48)
  else if (97 <=? c) && (c <=? 102) then Some (c - 87)
  else if (65 <=? c) && (c <=? 70) then Some (c - 55)
  else None.

Definition xtob (a b : N) : option N :=
  match from_hex_char a, from_hex_char b with
  | Some x, Some y => Some (x * 16 + y)
  | _, _ => None
  end.

(* hex.DecodeString: None for an invalid character or odd length (both are errors) *)
Fixpoint hex_decode (s : list N) : option (list N) :=
  match s with
  | [] => Some []
  | [_] => None
  | a :: b :: r =>
      match xtob a b, hex_decode r with
      | Some v, Some t => Some (v :: t)
      | _, _ => None
      end
  end.

Definition hex_digit (v : N) : N := if v <? 10 then 48 + v else 87 + v.
(* hex.EncodeToString (lower case) *)
Fixpoint hex_encode (l : list N) : list N :=
  match l with
  | [] => []
  | b :: r => hex_digit (b / 16) :: hex_digit (b mod 16) :: hex_encode r
  end.

(* ---------- github.com/google/uuid ---------- *)
Definition fold_byte (c : N) : N := if (97 <=? c) && (c <=? 122) then c - 32 else c.
Definition fold_name (s : list N) : list N := map fold_byte s.

Definition xtob_at (s : list N) (i : nat) : option N :=
  match nth_error s i, nth_error s (S i) with
  | Some a, Some b => xtob a b
  | _, _ => None
  end.
Definition is_dash (s : list N) (i : nat) : bool :=
  match nth_error s i with Some 45 => true | _ => false end.

Definition uuid_positions : list nat :=
  [0; 2; 4; 6; 9; 11; 14; 16; 19; 21; 24; 26; 28; 30; 32; 34]%nat.

(* uuid.Parse, the part after the length switch *)
Definition uuid_body (s : list N) : option (list N) :=
  if is_dash s 8 && is_dash s 13 && is_dash s 18 && is_dash s 23
  then omap (xtob_at s) uuid_positions else None.

(* uuid.Parse *)
Definition uuid_parse (s : list N) : option (list N) :=
  let n := length s in
  if Nat.eqb n 36 then uuid_body s
  else if Nat.eqb n 45 then
    if bytes_eqb (fold_name (firstn 9 s)) s_urn then uuid_body (skipn 9 s) else None
  else if Nat.eqb n 38 then uuid_body (skipn 1 s)
  else if Nat.eqb n 32 then hex_decode s
  else None.

(* UUID.String *)
Definition uuid_string (u : list N) : list N :=
  hex_encode (firstn 4 u) ++ [45] ++ hex_encode (firstn 2 (skipn 4 u)) ++ [45] ++
  hex_encode (firstn 2 (skipn 6 u)) ++ [45] ++ hex_encode (firstn 2 (skipn 8 u)) ++ [45] ++
  hex_encode (skipn 10 u).

(* ---------- JSON values (after encoding/json has parsed the text) ---------- *)
(* JNum lit trunc: lit = Some z iff the literal is an integer literal (-?[0-9]+) of value z
   (what strconv.ParseInt sees when the target is an int field); trunc = int(float64(v)),
   what ensureInt computes from the float64 stored in a map[string]interface{}.
   JArr: arrays are never inspected.  JInvalid: text rejected by encoding/json. *)
Inductive jv :=
| JNull | JBool (b : bool) | JNum (lit : option Z) (trunc : Z) | JStr (s : list N)
| JArr | JObj (kvs : list (list N * jv)) | JInvalid.

Definition jmap := list (list N * jv).

Fixpoint lookup (k : list N) (m : jmap) : option jv :=
  match m with
  | [] => None
  | (k', v) :: r => if bytes_eqb k k' then Some v else lookup k r
  end.
(* Go map lookup m[k] in a map given as its list of assignments in order
   (a later assignment to the same key replaces the earlier one) *)
Definition mget (k : list N) (m : jmap) : option jv := lookup k (rev m).

(* key.go: CryptoJSON / cipherparamsJSON / encryptedKeyJSONV3 / encryptedKeyJSONV1 *)
Record crypto_json := mkCJ {
  cj_cipher : list N; cj_ciphertext : list N; cj_iv : list N;
  cj_kdf : list N; cj_kdfparams : jmap; cj_mac : list N }.
Record envelope := mkEnv {
  e_address : list N; e_crypto : crypto_json; e_id : list N;
  e_version : Z      (* V3: Version int;  V1: Version string, never read (kept 0) *) }.

Definition cj0 : crypto_json := mkCJ [] [] [] [] [] [].
Definition env0 : envelope := mkEnv [] cj0 [] 0.

(* encoding/json decode.go object(): exact field name, else case-folded name
   (ASCII folding only; the struct's names stay distinct under folding). *)
Definition field_is (name key : list N) : bool :=
  bytes_eqb key name || bytes_eqb (fold_name key) (fold_name name).

(* string field: a JSON string sets it, null leaves it, anything else is an
   UnmarshalTypeError (decoding continues, the error is returned at the end: class EJson) *)
Definition set_string (old : list N) (v : jv) : res (list N) :=
  match v with JStr s => Ok s | JNull => Ok old | _ => Err EJson end.

Definition int64_ok (z : Z) : bool := ((- 2 ^ 63 <=? z) && (z <? 2 ^ 63))%Z.
(* int field: integer literal in int64 range *)
Definition set_int (old : Z) (v : jv) : res Z :=
  match v with
  | JNum (Some z) _ => if int64_ok z then Ok z else Err EJson
  | JNull => Ok old
  | _ => Err EJson
  end.

Definition set_cipherparams (iv : list N) (kv : list N * jv) : res (list N) :=
  if field_is s_iv (fst kv) then set_string iv (snd kv) else Ok iv.

Definition set_crypto (c : crypto_json) (kv : list N * jv) : res crypto_json :=
  let (k, v) := kv in
  if field_is s_cipher k then
    bind (set_string (cj_cipher c) v) (fun s => Ok (mkCJ s (cj_ciphertext c) (cj_iv c) (cj_kdf c) (cj_kdfparams c) (cj_mac c)))
  else if field_is s_ciphertext k then
    bind (set_string (cj_ciphertext c) v) (fun s => Ok (mkCJ (cj_cipher c) s (cj_iv c) (cj_kdf c) (cj_kdfparams c) (cj_mac c)))
  else if field_is s_cipherparams k then
    match v with
    | JObj kvs => bind (fold_res set_cipherparams kvs (cj_iv c))
                    (fun s => Ok (mkCJ (cj_cipher c) (cj_ciphertext c) s (cj_kdf c) (cj_kdfparams c) (cj_mac c)))
    | JNull => Ok c
    | _ => Err EJson
    end
  else if field_is s_kdf k then
    bind (set_string (cj_kdf c) v) (fun s => Ok (mkCJ (cj_cipher c) (cj_ciphertext c) (cj_iv c) s (cj_kdfparams c) (cj_mac c)))
  else if field_is s_kdfparams k then
    match v with
    | JObj kvs => (* map[string]interface{}: entries are added to the existing map, exact keys *)
        Ok (mkCJ (cj_cipher c) (cj_ciphertext c) (cj_iv c) (cj_kdf c) (cj_kdfparams c ++ kvs) (cj_mac c))
    | JNull => Ok (mkCJ (cj_cipher c) (cj_ciphertext c) (cj_iv c) (cj_kdf c) [] (cj_mac c))
    | _ => Err EJson
    end
  else if field_is s_mac k then
    bind (set_string (cj_mac c) v) (fun s => Ok (mkCJ (cj_cipher c) (cj_ciphertext c) (cj_iv c) (cj_kdf c) (cj_kdfparams c) s))
  else Ok c.

(* v1 = true: encryptedKeyJSONV1 (Version string); false: encryptedKeyJSONV3 (Version int) *)
Definition set_env (v1 : bool) (e : envelope) (kv : list N * jv) : res envelope :=
  let (k, v) := kv in
  if field_is s_address k then
    bind (set_string (e_address e) v) (fun s => Ok (mkEnv s (e_crypto e) (e_id e) (e_version e)))
  else if field_is s_crypto k then
    match v with
    | JObj kvs => bind (fold_res set_crypto kvs (e_crypto e))
                    (fun c => Ok (mkEnv (e_address e) c (e_id e) (e_version e)))
    | JNull => Ok e
    | _ => Err EJson
    end
  else if field_is s_id k then
    bind (set_string (e_id e) v) (fun s => Ok (mkEnv (e_address e) (e_crypto e) s (e_version e)))
  else if field_is s_version k then
    if v1 then bind (set_string [] v) (fun _ => Ok e)
    else bind (set_int (e_version e) v) (fun z => Ok (mkEnv (e_address e) (e_crypto e) (e_id e) z))
  else Ok e.

(* json.Unmarshal(keyjson, k) for a syntactically valid top-level object *)
Definition unmarshal_env (v1 : bool) (kvs : jmap) : res envelope :=
  fold_res (set_env v1) kvs env0.

(* json.Unmarshal(keyjson, &m), m map[string]interface{}: object or null accepted *)
Definition obj_of (j : jv) : res jmap :=
  match j with JObj kvs => Ok kvs | JNull => Ok [] | _ => Err EJson end.

(* DecryptKey: `version, ok := m["version"].(string); ok && version == "1"` *)
Definition is_v1 (kvs : jmap) : bool :=
  match mget s_version kvs with
  | Some (JStr s) => bytes_eqb s s_one
  | _ => false
  end.

(* ---------- scalars ---------- *)
Definition xor_bytes := fix xor_bytes (a b : list N) : list N :=
  match a, b with
  | x :: a', y :: b' => N.lxor x y :: xor_bytes a' b'
  | _, _ => []
  end.

Definition secp256k1N : N := 0xFFFFFFFFFFFFFFFFFFFFFFFFFFFFFFFEBAAEDCE6AF48A03BBFD25E8CD0364141.

(* math.PaddedBigBytes(d, 32) *)
Definition padded32 (d : N) : list N :=
  let b := be_bytes d in repeat 0 (32 - length b) ++ b.

(* passphrase.go: ensureInt.  Some = the int; None = the type assertion panics
   (value missing, or neither int nor float64). *)
Definition ensure_int (v : option jv) : option Z :=
  match v with Some (JNum _ t) => Some t | _ => None end.

Definition maxInt : Z := (2 ^ 63 - 1)%Z.
(* golang.org/x/crypto/scrypt.Key: the three parameter checks (false = error returned) *)
Definition scrypt_params_ok (n r p : Z) : bool :=
  (negb ((n <=? 1) || negb (Z.land n (n - 1) =? 0)) &&
   negb ((r <=? 0) || (p <=? 0)) &&
   negb ((2 ^ 30 <=? (r * p) mod 2 ^ 64) || (maxInt / 128 / p <? r) || (maxInt / 256 <? r)
         || (maxInt / 128 / r <? n)))%Z.

Inductive kdf_alg := KScrypt (n r p : Z) | KPbkdf2 (c : Z).

(* presale.go: pkcs7Unpad (None = nil) *)
Definition pkcs7_unpad (l : list N) : option (list N) :=
  match rev l with
  | [] => None
  | padding :: _ =>
      if (lenN l <? padding) || (16 <? padding) then None
      else if padding =? 0 then None
      else
        let k := N.to_nat padding in
        if forallb (fun x => x =? padding) (skipn (length l - k) l)
        then Some (firstn (length l - k) l) else None
  end.

Section Keystore.
  (* legacy = true : passphrase.go BEFORE the repair "fix: accounts/keystore: ..." (unchecked
     type assertions, no dklen / IV length checks: the Go code panics, class EPanic);
     legacy = false: the repaired code (the checks return errors, in this order). *)
  Variable legacy : bool.
  Definition panic_or (e : err) : err := if legacy then EPanic else e.
  Variable H : list N -> list N.
  Variable kdf : kdf_alg -> list N -> list N -> option (list N).
  Variable ctr : list N -> list N -> nat -> option (list N).
  Variable cbc : list N -> list N -> list N -> option (list N).
  Variable addr_of : list N -> option (list N).

  (* the derived key as the Go code uses it: 32 bytes; dklen <= 0 makes
     pbkdf2.Key's dk[:keyLen] or the later derivedKey[16:32] panic *)
  Definition run_kdf (alg : kdf_alg) (auth salt : list N) (dklen : Z) : res (list N) :=
    if (dklen <=? 0)%Z then Err EPanic
    else match kdf alg auth salt with
         | Some dk => if Nat.eqb (length dk) 32 then Ok dk else Err EOracle
         | None => Err EOracle
         end.

  (* passphrase.go: getKDFKey *)
  Definition get_kdf_key (cj : crypto_json) (auth : list N) : res (list N) :=
    match mget s_salt (cj_kdfparams cj) with
    | Some (JStr salt_hex) =>
        match hex_decode salt_hex with
        | None => Err EHex
        | Some salt =>
            match ensure_int (mget s_dklen (cj_kdfparams cj)) with
            | None => Err (panic_or EKdf)
            | Some dklen =>
                if negb legacy && (dklen <? 32)%Z then Err EKdf   (* repaired: dkLen < 32 *)
                else if bytes_eqb (cj_kdf cj) s_scrypt then
                  match ensure_int (mget s_n (cj_kdfparams cj)),
                        ensure_int (mget s_r (cj_kdfparams cj)),
                        ensure_int (mget s_p (cj_kdfparams cj)) with
                  | Some n, Some r, Some p =>
                      if scrypt_params_ok n r p
                      then run_kdf (KScrypt n r p) auth salt dklen
                      else Err EKdf
                  | _, _, _ => Err (panic_or EKdf)
                  end
                else if bytes_eqb (cj_kdf cj) s_pbkdf2 then
                  match ensure_int (mget s_c (cj_kdfparams cj)) with
                  | None => Err (panic_or EKdf)
                  | Some c =>
                      match mget s_prf (cj_kdfparams cj) with
                      | Some (JStr prf) =>
                          if bytes_eqb prf s_hmac_sha256
                          then run_kdf (KPbkdf2 c) auth salt dklen
                          else Err EKdf
                      | _ => Err (panic_or EKdf)
                      end
                  end
                else Err EKdf
            end
        end
    | _ => Err (panic_or EKdf)   (* cryptoJSON.KDFParams["salt"].(string) *)
    end.

  (* presale.go: aesCTRXOR.  The key is derivedKey[:16], so aes.NewCipher cannot fail;
     cipher.NewCTR panics unless len(iv) = 16. *)
  Definition aes_ctr_xor (key text iv : list N) : res (list N) :=
    if negb (Nat.eqb (length iv) 16) then Err EPanic
    else match ctr key iv (length text) with
         | Some ks => if Nat.eqb (length ks) (length text) then Ok (xor_bytes text ks) else Err EOracle
         | None => Err EOracle
         end.

  (* presale.go: aesCBCDecrypt.  NewCBCDecrypter panics unless len(iv) = 16, CryptBlocks
     panics unless the input is a whole number of blocks. *)
  Definition aes_cbc_decrypt (key ct iv : list N) : res (list N) :=
    if negb (Nat.eqb (length iv) 16) then Err EPanic
    else if negb (Nat.eqb (Nat.modulo (length ct) 16) 0) then Err EPanic
    else match cbc key iv ct with
         | Some padded =>
             if Nat.eqb (length padded) (length ct) then
               match pkcs7_unpad padded with Some pt => Ok pt | None => Err EDecrypt end
             else Err EOracle
         | None => Err EOracle
         end.

  Definition mac_of (dk ct : list N) : list N := H (skipn 16 dk ++ ct).

  (* passphrase.go: DecryptDataV3 *)
  Definition decrypt_data_v3 (cj : crypto_json) (auth : list N) : res (list N) :=
    if negb (bytes_eqb (cj_cipher cj) s_aes128ctr) then Err ECipher
    else match hex_decode (cj_mac cj) with
    | None => Err EHex
    | Some mac =>
    match hex_decode (cj_iv cj) with
    | None => Err EHex
    | Some iv =>
    if negb legacy && negb (Nat.eqb (length iv) 16) then Err EIvLen else
    match hex_decode (cj_ciphertext cj) with
    | None => Err EHex
    | Some ct =>
    match get_kdf_key cj auth with
    | Err e => Err e
    | Ok dk =>
        if negb (bytes_eqb (mac_of dk ct) mac) then Err EDecrypt
        else aes_ctr_xor (firstn 16 dk) ct iv
    end end end end.

  (* passphrase.go: decryptKeyV3 -> (keyBytes, keyId) *)
  Definition decrypt_key_v3 (e : envelope) (auth : list N) : res (list N * list N) :=
    if negb (e_version e =? 3)%Z then Err EVersion
    else match uuid_parse (e_id e) with
    | None => Err EUuid
    | Some id => bind (decrypt_data_v3 (e_crypto e) auth) (fun pt => Ok (pt, id))
    end.

  (* passphrase.go: decryptKeyV1 *)
  Definition decrypt_key_v1 (e : envelope) (auth : list N) : res (list N * list N) :=
    match uuid_parse (e_id e) with
    | None => Err EUuid
    | Some id =>
    let cj := e_crypto e in
    match hex_decode (cj_mac cj) with
    | None => Err EHex
    | Some mac =>
    match hex_decode (cj_iv cj) with
    | None => Err EHex
    | Some iv =>
    if negb legacy && negb (Nat.eqb (length iv) 16) then Err EIvLen else
    match hex_decode (cj_ciphertext cj) with
    | None => Err EHex
    | Some ct =>
    if negb legacy && negb (Nat.eqb (Nat.modulo (length ct) 16) 0) then Err EIvLen else
    match get_kdf_key cj auth with
    | Err e => Err e
    | Ok dk =>
        if negb (bytes_eqb (mac_of dk ct) mac) then Err EDecrypt
        else bind (aes_cbc_decrypt (firstn 16 (H (firstn 16 dk))) ct iv) (fun pt => Ok (pt, id))
    end end end end end.

  (* crypto.ToECDSA + PubkeyToAddress: Ok address *)
  Definition to_ecdsa (kb : list N) : res (list N) :=
    if negb (Nat.eqb (length kb) 32) then Err EInvalidKey
    else if secp256k1N <=? be_decode kb then Err EInvalidKey
    else if be_decode kb =? 0 then Err EInvalidKey
    else match addr_of kb with Some a => Ok a | None => Err EOracle end.

  (* the two decryption paths of DecryptKey on the decoded object *)
  Definition decrypt_obj (kvs : jmap) (auth : list N) : res (list N * list N) :=
    if is_v1 kvs
    then bind (unmarshal_env true kvs) (fun e => decrypt_key_v1 e auth)
    else bind (unmarshal_env false kvs) (fun e => decrypt_key_v3 e auth).

  (* passphrase.go: DecryptKey -> (private key bytes, address, id) *)
  Definition decrypt_key (j : jv) (auth : list N) : res (list N * list N * list N) :=
    bind (obj_of j) (fun kvs =>
    bind (decrypt_obj kvs auth) (fun r =>
    bind (to_ecdsa (fst r)) (fun a => Ok (fst r, a, snd r)))).

  (* passphrase.go: keyStorePassphrase.GetKey (after os.ReadFile) *)
  Definition get_key (addr : list N) (j : jv) (auth : list N) : res (list N * list N * list N) :=
    bind (decrypt_key j auth) (fun r =>
      if bytes_eqb (snd (fst r)) addr then Ok r else Err EAddrMismatch).

  Definition jint (z : Z) : jv := JNum (Some z) z.

  (* passphrase.go: EncryptDataV3 with the two crypto/rand reads made explicit *)
  Definition encrypt_data_v3 (data auth : list N) (n p : Z) (salt iv : list N) : res crypto_json :=
    if negb (scrypt_params_ok n 8 p) then Err EKdf
    else bind (run_kdf (KScrypt n 8 p) auth salt 32) (fun dk =>
         bind (aes_ctr_xor (firstn 16 dk) data iv) (fun ct =>
         Ok (mkCJ s_aes128ctr (hex_encode ct) (hex_encode iv) s_scrypt
               [(s_dklen, jint 32); (s_n, jint n); (s_p, jint p); (s_r, jint 8);
                (s_salt, JStr (hex_encode salt))]
               (hex_encode (mac_of dk ct))))).

  (* passphrase.go: EncryptKey; the Key struct is (Id, Address, PrivateKey.D) *)
  Definition encrypt_key (d : N) (addr id auth : list N) (n p : Z) (salt iv : list N) : res envelope :=
    bind (encrypt_data_v3 (padded32 d) auth n p salt iv) (fun cj =>
      Ok (mkEnv (hex_encode addr) cj (uuid_string id) 3)).

  (* json.Marshal(encryptedKeyJSONV3): struct order, map keys sorted *)
  Definition cj_to_json (c : crypto_json) : jv :=
    JObj [(s_cipher, JStr (cj_cipher c)); (s_ciphertext, JStr (cj_ciphertext c));
          (s_cipherparams, JObj [(s_iv, JStr (cj_iv c))]); (s_kdf, JStr (cj_kdf c));
          (s_kdfparams, JObj (cj_kdfparams c)); (s_mac, JStr (cj_mac c))].
  Definition to_json (e : envelope) : jv :=
    JObj [(s_address, JStr (e_address e)); (s_crypto, cj_to_json (e_crypto e));
          (s_id, JStr (e_id e)); (s_version, jint (e_version e))].
End Keystore.
