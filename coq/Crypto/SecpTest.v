(* Crypto/SecpTest.v — TESTS (vm_compute on fixed vectors) of the executable curve
   Crypto/Secp.v against values produced by go-ethereum (crypto.Sign / Ecrecover with
   key 289c2857...2032 over keccak256("probe")) and against SEC 2.  These are tests,
   not theorems about the curve. *)
From GV Require Import Crypto.Secp Crypto.Signer.
From Coq Require Import ZArith List Bool.
Import ListNotations.
Local Open Scope Z_scope.

Definition tv_key : Z := 0x289c2857d4598e37fb9647507e47a309d6133539bf21a8b9cb6df88fd5232032.
Definition tv_hash : Z := 0xdd5f4a40891243106ad927058f4519a6fd2037f7356b0a02219316326a4f2025.
Definition tv_r : Z := 0xce0176deed20cea51ca02c7f9f80f9e31f2f4d677e1444847ee78e3d7588b214.
Definition tv_s : Z := 0x07b559075384ec337c637f14963189ecb9f91f3db42024aa7be65d757ea33428.
Definition tv_pub : Z * Z :=
  (0x7db227d7094ce215c3a0f57e1bcc732551fe351f94249471934567e0f5dc1bf7,
   0x95962b8cccb87a2eb56b29fbe37d614e2f4c3c45b789ae4f1f51f4cb21972ffd).
Definition tv_other : Z * Z :=
  (0x845dee98f26b105541a19b936a0fb2d42bd8d692f0f76549f633ac1ff4fe9e98,
   0xe8fcf56552c09c0a5b9f05d71b80beefb9c9662127256f5e1a62dc6e149df138).

(* the constants are those of crypto.go / SEC 2 *)
Example secp_test_order : sp_n = secp_n /\ sp_p = 2 ^ 256 - 2 ^ 32 - 977.
Proof. split; reflexivity. Qed.

(* 1*G = G, (n-1)*G = -G, n*G = infinity, the key's public key is geth's *)
Example secp_test_generator :
  sp_pub 1 = Some (sp_gx, sp_gy) /\ sp_pub (sp_n - 1) = Some (sp_gx, sp_p - sp_gy) /\
  sp_pub sp_n = None /\ sp_pub tv_key = Some tv_pub.
Proof. vm_compute. repeat split. Qed.

(* recover_sign on the vector: crypto.Sign returned (r, s, recid 1) *)
Example secp_test_recover_sign : sp_recover tv_hash tv_r tv_s 1 = sp_pub tv_key.
Proof. vm_compute. reflexivity. Qed.

(* the other recovery id gives the key crypto.Ecrecover gives; the malleated twin
   (n - s, recid flipped) recovers the signer's key again; out-of-range values fail *)
Example secp_test_recover_others :
  sp_recover tv_hash tv_r tv_s 0 = Some tv_other /\
  sp_recover tv_hash tv_r (sp_n - tv_s) 0 = Some tv_pub /\
  sp_recover tv_hash 0 tv_s 1 = None /\ sp_recover tv_hash tv_r sp_n 1 = None /\
  sp_recover tv_hash tv_r tv_s 4 = None /\ sp_recover tv_hash tv_r tv_s 3 = None.
Proof. vm_compute. repeat split. Qed.

(* the special-prime reduction agrees with mod p on boundary products *)
Example secp_test_fred :
  forallb (fun x => fred x =? x mod sp_p)
    [0; 1; sp_p - 1; sp_p; sp_p + 1; 2 ^ 256 - 1; 2 ^ 256; (sp_p - 1) * (sp_p - 1);
     (2 ^ 256 - 1) * (2 ^ 256 - 1); tv_r * tv_s; tv_hash * tv_hash] = true.
Proof. vm_compute. reflexivity. Qed.
