(* Crypto/SignerProofs.v — lemmas about the signer-layer model Crypto/Signer.v.
   The signature scheme is a Section variable with the named hypothesis
   [scheme_ok] (recover_sign + sign_low_s + sign_range); the concrete curve's
   recover_sign is NOT proved here (library code, covered differentially). *)
From GV Require Import Lib.Tactics Lib.Bytes Rlp.Item Rlp.Codec Crypto.Signer.
Local Open Scope Z_scope.

(* ---------- constants ---------- *)
Lemma two64_val : two64 = 18446744073709551616. Proof. reflexivity. Qed.
Lemma two256_val : two256 =
  115792089237316195423570985008687907853269984665640564039457584007913129639936.
Proof. reflexivity. Qed.
Lemma secp_facts : 1000 < secp_half_n /\ 2 * secp_half_n + 1 = secp_n /\ secp_n < two256.
Proof. split; [|split]; reflexivity. Qed.
Global Opaque secp_n secp_half_n two64 two256.

(* ---------- math/big helpers ---------- *)
Lemma bitlen_le (z k : Z) : 0 <= k -> (bitlen z <=? k) = (Z.abs z <? 2 ^ k).
Proof.
  intros Hk. unfold bitlen. destruct (z =? 0) eqn:E.
  - apply Z.eqb_eq in E. subst z. cbn [Z.abs].
    assert (0 < 2 ^ k) by (apply Z.pow_pos_nonneg; lia).
    apply eq_true_iff_eq. rewrite Z.leb_le, Z.ltb_lt. lia.
  - apply Z.eqb_neq in E. assert (Ha : 0 < Z.abs z) by lia.
    apply eq_true_iff_eq. rewrite Z.leb_le, Z.ltb_lt.
    rewrite (Z.log2_lt_pow2 _ _ Ha). lia.
Qed.

Lemma bitlen_gt8 (z : Z) : (bitlen z >? 8) = negb (Z.abs z <? 256).
Proof.
  rewrite Z.gtb_ltb, Z.ltb_antisym. f_equal. change 256 with (2 ^ 8).
  apply bitlen_le. lia.
Qed.

Lemma u64_small (z : Z) : Z.abs z < two64 -> u64 z = Z.abs z.
Proof. intros. unfold u64. apply Z.mod_small. lia. Qed.

Lemma u256_from_big_small (z : Z) : 0 <= z < two256 -> u256_from_big z = z.
Proof.
  intros Hz. unfold u256_from_big. destruct (z <? 0) eqn:E; [lia|].
  rewrite Z.abs_eq by lia. apply Z.mod_small. lia.
Qed.
Lemma u256_overflow_small (z : Z) : 0 <= z < two256 -> u256_overflow z = false.
Proof. intros Hz. unfold u256_overflow. rewrite Z.abs_eq by lia. lia. Qed.

(* ---------- ValidateSignatureValues ---------- *)
Definition rs_ok (r s : Z) (hs : bool) : bool :=
  (1 <=? r) && (r <? secp_n) && (1 <=? s) &&
  (if hs then s <=? secp_half_n else s <? secp_n).

Lemma validate_spec (v r s : Z) (hs : bool) :
  validate_signature_values v r s hs = rs_ok r s hs && ((v =? 0) || (v =? 1)).
Proof.
  pose proof secp_facts as F. unfold validate_signature_values, rs_ok.
  destruct hs; cbn [andb];
    destruct (r <? 1) eqn:?, (s <? 1) eqn:?, (r <? secp_n) eqn:?, (s <? secp_n) eqn:?,
             (1 <=? r) eqn:?, (1 <=? s) eqn:?; cbn [orb andb]; try lia;
    try (destruct (s >? secp_half_n) eqn:?, (s <=? secp_half_n) eqn:?; cbn [orb andb]; try lia);
    try reflexivity.
Qed.

(* ---------- deriveChainId / v_roundtrip ---------- *)
Definition v_of (c recid : Z) : Z := if c =? 0 then recid + 27 else recid + 35 + 2 * c.

Lemma derive_chain_id_v_of (c recid : Z) :
  0 <= c -> recid = 0 \/ recid = 1 -> derive_chain_id (v_of c recid) = c.
Proof.
  intros Hc Hr. pose proof two64_val as T. unfold v_of, derive_chain_id.
  destruct (c =? 0) eqn:Ec.
  - apply Z.eqb_eq in Ec. subst c.
    rewrite (bitlen_le _ 64) by lia. change (2 ^ 64) with 18446744073709551616.
    assert (Z.abs (recid + 27) = recid + 27) as -> by lia.
    assert ((recid + 27 <? 18446744073709551616) = true) as -> by lia.
    rewrite u64_small by lia. assert (Z.abs (recid + 27) = recid + 27) as -> by lia.
    destruct Hr; subst recid; reflexivity.
  - apply Z.eqb_neq in Ec. set (v := recid + 35 + 2 * c).
    assert (Hv : 37 <= v) by (unfold v; lia).
    rewrite (bitlen_le _ 64) by lia. change (2 ^ 64) with 18446744073709551616.
    rewrite Z.abs_eq by lia.
    destruct (v <? 18446744073709551616) eqn:Ev.
    + rewrite u64_small by (rewrite Z.abs_eq; lia). rewrite Z.abs_eq by lia.
      assert ((v =? 27) = false) as -> by lia. assert ((v =? 28) = false) as -> by lia.
      cbn [orb]. unfold sub64. rewrite T. rewrite Z.mod_small by lia. unfold v. lia.
    + rewrite Z.shiftr_div_pow2 by lia. change (2 ^ 1) with 2. unfold v. lia.
Qed.

Lemma eip155_v_is_v_of (c recid : Z) : c <> 0 -> recid = 0 \/ recid = 1 ->
  (recid + 35) mod 256 + c + c = v_of c recid.
Proof.
  intros Hc Hr. unfold v_of. assert ((c =? 0) = false) as -> by lia.
  destruct Hr; subst recid; lia.
Qed.

Lemma is_protected_v_big (v : Z) : 37 <= v -> is_protected_v v = true.
Proof.
  intros Hv. unfold is_protected_v. rewrite (bitlen_le _ 8) by lia. change (2 ^ 8) with 256.
  rewrite Z.abs_eq by lia. destruct (v <? 256) eqn:E; [|reflexivity].
  pose proof two64_val as T.
  rewrite u64_small by (rewrite Z.abs_eq; lia). rewrite Z.abs_eq by lia.
  assert ((v =? 27) = false) as -> by lia. assert ((v =? 28) = false) as -> by lia.
  assert ((v =? 1) = false) as -> by lia. assert ((v =? 0) = false) as -> by lia. reflexivity.
Qed.

Lemma is_protected_v_false (v : Z) : 0 <= v ->
  (is_protected_v v = false <-> v = 27 \/ v = 28 \/ v = 1 \/ v = 0).
Proof.
  intros Hv. pose proof two64_val as T. unfold is_protected_v.
  rewrite (bitlen_le _ 8) by lia. change (2 ^ 8) with 256. rewrite Z.abs_eq by lia.
  destruct (v <? 256) eqn:E.
  - rewrite u64_small by (rewrite Z.abs_eq; lia). rewrite Z.abs_eq by lia.
    rewrite !andb_false_iff, !negb_false_iff, !Z.eqb_eq. lia.
  - split; [discriminate|]. lia.
Qed.

(* ---------- the signature hash ignores V, R, S and the tx's own chain field ---------- *)
Lemma signer_preimage_set_chain_vrs (sg : signer) (t : tx) (c v r s : Z) :
  signer_preimage sg (set_chain_vrs t c v r s) = signer_preimage sg t.
Proof. destruct sg; reflexivity. Qed.
Lemma signer_preimage_set_vrs (sg : signer) (t : tx) (v r s : Z) :
  signer_preimage sg (set_vrs t v r s) = signer_preimage sg t.
Proof. destruct sg; reflexivity. Qed.

(* two transactions that differ at most in chain field and signature *)
Definition same_signed_content (t t' : tx) : Prop :=
  t_type t' = t_type t /\ t_payload t' = t_payload t.

Lemma signer_preimage_same (sg : signer) (t t' : tx) :
  same_signed_content t t' -> signer_preimage sg t' = signer_preimage sg t.
Proof.
  intros [Hty Hp]. destruct t as [ty p c v r s], t' as [ty' p' c' v' r' s'].
  cbn in Hty, Hp. subst ty' p'. destruct sg; reflexivity.
Qed.

(* ---------- recoverPlain ---------- *)
Definition vb_ok (Vb : Z) : bool := (Z.abs Vb =? 27) || (Z.abs Vb =? 28).

Lemma plain_v_spec (Vb : Z) : Z.abs Vb < 256 ->
  let V := sub64 (u64 Vb) 27 mod 256 in
  ((V =? 0) || (V =? 1)) = vb_ok Vb /\ (vb_ok Vb = true -> V = Z.abs Vb - 27).
Proof.
  intros Ha. pose proof two64_val as T. cbv zeta. unfold vb_ok.
  rewrite u64_small by lia. unfold sub64. rewrite T. set (a := Z.abs Vb) in *.
  assert (0 <= a) by (unfold a; lia). split.
  - apply eq_true_iff_eq. rewrite !orb_true_iff, !Z.eqb_eq. lia.
  - rewrite orb_true_iff, !Z.eqb_eq. lia.
Qed.

Section Recover.
  Variable pubkey : Type.
  Variable H : list N -> list N.
  Variable recover : list N -> Z -> Z -> Z -> option pubkey.
  Variable addr_of : pubkey -> list N.

  Notation recover_plain := (recover_plain pubkey recover addr_of).
  Notation sender := (sender pubkey H recover addr_of).

  (* what recoverPlain computes, guard by guard *)
  Lemma recover_plain_spec (h : list N) (R S Vb : Z) (hs : bool) :
    recover_plain h R S Vb hs =
      if vb_ok Vb && rs_ok R S hs then
        match recover h R S (Z.abs Vb - 27) with
        | None => RErr ErrRecoverFailed
        | Some pk => ROk (addr_of pk)
        end
      else RErr ErrInvalidSig.
  Proof.
    unfold Signer.recover_plain. rewrite bitlen_gt8.
    destruct (Z.abs Vb <? 256) eqn:Ea; cbn [negb].
    - apply Z.ltb_lt in Ea. destruct (plain_v_spec Vb Ea) as [Hv Hv'].
      rewrite validate_spec. rewrite Hv. rewrite andb_comm.
      destruct (vb_ok Vb) eqn:Eo; cbn [andb negb]; [|reflexivity].
      rewrite Hv' by reflexivity. destruct (rs_ok R S hs); reflexivity.
    - assert (vb_ok Vb = false) as ->; [|reflexivity].
      unfold vb_ok. apply Z.ltb_ge in Ea. apply orb_false_iff. split; lia.
  Qed.

  (* recoverPlain only looks at |V| *)
  Lemma recover_plain_neg_v (h : list N) (R S Vb : Z) (hs : bool) :
    recover_plain h R S (- Vb) hs = recover_plain h R S Vb hs.
  Proof. rewrite !recover_plain_spec. unfold vb_ok. rewrite Z.abs_opp. reflexivity. Qed.

  (* ---------- Sender, guard by guard ---------- *)
  Definition homestead_flag (sg : signer) : bool :=
    match sg with Frontier => false | _ => true end.

  Definition chain_mismatch (sg : signer) (t : tx) : bool :=
    match sg with
    | Frontier | Homestead => false
    | EIP155 c | Modern _ c =>
        if is_legacy (t_type t) then tx_protected t && negb (tx_chain_id t =? c)
        else negb (t_chain t =? c)
    end.

  (* the V handed to recoverPlain *)
  Definition norm_v (sg : signer) (t : tx) : Z :=
    match sg with
    | Frontier | Homestead => t_v t
    | EIP155 c | Modern _ c =>
        if is_legacy (t_type t) then (if tx_protected t then t_v t - c - c - 8 else t_v t)
        else t_v t + 27
    end.

  (* the preimage whose hash Sender recovers over: an unprotected legacy tx is
     always recovered over the 6-field Frontier hash *)
  Definition sender_preimage (sg : signer) (t : tx) : list N :=
    match sg with
    | Frontier | Homestead => frontier_preimage t
    | EIP155 c | Modern _ c =>
        if is_legacy (t_type t) && negb (tx_protected t) then frontier_preimage t
        else inner_preimage t c
    end.

  Lemma sender_spec (sg : signer) (t : tx) :
    sender sg t =
      if negb (signer_supports sg (t_type t)) then RErr ErrTxTypeNotSupported
      else if chain_mismatch sg t then RErr ErrInvalidChainId
      else recover_plain (H (sender_preimage sg t)) (t_r t) (t_s t) (norm_v sg t)
             (homestead_flag sg).
  Proof.
    destruct sg as [| |c|f c]; cbn [Signer.sender signer_supports chain_mismatch norm_v
      sender_preimage homestead_flag].
    - unfold frontier_sender. destruct (is_legacy (t_type t)); reflexivity.
    - unfold homestead_sender. destruct (is_legacy (t_type t)); reflexivity.
    - unfold eip155_sender, homestead_sender.
      destruct (is_legacy (t_type t)) eqn:El; cbn [negb andb]; [|reflexivity].
      destruct (tx_protected t) eqn:Ep; cbn [negb andb]; [|reflexivity].
      destruct (tx_chain_id t =? c); reflexivity.
    - unfold modern_sender.
      destruct (modern_supports f (t_type t)) eqn:Es; cbn [negb]; [|reflexivity].
      destruct (is_legacy (t_type t)) eqn:El; cbn [negb andb].
      + unfold eip155_sender, homestead_sender. rewrite El. cbn [negb].
        destruct (tx_protected t) eqn:Ep; cbn [negb andb]; [|reflexivity].
        destruct (tx_chain_id t =? c); reflexivity.
      + assert (tx_chain_id t = t_chain t) as ->.
        { unfold tx_chain_id. destruct (t_type t); try reflexivity; discriminate. }
        destruct (t_chain t =? c); reflexivity.
  Qed.

  (* ---------- strictness: each rejection, with its exact guard ---------- *)
  Lemma recover_plain_err (h : list N) (R S Vb : Z) (hs : bool) (e : serr) :
    recover_plain h R S Vb hs = RErr e -> e = ErrInvalidSig \/ e = ErrRecoverFailed.
  Proof.
    rewrite recover_plain_spec. destruct (vb_ok Vb && rs_ok R S hs).
    - destruct (recover h R S (Z.abs Vb - 27)); intros E; inversion E; auto.
    - intros E; inversion E; auto.
  Qed.

  Theorem sender_unsupported_iff (sg : signer) (t : tx) :
    sender sg t = RErr ErrTxTypeNotSupported <-> signer_supports sg (t_type t) = false.
  Proof.
    rewrite sender_spec. destruct (signer_supports sg (t_type t)); cbn [negb].
    - split; [|discriminate]. destruct (chain_mismatch sg t); [discriminate|].
      intros E. apply recover_plain_err in E. destruct E; discriminate.
    - split; reflexivity.
  Qed.

  Theorem sender_chain_mismatch_iff (sg : signer) (t : tx) :
    signer_supports sg (t_type t) = true ->
    (sender sg t = RErr ErrInvalidChainId <-> chain_mismatch sg t = true).
  Proof.
    intros Hs. rewrite sender_spec, Hs. cbn [negb]. destruct (chain_mismatch sg t).
    - split; reflexivity.
    - split; [|discriminate]. intros E. apply recover_plain_err in E. destruct E; discriminate.
  Qed.

  Theorem sender_invalid_sig_iff (sg : signer) (t : tx) :
    signer_supports sg (t_type t) = true -> chain_mismatch sg t = false ->
    (sender sg t = RErr ErrInvalidSig <->
     vb_ok (norm_v sg t) && rs_ok (t_r t) (t_s t) (homestead_flag sg) = false).
  Proof.
    intros Hs Hc. rewrite sender_spec, Hs, Hc. cbn [negb]. rewrite recover_plain_spec.
    destruct (vb_ok (norm_v sg t) && rs_ok (t_r t) (t_s t) (homestead_flag sg)).
    - split; [|discriminate].
      destruct (recover _ _ _ _); discriminate.
    - split; reflexivity.
  Qed.

  Theorem sender_ok_iff (sg : signer) (t : tx) (a : list N) :
    sender sg t = ROk a <->
    signer_supports sg (t_type t) = true /\ chain_mismatch sg t = false /\
    vb_ok (norm_v sg t) = true /\ rs_ok (t_r t) (t_s t) (homestead_flag sg) = true /\
    exists pk, recover (H (sender_preimage sg t)) (t_r t) (t_s t) (Z.abs (norm_v sg t) - 27) = Some pk
               /\ a = addr_of pk.
  Proof.
    rewrite sender_spec. destruct (signer_supports sg (t_type t)); cbn [negb].
    2:{ split; [discriminate|]. intros (E & _); discriminate. }
    destruct (chain_mismatch sg t).
    1:{ split; [discriminate|]. intros (_ & E & _); discriminate. }
    rewrite recover_plain_spec.
    destruct (vb_ok (norm_v sg t)); cbn [andb].
    2:{ split; [discriminate|]. intros (_ & _ & E & _); discriminate. }
    destruct (rs_ok (t_r t) (t_s t) (homestead_flag sg)).
    2:{ split; [discriminate|]. intros (_ & _ & _ & E & _); discriminate. }
    destruct (recover _ _ _ _) as [pk|].
    - split.
      + intros E. inversion E. repeat split; try reflexivity. exists pk. split; reflexivity.
      + intros (_ & _ & _ & _ & pk' & E & ->). inversion E. reflexivity.
    - split; [discriminate|]. intros (_ & _ & _ & _ & pk' & E & _). discriminate.
  Qed.

  (* high s: rejected by every signer except Frontier, and by nothing else *)
  Theorem sender_rejects_high_s (sg : signer) (t : tx) :
    sg <> Frontier -> signer_supports sg (t_type t) = true -> chain_mismatch sg t = false ->
    vb_ok (norm_v sg t) = true -> 1 <= t_r t < secp_n -> 1 <= t_s t < secp_n ->
    (sender sg t = RErr ErrInvalidSig <-> secp_half_n < t_s t).
  Proof.
    intros Hsg Hs Hc Hv Hr Hss. rewrite sender_invalid_sig_iff by assumption. rewrite Hv.
    cbn [andb]. unfold rs_ok. assert (homestead_flag sg = true) as ->.
    { destruct sg; try reflexivity. congruence. }
    assert ((1 <=? t_r t) = true) as -> by lia. assert ((t_r t <? secp_n) = true) as -> by lia.
    assert ((1 <=? t_s t) = true) as -> by lia. cbn [andb]. rewrite Z.leb_gt. reflexivity.
  Qed.

  Theorem frontier_accepts_high_s (t : tx) :
    is_legacy (t_type t) = true -> vb_ok (t_v t) = true ->
    1 <= t_r t < secp_n -> 1 <= t_s t < secp_n ->
    sender Frontier t <> RErr ErrInvalidSig.
  Proof.
    intros Hl Hv Hr Hs E. apply sender_invalid_sig_iff in E; [|exact Hl|reflexivity].
    cbn [norm_v homestead_flag] in E. rewrite Hv in E. unfold rs_ok in E.
    assert ((1 <=? t_r t) = true) as He1 by lia. assert ((t_r t <? secp_n) = true) as He2 by lia.
    assert ((1 <=? t_s t) = true) as He3 by lia. assert ((t_s t <? secp_n) = true) as He4 by lia.
    rewrite He1, He2, He3, He4 in E. discriminate.
  Qed.

  (* r, s out of [1, n-1] *)
  Theorem sender_rejects_bad_range (sg : signer) (t : tx) :
    signer_supports sg (t_type t) = true -> chain_mismatch sg t = false ->
    vb_ok (norm_v sg t) = true -> (sg <> Frontier -> t_s t <= secp_half_n) ->
    (sender sg t = RErr ErrInvalidSig <-> ~ (1 <= t_r t < secp_n /\ 1 <= t_s t < secp_n)).
  Proof.
    intros Hs Hc Hv Hlow. pose proof secp_facts as F.
    rewrite sender_invalid_sig_iff by assumption. rewrite Hv. cbn [andb]. unfold rs_ok.
    destruct sg; cbn [homestead_flag]; try (assert (t_s t <= secp_half_n) by (apply Hlow; discriminate));
      rewrite !andb_false_iff, ?Z.leb_gt, ?Z.ltb_ge; lia.
  Qed.

  (* V outside the two admissible values *)
  Theorem sender_rejects_bad_v (sg : signer) (t : tx) :
    signer_supports sg (t_type t) = true -> chain_mismatch sg t = false ->
    rs_ok (t_r t) (t_s t) (homestead_flag sg) = true ->
    (sender sg t = RErr ErrInvalidSig <-> vb_ok (norm_v sg t) = false).
  Proof.
    intros Hs Hc Hrs. rewrite sender_invalid_sig_iff by assumption. rewrite Hrs, andb_true_r.
    reflexivity.
  Qed.
  Lemma recover_plain_signed (h : list N) (r s v : Z) (hs : bool) (pk : pubkey) :
    recover h r s v = Some pk -> 1 <= r < secp_n -> 1 <= s <= secp_half_n ->
    v = 0 \/ v = 1 -> recover_plain h r s (v + 27) hs = ROk (addr_of pk).
  Proof.
    intros Hr Hrr Hs Hv. pose proof secp_facts as F. rewrite recover_plain_spec.
    assert (vb_ok (v + 27) = true) as ->.
    { unfold vb_ok. apply orb_true_iff. rewrite !Z.eqb_eq. lia. }
    assert (rs_ok r s hs = true) as ->.
    { unfold rs_ok. destruct hs; rewrite !andb_true_iff; repeat split; lia. }
    cbn [andb]. assert (Z.abs (v + 27) - 27 = v) as -> by lia. rewrite Hr. reflexivity.
  Qed.

End Recover.

Section Scheme.
  Variables key pubkey : Type.
  Variable H : list N -> list N.
  Variable sign : key -> list N -> Z * Z * Z.
  Variable recover : list N -> Z -> Z -> Z -> option pubkey.
  Variable pub : key -> pubkey.
  Variable addr_of : pubkey -> list N.

  Notation recover_plain := (recover_plain pubkey recover addr_of).
  Notation sender := (sender pubkey H recover addr_of).
  Notation sign_tx := (sign_tx key H sign).
  Notation signer_hash := (signer_hash H).

  (* ---------- hypotheses on the abstract scheme ---------- *)
  Definition recover_sign : Prop :=
    forall k h, match sign k h with (r, s, v) => recover h r s v = Some (pub k) end.
  Definition sign_low_s : Prop :=
    forall k h, match sign k h with (r, s, v) => s <= secp_half_n end.
  Definition sign_range : Prop :=
    forall k h, match sign k h with (r, s, v) =>
      1 <= r < secp_n /\ 1 <= s < secp_n /\ (v = 0 \/ v = 1) end.

  Lemma decode_v_small (v : Z) : v = 0 \/ v = 1 -> decode_v v = v + 27.
  Proof. intros [->| ->]; reflexivity. Qed.

  (* guards of the inverse theorem *)
  Definition signer_wf (sg : signer) : Prop :=
    match sg with EIP155 c | Modern _ c => 0 < c | _ => True end.
  Definition sign_guard (sg : signer) (t : tx) : Prop :=
    signer_supports sg (t_type t) = true /\
    (is_legacy (t_type t) = false -> forall c, signer_chain_id sg = Some c ->
       t_chain t = 0 \/ t_chain t = c) /\
    (is_u256_type (t_type t) = true -> forall c, signer_chain_id sg = Some c -> c < two256).

  Lemma eip155_signed (c : Z) (t : tx) (r s v : Z) (pk : pubkey) :
    0 < c -> is_legacy (t_type t) = true ->
    recover (H (inner_preimage t c)) r s v = Some pk ->
    1 <= r < secp_n -> 1 <= s <= secp_half_n -> v = 0 \/ v = 1 ->
    eip155_sender pubkey H recover addr_of c (set_vrs t ((v + 35) mod 256 + c + c) r s)
      = ROk (addr_of pk).
  Proof.
    intros Hc Hl Hr Hrr Hs Hv. rewrite eip155_v_is_v_of by lia.
    assert (Hvo : v_of c v = v + 35 + 2 * c) by (unfold v_of; assert ((c =? 0) = false) as -> by lia; lia).
    unfold eip155_sender. cbn [t_type set_vrs t_v t_r t_s]. rewrite Hl. cbn [negb].
    unfold tx_protected, tx_chain_id. cbn [t_type set_vrs t_v].
    destruct (t_type t) eqn:Ety; try discriminate.
    rewrite is_protected_v_big by lia. cbn [negb].
    rewrite derive_chain_id_v_of by lia. rewrite Z.eqb_refl. cbn [negb].
    assert (v_of c v - c - c - 8 = v + 27) as -> by lia.
    apply recover_plain_signed; try assumption.
  Qed.

  Theorem sender_sign : recover_sign -> sign_low_s -> sign_range ->
    forall (sg : signer) (t : tx) (k : key), signer_wf sg -> sign_guard sg t ->
    exists t', sign_tx sg t k = ROk t' /\ same_signed_content t t' /\
               sender sg t' = ROk (addr_of (pub k)).
  Proof.
    intros HRS HLS HRG sg t k Hwf (Hsup & Hch & H256).
    pose proof secp_facts as F.
    unfold Signer.sign_tx. specialize (HRS k (signer_hash sg t)).
    specialize (HLS k (signer_hash sg t)). specialize (HRG k (signer_hash sg t)).
    destruct (sign k (signer_hash sg t)) as [[r s] v].
    destruct HRG as (Hr & Hs & Hv). assert (Hs' : 1 <= s <= secp_half_n) by lia.
    unfold Signer.signer_hash in HRS.
    destruct sg as [| |c|f c]; cbn [signer_supports signer_wf signer_chain_id] in *.
    - (* Frontier *)
      unfold with_signature, signature_values, frontier_sigvals. rewrite Hsup.
      rewrite decode_v_small by assumption. unfold set_signature_values.
      destruct (t_type t) eqn:Ety; try discriminate.
      eexists. split; [reflexivity|]. split; [split; reflexivity|].
      cbn [Signer.sender]. unfold frontier_sender. cbn [t_type set_vrs t_r t_s t_v]. rewrite Ety.
      cbn [is_legacy]. apply recover_plain_signed; assumption.
    - (* Homestead *)
      unfold with_signature, signature_values, frontier_sigvals. rewrite Hsup.
      rewrite decode_v_small by assumption. unfold set_signature_values.
      destruct (t_type t) eqn:Ety; try discriminate.
      eexists. split; [reflexivity|]. split; [split; reflexivity|].
      cbn [Signer.sender]. unfold homestead_sender. cbn [t_type set_vrs t_r t_s t_v]. rewrite Ety.
      cbn [is_legacy]. apply recover_plain_signed; assumption.
    - (* EIP155 *)
      unfold with_signature, signature_values, eip155_sigvals. rewrite Hsup.
      assert ((c =? 0) = false) as -> by lia. unfold set_signature_values.
      destruct (t_type t) eqn:Ety; try discriminate.
      eexists. split; [reflexivity|]. split; [split; reflexivity|].
      cbn [Signer.sender]. apply eip155_signed; try assumption; try lia. rewrite Ety. reflexivity.
    - (* modern *)
      unfold with_signature, signature_values, modern_sigvals. rewrite Hsup. cbn [negb].
      destruct (is_legacy (t_type t)) eqn:El.
      + unfold eip155_sigvals. rewrite El. assert ((c =? 0) = false) as -> by lia.
        unfold set_signature_values. destruct (t_type t) eqn:Ety; try discriminate.
        eexists. split; [reflexivity|]. split; [split; reflexivity|].
        cbn [Signer.sender]. unfold modern_sender. cbn [t_type set_vrs]. rewrite Ety.
        cbn [modern_supports negb is_legacy].
        apply eip155_signed; try assumption; try lia. rewrite Ety. reflexivity.
      + specialize (Hch eq_refl c eq_refl).
        assert (negb (t_chain t =? 0) && negb (t_chain t =? c) = false) as ->.
        { destruct Hch as [E|E]; rewrite E; rewrite ?Z.eqb_refl; cbn [negb andb];
            rewrite ?andb_false_r; reflexivity. }
        assert (Hfin : forall c' v' r' s', c' = c -> v' = v -> r' = r -> s' = s ->
                  sender (Modern f c) (set_chain_vrs t c' v' r' s') = ROk (addr_of (pub k))).
        { intros c' v' r' s' -> -> -> ->. cbn [Signer.sender]. unfold modern_sender.
          cbn [t_type set_chain_vrs t_v t_r t_s]. rewrite Hsup, El. cbn [negb].
          assert (tx_chain_id (set_chain_vrs t c v r s) = c) as ->.
          { unfold tx_chain_id. cbn [t_type set_chain_vrs t_chain].
            destruct (t_type t); try reflexivity; discriminate. }
          rewrite Z.eqb_refl. cbn [negb]. apply recover_plain_signed; assumption. }
        unfold set_signature_values.
        destruct (t_type t) eqn:Ety; try discriminate; cbn [is_u256_type] in H256.
        * eexists. split; [reflexivity|]. split; [split; reflexivity|].
          apply Hfin; reflexivity.
        * eexists. split; [reflexivity|]. split; [split; reflexivity|].
          apply Hfin; reflexivity.
        * specialize (H256 eq_refl c eq_refl).
          eexists. split; [reflexivity|]. split; [split; reflexivity|].
          apply Hfin; apply u256_from_big_small; lia.
        * specialize (H256 eq_refl c eq_refl).
          cbn [signer_chain_id]. rewrite u256_overflow_small by lia.
          eexists. split; [reflexivity|]. split; [split; reflexivity|].
          apply Hfin; apply u256_from_big_small; lia.
  Qed.


  (* ---------- recovering under ANOTHER signer ---------- *)
  (* a signature made by a signer without chain id (Frontier, Homestead) is
     unprotected and accepted by every signer; one made for chain id c is accepted by
     every signer for chain id c that supports the type (e.g. London-signed under Prague) *)
  Definition compatible (sg sg' : signer) (ty : txtype) : Prop :=
    signer_supports sg' ty = true /\
    match signer_chain_id sg with
    | None => True
    | Some c => signer_chain_id sg' = Some c
    end.

  Lemma unprotected_signed (sg' : signer) (t : tx) (r s v : Z) (pk : pubkey) :
    is_legacy (t_type t) = true ->
    recover (H (frontier_preimage t)) r s v = Some pk ->
    1 <= r < secp_n -> 1 <= s <= secp_half_n -> v = 0 \/ v = 1 ->
    sender sg' (set_vrs t (v + 27) r s) = ROk (addr_of pk).
  Proof.
    intros Hl Hr Hrr Hs Hv. rewrite sender_spec.
    assert (Hty : t_type (set_vrs t (v + 27) r s) = t_type t) by reflexivity.
    assert (Hp : tx_protected (set_vrs t (v + 27) r s) = false).
    { unfold tx_protected. rewrite Hty. destruct (t_type t); try discriminate.
      cbn [t_v set_vrs]. apply is_protected_v_false; lia. }
    assert (Hsup : signer_supports sg' (t_type t) = true).
    { destruct sg'; cbn [signer_supports]; try exact Hl.
      destruct (t_type t); try discriminate. reflexivity. }
    rewrite Hty, Hsup. cbn [negb].
    assert (chain_mismatch sg' (set_vrs t (v + 27) r s) = false) as ->.
    { destruct sg'; cbn [chain_mismatch]; try reflexivity; rewrite Hty, Hl, Hp; reflexivity. }
    assert (norm_v sg' (set_vrs t (v + 27) r s) = v + 27) as ->.
    { destruct sg'; cbn [norm_v]; try reflexivity; rewrite Hty, Hl, Hp; reflexivity. }
    assert (sender_preimage sg' (set_vrs t (v + 27) r s) = frontier_preimage t) as ->.
    { destruct sg'; cbn [sender_preimage]; try reflexivity; rewrite Hty, Hl, Hp; reflexivity. }
    cbn [t_r t_s set_vrs]. apply recover_plain_signed; assumption.
  Qed.

  Lemma typed_signed (f' : fork) (c : Z) (t : tx) (r s v : Z) (pk : pubkey) :
    is_legacy (t_type t) = false -> modern_supports f' (t_type t) = true ->
    recover (H (inner_preimage t c)) r s v = Some pk ->
    1 <= r < secp_n -> 1 <= s <= secp_half_n -> v = 0 \/ v = 1 ->
    sender (Modern f' c) (set_chain_vrs t c v r s) = ROk (addr_of pk).
  Proof.
    intros El Hsup Hr Hrr Hs Hv. cbn [Signer.sender]. unfold modern_sender.
    cbn [t_type set_chain_vrs t_v t_r t_s]. rewrite Hsup, El. cbn [negb].
    assert (tx_chain_id (set_chain_vrs t c v r s) = c) as ->.
    { unfold tx_chain_id. cbn [t_type set_chain_vrs t_chain].
      destruct (t_type t); try reflexivity; discriminate. }
    rewrite Z.eqb_refl. cbn [negb]. apply recover_plain_signed; assumption.
  Qed.

  Theorem sender_sign_compatible : recover_sign -> sign_low_s -> sign_range ->
    forall (sg sg' : signer) (t : tx) (k : key), signer_wf sg -> sign_guard sg t ->
    compatible sg sg' (t_type t) ->
    exists t', sign_tx sg t k = ROk t' /\ sender sg' t' = ROk (addr_of (pub k)).
  Proof.
    intros HRS HLS HRG sg sg' t k Hwf (Hsup & Hch & H256) (Hsup' & Hcomp).
    pose proof secp_facts as F.
    unfold Signer.sign_tx. specialize (HRS k (signer_hash sg t)).
    specialize (HLS k (signer_hash sg t)). specialize (HRG k (signer_hash sg t)).
    destruct (sign k (signer_hash sg t)) as [[r s] v].
    destruct HRG as (Hr & Hs & Hv). assert (Hs' : 1 <= s <= secp_half_n) by lia.
    unfold Signer.signer_hash in HRS.
    destruct (is_legacy (t_type t)) eqn:El.
    - (* legacy *)
      assert (Ety : t_type t = LegacyTx) by (destruct (t_type t); try discriminate; reflexivity).
      destruct sg as [| |c|f c]; cbn [signer_wf signer_chain_id signer_preimage] in *.
      + unfold with_signature, signature_values, frontier_sigvals. rewrite El.
        rewrite decode_v_small by assumption. unfold set_signature_values. rewrite Ety.
        eexists. split; [reflexivity|]. apply unprotected_signed; assumption.
      + unfold with_signature, signature_values, frontier_sigvals. rewrite El.
        rewrite decode_v_small by assumption. unfold set_signature_values. rewrite Ety.
        eexists. split; [reflexivity|]. apply unprotected_signed; assumption.
      + unfold with_signature, signature_values, eip155_sigvals. rewrite El.
        assert ((c =? 0) = false) as -> by lia. unfold set_signature_values. rewrite Ety.
        eexists. split; [reflexivity|].
        destruct sg' as [| |c'|f' c']; cbn [signer_chain_id] in Hcomp; try discriminate;
          inversion Hcomp; subst c'.
        * cbn [Signer.sender]. apply eip155_signed; try assumption.
        * cbn [Signer.sender]. unfold modern_sender. cbn [t_type set_vrs].
          cbn [signer_supports] in Hsup'. rewrite Hsup', El. cbn [negb].
          apply eip155_signed; try assumption.
      + unfold with_signature, signature_values, modern_sigvals.
        cbn [signer_supports] in Hsup. rewrite Hsup, El. cbn [negb].
        unfold eip155_sigvals. rewrite El.
        assert ((c =? 0) = false) as -> by lia. unfold set_signature_values. rewrite Ety.
        eexists. split; [reflexivity|].
        destruct sg' as [| |c'|f' c']; cbn [signer_chain_id] in Hcomp; try discriminate;
          inversion Hcomp; subst c'.
        * cbn [Signer.sender]. apply eip155_signed; try assumption.
        * cbn [Signer.sender]. unfold modern_sender. cbn [t_type set_vrs].
          cbn [signer_supports] in Hsup'. rewrite Hsup', El. cbn [negb].
          apply eip155_signed; try assumption.
    - (* typed: only modern signers sign and recover *)
      destruct sg as [| |c|f c]; cbn [signer_supports] in Hsup; try congruence.
      cbn [signer_wf signer_chain_id signer_preimage] in *.
      destruct sg' as [| |c'|f' c']; cbn [signer_supports signer_chain_id] in Hsup', Hcomp;
        try congruence. inversion Hcomp; subst c'.
      unfold with_signature, signature_values, modern_sigvals. rewrite Hsup, El. cbn [negb].
      specialize (Hch eq_refl c eq_refl).
      assert (negb (t_chain t =? 0) && negb (t_chain t =? c) = false) as ->.
      { destruct Hch as [E|E]; rewrite E; rewrite ?Z.eqb_refl; cbn [negb andb];
          rewrite ?andb_false_r; reflexivity. }
      assert (Hfin : forall c' v' r' s', c' = c -> v' = v -> r' = r -> s' = s ->
                sender (Modern f' c) (set_chain_vrs t c' v' r' s') = ROk (addr_of (pub k))).
      { intros c' v' r' s' -> -> -> ->. apply typed_signed; assumption. }
      unfold set_signature_values. cbn [signer_chain_id].
      destruct (t_type t) eqn:Ety; try discriminate; cbn [is_u256_type] in H256.
      + eexists. split; [reflexivity|]. apply Hfin; reflexivity.
      + eexists. split; [reflexivity|]. apply Hfin; reflexivity.
      + specialize (H256 eq_refl c eq_refl).
        eexists. split; [reflexivity|]. apply Hfin; apply u256_from_big_small; lia.
      + specialize (H256 eq_refl c eq_refl). rewrite u256_overflow_small by lia.
        eexists. split; [reflexivity|]. apply Hfin; apply u256_from_big_small; lia.
  Qed.
End Scheme.

(* ---------- which V values are admissible, for V >= 0 (what RLP / JSON can carry) ---------- *)

Definition expected_v (sg : signer) (t : tx) (v : Z) : Prop :=
  if is_legacy (t_type t) then
    match sg with
    | Frontier | Homestead => v = 27 \/ v = 28
    | EIP155 c | Modern _ c => v = 27 \/ v = 28 \/ v = 35 + 2 * c \/ v = 36 + 2 * c
    end
  else v = 0 \/ v = 1.

Lemma derive_chain_id_nonneg_inv (v c : Z) : 0 <= v -> 0 <= c -> v <> 27 -> v <> 28 ->
  derive_chain_id v = c -> 35 <= v -> v = 35 + 2 * c \/ v = 36 + 2 * c.
Proof.
  intros Hv Hc H27 H28 Hd H35. pose proof two64_val as T. unfold derive_chain_id in Hd.
  rewrite (bitlen_le _ 64) in Hd by lia. change (2 ^ 64) with 18446744073709551616 in Hd.
  rewrite Z.abs_eq in Hd by lia.
  destruct (v <? 18446744073709551616) eqn:E.
  - rewrite u64_small in Hd by (rewrite Z.abs_eq; lia). rewrite Z.abs_eq in Hd by lia.
    assert ((v =? 27) = false) as Ha by lia. assert ((v =? 28) = false) as Hb by lia.
    rewrite Ha, Hb in Hd. cbn [orb] in Hd. unfold sub64 in Hd. rewrite T in Hd.
    rewrite Z.mod_small in Hd by lia. lia.
  - rewrite Z.shiftr_div_pow2 in Hd by lia. change (2 ^ 1) with 2 in Hd. lia.
Qed.

Lemma derive_chain_id_small_v (v : Z) : 0 <= v < 35 -> v <> 27 -> v <> 28 ->
  9223372036854775000 < derive_chain_id v /\ v - 2 * derive_chain_id v - 8 < -1000.
Proof.
  intros Hv H27 H28. pose proof two64_val as T. unfold derive_chain_id.
  rewrite (bitlen_le _ 64) by lia. change (2 ^ 64) with 18446744073709551616.
  rewrite Z.abs_eq by lia. assert ((v <? 18446744073709551616) = true) as -> by lia.
  rewrite u64_small by (rewrite Z.abs_eq; lia). rewrite Z.abs_eq by lia.
  assert ((v =? 27) = false) as -> by lia. assert ((v =? 28) = false) as -> by lia.
  cbn [orb]. unfold sub64. rewrite T. lia.
Qed.

Theorem vb_ok_norm_v_iff (sg : signer) (t : tx) :
  0 <= t_v t -> (forall c, signer_chain_id sg = Some c -> 0 <= c) ->
  signer_supports sg (t_type t) = true -> chain_mismatch sg t = false ->
  (vb_ok (norm_v sg t) = true <-> expected_v sg t (t_v t)).
Proof.
  intros Hv Hc Hsup Hm. unfold vb_ok, expected_v. rewrite orb_true_iff, !Z.eqb_eq.
  assert (Hleg : forall c, 0 <= c ->
            (if tx_protected t then tx_chain_id t =? c else true) = true ->
            is_legacy (t_type t) = true ->
            (Z.abs (if tx_protected t then t_v t - c - c - 8 else t_v t) = 27 \/
             Z.abs (if tx_protected t then t_v t - c - c - 8 else t_v t) = 28 <->
             t_v t = 27 \/ t_v t = 28 \/ t_v t = 35 + 2 * c \/ t_v t = 36 + 2 * c)).
  { intros c Hc0 Hcm Hl. unfold tx_protected, tx_chain_id in *.
    destruct (t_type t); try discriminate.
    destruct (is_protected_v (t_v t)) eqn:Ep.
    - apply Z.eqb_eq in Hcm.
      assert (Hn : ~ (t_v t = 27 \/ t_v t = 28 \/ t_v t = 1 \/ t_v t = 0)).
      { intros Hx. apply is_protected_v_false in Hx; [congruence|assumption]. }
      destruct (Z.lt_ge_cases (t_v t) 35) as [Hlt|Hge].
      + destruct (derive_chain_id_small_v (t_v t)) as [Hbig Hneg]; try lia.
      + destruct (derive_chain_id_nonneg_inv (t_v t) c) as [E|E]; try lia.
    - apply is_protected_v_false in Ep; [|assumption]. lia. }
  destruct sg as [| |c|f c]; cbn [norm_v chain_mismatch signer_chain_id signer_supports] in *.
  - rewrite Hsup. lia.
  - rewrite Hsup. lia.
  - specialize (Hc c eq_refl). destruct (is_legacy (t_type t)) eqn:El.
    + apply Hleg; try assumption; try reflexivity.
      destruct (tx_protected t); [|reflexivity]. cbn [andb] in Hm.
      apply negb_false_iff in Hm. exact Hm.
    + lia.
  - specialize (Hc c eq_refl). destruct (is_legacy (t_type t)) eqn:El.
    + apply Hleg; try assumption; try reflexivity.
      destruct (tx_protected t); [|reflexivity]. cbn [andb] in Hm.
      apply negb_false_iff in Hm. exact Hm.
    + lia.
Qed.

(* ---------- WithSignature keeps every signed field ---------- *)
Theorem with_signature_preserves_fields (sg : signer) (t t' : tx) (r s v : Z) :
  with_signature sg t r s v = ROk t' ->
  same_signed_content t t' /\
  (is_legacy (t_type t) = true -> t_chain t' = t_chain t) /\
  (is_legacy (t_type t) = false -> exists c, signer_chain_id sg = Some c /\
     t_chain t' = if is_u256_type (t_type t) then u256_from_big c else c) /\
  exists r' s' v', signature_values sg t r s v = ROk (r', s', v') /\
    if is_u256_type (t_type t)
    then t_v t' = u256_from_big v' /\ t_r t' = u256_from_big r' /\ t_s t' = u256_from_big s'
    else t_v t' = v' /\ t_r t' = r' /\ t_s t' = s'.
Proof.
  unfold with_signature. destruct (signature_values sg t r s v) as [[[r' s'] v']|e]; [|discriminate].
  unfold set_signature_values.
  destruct (t_type t) eqn:Ety, (signer_chain_id sg) as [c|] eqn:Ec; cbn [is_legacy is_u256_type];
    try discriminate;
    try (destruct (u256_overflow c); [discriminate|]);
    intros E; inversion E; subst t'; cbn [t_type t_payload t_chain t_v t_r t_s set_vrs set_chain_vrs];
    (split; [split; reflexivity|]);
    (split; [intros; try discriminate; reflexivity|]);
    (split; [intros; try discriminate; try (exists c; split; reflexivity)|]);
    exists r', s', v'; repeat split; reflexivity.
Qed.

Theorem with_signature_preserves_hash (sg sg' : signer) (t t' : tx) (r s v : Z) :
  with_signature sg t r s v = ROk t' -> signer_preimage sg' t' = signer_preimage sg' t.
Proof.
  intros E. apply signer_preimage_same.
  exact (proj1 (with_signature_preserves_fields sg t t' r s v E)).
Qed.

(* the nil-chain-id store on a typed tx (Frontier/Homestead ChainID() = nil) is unreachable:
   those signers reject typed txs in SignatureValues *)
Theorem with_signature_no_nil_chain (sg : signer) (t : tx) (r s v : Z) :
  with_signature sg t r s v <> RErr PanicNilChainID.
Proof.
  unfold with_signature, signature_values, frontier_sigvals, modern_sigvals, eip155_sigvals,
    set_signature_values.
  destruct sg as [| |c|f c]; cbn [signer_chain_id];
    destruct (t_type t) eqn:Ety;
    cbn -[Z.add Z.modulo Z.mul Z.eqb u256_from_big u256_overflow decode_v];
    repeat match goal with
           | |- context [if ?b then _ else _] =>
               destruct b; cbn -[Z.add Z.modulo Z.mul Z.eqb u256_from_big u256_overflow decode_v]
           end; discriminate.
Qed.

(* ---------- a toy scheme satisfying the hypotheses: non-vacuity and refutation witnesses ---------- *)
Definition toy_m : Z := secp_n - 1.
Definition toy_hv (h : list N) : Z := Z.of_N (be_decode h).
Definition toy_pub (k : N) : Z := Z.of_N k mod toy_m.
Definition toy_sign (k : N) (h : list N) : Z * Z * Z :=
  (1 + (toy_pub k + toy_hv h) mod toy_m, 1, 0).
Definition toy_recover (h : list N) (r s v : Z) : option Z := Some ((r - 1 - toy_hv h) mod toy_m).
Definition toy_addr (pk : Z) : list N := [Z.to_N pk].
Definition toy_H (b : list N) : list N := b.

Lemma toy_scheme_ok :
  recover_sign N Z toy_sign toy_recover toy_pub /\ sign_low_s N toy_sign /\ sign_range N toy_sign.
Proof.
  pose proof secp_facts as F.
  assert (Hm : 0 < toy_m) by (unfold toy_m; lia).
  split; [|split]; intros k h; unfold toy_sign.
  - unfold toy_recover. f_equal.
    replace (1 + (toy_pub k + toy_hv h) mod toy_m - 1 - toy_hv h)
      with ((toy_pub k + toy_hv h) mod toy_m - toy_hv h) by lia.
    rewrite Zminus_mod_idemp_l.
    replace (toy_pub k + toy_hv h - toy_hv h) with (toy_pub k) by lia.
    unfold toy_pub. apply Z.mod_mod. lia.
  - lia.
  - pose proof (Z.mod_pos_bound (toy_pub k + toy_hv h) toy_m Hm). unfold toy_m in *. lia.
Qed.

Definition toy_sender := sender Z toy_H toy_recover toy_addr.
Definition toy_sign_tx := sign_tx N toy_H toy_sign.

Local Open Scope N_scope.
Definition zero_payload : payload :=
  {| p_nonce := 0; p_price := 0; p_feecap := 0; p_gas := 0; p_to := None; p_value := 0;
     p_data := []; p_access := []; p_blobfeecap := 0; p_blobhashes := []; p_auth := [] |}.
Definition sample_payload : payload :=
  {| p_nonce := 7; p_price := 1000000000; p_feecap := 2000000000; p_gas := 21000;
     p_to := Some [1;2;3;4;5;6;7;8;9;10;11;12;13;14;15;16;17;18;19;20]; p_value := 12345;
     p_data := [222;173;190;239];
     p_access := [([9;9;9;9;9;9;9;9;9;9;9;9;9;9;9;9;9;9;9;9], [[1]; [2]])];
     p_blobfeecap := 3; p_blobhashes := [[1;0;0;0]]; p_auth := [] |}.
Local Open Scope Z_scope.
Definition mk_tx (ty : txtype) (p : payload) (c v r s : Z) : tx :=
  {| t_type := ty; t_payload := p; t_chain := c; t_v := v; t_r := r; t_s := s |}.

(* sign and recover under the toy scheme *)
Definition toy_roundtrip (sg : signer) (t : tx) (k : N) : res (list N) :=
  match toy_sign_tx sg t k with
  | ROk t' => toy_sender sg t'
  | RErr e => RErr e
  end.

Definition big_chain : Z := 2 ^ 64 + 5.
Definition nonvac_results : list (res (list N)) :=
  [ toy_roundtrip Frontier (mk_tx LegacyTx sample_payload 0 5 6 7) 5;
    toy_roundtrip Homestead (mk_tx LegacyTx sample_payload 0 5 6 7) 5;
    toy_roundtrip (EIP155 1337) (mk_tx LegacyTx sample_payload 0 5 6 7) 5;
    toy_roundtrip (Modern Berlin big_chain) (mk_tx AccessListTx sample_payload 0 1 2 3) 5;
    toy_roundtrip (Modern London big_chain) (mk_tx DynamicFeeTx sample_payload big_chain 0 0 0) 5;
    toy_roundtrip (Modern Cancun big_chain) (mk_tx BlobTx sample_payload 0 0 0 0) 5;
    toy_roundtrip (Modern Prague big_chain) (mk_tx SetCodeTx sample_payload 0 0 0 0) 5;
    toy_roundtrip (Modern Prague big_chain) (mk_tx LegacyTx sample_payload 0 0 0 0) 5 ].

(* the inverse theorem needs chain id <> 0 for EIP155Signer: with chain id 0 the
   signature is made over the 9-field hash but V = 27/28 makes Sender recover over
   the 6-field Frontier hash *)
Theorem sender_sign_eip155_chain0_refuted :
  exists (t : tx) (k : N) (t' : tx),
    signer_supports (EIP155 0) (t_type t) = true /\
    toy_sign_tx (EIP155 0) t k = ROk t' /\
    toy_sender (EIP155 0) t' <> ROk (toy_addr (toy_pub k)).
Proof.
  exists (mk_tx LegacyTx zero_payload 0 0 0 0), 5%N.
  destruct (toy_sign_tx (EIP155 0) (mk_tx LegacyTx zero_payload 0 0 0 0) 5) as [t'|e] eqn:E.
  - exists t'. split; [reflexivity|]. split; [reflexivity|].
    assert (Hs : toy_roundtrip (EIP155 0) (mk_tx LegacyTx zero_payload 0 0 0 0) 5
                 = toy_sender (EIP155 0) t') by (unfold toy_roundtrip; rewrite E; reflexivity).
    rewrite <- Hs.
    assert (Hc : toy_roundtrip (EIP155 0) (mk_tx LegacyTx zero_payload 0 0 0 0) 5
                 = ROk [951566049967021995589637%N]) by (vm_compute; reflexivity).
    rewrite Hc. vm_compute. discriminate.
  - exfalso. vm_compute in E. discriminate.
Qed.

(* the V characterisation needs V >= 0: recoverPlain / isProtectedV look at |V| *)
Theorem vb_ok_negative_v_refuted :
  exists (sg : signer) (t : tx),
    t_v t < 0 /\ signer_supports sg (t_type t) = true /\ chain_mismatch sg t = false /\
    rs_ok (t_r t) (t_s t) (homestead_flag sg) = true /\
    vb_ok (norm_v sg t) = true /\ ~ expected_v sg t (t_v t) /\
    exists a, toy_sender sg t = ROk a.
Proof.
  exists Homestead, (mk_tx LegacyTx zero_payload 0 (-27) 1 1).
  pose proof secp_facts as F.
  split; [reflexivity|]. split; [reflexivity|]. split; [reflexivity|].
  split. { unfold rs_ok. cbn [t_r t_s mk_tx homestead_flag]. lia. }
  split; [reflexivity|]. split.
  - unfold expected_v. cbn. lia.
  - destruct (toy_sender Homestead (mk_tx LegacyTx zero_payload 0 (-27) 1 1)) as [a|e] eqn:E.
    + exists a. reflexivity.
    + exfalso. vm_compute in E. discriminate.
Qed.

Lemma nonvac_results_ok : nonvac_results = repeat (ROk [5%N]) 8.
Proof. vm_compute. reflexivity. Qed.

(* the signature hash depends neither on V, R, S nor on the tx's own chain-id field *)
Theorem sig_hash_indep_vrs (H : list N -> list N) (sg : signer) (t : tx) (c v r s : Z) :
  signer_hash H sg (set_chain_vrs t c v r s) = signer_hash H sg t /\
  signer_hash H sg (set_vrs t v r s) = signer_hash H sg t.
Proof.
  unfold signer_hash. rewrite signer_preimage_set_chain_vrs, signer_preimage_set_vrs. split; reflexivity.
Qed.
