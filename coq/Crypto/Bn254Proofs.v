(* Crypto/Bn254Proofs.v — lemmas about the BN254 model (Crypto/Bn254.v).
   Proved: the decoding decision is total and accepts only valid points; encode/decode
   round trip; CLOSURE of the affine formulas on the curve (a returned point satisfies
   y^2 = x^3 + 3 with reduced coordinates).  NOT proved: that the inversion never fails
   on a non-zero element (needs primality of P, not established in Coq), and the group
   law (associativity etc.). *)
From GV Require Import Lib.Tactics Crypto.Bn254.
From Coq Require Import Zdiv Setoid Morphisms.
Local Open Scope Z_scope.

Lemma P_pos : 0 < P.
Proof. reflexivity. Qed.

Lemma some_inj {A} (a b : A) : Some a = Some b -> a = b.
Proof.
  intros E. change (match Some a with Some x => x | None => a end = b).
  rewrite E. reflexivity.
Qed.
Lemma ok_inj {A} (a b : A) : @Ok A a = Ok b -> a = b.
Proof.
  intros E. change (match Ok a with Ok x => x | Err _ => a end = b).
  rewrite E. reflexivity.
Qed.

(* ---------- congruence modulo P as a setoid ---------- *)
Definition cong (a b : Z) : Prop := a mod P = b mod P.
Notation "a == b" := (cong a b) (at level 70).

Global Instance cong_equiv : Equivalence cong.
Proof. split; unfold cong; congruence. Qed.
Global Instance cong_add : Proper (cong ==> cong ==> cong) Z.add.
Proof. exact (Zplus_eqm P). Qed.
Global Instance cong_mul : Proper (cong ==> cong ==> cong) Z.mul.
Proof. exact (Zmult_eqm P). Qed.
Global Instance cong_sub : Proper (cong ==> cong ==> cong) Z.sub.
Proof. exact (Zminus_eqm P). Qed.
Lemma cong_mod a : a mod P == a.
Proof. exact (Zmod_eqm P a). Qed.
Lemma cong_iff a b : a == b <-> a mod P = b mod P.
Proof. reflexivity. Qed.
Lemma cong_ring a b : a = b -> a == b.
Proof. intros ->. reflexivity. Qed.
Global Opaque cong.

(* ---------- field operations ---------- *)
Lemma norm_gen m d : 0 < m ->
  (if d <? 0 then (let e := d + m in if e <? 0 then d mod m else e)
   else if d <? m then d
   else (let e := d - m in if e <? m then e else d mod m)) = d mod m.
Proof.
  intros Hm. cbv zeta.
  destruct (d <? 0) eqn:E0.
  - destruct (d + m <? 0) eqn:E1; [reflexivity|].
    apply Z.mod_unique with (-1); lia.
  - destruct (d <? m) eqn:E1.
    + symmetry. apply Z.mod_small. lia.
    + destruct (d - m <? m) eqn:E2; [|reflexivity].
      apply Z.mod_unique with 1; lia.
Qed.

Lemma norm_mod d : norm d = d mod P.
Proof. unfold norm. apply norm_gen. exact P_pos. Qed.

Lemma mod_range a : 0 <= a mod P < P.
Proof. apply Z.mod_pos_bound. exact P_pos. Qed.

Lemma fadd_cong a b : fadd a b == a + b.
Proof. unfold fadd. rewrite norm_mod. apply cong_mod. Qed.
Lemma fsub_cong a b : fsub a b == a - b.
Proof. unfold fsub. rewrite norm_mod. apply cong_mod. Qed.
Lemma fmul_cong a b : fmul a b == a * b.
Proof. unfold fmul. apply cong_mod. Qed.

Lemma in_field_iff a : in_field a = true <-> 0 <= a < P.
Proof. unfold in_field. rewrite andb_true_iff, Z.leb_le, Z.ltb_lt. reflexivity. Qed.

Lemma fadd_field a b : in_field (fadd a b) = true.
Proof. apply in_field_iff. unfold fadd. rewrite norm_mod. apply mod_range. Qed.
Lemma fsub_field a b : in_field (fsub a b) = true.
Proof. apply in_field_iff. unfold fsub. rewrite norm_mod. apply mod_range. Qed.
Lemma fmul_field a b : in_field (fmul a b) = true.
Proof. apply in_field_iff. unfold fmul. apply mod_range. Qed.

(* the inverse is correct whenever it is returned (checked by the model itself) *)
Lemma finv_spec a i : finv a = Some i -> a * i == 1 /\ in_field i = true.
Proof.
  unfold finv. destruct (a mod P =? 0); [discriminate|]. cbv zeta.
  destruct (fmul a (binv a) =? 1) eqn:E; [|discriminate].
  intros H. apply some_inj in H. subst i. apply Z.eqb_eq in E. split.
  - rewrite <- fmul_cong. rewrite E. reflexivity.
  - apply in_field_iff. unfold binv. apply mod_range.
Qed.

(* ---------- the curve equation ---------- *)
Lemma on_curve_iff x y : on_curve_xy x y = true <-> y * y == x * x * x + 3.
Proof.
  unfold on_curve_xy. rewrite Z.eqb_eq.
  assert (E1 : fmul y y = (y * y) mod P) by reflexivity.
  assert (E2 : fadd (fmul (fmul x x) x) 3 = (x * x * x + 3) mod P).
  { unfold fadd. rewrite norm_mod. apply cong_iff.
    rewrite !fmul_cong. reflexivity. }
  rewrite E1, E2. symmetry. apply cong_iff.
Qed.

(* chord: the third intersection point of the line through two curve points *)
Lemma chord_core x1 y1 x2 y2 i lam :
  y1 * y1 == x1 * x1 * x1 + 3 -> y2 * y2 == x2 * x2 * x2 + 3 ->
  (x2 - x1) * i == 1 -> lam == (y2 - y1) * i ->
  (lam * (x1 - (lam * lam - x1 - x2)) - y1) * (lam * (x1 - (lam * lam - x1 - x2)) - y1)
  == (lam * lam - x1 - x2) * (lam * lam - x1 - x2) * (lam * lam - x1 - x2) + 3.
Proof.
  intros E1 E2 Hi Hl.
  set (d := x2 - x1) in *.
  assert (Hs : lam * d == y2 - y1).
  { rewrite Hl. transitivity ((y2 - y1) * (d * i)); [apply cong_ring; ring|].
    rewrite Hi. apply cong_ring; ring. }
  set (T := 2 * y1 * lam + lam * lam * d - (x2 * x2 + x1 * x2 + x1 * x1)).
  assert (HdT : d * T == 0).
  { transitivity ((lam * d + y1) * (lam * d + y1) - y1 * y1 - (x2 * x2 * x2 - x1 * x1 * x1)).
    { apply cong_ring; unfold T, d; ring. }
    rewrite Hs.
    transitivity (y2 * y2 - y1 * y1 - (x2 * x2 * x2 - x1 * x1 * x1)); [apply cong_ring; ring|].
    rewrite E1, E2. apply cong_ring; ring. }
  assert (HT : T == 0).
  { transitivity (1 * T); [apply cong_ring; ring|].
    rewrite <- Hi. transitivity (i * (d * T)); [apply cong_ring; ring|].
    rewrite HdT. apply cong_ring; ring. }
  set (x3 := lam * lam - x1 - x2).
  transitivity (T * (x3 - x1) + (y1 * y1 - (x1 * x1 * x1 + 3)) + (x3 * x3 * x3 + 3)).
  { apply cong_ring. unfold x3, T, d. ring. }
  rewrite HT, E1. apply cong_ring; ring.
Qed.

(* tangent *)
Lemma tangent_core x1 y1 i lam :
  y1 * y1 == x1 * x1 * x1 + 3 -> (y1 + y1) * i == 1 -> lam == 3 * (x1 * x1) * i ->
  (lam * (x1 - (lam * lam - x1 - x1)) - y1) * (lam * (x1 - (lam * lam - x1 - x1)) - y1)
  == (lam * lam - x1 - x1) * (lam * lam - x1 - x1) * (lam * lam - x1 - x1) + 3.
Proof.
  intros E1 Hi Hl.
  set (T := 2 * y1 * lam - 3 * (x1 * x1)).
  assert (HT : T == 0).
  { unfold T. rewrite Hl.
    transitivity (3 * (x1 * x1) * ((y1 + y1) * i) - 3 * (x1 * x1)); [apply cong_ring; ring|].
    rewrite Hi. apply cong_ring; ring. }
  set (x3 := lam * lam - x1 - x1).
  transitivity (T * (x3 - x1) + (y1 * y1 - (x1 * x1 * x1 + 3)) + (x3 * x3 * x3 + 3)).
  { apply cong_ring. unfold x3, T. ring. }
  rewrite HT, E1. apply cong_ring; ring.
Qed.

(* ---------- closure of the model's operations ---------- *)
Lemma valid_aff x y :
  g1_valid (Aff x y) = true <-> in_field x = true /\ in_field y = true /\ y * y == x * x * x + 3.
Proof.
  cbn [g1_valid]. rewrite !andb_true_iff, on_curve_iff. tauto.
Qed.

Lemma g1_double_valid p r : g1_valid p = true -> g1_double p = Some r -> g1_valid r = true.
Proof.
  destruct p as [|x y]; cbn [g1_double].
  - intros _ H. apply (f_equal (fun o => match o with Some q => g1_valid q | None => true end)) in H.
    symmetry. exact H.
  - intros Hv. apply valid_aff in Hv. destruct Hv as (_ & _ & E1).
    destruct (y =? 0).
    { intros H. apply (f_equal (fun o => match o with Some q => g1_valid q | None => true end)) in H.
      symmetry. exact H. }
    destruct (finv (fadd y y)) as [i|] eqn:Ei; [|discriminate].
    destruct (finv_spec _ _ Ei) as [Hi _]. rewrite fadd_cong in Hi.
    set (lam := fmul (fmul 3 (fmul x x)) i).
    assert (Hl : lam == 3 * (x * x) * i) by (unfold lam; rewrite !fmul_cong; reflexivity).
    intros H. apply some_inj in H. rewrite <- H. apply valid_aff. split; [apply fsub_field|]. split; [apply fsub_field|].
    repeat (rewrite fsub_cong || rewrite fmul_cong).
    exact (tangent_core x y i lam E1 Hi Hl).
Qed.

Lemma g1_add_valid p q r :
  g1_valid p = true -> g1_valid q = true -> g1_add p q = Some r -> g1_valid r = true.
Proof.
  destruct p as [|x1 y1], q as [|x2 y2]; cbn [g1_add]; intros Hp Hq H;
    try (apply (f_equal (fun o => match o with Some t => g1_valid t | None => true end)) in H;
         cbv beta iota in H; rewrite <- H; assumption).
  destruct (x1 =? x2).
  { destruct (y1 =? y2).
    - exact (g1_double_valid _ _ Hp H).
    - apply (f_equal (fun o => match o with Some t => g1_valid t | None => true end)) in H.
      symmetry. exact H. }
  apply valid_aff in Hp. destruct Hp as (_ & _ & E1).
  apply valid_aff in Hq. destruct Hq as (_ & _ & E2).
  destruct (finv (fsub x2 x1)) as [i|] eqn:Ei; [|discriminate].
  destruct (finv_spec _ _ Ei) as [Hi _]. rewrite fsub_cong in Hi.
  set (lam := fmul (fsub y2 y1) i) in *.
  assert (Hl : lam == (y2 - y1) * i) by (unfold lam; rewrite fmul_cong, fsub_cong; reflexivity).
  apply some_inj in H. rewrite <- H. apply valid_aff. split; [apply fsub_field|]. split; [apply fsub_field|].
  repeat (rewrite fsub_cong || rewrite fmul_cong).
  exact (chord_core x1 y1 x2 y2 i lam E1 E2 Hi Hl).
Qed.

Lemma g1_mul_pos_valid k : forall p r,
  g1_valid p = true -> g1_mul_pos k p = Some r -> g1_valid r = true.
Proof.
  induction k as [k IH|k IH|]; intros p r Hp; cbn [g1_mul_pos].
  - destruct (g1_mul_pos k p) as [t|] eqn:Et; [|discriminate].
    destruct (g1_double t) as [d|] eqn:Ed; [|discriminate].
    intros H. apply (g1_add_valid d p r); [|exact Hp|exact H].
    apply (g1_double_valid t d); [|exact Ed]. apply (IH p t Hp Et).
  - destruct (g1_mul_pos k p) as [t|] eqn:Et; [|discriminate].
    intros H. apply (g1_double_valid t r); [|exact H]. apply (IH p t Hp Et).
  - intros H. apply some_inj in H. rewrite <- H. exact Hp.
Qed.

Lemma g1_mul_valid k p r : g1_valid p = true -> g1_mul k p = Some r -> g1_valid r = true.
Proof.
  destruct k as [|k]; cbn [g1_mul].
  - intros _ H. apply (f_equal (fun o => match o with Some t => g1_valid t | None => true end)) in H.
    symmetry. exact H.
  - apply g1_mul_pos_valid.
Qed.

(* ---------- big-endian fixed-width numbers ---------- *)
Local Open Scope N_scope.

Lemma be_num_snoc b : forall acc x, be_num acc (b ++ [x]) = be_num acc b * 256 + x.
Proof. induction b as [|y b IH]; intros acc x; cbn; [reflexivity|apply IH]. Qed.

Lemma be_fixed_length k : forall n, length (be_fixed k n) = k.
Proof.
  induction k as [|k IH]; intros n; cbn [be_fixed]; [reflexivity|].
  rewrite app_length, IH. cbn. lia.
Qed.

Lemma be_num_fixed k : forall n, be_num 0 (be_fixed k n) = n mod 256 ^ N.of_nat k.
Proof.
  induction k as [|k IH]; intros n.
  - cbn. rewrite N.mod_1_r. reflexivity.
  - cbn [be_fixed]. rewrite be_num_snoc, IH.
    rewrite Nat2N.inj_succ, N.pow_succ_r'.
    rewrite (N.mod_mul_r n 256 (256 ^ N.of_nat k)); [lia|discriminate|].
    apply N.pow_nonzero. discriminate.
Qed.

Lemma all_zero_be_num b : all_zero b = true -> be_num 0 b = 0.
Proof.
  unfold all_zero. induction b as [|x b IH]; cbn; [reflexivity|].
  intros H. apply andb_true_iff in H. destruct H as [Hx Hb].
  apply N.eqb_eq in Hx. subst x. cbn. apply IH. exact Hb.
Qed.

Lemma all_zero_app a b : all_zero (a ++ b) = all_zero a && all_zero b.
Proof. unfold all_zero. apply forallb_app. Qed.

Lemma P_lt_256_32 : (Z.to_N P < 256 ^ 32)%N.
Proof. apply N.ltb_lt. vm_compute. reflexivity. Qed.

Lemma be32_round x : (0 <= x < P)%Z -> Z.of_N (be_num 0 (be_fixed 32 (Z.to_N x))) = x.
Proof.
  intros Hx. rewrite be_num_fixed. change (N.of_nat 32) with 32.
  rewrite N.mod_small.
  - apply Z2N.id. lia.
  - apply N.lt_trans with (Z.to_N P); [|exact P_lt_256_32].
    apply Z2N.inj_lt; lia.
Qed.

(* ---------- decoding ---------- *)
Definition dec_x (buf : list N) : Z := Z.of_N (be_num 0 (firstn 32 (firstn 64 buf))).
Definition dec_y (buf : list N) : Z := Z.of_N (be_num 0 (skipn 32 (firstn 64 buf))).

(* complete characterisation of the decoding decision: every byte string falls in
   exactly one class; accepted points are valid (reduced coordinates, on the curve) *)
Lemma g1_decode_total buf :
  match g1_decode buf with
  | Ok p => (64 <= length buf)%nat /\ g1_valid p = true /\
            (p = Inf <-> all_zero (firstn 64 buf) = true) /\
            (p <> Inf -> p = Aff (dec_x buf) (dec_y buf))
  | Err ESize => (length buf < 64)%nat
  | Err ECoord => (64 <= length buf)%nat /\ all_zero (firstn 64 buf) = false /\
                  (P <= dec_x buf \/ P <= dec_y buf)%Z
  | Err ECurve => (64 <= length buf)%nat /\ all_zero (firstn 64 buf) = false /\
                  (dec_x buf < P)%Z /\ (dec_y buf < P)%Z /\
                  on_curve_xy (dec_x buf) (dec_y buf) = false
  | Err EInternal => False
  end.
Proof.
  unfold g1_decode. fold (dec_x buf). fold (dec_y buf).
  destruct (length buf <? 64)%nat eqn:EL.
  { apply Nat.ltb_lt in EL. exact EL. }
  apply Nat.ltb_ge in EL.
  destruct (all_zero (firstn 64 buf)) eqn:EZ.
  { split; [exact EL|]. split; [reflexivity|]. split; [tauto|]. intros H; congruence. }
  destruct (dec_x buf <? P)%Z eqn:EX; cbn [negb].
  2:{ apply Z.ltb_ge in EX. auto. }
  destruct (dec_y buf <? P)%Z eqn:EY; cbn [negb].
  2:{ apply Z.ltb_ge in EY. auto. }
  apply Z.ltb_lt in EX. apply Z.ltb_lt in EY.
  destruct (on_curve_xy (dec_x buf) (dec_y buf)) eqn:EC; cbn [negb].
  2:{ auto. }
  split; [exact EL|]. split.
  - cbn [g1_valid]. rewrite EC. unfold in_field.
    assert (0 <= dec_x buf)%Z by (unfold dec_x; lia).
    assert (0 <= dec_y buf)%Z by (unfold dec_y; lia).
    rewrite !andb_true_iff, !Z.leb_le, !Z.ltb_lt. auto.
  - split; [split; intros H; discriminate|]. intros _. reflexivity.
Qed.

Lemma g1_decode_valid buf p : g1_decode buf = Ok p -> g1_valid p = true.
Proof.
  intros H. pose proof (g1_decode_total buf) as T. rewrite H in T. tauto.
Qed.

Lemma g1_encode_length p : length (g1_encode p) = 64%nat.
Proof.
  destruct p; cbn [g1_encode].
  - apply repeat_length.
  - rewrite app_length, !be_fixed_length. reflexivity.
Qed.

(* Marshal then Unmarshal is the identity on valid points *)
Lemma g1_encode_decode p : g1_valid p = true -> g1_decode (g1_encode p) = Ok p.
Proof.
  destruct p as [|x y]; intros Hv.
  - vm_compute. reflexivity.
  - apply valid_aff in Hv. destruct Hv as (Hx & Hy & Hc).
    apply in_field_iff in Hx. apply in_field_iff in Hy.
    unfold g1_decode. rewrite g1_encode_length. cbn [Nat.ltb Nat.leb].
    change (g1_encode (Aff x y)) with (be_fixed 32 (Z.to_N x) ++ be_fixed 32 (Z.to_N y)).
    assert (L1 : length (be_fixed 32 (Z.to_N x)) = 32%nat) by apply be_fixed_length.
    assert (L2 : length (be_fixed 32 (Z.to_N y)) = 32%nat) by apply be_fixed_length.
    set (bx := be_fixed 32 (Z.to_N x)) in *. set (by_ := be_fixed 32 (Z.to_N y)) in *.
    assert (F64 : firstn 64 (bx ++ by_) = bx ++ by_).
    { apply firstn_all2. rewrite app_length. lia. }
    rewrite F64.
    assert (F32 : firstn 32 (bx ++ by_) = bx).
    { rewrite <- L1. rewrite firstn_app, Nat.sub_diag, firstn_all, firstn_O. apply app_nil_r. }
    assert (S32 : skipn 32 (bx ++ by_) = by_).
    { rewrite <- L1. rewrite skipn_app, Nat.sub_diag, skipn_all. reflexivity. }
    rewrite F32, S32.
    assert (Ex : Z.of_N (be_num 0 bx) = x) by (apply be32_round; exact Hx).
    assert (Ey : Z.of_N (be_num 0 by_) = y) by (apply be32_round; exact Hy).
    rewrite Ex, Ey.
    destruct (all_zero (bx ++ by_)) eqn:EZ.
    { exfalso. rewrite all_zero_app in EZ. apply andb_true_iff in EZ. destruct EZ as [Z1 Z2].
      apply all_zero_be_num in Z1. apply all_zero_be_num in Z2.
      rewrite Z1 in Ex. rewrite Z2 in Ey. cbn in Ex, Ey. subst x y.
      apply cong_iff in Hc. vm_compute in Hc. discriminate Hc. }
    assert (EX : (x <? P)%Z = true) by (apply Z.ltb_lt; lia).
    assert (EY : (y <? P)%Z = true) by (apply Z.ltb_lt; lia).
    rewrite EX, EY. cbn [negb].
    apply on_curve_iff in Hc. rewrite Hc. reflexivity.
Qed.

(* the precompile entry points return 64 bytes that decode to a valid point *)
Lemma bn_add_run_ok input out :
  bn_add_run input = Ok out ->
  exists r, out = g1_encode r /\ g1_valid r = true /\ g1_decode out = Ok r.
Proof.
  unfold bn_add_run.
  destruct (g1_decode (get_data input 0 64)) as [x|] eqn:Ex; [|discriminate].
  destruct (g1_decode (get_data input 64 64)) as [y|] eqn:Ey; [|discriminate].
  destruct (g1_add x y) as [r|] eqn:Er; [|discriminate].
  intros H. exists r.
  assert (E : g1_encode r = out) by (apply ok_inj; exact H).
  assert (Hv : g1_valid r = true).
  { apply (g1_add_valid x y r); [exact (g1_decode_valid _ _ Ex)|exact (g1_decode_valid _ _ Ey)|exact Er]. }
  split; [symmetry; exact E|]. split; [exact Hv|]. rewrite <- E. apply g1_encode_decode. exact Hv.
Qed.

Lemma bn_mul_run_ok input out :
  bn_mul_run input = Ok out ->
  exists r, out = g1_encode r /\ g1_valid r = true /\ g1_decode out = Ok r.
Proof.
  unfold bn_mul_run.
  destruct (g1_decode (get_data input 0 64)) as [x|] eqn:Ex; [|discriminate].
  destruct (g1_mul (be_num 0 (get_data input 64 32)) x) as [r|] eqn:Er; [|discriminate].
  intros H. exists r.
  assert (E : g1_encode r = out) by (apply ok_inj; exact H).
  assert (Hv : g1_valid r = true).
  { apply (g1_mul_valid (be_num 0 (get_data input 64 32)) x r); [exact (g1_decode_valid _ _ Ex)|exact Er]. }
  split; [symmetry; exact E|]. split; [exact Hv|]. rewrite <- E. apply g1_encode_decode. exact Hv.
Qed.

(* G2: the modelled checks accept only points with reduced coordinates on the twist *)
Lemma g2_checks_sound buf x y :
  g2_decode_checks buf = G2OnTwist x y ->
  on_twist x y = true /\
  in_field (fst x) = true /\ in_field (snd x) = true /\
  in_field (fst y) = true /\ in_field (snd y) = true.
Proof.
  unfold g2_decode_checks.
  destruct (length buf <? 128)%nat; [discriminate|].
  destruct (all_zero (firstn 128 buf)); [discriminate|].
  set (xa1 := Z.of_N (be_num 0 (firstn 32 (firstn 128 buf)))).
  set (xa0 := Z.of_N (be_num 0 (firstn 32 (skipn 32 (firstn 128 buf))))).
  set (ya1 := Z.of_N (be_num 0 (firstn 32 (skipn 64 (firstn 128 buf))))).
  set (ya0 := Z.of_N (be_num 0 (skipn 96 (firstn 128 buf)))).
  destruct (xa1 <? P)%Z eqn:E1; cbn [negb]; [|discriminate].
  destruct (xa0 <? P)%Z eqn:E2; cbn [negb]; [|discriminate].
  destruct (ya1 <? P)%Z eqn:E3; cbn [negb]; [|discriminate].
  destruct (ya0 <? P)%Z eqn:E4; cbn [negb]; [|discriminate].
  destruct (on_twist (xa0, xa1) (ya0, ya1)) eqn:ET; cbn [negb]; [|discriminate].
  intros H.
  assert (Hx : (xa0, xa1) = x).
  { exact (f_equal (fun c => match c with G2OnTwist a _ => a | _ => x end) H). }
  assert (Hy : (ya0, ya1) = y).
  { exact (f_equal (fun c => match c with G2OnTwist _ b => b | _ => y end) H). }
  subst x y. cbn [fst snd]. split; [exact ET|].
  unfold in_field. rewrite E1, E2, E3, E4.
  assert (0 <= xa1)%Z by (unfold xa1; lia). assert (0 <= xa0)%Z by (unfold xa0; lia).
  assert (0 <= ya1)%Z by (unfold ya1; lia). assert (0 <= ya0)%Z by (unfold ya0; lia).
  repeat split; apply andb_true_iff; split; try reflexivity; apply Z.leb_le; assumption.
Qed.

(* non-vacuity checker used by Properties/C05.v: the generator (1,2) is valid, its
   double and triple are computed (inversions succeed) and are valid, distinct points;
   encode/decode round-trips; Order * G = infinity *)
Local Open Scope Z_scope.
Definition g1_eqb (a b : g1) : bool :=
  match a, b with
  | Inf, Inf => true
  | Aff x y, Aff x' y' => (x =? x') && (y =? y')
  | _, _ => false
  end.
Definition bn_nonvacuous : bool :=
  let g := Aff 1 2 in
  g1_valid g &&
  match g1_double g with
  | Some d =>
      g1_valid d && negb (g1_eqb d g) && negb (g1_eqb d Inf) &&
      match g1_add d g, g1_mul 3 g with
      | Some t, Some t' => g1_valid t && g1_eqb t t' && negb (g1_eqb t d) &&
          match g1_decode (g1_encode t) with Ok t'' => g1_eqb t t'' | Err _ => false end
      | _, _ => false
      end
  | None => false
  end &&
  match g1_decode (repeat 0%N 31 ++ [1%N] ++ repeat 0%N 31 ++ [3%N]) with
  | Err ECurve => true | _ => false end &&
  match g1_decode (repeat 255%N 64) with Err ECoord => true | _ => false end.
