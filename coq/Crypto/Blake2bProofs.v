(* Crypto/Blake2bProofs.v — lemmas about the BLAKE2b F model (Crypto/Blake2b.v). *)
From GV Require Import Lib.Tactics Crypto.Blake2b.
Local Open Scope N_scope.

(* ---------- machine arithmetic ---------- *)
Lemma wrap64_mod v : wrap64 v = v mod two64.
Proof.
  unfold wrap64. destruct (v <? two64) eqn:E.
  - apply N.ltb_lt in E. symmetry. apply N.mod_small. exact E.
  - change mask64 with (N.ones 64). rewrite N.land_ones. reflexivity.
Qed.

Lemma two64_pow : two64 = 2 ^ 64.
Proof. reflexivity. Qed.

Lemma wrap64_lt v : wrap64 v < two64.
Proof. rewrite wrap64_mod. apply N.mod_lt. discriminate. Qed.

Lemma add64_lt a b : add64 a b < two64.
Proof. apply wrap64_lt. Qed.

Lemma lt_pow2_log2 a n : 0 < n -> (a < 2 ^ n <-> a = 0 \/ (0 < a /\ N.log2 a < n)).
Proof.
  intros Hn. destruct (N.eq_dec a 0) as [->|Ha].
  - split; [auto|]. intros _. apply N.neq_0_lt_0. apply N.pow_nonzero. discriminate.
  - assert (0 < a) by lia. rewrite (N.log2_lt_pow2 a n) by assumption. intuition.
Qed.

Lemma lxor_lt64 a b : a < two64 -> b < two64 -> N.lxor a b < two64.
Proof.
  rewrite two64_pow. intros Ha Hb.
  apply lt_pow2_log2 in Ha; [|lia]. apply lt_pow2_log2 in Hb; [|lia].
  apply lt_pow2_log2; [lia|].
  destruct (N.eq_dec (N.lxor a b) 0) as [E|E]; [left; exact E|right].
  split; [lia|].
  pose proof (N.log2_lxor a b) as Hl.
  assert (N.log2 a < 64) by (destruct Ha as [->|[_ ?]]; [reflexivity|assumption]).
  assert (N.log2 b < 64) by (destruct Hb as [->|[_ ?]]; [reflexivity|assumption]).
  lia.
Qed.

Lemma lor_lt64 a b : a < two64 -> b < two64 -> N.lor a b < two64.
Proof.
  rewrite two64_pow. intros Ha Hb.
  apply lt_pow2_log2 in Ha; [|lia]. apply lt_pow2_log2 in Hb; [|lia].
  apply lt_pow2_log2; [lia|].
  destruct (N.eq_dec (N.lor a b) 0) as [E|E]; [left; exact E|right].
  split; [lia|].
  rewrite N.log2_lor.
  assert (N.log2 a < 64) by (destruct Ha as [->|[_ ?]]; [reflexivity|assumption]).
  assert (N.log2 b < 64) by (destruct Hb as [->|[_ ?]]; [reflexivity|assumption]).
  lia.
Qed.

(* rotation stays within 64 bits; k is one of the constants 16, 24, 32, 63 *)
Lemma rotr64_lt x k : x < two64 -> 0 < k <= 64 -> rotr64 x k < two64.
Proof.
  intros Hx Hk. unfold rotr64. apply lor_lt64.
  - rewrite N.shiftr_div_pow2.
    apply N.le_lt_trans with x; [|exact Hx].
    apply N.div_le_upper_bound; [apply N.pow_nonzero; discriminate|].
    assert (1 <= 2 ^ k) by (apply N.lt_pred_le, N.neq_0_lt_0, N.pow_nonzero; discriminate).
    nia.
  - rewrite N.shiftl_mul_pow2, N.land_ones.
    assert (Hm : x mod 2 ^ k < 2 ^ k) by (apply N.mod_lt, N.pow_nonzero; discriminate).
    assert (E : two64 = 2 ^ k * 2 ^ (64 - k)).
    { rewrite <- N.pow_add_r. rewrite two64_pow. f_equal. lia. }
    rewrite E.
    apply N.mul_lt_mono_pos_r; [|exact Hm].
    apply N.neq_0_lt_0, N.pow_nonzero. discriminate.
Qed.

(* ---------- the schedule ---------- *)
Definition row_ok (s : list N) : bool :=
  Nat.eqb (length s) 16 && forallb (fun x => x <? 16) s.

Lemma sigma_row_wf i : row_ok (sigma_row i) = true.
Proof.
  unfold sigma_row.
  assert (H : i mod 10 < 10) by (apply N.mod_lt; discriminate).
  assert (Hall : forallb (fun j => row_ok (nth (N.to_nat j) precomputed [])) (N_below 10) = true)
    by (vm_compute; reflexivity).
  exact (sweep1 10 _ Hall _ H).
Qed.

Lemma sigma_row_mod i j : i mod 10 = j mod 10 -> sigma_row i = sigma_row j.
Proof. unfold sigma_row. intros ->. reflexivity. Qed.

(* ---------- the loop ---------- *)
Lemma iter_round_fst m n i v : fst (N.iter n (round_step m) (i, v)) = i + n.
Proof.
  induction n as [|n IH] using N.peano_ind.
  - cbn. lia.
  - rewrite N.iter_succ. unfold round_step at 1. cbn [fst]. rewrite IH. lia.
Qed.

Lemma iter_round_pair m n i v :
  N.iter n (round_step m) (i, v) = (i + n, rounds_from m i n v).
Proof.
  unfold rounds_from. rewrite <- (iter_round_fst m n i v).
  apply surjective_pairing.
Qed.

Lemma rounds_from_0 m i v : rounds_from m i 0 v = v.
Proof. reflexivity. Qed.

Lemma rounds_from_succ m i n v :
  rounds_from m i (N.succ n) v = round m (sigma_row (i + n)) (rounds_from m i n v).
Proof.
  unfold rounds_from at 1. rewrite N.iter_succ, iter_round_pair. reflexivity.
Qed.

(* r1 + r2 rounds = r1 rounds, then r2 more rounds continuing the schedule *)
Lemma rounds_compose m i0 r1 r2 v :
  rounds_from m i0 (r1 + r2) v = rounds_from m (i0 + r1) r2 (rounds_from m i0 r1 v).
Proof.
  unfold rounds_from at 1. rewrite (N.add_comm r1 r2), N.iter_add.
  rewrite (iter_round_pair m r1). reflexivity.
Qed.

(* the schedule has period 10: only the start index modulo 10 matters *)
Lemma rounds_from_shift m n : forall i j v,
  i mod 10 = j mod 10 -> rounds_from m i n v = rounds_from m j n v.
Proof.
  induction n as [|n IH] using N.peano_ind; intros i j v E.
  - reflexivity.
  - rewrite !rounds_from_succ. rewrite (IH i j v E). f_equal.
    apply sigma_row_mod.
    rewrite (N.add_mod i n), (N.add_mod j n) by discriminate. rewrite E. reflexivity.
Qed.

Lemma rounds_period m i0 k n v :
  rounds_from m (i0 + 10 * k) n v = rounds_from m i0 n v.
Proof.
  apply rounds_from_shift. rewrite N.mul_comm. apply N.mod_add. discriminate.
Qed.

(* ---------- word bounds ---------- *)
Definition vec_ok (v : vec16) : Prop :=
  w0 v < two64 /\ w1 v < two64 /\ w2 v < two64 /\ w3 v < two64 /\
  w4 v < two64 /\ w5 v < two64 /\ w6 v < two64 /\ w7 v < two64 /\
  w8 v < two64 /\ w9 v < two64 /\ w10 v < two64 /\ w11 v < two64 /\
  w12 v < two64 /\ w13 v < two64 /\ w14 v < two64 /\ w15 v < two64.

Definition rot_ok (k : N) : Prop := 0 < k <= 64.

Lemma mix_lt a b c d x r1 r2 : forall a' b' c' d',
  a < two64 -> b < two64 -> c < two64 -> d < two64 -> rot_ok r1 -> rot_ok r2 ->
  mix a b c d x r1 r2 = (a', b', c', d') ->
  a' < two64 /\ b' < two64 /\ c' < two64 /\ d' < two64.
Proof.
  intros a' b' c' d' Ha Hb Hc Hd H1 H2 E. unfold mix in E.
  injection E as <- <- <- <-.
  assert (Hd' : rotr64 (N.lxor d (add64 (add64 a x) b)) r1 < two64).
  { apply rotr64_lt; [|exact H1]. apply lxor_lt64; [exact Hd|apply add64_lt]. }
  split; [apply add64_lt|]. split; [|split; [apply add64_lt|exact Hd']].
  apply rotr64_lt; [|exact H2]. apply lxor_lt64; [exact Hb|apply add64_lt].
Qed.

Lemma round_ok m s v : vec_ok v -> vec_ok (round m s v).
Proof.
  destruct v as [v0 v1 v2 v3 v4 v5 v6 v7 v8 v9 v10 v11 v12 v13 v14 v15].
  unfold vec_ok. cbn [w0 w1 w2 w3 w4 w5 w6 w7 w8 w9 w10 w11 w12 w13 w14 w15].
  intros (H0 & H1 & H2 & H3 & H4 & H5 & H6 & H7 & H8 & H9 & H10 & H11 & H12 & H13 & H14 & H15).
  unfold round.
  assert (R32 : rot_ok 32) by (unfold rot_ok; lia).
  assert (R24 : rot_ok 24) by (unfold rot_ok; lia).
  assert (R16 : rot_ok 16) by (unfold rot_ok; lia).
  assert (R63 : rot_ok 63) by (unfold rot_ok; lia).
  repeat match goal with
  | |- context [mix ?a ?b ?c ?d ?x ?r1 ?r2] =>
      let E := fresh "E" in
      let a' := fresh "a" in let b' := fresh "b" in let c' := fresh "c" in let d' := fresh "d" in
      destruct (mix a b c d x r1 r2) as [[[a' b'] c'] d'] eqn:E;
      apply mix_lt in E; [|assumption ..];
      destruct E as (? & ? & ? & ?)
  end.
  cbn [w0 w1 w2 w3 w4 w5 w6 w7 w8 w9 w10 w11 w12 w13 w14 w15].
  repeat split; assumption.
Qed.

Lemma rounds_from_ok m i n v : vec_ok v -> vec_ok (rounds_from m i n v).
Proof.
  intros Hv. induction n as [|n IH] using N.peano_ind.
  - exact Hv.
  - rewrite rounds_from_succ. apply round_ok. exact IH.
Qed.

Definition words_ok (l : list N) : Prop := Forall (fun x => x < two64) l.

Lemma iv_ok : words_ok iv.
Proof. unfold words_ok, iv. repeat constructor. Qed.
Lemma iv0_lt : iv0 < two64. Proof. reflexivity. Qed.
Lemma iv1_lt : iv1 < two64. Proof. reflexivity. Qed.
Lemma iv2_lt : iv2 < two64. Proof. reflexivity. Qed.
Lemma iv3_lt : iv3 < two64. Proof. reflexivity. Qed.
Lemma iv4_lt : iv4 < two64. Proof. reflexivity. Qed.
Lemma iv5_lt : iv5 < two64. Proof. reflexivity. Qed.
Lemma iv6_lt : iv6 < two64. Proof. reflexivity. Qed.
Lemma iv7_lt : iv7 < two64. Proof. reflexivity. Qed.

(* ---------- fGeneric / F ---------- *)
Lemma some_inj {A} (a b : A) : Some a = Some b -> a = b.
Proof.
  intros E. change (match Some a with Some x => x | None => a end = b).
  rewrite E. reflexivity.
Qed.

Lemma init_vec_some h c0 c1 flag :
  length h = 8%nat -> exists v, init_vec h c0 c1 flag = Some v.
Proof.
  intros L. do 9 (destruct h as [|? h]; try discriminate L). eexists. reflexivity.
Qed.

Lemma init_vec_none h c0 c1 flag : length h <> 8%nat -> init_vec h c0 c1 flag = None.
Proof.
  intros L. do 9 (destruct h as [|? h]; try reflexivity). exfalso. apply L. reflexivity.
Qed.

Lemma finish_some h v : length h = 8%nat ->
  exists h', finish h v = Some h' /\ length h' = 8%nat.
Proof.
  intros L. do 9 (destruct h as [|? h]; try discriminate L). eexists. split; reflexivity.
Qed.

(* F is total on well-typed arguments, fails exactly on ill-typed ones, and returns
   eight words *)
Lemma f_generic_total h m c0 c1 flag rounds :
  (length h = 8%nat /\ length m = 16%nat ->
     exists h', f_generic h m c0 c1 flag rounds = Some h' /\ length h' = 8%nat) /\
  (~ (length h = 8%nat /\ length m = 16%nat) -> f_generic h m c0 c1 flag rounds = None).
Proof.
  unfold f_generic. split.
  - intros [Lh Lm]. rewrite Lm. cbn [Nat.eqb negb].
    destruct (init_vec_some h c0 c1 flag Lh) as [v ->].
    apply finish_some. exact Lh.
  - intros Hn. destruct (Nat.eqb (length m) 16) eqn:E; [|reflexivity].
    cbn [negb]. apply Nat.eqb_eq in E.
    rewrite init_vec_none; [reflexivity|]. intros Lh. apply Hn. split; assumption.
Qed.

Lemma F_total h m c0 c1 final rounds :
  (length h = 8%nat /\ length m = 16%nat ->
     exists h', F h m c0 c1 final rounds = Some h' /\ length h' = 8%nat) /\
  (~ (length h = 8%nat /\ length m = 16%nat) -> F h m c0 c1 final rounds = None).
Proof. unfold F. apply f_generic_total. Qed.

(* the result words are 64-bit values whenever the inputs are *)
Lemma f_generic_words h m c0 c1 flag rounds h' :
  words_ok h -> c0 < two64 -> c1 < two64 -> flag < two64 ->
  f_generic h m c0 c1 flag rounds = Some h' -> words_ok h'.
Proof.
  intros Hh Hc0 Hc1 Hf. unfold f_generic.
  destruct (negb (Nat.eqb (length m) 16)); [discriminate|].
  destruct (init_vec h c0 c1 flag) as [v|] eqn:Ev; [|discriminate].
  intros Efin.
  assert (Hv : vec_ok v).
  { unfold init_vec in Ev.
    do 9 (destruct h as [|? h]; try discriminate Ev).
    apply some_inj in Ev. subst v.
    unfold words_ok in Hh.
    repeat match goal with H : Forall _ (_ :: _) |- _ => inversion H; clear H; subst end.
    unfold vec_ok. cbn [w0 w1 w2 w3 w4 w5 w6 w7 w8 w9 w10 w11 w12 w13 w14 w15].
    pose proof iv0_lt; pose proof iv1_lt; pose proof iv2_lt; pose proof iv3_lt.
    pose proof iv4_lt; pose proof iv5_lt; pose proof iv6_lt; pose proof iv7_lt.
    repeat split; try assumption; apply lxor_lt64; assumption. }
  pose proof (rounds_from_ok m 0 (loop_count rounds) v Hv) as Hr.
  set (r := rounds_from m 0 (loop_count rounds) v) in *.
  unfold finish in Efin.
  do 9 (destruct h as [|? h]; try discriminate Efin).
  injection Efin as <-.
  unfold words_ok in *.
  repeat match goal with H : Forall _ (_ :: _) |- _ => inversion H; clear H; subst end.
  destruct Hr as (V0 & V1 & V2 & V3 & V4 & V5 & V6 & V7 & V8 & V9 & V10 & V11 & V12 & V13 & V14 & V15).
  repeat constructor; apply lxor_lt64; try assumption; apply lxor_lt64; assumption.
Qed.

(* what fGeneric computes, with the loop made explicit: r1 + r2 rounds of F factor
   through the working vector after r1 rounds *)
Lemma f_generic_compose h m c0 c1 flag r1 r2 v :
  length m = 16%nat -> r1 + r2 < 9223372036854775808 ->
  init_vec h c0 c1 flag = Some v ->
  f_generic h m c0 c1 flag (r1 + r2) =
  finish h (rounds_from m r1 r2 (rounds_from m 0 r1 v)).
Proof.
  intros Lm Hr Ev. unfold f_generic. rewrite Lm, Ev. cbn [Nat.eqb negb].
  unfold loop_count. apply N.ltb_lt in Hr. rewrite Hr.
  rewrite rounds_compose. reflexivity.
Qed.

(* ---------- the final flag ---------- *)
Definition set_w14 (v : vec16) (x : N) : vec16 :=
  V16 (w0 v) (w1 v) (w2 v) (w3 v) (w4 v) (w5 v) (w6 v) (w7 v)
      (w8 v) (w9 v) (w10 v) (w11 v) (w12 v) (w13 v) x (w15 v).

(* final = true differs from final = false only in v14, which is bitwise inverted *)
Lemma final_flag_v14 h c0 c1 v :
  init_vec h c0 c1 0 = Some v ->
  init_vec h c0 c1 mask64 = Some (set_w14 v (N.lxor (w14 v) mask64)) /\
  w14 v < two64 /\ N.lxor (w14 v) mask64 = mask64 - w14 v.
Proof.
  intros Ev. unfold init_vec in *.
  do 9 (destruct h as [|? h]; try discriminate Ev).
  apply some_inj in Ev. subst v.
  cbn [set_w14 w0 w1 w2 w3 w4 w5 w6 w7 w8 w9 w10 w11 w12 w13 w14 w15].
  split; [reflexivity|]. split; vm_compute; reflexivity.
Qed.

Lemma F_final_flag h m c0 c1 rounds v :
  init_vec h c0 c1 0 = Some v -> length m = 16%nat ->
  F h m c0 c1 false rounds = finish h (rounds_from m 0 (loop_count rounds) v) /\
  F h m c0 c1 true rounds =
    finish h (rounds_from m 0 (loop_count rounds) (set_w14 v (N.lxor (w14 v) mask64))).
Proof.
  intros Ev Lm. destruct (final_flag_v14 h c0 c1 v Ev) as [E1 _].
  unfold F, f_generic. rewrite Lm, Ev, E1. cbn [Nat.eqb negb]. split; reflexivity.
Qed.

(* ---------- the precompile wrapper ---------- *)
Lemma words_le_some k : forall b, length b = (8 * k)%nat ->
  exists ws, words_le k b = Some ws /\ length ws = k.
Proof.
  induction k as [|k IH]; intros b L.
  - destruct b; [|discriminate L]. exists []. split; reflexivity.
  - do 8 (destruct b as [|? b]; [cbn in L; lia|]).
    assert (L' : length b = (8 * k)%nat) by (cbn in L; lia).
    destruct (IH b L') as [ws [E Lw]].
    cbn [words_le]. rewrite E. eexists. split; [reflexivity|]. cbn. lia.
Qed.

Lemma le_bytes_length k w : length (le_bytes k w) = k.
Proof. revert w. induction k as [|k IH]; intros w; cbn; [reflexivity|]. rewrite IH. reflexivity. Qed.

Lemma le_bytes_byte k : forall w, Forall (fun x => x < 256) (le_bytes k w).
Proof.
  induction k as [|k IH]; intros w; cbn; constructor.
  - apply N.mod_lt. discriminate.
  - apply IH.
Qed.

Lemma flat_le_bytes_length l : length (flat_map (le_bytes 8) l) = (8 * length l)%nat.
Proof.
  induction l as [|x l IH]; [reflexivity|].
  cbn [flat_map]. rewrite app_length, le_bytes_length, IH. cbn [length]. lia.
Qed.

(* blake2F.Run accepts exactly the 213-byte inputs whose last byte is 0 or 1, with a
   64-byte result; every other input is rejected with the class of the first failing
   check; the internal-error class is unreachable *)
Lemma blake2f_run_total input :
  (length input <> 213%nat -> blake2f_run input = FErr ErrLength) /\
  (length input = 213%nat -> nth 212 input 0 <> 0 -> nth 212 input 0 <> 1 ->
     blake2f_run input = FErr ErrFinalFlag) /\
  (length input = 213%nat -> (nth 212 input 0 = 0 \/ nth 212 input 0 = 1) ->
     exists out, blake2f_run input = FOk out /\ length out = 64%nat /\
                 Forall (fun x => x < 256) out).
Proof.
  unfold blake2f_run. split; [|split].
  - intros L. apply Nat.eqb_neq in L. rewrite L. reflexivity.
  - intros L H0 H1. rewrite L. cbn [Nat.eqb negb].
    apply N.eqb_neq in H0. apply N.eqb_neq in H1. rewrite H0, H1. reflexivity.
  - intros L Hf. rewrite L. cbn [Nat.eqb negb].
    assert (Ef : (nth 212 input 0 =? 0) || (nth 212 input 0 =? 1) = true).
    { destruct Hf as [-> | ->]; reflexivity. }
    rewrite Ef. cbn [negb].
    destruct (words_le_some 8 (firstn 64 (skipn 4 input))) as [h [Eh Lh]].
    { rewrite firstn_length, skipn_length. lia. }
    destruct (words_le_some 16 (firstn 128 (skipn 68 input))) as [m [Em Lm]].
    { rewrite firstn_length, skipn_length. lia. }
    destruct (words_le_some 2 (firstn 16 (skipn 196 input))) as [t [Et Lt]].
    { rewrite firstn_length, skipn_length. lia. }
    rewrite Eh, Em, Et.
    destruct t as [|t0 [|t1 [|? ?]]]; try discriminate Lt.
    destruct (F_total h m t0 t1 (nth 212 input 0 =? 1) (be_decode_acc 0 (firstn 4 input)))
      as [HF _].
    destruct (HF (conj Lh Lm)) as [h' [EF Lh']].
    rewrite EF. eexists. split; [reflexivity|]. split.
    + rewrite flat_le_bytes_length, Lh'. reflexivity.
    + clear. induction h' as [|x l IH]; [constructor|].
      cbn [flat_map]. apply Forall_app. split; [apply le_bytes_byte|exact IH].
Qed.

(* non-vacuity checker used by Properties/C05.v *)
Definition nv_vec : vec16 := V16 1 2 3 4 5 6 7 8 9 10 11 12 13 14 15 16.
Definition nv_m : list N := [1; 2; 3; 4; 5; 6; 7; 8; 9; 10; 11; 12; 13; 14; 15; 16].
Definition vec_eqb (a b : vec16) : bool :=
  (w0 a =? w0 b) && (w1 a =? w1 b) && (w7 a =? w7 b) && (w14 a =? w14 b) && (w15 a =? w15 b).
Definition blake_nonvacuous : bool :=
  vec_eqb (rounds_from nv_m 0 (7 + 8) nv_vec)
          (rounds_from nv_m 7 8 (rounds_from nv_m 0 7 nv_vec))
  && negb (vec_eqb (rounds_from nv_m 0 15 nv_vec) (rounds_from nv_m 0 8 (rounds_from nv_m 0 7 nv_vec)))
  && match blake2f_run (repeat 0 212 ++ [1]), blake2f_run (repeat 0 212 ++ [0]) with
     | FOk a, FOk b => negb (forallb (fun p => fst p =? snd p) (combine a b))
     | _, _ => false
     end.
