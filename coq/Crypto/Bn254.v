(* Crypto/Bn254.v — executable model of the BN254 (alt_bn128) input handling and G1
   arithmetic behind the precompiles 0x06/0x07/0x08 of /repo/core/vm/contracts.go
   (runBn256Add, runBn256ScalarMul, runBn256Pairing) and of the three interchangeable
   backends /repo/crypto/bn256/{gnark,cloudflare,google} (G1.Unmarshal, G1.Marshal,
   G1.Add, G1.ScalarMult, G2.Unmarshal).

   What is modelled: F_p arithmetic on canonical representatives, the G1 decoding
   decision (size, coordinates < p, (0,0) = infinity, y^2 = x^3 + 3), the affine
   chord-and-tangent formulas (the *mathematical* result that every backend must
   marshal, whatever internal coordinates it uses), double-and-add scalar
   multiplication, the G2 decoding checks up to but EXCLUDING the subgroup check
   (abstract: see [g2_class]), and the fixed-size input slicing of the precompiles.
   NOT modelled: the pairing, Jacobian/Montgomery internals, the G2 group.
   Field elements are [Z] in [0, p); bytes are [N].  Proofs: Crypto/Bn254Proofs.v. *)
From Coq Require Import List NArith ZArith.
Import ListNotations.
Local Open Scope Z_scope.

(* google/constants.go: P, Order (same values in cloudflare/constants.go, gnark fp/fr) *)
Definition P : Z :=
  21888242871839275222246405745257275088696311157297823662689037894645226208583.
Definition Order : Z :=
  21888242871839275222246405745257275088548364400416034343698204186575808495617.

(* ---------- F_p on canonical representatives ---------- *)
(* [d mod P], written so that the extracted code does not run a 254-step division
   when d is within one multiple of P of the range (Bn254Proofs.norm_mod) *)
Definition norm (d : Z) : Z :=
  if d <? 0 then (let e := d + P in if e <? 0 then d mod P else e)
  else if d <? P then d
  else (let e := d - P in if e <? P then e else d mod P).

Definition fadd (a b : Z) : Z := norm (a + b).
Definition fsub (a b : Z) : Z := norm (a - b).
Definition fmul (a b : Z) : Z := (a * b) mod P.

(* Modular inverse.  The backends use different algorithms (Fermat exponentiation,
   big.Int.ModInverse, gnark's optimised inversion); the value is determined by
   a * inv = 1 (mod p), which the model CHECKS, so the particular algorithm below
   (binary extended gcd: halvings and subtractions only) carries no proof burden:
   [finv a = Some i] implies [fmul a i = 1] by construction.
   State (u, v, x1, x2) with invariants u = x1*a, v = x2*a (mod p). *)
Definition half_mod (x : Z) : Z := if Z.even x then x / 2 else (x + P) / 2.

Fixpoint binv_loop (fuel : nat) (u v x1 x2 : Z) : Z :=
  match fuel with
  | O => 0
  | S f =>
      if u =? 1 then x1 else
      if v =? 1 then x2 else
      if Z.even u then binv_loop f (u / 2) v (half_mod x1) x2 else
      if Z.even v then binv_loop f u (v / 2) x1 (half_mod x2) else
      if v <=? u then binv_loop f (u - v) v (fsub x1 x2) x2
      else binv_loop f u (v - u) x1 (fsub x2 x1)
  end.

(* at most 2*256 halvings and 2*256 subtractions for inputs below 2^256 *)
Definition inv_fuel : nat := 1100.
Definition binv (a : Z) : Z := (binv_loop inv_fuel (a mod P) P 1 0) mod P.

Definition finv (a : Z) : option Z :=
  if a mod P =? 0 then None else
  let i := binv a in
  if fmul a i =? 1 then Some i else None.

(* ---------- G1: y^2 = x^3 + 3 over F_p ---------- *)
Inductive g1 : Type := Inf | Aff (x y : Z).

Definition in_field (a : Z) : bool := (0 <=? a) && (a <? P).

(* google/curve.go curvePoint.IsOnCurve / gnark G1Affine.IsOnCurve: y^2 = x^3 + 3 *)
Definition on_curve_xy (x y : Z) : bool :=
  fmul y y =? fadd (fmul (fmul x x) x) 3.

Definition g1_valid (p : g1) : bool :=
  match p with
  | Inf => true
  | Aff x y => in_field x && in_field y && on_curve_xy x y
  end.

(* big-endian bytes <-> numbers, fixed width *)
Fixpoint be_num (acc : N) (b : list N) : N :=
  match b with [] => acc | x :: r => be_num (acc * 256 + x)%N r end.
Fixpoint be_fixed (k : nat) (n : N) : list N :=
  match k with O => [] | S k' => be_fixed k' (n / 256)%N ++ [(n mod 256)%N] end.

Definition all_zero (b : list N) : bool := forallb (fun x => (x =? 0)%N) b.

Inductive dec_err : Type :=
| ESize       (* fewer bytes than one point *)
| ECoord      (* a coordinate is >= p *)
| ECurve      (* not on the curve *)
| EInternal.  (* inversion failed: unreachable for a prime p (not proved) *)

Inductive res (A : Type) : Type := Ok (a : A) | Err (e : dec_err).
Arguments Ok {A} a.
Arguments Err {A} e.

(* gnark/g1.go G1.Unmarshal (and cloudflare/bn256.go, google/bn256.go G1.Unmarshal, which
   take the same decisions in a different order: the coordinates of the all-zero string
   are < p, so testing "all zero" first or after the range checks is the same):
     len(buf) < 64            -> error
     buf[:64] all zero        -> infinity
     x = BE(buf[0:32]) >= p   -> error;   y = BE(buf[32:64]) >= p -> error
     not on curve             -> error
   (gnark's IsInSubGroup for G1 is IsOnCurve: the cofactor is 1) *)
Definition g1_decode (buf : list N) : res g1 :=
  if (length buf <? 64)%nat then Err ESize else
  let b := firstn 64 buf in
  if all_zero b then Ok Inf else
  let x := Z.of_N (be_num 0 (firstn 32 b)) in
  let y := Z.of_N (be_num 0 (skipn 32 b)) in
  if negb (x <? P) then Err ECoord else
  if negb (y <? P) then Err ECoord else
  if negb (on_curve_xy x y) then Err ECurve else
  Ok (Aff x y).

(* G1.Marshal: 64 bytes, x then y big-endian; infinity = 64 zero bytes *)
Definition g1_encode (p : g1) : list N :=
  match p with
  | Inf => repeat 0%N 64
  | Aff x y => be_fixed 32 (Z.to_N x) ++ be_fixed 32 (Z.to_N y)
  end.

(* tangent rule; [None] only if the inversion fails *)
Definition g1_double (p : g1) : option g1 :=
  match p with
  | Inf => Some Inf
  | Aff x y =>
      if y =? 0 then Some Inf else
      match finv (fadd y y) with
      | None => None
      | Some i =>
          let lam := fmul (fmul 3 (fmul x x)) i in
          let x3 := fsub (fsub (fmul lam lam) x) x in
          let y3 := fsub (fmul lam (fsub x x3)) y in
          Some (Aff x3 y3)
      end
  end.

(* chord rule; equal x with different y is P + (-P) = infinity *)
Definition g1_add (p q : g1) : option g1 :=
  match p, q with
  | Inf, _ => Some q
  | _, Inf => Some p
  | Aff x1 y1, Aff x2 y2 =>
      if x1 =? x2 then
        if y1 =? y2 then g1_double p else Some Inf
      else
        match finv (fsub x2 x1) with
        | None => None
        | Some i =>
            let lam := fmul (fsub y2 y1) i in
            let x3 := fsub (fsub (fmul lam lam) x1) x2 in
            let y3 := fsub (fmul lam (fsub x1 x3)) y1 in
            Some (Aff x3 y3)
        end
  end.

(* k*P by double-and-add, most significant bit first; structural on [positive] *)
Fixpoint g1_mul_pos (k : positive) (p : g1) : option g1 :=
  match k with
  | xH => Some p
  | xO k' =>
      match g1_mul_pos k' p with Some r => g1_double r | None => None end
  | xI k' =>
      match g1_mul_pos k' p with
      | Some r => match g1_double r with Some d => g1_add d p | None => None end
      | None => None
      end
  end.

Definition g1_mul (k : N) (p : g1) : option g1 :=
  match k with N0 => Some Inf | Npos k' => g1_mul_pos k' p end.

(* ---------- precompile input slicing (contracts.go) ---------- *)

(* common.getData(input, start, size): the slice, right-padded with zeros *)
Definition get_data (input : list N) (start size : nat) : list N :=
  let s := firstn size (skipn start input) in
  s ++ repeat 0%N (size - length s).

Definition of_opt (o : option g1) : res g1 :=
  match o with Some p => Ok p | None => Err EInternal end.

(* contracts.go runBn256Add *)
Definition bn_add_run (input : list N) : res (list N) :=
  match g1_decode (get_data input 0 64) with
  | Err e => Err e
  | Ok x =>
      match g1_decode (get_data input 64 64) with
      | Err e => Err e
      | Ok y =>
          match g1_add x y with
          | Some r => Ok (g1_encode r)
          | None => Err EInternal
          end
      end
  end.

(* contracts.go runBn256ScalarMul: the scalar is NOT reduced modulo the order *)
Definition bn_mul_run (input : list N) : res (list N) :=
  match g1_decode (get_data input 0 64) with
  | Err e => Err e
  | Ok p =>
      match g1_mul (be_num 0 (get_data input 64 32)) p with
      | Some r => Ok (g1_encode r)
      | None => Err EInternal
      end
  end.

(* ---------- G2 decoding checks: y^2 = x^3 + 3/(9+i) over F_p[i]/(i^2+1) ---------- *)
Definition fp2 : Type := (Z * Z)%type.   (* (real, imaginary) = a0 + a1*i *)

Definition f2add (a b : fp2) : fp2 := (fadd (fst a) (fst b), fadd (snd a) (snd b)).
(* google/gfp2.go gfP2.Mul: (a0 b0 - a1 b1) + (a0 b1 + a1 b0) i *)
Definition f2mul (a b : fp2) : fp2 :=
  (fsub (fmul (fst a) (fst b)) (fmul (snd a) (snd b)),
   fadd (fmul (fst a) (snd b)) (fmul (snd a) (fst b))).

(* google/twist.go twistB = 3/(9+i) *)
Definition twist_b : fp2 :=
  (19485874751759354771024239261021720505790618469301721065564631296452457478373,
   266929791119991161246907387137283842545076965332900288569378510910307636690).

Definition on_twist (x y : fp2) : bool :=
  let l := f2mul y y in
  let r := f2add (f2mul (f2mul x x) x) twist_b in
  (fst l =? fst r) && (snd l =? snd r).

(* outcome of the modelled part of G2.Unmarshal *)
Inductive g2_class : Type :=
| G2Err (e : dec_err)
| G2Inf
| G2OnTwist (x y : fp2).  (* passes range and curve checks; the backends then apply
                             the subgroup check (Order * Q = infinity), not modelled *)

(* gnark/g2.go G2.Unmarshal: 128 bytes = X.A1 | X.A0 | Y.A1 | Y.A0 (imaginary part
   first); all zero = infinity; each coordinate < p; curve equation *)
Definition g2_decode_checks (buf : list N) : g2_class :=
  if (length buf <? 128)%nat then G2Err ESize else
  let b := firstn 128 buf in
  if all_zero b then G2Inf else
  let xa1 := Z.of_N (be_num 0 (firstn 32 b)) in
  let xa0 := Z.of_N (be_num 0 (firstn 32 (skipn 32 b))) in
  let ya1 := Z.of_N (be_num 0 (firstn 32 (skipn 64 b))) in
  let ya0 := Z.of_N (be_num 0 (skipn 96 b)) in
  if negb (xa1 <? P) then G2Err ECoord else
  if negb (xa0 <? P) then G2Err ECoord else
  if negb (ya1 <? P) then G2Err ECoord else
  if negb (ya0 <? P) then G2Err ECoord else
  if negb (on_twist (xa0, xa1) (ya0, ya1)) then G2Err ECurve else
  G2OnTwist (xa0, xa1) (ya0, ya1).

(* the full G2 decision, parametric in the subgroup test *)
Definition g2_accepts (in_subgroup : fp2 -> fp2 -> bool) (buf : list N) : bool :=
  match g2_decode_checks buf with
  | G2Err _ => false
  | G2Inf => true
  | G2OnTwist x y => in_subgroup x y
  end.

(* contracts.go runBn256Pairing, decoding phase only: length must be a multiple of 192;
   each 192-byte chunk is a G1 point followed by a G2 point; the first failing check
   aborts.  Result: [Some e] = rejected with e by a modelled check, [None] = every
   modelled check passed (the pairing product itself is not modelled). *)
Fixpoint pairing_decode (fuel : nat) (input : list N) : option dec_err :=
  match fuel with
  | O => Some EInternal
  | S f =>
      match input with
      | [] => None
      | _ =>
          match g1_decode (firstn 64 input) with
          | Err e => Some e
          | Ok _ =>
              match g2_decode_checks (firstn 128 (skipn 64 input)) with
              | G2Err e => Some e
              | _ => pairing_decode f (skipn 192 input)
              end
          end
      end
  end.

Definition bn_pairing_decode (input : list N) : option dec_err :=
  if negb (Nat.eqb (Nat.modulo (length input) 192) 0) then Some ESize
  else pairing_decode (S (Nat.div (length input) 192)) input.
