(* Crypto/Blake2b.v — executable model of the BLAKE2b compression function F as
   implemented by /repo/crypto/blake2b/blake2b_generic.go (fGeneric, the portable
   reference that the assembly paths fAVX2/fAVX/fSSE4 must agree with),
   /repo/crypto/blake2b/blake2b.go (F) and the precompile wrapper
   /repo/core/vm/contracts.go (blake2F.Run).

   uint64 values are [N] with an explicit wrap at every Go [+=]; xor/rotate cannot
   leave 64 bits.  The round count is an [N] iterated with [N.iter] (structural on the
   binary representation) — never a data-sized [nat].  Model only: proofs are in
   Crypto/Blake2bProofs.v. *)
From Coq Require Import List NArith.
Import ListNotations.
Local Open Scope N_scope.

Definition two64 : N := 18446744073709551616.
Definition mask64 : N := 18446744073709551615.

(* [x mod 2^64], written so that the extracted code never runs a division: the low
   64 bits are kept with a mask (Blake2bProofs.wrap64_mod) *)
Definition wrap64 (v : N) : N := if v <? two64 then v else N.land v mask64.

(* Go: a += b on uint64 *)
Definition add64 (a b : N) : N := wrap64 (a + b).

(* Go: bits.RotateLeft64(x, -k), i.e. rotate right by k (0 < k < 64) *)
Definition rotr64 (x k : N) : N :=
  N.lor (N.shiftr x k) (N.shiftl (N.land x (N.ones k)) (64 - k)).

(* blake2b.go: var iv *)
Definition iv0 : N := 0x6a09e667f3bcc908.
Definition iv1 : N := 0xbb67ae8584caa73b.
Definition iv2 : N := 0x3c6ef372fe94f82b.
Definition iv3 : N := 0xa54ff53a5f1d36f1.
Definition iv4 : N := 0x510e527fade682d1.
Definition iv5 : N := 0x9b05688c2b3e6c1f.
Definition iv6 : N := 0x1f83d9abfb41bd6b.
Definition iv7 : N := 0x5be0cd19137e2179.
Definition iv : list N := [iv0; iv1; iv2; iv3; iv4; iv5; iv6; iv7].

(* blake2b_generic.go: var precomputed = [10][16]byte *)
Definition precomputed : list (list N) :=
  [ [0; 2; 4; 6; 1; 3; 5; 7; 8; 10; 12; 14; 9; 11; 13; 15];
    [14; 4; 9; 13; 10; 8; 15; 6; 1; 0; 11; 5; 12; 2; 7; 3];
    [11; 12; 5; 15; 8; 0; 2; 13; 10; 3; 7; 9; 14; 6; 1; 4];
    [7; 3; 13; 11; 9; 1; 12; 14; 2; 5; 4; 15; 6; 10; 0; 8];
    [9; 5; 2; 10; 0; 7; 4; 15; 14; 11; 6; 3; 1; 12; 8; 13];
    [2; 6; 0; 8; 12; 10; 11; 3; 4; 7; 15; 1; 13; 5; 14; 9];
    [12; 1; 14; 4; 5; 15; 13; 10; 0; 6; 9; 8; 7; 3; 2; 11];
    [13; 7; 12; 3; 11; 14; 1; 9; 5; 15; 8; 2; 0; 4; 6; 10];
    [6; 14; 11; 0; 15; 9; 3; 8; 12; 13; 1; 10; 2; 7; 4; 5];
    [10; 8; 7; 1; 2; 4; 6; 5; 15; 9; 3; 13; 11; 14; 12; 0] ].

(* Go: s := &(precomputed[i%10]).  The defaults of [nth] are never reached:
   i mod 10 < 10 and every row has 16 entries < 16 (Blake2bProofs.sigma_row_wf). *)
Definition sigma_row (i : N) : list N := nth (N.to_nat (i mod 10)) precomputed [].

(* Go: m[s[k]] for m *[16]uint64.  F below refuses any m whose length is not 16, and
   s[k] < 16, so the default is never reached. *)
Definition mword (m s : list N) (k : nat) : N := nth (N.to_nat (nth k s 0)) m 0.

(* the sixteen local variables v0..v15 of fGeneric *)
Record vec16 : Type := V16 {
  w0 : N; w1 : N; w2 : N; w3 : N; w4 : N; w5 : N; w6 : N; w7 : N;
  w8 : N; w9 : N; w10 : N; w11 : N; w12 : N; w13 : N; w14 : N; w15 : N }.

(* one half of the G mixing function, as it appears (unrolled, 16 times per round)
   in fGeneric:   a += x; a += b; d ^= a; d = rotr(d, r1); c += d; b ^= c; b = rotr(b, r2) *)
Definition mix (a b c d x r1 r2 : N) : N * N * N * N :=
  let a := add64 a x in
  let a := add64 a b in
  let d := N.lxor d a in
  let d := rotr64 d r1 in
  let c := add64 c d in
  let b := N.lxor b c in
  let b := rotr64 b r2 in
  (a, b, c, d).

(* body of the loop of fGeneric, statements in the order of the Go text *)
Definition round (m s : list N) (v : vec16) : vec16 :=
  let '(V16 v0 v1 v2 v3 v4 v5 v6 v7 v8 v9 v10 v11 v12 v13 v14 v15) := v in
  let '(v0, v4, v8, v12) := mix v0 v4 v8 v12 (mword m s 0) 32 24 in
  let '(v1, v5, v9, v13) := mix v1 v5 v9 v13 (mword m s 1) 32 24 in
  let '(v2, v6, v10, v14) := mix v2 v6 v10 v14 (mword m s 2) 32 24 in
  let '(v3, v7, v11, v15) := mix v3 v7 v11 v15 (mword m s 3) 32 24 in
  let '(v0, v4, v8, v12) := mix v0 v4 v8 v12 (mword m s 4) 16 63 in
  let '(v1, v5, v9, v13) := mix v1 v5 v9 v13 (mword m s 5) 16 63 in
  let '(v2, v6, v10, v14) := mix v2 v6 v10 v14 (mword m s 6) 16 63 in
  let '(v3, v7, v11, v15) := mix v3 v7 v11 v15 (mword m s 7) 16 63 in
  let '(v0, v5, v10, v15) := mix v0 v5 v10 v15 (mword m s 8) 32 24 in
  let '(v1, v6, v11, v12) := mix v1 v6 v11 v12 (mword m s 9) 32 24 in
  let '(v2, v7, v8, v13) := mix v2 v7 v8 v13 (mword m s 10) 32 24 in
  let '(v3, v4, v9, v14) := mix v3 v4 v9 v14 (mword m s 11) 32 24 in
  let '(v0, v5, v10, v15) := mix v0 v5 v10 v15 (mword m s 12) 16 63 in
  let '(v1, v6, v11, v12) := mix v1 v6 v11 v12 (mword m s 13) 16 63 in
  let '(v2, v7, v8, v13) := mix v2 v7 v8 v13 (mword m s 14) 16 63 in
  let '(v3, v4, v9, v14) := mix v3 v4 v9 v14 (mword m s 15) 16 63 in
  V16 v0 v1 v2 v3 v4 v5 v6 v7 v8 v9 v10 v11 v12 v13 v14 v15.

(* Go: for i := i0; i < i0 + n; i++ { s := &precomputed[i%10]; ... }
   The loop state is (i, v); [N.iter] recurses on the binary representation of n. *)
Definition round_step (m : list N) (st : N * vec16) : N * vec16 :=
  (fst st + 1, round m (sigma_row (fst st)) (snd st)).

Definition rounds_from (m : list N) (i0 n : N) (v : vec16) : vec16 :=
  snd (N.iter n (round_step m) (i0, v)).

(* Go: v0..v7 := h[0..7]; v8..v15 := iv[0..7]; v12 ^= c0; v13 ^= c1; v14 ^= flag *)
Definition init_vec (h : list N) (c0 c1 flag : N) : option vec16 :=
  match h with
  | [h0; h1; h2; h3; h4; h5; h6; h7] =>
      Some (V16 h0 h1 h2 h3 h4 h5 h6 h7 iv0 iv1 iv2 iv3
                (N.lxor iv4 c0) (N.lxor iv5 c1) (N.lxor iv6 flag) iv7)
  | _ => None
  end.

(* Go: h[0] ^= v0 ^ v8 ... h[7] ^= v7 ^ v15 *)
Definition finish (h : list N) (v : vec16) : option (list N) :=
  match h with
  | [h0; h1; h2; h3; h4; h5; h6; h7] =>
      Some [ N.lxor h0 (N.lxor (w0 v) (w8 v)); N.lxor h1 (N.lxor (w1 v) (w9 v));
             N.lxor h2 (N.lxor (w2 v) (w10 v)); N.lxor h3 (N.lxor (w3 v) (w11 v));
             N.lxor h4 (N.lxor (w4 v) (w12 v)); N.lxor h5 (N.lxor (w5 v) (w13 v));
             N.lxor h6 (N.lxor (w6 v) (w14 v)); N.lxor h7 (N.lxor (w7 v) (w15 v)) ]
  | _ => None
  end.

(* Go: for i := 0; i < int(rounds); i++ — [rounds] is a uint64 converted to int
   (64-bit): values >= 2^63 become negative and the loop body never runs.  (Not
   reachable through F, whose [rounds] is a uint32.) *)
Definition loop_count (rounds : N) : N :=
  if rounds <? 9223372036854775808 then rounds else 0.

(* blake2b_generic.go: fGeneric(h *[8]uint64, m *[16]uint64, c0, c1, flag, rounds uint64).
   [None] = the argument is not a [8]uint64 / [16]uint64 (impossible in Go by typing). *)
Definition f_generic (h m : list N) (c0 c1 flag rounds : N) : option (list N) :=
  if negb (Nat.eqb (length m) 16) then None else
  match init_vec h c0 c1 flag with
  | None => None
  | Some v => finish h (rounds_from m 0 (loop_count rounds) v)
  end.

(* blake2b.go: F(h *[8]uint64, m [16]uint64, c [2]uint64, final bool, rounds uint32) *)
Definition F (h m : list N) (c0 c1 : N) (final : bool) (rounds : N) : option (list N) :=
  let flag := if final then mask64 else 0 in
  f_generic h m c0 c1 flag rounds.

(* ---- the precompile wrapper: core/vm/contracts.go blake2F.Run ---- *)

(* binary.LittleEndian.Uint64 / binary.BigEndian.Uint32 on exact-length slices *)
Fixpoint le_decode (b : list N) : N :=
  match b with [] => 0 | x :: r => x + 256 * le_decode r end.
Fixpoint be_decode_acc (acc : N) (b : list N) : N :=
  match b with [] => acc | x :: r => be_decode_acc (acc * 256 + x) r end.

(* binary.LittleEndian.PutUint64 *)
Fixpoint le_bytes (k : nat) (w : N) : list N :=
  match k with O => [] | S k' => (w mod 256) :: le_bytes k' (w / 256) end.

(* consecutive 8-byte little-endian words of a buffer; leftover bytes are an error *)
Fixpoint words_le (k : nat) (b : list N) : option (list N) :=
  match k with
  | O => match b with [] => Some [] | _ => None end
  | S k' =>
      match b with
      | b0 :: b1 :: b2 :: b3 :: b4 :: b5 :: b6 :: b7 :: r =>
          match words_le k' r with
          | Some ws => Some (le_decode [b0; b1; b2; b3; b4; b5; b6; b7] :: ws)
          | None => None
          end
      | _ => None
      end
  end.

Inductive f_err : Type := ErrLength | ErrFinalFlag | ErrInternal.
Inductive f_result : Type := FOk (out : list N) | FErr (e : f_err).

(* contracts.go blake2F.Run: length must be exactly 213; input[212] must be 0 or 1;
   rounds = BigEndian.Uint32(input[0:4]); h = 8 LE words from offset 4; m = 16 LE
   words from offset 68; t0,t1 at 196 and 204; output = the 8 words of h, LE.
   [ErrInternal] is unreachable (Blake2bProofs.blake2f_run_total). *)
Definition blake2f_run (input : list N) : f_result :=
  if negb (Nat.eqb (length input) 213) then FErr ErrLength else
  let fb := nth 212 input 0 in
  if negb ((fb =? 0) || (fb =? 1)) then FErr ErrFinalFlag else
  let rounds := be_decode_acc 0 (firstn 4 input) in
  let final := fb =? 1 in
  match words_le 8 (firstn 64 (skipn 4 input)),
        words_le 16 (firstn 128 (skipn 68 input)),
        words_le 2 (firstn 16 (skipn 196 input)) with
  | Some h, Some m, Some [t0; t1] =>
      match F h m t0 t1 final rounds with
      | Some h' => FOk (flat_map (le_bytes 8) h')
      | None => FErr ErrInternal
      end
  | _, _, _ => FErr ErrInternal
  end.
