(* Rlp/Schema.v — a small typed layer over RLP items (reusable).

   A [schema] names the Go type a value is decoded into / encoded from by the
   reflection layer of /repo/rlp (typecache.go, decode.go makeDecoder,
   encode.go makeWriter) for the kinds of types that occur in consensus
   objects.  A [value] is the decoded Go value.

   The Go typed decoders run on the Stream; here they are expressed on the
   already-decoded item tree:   rlp.DecodeBytes(b, &v)  =  decode_bytes b
   (Rlp/Stream.v, generic decoding, proved canonical in C01) followed by
   [dec_s schema].  This is the same accept set and the same values: every
   typed decoder below inspects exactly the Kind/size/content that generic
   decoding validates (there is no RawValue field kind in this layer), and the
   additional typed checks are those of
     decode.go:742 Stream.uint(bits)    -> SUint   (no leading zero, <= bits/8 bytes)
     decode.go:848 decodeBigInt         -> SBig    (no leading zero)
     decode.go:892 ReadUint256          -> SU256   (no leading zero, <= 32 bytes)
     decode.go:360 decodeByteSlice      -> SBytes
     decode.go:369 decodeByteArray      -> SFixed n ([n]byte: exactly n bytes)
     decode.go:476 makeNilPtrDecoder    -> SAddrOpt (pointer to common.Address, tag rlp:"nil":
                                            empty STRING -> nil, empty LIST -> error,
                                            otherwise a [20]byte)
     decode.go:297 decodeListSlice      -> SList s
     decode.go:396 makeStructDecoder    -> SStruct fs (exactly len fs elements:
                                            "too few elements" / errNotAtEOL otherwise)
   What is NOT the same as Go: WHICH error is reported for a rejected input
   (Go reports the first failing field in stream order, this layer reports
   structural errors of the whole value first).  Users of this layer must
   therefore compare error classes only as "rlp error".

   The encoder (encode.go writers: writeUint, writeBigInt, writeU256, writeBytes,
   byte arrays, nil pointer of string kind = 0x80, slices and structs as lists)
   does not depend on the schema once the value is given: [enc_v].

   Names other families may rely on (keep stable):
     schema value enc_v dec_s conforms decode_typed encode_typed *)
From GV Require Import Lib.Bytes Rlp.Item Rlp.Codec Rlp.Stream.
Local Open Scope N_scope.

Inductive schema : Type :=
| SUint (bits : N)          (* uint8 / uint16 / uint32 / uint64 *)
| SBig                      (* *big.Int (non-negative) *)
| SU256                     (* uint256.Int / *uint256.Int *)
| SBytes                    (* []byte *)
| SFixed (n : N)            (* [n]byte *)
| SAddrOpt                  (* *[20]byte with struct tag rlp:"nil" *)
| SList (s : schema)        (* []T *)
| SStruct (fs : list schema). (* struct with these fields, in order, no optional/tail *)

Inductive value : Type :=
| VNum (n : N)
| VBytes (b : list N)
| VNone                     (* nil pointer *)
| VList (l : list value).

(* encode.go: the writers for the types above *)
Fixpoint enc_v (v : value) : item :=
  match v with
  | VNum n => Str (be_bytes n)
  | VBytes b => Str b
  | VNone => Str []                 (* makePtrWriter: nilEncoding 0x80 for String nil kind *)
  | VList l => Lst (map enc_v l)
  end.

(* [v] is a Go value of the type named by the schema *)
Fixpoint conforms (s : schema) (v : value) {struct s} : bool :=
  match s, v with
  | SUint bits, VNum n => n <? 2 ^ bits
  | SBig, VNum _ => true
  | SU256, VNum n => n <? 2 ^ 256
  | SBytes, VBytes _ => true
  | SFixed n, VBytes b => lenN b =? n
  | SAddrOpt, VNone => true
  | SAddrOpt, VBytes b => lenN b =? 20
  | SList s', VList l => forallb (conforms s') l
  | SStruct fs, VList l =>
      (fix go (fs : list schema) (l : list value) {struct fs} : bool :=
         match fs, l with
         | [], [] => true
         | f :: fs', x :: l' => conforms f x && go fs' l'
         | _, _ => false
         end) fs l
  | _, _ => false
  end.

(* canonical integer content of at most [maxlen] bytes (maxlen = None: unbounded) *)
Definition dec_int (maxlen : option N) (toolarge : err) (b : list N) : result value :=
  match maxlen with
  | Some m => if m <? lenN b then Err toolarge
              else if no_lead0 b then Ok (VNum (be_decode b)) else Err ErrCanonInt
  | None => if no_lead0 b then Ok (VNum (be_decode b)) else Err ErrCanonInt
  end.

Definition wrap_list (r : result (list value)) : result value :=
  match r with Err e => Err e | Ok vs => Ok (VList vs) end.

Fixpoint dec_s (s : schema) (x : item) {struct s} : result value :=
  match s with
  | SUint bits =>
      match x with
      | Str b => dec_int (Some (bits / 8)) ErrUintOverflow b
      | Lst _ => Err ErrExpectedString
      end
  | SBig =>
      match x with
      | Str b => dec_int None ErrUintOverflow b
      | Lst _ => Err ErrExpectedString
      end
  | SU256 =>
      match x with
      | Str b => dec_int (Some 32) ErrUint256Large b
      | Lst _ => Err ErrExpectedString
      end
  | SBytes =>
      match x with
      | Str b => Ok (VBytes b)
      | Lst _ => Err ErrExpectedString
      end
  | SFixed n =>
      match x with
      | Str b => if n <? lenN b then Err ErrUintOverflow
                 else if lenN b <? n then Err ErrWrongSize else Ok (VBytes b)
      | Lst _ => Err ErrExpectedString
      end
  | SAddrOpt =>
      match x with
      | Str [] => Ok VNone
      | Lst [] => Err ErrExpectedString       (* "wrong kind of empty value" *)
      | Str b => if 20 <? lenN b then Err ErrUintOverflow
                 else if lenN b <? 20 then Err ErrWrongSize else Ok (VBytes b)
      | Lst _ => Err ErrExpectedString
      end
  | SList s' =>
      match x with
      | Str _ => Err ErrExpectedList
      | Lst l =>
          wrap_list ((fix go (l : list item) : result (list value) :=
             match l with
             | [] => Ok []
             | y :: l' =>
                 match dec_s s' y with
                 | Err e => Err e
                 | Ok v => match go l' with Err e => Err e | Ok vs => Ok (v :: vs) end
                 end
             end) l)
      end
  | SStruct fs =>
      match x with
      | Str _ => Err ErrExpectedList
      | Lst l =>
          wrap_list ((fix go (fs : list schema) (l : list item) {struct fs} : result (list value) :=
             match fs, l with
             | [], [] => Ok []
             | [], _ :: _ => Err ErrNotAtEOL     (* input list has too many elements *)
             | _ :: _, [] => Err EOL             (* too few elements *)
             | f :: fs', y :: l' =>
                 match dec_s f y with
                 | Err e => Err e
                 | Ok v => match go fs' l' with Err e => Err e | Ok vs => Ok (v :: vs) end
                 end
             end) fs l)
      end
  end.

(* rlp.DecodeBytes(b, &v) for v of the schema's type *)
Definition decode_typed (s : schema) (b : list N) : result value :=
  match decode_bytes b with
  | Err e => Err e
  | Ok x => dec_s s x
  end.

(* rlp.EncodeToBytes(v) *)
Definition encode_typed (v : value) : list N := enc (enc_v v).
