(* Rlp/Stream.v — the streaming decoder of /repo/rlp/decode.go, transcribed
   as a state machine, as seen through  rlp.DecodeBytes(b, &v)  and
   rlp.NewStream(bytes.NewReader(b), 0).Decode(&v)  (both set limited=true and
   remaining=len(b)), for v of type interface{} (generic decoding into
   []byte / []interface{}) and of the basic typed kinds.

   State = the three Stream fields that influence results:
     inp    the unread input (sliceReader / bytes.Reader contents)
     rem    Stream.remaining (uint64)
     stack  Stream.stack, innermost list first (uint64 each)
   The cached kind/size/kinderr/byteval fields are modelled by passing the
   result of [kind_] to the consumer (every Go consumer calls s.Kind() first
   and the generic/typed decoders never call it twice with a read in between).
   Errors abort the whole decode, so they carry only their class.

   uint64 wrap-around: the only expression that can wrap is
   `s.stack[len-1] = limit - size` in Stream.List (decode.go:809): Kind()
   compares size with the list limit sampled BEFORE the header bytes were
   consumed (decode.go:1018-1029), so size may exceed the current limit when
   trailing input makes `size <= remaining` true.  It is written out mod 2^64.
   willRead subtracts only after checking n <= limit / n <= remaining. *)
From GV Require Import Lib.Bytes Rlp.Item Rlp.Raw.
Local Open Scope N_scope.

Record st : Type := mkSt { inp : list N; rem : N; stack : list N }.

Definition W64 : N := 2 ^ 64.

(* decode.go:1158 willRead(n) (limited = true) *)
Definition will_read (n : N) (s : st) : result st :=
  match stack s with
  | [] =>
      if rem s <? n then Err ErrValueTooLarge
      else Ok (mkSt (inp s) (rem s - n) [])
  | limit :: tl =>
      if limit <? n then Err ErrElemTooLarge
      else if rem s <? n then Err ErrValueTooLarge
      else Ok (mkSt (inp s) (rem s - n) ((limit - n) :: tl))
  end.

(* decode.go:1145 readByte; the reader's io.EOF becomes io.ErrUnexpectedEOF *)
Definition read_byte (s : st) : result (N * st) :=
  match will_read 1 s with
  | Err e => Err e
  | Ok s1 =>
      match inp s1 with
      | [] => Err ErrUnexpectedEOF
      | b :: tl => Ok (b, mkSt tl (rem s1) (stack s1))
      end
  end.

(* decode.go:1123 readFull(buf), len(buf) = n *)
Definition read_full (n : N) (s : st) : result (list N * st) :=
  match will_read n s with
  | Err e => Err e
  | Ok s1 =>
      match take_drop n (inp s1) with
      | None => Err ErrUnexpectedEOF
      | Some (b, tl) => Ok (b, mkSt tl (rem s1) (stack s1))
      end
  end.

(* decode.go:1098 readUint(size), size <= 8 at every call site *)
Definition read_uint (size : N) (s : st) : result (N * st) :=
  if size =? 0 then Ok (0, s)
  else if size =? 1 then read_byte s
  else
    match read_full size s with
    | Err e => Err e
    | Ok (b, s1) =>
        match b with
        | [] => Err ErrUnexpectedEOF       (* unreachable: size >= 2 bytes were read *)
        | b0 :: _ => if b0 =? 0 then Err ErrCanonSize else Ok (be_decode b, s1)
        end
    end.

(* decode.go:1038 readKind -> (kind, size, byteval) *)
Definition read_kind_s (s : st) : result (kind * N * N * st) :=
  match read_byte s with
  | Err e =>
      Err (match stack s with
           | [] => match e with
                   | ErrUnexpectedEOF => ErrEOF
                   | ErrValueTooLarge => ErrEOF
                   | _ => e
                   end
           | _ :: _ => e
           end)
  | Ok (b, s1) =>
      if b <? 128 then Ok (KByte, 0, b, s1)
      else if b <? 184 then Ok (KString, b - 128, 0, s1)
      else if b <? 192 then
        match read_uint (b - 183) s1 with
        | Err e => Err e
        | Ok (size, s2) => if size <? 56 then Err ErrCanonSize else Ok (KString, size, 0, s2)
        end
      else if b <? 248 then Ok (KList, b - 192, 0, s1)
      else
        match read_uint (b - 247) s1 with
        | Err e => Err e
        | Ok (size, s2) => if size <? 56 then Err ErrCanonSize else Ok (KList, size, 0, s2)
        end
  end.

(* decode.go:1011 Kind() with s.kind < 0.  NB: listLimit is sampled before
   readKind consumes the header. *)
Definition kind_ (s : st) : result (kind * N * N * st) :=
  match stack s with
  | [] =>
      match read_kind_s s with
      | Err e => Err e
      | Ok (k, size, bv, s1) =>
          if rem s1 <? size then Err ErrValueTooLarge else Ok (k, size, bv, s1)
      end
  | listLimit :: _ =>
      if listLimit =? 0 then Err EOL else
      match read_kind_s s with
      | Err e => Err e
      | Ok (k, size, bv, s1) =>
          if listLimit <? size then Err ErrElemTooLarge
          else if rem s1 <? size then Err ErrValueTooLarge
          else Ok (k, size, bv, s1)
      end
  end.

(* decode.go:796 List(), after Kind() returned (List, size) *)
Definition list_ (size : N) (s : st) : st :=
  match stack s with
  | [] => mkSt (inp s) (rem s) [size]
  | limit :: tl => mkSt (inp s) (rem s) (size :: ((limit + W64 - size) mod W64) :: tl)
  end.

(* decode.go:819 ListEnd() *)
Definition list_end (s : st) : result st :=
  match stack s with
  | [] => Err ErrNotInList
  | limit :: tl => if 0 <? limit then Err ErrNotAtEOL else Ok (mkSt (inp s) (rem s) tl)
  end.

(* decode.go:635 Bytes(), after Kind() returned (k, size, bv) *)
Definition bytes_ (k : kind) (size bv : N) (s : st) : result (list N * st) :=
  match k with
  | KByte => Ok ([bv], s)
  | KString =>
      match read_full size s with
      | Err e => Err e
      | Ok (b, s1) =>
          match b with
          | [b0] => if b0 <? 128 then Err ErrCanonSize else Ok (b, s1)
          | _ => Ok (b, s1)
          end
      end
  | KList => Err ErrExpectedString
  end.

(* decode.go:517 decodeInterface + :297 decodeListSlice + :312 decodeSliceElems.
   Fuel: every call of [dec_iface] that returns Ok has consumed >= 1 byte, so
   2*len+2 is never exhausted (StreamProofs.stream_fuel_ok). *)
Fixpoint dec_iface (fuel : nat) (s : st) : result (item * st) :=
  match fuel with
  | O => Err OutOfFuel
  | S f =>
      match kind_ s with
      | Err e => Err e
      | Ok (k, size, bv, s1) =>
          match k with
          | KList =>
              let s2 := list_ size s1 in
              if size =? 0 then
                match list_end s2 with Err e => Err e | Ok s3 => Ok (Lst [], s3) end
              else
                match dec_elems f s2 with
                | Err e => Err e
                | Ok (l, s3) =>
                    match list_end s3 with Err e => Err e | Ok s4 => Ok (Lst l, s4) end
                end
          | _ =>
              match bytes_ k size bv s1 with
              | Err e => Err e
              | Ok (b, s2) => Ok (Str b, s2)
              end
          end
      end
  end
with dec_elems (fuel : nat) (s : st) : result (list item * st) :=
  match fuel with
  | O => Err OutOfFuel
  | S f =>
      match dec_iface f s with
      | Err EOL => Ok ([], s)
      | Err e => Err e
      | Ok (x, s1) =>
          match dec_elems f s1 with
          | Err e => Err e
          | Ok (l, s2) => Ok (x :: l, s2)
          end
      end
  end.

Definition init (b : list N) : st := mkSt b (lenN b) [].
Definition fuel_for (b : list N) : nat := 2 * length b + 2.

(* NewStream(bytes.NewReader(b), 0).Decode(&v) with v interface{}:
   the decoded tree and the unread input *)
Definition stream_decode (b : list N) : result (item * list N) :=
  match dec_iface (fuel_for b) (init b) with
  | Err e => Err e
  | Ok (x, s) => Ok (x, inp s)
  end.

(* decode.go:92 DecodeBytes(b, &v), v interface{} *)
Definition decode_bytes (b : list N) : result item :=
  match stream_decode b with
  | Err e => Err e
  | Ok (x, []) => Ok x
  | Ok (_, _ :: _) => Err ErrMoreThanOneValue
  end.

(* ---- typed primitives, each as DecodeBytes(b, &v) would run them at top
   level; they return the value and the final state ---- *)

(* decode.go:742 Stream.uint(maxbits), maxbits in {8,16,32,64} *)
Definition uint_ (maxbits : N) (s : st) : result (N * st) :=
  match kind_ s with
  | Err e => Err e
  | Ok (k, size, bv, s1) =>
      match k with
      | KByte => if bv =? 0 then Err ErrCanonInt else Ok (bv, s1)
      | KString =>
          if maxbits / 8 <? size then Err ErrUintOverflow else
          match read_uint size s1 with
          | Err ErrCanonSize => Err ErrCanonInt
          | Err e => Err e
          | Ok (v, s2) =>
              if (0 <? size) && (v <? 128) then Err ErrCanonSize else Ok (v, s2)
          end
      | KList => Err ErrExpectedString
      end
  end.

(* decode.go:778 Bool() *)
Definition bool_ (s : st) : result (bool * st) :=
  match uint_ 8 s with
  | Err e => Err e
  | Ok (v, s1) =>
      if v =? 0 then Ok (false, s1) else if v =? 1 then Ok (true, s1)
      else Err ErrInvalidBool
  end.

(* decode.go:848 decodeBigInt (u256 = false) and :892 ReadUint256 (u256 = true);
   len(s.uintbuf) = 32 *)
Definition bigint_ (u256 : bool) (s : st) : result (N * st) :=
  match kind_ s with
  | Err e => Err e
  | Ok (k, size, bv, s1) =>
      let finish (buffer : list N) (s2 : st) :=
        if no_lead0 buffer then Ok (be_decode buffer, s2) else Err ErrCanonInt in
      match k with
      | KList => Err ErrExpectedString
      | KByte => finish [bv] s1
      | KString =>
          if size =? 0 then finish [] s1
          else if size <=? 32 then
            match read_full size s1 with
            | Err e => Err e
            | Ok (b, s2) =>
                match b with
                | [b0] => if b0 <? 128 then Err ErrCanonSize else finish b s2
                | _ => finish b s2
                end
            end
          else if u256 then Err ErrUint256Large
          else
            match read_full size s1 with
            | Err e => Err e
            | Ok (b, s2) => finish b s2
            end
      end
  end.

(* decode.go:369 decodeByteArray for [n]byte.  "input string too long" is
   reported with the class of errUintOverflow (same message), "too short" as
   ErrWrongSize. *)
Definition byte_array_ (n : N) (s : st) : result (list N * st) :=
  match kind_ s with
  | Err e => Err e
  | Ok (k, size, bv, s1) =>
      match k with
      | KByte =>
          if n =? 0 then Err ErrUintOverflow
          else if 1 <? n then Err ErrWrongSize
          else Ok ([bv], s1)
      | KString =>
          if n <? size then Err ErrUintOverflow
          else if size <? n then Err ErrWrongSize
          else
            match read_full n s1 with
            | Err e => Err e
            | Ok (b, s2) =>
                match b with
                | [b0] => if b0 <? 128 then Err ErrCanonSize else Ok (b, s2)
                | _ => Ok (b, s2)
                end
            end
      | KList => Err ErrExpectedString
      end
  end.

(* decode.go:360 decodeByteSlice / :218 decodeString *)
Definition byteslice_ (s : st) : result (list N * st) :=
  match kind_ s with
  | Err e => Err e
  | Ok (k, size, bv, s1) => bytes_ k size bv s1
  end.

(* DecodeBytes wrapper: run a primitive on init b, then reject trailing data *)
Definition decode_bytes_with {A} (p : st -> result (A * st)) (b : list N) : result A :=
  match p (init b) with
  | Err e => Err e
  | Ok (v, s) => match inp s with [] => Ok v | _ :: _ => Err ErrMoreThanOneValue end
  end.

(* the stream's view of the first value's boundaries, for comparison with
   raw.go Split: Stream.Kind(), then Stream.Bytes() for a string / byte, or the
   content read of Stream.Raw() (decode.go:690, readFull of `size` bytes) for
   a list.  Returns kind, content, unread input. *)
Definition stream_split (b : list N) : result (kind * list N * list N) :=
  match kind_ (init b) with
  | Err e => Err e
  | Ok (k, size, bv, s1) =>
      match k with
      | KList =>
          match read_full size s1 with
          | Err e => Err e
          | Ok (c, s2) => Ok (KList, c, inp s2)
          end
      | _ =>
          match bytes_ k size bv s1 with
          | Err e => Err e
          | Ok (c, s2) => Ok (k, c, inp s2)
          end
      end
  end.
