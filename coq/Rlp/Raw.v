(* Rlp/Raw.v — the raw splitting helpers of /repo/rlp/raw.go, transcribed
   function by function (they are code separate from the Stream decoder, so
   they get their own model).  Byte strings are [list N]; "uint64" values are
   [N] and are < 2^64 by construction here (at most 8 size bytes), no wrap can
   occur in this file: the only subtraction, len(buf)-tagsize in readKind, is
   performed after readSize checked that the size bytes are present.

   Names other families rely on (keep stable):
     kind KByte KString KList read_size read_kind split split_string
     split_list split_uint64 count_values *)
From GV Require Import Lib.Bytes Rlp.Item.
Local Open Scope N_scope.

(* rlp.Kind *)
Inductive kind : Type := KByte | KString | KList.

Definition kind_code (k : kind) : N :=
  match k with KByte => 0 | KString => 1 | KList => 2 end.

(* raw.go readSize(b, slen): big-endian size of slen bytes; the Go switch has
   cases 1..8 only, any other slen leaves s = 0 (callers pass 1..8). *)
Definition read_size (b : list N) (slen : N) : result N :=
  if lenN b <? slen then Err ErrUnexpectedEOF else
  let s := if (1 <=? slen) && (slen <=? 8)
           then be_decode (firstn (N.to_nat slen) b) else 0 in
  (* if s < 56 || b[0] == 0 { return 0, ErrCanonSize } *)
  if s <? 56 then Err ErrCanonSize else
  match b with
  | [] => Err ErrCanonSize          (* unreachable: s >= 56 needs slen >= 1 <= len b *)
  | b0 :: _ => if b0 =? 0 then Err ErrCanonSize else Ok s
  end.

(* raw.go readKind(buf) -> (kind, tagsize, contentsize) *)
Definition read_kind (buf : list N) : result (kind * N * N) :=
  match buf with
  | [] => Err ErrUnexpectedEOF
  | b :: tl =>
      let check (k : kind) (tagsize contentsize : N) :=
        (* Reject values larger than the input slice. *)
        if lenN buf - tagsize <? contentsize then Err ErrValueTooLarge
        else Ok (k, tagsize, contentsize) in
      if b <? 128 then check KByte 0 1
      else if b <? 184 then
        let contentsize := b - 128 in
        (* Reject strings that should've been single bytes. *)
        match tl with
        | b1 :: _ => if (contentsize =? 1) && (b1 <? 128) then Err ErrCanonSize
                     else check KString 1 contentsize
        | [] => check KString 1 contentsize
        end
      else if b <? 192 then
        match read_size tl (b - 183) with
        | Err e => Err e
        | Ok contentsize => check KString (b - 183 + 1) contentsize
        end
      else if b <? 248 then check KList 1 (b - 192)
      else
        match read_size tl (b - 247) with
        | Err e => Err e
        | Ok contentsize => check KList (b - 247 + 1) contentsize
        end
  end.

(* raw.go Split(b) -> (k, content, rest) *)
Definition split (b : list N) : result (kind * list N * list N) :=
  match read_kind b with
  | Err e => Err e
  | Ok (k, ts, cs) =>
      Ok (k, firstn (N.to_nat cs) (skipn (N.to_nat ts) b), skipn (N.to_nat (ts + cs)) b)
  end.

(* raw.go SplitString *)
Definition split_string (b : list N) : result (list N * list N) :=
  match split b with
  | Err e => Err e
  | Ok (k, content, rest) =>
      match k with KList => Err ErrExpectedString | _ => Ok (content, rest) end
  end.

(* raw.go SplitList *)
Definition split_list (b : list N) : result (list N * list N) :=
  match split b with
  | Err e => Err e
  | Ok (k, content, rest) =>
      match k with KList => Ok (content, rest) | _ => Err ErrExpectedList end
  end.

(* raw.go SplitUint64 *)
Definition split_uint64 (b : list N) : result (N * list N) :=
  match split_string b with
  | Err e => Err e
  | Ok (content, rest) =>
      match content with
      | [] => Ok (0, rest)
      | [c0] => if c0 =? 0 then Err ErrCanonInt else Ok (c0, rest)
      | _ =>
          if 8 <? lenN content then Err ErrUintOverflow else
          match read_size content (lenN content) with
          | Err _ => Err ErrCanonInt
          | Ok x => Ok (x, rest)
          end
      end
  end.

(* raw.go CountValues: returns (count, nil) or (i+1, err).  The Go loop runs
   while len(b) > 0 and each iteration drops tagsize+size >= 1 bytes; fuel =
   len(b)+1 is therefore never exhausted (RawProofs.count_values_fuel). *)
Fixpoint count_values_f (fuel : nat) (b : list N) (i : N) : N * option err :=
  match fuel with
  | O => (i, Some OutOfFuel)
  | S f =>
      match b with
      | [] => (i, None)
      | _ =>
          match read_kind b with
          | Err e => (i + 1, Some e)
          | Ok (_, ts, cs) => count_values_f f (skipn (N.to_nat (ts + cs)) b) (i + 1)
          end
      end
  end.
Definition count_values (b : list N) : N * option err :=
  count_values_f (S (length b)) b 0.
