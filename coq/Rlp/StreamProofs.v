(* Rlp/StreamProofs.v — the stream decoder model (Rlp/Stream.v) accepts
   exactly the canonical encodings:
     stream_decode (enc x ++ r) = Ok (x, r)                 (fits, total length < 2^64)
     stream_decode b = Ok (x, r) -> b = enc x ++ r          (length b < 2^64)
   The second needs care because Stream.List can wrap the enclosing list's
   limit (see Stream.v header): a state whose stack sums to more than the
   remaining input ("doomed") can never reach the top-level Ok. *)
From GV Require Import Lib.Tactics Lib.Bytes Lib.BytesProofs Rlp.Item Rlp.Raw Rlp.Codec.
From GV Require Import Rlp.RawProofs Rlp.CodecProofs Rlp.Stream.
Local Open Scope N_scope.

Definition sub_top (n : N) (stk : list N) : list N :=
  match stk with [] => [] | t :: tl => (t - n) :: tl end.

(* n more bytes may be read: within the input limit and the innermost list *)
Definition room (n : N) (s : st) : Prop :=
  n <= rem s /\ match stack s with [] => True | t :: _ => n <= t end.

Definition adv (n : N) (tl : list N) (s : st) : st :=
  mkSt tl (rem s - n) (sub_top n (stack s)).

Fixpoint sumN (l : list N) : N := match l with [] => 0 | t :: tl => t + sumN tl end.

Definition wf (s : st) : Prop := rem s < W64 /\ Forall (fun t => t < W64) (stack s).
Definition inv (s : st) : Prop := sumN (stack s) <= rem s.
Definition doomed (s : st) : Prop := rem s < sumN (stack s).

Lemma W64_pos : 0 < W64. Proof. reflexivity. Qed.

(* ---------- primitives ---------- *)

Lemma will_read_ok n s : room n s -> will_read n s = Ok (adv n (inp s) s).
Proof.
  intros [Hr Ht]. unfold will_read, adv. destruct (stack s) as [|t tl]; cbn [sub_top].
  - destruct (N.ltb_spec (rem s) n); [lia|reflexivity].
  - destruct (N.ltb_spec t n); [lia|]. destruct (N.ltb_spec (rem s) n); [lia|reflexivity].
Qed.

Lemma will_read_inv n s s' : will_read n s = Ok s' -> room n s /\ s' = adv n (inp s) s.
Proof.
  unfold will_read, room, adv. destruct (stack s) as [|t tl]; cbn [sub_top].
  - destruct (N.ltb_spec (rem s) n); [discriminate|]. intros E; inversion E. auto.
  - destruct (N.ltb_spec t n); [discriminate|].
    destruct (N.ltb_spec (rem s) n); [discriminate|]. intros E; inversion E. auto.
Qed.

Lemma read_byte_ok s b tl : room 1 s -> inp s = b :: tl -> read_byte s = Ok (b, adv 1 tl s).
Proof.
  intros Hr Hi. unfold read_byte. rewrite (will_read_ok 1 s Hr). cbn [inp adv]. rewrite Hi. reflexivity.
Qed.

Lemma read_byte_inv s b s' :
  read_byte s = Ok (b, s') -> room 1 s /\ inp s = b :: inp s' /\ s' = adv 1 (inp s') s.
Proof.
  unfold read_byte. destruct (will_read 1 s) as [s1|] eqn:E; [|discriminate].
  apply will_read_inv in E as [Hr ->]. cbn [inp adv]. destruct (inp s) as [|b0 tl]; [discriminate|].
  intros E; inversion E; subst. cbn. auto.
Qed.

Lemma read_full_ok s a tl :
  room (lenN a) s -> inp s = a ++ tl -> read_full (lenN a) s = Ok (a, adv (lenN a) tl s).
Proof.
  intros Hr Hi. unfold read_full. rewrite (will_read_ok _ s Hr). cbn [inp adv].
  rewrite Hi, take_drop_app. reflexivity.
Qed.

Lemma read_full_inv n s a s' :
  read_full n s = Ok (a, s') ->
  room n s /\ inp s = a ++ inp s' /\ lenN a = n /\ s' = adv n (inp s') s.
Proof.
  unfold read_full. destruct (will_read n s) as [s1|] eqn:E; [|discriminate].
  apply will_read_inv in E as [Hr ->]. cbn [inp adv].
  destruct (take_drop n (inp s)) as [[a' tl]|] eqn:Et; [|discriminate].
  apply take_drop_some in Et as [Hi Hl]. intros E; inversion E; subst. cbn. auto.
Qed.

Lemma adv_adv n m tl tl' s : adv m tl' (adv n tl s) = adv (n + m) tl' s.
Proof.
  unfold adv. cbn [rem stack]. f_equal; [lia|]. destruct (stack s); cbn; [reflexivity|f_equal; lia].
Qed.

Lemma room_adv n m tl s : room n s -> room m (adv n tl s) -> room (n + m) s.
Proof.
  unfold room, adv. cbn [rem stack]. destruct (stack s); cbn [sub_top]; lia.
Qed.

Lemma room_split n m tl s : room (n + m) s -> room n s /\ room m (adv n tl s).
Proof.
  unfold room, adv. cbn [rem stack]. destruct (stack s); cbn [sub_top]; lia.
Qed.

(* ---- readUint as used for long-form sizes ---- *)

Lemma read_uint_size_ok s size tl :
  56 <= size -> size < W64 -> room (lenN (be_bytes size)) s -> inp s = be_bytes size ++ tl ->
  read_uint (lenN (be_bytes size)) s = Ok (size, adv (lenN (be_bytes size)) tl s).
Proof.
  intros H56 H64 Hr Hi. unfold read_uint.
  pose proof (be_bytes_len_pos size ltac:(lia)) as L1.
  pose proof (be_bytes_hd size) as Hh. pose proof (be_bytes_decode size) as Hd.
  destruct (N.eqb_spec (lenN (be_bytes size)) 0); [lia|].
  destruct (N.eqb_spec (lenN (be_bytes size)) 1) as [E1|E1].
  - destruct (be_bytes size) as [|x [|y t]] eqn:Eb; try (unfold lenN in E1; cbn in E1; lia).
    cbn in Hd. subst x. rewrite E1 in *. apply read_byte_ok; assumption.
  - rewrite (read_full_ok s _ tl Hr Hi).
    destruct (be_bytes size) as [|x t]; [contradiction|]. destruct Hh as [Hx _].
    destruct (N.eqb_spec x 0); [contradiction|]. rewrite Hd. reflexivity.
Qed.

Lemma read_uint_size_inv n s size s' :
  1 <= n -> n <= 8 -> bytesb (inp s) = true -> read_uint n s = Ok (size, s') -> 56 <= size ->
  size < W64 /\ lenN (be_bytes size) = n /\ room n s /\
  inp s = be_bytes size ++ inp s' /\ s' = adv n (inp s') s.
Proof.
  intros H1 H8 Hb. unfold read_uint.
  destruct (N.eqb_spec n 0); [lia|]. destruct (N.eqb_spec n 1) as [E1|E1].
  - intros E H56. apply read_byte_inv in E as (Hr & Hi & Hs).
    rewrite Hi in Hb. cbn in Hb. apply andb_true_iff in Hb as [Hb _]. unfold byteb in Hb.
    apply N.ltb_lt in Hb.
    assert (Hbb : be_bytes size = [size]).
    { apply (be_decode_bytes [size]); cbn.
      - unfold byteb. rewrite andb_true_r. apply N.ltb_lt. exact Hb.
      - apply negb_true_iff, N.eqb_neq. lia. }
    rewrite Hbb. subst n. split; [unfold W64; lia|]. split; [reflexivity|]. split; [exact Hr|].
    split; [exact Hi|exact Hs].
  - destruct (read_full n s) as [[a s1]|] eqn:E; [|discriminate].
    apply read_full_inv in E as (Hr & Hi & Hl & Hs).
    destruct a as [|a0 t]; [discriminate|].
    destruct (N.eqb_spec a0 0); [discriminate|]. intros E2 H56. inversion E2; subst size s1.
    assert (Hab : bytesb (a0 :: t) = true).
    { rewrite Hi, bytesb_app in Hb. apply andb_true_iff in Hb. tauto. }
    assert (Hbb : be_bytes (be_decode (a0 :: t)) = a0 :: t).
    { apply be_decode_bytes; [exact Hab|]. cbn. apply negb_true_iff, N.eqb_neq. assumption. }
    rewrite Hbb. split; [apply be_decode_lt_64; [exact Hab|lia]|]. split; [exact Hl|].
    split; [exact Hr|]. split; [exact Hi|exact Hs].
Qed.

(* ---------- Kind() ---------- *)

(* what Kind() reports for a header h *)
Definition hdr_spec (k : kind) (size bv : N) (h : list N) : Prop :=
  match k with
  | KByte => h = [bv] /\ bv < 128 /\ size = 0
  | KString => h = enc_head 128 183 size /\ bv = 0
  | KList => h = enc_head 192 247 size /\ bv = 0
  end.

Lemma read_kind_s_inv s k size bv s1 :
  bytesb (inp s) = true -> read_kind_s s = Ok (k, size, bv, s1) ->
  exists h, inp s = h ++ inp s1 /\ room (lenN h) s /\ s1 = adv (lenN h) (inp s1) s /\
            1 <= lenN h /\ size < W64 /\ hdr_spec k size bv h.
Proof.
  intros Hb. unfold read_kind_s. destruct (read_byte s) as [[b s0]|] eqn:E; [|discriminate].
  apply read_byte_inv in E as (Hr & Hi & Hs).
  assert (Hb0 : b < 256).
  { rewrite Hi in Hb. cbn in Hb. apply andb_true_iff in Hb as [Hb _]. apply N.ltb_lt. exact Hb. }
  assert (Hbs0 : bytesb (inp s0) = true).
  { rewrite Hi in Hb. cbn in Hb. apply andb_true_iff in Hb. tauto. }
  destruct (N.ltb_spec b 128).
  { intros E; inversion E; subst. exists [bv]. cbn [hdr_spec app]. change (lenN [bv]) with 1.
    split; [exact Hi|]. split; [exact Hr|]. split; [exact Hs|]. split; [lia|].
    split; [unfold W64; lia|]. split; [reflexivity|]. split; [assumption|reflexivity]. }
  destruct (N.ltb_spec b 184).
  { intros E; inversion E; subst. exists [b]. cbn [hdr_spec app]. change (lenN [b]) with 1.
    rewrite enc_head_short by lia. replace (128 + (b - 128)) with b by lia.
    split; [exact Hi|]. split; [exact Hr|]. split; [exact Hs|]. split; [lia|].
    split; [unfold W64; lia|]. split; reflexivity. }
  destruct (N.ltb_spec b 192).
  { destruct (read_uint (b - 183) s0) as [[sz s2]|] eqn:Eu; [|discriminate].
    destruct (N.ltb_spec sz 56); [discriminate|]. intros E; inversion E; subst.
    apply read_uint_size_inv in Eu as (H64 & Hl & Hr2 & Hi2 & Hs2); try assumption; try lia.
    exists (b :: be_bytes size). cbn [hdr_spec]. rewrite enc_head_long by assumption.
    rewrite Hl, lenN_cons, Hl. replace (183 + (b - 183)) with b by lia.
    rewrite Hs in Hs2, Hr2. rewrite adv_adv in Hs2.
    split; [cbn [app]; rewrite Hi, Hi2; reflexivity|].
    split; [eapply room_adv; eassumption|]. split; [exact Hs2|]. split; [lia|].
    split; [exact H64|]. split; reflexivity. }
  destruct (N.ltb_spec b 248).
  { intros E; inversion E; subst. exists [b]. cbn [hdr_spec app]. change (lenN [b]) with 1.
    rewrite enc_head_short by lia. replace (192 + (b - 192)) with b by lia.
    split; [exact Hi|]. split; [exact Hr|]. split; [exact Hs|]. split; [lia|].
    split; [unfold W64; lia|]. split; reflexivity. }
  destruct (read_uint (b - 247) s0) as [[sz s2]|] eqn:Eu; [|discriminate].
  destruct (N.ltb_spec sz 56); [discriminate|]. intros E; inversion E; subst.
  apply read_uint_size_inv in Eu as (H64 & Hl & Hr2 & Hi2 & Hs2); try assumption; try lia.
  exists (b :: be_bytes size). cbn [hdr_spec]. rewrite enc_head_long by assumption.
  rewrite Hl, lenN_cons, Hl. replace (247 + (b - 247)) with b by lia.
  rewrite Hs in Hs2, Hr2. rewrite adv_adv in Hs2.
  split; [cbn [app]; rewrite Hi, Hi2; reflexivity|].
  split; [eapply room_adv; eassumption|]. split; [exact Hs2|]. split; [lia|].
  split; [exact H64|]. split; reflexivity.
Qed.

Lemma kind_inv s k size bv s1 :
  bytesb (inp s) = true -> kind_ s = Ok (k, size, bv, s1) ->
  exists h, inp s = h ++ inp s1 /\ room (lenN h) s /\ s1 = adv (lenN h) (inp s1) s /\
            1 <= lenN h /\ size < W64 /\ hdr_spec k size bv h /\
            size <= rem s1 /\ (forall t tl, stack s = t :: tl -> size <= t).
Proof.
  intros Hb. unfold kind_. destruct (stack s) as [|t tl] eqn:Est.
  - destruct (read_kind_s s) as [[[[k' sz] bv'] s']|] eqn:E; [|discriminate].
    destruct (N.ltb_spec (rem s') sz); [discriminate|]. intros E2; inversion E2; subst.
    destruct (read_kind_s_inv _ _ _ _ _ Hb E) as (h & ? & ? & ? & ? & ? & ?).
    exists h. do 6 (split; [assumption|]). split; [assumption|]. intros ? ? ?; discriminate.
  - destruct (N.eqb_spec t 0); [discriminate|].
    destruct (read_kind_s s) as [[[[k' sz] bv'] s']|] eqn:E; [|discriminate].
    destruct (N.ltb_spec t sz); [discriminate|].
    destruct (N.ltb_spec (rem s') sz); [discriminate|]. intros E2; inversion E2; subst.
    destruct (read_kind_s_inv _ _ _ _ _ Hb E) as (h & ? & ? & ? & ? & ? & ?).
    exists h. do 6 (split; [assumption|]). split; [assumption|].
    intros ? ? E3; inversion E3; subst; assumption.
Qed.

(* completeness of Kind() on a canonical header *)
Definition khdr (k : kind) (c : list N) : list N :=
  match k with KByte => c | _ => hdr k c end.
Definition kbody (k : kind) (c : list N) : list N :=
  match k with KByte => [] | _ => c end.
Definition ksize (k : kind) (c : list N) : N :=
  match k with KByte => 0 | _ => lenN c end.
Definition kbv (k : kind) (c : list N) : N :=
  match k, c with KByte, x :: _ => x | _, _ => 0 end.

Lemma khdr_body k c : khdr k c ++ kbody k c = chunk k c.
Proof. destruct k; cbn; [now rewrite app_nil_r|reflexivity|reflexivity]. Qed.

Lemma read_kind_s_ok s k c r :
  chunk_ok k c -> room (lenN (khdr k c)) s -> inp s = khdr k c ++ kbody k c ++ r ->
  read_kind_s s = Ok (k, ksize k c, kbv k c, adv (lenN (khdr k c)) (kbody k c ++ r) s).
Proof.
  intros [Hlen Hk] Hr Hi. unfold read_kind_s. destruct k; cbn [khdr kbody ksize kbv hdr] in *.
  - destruct Hk as (x & -> & Hx). cbn [app] in Hi. change (lenN [x]) with 1 in *.
    rewrite (read_byte_ok s x r Hr Hi). destruct (N.ltb_spec x 128); [reflexivity|lia].
  - destruct (N.lt_ge_cases (lenN c) 56) as [Hs|Hs].
    + rewrite (enc_head_short _ _ _ Hs) in *. cbn [app] in Hi. change (lenN [128 + lenN c]) with 1 in *.
      rewrite (read_byte_ok s _ _ Hr Hi).
      destruct (N.ltb_spec (128 + lenN c) 128); [lia|].
      destruct (N.ltb_spec (128 + lenN c) 184); [|lia].
      replace (128 + lenN c - 128) with (lenN c) by lia. reflexivity.
    + rewrite (enc_head_long _ _ _ Hs) in *. cbn [app] in Hi.
      pose proof (be_bytes_len_64 _ Hlen) as L8.
      pose proof (be_bytes_len_pos (lenN c) ltac:(lia)) as L1.
      rewrite lenN_cons in Hr. rewrite lenN_cons.
      destruct (room_split 1 _ (be_bytes (lenN c) ++ c ++ r) s Hr) as [Hr1 Hr2].
      rewrite (read_byte_ok s _ _ Hr1 Hi).
      set (n := lenN (be_bytes (lenN c))) in *.
      destruct (N.ltb_spec (183 + n) 128); [lia|].
      destruct (N.ltb_spec (183 + n) 184); [lia|].
      destruct (N.ltb_spec (183 + n) 192); [|lia].
      replace (183 + n - 183) with n by lia. subst n.
      rewrite (read_uint_size_ok _ (lenN c) (c ++ r)); try assumption; try reflexivity.
      destruct (N.ltb_spec (lenN c) 56); [lia|]. rewrite adv_adv. reflexivity.
  - destruct (N.lt_ge_cases (lenN c) 56) as [Hs|Hs].
    + rewrite (enc_head_short _ _ _ Hs) in *. cbn [app] in Hi. change (lenN [192 + lenN c]) with 1 in *.
      rewrite (read_byte_ok s _ _ Hr Hi).
      destruct (N.ltb_spec (192 + lenN c) 128); [lia|].
      destruct (N.ltb_spec (192 + lenN c) 184); [lia|].
      destruct (N.ltb_spec (192 + lenN c) 192); [lia|].
      destruct (N.ltb_spec (192 + lenN c) 248); [|lia].
      replace (192 + lenN c - 192) with (lenN c) by lia. reflexivity.
    + rewrite (enc_head_long _ _ _ Hs) in *. cbn [app] in Hi.
      pose proof (be_bytes_len_64 _ Hlen) as L8.
      pose proof (be_bytes_len_pos (lenN c) ltac:(lia)) as L1.
      rewrite lenN_cons in Hr. rewrite lenN_cons.
      destruct (room_split 1 _ (be_bytes (lenN c) ++ c ++ r) s Hr) as [Hr1 Hr2].
      rewrite (read_byte_ok s _ _ Hr1 Hi).
      set (n := lenN (be_bytes (lenN c))) in *.
      destruct (N.ltb_spec (247 + n) 128); [lia|].
      destruct (N.ltb_spec (247 + n) 184); [lia|].
      destruct (N.ltb_spec (247 + n) 192); [lia|].
      destruct (N.ltb_spec (247 + n) 248); [lia|].
      replace (247 + n - 247) with n by lia. subst n.
      rewrite (read_uint_size_ok _ (lenN c) (c ++ r)); try assumption; try reflexivity.
      destruct (N.ltb_spec (lenN c) 56); [lia|]. rewrite adv_adv. reflexivity.
Qed.

Lemma chunk_len k c : lenN (chunk k c) = lenN (khdr k c) + lenN (kbody k c).
Proof. rewrite <- khdr_body, lenN_app. reflexivity. Qed.

Lemma ksize_body k c : ksize k c = lenN (kbody k c).
Proof. destruct k; reflexivity. Qed.

Lemma khdr_pos k c : chunk_ok k c -> 1 <= lenN (khdr k c).
Proof.
  intros [_ Hk]. destruct k; cbn [khdr].
  - destruct Hk as (x & -> & _). cbn. lia.
  - apply enc_head_len.
  - apply enc_head_len.
Qed.

Lemma kind_ok s k c r :
  chunk_ok k c -> room (lenN (chunk k c)) s -> inp s = chunk k c ++ r ->
  kind_ s = Ok (k, ksize k c, kbv k c, adv (lenN (khdr k c)) (kbody k c ++ r) s).
Proof.
  intros Hok Hr Hi. rewrite <- khdr_body, <- app_assoc in Hi. rewrite chunk_len in Hr.
  destruct (room_split _ _ (kbody k c ++ r) s Hr) as [Hr1 Hr2].
  pose proof (khdr_pos k c Hok) as Hp. unfold kind_.
  rewrite (read_kind_s_ok s k c r Hok Hr1 Hi).
  destruct Hr as [Hrr Hrt]. rewrite ksize_body. unfold adv at 1 3. cbn [rem].
  destruct (stack s) as [|t tl].
  - destruct (N.ltb_spec (rem s - lenN (khdr k c)) (lenN (kbody k c))); [lia|reflexivity].
  - destruct (N.eqb_spec t 0); [lia|]. destruct (N.ltb_spec t (lenN (kbody k c))); [lia|].
    destruct (N.ltb_spec (rem s - lenN (khdr k c)) (lenN (kbody k c))); [lia|reflexivity].
Qed.

(* ---------- completeness ---------- *)

Lemma list_adv_nowrap size s t tl :
  stack s = t :: tl -> size <= t -> t < W64 ->
  list_ size s = mkSt (inp s) (rem s) (size :: (t - size) :: tl).
Proof.
  intros Hs Hle Ht. unfold list_. rewrite Hs. f_equal. f_equal. f_equal.
  replace (t + W64 - size) with ((t - size) + 1 * W64) by lia.
  rewrite N.mod_add by (unfold W64; lia). apply N.mod_small. lia.
Qed.

(* a state positioned at a list payload *)
Definition in_list (payload : N) (r : list N) (rm : N) (below : list N) (c : list N) : st :=
  mkSt (c ++ r) rm (payload :: below).

Lemma sub_top_cons n t tl : sub_top n (t :: tl) = (t - n) :: tl.
Proof. reflexivity. Qed.

Lemma dec_elems_enc l :
  Forall (fun x => fits x -> forall f s r, (2 * length (enc x) + 1 <= f)%nat ->
            wf s -> room (lenN (enc x)) s -> inp s = enc x ++ r ->
            dec_iface f s = Ok (x, adv (lenN (enc x)) r s)) l ->
  lenN (enc_list l) < W64 ->
  forall f s r t tl, (2 * length (enc_list l) + 2 <= f)%nat ->
    wf s -> stack s = t :: tl -> t = lenN (enc_list l) -> t <= rem s -> inp s = enc_list l ++ r ->
    dec_elems f s = Ok (l, adv t r s).
Proof.
  induction 1 as [|x l Hx _ IH]; intros Hfit f s r t tl Hf Hwf Hst Ht Hrem Hi.
  - destruct f as [|[|f]]; try lia. cbn [dec_elems dec_iface]. unfold kind_. rewrite Hst.
    cbn in Ht. subst t. cbn. unfold adv. rewrite Hst. cbn. destruct s; cbn in *.
    rewrite N.sub_0_r. subst. reflexivity.
  - destruct f; [lia|]. apply fits_enc_list_cons in Hfit as [Hfx Hfl].
    rewrite enc_list_cons in *. rewrite app_length in Hf. rewrite lenN_app in Ht.
    pose proof (enc_len_pos x) as Hp. assert (Hp' := Hp). unfold lenN in Hp'.
    cbn [dec_elems].
    assert (Hrx : room (lenN (enc x)) s) by (unfold room; rewrite Hst; lia).
    rewrite <- app_assoc in Hi.
    rewrite (Hx Hfx f s (enc_list l ++ r)); [|lia|exact Hwf|exact Hrx|exact Hi].
    assert (Hwf' : wf (adv (lenN (enc x)) (enc_list l ++ r) s)).
    { destruct Hwf as [W1 W2]. split; cbn [adv rem stack]; [lia|].
      rewrite Hst in *. cbn [sub_top]. inversion W2; subst. constructor; [lia|assumption]. }
    rewrite (IH Hfl f _ r (t - lenN (enc x)) tl); [|lia|exact Hwf'| | | |].
    + rewrite adv_adv. do 3 f_equal. lia.
    + cbn [adv stack]. rewrite Hst. reflexivity.
    + lia.
    + cbn [adv rem]. lia.
    + reflexivity.
Qed.

Lemma dec_iface_enc x :
  fits x -> forall f s r, (2 * length (enc x) + 1 <= f)%nat ->
  wf s -> room (lenN (enc x)) s -> inp s = enc x ++ r ->
  dec_iface f s = Ok (x, adv (lenN (enc x)) r s).
Proof.
  induction x as [b|l IH] using item_ind'; intros Hfit f s r Hf Hwf Hr Hi.
  - destruct f; [lia|]. cbn [dec_iface]. cbn [enc] in *. rewrite enc_str_chunk in *.
    pose proof (str_chunk_ok b (fits_str b Hfit)) as Hok.
    rewrite (kind_ok s _ b r Hok Hr Hi).
    pose proof (str_kind_not_list b) as Hnl.
    rewrite chunk_len in Hr.
    destruct (room_split _ _ (kbody (str_kind b) b ++ r) s Hr) as [Hr1 Hr2].
    destruct (str_kind b) eqn:Ek; [| |congruence]; cbn [bytes_ kbody ksize kbv khdr] in *.
    + destruct Hok as [_ (x & -> & Hx)]. cbn [app]. rewrite chunk_len. cbn [khdr kbody].
      rewrite lenN_nil, N.add_0_r. reflexivity.
    + rewrite (read_full_ok _ b r Hr2 eq_refl). rewrite adv_adv, chunk_len. cbn [khdr kbody].
      destruct Hok as [_ Hok]. destruct b as [|b0 [|b1 t]]; try reflexivity.
      specialize (Hok b0 eq_refl). destruct (N.ltb_spec b0 128); [lia|reflexivity].
  - destruct f; [lia|]. cbn [dec_iface]. rewrite enc_lst_chunk in *.
    pose proof (fits_lst l Hfit) as Hl.
    assert (Hok : chunk_ok KList (enc_list l)) by (split; [exact Hl|exact I]).
    rewrite (kind_ok s _ _ r Hok Hr Hi). cbn [ksize kbv khdr kbody].
    rewrite chunk_len in Hr. cbn [khdr kbody] in Hr.
    set (h := lenN (hdr KList (enc_list l))) in *. set (sz := lenN (enc_list l)) in *.
    pose proof (hdr_len_pos KList (enc_list l) ltac:(discriminate)) as Hhp. fold h in Hhp.
    destruct Hr as [Hrr Hrt]. destruct Hwf as [W1 W2].
    (* the state after List() *)
    assert (Hl2 : exists below,
      list_ sz (adv h (enc_list l ++ r) s) = mkSt (enc_list l ++ r) (rem s - h) (sz :: below) /\
      sub_top (h + sz) (stack s) = below).
    { unfold adv. destruct (stack s) as [|t tl] eqn:Est; cbn [sub_top].
      - exists []. split; reflexivity.
      - exists ((t - h - sz) :: tl). inversion W2; subst. split.
        + erewrite list_adv_nowrap; cbn [inp rem stack]; try reflexivity; lia.
        + f_equal. lia. }
    destruct Hl2 as (below & -> & Hbelow).
    destruct (N.eqb_spec sz 0) as [Hz|Hz].
    + (* empty list *)
      assert (l = []).
      { destruct l as [|y l']; [reflexivity|]. unfold sz in Hz. rewrite enc_list_cons, lenN_app in Hz.
        pose proof (enc_len_pos y). lia. }
      subst l. unfold list_end. cbn [stack inp rem]. rewrite Hz. cbn.
      subst below. unfold adv. reflexivity.
    + rewrite (dec_elems_enc l IH Hl f _ r sz below); try reflexivity.
      * unfold adv at 1. cbn [stack rem sub_top]. unfold list_end. cbn [stack inp rem].
        rewrite N.sub_diag. change (0 <? 0) with false. cbv iota.
        rewrite chunk_len. cbn [khdr kbody]. fold h sz. unfold adv.
        rewrite <- Hbelow. do 3 f_equal. lia.
      * unfold chunk in Hf. rewrite app_length in Hf. unfold h, lenN in Hhp. lia.
      * split; cbn [rem stack]; [lia|]. constructor; [exact Hl|].
        rewrite <- Hbelow. destruct (stack s); cbn [sub_top]; [constructor|].
        inversion W2; subst. constructor; [lia|assumption].
      * cbn [rem]. lia.
Qed.

Theorem stream_dec_enc x r :
  fits x -> lenN (enc x ++ r) < 2 ^ 64 -> stream_decode (enc x ++ r) = Ok (x, r).
Proof.
  intros Hfit Hlen. unfold stream_decode.
  rewrite (dec_iface_enc x Hfit _ (init (enc x ++ r)) r).
  - reflexivity.
  - unfold fuel_for. rewrite app_length. lia.
  - split; [exact Hlen|constructor].
  - split; cbn; [rewrite lenN_app; lia|exact I].
  - reflexivity.
Qed.

(* ---------- soundness ---------- *)

Lemma sumN_sub_top n stk : (match stk with [] => True | t :: _ => n <= t end) ->
  stk <> [] -> sumN (sub_top n stk) + n = sumN stk.
Proof. destruct stk; [congruence|]. cbn. lia. Qed.

(* every Ok run: the input limit drops by the n bytes read, the stack sum by at
   most n, the depth is unchanged, well-formedness is kept, the unread input is
   a suffix *)
Definition run_rel (s s' : st) : Prop :=
  wf s' /\ length (stack s') = length (stack s) /\
  (exists n, rem s = rem s' + n /\ sumN (stack s) <= sumN (stack s') + n) /\
  (exists pre, inp s = pre ++ inp s').

Lemma run_rel_refl s : wf s -> run_rel s s.
Proof.
  intros H. split; [exact H|]. split; [reflexivity|]. split; [exists 0; lia|]. exists []. reflexivity.
Qed.

Lemma run_rel_trans a b c : run_rel a b -> run_rel b c -> run_rel a c.
Proof.
  intros (_ & L1 & (n1 & R1 & S1) & (p1 & P1)) (W & L2 & (n2 & R2 & S2) & (p2 & P2)).
  split; [exact W|]. split; [congruence|]. split; [exists (n1 + n2); lia|].
  exists (p1 ++ p2). rewrite P1, P2, app_assoc. reflexivity.
Qed.

Lemma wf_adv n tl s : wf s -> wf (adv n tl s).
Proof.
  intros [W1 W2]. unfold wf, adv. cbn [rem stack]. split; [lia|].
  destruct (stack s); cbn [sub_top]; [constructor|]. inversion W2; subst. constructor; [lia|assumption].
Qed.

Lemma run_rel_adv n tl s pre : wf s -> room n s -> inp s = pre ++ tl -> run_rel s (adv n tl s).
Proof.
  intros Hwf [Hr Ht] Hi. split; [apply wf_adv; exact Hwf|]. unfold adv. cbn [rem stack inp].
  split; [destruct (stack s); reflexivity|]. split; [|exists pre; exact Hi].
  exists n. split; [lia|]. destruct (stack s); cbn; lia.
Qed.

Lemma run_doomed s s' : run_rel s s' -> doomed s -> doomed s'.
Proof. intros (_ & _ & (n & R & S) & _). unfold doomed. lia. Qed.

Lemma run_bytes s s' : run_rel s s' -> bytesb (inp s) = true -> bytesb (inp s') = true.
Proof.
  intros (_ & _ & _ & (pre & P)) H. rewrite P, bytesb_app in H. apply andb_true_iff in H. tauto.
Qed.

(* List(): depth + 1, sum does not drop *)
Lemma list_push size s :
  wf s -> size < W64 ->
  wf (list_ size s) /\ length (stack (list_ size s)) = S (length (stack s)) /\
  rem (list_ size s) = rem s /\ sumN (stack s) <= sumN (stack (list_ size s)) /\
  inp (list_ size s) = inp s.
Proof.
  intros [W1 W2] Hs. unfold list_, wf. destruct (stack s) as [|t tl]; cbn [stack rem inp length sumN].
  - repeat split; auto; try lia.
  - inversion W2; subst. repeat split; auto.
    + constructor; [exact Hs|]. constructor; [|assumption]. apply N.mod_lt. unfold W64; lia.
    + assert (Hm : t <= (t + W64 - size) mod W64 + size).
      { destruct (N.le_gt_cases size t).
        * replace (t + W64 - size) with ((t - size) + 1 * W64) by lia.
          rewrite N.mod_add by (unfold W64; lia). rewrite N.mod_small; lia.
        * rewrite N.mod_small; lia. }
      revert Hm. generalize ((t + W64 - size) mod W64). intros; lia.
Qed.

Lemma list_end_inv s s' :
  list_end s = Ok s' -> exists tl, stack s = 0 :: tl /\ s' = mkSt (inp s) (rem s) tl.
Proof.
  unfold list_end. destruct (stack s) as [|t tl]; [discriminate|].
  destruct (N.ltb_spec 0 t); [discriminate|]. intros E; inversion E. exists tl.
  split; [f_equal; lia|reflexivity].
Qed.

(* List() ... ListEnd() brackets a run *)
Lemma list_bracket size s1 s3 s4 :
  wf s1 -> size < W64 -> run_rel (list_ size s1) s3 -> list_end s3 = Ok s4 -> run_rel s1 s4.
Proof.
  intros Hwf Hs (W3 & L3 & (n & R & S) & (pre & P)) Hle.
  destruct (list_push size s1 Hwf Hs) as (_ & L2 & R2 & S2 & I2).
  apply list_end_inv in Hle as (tl & Hst & ->). unfold run_rel, wf. cbn [rem stack inp].
  destruct W3 as [W31 W32]. rewrite Hst in W32, L3, S. cbn [length sumN] in *.
  apply Forall_inv_tail in W32.
  split; [split; assumption|]. split; [lia|]. split; [exists n; lia|].
  exists pre. rewrite <- I2. exact P.
Qed.

Lemma bytes_run k size bv s b s' :
  wf s -> bytes_ k size bv s = Ok (b, s') -> run_rel s s'.
Proof.
  intros Hwf. unfold bytes_. destruct k; try discriminate.
  - intros E; inversion E; subst. apply run_rel_refl; assumption.
  - destruct (read_full size s) as [[a s1]|] eqn:E; [|discriminate].
    apply read_full_inv in E as (Hr & Hi & _ & Hs1).
    intros E2. assert (s' = s1).
    { destruct a as [|a0 [|a1 t]]; try (inversion E2; reflexivity).
      destruct (a0 <? 128); [discriminate|inversion E2; reflexivity]. }
    subst s'. rewrite Hs1. eapply run_rel_adv; eassumption.
Qed.

Lemma kind_run s k size bv s1 :
  wf s -> bytesb (inp s) = true -> kind_ s = Ok (k, size, bv, s1) -> run_rel s s1 /\ size < W64.
Proof.
  intros Hwf Hb E. destruct (kind_inv _ _ _ _ _ Hb E) as (h & Hi & Hr & Hs & _ & H64 & _).
  split; [|exact H64]. rewrite Hs. eapply run_rel_adv; eassumption.
Qed.

Lemma dec_run f :
  (forall s x s', wf s -> bytesb (inp s) = true -> dec_iface f s = Ok (x, s') -> run_rel s s') /\
  (forall s l s', wf s -> bytesb (inp s) = true -> dec_elems f s = Ok (l, s') -> run_rel s s').
Proof.
  induction f as [|f [IH1 IH2]]; [split; intros; discriminate|]. split.
  - intros s x s' Hwf Hb. cbn [dec_iface].
    destruct (kind_ s) as [[[[k size] bv] s1]|] eqn:Ek; [|discriminate].
    destruct (kind_run _ _ _ _ _ Hwf Hb Ek) as [R1 H64].
    assert (Hwf1 : wf s1) by apply R1. pose proof (run_bytes _ _ R1 Hb) as Hb1.
    assert (Hstr : forall b s2, bytes_ k size bv s1 = Ok (b, s2) -> run_rel s s2).
    { intros b s2 E. eapply run_rel_trans; [exact R1|]. eapply bytes_run; eassumption. }
    destruct k.
    + destruct (bytes_ KByte size bv s1) as [[b s2]|] eqn:E; [|discriminate].
      intros E2; inversion E2; subst. eapply Hstr; reflexivity.
    + destruct (bytes_ KString size bv s1) as [[b s2]|] eqn:E; [|discriminate].
      intros E2; inversion E2; subst. eapply Hstr; reflexivity.
    + destruct (list_push size s1 Hwf1 H64) as (Hwf2 & _ & _ & _ & I2).
      destruct (N.eqb_spec size 0).
      * destruct (list_end (list_ size s1)) as [s3|] eqn:El; [|discriminate].
        intros E2; inversion E2; subst. eapply run_rel_trans; [exact R1|].
        eapply list_bracket; [exact Hwf1|exact H64|apply run_rel_refl; exact Hwf2|exact El].
      * destruct (dec_elems f (list_ size s1)) as [[l s3]|] eqn:Ee; [|discriminate].
        destruct (list_end s3) as [s4|] eqn:El; [|discriminate].
        intros E2; inversion E2; subst. eapply run_rel_trans; [exact R1|].
        eapply list_bracket; [exact Hwf1|exact H64| |exact El].
        apply (IH2 _ l _ Hwf2); [rewrite I2; exact Hb1|exact Ee].
  - intros s l s' Hwf Hb. cbn [dec_elems].
    destruct (dec_iface f s) as [[x s1]|e] eqn:Ei.
    + pose proof (IH1 _ _ _ Hwf Hb Ei) as R1.
      destruct (dec_elems f s1) as [[l' s2]|] eqn:Ee; [|discriminate].
      intros E2; inversion E2; subst. eapply run_rel_trans; [exact R1|].
      apply (IH2 _ _ _ (proj1 R1) (run_bytes _ _ R1 Hb) Ee).
    + destruct e; try discriminate. intros E2; inversion E2; subst. apply run_rel_refl; exact Hwf.
Qed.

(* ---- the accepted runs ---- *)

Definition good (s : st) (e : list N) (s' : st) : Prop :=
  room (lenN e) s /\ inp s = e ++ inp s' /\ s' = adv (lenN e) (inp s') s.

Lemma good_nil s : good s [] s.
Proof.
  unfold good. change (lenN (@nil N)) with 0. split; [|split; [reflexivity|]].
  - unfold room. split; [lia|]. destruct (stack s); [exact I|lia].
  - unfold adv. destruct s as [i r [|t tl]]; cbn; rewrite !N.sub_0_r; reflexivity.
Qed.

Lemma inv_adv n tl s : inv s -> room n s -> inv (adv n tl s).
Proof.
  unfold inv, room, adv. cbn [rem stack]. destruct (stack s); cbn; lia.
Qed.

Lemma doomed_list_end s s' : list_end s = Ok s' -> doomed s -> doomed s'.
Proof.
  intros H. apply list_end_inv in H as (tl & Hst & ->). unfold doomed. rewrite Hst. cbn. lia.
Qed.

(* List() from a consistent state: either it wrapped (doomed) or the new
   level is consistent and the enclosing limit was reduced by size *)
Lemma list_cases size s1 :
  wf s1 -> inv s1 -> size <= rem s1 ->
  doomed (list_ size s1) \/
  (inv (list_ size s1) /\ room size s1 /\
   stack (list_ size s1) = size :: sub_top size (stack s1)).
Proof.
  intros [W1 W2] Hinv Hs. unfold list_, doomed, inv, room in *.
  destruct (stack s1) as [|t tl]; cbn [stack rem sumN sub_top] in *.
  - right. split; [lia|]. split; [split; [lia|exact I]|reflexivity].
  - inversion W2; subst. destruct (N.le_gt_cases size t).
    + right. replace (t + W64 - size) with ((t - size) + 1 * W64) by lia.
      rewrite N.mod_add by (unfold W64; lia). rewrite N.mod_small by lia.
      split; [lia|]. split; [split; lia|reflexivity].
    + left. rewrite N.mod_small by lia. lia.
Qed.

Lemma dec_sound f :
  (forall s x s', wf s -> inv s -> bytesb (inp s) = true -> dec_iface f s = Ok (x, s') ->
                  doomed s' \/ good s (enc x) s') /\
  (forall s l s', wf s -> inv s -> bytesb (inp s) = true -> dec_elems f s = Ok (l, s') ->
                  doomed s' \/ good s (enc_list l) s').
Proof.
  induction f as [|f [IH1 IH2]]; [split; intros; discriminate|]. split.
  - intros s x s' Hwf Hinv Hb. cbn [dec_iface].
    destruct (kind_ s) as [[[[k size] bv] s1]|] eqn:Ek; [|discriminate].
    destruct (kind_run _ _ _ _ _ Hwf Hb Ek) as [R1 _].
    destruct (kind_inv _ _ _ _ _ Hb Ek) as (h & Hi & Hr & Hs1 & Hhp & H64 & Hspec & Hsr & Hst).
    assert (Hwf1 : wf s1) by apply R1. pose proof (run_bytes _ _ R1 Hb) as Hb1.
    assert (Hinv1 : inv s1) by (rewrite Hs1; apply inv_adv; assumption).
    destruct k; cbn [hdr_spec] in Hspec.
    + (* single byte *)
      destruct Hspec as (-> & Hbv & ->). cbn [bytes_]. intros E; inversion E; subst x s'.
      right. cbn [enc]. unfold enc_str. destruct (N.ltb_spec bv 128); [|lia].
      split; [exact Hr|]. split; [exact Hi|exact Hs1].
    + (* string *)
      destruct Hspec as (-> & ->). cbn [bytes_].
      destruct (read_full size s1) as [[a s2]|] eqn:Er; [|discriminate].
      apply read_full_inv in Er as (Hr2 & Hi2 & Hl & Hs2).
      intros E. assert (Hx : x = Str a /\ s' = s2 /\ forall y, a = [y] -> 128 <= y).
      { destruct a as [|a0 [|a1 t]].
        - inversion E. split; [reflexivity|]. split; [reflexivity|]. intros ? ?; discriminate.
        - destruct (N.ltb_spec a0 128); [discriminate|]. inversion E.
          split; [reflexivity|]. split; [reflexivity|]. intros ? E3; inversion E3; subst; assumption.
        - inversion E. split; [reflexivity|]. split; [reflexivity|]. intros ? ?; discriminate. }
      destruct Hx as (-> & -> & Hsingle). right. cbn [enc].
      assert (Hce : chunk KString a = enc_str a)
        by (apply chunk_enc_str; [discriminate|split; [rewrite Hl; exact H64|exact Hsingle]]).
      rewrite <- Hce.
      unfold good, chunk. cbn [hdr]. rewrite lenN_app, Hl.
      rewrite Hs1 in Hr2, Hs2. rewrite adv_adv in Hs2.
      split; [eapply room_adv; eassumption|]. split; [|exact Hs2].
      rewrite Hi, Hi2, <- app_assoc. reflexivity.
    + (* list *)
      destruct Hspec as (-> & ->).
      destruct (list_push size s1 Hwf1 H64) as (Hwf2 & _ & R2 & _ & I2).
      assert (Hdoom : doomed (list_ size s1) ->
                      (if size =? 0
                       then match list_end (list_ size s1) with
                            | Ok s3 => Ok (Lst [], s3) | Err e => Err e end
                       else match dec_elems f (list_ size s1) with
                            | Ok (l, s3) => match list_end s3 with
                                            | Ok s4 => Ok (Lst l, s4) | Err e => Err e end
                            | Err e => Err e end) = Ok (x, s') -> doomed s').
      { intros Hd. destruct (size =? 0).
        - destruct (list_end (list_ size s1)) as [s3|] eqn:El; [|discriminate].
          intros E; inversion E; subst. eapply doomed_list_end; eassumption.
        - destruct (dec_elems f (list_ size s1)) as [[l s3]|] eqn:Ee; [|discriminate].
          destruct (list_end s3) as [s4|] eqn:El; [|discriminate].
          intros E; inversion E; subst. eapply doomed_list_end; [exact El|].
          eapply run_doomed; [|exact Hd].
          apply (proj2 (dec_run f) _ l _ Hwf2); [rewrite I2; exact Hb1|exact Ee]. }
      destruct (list_cases size s1 Hwf1 Hinv1 Hsr) as [Hd|(Hinv2 & Hrs & Hstk)].
      { intros E. left. exact (Hdoom Hd E). }
      clear Hdoom.
      (* the accepted shape: payload e of length size, then ListEnd *)
      assert (Hfin : forall l s3 s4, good (list_ size s1) (enc_list l) s3 -> list_end s3 = Ok s4 ->
                                     good s (enc (Lst l)) s4).
      { intros l s3 s4 (Hr3 & Hi3 & Hs3) El.
        apply list_end_inv in El as (tl & Hst3 & ->).
        rewrite Hs3 in Hst3. cbn [adv stack] in Hst3. rewrite Hstk in Hst3. cbn [sub_top] in Hst3.
        inversion Hst3 as [[Hz Htl]].
        destruct Hr3 as [_ Hr3]. rewrite Hstk in Hr3.
        assert (Hsz : lenN (enc_list l) = size) by lia.
        assert (Hrem1 : rem s1 = rem s - lenN (enc_head 192 247 size)) by (rewrite Hs1; reflexivity).
        assert (Hstk1 : stack s1 = sub_top (lenN (enc_head 192 247 size)) (stack s))
          by (rewrite Hs1; reflexivity).
        rewrite Hs3. cbn [adv inp rem]. rewrite R2, I2 in *.
        cbn [enc]. fold (enc_list l). unfold good. cbn [inp]. rewrite lenN_app, !Hsz.
        rewrite Hs1 in Hrs. split; [eapply room_adv; eassumption|]. split.
        - rewrite Hi, Hi3, <- app_assoc. reflexivity.
        - unfold adv. rewrite Hrem1, Hstk1. f_equal; [lia|].
          destruct (stack s); cbn [sub_top]; [reflexivity|]. f_equal. lia. }
      destruct (N.eqb_spec size 0) as [Hz|Hz].
      * destruct (list_end (list_ size s1)) as [s3|] eqn:El; [|discriminate].
        intros E; inversion E; subst x s'. right. apply (Hfin [] (list_ size s1)); [|exact El].
        apply good_nil.
      * destruct (dec_elems f (list_ size s1)) as [[l s3]|] eqn:Ee; [|discriminate].
        destruct (list_end s3) as [s4|] eqn:El; [|discriminate].
        intros E; inversion E; subst x s'.
        destruct (IH2 _ _ _ Hwf2 Hinv2 ltac:(rewrite I2; exact Hb1) Ee) as [Hd|Hg].
        -- left. eapply doomed_list_end; eassumption.
        -- right. eapply Hfin; eassumption.
  - intros s l s' Hwf Hinv Hb. cbn [dec_elems].
    destruct (dec_iface f s) as [[x s1]|e] eqn:Ei.
    + pose proof (proj1 (dec_run f) _ _ _ Hwf Hb Ei) as R1.
      destruct (dec_elems f s1) as [[l' s2]|] eqn:Ee; [|discriminate].
      intros E2; inversion E2; subst l s'.
      pose proof (proj2 (dec_run f) _ _ _ (proj1 R1) (run_bytes _ _ R1 Hb) Ee) as R2.
      destruct (IH1 _ _ _ Hwf Hinv Hb Ei) as [Hd|(Hr1 & Hi1 & Hs1)].
      { left. eapply run_doomed; eassumption. }
      assert (Hinv1 : inv s1) by (rewrite Hs1; apply inv_adv; assumption).
      destruct (IH2 _ _ _ (proj1 R1) Hinv1 (run_bytes _ _ R1 Hb) Ee) as [Hd|(Hr2 & Hi2 & Hs2)].
      { left. exact Hd. }
      right. unfold good. rewrite enc_list_cons, lenN_app. rewrite Hs1 in Hr2, Hs2. rewrite adv_adv in Hs2.
      split; [eapply room_adv; eassumption|]. split; [|exact Hs2].
      rewrite Hi1, Hi2, <- app_assoc. reflexivity.
    + destruct e; try discriminate. intros E2; inversion E2; subst. right. apply good_nil.
Qed.

Theorem stream_enc_dec b x r :
  bytesb b = true -> lenN b < 2 ^ 64 -> stream_decode b = Ok (x, r) -> b = enc x ++ r.
Proof.
  intros Hb Hlen. unfold stream_decode.
  destruct (dec_iface (fuel_for b) (init b)) as [[x' s']|] eqn:E; [|discriminate].
  intros E2; inversion E2; subst x' r.
  assert (Hwf : wf (init b)) by (split; [exact Hlen|constructor]).
  assert (Hinv : inv (init b)) by (unfold inv; cbn; lia).
  destruct (proj1 (dec_sound _) _ _ _ Hwf Hinv Hb E) as [Hd|(_ & Hi & _)].
  - destruct (proj1 (dec_run _) _ _ _ Hwf Hb E) as (_ & L & _). cbn in L.
    unfold doomed in Hd. destruct (stack s'); [cbn in Hd; lia|discriminate].
  - exact Hi.
Qed.

(* ---------- consequences ---------- *)

(* the stream decoder and the reference decoder accept the same strings with the same results *)
Theorem stream_dec_agree b x r :
  bytesb b = true -> lenN b < 2 ^ 64 ->
  (stream_decode b = Ok (x, r) <-> dec b = Ok (x, r)).
Proof.
  intros Hb Hlen. split; intros H.
  - pose proof (stream_enc_dec b x r Hb Hlen H) as ->. apply dec_enc.
    unfold fits. rewrite lenN_app in Hlen. lia.
  - pose proof (enc_dec b x r Hb H) as ->. apply stream_dec_enc; [|exact Hlen].
    unfold fits. rewrite lenN_app in Hlen. lia.
Qed.

Theorem decode_bytes_enc x : fits x -> decode_bytes (enc x) = Ok x.
Proof.
  intros H. unfold decode_bytes. rewrite <- (app_nil_r (enc x)).
  rewrite stream_dec_enc; [reflexivity|exact H|rewrite app_nil_r; exact H].
Qed.

Theorem decode_bytes_sound b x :
  bytesb b = true -> lenN b < 2 ^ 64 -> decode_bytes b = Ok x -> b = enc x.
Proof.
  intros Hb Hlen. unfold decode_bytes.
  destruct (stream_decode b) as [[x' r]|] eqn:E; [|discriminate].
  destruct r; [|discriminate]. intros E2; inversion E2; subst.
  rewrite (stream_enc_dec _ _ _ Hb Hlen E). apply app_nil_r.
Qed.

(* ---------- raw splitters vs stream ---------- *)

Theorem raw_agrees b k c r :
  bytesb b = true -> lenN b < 2 ^ 64 ->
  (split b = Ok (k, c, r) <-> stream_split b = Ok (k, c, r)).
Proof.
  intros Hb Hlen. split.
  - intros Hs. destruct (split_sound _ _ _ _ Hb Hs) as [-> Hok]. unfold stream_split.
    assert (Hroom : room (lenN (chunk k c)) (init (chunk k c ++ r))).
    { split; cbn; [rewrite lenN_app; lia|exact I]. }
    rewrite (kind_ok _ k c r Hok Hroom eq_refl).
    rewrite chunk_len in Hroom.
    destruct (room_split _ _ (kbody k c ++ r) _ Hroom) as [_ Hr2].
    destruct k; cbn [bytes_ ksize kbv khdr kbody] in *.
    + destruct Hok as [_ (x & -> & _)]. reflexivity.
    + rewrite (read_full_ok _ c r Hr2 eq_refl). destruct Hok as [_ Hok].
      destruct c as [|c0 [|c1 t]]; try reflexivity.
      specialize (Hok c0 eq_refl). destruct (N.ltb_spec c0 128); [lia|reflexivity].
    + rewrite (read_full_ok _ c r Hr2 eq_refl). reflexivity.
  - unfold stream_split.
    destruct (kind_ (init b)) as [[[[k' size] bv] s1]|] eqn:Ek; [|discriminate].
    destruct (kind_inv (init b) _ _ _ _ Hb Ek) as (h & Hi & _ & _ & _ & H64 & Hspec & _ & _).
    cbn [init inp] in Hi. subst b. destruct k'; cbn [hdr_spec bytes_] in *.
    + destruct Hspec as (-> & Hbv & ->). intros E; inversion E; subst.
      apply (split_complete KByte [bv] (inp s1)).
      split; [cbn; lia|]. exists bv. split; [reflexivity|assumption].
    + destruct Hspec as (-> & ->).
      destruct (read_full size s1) as [[a s2]|] eqn:Er; [|discriminate].
      apply read_full_inv in Er as (_ & Hi2 & Hl & _).
      intros E. assert (Hx : k = KString /\ c = a /\ r = inp s2 /\ forall y, a = [y] -> 128 <= y).
      { destruct a as [|a0 [|a1 t]].
        - inversion E. repeat split; try reflexivity. intros ? ?; discriminate.
        - destruct (N.ltb_spec a0 128); [discriminate|]. inversion E.
          repeat split; try reflexivity. intros ? E3; inversion E3; subst; assumption.
        - inversion E. repeat split; try reflexivity. intros ? ?; discriminate. }
      destruct Hx as (-> & -> & -> & Hsingle). rewrite Hi2, <- Hl, app_assoc.
      apply (split_complete KString a (inp s2)). split; [rewrite Hl; exact H64|exact Hsingle].
    + destruct Hspec as (-> & ->).
      destruct (read_full size s1) as [[a s2]|] eqn:Er; [|discriminate].
      apply read_full_inv in Er as (_ & Hi2 & Hl & _).
      intros E; inversion E; subst. rewrite Hi2, app_assoc.
      apply (split_complete KList c (inp s2)). split; [exact H64|exact I].
Qed.

Corollary raw_agrees_reject b :
  bytesb b = true -> lenN b < 2 ^ 64 ->
  ((exists e, split b = Err e) <-> (exists e, stream_split b = Err e)).
Proof.
  intros Hb Hlen. split; intros [e He].
  - destruct (stream_split b) as [[[k c] r]|e'] eqn:E; [|eauto].
    apply (raw_agrees b k c r Hb Hlen) in E. congruence.
  - destruct (split b) as [[[k c] r]|e'] eqn:E; [|eauto].
    apply (raw_agrees b k c r Hb Hlen) in E. congruence.
Qed.

Corollary decode_bytes_inj b1 b2 x :
  bytesb b1 = true -> bytesb b2 = true -> lenN b1 < 2 ^ 64 -> lenN b2 < 2 ^ 64 ->
  decode_bytes b1 = Ok x -> decode_bytes b2 = Ok x -> b1 = b2.
Proof.
  intros H1 H2 L1 L2 D1 D2.
  rewrite (decode_bytes_sound _ _ H1 L1 D1), (decode_bytes_sound _ _ H2 L2 D2). reflexivity.
Qed.
