(* Rlp/RawProofs.v — specification of the raw splitters (Rlp/Raw.v) in terms
   of the canonical header encoder (Rlp/Codec.v enc_head):
     split (hdr k c ++ c ++ r) = Ok (k, c, r)      for every canonical chunk
     split b = Ok (k, c, r) -> b = hdr k c ++ c ++ r, chunk canonical
   plus SplitString/SplitList/SplitUint64/CountValues. *)
From GV Require Import Lib.Tactics Lib.Bytes Lib.BytesProofs Rlp.Item Rlp.Raw Rlp.Codec.
Local Open Scope N_scope.

(* the header of a value of kind k with content c, and the whole value *)
Definition hdr (k : kind) (c : list N) : list N :=
  match k with
  | KByte => []
  | KString => enc_head 128 183 (lenN c)
  | KList => enc_head 192 247 (lenN c)
  end.
Definition chunk (k : kind) (c : list N) : list N := hdr k c ++ c.

(* canonical chunks: content shorter than 2^64; a Byte is one byte < 0x80, a
   String is never such a single byte *)
Definition chunk_ok (k : kind) (c : list N) : Prop :=
  lenN c < 2 ^ 64 /\
  match k with
  | KByte => exists x, c = [x] /\ x < 128
  | KString => forall x, c = [x] -> 128 <= x
  | KList => True
  end.

Ltac ltb_all :=
  repeat match goal with
         | |- context [?a <? ?b] => destruct (N.ltb_spec a b); try lia
         | |- context [?a <=? ?b] => destruct (N.leb_spec a b); try lia
         | |- context [?a =? ?b] => destruct (N.eqb_spec a b); try lia
         end.

Lemma enc_head_short small large size : size < 56 -> enc_head small large size = [small + size].
Proof. intros H. unfold enc_head. destruct (N.ltb_spec size 56); [reflexivity|lia]. Qed.

Lemma enc_head_long small large size :
  56 <= size -> enc_head small large size = (large + lenN (be_bytes size)) :: be_bytes size.
Proof. intros H. unfold enc_head. destruct (N.ltb_spec size 56); [lia|reflexivity]. Qed.

Lemma enc_head_len small large size : 1 <= lenN (enc_head small large size).
Proof. unfold enc_head. destruct (size <? 56); rewrite lenN_cons; lia. Qed.

Lemma enc_head_len_le small large size : size < 2 ^ 64 -> lenN (enc_head small large size) <= 9.
Proof.
  intros H. unfold enc_head. destruct (size <? 56); rewrite lenN_cons.
  - rewrite lenN_nil. lia.
  - pose proof (be_bytes_len_64 size H). lia.
Qed.

(* ---- readSize ---- *)

Lemma read_size_complete size tl :
  56 <= size -> size < 2 ^ 64 ->
  read_size (be_bytes size ++ tl) (lenN (be_bytes size)) = Ok size.
Proof.
  intros H1 H2. unfold read_size.
  pose proof (be_bytes_len_64 size H2) as L8.
  pose proof (be_bytes_len_pos size ltac:(lia)) as L1.
  rewrite lenN_app, firstn_lenN_app, be_bytes_decode.
  pose proof (be_bytes_hd size) as Hh.
  destruct (N.ltb_spec (lenN (be_bytes size) + lenN tl) (lenN (be_bytes size))); [lia|].
  destruct (N.leb_spec 1 (lenN (be_bytes size))); [|lia].
  destruct (N.leb_spec (lenN (be_bytes size)) 8); [|lia]. cbn [andb].
  destruct (N.ltb_spec size 56); [lia|].
  destruct (be_bytes size) as [|h t] eqn:E; [contradiction|]. destruct Hh as [Hh _].
  cbn [app]. destruct (N.eqb_spec h 0); [contradiction|reflexivity].
Qed.

Lemma firstn_cons_pos {A} n (x : A) l : (1 <= n)%nat -> firstn n (x :: l) = x :: firstn (n - 1) l.
Proof. destruct n; [lia|]. intros _. cbn. now rewrite Nat.sub_0_r. Qed.

Lemma bytesb_firstn n l : bytesb l = true -> bytesb (firstn n l) = true.
Proof.
  intros H. rewrite <- (firstn_skipn n l), bytesb_app in H.
  apply andb_true_iff in H. tauto.
Qed.

Lemma bytesb_skipn n l : bytesb l = true -> bytesb (skipn n l) = true.
Proof.
  intros H. rewrite <- (firstn_skipn n l), bytesb_app in H.
  apply andb_true_iff in H. tauto.
Qed.

Lemma read_size_sound b slen s :
  bytesb b = true -> read_size b slen = Ok s ->
  exists tl, b = be_bytes s ++ tl /\ lenN (be_bytes s) = slen /\ 56 <= s /\ s < 2 ^ 64.
Proof.
  intros Hb. unfold read_size.
  destruct (N.ltb_spec (lenN b) slen) as [|Hlen]; [discriminate|].
  destruct ((1 <=? slen) && (slen <=? 8)) eqn:Hc; [|cbn; discriminate].
  apply andb_true_iff in Hc as [H1 H8]. apply N.leb_le in H1, H8.
  set (sb := firstn (N.to_nat slen) b).
  destruct (N.ltb_spec (be_decode sb) 56) as [|H56]; [discriminate|].
  destruct b as [|b0 b']; [discriminate|].
  destruct (N.eqb_spec b0 0) as [|Hb0]; [discriminate|].
  intros E. inversion E as [Es]. exists (skipn (N.to_nat slen) (b0 :: b')).
  assert (Hsb : bytesb sb = true) by (apply bytesb_firstn; exact Hb).
  assert (Hl : lenN sb = slen).
  { unfold sb, lenN in *. rewrite firstn_length. lia. }
  assert (Hn : no_lead0 sb = true).
  { unfold sb. rewrite firstn_cons_pos by lia. cbn. apply negb_true_iff, N.eqb_neq. exact Hb0. }
  rewrite (be_decode_bytes sb Hsb Hn). repeat split.
  - unfold sb. symmetry. apply firstn_skipn.
  - exact Hl.
  - exact H56.
  - apply be_decode_lt_64; [exact Hsb|lia].
Qed.

Lemma firstn_lenN {A} (l : list A) : firstn (N.to_nat (lenN l)) l = l.
Proof. unfold lenN. rewrite Nat2N.id. apply firstn_all. Qed.

(* ---- readKind / Split ---- *)

Lemma hdr_len_pos k c : k <> KByte -> 1 <= lenN (hdr k c).
Proof. destruct k; [congruence| |]; intros _; apply enc_head_len. Qed.

Lemma read_kind_complete k c r :
  chunk_ok k c -> read_kind (hdr k c ++ c ++ r) = Ok (k, lenN (hdr k c), lenN c).
Proof.
  intros [Hlen Hk]. destruct k; cbn [hdr].
  - destruct Hk as (x & -> & Hx). cbn [app read_kind].
    rewrite lenN_cons. change (lenN [x]) with 1. ltb_all. reflexivity.
  - destruct (N.lt_ge_cases (lenN c) 56) as [Hs|Hs].
    + rewrite (enc_head_short _ _ _ Hs). cbn [app read_kind].
      change (lenN [128 + lenN c]) with 1. rewrite lenN_cons, lenN_app.
      replace (128 + lenN c - 128) with (lenN c) by lia.
      destruct (N.ltb_spec (128 + lenN c) 128); [lia|].
      destruct (N.ltb_spec (128 + lenN c) 184); [|lia].
      assert (Hchk : (if 1 + (lenN c + lenN r) - 1 <? lenN c
                      then Err ErrValueTooLarge else Ok (KString, 1, lenN c))
                     = Ok (KString, 1, lenN c)) by (ltb_all; reflexivity).
      destruct (c ++ r) as [|b1 t] eqn:E; [exact Hchk|].
      destruct (N.eqb_spec (lenN c) 1) as [H1|H1]; cbn [andb]; [|exact Hchk].
      destruct c as [|x [|y c']]; try (unfold lenN in H1; cbn in H1; lia).
      cbn in E. inversion E; subst. specialize (Hk b1 eq_refl).
      destruct (N.ltb_spec b1 128); [lia|exact Hchk].
    + rewrite (enc_head_long _ _ _ Hs).
      pose proof (be_bytes_len_64 _ Hlen) as L8.
      pose proof (be_bytes_len_pos (lenN c) ltac:(lia)) as L1.
      cbn [app read_kind]. set (n := lenN (be_bytes (lenN c))) in *.
      destruct (N.ltb_spec (183 + n) 128); [lia|].
      destruct (N.ltb_spec (183 + n) 184); [lia|].
      destruct (N.ltb_spec (183 + n) 192); [|lia].
      replace (183 + n - 183) with n by lia. subst n.
      rewrite read_size_complete by assumption.
      rewrite !lenN_cons, !lenN_app. set (n := lenN (be_bytes (lenN c))) in *.
      ltb_all. replace (n + 1) with (1 + n) by lia. reflexivity.
  - destruct (N.lt_ge_cases (lenN c) 56) as [Hs|Hs].
    + rewrite (enc_head_short _ _ _ Hs). cbn [app read_kind].
      change (lenN [192 + lenN c]) with 1. rewrite lenN_cons, lenN_app.
      replace (192 + lenN c - 192) with (lenN c) by lia.
      ltb_all. reflexivity.
    + rewrite (enc_head_long _ _ _ Hs).
      pose proof (be_bytes_len_64 _ Hlen) as L8.
      pose proof (be_bytes_len_pos (lenN c) ltac:(lia)) as L1.
      cbn [app read_kind]. set (n := lenN (be_bytes (lenN c))) in *.
      destruct (N.ltb_spec (247 + n) 128); [lia|].
      destruct (N.ltb_spec (247 + n) 184); [lia|].
      destruct (N.ltb_spec (247 + n) 192); [lia|].
      destruct (N.ltb_spec (247 + n) 248); [lia|].
      replace (247 + n - 247) with n by lia. subst n.
      rewrite read_size_complete by assumption.
      rewrite !lenN_cons, !lenN_app. set (n := lenN (be_bytes (lenN c))) in *.
      ltb_all. replace (n + 1) with (1 + n) by lia. reflexivity.
Qed.

Lemma split_fin (h c r : list N) :
  firstn (N.to_nat (lenN c)) (skipn (N.to_nat (lenN h)) (h ++ c ++ r)) = c /\
  skipn (N.to_nat (lenN h + lenN c)) (h ++ c ++ r) = r.
Proof.
  split.
  - rewrite skipn_lenN_app. apply firstn_lenN_app.
  - rewrite <- lenN_app, app_assoc. apply skipn_lenN_app.
Qed.

Lemma split_complete k c r :
  chunk_ok k c -> split (chunk k c ++ r) = Ok (k, c, r).
Proof.
  intros H. unfold split, chunk. rewrite <- app_assoc, (read_kind_complete k c r H).
  destruct (split_fin (hdr k c) c r) as [-> ->]. reflexivity.
Qed.

(* the tail of a checked value: content and rest *)
Lemma check_tail (tl : list N) (cs : N) :
  cs <= lenN tl -> exists c r, tl = c ++ r /\ lenN c = cs.
Proof.
  intros H. exists (firstn (N.to_nat cs) tl), (skipn (N.to_nat cs) tl). split.
  - symmetry. apply firstn_skipn.
  - unfold lenN in *. rewrite firstn_length. lia.
Qed.

Lemma read_kind_sound b k ts cs :
  bytesb b = true -> read_kind b = Ok (k, ts, cs) ->
  exists c r, b = hdr k c ++ c ++ r /\ lenN c = cs /\ ts = lenN (hdr k c) /\ chunk_ok k c.
Proof.
  intros Hb. unfold read_kind. destruct b as [|b0 tl]; [discriminate|].
  cbn [bytesb forallb] in Hb. apply andb_true_iff in Hb as [Hb0 Htl].
  unfold byteb in Hb0. apply N.ltb_lt in Hb0. rewrite lenN_cons.
  destruct (N.ltb_spec b0 128) as [H128|H128].
  { (* single byte *)
    destruct (N.ltb_spec (1 + lenN tl - 0) 1); [discriminate|].
    intros E; inversion E; subst. exists [b0], tl. cbn [hdr app]. split; [|split; [|split; [|split]]].
    - reflexivity.
    - reflexivity.
    - reflexivity.
    - cbn. lia.
    - exists b0. split; [reflexivity|exact H128]. }
  destruct (N.ltb_spec b0 184) as [H184|H184].
  { (* short string *)
    set (n := b0 - 128).
    assert (Hfin : (if 1 + lenN tl - 1 <? n then Err ErrValueTooLarge else Ok (KString, 1, n))
                   = Ok (k, ts, cs) ->
                   (forall b1 t, tl = b1 :: t -> n = 1 -> 128 <= b1) ->
                   exists c r, b0 :: tl = hdr k c ++ c ++ r /\ lenN c = cs /\
                               ts = lenN (hdr k c) /\ chunk_ok k c).
    { destruct (N.ltb_spec (1 + lenN tl - 1) n) as [|Hle]; [discriminate|].
      intros E Hc; inversion E; subst k ts cs.
      destruct (check_tail tl n ltac:(lia)) as (c & r & -> & Hl).
      exists c, r. cbn [hdr]. rewrite (enc_head_short _ _ (lenN c)) by (unfold n in Hl; lia).
      split; [|split; [|split; [|split]]].
      - cbn [app]. f_equal. unfold n in Hl. lia.
      - exact Hl.
      - reflexivity.
      - lia.
      - intros x ->. apply (Hc x r); [reflexivity|]. rewrite <- Hl. reflexivity. }
    destruct tl as [|b1 t].
    - intros E. apply Hfin; [exact E|]. intros ? ? ?; discriminate.
    - destruct (N.eqb_spec n 1) as [H1|H1]; cbn [andb].
      + destruct (N.ltb_spec b1 128) as [|Hb1]; [discriminate|].
        intros E. apply Hfin; [exact E|]. intros ? ? E2 _. inversion E2; subst. exact Hb1.
      + intros E. apply Hfin; [exact E|]. intros ? ? _ ?. contradiction. }
  destruct (N.ltb_spec b0 192) as [H192|H192].
  { (* long string *)
    destruct (read_size tl (b0 - 183)) as [s|] eqn:Ers; [|discriminate].
    destruct (read_size_sound _ _ _ Htl Ers) as (tl' & -> & Hsl & H56 & H64).
    rewrite lenN_app.
    destruct (N.ltb_spec (1 + (lenN (be_bytes s) + lenN tl') - (b0 - 183 + 1)) s) as [|Hle];
      [discriminate|].
    intros E; inversion E; subst k ts cs.
    destruct (check_tail tl' s ltac:(lia)) as (c & r & -> & Hl).
    exists c, r. cbn [hdr]. rewrite Hl, (enc_head_long _ _ s H56). split; [|split; [|split; [|split]]].
    - cbn [app]. f_equal. lia.
    - reflexivity.
    - rewrite lenN_cons. lia.
    - lia.
    - intros x ->. unfold lenN in Hl. cbn in Hl. lia. }
  destruct (N.ltb_spec b0 248) as [H248|H248].
  { (* short list *)
    set (n := b0 - 192).
    destruct (N.ltb_spec (1 + lenN tl - 1) n) as [|Hle]; [discriminate|].
    intros E; inversion E; subst k ts cs.
    destruct (check_tail tl n ltac:(lia)) as (c & r & -> & Hl).
    exists c, r. cbn [hdr]. rewrite (enc_head_short _ _ (lenN c)) by (unfold n in Hl; lia).
    split; [|split; [|split; [|split]]].
    - cbn [app]. f_equal. unfold n in Hl. lia.
    - exact Hl.
    - reflexivity.
    - lia.
    - exact I. }
  (* long list *)
  destruct (read_size tl (b0 - 247)) as [s|] eqn:Ers; [|discriminate].
  destruct (read_size_sound _ _ _ Htl Ers) as (tl' & -> & Hsl & H56 & H64).
  rewrite lenN_app.
  destruct (N.ltb_spec (1 + (lenN (be_bytes s) + lenN tl') - (b0 - 247 + 1)) s) as [|Hle];
    [discriminate|].
  intros E; inversion E; subst k ts cs.
  destruct (check_tail tl' s ltac:(lia)) as (c & r & -> & Hl).
  exists c, r. cbn [hdr]. rewrite Hl, (enc_head_long _ _ s H56). split; [|split; [|split; [|split]]].
  - cbn [app]. f_equal. lia.
  - reflexivity.
  - rewrite lenN_cons. lia.
  - lia.
  - exact I.
Qed.

Lemma split_sound b k c r :
  bytesb b = true -> split b = Ok (k, c, r) -> b = chunk k c ++ r /\ chunk_ok k c.
Proof.
  intros Hb. unfold split. destruct (read_kind b) as [[[k' ts] cs]|] eqn:E; [|discriminate].
  destruct (read_kind_sound _ _ _ _ Hb E) as (c' & r' & -> & Hl & -> & Hok).
  rewrite <- Hl. destruct (split_fin (hdr k' c') c' r') as [-> ->].
  intros E2; inversion E2; subst. split; [|exact Hok].
  unfold chunk. now rewrite <- app_assoc.
Qed.

(* a value is at least one byte long *)
Lemma chunk_len_pos k c : chunk_ok k c -> 1 <= lenN (chunk k c).
Proof.
  intros [_ Hk]. unfold chunk. rewrite lenN_app. destruct k.
  - destruct Hk as (x & -> & _). cbn. lia.
  - pose proof (hdr_len_pos KString c ltac:(discriminate)). lia.
  - pose proof (hdr_len_pos KList c ltac:(discriminate)). lia.
Qed.

(* ---- SplitString / SplitList ---- *)

Lemma split_string_spec b c r :
  bytesb b = true ->
  (split_string b = Ok (c, r) <->
   exists k, k <> KList /\ split b = Ok (k, c, r)).
Proof.
  intros Hb. unfold split_string. destruct (split b) as [[[k c'] r']|]; split.
  - destruct k; intros E; inversion E; subst; eexists; (split; [|reflexivity]); discriminate.
  - intros (k' & Hk & E). inversion E; subst. destruct k'; congruence.
  - discriminate.
  - intros (k' & _ & E); discriminate.
Qed.

Lemma split_list_spec b c r :
  split_list b = Ok (c, r) <-> split b = Ok (KList, c, r).
Proof.
  unfold split_list. destruct (split b) as [[[k c'] r']|]; split; try discriminate.
  - destruct k; intros E; inversion E; subst; reflexivity.
  - intros E; inversion E; subst. reflexivity.
Qed.

(* ---- SplitUint64 ---- *)

(* the string content of an integer: canonical big-endian bytes *)
Lemma split_uint64_complete x r :
  x < 2 ^ 64 -> split_uint64 (enc_uint x ++ r) = Ok (x, r).
Proof.
  intros Hx. unfold split_uint64, split_string, enc_uint.
  pose proof (be_bytes_len_64 x Hx) as L8.
  pose proof (be_bytes_hd x) as Hh. pose proof (be_bytes_decode x) as Hd.
  pose proof (be_bytes_no_lead0 x) as Hn.
  set (c := be_bytes x) in *.
  assert (Hsp : exists k, k <> KList /\ split (enc_str c ++ r) = Ok (k, c, r)).
  { unfold enc_str. destruct c as [|c0 [|c1 c']] eqn:Ec.
    - exists KString. split; [discriminate|]. apply (split_complete KString []).
      split; [cbn; lia|]. intros ? ?; discriminate.
    - destruct (N.ltb_spec c0 128).
      + exists KByte. split; [discriminate|]. apply (split_complete KByte [c0]).
        split; [cbn; lia|]. exists c0. split; [reflexivity|assumption].
      + exists KString. split; [discriminate|]. apply (split_complete KString [c0]).
        split; [cbn; lia|]. intros ? E; inversion E; subst; assumption.
    - exists KString. split; [discriminate|]. apply (split_complete KString (c0 :: c1 :: c')).
      split; [lia|]. intros ? ?; discriminate. }
  destruct Hsp as (k & Hk & ->).
  replace (match k with KList => Err ErrExpectedString | _ => Ok (c, r) end)
    with (@Ok (list N * list N) (c, r)) by (destruct k; congruence).
  destruct c as [|c0 [|c1 c']] eqn:Ec.
  - rewrite <- Hd. reflexivity.
  - cbn in Hd. destruct Hh as [Hh _]. destruct (N.eqb_spec c0 0); [contradiction|].
    rewrite <- Hd. reflexivity.
  - destruct (N.ltb_spec 8 (lenN (c0 :: c1 :: c'))); [lia|].
    assert (Hm : 2 <= lenN (c0 :: c1 :: c')) by (rewrite !lenN_cons; lia).
    unfold read_size. rewrite firstn_lenN, Hd.
    destruct (N.ltb_spec (lenN (c0 :: c1 :: c')) (lenN (c0 :: c1 :: c'))); [lia|].
    destruct (N.leb_spec 1 (lenN (c0 :: c1 :: c'))); [|lia].
    destruct (N.leb_spec (lenN (c0 :: c1 :: c')) 8); [|lia]. cbn [andb].
    destruct Hh as [Hh _].
    assert (56 <= x).
    { rewrite <- Hd. pose proof (be_decode_pos c0 (c1 :: c') Hh) as P.
      rewrite lenN_cons, N.pow_add_r in P. change (256 ^ 1) with 256 in P.
      assert (0 < 256 ^ lenN c') by (apply N.neq_0_lt_0, N.pow_nonzero; lia). nia. }
    destruct (N.ltb_spec x 56); [lia|]. destruct (N.eqb_spec c0 0); [contradiction|].
    reflexivity.
Qed.

Lemma split_uint64_sound b x r :
  bytesb b = true -> split_uint64 b = Ok (x, r) ->
  x < 2 ^ 64 /\ b = enc_uint x ++ r.
Proof.
  intros Hb. unfold split_uint64.
  destruct (split_string b) as [[c r']|] eqn:Es; [|discriminate].
  apply (split_string_spec b c r' Hb) in Es as (k & Hk & Es).
  destruct (split_sound _ _ _ _ Hb Es) as [-> Hok].
  assert (Hcb : bytesb c = true).
  { unfold chunk in Hb. rewrite !bytesb_app in Hb.
    repeat (apply andb_true_iff in Hb as [Hb ?]). assumption. }
  (* in every accepted case c = be_bytes x, and then chunk k c = enc_uint x *)
  assert (Hgoal : c = be_bytes x -> r' = r -> x < 2 ^ 64 -> x < 2 ^ 64 /\ chunk k c ++ r' = enc_uint x ++ r).
  { intros -> -> Hx. split; [exact Hx|]. f_equal. unfold enc_uint, enc_str, chunk.
    destruct Hok as [_ Hok]. destruct k; [| |congruence].
    - destruct Hok as (y & -> & Hy). destruct (N.ltb_spec y 128); [reflexivity|lia].
    - cbn [hdr]. destruct (be_bytes x) as [|y [|z t]]; try reflexivity.
      specialize (Hok y eq_refl). destruct (N.ltb_spec y 128); [lia|reflexivity]. }
  destruct c as [|c0 [|c1 c']].
  - intros E; inversion E; subst. apply Hgoal; [reflexivity|reflexivity|lia].
  - destruct (N.eqb_spec c0 0); [discriminate|]. intros E; inversion E; subst.
    cbn in Hcb. unfold byteb in Hcb. rewrite andb_true_r in Hcb. apply N.ltb_lt in Hcb.
    apply Hgoal; [|reflexivity|lia].
    symmetry. apply (be_decode_bytes [x]); cbn.
    + unfold byteb. rewrite andb_true_r. apply N.ltb_lt. lia.
    + apply negb_true_iff, N.eqb_neq. assumption.
  - destruct (N.ltb_spec 8 (lenN (c0 :: c1 :: c'))) as [|H8]; [discriminate|].
    destruct (read_size (c0 :: c1 :: c') (lenN (c0 :: c1 :: c'))) as [s|] eqn:Ers; [|discriminate].
    intros E; inversion E; subst.
    destruct (read_size_sound _ _ _ Hcb Ers) as (tl & Etl & Hl & _ & H64).
    assert (tl = []).
    { apply lenN_0. apply (f_equal lenN) in Etl. rewrite lenN_app in Etl. lia. }
    subst tl. rewrite app_nil_r in Etl. apply Hgoal; [exact Etl|reflexivity|exact H64].
Qed.

(* ---- CountValues ---- *)

Lemma skipn_chunk k c r :
  skipn (N.to_nat (lenN (hdr k c) + lenN c)) (hdr k c ++ c ++ r) = r.
Proof. apply split_fin. Qed.

(* n canonical values followed by nothing: count n *)
Lemma count_values_f_complete (vs : list (kind * list N)) : forall fuel i,
  Forall (fun v => chunk_ok (fst v) (snd v)) vs ->
  (length (flat_map (fun v => chunk (fst v) (snd v)) vs) < fuel)%nat ->
  count_values_f fuel (flat_map (fun v => chunk (fst v) (snd v)) vs) i = (i + lenN vs, None).
Proof.
  induction vs as [|[k c] vs IH]; intros fuel i Hok Hf.
  - destruct fuel; [cbn in Hf; lia|]. change (lenN (@nil (kind * list N))) with 0.
    cbn. rewrite N.add_0_r. reflexivity.
  - inversion Hok as [|? ? Hk Hvs]; subst. cbn [fst snd] in Hk.
    destruct fuel; [lia|]. cbn [flat_map fst snd count_values_f] in *.
    pose proof (chunk_len_pos k c Hk) as Hp.
    destruct (chunk k c ++ _) as [|b0 tl] eqn:E.
    { apply (f_equal lenN) in E. rewrite lenN_app, lenN_nil in E. lia. }
    rewrite <- E. unfold chunk at 1. rewrite <- app_assoc, (read_kind_complete k c _ Hk).
    unfold chunk at 1. rewrite <- app_assoc, skipn_chunk.
    rewrite IH; [f_equal; rewrite lenN_cons; lia|exact Hvs|].
    rewrite <- E, app_length in Hf. unfold lenN in Hp. lia.
Qed.

Lemma count_values_complete (vs : list (kind * list N)) :
  Forall (fun v => chunk_ok (fst v) (snd v)) vs ->
  count_values (flat_map (fun v => chunk (fst v) (snd v)) vs) = (lenN vs, None).
Proof.
  intros H. unfold count_values. rewrite count_values_f_complete; [reflexivity|exact H|lia].
Qed.

(* CountValues accepts b with count n exactly when b is a concatenation of n
   canonical values; the fuel is never exhausted *)
Lemma count_values_f_sound fuel : forall b i n,
  bytesb b = true -> (length b < fuel)%nat ->
  count_values_f fuel b i = (n, None) ->
  exists vs, b = flat_map (fun v => chunk (fst v) (snd v)) vs /\
             Forall (fun v => chunk_ok (fst v) (snd v)) vs /\ n = i + lenN vs.
Proof.
  induction fuel as [|fuel IH]; intros b i n Hb Hf; [lia|].
  cbn [count_values_f]. destruct b as [|b0 tl] eqn:Eb.
  - intros E; inversion E; subst. exists []. repeat split; [constructor|rewrite lenN_nil; lia].
  - rewrite <- Eb in *. destruct (read_kind b) as [[[k ts] cs]|] eqn:Erk; [|discriminate].
    destruct (read_kind_sound _ _ _ _ Hb Erk) as (c & r & E & Hl & -> & Hok).
    rewrite <- Hl, E, skipn_chunk. intros Hc.
    assert (Hrb : bytesb r = true).
    { rewrite E, !bytesb_app in Hb. apply andb_true_iff in Hb as [_ Hb].
      apply andb_true_iff in Hb as [_ Hb]. exact Hb. }
    pose proof (chunk_len_pos k c Hok) as Hp. unfold chunk in Hp.
    assert (Hrf : (length r < fuel)%nat).
    { rewrite E, !app_length in Hf. rewrite lenN_app in Hp. unfold lenN in Hp. lia. }
    destruct (IH r (i + 1) n Hrb Hrf Hc) as (vs & -> & Hvs & ->).
    exists ((k, c) :: vs). cbn [flat_map fst snd]. repeat split.
    + unfold chunk. now rewrite <- app_assoc.
    + constructor; assumption.
    + rewrite lenN_cons. lia.
Qed.

Lemma count_values_sound b n :
  bytesb b = true -> count_values b = (n, None) ->
  exists vs, b = flat_map (fun v => chunk (fst v) (snd v)) vs /\
             Forall (fun v => chunk_ok (fst v) (snd v)) vs /\ n = lenN vs.
Proof.
  intros Hb H. unfold count_values in H.
  destruct (count_values_f_sound (S (length b)) b 0 n Hb (Nat.lt_succ_diag_r _) H) as (vs & ? & ? & ?).
  exists vs. split; [assumption|]. split; [assumption|]. lia.
Qed.

Lemma read_size_not_oof t s : read_size t s <> Err OutOfFuel.
Proof.
  unfold read_size. destruct (_ <? _); [discriminate|].
  destruct (_ <? 56); [discriminate|]. destruct t; [discriminate|].
  destruct (_ =? _); discriminate.
Qed.

Lemma read_kind_not_oof b : read_kind b <> Err OutOfFuel.
Proof.
  unfold read_kind. destruct b as [|b0 tl]; [discriminate|]. cbv zeta.
  repeat match goal with
         | |- context [match read_size ?a ?b with _ => _ end] =>
             let R := fresh "R" in
             destruct (read_size a b) eqn:R;
             [|intros E; inversion E; subst; exact (read_size_not_oof _ _ R)]
         | |- context [if ?c then _ else _] => destruct c
         | |- context [match ?l with [] => _ | _ :: _ => _ end] => destruct l
         end; discriminate.
Qed.

(* the fuel of CountValues is never exhausted *)
Lemma count_values_f_fuel fuel : forall b i,
  bytesb b = true -> (length b < fuel)%nat -> snd (count_values_f fuel b i) <> Some OutOfFuel.
Proof.
  induction fuel as [|fuel IH]; intros b i Hb Hf; [lia|].
  cbn [count_values_f]. destruct b as [|b0 tl] eqn:Eb; [cbn; discriminate|].
  rewrite <- Eb in *. destruct (read_kind b) as [[[k ts] cs]|] eqn:Erk.
  - destruct (read_kind_sound _ _ _ _ Hb Erk) as (c & r & E & Hl & -> & Hok).
    rewrite <- Hl, E, skipn_chunk.
    pose proof (chunk_len_pos k c Hok) as Hp. unfold chunk in Hp.
    rewrite E, !bytesb_app in Hb. apply andb_true_iff in Hb as [_ Hb].
    apply andb_true_iff in Hb as [_ Hb].
    apply IH; [exact Hb|]. rewrite E, !app_length in Hf. rewrite lenN_app in Hp.
    unfold lenN in Hp. lia.
  - cbn. intros E; inversion E; subst. exact (read_kind_not_oof _ Erk).
Qed.

Lemma count_values_fuel b : bytesb b = true -> snd (count_values b) <> Some OutOfFuel.
Proof. intros Hb. apply count_values_f_fuel; [exact Hb|lia]. Qed.
