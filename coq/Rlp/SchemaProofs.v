(* Rlp/SchemaProofs.v — round trips of the typed layer (Rlp/Schema.v), by
   induction on the schema:
     dec_s s (enc_v v) = Ok v                         for every Go value v of type s
     dec_s s x = Ok v  ->  enc_v v = x /\ conforms s v  (x a byte tree)
   and their byte-level forms through rlp.DecodeBytes / EncodeToBytes. *)
From GV Require Import Lib.Tactics Lib.Bytes Lib.BytesProofs Rlp.Item Rlp.Raw Rlp.Codec.
From GV Require Import Rlp.RawProofs Rlp.CodecProofs Rlp.Stream Rlp.StreamProofs Rlp.Schema.
Local Open Scope N_scope.

(* usable induction principle: the struct case gets [Forall P fs] *)
Section schema_ind'.
  Variable P : schema -> Prop.
  Hypothesis HUint : forall bits, P (SUint bits).
  Hypothesis HBig : P SBig.
  Hypothesis HU256 : P SU256.
  Hypothesis HBytes : P SBytes.
  Hypothesis HFixed : forall n, P (SFixed n).
  Hypothesis HAddr : P SAddrOpt.
  Hypothesis HList : forall s, P s -> P (SList s).
  Hypothesis HStruct : forall fs, Forall P fs -> P (SStruct fs).
  Fixpoint schema_ind' (s : schema) : P s :=
    match s with
    | SUint bits => HUint bits
    | SBig => HBig
    | SU256 => HU256
    | SBytes => HBytes
    | SFixed n => HFixed n
    | SAddrOpt => HAddr
    | SList s' => HList s' (schema_ind' s')
    | SStruct fs =>
        HStruct fs ((fix go (fs : list schema) : Forall P fs :=
                       match fs with
                       | [] => Forall_nil P
                       | f :: r => Forall_cons f (schema_ind' f) (go r)
                       end) fs)
    end.
End schema_ind'.

(* every uint width is a whole number of bytes (Go: 8, 16, 32, 64) *)
Fixpoint schema_ok (s : schema) : bool :=
  match s with
  | SUint bits => bits mod 8 =? 0
  | SList s' => schema_ok s'
  | SStruct fs => forallb schema_ok fs
  | _ => true
  end.

(* the inner loops of dec_s / conforms, named *)
Fixpoint dec_elems_s (s : schema) (l : list item) : result (list value) :=
  match l with
  | [] => Ok []
  | y :: l' =>
      match dec_s s y with
      | Err e => Err e
      | Ok v => match dec_elems_s s l' with Err e => Err e | Ok vs => Ok (v :: vs) end
      end
  end.

Fixpoint dec_fields (fs : list schema) (l : list item) : result (list value) :=
  match fs, l with
  | [], [] => Ok []
  | [], _ :: _ => Err ErrNotAtEOL
  | _ :: _, [] => Err EOL
  | f :: fs', y :: l' =>
      match dec_s f y with
      | Err e => Err e
      | Ok v => match dec_fields fs' l' with Err e => Err e | Ok vs => Ok (v :: vs) end
      end
  end.

Fixpoint conforms_fields (fs : list schema) (l : list value) : bool :=
  match fs, l with
  | [], [] => true
  | f :: fs', x :: l' => conforms f x && conforms_fields fs' l'
  | _, _ => false
  end.

Lemma dec_s_list s l : dec_s (SList s) (Lst l) = wrap_list (dec_elems_s s l).
Proof.
  cbn [dec_s]. apply (f_equal wrap_list).
  induction l as [|y l IH]; cbn; [reflexivity|]. rewrite IH. reflexivity.
Qed.

Lemma dec_s_struct fs l : dec_s (SStruct fs) (Lst l) = wrap_list (dec_fields fs l).
Proof.
  cbn [dec_s]. apply (f_equal wrap_list).
  revert l. induction fs as [|f fs IH]; intros [|y l]; cbn; try reflexivity;
    try (rewrite IH; reflexivity).
Qed.

Lemma conforms_struct fs l : conforms (SStruct fs) (VList l) = conforms_fields fs l.
Proof.
  cbn [conforms]. revert l. induction fs as [|f fs IH]; intros [|y l]; cbn; try reflexivity;
    try (rewrite IH; reflexivity).
Qed.

(* ---- integers ---- *)

Lemma pow256 m : 256 ^ m = 2 ^ (8 * m).
Proof. rewrite N.pow_mul_r. reflexivity. Qed.

Lemma be_bytes_len_bits n m : n < 2 ^ (8 * m) -> lenN (be_bytes n) <= m.
Proof.
  intros H. rewrite <- pow256 in H.
  pose proof (be_bytes_len_le (N.to_nat m) n) as L. rewrite N2Nat.id in L.
  specialize (L H). unfold lenN. lia.
Qed.

Lemma dec_int_enc_some m e n : n < 2 ^ (8 * m) -> dec_int (Some m) e (be_bytes n) = Ok (VNum n).
Proof.
  intros H. unfold dec_int. pose proof (be_bytes_len_bits n m H).
  destruct (N.ltb_spec m (lenN (be_bytes n))); [lia|].
  rewrite be_bytes_no_lead0, be_bytes_decode. reflexivity.
Qed.

Lemma dec_int_enc_none e n : dec_int None e (be_bytes n) = Ok (VNum n).
Proof. unfold dec_int. rewrite be_bytes_no_lead0, be_bytes_decode. reflexivity. Qed.

Lemma dec_int_inv m e b v :
  bytesb b = true -> dec_int m e b = Ok v ->
  v = VNum (be_decode b) /\ be_bytes (be_decode b) = b /\
  (forall mm, m = Some mm -> be_decode b < 2 ^ (8 * mm)).
Proof.
  intros Hb. unfold dec_int.
  assert (G : no_lead0 b = true -> be_bytes (be_decode b) = b) by (intros; now apply be_decode_bytes).
  destruct m as [mm|].
  - destruct (N.ltb_spec mm (lenN b)); [discriminate|].
    destruct (no_lead0 b) eqn:E; [|discriminate]. intros E2; inversion E2; subst.
    split; [reflexivity|]. split; [auto|]. intros ? E3; inversion E3; subst.
    pose proof (be_decode_bound b Hb) as Bd. rewrite <- pow256.
    eapply N.lt_le_trans; [exact Bd|]. apply N.pow_le_mono_r; lia.
  - destruct (no_lead0 b) eqn:E; [|discriminate]. intros E2; inversion E2; subst.
    split; [reflexivity|]. split; [auto|]. intros ? ?; discriminate.
Qed.

(* ---- dec_s (enc_v v) = v ---- *)
Local Arguments dec_int : simpl never.

Theorem dec_s_enc_v s : forall v,
  schema_ok s = true -> conforms s v = true -> dec_s s (enc_v v) = Ok v.
Proof.
  induction s as [bits| | | |n| |s IH|fs IH] using schema_ind'; intros v Hok Hc.
  - destruct v; try discriminate. cbn [dec_s enc_v conforms schema_ok] in *. apply dec_int_enc_some.
    apply N.ltb_lt in Hc. apply N.eqb_eq in Hok.
    replace (8 * (bits / 8)) with bits by lia. exact Hc.
  - destruct v; try discriminate. cbn [dec_s enc_v]. apply dec_int_enc_none.
  - destruct v; try discriminate. cbn [dec_s enc_v conforms] in *. apply dec_int_enc_some.
    apply N.ltb_lt in Hc. exact Hc.
  - destruct v; try discriminate. reflexivity.
  - destruct v; try discriminate. cbn in *. apply N.eqb_eq in Hc. subst n.
    rewrite N.ltb_irrefl. reflexivity.
  - destruct v as [|b| |]; try discriminate; cbn in *; [|reflexivity].
    apply N.eqb_eq in Hc. rewrite Hc. destruct b as [|b0 b]; [discriminate|]. reflexivity.
  - destruct v as [| | |l]; try discriminate. cbn [enc_v]. rewrite dec_s_list.
    cbn [conforms schema_ok] in *. induction l as [|x l IHl]; [reflexivity|].
    cbn in Hc. apply andb_prop in Hc as [Hx Hl]. cbn [map dec_elems_s].
    rewrite (IH x Hok Hx). specialize (IHl Hl). unfold wrap_list in IHl.
    destruct (dec_elems_s s (map enc_v l)); [|discriminate]. inversion IHl; subst. reflexivity.
  - destruct v as [| | |l]; try discriminate. cbn [enc_v]. rewrite dec_s_struct.
    rewrite conforms_struct in Hc. cbn [schema_ok] in Hok. revert l Hc.
    induction IH as [|f fs Hf _ IHfs]; intros [|x l] Hc; try discriminate; [reflexivity|].
    cbn in Hc, Hok. apply andb_prop in Hc as [Hx Hl]. apply andb_prop in Hok as [Hokf Hokfs].
    cbn [map dec_fields]. rewrite (Hf x Hokf Hx). specialize (IHfs Hokfs l Hl).
    unfold wrap_list in IHfs. destruct (dec_fields fs (map enc_v l)); [|discriminate].
    inversion IHfs; subst. reflexivity.
Qed.

(* ---- dec_s s x = Ok v  ->  enc_v v = x, v conforms ---- *)

Theorem enc_v_dec_s s : forall x v,
  schema_ok s = true -> item_bytesb x = true -> dec_s s x = Ok v ->
  enc_v v = x /\ conforms s v = true.
Proof.
  induction s as [bits| | | |n| |s IH|fs IH] using schema_ind'; intros x v Hok Hb Hd.
  - destruct x as [b|]; [|discriminate]. cbn in *.
    destruct (dec_int_inv _ _ _ _ Hb Hd) as (-> & Hr & Hlt). cbn. rewrite Hr.
    split; [reflexivity|]. apply N.ltb_lt. specialize (Hlt _ eq_refl).
    eapply N.lt_le_trans; [exact Hlt|]. apply N.pow_le_mono_r; lia.
  - destruct x as [b|]; [|discriminate]. cbn in *.
    destruct (dec_int_inv _ _ _ _ Hb Hd) as (-> & Hr & _). cbn. rewrite Hr. auto.
  - destruct x as [b|]; [|discriminate]. cbn in *.
    destruct (dec_int_inv _ _ _ _ Hb Hd) as (-> & Hr & Hlt). cbn. rewrite Hr.
    split; [reflexivity|]. apply N.ltb_lt. exact (Hlt _ eq_refl).
  - destruct x as [b|]; [|discriminate]. cbn in *. inversion Hd; subst. auto.
  - destruct x as [b|]; [|discriminate]. cbn [dec_s] in Hd.
    destruct (N.ltb_spec n (lenN b)); [discriminate|].
    destruct (N.ltb_spec (lenN b) n); [discriminate|]. inversion Hd; subst v.
    cbn [enc_v conforms]. split; [reflexivity|]. apply N.eqb_eq. lia.
  - destruct x as [b|l]; cbn [dec_s] in Hd.
    + destruct b as [|b0 b]; [inversion Hd; subst; auto|].
      remember (b0 :: b) as bb.
      destruct (N.ltb_spec 20 (lenN bb)); [discriminate|].
      destruct (N.ltb_spec (lenN bb) 20); [discriminate|]. inversion Hd; subst v.
      cbn [enc_v conforms]. split; [reflexivity|]. apply N.eqb_eq. lia.
    + destruct l; discriminate.
  - destruct x as [b|l]; [discriminate|]. rewrite dec_s_list in Hd. unfold wrap_list in Hd.
    destruct (dec_elems_s s l) as [vs|] eqn:E; [|discriminate]. inversion Hd; subst v. clear Hd.
    cbn [schema_ok item_bytesb] in *. cbn [enc_v conforms].
    revert vs E. induction l as [|y l IHl]; intros vs E.
    + inversion E; subst. auto.
    + cbn in E, Hb. apply andb_prop in Hb as [Hy Hl].
      destruct (dec_s s y) as [v|] eqn:Ey; [|discriminate].
      destruct (dec_elems_s s l) as [vs'|] eqn:El; [|discriminate]. inversion E; subst.
      destruct (IH _ _ Hok Hy Ey) as [E1 C1]. destruct (IHl Hl _ eq_refl) as [E2 C2].
      inversion E2. cbn. rewrite E1, C1, C2. rewrite H0. auto.
  - destruct x as [b|l]; [discriminate|]. rewrite dec_s_struct in Hd. unfold wrap_list in Hd.
    destruct (dec_fields fs l) as [vs|] eqn:E; [|discriminate]. inversion Hd; subst v. clear Hd.
    rewrite conforms_struct. cbn [schema_ok item_bytesb enc_v] in *.
    revert l vs Hb E. induction IH as [|f fs Hf _ IHfs]; intros [|y l] vs Hb E; try discriminate.
    + inversion E; subst. auto.
    + cbn in E, Hb, Hok. apply andb_prop in Hb as [Hy Hl]. apply andb_prop in Hok as [Hokf Hokfs].
      destruct (dec_s f y) as [v|] eqn:Ey; [|discriminate].
      destruct (dec_fields fs l) as [vs'|] eqn:El; [|discriminate]. inversion E; subst.
      destruct (Hf _ _ Hokf Hy Ey) as [E1 C1]. destruct (IHfs Hokfs l _ Hl El) as [E2 C2].
      inversion E2. cbn. rewrite E1, C1, C2. rewrite H0. auto.
Qed.

(* the value decoded for a struct schema is a list with one entry per field *)
Lemma conforms_fields_length fs : forall l, conforms_fields fs l = true -> length l = length fs.
Proof.
  induction fs as [|f fs IH]; intros [|x l] H; try discriminate; [reflexivity|].
  cbn in H. apply andb_prop in H as [_ H]. cbn. f_equal. auto.
Qed.

(* ---- byte level ---- *)

Lemma item_bytesb_of_enc x : bytesb (enc x) = true -> item_bytesb x = true.
Proof.
  induction x as [b|l IH] using item_ind'; intros H.
  - cbn [enc] in H. rewrite enc_str_chunk in H. unfold chunk in H.
    rewrite bytesb_app in H. apply andb_prop in H as [_ H]. exact H.
  - rewrite enc_lst_chunk in H. unfold chunk in H. rewrite bytesb_app in H.
    apply andb_prop in H as [_ H]. cbn [item_bytesb].
    induction IH as [|y l Hy _ IHl]; [reflexivity|].
    rewrite enc_list_cons, bytesb_app in H. apply andb_prop in H as [H1 H2].
    cbn. rewrite (Hy H1), (IHl H2). reflexivity.
Qed.

Theorem decode_typed_encode s v :
  schema_ok s = true -> conforms s v = true -> fits (enc_v v) ->
  decode_typed s (encode_typed v) = Ok v.
Proof.
  intros Hok Hc Hf. unfold decode_typed, encode_typed.
  rewrite (decode_bytes_enc _ Hf). apply dec_s_enc_v; assumption.
Qed.

Theorem encode_decode_typed s b v :
  schema_ok s = true -> bytesb b = true -> lenN b < 2 ^ 64 ->
  decode_typed s b = Ok v -> encode_typed v = b /\ conforms s v = true.
Proof.
  intros Hok Hb Hl. unfold decode_typed, encode_typed.
  destruct (decode_bytes b) as [x|] eqn:E; [|discriminate]. intros Hd.
  pose proof (decode_bytes_sound _ _ Hb Hl E) as ->.
  destruct (enc_v_dec_s s x v Hok (item_bytesb_of_enc _ Hb) Hd) as [-> Hc]. auto.
Qed.
