(* Rlp/Item.v — RLP items (the untyped value tree), the error classes and the
   result type shared by every RLP model file.  Definitions only, except the
   nested induction principle [item_ind'] (a term, needed to use the type).

   Names other families rely on (keep stable):
     item Str Lst item_ind' item_eqb err result Ok Err *)
From GV Require Import Lib.Bytes.
Local Open Scope N_scope.

Inductive item : Type :=
| Str (b : list N)        (* byte string *)
| Lst (l : list item).    (* list of items *)

(* usable induction principle: the list case gets [Forall P l] *)
Section item_ind'.
  Variable P : item -> Prop.
  Hypothesis HStr : forall b, P (Str b).
  Hypothesis HLst : forall l, Forall P l -> P (Lst l).
  Fixpoint item_ind' (x : item) : P x :=
    match x with
    | Str b => HStr b
    | Lst l =>
        HLst l ((fix go (l : list item) : Forall P l :=
                   match l with
                   | [] => Forall_nil P
                   | y :: r => Forall_cons y (item_ind' y) (go r)
                   end) l)
    end.
End item_ind'.

Fixpoint list_eqb {A} (e : A -> A -> bool) (a b : list A) : bool :=
  match a, b with
  | [], [] => true
  | x :: a', y :: b' => e x y && list_eqb e a' b'
  | _, _ => false
  end.

Fixpoint item_eqb (x y : item) : bool :=
  match x, y with
  | Str a, Str b => list_eqb N.eqb a b
  | Lst a, Lst b =>
      (fix go (a b : list item) : bool :=
         match a, b with
         | [], [] => true
         | x :: a', y :: b' => item_eqb x y && go a' b'
         | _, _ => false
         end) a b
  | _, _ => false
  end.

(* every string byte of the tree is a byte *)
Fixpoint item_bytesb (x : item) : bool :=
  match x with
  | Str b => bytesb b
  | Lst l => forallb item_bytesb l
  end.

(* Error classes: one constructor per Go error value that the modelled paths
   of /repo/rlp can return (rlp/decode.go var block, io package), plus
   [OutOfFuel] for the models' own fuel (proved unreachable where stated). *)
Inductive err : Type :=
| EOL                  (* rlp.EOL: end of list (internal to the stream loop) *)
| ErrEOF               (* io.EOF: top-level read at end of input *)
| ErrUnexpectedEOF     (* io.ErrUnexpectedEOF *)
| ErrCanonSize         (* rlp.ErrCanonSize: non-canonical size information *)
| ErrCanonInt          (* rlp.ErrCanonInt: integer with leading zero bytes *)
| ErrElemTooLarge      (* rlp.ErrElemTooLarge *)
| ErrValueTooLarge     (* rlp.ErrValueTooLarge *)
| ErrExpectedString    (* rlp.ErrExpectedString *)
| ErrExpectedList      (* rlp.ErrExpectedList *)
| ErrUintOverflow      (* rlp.errUintOverflow ("input string too long") *)
| ErrNotAtEOL          (* rlp.errNotAtEOL ("input list has too many elements") *)
| ErrNotInList         (* rlp.errNotInList *)
| ErrMoreThanOneValue  (* rlp.ErrMoreThanOneValue *)
| ErrUint256Large      (* rlp.errUint256Large *)
| ErrInvalidBool       (* "rlp: invalid boolean value" *)
| ErrWrongSize         (* byte array / ReadBytes size mismatch *)
| OutOfFuel.           (* model fuel exhausted; never a Go behaviour *)

Definition err_code (e : err) : N :=
  match e with
  | EOL => 1 | ErrEOF => 2 | ErrUnexpectedEOF => 3 | ErrCanonSize => 4
  | ErrCanonInt => 5 | ErrElemTooLarge => 6 | ErrValueTooLarge => 7
  | ErrExpectedString => 8 | ErrExpectedList => 9 | ErrUintOverflow => 10
  | ErrNotAtEOL => 11 | ErrNotInList => 12 | ErrMoreThanOneValue => 13
  | ErrUint256Large => 14 | ErrInvalidBool => 15 | ErrWrongSize => 16
  | OutOfFuel => 99
  end.

Inductive result (A : Type) : Type :=
| Ok (a : A)
| Err (e : err).
Arguments Ok {A} a.
Arguments Err {A} e.

Definition bind {A B} (r : result A) (f : A -> result B) : result B :=
  match r with Ok a => f a | Err e => Err e end.
