(* Rlp/CodecProofs.v — the reference codec: dec (enc x ++ r) = Ok (x, r) and
   dec b = Ok (x, r) -> b = enc x ++ r, for Rlp/Codec.v. *)
From GV Require Import Lib.Tactics Lib.Bytes Lib.BytesProofs Rlp.Item Rlp.Raw Rlp.Codec Rlp.RawProofs.
Local Open Scope N_scope.

(* ---- encodings as chunks ---- *)

Definition str_kind (b : list N) : kind :=
  match b with [x] => if x <? 128 then KByte else KString | _ => KString end.

Lemma str_kind_not_list b : str_kind b <> KList.
Proof. unfold str_kind. destruct b as [|x [|y t]]; try discriminate. destruct (x <? 128); discriminate. Qed.

Lemma enc_str_chunk b : enc_str b = chunk (str_kind b) b.
Proof.
  unfold enc_str, str_kind, chunk. destruct b as [|x [|y t]]; try reflexivity.
  destruct (x <? 128); reflexivity.
Qed.

Lemma str_chunk_ok b : lenN b < 2 ^ 64 -> chunk_ok (str_kind b) b.
Proof.
  intros H. split; [exact H|]. unfold str_kind. destruct b as [|x [|y t]]; try (intros ? ?; discriminate).
  destruct (N.ltb_spec x 128).
  - exists x. split; [reflexivity|assumption].
  - intros ? E; inversion E; subst; assumption.
Qed.

Lemma chunk_enc_str k c : k <> KList -> chunk_ok k c -> chunk k c = enc_str c.
Proof.
  intros Hk [_ Hok]. rewrite enc_str_chunk. f_equal. unfold str_kind. destruct k; [| |congruence].
  - destruct Hok as (x & -> & Hx). destruct (N.ltb_spec x 128); [reflexivity|lia].
  - destruct c as [|x [|y t]]; try reflexivity. specialize (Hok x eq_refl).
    destruct (N.ltb_spec x 128); [lia|reflexivity].
Qed.

Lemma enc_lst_chunk l : enc (Lst l) = chunk KList (enc_list l).
Proof. reflexivity. Qed.

Lemma enc_list_cons x l : enc_list (x :: l) = enc x ++ enc_list l.
Proof. reflexivity. Qed.

Lemma enc_len_pos x : 1 <= lenN (enc x).
Proof.
  destruct x as [b|l].
  - cbn [enc]. unfold enc_str. destruct b as [|x [|y t]].
    + cbn. lia.
    + destruct (x <? 128); cbn; lia.
    + rewrite lenN_app. pose proof (enc_head_len 128 183 (lenN (x :: y :: t))). lia.
  - cbn [enc]. rewrite lenN_app. pose proof (enc_head_len 192 247 (lenN (flat_map enc l))). lia.
Qed.

(* ---- the guard ---- *)

Lemma fits_str b : fits (Str b) -> lenN b < 2 ^ 64.
Proof.
  unfold fits. cbn [enc]. rewrite enc_str_chunk. unfold chunk. rewrite lenN_app. lia.
Qed.

Lemma fits_lst l : fits (Lst l) -> lenN (enc_list l) < 2 ^ 64.
Proof. unfold fits. cbn [enc]. fold (enc_list l). rewrite lenN_app. lia. Qed.

Lemma fits_lst_elems l : fits (Lst l) -> Forall fits l.
Proof.
  intros H. apply fits_lst in H. induction l as [|x l IH]; constructor.
  - unfold fits. rewrite enc_list_cons, lenN_app in H. lia.
  - apply IH. rewrite enc_list_cons, lenN_app in H. lia.
Qed.

Lemma fits_enc_list_cons x l :
  lenN (enc_list (x :: l)) < 2 ^ 64 -> fits x /\ lenN (enc_list l) < 2 ^ 64.
Proof. rewrite enc_list_cons, lenN_app. unfold fits. lia. Qed.

(* ---- completeness: dec (enc x ++ r) = Ok (x, r) ---- *)

Lemma dec_list_f_enc l :
  Forall (fun x => fits x -> forall f r, (2 * length (enc x) + 1 <= f)%nat ->
                                         dec_f f (enc x ++ r) = Ok (x, r)) l ->
  lenN (enc_list l) < 2 ^ 64 ->
  forall f, (2 * length (enc_list l) + 2 <= f)%nat -> dec_list_f f (enc_list l) = Ok l.
Proof.
  induction 1 as [|x l Hx _ IH]; intros Hfit f Hf.
  - destruct f; [lia|]. reflexivity.
  - destruct f; [lia|]. apply fits_enc_list_cons in Hfit as [Hfx Hfl].
    rewrite enc_list_cons in *. rewrite app_length in Hf.
    pose proof (enc_len_pos x) as Hp. unfold lenN in Hp.
    cbn [dec_list_f]. destruct (enc x ++ enc_list l) as [|b0 tl] eqn:E.
    { apply (f_equal (@length N)) in E. rewrite app_length in E. cbn in E. lia. }
    rewrite <- E. rewrite (Hx Hfx) by lia. rewrite (IH Hfl) by lia. reflexivity.
Qed.

Lemma dec_f_enc x :
  fits x -> forall f r, (2 * length (enc x) + 1 <= f)%nat -> dec_f f (enc x ++ r) = Ok (x, r).
Proof.
  induction x as [b|l IH] using item_ind'; intros Hfit f r Hf.
  - destruct f; [lia|]. cbn [dec_f enc]. rewrite enc_str_chunk.
    rewrite (split_complete _ _ r (str_chunk_ok b (fits_str b Hfit))).
    pose proof (str_kind_not_list b). destruct (str_kind b); congruence.
  - destruct f; [lia|]. cbn [dec_f]. rewrite enc_lst_chunk.
    pose proof (fits_lst l Hfit) as Hl.
    rewrite (split_complete KList (enc_list l) r (conj Hl I)).
    rewrite (dec_list_f_enc l IH Hl); [reflexivity|].
    rewrite enc_lst_chunk in Hf. unfold chunk in Hf. rewrite app_length in Hf.
    pose proof (hdr_len_pos KList (enc_list l) ltac:(discriminate)) as Hp. unfold lenN in Hp. lia.
Qed.

Theorem dec_enc x r : fits x -> dec (enc x ++ r) = Ok (x, r).
Proof. intros H. apply dec_f_enc; [exact H|]. rewrite app_length. lia. Qed.

Theorem dec_list_enc l : lenN (enc_list l) < 2 ^ 64 -> dec_list (enc_list l) = Ok l.
Proof.
  intros H. apply dec_list_f_enc; [|exact H|unfold dec_list; lia].
  apply Forall_forall. intros x _. apply dec_f_enc.
Qed.

(* ---- soundness: dec b = Ok (x, r) -> b = enc x ++ r ---- *)

Lemma bytesb_app3 a b c :
  bytesb (a ++ b ++ c) = true -> bytesb a = true /\ bytesb b = true /\ bytesb c = true.
Proof.
  rewrite !bytesb_app. intros H. apply andb_true_iff in H as [H1 H].
  apply andb_true_iff in H as [H2 H3]. auto.
Qed.

Lemma dec_f_sound f :
  (forall b x r, bytesb b = true -> dec_f f b = Ok (x, r) -> b = enc x ++ r) /\
  (forall c l, bytesb c = true -> dec_list_f f c = Ok l -> c = enc_list l).
Proof.
  induction f as [|f [IH1 IH2]]; [split; intros; discriminate|]. split.
  - intros b x r Hb. cbn [dec_f].
    destruct (split b) as [[[k c] r']|] eqn:Es; [|discriminate].
    destruct (split_sound _ _ _ _ Hb Es) as [-> Hok].
    unfold chunk in Hb. rewrite <- app_assoc in Hb.
    destruct (bytesb_app3 _ _ _ Hb) as (_ & Hc & _).
    destruct k.
    + intros E; inversion E; subst. cbn [enc]. f_equal. apply chunk_enc_str; [discriminate|exact Hok].
    + intros E; inversion E; subst. cbn [enc]. f_equal. apply chunk_enc_str; [discriminate|exact Hok].
    + destruct (dec_list_f f c) as [l|] eqn:El; [|discriminate].
      intros E; inversion E; subst. rewrite (IH2 c l Hc El). reflexivity.
  - intros c l Hc. cbn [dec_list_f]. destruct c as [|b0 tl] eqn:Ec.
    + intros E; inversion E; subst. reflexivity.
    + rewrite <- Ec in *. destruct (dec_f f c) as [[x r]|] eqn:Ed; [|discriminate].
      destruct (dec_list_f f r) as [l'|] eqn:El; [|discriminate].
      intros E; inversion E; subst l.
      pose proof (IH1 c x r Hc Ed) as Hx. rewrite Hx in Hc. rewrite bytesb_app in Hc.
      apply andb_true_iff in Hc as [_ Hr].
      rewrite enc_list_cons, <- (IH2 r l' Hr El). exact Hx.
Qed.

Theorem enc_dec b x r : bytesb b = true -> dec b = Ok (x, r) -> b = enc x ++ r.
Proof. intros Hb H. exact (proj1 (dec_f_sound _) b x r Hb H). Qed.

Theorem enc_dec_list c l : bytesb c = true -> dec_list c = Ok l -> c = enc_list l.
Proof. intros Hb H. exact (proj2 (dec_f_sound _) c l Hb H). Qed.

(* decoding is injective on accepted strings; encoding is injective on fitting items *)
Corollary dec_inj b1 b2 x :
  bytesb b1 = true -> bytesb b2 = true ->
  dec b1 = Ok (x, []) -> dec b2 = Ok (x, []) -> b1 = b2.
Proof.
  intros H1 H2 D1 D2. rewrite (enc_dec _ _ _ H1 D1), (enc_dec _ _ _ H2 D2). reflexivity.
Qed.

Corollary enc_inj x y : fits x -> enc x = enc y -> x = y.
Proof.
  intros Hx E. pose proof (dec_enc x [] Hx) as D1.
  assert (Hy : fits y) by (unfold fits in *; rewrite <- E; exact Hx).
  pose proof (dec_enc y [] Hy) as D2. rewrite E, D2 in D1. inversion D1; reflexivity.
Qed.

(* ---- the fuel of dec is never exhausted ---- *)

Lemma split_not_oof b : split b <> Err OutOfFuel.
Proof.
  unfold split. destruct (read_kind b) as [[[k ts] cs]|] eqn:E; [discriminate|].
  intros E2; inversion E2; subst. exact (read_kind_not_oof _ E).
Qed.

Lemma dec_f_fuel f :
  (forall b, bytesb b = true -> (2 * length b + 1 <= f)%nat -> dec_f f b <> Err OutOfFuel) /\
  (forall c, bytesb c = true -> (2 * length c + 2 <= f)%nat -> dec_list_f f c <> Err OutOfFuel).
Proof.
  induction f as [|f [IH1 IH2]]; [split; intros; lia|]. split.
  - intros b Hb Hf. cbn [dec_f].
    destruct (split b) as [[[k c] r']|] eqn:Es.
    + destruct (split_sound _ _ _ _ Hb Es) as [-> Hok].
      destruct k; try discriminate.
      unfold chunk in Hb, Hf. rewrite <- app_assoc in Hb.
      destruct (bytesb_app3 _ _ _ Hb) as (_ & Hc & _).
      pose proof (hdr_len_pos KList c ltac:(discriminate)) as Hp. unfold lenN in Hp.
      rewrite !app_length in Hf.
      specialize (IH2 c Hc ltac:(lia)).
      destruct (dec_list_f f c) as [l|e]; [discriminate|].
      intros E; inversion E; subst. contradiction.
    + intros E; inversion E; subst. exact (split_not_oof _ Es).
  - intros c Hc Hf. cbn [dec_list_f]. destruct c as [|b0 tl] eqn:Ec; [discriminate|].
    rewrite <- Ec in *.
    assert (Hlen : (1 <= length c)%nat) by (rewrite Ec; cbn; lia).
    pose proof (IH1 c Hc ltac:(lia)) as H1.
    destruct (dec_f f c) as [[x r]|e] eqn:Ed.
    + pose proof (proj1 (dec_f_sound f) c x r Hc Ed) as Hx.
      assert (Hr : bytesb r = true).
      { rewrite Hx, bytesb_app in Hc. apply andb_true_iff in Hc. tauto. }
      pose proof (enc_len_pos x) as Hp. unfold lenN in Hp.
      assert (Hlr : (2 * length r + 2 <= f)%nat).
      { rewrite Hx, app_length in Hf. lia. }
      specialize (IH2 r Hr Hlr).
      destruct (dec_list_f f r) as [l|e]; [discriminate|].
      intros E; inversion E; subst. contradiction.
    + intros E; inversion E; subst. contradiction.
Qed.

Theorem dec_no_out_of_fuel b : bytesb b = true -> dec b <> Err OutOfFuel.
Proof. intros Hb. apply (proj1 (dec_f_fuel _)); [exact Hb|lia]. Qed.
