(* Rlp/Codec.v — the canonical RLP codec on items.

   [enc] is the denotation of the encoder (rlp/encode.go puthead/putint,
   rlp/encbuffer.go writeBytes/writeUint64/writeBool/writeBigInt/list/listEnd,
   rlp/raw.go AppendUint64): minimal headers.  The two-pass list-header buffer
   of encBuffer is not modelled, only its output (tied by correspondence).

   [dec] is the reference decoder of this library: recursive application of
   the raw splitter [Raw.split] (the way trie/node.go decodes nodes with
   rlp.SplitList/SplitString).  The Go *stream* decoder (decode.go) is
   modelled separately in Rlp/Stream.v and proved to accept exactly the same
   strings with the same results (Properties/C01.v).

   Names other families rely on (keep stable):
     enc_head enc_str enc enc_list enc_uint enc_bool fits dec dec_list *)
From GV Require Import Lib.Bytes Rlp.Item Rlp.Raw.
Local Open Scope N_scope.

(* encode.go puthead(buf, smalltag, largetag, size) *)
Definition enc_head (smalltag largetag size : N) : list N :=
  if size <? 56 then [smalltag + size]
  else let sb := be_bytes size in (largetag + lenN sb) :: sb.

(* encbuffer.go writeBytes / encodeStringHeader *)
Definition enc_str (b : list N) : list N :=
  match b with
  | [x] => if x <? 128 then [x] else enc_head 128 183 1 ++ b
  | _ => enc_head 128 183 (lenN b) ++ b
  end.

(* encbuffer.go list/listEnd + listhead.encode: header over the concatenated
   element encodings *)
Fixpoint enc (x : item) : list N :=
  match x with
  | Str b => enc_str b
  | Lst l => let c := flat_map enc l in enc_head 192 247 (lenN c) ++ c
  end.
Definition enc_list (l : list item) : list N := flat_map enc l.

(* encbuffer.go writeUint64 / raw.go AppendUint64 (i < 2^64), and
   writeBigInt / writeUint256 for any i: the integer as its minimal big-endian
   string *)
Definition enc_uint (i : N) : list N := enc_str (be_bytes i).
(* encbuffer.go writeBool *)
Definition enc_bool (b : bool) : list N := if b then [1] else [128].

(* the guard "all lengths < 2^64": the whole encoding (hence every string and
   every list payload inside it) is shorter than 2^64 bytes — Go cannot build
   a longer slice *)
Definition fits (x : item) : Prop := lenN (enc x) < 2 ^ 64.

(* reference decoder.  Fuel: [dec_f] drops at least the header byte before
   descending, [dec_list_f] consumes at least one byte per element, so
   2*len+1 is never exhausted (CodecProofs.dec_no_out_of_fuel). *)
Fixpoint dec_f (fuel : nat) (b : list N) : result (item * list N) :=
  match fuel with
  | O => Err OutOfFuel
  | S f =>
      match split b with
      | Err e => Err e
      | Ok (k, content, rest) =>
          match k with
          | KList =>
              match dec_list_f f content with
              | Err e => Err e
              | Ok l => Ok (Lst l, rest)
              end
          | _ => Ok (Str content, rest)
          end
      end
  end
with dec_list_f (fuel : nat) (c : list N) : result (list item) :=
  match fuel with
  | O => Err OutOfFuel
  | S f =>
      match c with
      | [] => Ok []
      | _ =>
          match dec_f f c with
          | Err e => Err e
          | Ok (x, r) =>
              match dec_list_f f r with
              | Err e => Err e
              | Ok l => Ok (x :: l)
              end
          end
      end
  end.

Definition dec (b : list N) : result (item * list N) := dec_f (2 * length b + 1) b.
Definition dec_list (c : list N) : result (list item) := dec_list_f (2 * length c + 2) c.

(* exactly one value, no trailing bytes *)
Definition dec_exact (b : list N) : result item :=
  match dec b with
  | Err e => Err e
  | Ok (x, []) => Ok x
  | Ok (_, _ :: _) => Err ErrMoreThanOneValue
  end.
