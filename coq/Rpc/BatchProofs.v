(* Rpc/BatchProofs.v — invariants of the interleaving models of Rpc/Batch.v (C49). *)
From GV Require Import Lib.Tactics Rpc.Batch.

(* "r is a response for m": a call is answered with its own id; an entry that is
   neither call nor notification (invalid request) is answered with an error. *)
Definition RM (r : resp) (m : msg) : Prop :=
  (is_call m = true -> r_id r = RCopy (m_id m)) /\
  (is_call m = false -> r_kind r <> 0%N).

(* what doWrite puts on the wire for buffer content c *)
Definition wr (c : list resp) : list wevent :=
  match c with [] => [] | _ => [WBatch c] end.

Definition before_write (p : ppc) : bool :=
  match p with PActivate _ | PDone => false | _ => true end.
Definition cur (p : ppc) : list msg :=
  match p with PPush m _ => [m] | _ => [] end.
Definition at_stop (p : ppc) : bool :=
  match p with PStop | PWrite => true | _ => false end.

Arguments answerable : simpl never.

(* ---------------- small list facts ---------------- *)

Lemma answerable_app a b : answerable (a ++ b) = answerable a ++ answerable b.
Proof. unfold answerable. apply filter_app. Qed.

Lemma Forall2_app_RM a b c d :
  Forall2 RM a b -> Forall2 RM c d -> Forall2 RM (a ++ c) (b ++ d).
Proof. apply Forall2_app. Qed.

Lemma call_not_notification m : is_call m = true -> is_notification m = false.
Proof.
  unfold is_call, is_notification, has_valid_id, id_absent.
  destruct (m_id m) as [|[] ?]; destruct (m_vsn m); cbn; auto; intros; try discriminate.
Qed.

Lemma RM_error_response m k : k <> 0%N -> RM (error_response m k) m.
Proof. intros K. split; cbn; auto. Qed.

Lemma RM_errors k l : k <> 0%N -> Forall2 RM (map (fun m => error_response m k) l) l.
Proof. intros K. induction l; cbn; constructor; auto using RM_error_response. Qed.

Lemma RM_handle_call_msg m : is_notification m = false -> RM (handle_call_msg m) m.
Proof.
  intros N. unfold handle_call_msg. rewrite N.
  destruct (is_call m) eqn:C.
  - split; cbn; auto. congruence.
  - destruct (has_valid_id m); split; cbn; intros; try congruence; discriminate.
Qed.

Lemma Forall2_In_r {A B} (R : A -> B -> Prop) l1 l2 y :
  Forall2 R l1 l2 -> In y l2 -> exists x, In x l1 /\ R x y.
Proof.
  induction 1; cbn; intros HI; [contradiction|].
  destruct HI as [->|HI]; [eauto|]. destruct (IHForall2 HI) as (x0 & ? & ?); eauto.
Qed.

Lemma firstn_prefix {A} (a b : list A) k :
  length a <= k -> firstn k (a ++ b) = a ++ firstn (k - length a) b.
Proof.
  intros H. rewrite firstn_app. rewrite firstn_all2 by exact H. reflexivity.
Qed.

Lemma forallb_app_true {A} (f : A -> bool) a b :
  forallb f a = true -> forallb f b = true -> forallb f (a ++ b) = true.
Proof. intros. rewrite forallb_app. rewrite H, H0. reflexivity. Qed.

Lemma notifs_activate_out n : forallb is_notif (activate_out n) = true.
Proof. unfold activate_out. induction (n_buffer n); cbn; auto. Qed.

Lemma notifs_notify_out n : forallb is_notif (notify_out n) = true.
Proof. unfold notify_out. destruct (n_activated n); reflexivity. Qed.

Lemma Forall_upd_nth {A} (P : A -> Prop) f i l :
  Forall P l -> (forall x, P x -> P (f x)) -> Forall P (upd_nth i f l).
Proof.
  intros H Hf. revert i. induction H; intros i; cbn.
  - destruct i; constructor.
  - destruct i; constructor; auto.
Qed.

Lemma nth_error_Forall {A} (P : A -> Prop) l i x :
  Forall P l -> nth_error l i = Some x -> P x.
Proof. intros H E. rewrite Forall_forall in H. apply H. eapply nth_error_In; eauto. Qed.

Lemma In_activate_out n m q : In (WNotif m q) (activate_out n) -> m = n_msg n.
Proof.
  unfold activate_out. rewrite in_map_iff. intros (x & E & _). inversion E; auto.
Qed.

Lemma In_notify_out n m q : In (WNotif m q) (notify_out n) -> m = n_msg n /\ n_activated n = true.
Proof.
  unfold notify_out. destruct (n_activated n); cbn; [|contradiction].
  intros [E|[]]. inversion E; auto.
Qed.

Lemma wr_notif_free c m q : ~ In (WNotif m q) (wr c).
Proof. destruct c; cbn; [auto|]. intros [E|[]]; discriminate. Qed.

(* ================================================================== *)
(* the batch invariant                                                 *)
(* ================================================================== *)

Record Inv (c : cfg) (all : list msg) (s : bstate) : Prop := {
  inv_split : all = b_done s ++ b_calls s;
  inv_unwritten :
    b_wrote s = false ->
    b_out s = [] /\ Forall2 RM (b_resp s) (answerable (b_done s));
  inv_written :
    b_wrote s = true ->
    exists cnt k ns,
      b_out s = wr cnt ++ ns /\ forallb is_notif ns = true /\
      Forall2 RM cnt (answerable (firstn k all)) /\
      length (b_done s) <= k /\ k <= length all /\
      (k < length all -> before_write (b_ppc s) = false /\ c_write_on_cancel c = true);
  inv_pc :
    match b_ppc s with
    | PExec m => exists rest, b_calls s = m :: rest
    | PPush m r => (exists rest, b_calls s = m :: rest) /\ r = handle_call_msg m
    | _ => True
    end;
  inv_after : before_write (b_ppc s) = false -> b_wrote s = true;
  inv_inactive :
    before_write (b_ppc s) = true ->
    Forall (fun n => n_activated n = false) (b_notifiers s);
  inv_owner :
    Forall (fun n => In (n_msg n) (b_done s ++ cur (b_ppc s))) (b_notifiers s);
  inv_notif : forall m q, In (WNotif m q) (b_out s) -> In m (b_done s);
  inv_ok :
    b_ppc s = PWriteOk ->
    b_wrote s = true \/ b_calls s = [] \/ c_write_on_cancel c = true;
  inv_stop :
    at_stop (b_ppc s) = true ->
    b_wrote s = true \/ b_calls s = [] \/ b_cancelled s = true
}.

Lemma inv_init c calls : Inv c calls (binit c calls).
Proof.
  constructor; cbn; auto; try discriminate.
  intros _. split; auto. constructor.
Qed.

(* once written, the wire content of the batch never changes: only notifications
   are appended *)
Ltac inv_destruct I :=
  destruct I as [Isplit Iunw Iwr Ipc Iafter Iinact Iowner Inotif Iok Istop]; cbn in *.

(* respondWithError on an unwritten buffer writes a response for every answerable
   entry of the whole batch *)
Lemma respond_content all done calls resp k :
  all = done ++ calls -> k <> 0%N ->
  Forall2 RM resp (answerable done) ->
  Forall2 RM (resp ++ map (fun m => error_response m k) (answerable calls))
             (answerable (firstn (length all) all)).
Proof.
  intros -> K H. rewrite firstn_all, answerable_app.
  apply Forall2_app; auto using RM_errors.
Qed.

Lemma wr_match (l : list resp) :
  match l with [] => [] | _ :: _ => [WBatch l] end = wr l.
Proof. destruct l; reflexivity. Qed.

Ltac keep_written Iwr :=
  let W := fresh "W" in
  let cnt := fresh "cnt" in let k := fresh "k" in let ns := fresh "ns" in
  let Hk := fresh "Hk" in
  intros W; destruct (Iwr W) as (cnt & k & ns & ? & ? & ? & ? & ? & Hk);
  exists cnt, k, ns; repeat split; auto; try (destruct Hk; auto; discriminate).

Ltac easy_fields Iwr :=
  constructor; cbn; auto; try discriminate; try (keep_written Iwr);
  try (rewrite ?app_nil_r in *; auto; fail); eauto.

Ltac easy_fields0 :=
  constructor; cbn; auto; try discriminate;
  try (rewrite ?app_nil_r in *; auto; fail); eauto.

Lemma inv_pstep c all s s' : Inv c all s -> pstep c s = Some s' -> Inv c all s'.
Proof.
  intros I H. unfold pstep in H.
  destruct s as [calls resp wrote canc bytes pp tp nots out done]. cbn in H.
  destruct pp.
  - (* PCheck *)
    inversion H; subst; clear H. inv_destruct I.
    destruct canc; easy_fields Iwr.
  - (* PNext *)
    destruct calls as [|m rest]; inversion H; subst; clear H; inv_destruct I;
      easy_fields Iwr.
  - (* PExec *)
    inversion H; subst; clear H. inv_destruct I. destruct Ipc as (rest & ->).
    easy_fields Iwr.
    + intros _. apply Forall_app. split; auto.
      unfold new_notifier. destruct (executes m); [|constructor].
      destruct (m_sub m) as [[? ?]|]; constructor; cbn; auto.
    + apply Forall_app. split.
      * eapply Forall_impl; [|exact Iowner]. cbn. intros n Hn.
        rewrite app_nil_r in Hn. apply in_or_app. auto.
      * unfold new_notifier. destruct (executes m); [|constructor].
        destruct (m_sub m) as [[? ?]|]; constructor; cbn; auto. apply in_or_app. cbn. auto.
  - (* PPush *)
    inv_destruct I. destruct Ipc as ((rest & ->) & ->).
    inversion H; subst; clear H.
    assert (Hall : (done ++ [m]) ++ rest = done ++ m :: rest) by (rewrite <- app_assoc; reflexivity).
    constructor; cbn; auto.
    + intros W. destruct (Iunw W) as (-> & HR). split; auto.
      rewrite answerable_app. unfold answerable at 2. cbn.
      destruct (is_notification m) eqn:N; cbn.
      * rewrite app_nil_r. exact HR.
      * apply Forall2_app; auto. constructor; [|constructor]. apply RM_handle_call_msg; auto.
    + intros W. destruct (Iwr W) as (cnt & k & ns & ? & ? & ? & ? & ? & Hk).
      exists cnt, k, ns.
      assert (k = length (done ++ m :: rest)).
      { destruct (Nat.eq_dec k (length (done ++ m :: rest))); auto.
        destruct Hk as [Hk _]; [lia|]. discriminate. }
      repeat split; auto; try lia.
      rewrite app_length in *. cbn in *. lia.
    + match goal with |- context [if ?b then PTooLarge else PCheck] => destruct b end; cbn; auto.
    + match goal with |- context [if ?b then PTooLarge else PCheck] => destruct b end; cbn; discriminate.
    + match goal with |- context [if ?b then PTooLarge else PCheck] => destruct b end; cbn;
        rewrite app_nil_r; exact Iowner.
    + intros m' q HI. apply in_or_app. left. eauto.
    + match goal with |- context [if ?b then PTooLarge else PCheck] => destruct b end; cbn; discriminate.
    + match goal with |- context [if ?b then PTooLarge else PCheck] => destruct b end; cbn; discriminate.
  - (* PTooLarge *)
    inversion H; subst; clear H. inv_destruct I.
    unfold respond_with_error, do_write, set_ppc. cbn.
    destruct wrote; cbn.
    + easy_fields Iwr.
    + destruct (Iunw eq_refl) as (-> & HR).
      easy_fields Iwr.
      * intros _. rewrite wr_match.
        eexists _, (length all), []. rewrite app_nil_r.
        repeat split; auto; try lia;
          try (eapply respond_content; eauto; discriminate);
          try (rewrite Isplit, app_length; lia).
      * intros m' q HI. exfalso. eapply (wr_notif_free _ m' q). rewrite <- wr_match. exact HI.
  - (* PStop *)
    inversion H; subst; clear H. inv_destruct I. easy_fields Iwr.
  - (* PWrite: the test of batchCtx.Err() *)
    inversion H; subst; clear H. inv_destruct I.
    destruct (c_write_on_cancel c) eqn:WC; cbn; [easy_fields Iwr|].
    destruct canc; cbn; easy_fields Iwr.
    intros _. destruct (Istop eq_refl) as [?|[?|?]]; auto; discriminate.
  - (* PRespondC *)
    inversion H; subst; clear H. inv_destruct I.
    unfold respond_with_error, do_write, set_ppc. cbn.
    destruct wrote; cbn.
    + easy_fields Iwr.
    + destruct (Iunw eq_refl) as (-> & HR).
      easy_fields0.
      * intros _. rewrite wr_match.
        eexists _, (length all), []. rewrite app_nil_r.
        repeat split; auto; try lia;
          try (eapply respond_content; eauto; discriminate);
          try (rewrite Isplit, app_length; lia).
      * intros m' q HI. exfalso. eapply (wr_notif_free _ m' q). rewrite <- wr_match. exact HI.
  - (* PWriteOk *)
    inversion H; subst; clear H. inv_destruct I.
    unfold do_write, set_ppc. cbn. destruct wrote; cbn.
    + easy_fields Iwr.
    + destruct (Iunw eq_refl) as (-> & HR).
      easy_fields0.
      * intros _. rewrite wr_match.
        exists resp, (length done), []. rewrite app_nil_r.
        repeat split; auto.
        -- rewrite Isplit, firstn_app, firstn_all, Nat.sub_diag. cbn. rewrite app_nil_r. exact HR.
        -- rewrite Isplit, app_length. lia.
        -- destruct (Iok eq_refl) as [?|[Hc|?]]; auto; try discriminate.
           rewrite Hc in *. rewrite Isplit, app_length in H. cbn in H. lia.
      * intros m' q HI. exfalso. eapply (wr_notif_free _ m' q). rewrite <- wr_match. exact HI.
  - (* PActivate *)
    inv_destruct I. specialize (Iafter eq_refl). subst wrote.
    destruct (nth_error nots j) as [n|] eqn:En; inversion H; subst; clear H.
    + easy_fields0.
      * intros _. destruct (Iwr eq_refl) as (cnt & k & ns & -> & ? & ? & ? & ? & Hk).
        exists cnt, k, (ns ++ activate_out n). rewrite app_assoc.
        repeat split; auto using forallb_app_true, notifs_activate_out; destruct (Hk H3); auto.
      * apply Forall_upd_nth; auto.
      * intros m' q HI. apply in_app_or in HI. destruct HI as [HI|HI]; eauto.
        apply In_activate_out in HI. subst m'.
        pose proof (nth_error_Forall _ _ _ _ Iowner En) as Ho. cbn in Ho.
        rewrite app_nil_r in Ho. exact Ho.
    + easy_fields Iwr.
  - (* PDone *) discriminate.
Qed.

Lemma inv_tstep c all s s' : Inv c all s -> tstep c s = Some s' -> Inv c all s'.
Proof.
  intros I H. unfold tstep in H.
  destruct s as [calls resp wrote canc bytes pp tp nots out done]. cbn in H.
  destruct tp; try discriminate; destruct (c_cancel_first c) eqn:CF;
    inversion H; subst; clear H; inv_destruct I;
    unfold respond_with_error, do_write, set_tpc, set_cancelled; cbn.
  - (* TIdle, cancel first: cancel() *)
    easy_fields Iwr.
  - (* TIdle, respond first *)
    destruct wrote; cbn.
    + easy_fields Iwr.
    + destruct (Iunw eq_refl) as (-> & HR). easy_fields0.
      * intros _. rewrite wr_match.
        eexists _, (length all), []. rewrite app_nil_r.
        repeat split; auto; try lia;
          try (eapply respond_content; eauto; discriminate);
          try (rewrite Isplit, app_length; lia).
      * intros m' q HI. exfalso. eapply (wr_notif_free _ m' q). rewrite <- wr_match. exact HI.
  - (* TMid, cancel first: respondWithError *)
    destruct wrote; cbn.
    + easy_fields Iwr.
    + destruct (Iunw eq_refl) as (-> & HR). easy_fields0.
      * intros _. rewrite wr_match.
        eexists _, (length all), []. rewrite app_nil_r.
        repeat split; auto; try lia;
          try (eapply respond_content; eauto; discriminate);
          try (rewrite Isplit, app_length; lia).
      * intros m' q HI. exfalso. eapply (wr_notif_free _ m' q). rewrite <- wr_match. exact HI.
  - (* TMid, respond first: cancel() *)
    easy_fields Iwr.
Qed.

Lemma inv_estep c all i s s' : Inv c all s -> estep i s = Some s' -> Inv c all s'.
Proof.
  intros I H. unfold estep in H.
  destruct s as [calls resp wrote canc bytes pp tp nots out done]. cbn in H.
  destruct (nth_error nots i) as [n|] eqn:En; inversion H; subst; clear H.
  inv_destruct I.
  assert (Hact : n_activated n = true -> before_write pp = false).
  { intros A. destruct (before_write pp) eqn:B; auto.
    pose proof (nth_error_Forall _ _ _ _ (Iinact eq_refl) En) as Hn. cbn in Hn. congruence. }
  easy_fields0.
  - intros W. destruct (Iunw W) as (-> & HR). split; auto.
    unfold notify_out. destruct (n_activated n) eqn:A; auto.
    specialize (Iafter (Hact eq_refl)). congruence.
  - intros W. destruct (Iwr W) as (cnt & k & ns & -> & ? & ? & ? & ? & Hk).
    exists cnt, k, (ns ++ notify_out n). rewrite app_assoc.
    repeat split; auto using forallb_app_true, notifs_notify_out; destruct (Hk H3); auto.
  - intros B. apply Forall_upd_nth; auto.
    intros x Hx. unfold notify_upd. rewrite Hx. reflexivity.
  - apply Forall_upd_nth; auto.
    intros x Hx. unfold notify_upd. destruct (n_activated x); exact Hx.
  - intros m' q HI. apply in_app_or in HI. destruct HI as [HI|HI]; eauto.
    apply In_notify_out in HI. destruct HI as [-> A].
    pose proof (nth_error_Forall _ _ _ _ Iowner En) as Ho. cbn in Ho.
    assert (E : cur pp = []) by (specialize (Hact A); destruct pp; try discriminate; reflexivity).
    rewrite E, app_nil_r in Ho. exact Ho.
Qed.

Lemma inv_xstep c all s : Inv c all s -> Inv c all (set_cancelled s).
Proof.
  intros I. destruct s as [calls resp wrote canc bytes pp tp nots out done].
  inv_destruct I. unfold set_cancelled. cbn. easy_fields Iwr.
Qed.

Lemma inv_bstep c all t s s' : Inv c all s -> bstep c t s = Some s' -> Inv c all s'.
Proof.
  destruct t; cbn; eauto using inv_pstep, inv_tstep, inv_estep.
  intros I H. inversion H; subst. apply inv_xstep; auto.
Qed.

Lemma inv_reach c calls s : breach c (binit c calls) s -> Inv c calls s.
Proof.
  remember (binit c calls) as s0. induction 1; subst.
  - apply inv_init.
  - eapply inv_bstep; eauto.
Qed.

Lemma brun_reach c sch s : breach c s (brun c sch s).
Proof.
  assert (G : forall s0, breach c s0 s -> breach c s0 (brun c sch s)).
  { revert s. induction sch as [|t r IH]; cbn; intros s s0 H; auto.
    destruct (bstep c t s) eqn:E; auto. apply IH. econstructor; eauto. }
  apply G. constructor.
Qed.

(* ================================================================== *)
(* batch theorems                                                      *)
(* ================================================================== *)

(* the batch reply is written at most once, in every interleaving *)
Lemma batch_written_at_most_once c calls s :
  breach c (binit c calls) s -> length (batches (b_out s)) <= 1.
Proof.
  intros R. pose proof (inv_reach _ _ _ R) as I.
  destruct (b_wrote s) eqn:W.
  - destruct (inv_written _ _ _ I W) as (cnt & k & ns & -> & Hn & _).
    unfold batches. rewrite flat_map_app, app_length.
    assert (E : flat_map (fun e => match e with WBatch rs => [rs] | _ => [] end) ns = []).
    { clear -Hn. induction ns as [|e r IH]; cbn in *; auto.
      destruct e; cbn in *; try discriminate. auto. }
    rewrite E. destruct cnt; cbn; lia.
  - destruct (inv_unwritten _ _ _ I W) as (-> & _). cbn. lia.
Qed.

Lemma batches_wr cnt ns :
  forallb is_notif ns = true -> batches (wr cnt ++ ns) = match cnt with [] => [] | _ => [cnt] end.
Proof.
  intros Hn. unfold batches. rewrite flat_map_app.
  assert (E : flat_map (fun e => match e with WBatch rs => [rs] | _ => [] end) ns = []).
  { clear -Hn. induction ns as [|e r IH]; cbn in *; auto.
    destruct e; cbn in *; try discriminate. auto. }
  rewrite E, app_nil_r. destruct cnt; reflexivity.
Qed.

(* safety, every interleaving, either timer order: whatever was written answers a
   prefix of the batch, one response per answerable entry, in order, nothing for
   notifications, nothing twice *)
Lemma batch_no_duplicate_no_spurious c calls s :
  breach c (binit c calls) s ->
  exists cnt k, batches (b_out s) = match cnt with [] => [] | _ => [cnt] end /\
                Forall2 RM cnt (answerable (firstn k calls)).
Proof.
  intros R. pose proof (inv_reach _ _ _ R) as I.
  destruct (b_wrote s) eqn:W.
  - destruct (inv_written _ _ _ I W) as (cnt & k & ns & -> & Hn & HF & _).
    exists cnt, k. split; auto using batches_wr.
  - destruct (inv_unwritten _ _ _ I W) as (-> & _). exists [], 0. split; auto. constructor.
Qed.

(* completeness for the code as it is (after the loop: respondWithError if the context
   is cancelled, else write), for either order inside the timer callback and with the
   context cancelled by an external event (TX) at any point: in every interleaving, when the batch is over exactly one reply was written (none if
   nothing is answerable) and it holds exactly one response per answerable entry
   of the whole batch, in order *)
Lemma batch_exactly_one_per_call c calls s :
  c_write_on_cancel c = false ->
  breach c (binit c calls) s -> bfinal s = true ->
  exists cnt, batches (b_out s) = match cnt with [] => [] | _ => [cnt] end /\
              singles (b_out s) = [] /\
              Forall2 RM cnt (answerable calls).
Proof.
  intros CF R F. pose proof (inv_reach _ _ _ R) as I.
  assert (W : b_wrote s = true).
  { apply (inv_after _ _ _ I). unfold bfinal in F. destruct (b_ppc s); try discriminate. reflexivity. }
  destruct (inv_written _ _ _ I W) as (cnt & k & ns & -> & Hn & HF & _ & Hle & Hk).
  assert (k = length calls).
  { destruct (Nat.eq_dec k (length calls)); auto. destruct Hk; [lia|congruence]. }
  subst k. rewrite firstn_all in HF.
  exists cnt. repeat split; auto using batches_wr.
  unfold singles. rewrite flat_map_app.
  assert (E : flat_map (fun e => match e with WSingle r => [r] | _ => [] end) ns = []).
  { clear -Hn. induction ns as [|e r IH]; cbn in *; auto.
    destruct e; cbn in *; try discriminate. auto. }
  rewrite E. destruct cnt; reflexivity.
Qed.

(* the processor is never stuck before PDone (pushResponse never pops an empty list) *)
Lemma batch_processor_progress c calls s :
  breach c (binit c calls) s -> b_ppc s <> PDone -> pstep c s <> None.
Proof.
  intros R ND. pose proof (inv_pc _ _ _ (inv_reach _ _ _ R)) as P.
  unfold pstep. destruct (b_ppc s); try congruence; try discriminate.
  - destruct (b_calls s); discriminate.
  - destruct P as ((rest & ->) & _). discriminate.
  - destruct (nth_error (b_notifiers s) j); discriminate.
Qed.

(* after the write, no step changes what was written for the batch: a late
   pushResponse (the call that was executing when the timer fired) is discarded *)
Lemma batch_write_frozen c t s s' :
  b_wrote s = true -> bstep c t s = Some s' ->
  b_wrote s' = true /\ exists ns, b_out s' = b_out s ++ ns /\ forallb is_notif ns = true.
Proof.
  intros W H. destruct s as [calls resp wrote canc bytes pp tp nots out done].
  cbn in W. subst wrote.
  assert (Triv : forall o : list wevent, exists ns, o = o ++ ns /\ forallb is_notif ns = true)
    by (intros o; exists []; rewrite app_nil_r; auto).
  destruct t; cbn in H.
  - unfold pstep in H. cbn in H. destruct pp; try discriminate;
      try (inversion H; subst; cbn; split; auto; fail).
    + destruct calls; inversion H; subst; cbn; split; auto.
    + destruct calls; inversion H; subst; cbn; split; auto.
    + destruct (nth_error nots j); inversion H; subst; cbn; split; auto.
      eexists; split; eauto using notifs_activate_out.
  - unfold tstep in H. cbn in H.
    destruct tp; try discriminate; destruct (c_cancel_first c); inversion H; subst; cbn;
      split; auto.
  - unfold estep in H. cbn in H. destruct (nth_error nots i); inversion H; subst; cbn.
    split; auto. eexists; split; eauto using notifs_notify_out.
  - inversion H; subst; cbn. split; auto.
Qed.

(* what the timer's respondWithError writes on an unwritten buffer: the responses
   pushed so far, then a timeout error for every remaining answerable entry — the
   head of calls is the call currently executing (inv_pc) *)
Lemma batch_timeout_content (s : bstate) :
  b_wrote s = false ->
  b_out (respond_with_error E_TIMEOUT s) =
  b_out s ++ wr (b_resp s ++ map (fun m => error_response m E_TIMEOUT) (answerable (b_calls s))).
Proof.
  intros W. unfold respond_with_error, do_write. cbn. rewrite W. cbn. rewrite wr_match. reflexivity.
Qed.

Lemma batch_executing_is_head c calls s m :
  breach c (binit c calls) s -> b_ppc s = PExec m -> exists rest, b_calls s = m :: rest.
Proof.
  intros R E. pose proof (inv_pc _ _ _ (inv_reach _ _ _ R)) as P. rewrite E in P. exact P.
Qed.

(* whole-batch rejection: an empty batch, or one over the item limit, gets a single
   error and no call is executed (DESIGN section 10 item 3) *)
Lemma batch_invalid_single_error c msgs :
  (msgs = [] \/ (c_item_limit c <> 0%N /\ (c_item_limit c < N.of_nat (length msgs))%N)) ->
  handle_batch_front c msgs =
    match msgs with
    | [] => FEmpty (error_message E_INVALID_REQUEST)
    | _ => FTooLarge [mkResp (first_call_id msgs) E_INVALID_REQUEST]
    end.
Proof.
  intros [->|[L1 L2]]; [reflexivity|].
  unfold handle_batch_front.
  destruct msgs as [|m r]; [cbn in L2; lia|].
  assert (E1 : (c_item_limit c =? 0)%N = false) by (apply N.eqb_neq; auto).
  assert (E2 : (N.of_nat (length (m :: r)) <=? c_item_limit c)%N = false) by (apply N.leb_gt; auto).
  rewrite E1, E2. cbn [orb]. rewrite andb_false_r.
  assert (E3 : (N.of_nat (length (m :: r)) =? 0)%N = false) by (apply N.eqb_neq; cbn; lia).
  rewrite E3. reflexivity.
Qed.

Lemma batch_within_limit_runs c msgs :
  msgs <> [] -> (c_item_limit c = 0%N \/ (N.of_nat (length msgs) <= c_item_limit c)%N) ->
  handle_batch_front c msgs =
    match filter keep_as_call msgs with [] => FNothing | calls => FRun calls end.
Proof.
  intros NE L. unfold handle_batch_front.
  assert (E0 : (0 <? N.of_nat (length msgs))%N = true).
  { apply N.ltb_lt. destruct msgs; [congruence|cbn; lia]. }
  rewrite E0. cbn [andb].
  destruct L as [->|L]; [reflexivity|].
  apply N.leb_le in L. rewrite L, orb_true_r. reflexivity.
Qed.

(* entries kept for execution are never responses; notifications stay notifications *)
Lemma keep_as_call_not_response m : keep_as_call m = true -> is_response m = false.
Proof. unfold keep_as_call. destruct (is_response m); auto; discriminate. Qed.

(* subscription notifications are written only after the batch reply that carries
   the response of the subscribe call *)
Lemma batch_notifications_after_response c calls s pre m q post :
  breach c (binit c calls) s ->
  b_out s = pre ++ WNotif m q :: post -> is_call m = true ->
  exists cnt r pre', pre = WBatch cnt :: pre' /\ In r cnt /\ r_id r = RCopy (m_id m).
Proof.
  intros R E C. pose proof (inv_reach _ _ _ R) as I.
  assert (HI : In (WNotif m q) (b_out s)) by (rewrite E; apply in_or_app; cbn; auto).
  destruct (b_wrote s) eqn:W.
  2:{ destruct (inv_unwritten _ _ _ I W) as (E0 & _). rewrite E0 in HI. contradiction. }
  pose proof (inv_notif _ _ _ I _ _ HI) as Hd.
  destruct (inv_written _ _ _ I W) as (cnt & k & ns & Eo & Hn & HF & Hle & _).
  assert (Hin : In m (answerable (firstn k calls))).
  { rewrite (inv_split _ _ _ I), firstn_prefix by exact Hle.
    unfold answerable. apply filter_In. split.
    - apply in_or_app. auto.
    - rewrite call_not_notification; auto. }
  destruct (Forall2_In_r _ _ _ _ HF Hin) as (r & Hr & [Hid _]).
  exists cnt, r. rewrite Eo in E.
  destruct cnt as [|r0 cnt']; [contradiction|]. cbn in E.
  destruct pre as [|e pre']; cbn in E; inversion E; subst.
  exists pre'. auto.
Qed.

(* the old timer order (cancel, then respondWithError) does lose responses: two
   calls; the first finishes; the timer cancels; the processor sees the cancellation,
   leaves the loop and writes [r1]; the timer's respondWithError is then a no-op *)
Definition wit_call (i : N) : msg := mkMsg true (IdVal true i) MPlain false false false 0 1 None.
Definition wit_cfg (cancel_first write_on_cancel : bool) : cfg :=
  mkCfg 0 0 43 true cancel_first write_on_cancel false.
Definition wit_schedule : list tid :=
  [TP; TP; TP; TP;    (* check, nextCall, exec call 1, pushResponse *)
   TT;                (* timer: first action *)
   TP; TP; TP; TP;    (* check (sees the cancellation), timer.Stop, Err() test, write *)
   TT;                (* timer: second action *)
   TP; TP; TP; TP; TP; TP; TP; TP; TP; TP].

Lemma batch_cancel_first_refuted :
  exists c calls sch,
    c_cancel_first c = true /\ c_write_on_cancel c = true /\
    let s := brun c sch (binit c calls) in
    bfinal s = true /\
    answerable calls = calls /\ length calls = 2 /\
    batches (b_out s) = [[mkResp (RCopy (IdVal true 1)) 0]].
Proof.
  exists (wit_cfg true true), [wit_call 1; wit_call 2], wit_schedule.
  vm_compute. repeat split; reflexivity.
Qed.

(* with the old unconditional write() an external cancellation loses responses even with
   the repaired timer order and no timer at all: the first call finishes, the context is
   cancelled from outside, the processor leaves the loop and writes [r1] *)
Lemma batch_external_cancel_refuted :
  exists c calls sch,
    c_cancel_first c = false /\ c_write_on_cancel c = true /\ c_timeout c = false /\
    let s := brun c sch (binit c calls) in
    bfinal s = true /\
    answerable calls = calls /\ length calls = 2 /\
    batches (b_out s) = [[mkResp (RCopy (IdVal true 1)) 0]].
Proof.
  exists (mkCfg 0 0 43 false false true false), [wit_call 1; wit_call 2],
         ([TP; TP; TP; TP; TX] ++ repeat TP 10).
  vm_compute. repeat split; reflexivity.
Qed.

(* ================================================================== *)
(* single call                                                         *)
(* ================================================================== *)

Definition sbefore (p : spc) : bool :=
  match p with SActivate _ | SDone => false | _ => true end.

Record SInv (c : cfg) (m : msg) (s : sstate) : Prop := {
  sinv_unresp : s_responded s = false -> s_out s = [];
  sinv_resp :
    s_responded s = true ->
    exists ns, forallb is_notif ns = true /\
      ((s_out s = WSingle (handle_call_msg m) :: ns /\ is_notification m = false) \/
       (s_out s = ns /\ is_notification m = true) \/
       (s_out s = WSingle (error_response m E_TIMEOUT) :: ns /\ s_tpc s = TDone /\
        (is_notification m = false \/ c_notif_timeout_reply c = true)));
  sinv_after : sbefore (s_spc s) = false -> s_responded s = true;
  sinv_inactive :
    sbefore (s_spc s) = true -> Forall (fun n => n_activated n = false) (s_notifiers s);
  sinv_pc :
    match s_spc s with
    | SStop r | SRespond r => r = handle_call_msg m
    | _ => True
    end;
  sinv_notimer : c_timeout c = false -> s_tpc s = TNone
}.

Lemma sinv_init c m : SInv c m (sinit c).
Proof.
  constructor; cbn; auto; try discriminate.
  intros ->. reflexivity.
Qed.

Ltac sinv_destruct I := destruct I as [Iun Ire Iaf Iin Ipc Int]; cbn in *.

Ltac keep_resp Ire :=
  let W := fresh "W" in let ns := fresh "ns" in
  intros W; destruct (Ire W) as (ns & ? & [[? ?]|[[? ?]|(? & ? & ?)]]);
  exists ns; split; auto.

Lemma sinv_step c m t s s' : SInv c m s -> sstep c m t s = Some s' -> SInv c m s'.
Proof.
  intros I H. destruct s as [rsp canc pc tp nots out]. destruct t; cbn in H.
  - (* processor *)
    unfold spstep in H. cbn in H. destruct pc.
    + inversion H; subst; clear H. sinv_destruct I.
      constructor; cbn; auto; try discriminate; try (keep_resp Ire).
      intros _. apply Forall_app. split; auto.
      unfold new_notifier. destruct (executes m); [|constructor].
      destruct (m_sub m) as [[? ?]|]; constructor; cbn; auto.
    + inversion H; subst; clear H. sinv_destruct I. subst r.
      constructor; cbn; auto; try discriminate.
      * intros W. destruct (Ire W) as (ns & ? & [[? ?]|[[? ?]|(? & ? & ?)]]); exists ns; split; auto.
        subst tp. cbn. auto.
      * intros T. rewrite (Int T). reflexivity.
    + inversion H; subst; clear H. sinv_destruct I. subst r.
      unfold once_write, sset_spc. cbn. destruct rsp; cbn.
      * constructor; cbn; auto; try discriminate.
      * rewrite (Iun eq_refl).
        constructor; cbn; auto; try discriminate.
        intros _. exists []. split; auto.
        destruct (is_notification m); cbn; auto.
    + sinv_destruct I. specialize (Iaf eq_refl). subst rsp.
      destruct (nth_error nots j) as [n|] eqn:En; inversion H; subst; clear H.
      * constructor; cbn; auto; try discriminate.
        intros _. destruct (Ire eq_refl) as (ns & ? & [[-> ?]|[[-> ?]|(-> & ? & ?)]]);
          exists (ns ++ activate_out n); (split; [auto using forallb_app_true, notifs_activate_out|]); auto.
      * constructor; cbn; auto; try discriminate.
    + discriminate.
  - (* timer *)
    unfold ststep in H. cbn in H. destruct tp; try discriminate.
    + inversion H; subst; clear H. sinv_destruct I.
      constructor; cbn; auto; try discriminate.
      * intros W. destruct (Ire W) as (ns & ? & [[? ?]|[[? ?]|(? & ? & ?)]]); try discriminate;
          exists ns; split; auto.
      * intros T. specialize (Int T). discriminate.
    + inversion H; subst; clear H. sinv_destruct I.
      unfold once_write, sset_tpc. cbn. destruct rsp; cbn.
      * constructor; cbn; auto; try discriminate.
        -- intros W. destruct (Ire W) as (ns & ? & [[? ?]|[[? ?]|(? & ? & ?)]]); try discriminate;
             exists ns; split; auto.
        -- intros T. specialize (Int T). discriminate.
      * rewrite (Iun eq_refl).
        constructor; cbn; auto; try discriminate.
        -- intros _. exists []. split; auto.
           destruct (is_notification m) eqn:N; destruct (c_notif_timeout_reply c) eqn:Fl;
             cbn; auto 8.
        -- intros T. specialize (Int T). discriminate.
  - (* Notify *)
    unfold sestep in H. cbn in H.
    destruct (nth_error nots i) as [n|] eqn:En; inversion H; subst; clear H.
    sinv_destruct I.
    assert (Hact : n_activated n = true -> sbefore pc = false).
    { intros A. destruct (sbefore pc) eqn:B; auto.
      pose proof (nth_error_Forall _ _ _ _ (Iin eq_refl) En) as Hn. cbn in Hn. congruence. }
    constructor; cbn; auto.
    + intros W. rewrite (Iun W). unfold notify_out. destruct (n_activated n) eqn:A; auto.
      specialize (Iaf (Hact eq_refl)). congruence.
    + intros W. destruct (Ire W) as (ns & ? & [[-> ?]|[[-> ?]|(-> & ? & ?)]]);
        exists (ns ++ notify_out n); (split; [auto using forallb_app_true, notifs_notify_out|]); auto.
    + intros B. apply Forall_upd_nth; auto.
      intros x Hx. unfold notify_upd. rewrite Hx. reflexivity.
  - (* external cancellation *)
    inversion H; subst; clear H. sinv_destruct I.
    constructor; cbn; auto.
Qed.

Lemma sinv_reach c m s : sreach c m (sinit c) s -> SInv c m s.
Proof.
  remember (sinit c) as s0. induction 1; subst.
  - apply sinv_init.
  - eapply sinv_step; eauto.
Qed.

Lemma singles_notifs ns : forallb is_notif ns = true -> singles ns = [].
Proof.
  unfold singles. induction ns as [|e r IH]; cbn; auto.
  destruct e; cbn; try discriminate. auto.
Qed.

Lemma singles_cons r ns : forallb is_notif ns = true -> singles (WSingle r :: ns) = [r].
Proof. intros H. change (singles (WSingle r :: ns)) with (r :: singles ns). rewrite singles_notifs; auto. Qed.

(* a single non-notification message is answered exactly once, in every
   interleaving of the handler goroutine and the timer *)
Lemma single_exactly_once c m s :
  sreach c m (sinit c) s -> sfinal s = true -> is_notification m = false ->
  exists r ns, s_out s = WSingle r :: ns /\ forallb is_notif ns = true /\
               singles (s_out s) = [r] /\ RM r m.
Proof.
  intros R F N. pose proof (sinv_reach _ _ _ R) as I.
  assert (W : s_responded s = true).
  { apply (sinv_after _ _ _ I). unfold sfinal in F. destruct (s_spc s); try discriminate. reflexivity. }
  destruct (sinv_resp _ _ _ I W) as (ns & Hn & [[E _]|[[_ N']|[E _]]]); [| congruence |].
  - exists (handle_call_msg m), ns. rewrite E.
    split; [reflexivity|]. split; [exact Hn|].
    split; [apply singles_cons; auto | apply RM_handle_call_msg; auto].
  - exists (error_response m E_TIMEOUT), ns. rewrite E.
    split; [reflexivity|]. split; [exact Hn|].
    split; [apply singles_cons; auto | apply RM_error_response; discriminate].
Qed.

(* a single notification gets no reply — when no request timeout is configured *)
Lemma single_notification_no_reply_partial c m s :
  c_timeout c = false ->
  sreach c m (sinit c) s -> is_notification m = true -> singles (s_out s) = [].
Proof.
  intros T R N. pose proof (sinv_reach _ _ _ R) as I.
  destruct (s_responded s) eqn:W.
  - destruct (sinv_resp _ _ _ I W) as (ns & Hn & [[_ N']|[[E _]|(_ & E & _)]]); [congruence | |].
    + rewrite E. auto using singles_notifs.
    + rewrite (sinv_notimer _ _ _ I T) in E. discriminate.
  - rewrite (sinv_unresp _ _ _ I W). reflexivity.
Qed.

(* the code as it is now: a single notification never gets a reply, whatever the timer does *)
Lemma single_notification_no_reply c m s :
  c_notif_timeout_reply c = false ->
  sreach c m (sinit c) s -> is_notification m = true -> singles (s_out s) = [].
Proof.
  intros Fl R N. pose proof (sinv_reach _ _ _ R) as I.
  destruct (s_responded s) eqn:W.
  - destruct (sinv_resp _ _ _ I W) as (ns & Hn & [[_ N']|[[E _]|(_ & _ & [N'|Fl'])]]); try congruence.
    rewrite E. auto using singles_notifs.
  - rewrite (sinv_unresp _ _ _ I W). reflexivity.
Qed.

(* ... while the code before commit 947a0e3339 replied to a notification on timeout *)
Definition wit_notification : msg := mkMsg true IdAbsent MPlain false false false 0 1 None.

Lemma single_notification_timeout_refuted :
  exists c m sch,
    c_notif_timeout_reply c = true /\ is_notification m = true /\
    let s := srun c m sch (sinit c) in
    sfinal s = true /\ singles (s_out s) = [error_response m E_TIMEOUT].
Proof.
  exists (mkCfg 0 0 43 true false false true), wit_notification, [TT; TT; TP; TP; TP; TP; TP].
  vm_compute. repeat split; reflexivity.
Qed.

Lemma single_notifications_after_response c m s pre m' q post :
  sreach c m (sinit c) s ->
  s_out s = pre ++ WNotif m' q :: post -> is_notification m = false ->
  exists r pre', pre = WSingle r :: pre' /\ RM r m.
Proof.
  intros R E N. pose proof (sinv_reach _ _ _ R) as I.
  destruct (s_responded s) eqn:W.
  2:{ rewrite (sinv_unresp _ _ _ I W) in E. destruct pre; discriminate. }
  destruct (sinv_resp _ _ _ I W) as (ns & Hn & [[E' _]|[[_ N']|[E' _]]]); [| congruence |];
    rewrite E' in E; destruct pre as [|e pre']; cbn in E; inversion E; subst.
  - exists (handle_call_msg m), pre'. auto using RM_handle_call_msg.
  - exists (error_response m E_TIMEOUT), pre'. split; auto. apply RM_error_response. discriminate.
Qed.

Lemma srun_reach c m sch s : sreach c m s (srun c m sch s).
Proof.
  assert (G : forall s0, sreach c m s0 s -> sreach c m s0 (srun c m sch s)).
  { revert s. induction sch as [|t r IH]; cbn; intros s s0 H; auto.
    destruct (sstep c m t s) eqn:E; auto. apply IH. econstructor; eauto. }
  apply G. constructor.
Qed.
