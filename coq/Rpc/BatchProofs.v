(* Rpc/BatchProofs.v — invariants of the interleaving models of Rpc/Batch.v (C49). *)
From GV Require Import Lib.Tactics Rpc.Batch.

(* "r is a response for m": a call is answered with its own id; an entry that is
   neither call nor notification (invalid request) is answered with an error. *)
Definition RM (r : resp) (m : msg) : Prop :=
  (is_call m = true -> r_id r = RCopy (m_id m)) /\
  (is_call m = false -> r_kind r <> 0%N).

(* what doWrite puts on the wire for buffer content c *)
Definition wr (c : list resp) : list wevent :=
  match c with [] => [] | _ => [WBatch c] end.

Definition before_write (p : ppc) : bool :=
  match p with PActivate _ | PDone => false | _ => true end.
Definition cur (p : ppc) : list msg :=
  match p with PPush m _ => [m] | _ => [] end.
Definition at_stop (p : ppc) : bool :=
  match p with PStop | PWrite => true | _ => false end.

Arguments answerable : simpl never.

(* ---------------- small list facts ---------------- *)

Lemma answerable_app a b : answerable (a ++ b) = answerable a ++ answerable b.
Proof. unfold answerable. apply filter_app. Qed.

Lemma Forall2_app_RM a b c d :
  Forall2 RM a b -> Forall2 RM c d -> Forall2 RM (a ++ c) (b ++ d).
Proof. apply Forall2_app. Qed.

Lemma call_not_notification m : is_call m = true -> is_notification m = false.
Proof.
  unfold is_call, is_notification, has_valid_id, id_absent.
  destruct (m_id m) as [|[] ?]; destruct (m_vsn m); cbn; auto; intros; try discriminate.
Qed.

Lemma RM_error_response m k : k <> 0%N -> RM (error_response m k) m.
Proof. intros K. split; cbn; auto. Qed.

Lemma RM_errors k l : k <> 0%N -> Forall2 RM (map (fun m => error_response m k) l) l.
Proof. intros K. induction l; cbn; constructor; auto using RM_error_response. Qed.

Lemma RM_handle_call_msg m : is_notification m = false -> RM (handle_call_msg m) m.
Proof.
  intros N. unfold handle_call_msg. rewrite N.
  destruct (is_call m) eqn:C.
  - split; cbn; auto. congruence.
  - destruct (has_valid_id m); split; cbn; intros; try congruence; discriminate.
Qed.

Lemma Forall2_In_r {A B} (R : A -> B -> Prop) l1 l2 y :
  Forall2 R l1 l2 -> In y l2 -> exists x, In x l1 /\ R x y.
Proof.
  induction 1; cbn; intros HI; [contradiction|].
  destruct HI as [->|HI]; [eauto|]. destruct (IHForall2 HI) as (x0 & ? & ?); eauto.
Qed.

Lemma firstn_prefix {A} (a b : list A) k :
  length a <= k -> firstn k (a ++ b) = a ++ firstn (k - length a) b.
Proof.
  intros H. rewrite firstn_app. rewrite firstn_all2 by exact H. reflexivity.
Qed.

Lemma forallb_app_true {A} (f : A -> bool) a b :
  forallb f a = true -> forallb f b = true -> forallb f (a ++ b) = true.
Proof. intros. rewrite forallb_app. rewrite H, H0. reflexivity. Qed.

Lemma notifs_activate_out n : forallb is_notif (activate_out n) = true.
Proof. unfold activate_out. induction (n_buffer n); cbn; auto. Qed.

Lemma notifs_notify_out n : forallb is_notif (notify_out n) = true.
Proof. unfold notify_out. destruct (n_activated n); reflexivity. Qed.

Lemma Forall_upd_nth {A} (P : A -> Prop) f i l :
  Forall P l -> (forall x, P x -> P (f x)) -> Forall P (upd_nth i f l).
Proof.
  intros H Hf. revert i. induction H; intros i; cbn.
  - destruct i; constructor.
  - destruct i; constructor; auto.
Qed.

Lemma nth_error_Forall {A} (P : A -> Prop) l i x :
  Forall P l -> nth_error l i = Some x -> P x.
Proof. intros H E. rewrite Forall_forall in H. apply H. eapply nth_error_In; eauto. Qed.

Lemma In_activate_out n m q : In (WNotif m q) (activate_out n) -> m = n_msg n.
Proof.
  unfold activate_out. rewrite in_map_iff. intros (x & E & _). inversion E; auto.
Qed.

Lemma In_notify_out n m q : In (WNotif m q) (notify_out n) -> m = n_msg n /\ n_activated n = true.
Proof.
  unfold notify_out. destruct (n_activated n); cbn; [|contradiction].
  intros [E|[]]. inversion E; auto.
Qed.

Lemma wr_notif_free c m q : ~ In (WNotif m q) (wr c).
Proof. destruct c; cbn; [auto|]. intros [E|[]]; discriminate. Qed.

(* ================================================================== *)
(* the batch invariant                                                 *)
(* ================================================================== *)

Record Inv (c : cfg) (all : list msg) (s : bstate) : Prop := {
  inv_split : all = b_done s ++ b_calls s;
  inv_unwritten :
    b_wrote s = false ->
    b_out s = [] /\ Forall2 RM (b_resp s) (answerable (b_done s));
  inv_written :
    b_wrote s = true ->
    exists cnt k ns,
      b_out s = wr cnt ++ ns /\ forallb is_notif ns = true /\
      Forall2 RM cnt (answerable (firstn k all)) /\
      length (b_done s) <= k /\ k <= length all /\
      (k < length all -> before_write (b_ppc s) = false /\ c_cancel_first c = true);
  inv_pc :
    match b_ppc s with
    | PExec m => exists rest, b_calls s = m :: rest
    | PPush m r => (exists rest, b_calls s = m :: rest) /\ r = handle_call_msg m
    | _ => True
    end;
  inv_after : before_write (b_ppc s) = false -> b_wrote s = true;
  inv_inactive :
    before_write (b_ppc s) = true ->
    Forall (fun n => n_activated n = false) (b_notifiers s);
  inv_owner :
    Forall (fun n => In (n_msg n) (b_done s ++ cur (b_ppc s))) (b_notifiers s);
  inv_notif : forall m q, In (WNotif m q) (b_out s) -> In m (b_done s);
  inv_cancel : b_cancelled s = true -> c_cancel_first c = false -> b_wrote s = true;
  inv_stop :
    at_stop (b_ppc s) = true ->
    b_wrote s = true \/ b_calls s = [] \/ b_cancelled s = true;
  inv_mid : b_tpc s = TMid -> c_cancel_first c = false -> b_wrote s = true
}.

Lemma inv_init c calls : Inv c calls (binit c calls).
Proof.
  constructor; cbn; auto; try discriminate.
  - intros _. split; auto. constructor.
  - destruct (c_timeout c); discriminate.
Qed.

(* once written, the wire content of the batch never changes: only notifications
   are appended *)
Ltac inv_destruct I :=
  destruct I as [Isplit Iunw Iwr Ipc Iafter Iinact Iowner Inotif Icancel Istop Imid]; cbn in *.

(* respondWithError on an unwritten buffer writes a response for every answerable
   entry of the whole batch *)
Lemma respond_content all done calls resp k :
  all = done ++ calls -> k <> 0%N ->
  Forall2 RM resp (answerable done) ->
  Forall2 RM (resp ++ map (fun m => error_response m k) (answerable calls))
             (answerable (firstn (length all) all)).
Proof.
  intros -> K H. rewrite firstn_all, answerable_app.
  apply Forall2_app; auto using RM_errors.
Qed.

Lemma wr_match (l : list resp) :
  match l with [] => [] | _ :: _ => [WBatch l] end = wr l.
Proof. destruct l; reflexivity. Qed.

Ltac keep_written Iwr :=
  let W := fresh "W" in
  let cnt := fresh "cnt" in let k := fresh "k" in let ns := fresh "ns" in
  let Hk := fresh "Hk" in
  intros W; destruct (Iwr W) as (cnt & k & ns & ? & ? & ? & ? & ? & Hk);
  exists cnt, k, ns; repeat split; auto; try (destruct Hk; auto; discriminate).

Ltac easy_fields Iwr :=
  constructor; cbn; auto; try discriminate; try (keep_written Iwr);
  try (rewrite ?app_nil_r in *; auto; fail); eauto.

Ltac easy_fields0 :=
  constructor; cbn; auto; try discriminate;
  try (rewrite ?app_nil_r in *; auto; fail); eauto.

Lemma inv_pstep c all s s' : Inv c all s -> pstep c s = Some s' -> Inv c all s'.
Proof.
  intros I H. unfold pstep in H.
  destruct s as [calls resp wrote canc bytes pp tp nots out done]. cbn in H.
  destruct pp.
  - (* PCheck *)
    inversion H; subst; clear H. inv_destruct I.
    destruct canc; easy_fields Iwr.
  - (* PNext *)
    destruct calls as [|m rest]; inversion H; subst; clear H; inv_destruct I;
      easy_fields Iwr.
  - (* PExec *)
    inversion H; subst; clear H. inv_destruct I. destruct Ipc as (rest & ->).
    easy_fields Iwr.
    + intros _. apply Forall_app. split; auto.
      unfold new_notifier. destruct (executes m); [|constructor].
      destruct (m_sub m); constructor; cbn; auto.
    + apply Forall_app. split.
      * eapply Forall_impl; [|exact Iowner]. cbn. intros n Hn.
        rewrite app_nil_r in Hn. apply in_or_app. auto.
      * unfold new_notifier. destruct (executes m); [|constructor].
        destruct (m_sub m); constructor; cbn; auto. apply in_or_app. cbn. auto.
  - (* PPush *)
    inv_destruct I. destruct Ipc as ((rest & ->) & ->).
    inversion H; subst; clear H.
    assert (Hall : (done ++ [m]) ++ rest = done ++ m :: rest) by (rewrite <- app_assoc; reflexivity).
    constructor; cbn; auto.
    + intros W. destruct (Iunw W) as (-> & HR). split; auto.
      rewrite answerable_app. unfold answerable at 2. cbn.
      destruct (is_notification m) eqn:N; cbn.
      * rewrite app_nil_r. exact HR.
      * apply Forall2_app; auto. constructor; [|constructor]. apply RM_handle_call_msg; auto.
    + intros W. destruct (Iwr W) as (cnt & k & ns & ? & ? & ? & ? & ? & Hk).
      exists cnt, k, ns.
      assert (k = length (done ++ m :: rest)).
      { destruct (Nat.eq_dec k (length (done ++ m :: rest))); auto.
        destruct Hk as [Hk _]; [lia|]. discriminate. }
      repeat split; auto; try lia.
      rewrite app_length in *. cbn in *. lia.
    + match goal with |- context [if ?b then PTooLarge else PCheck] => destruct b end; cbn; auto.
    + match goal with |- context [if ?b then PTooLarge else PCheck] => destruct b end; cbn; discriminate.
    + match goal with |- context [if ?b then PTooLarge else PCheck] => destruct b end; cbn;
        rewrite app_nil_r; exact Iowner.
    + intros m' q HI. apply in_or_app. left. eauto.
    + match goal with |- context [if ?b then PTooLarge else PCheck] => destruct b end; cbn; discriminate.
  - (* PTooLarge *)
    inversion H; subst; clear H. inv_destruct I.
    unfold respond_with_error, do_write, set_ppc. cbn.
    destruct wrote; cbn.
    + easy_fields Iwr.
    + destruct (Iunw eq_refl) as (-> & HR).
      easy_fields Iwr.
      * intros _. rewrite wr_match.
        eexists _, (length all), []. rewrite app_nil_r.
        repeat split; auto; try lia;
          try (eapply respond_content; eauto; discriminate);
          try (rewrite Isplit, app_length; lia).
      * intros m' q HI. exfalso. eapply (wr_notif_free _ m' q). rewrite <- wr_match. exact HI.
  - (* PStop *)
    inversion H; subst; clear H. inv_destruct I. easy_fields Iwr.
    destruct tp; cbn; auto; discriminate.
  - (* PWrite *)
    inversion H; subst; clear H. inv_destruct I.
    unfold do_write, set_ppc. cbn. destruct wrote; cbn.
    + easy_fields Iwr.
    + destruct (Iunw eq_refl) as (-> & HR).
      easy_fields Iwr.
      * intros _. rewrite wr_match.
        exists resp, (length done), []. rewrite app_nil_r.
        assert (Hcalls : c_cancel_first c = false -> calls = []).
        { intros CF. destruct (Istop eq_refl) as [?|[?|Hc]]; auto; try discriminate.
          specialize (Icancel Hc CF). discriminate. }
        repeat split; auto.
        -- rewrite Isplit, firstn_app, firstn_all, Nat.sub_diag. cbn. rewrite app_nil_r. exact HR.
        -- rewrite Isplit, app_length. lia.
        -- destruct (c_cancel_first c) eqn:CF; auto.
           rewrite (Hcalls eq_refl) in *. rewrite Isplit, app_length in H. cbn in H. lia.
      * intros m' q HI. exfalso. eapply (wr_notif_free _ m' q). rewrite <- wr_match. exact HI.
  - (* PActivate *)
    inv_destruct I. specialize (Iafter eq_refl). subst wrote.
    destruct (nth_error nots j) as [n|] eqn:En; inversion H; subst; clear H.
    + easy_fields0.
      * intros _. destruct (Iwr eq_refl) as (cnt & k & ns & -> & ? & ? & ? & ? & Hk).
        exists cnt, k, (ns ++ activate_out n). rewrite app_assoc.
        repeat split; auto using forallb_app_true, notifs_activate_out; destruct (Hk H3); auto.
      * apply Forall_upd_nth; auto.
      * intros m' q HI. apply in_app_or in HI. destruct HI as [HI|HI]; eauto.
        apply In_activate_out in HI. subst m'.
        pose proof (nth_error_Forall _ _ _ _ Iowner En) as Ho. cbn in Ho.
        rewrite app_nil_r in Ho. exact Ho.
    + easy_fields Iwr.
  - (* PDone *) discriminate.
Qed.

Lemma inv_tstep c all s s' : Inv c all s -> tstep c s = Some s' -> Inv c all s'.
Proof.
  intros I H. unfold tstep in H.
  destruct s as [calls resp wrote canc bytes pp tp nots out done]. cbn in H.
  destruct tp; try discriminate; destruct (c_cancel_first c) eqn:CF;
    inversion H; subst; clear H; inv_destruct I;
    unfold respond_with_error, do_write, set_tpc, set_cancelled; cbn.
  - (* TIdle, cancel first: cancel() *)
    easy_fields Iwr; intros; congruence.
  - (* TIdle, respond first *)
    destruct wrote; cbn.
    + easy_fields Iwr.
    + destruct (Iunw eq_refl) as (-> & HR). easy_fields0.
      * intros _. rewrite wr_match.
        eexists _, (length all), []. rewrite app_nil_r.
        repeat split; auto; try lia;
          try (eapply respond_content; eauto; discriminate);
          try (rewrite Isplit, app_length; lia).
      * intros m' q HI. exfalso. eapply (wr_notif_free _ m' q). rewrite <- wr_match. exact HI.
  - (* TMid, cancel first: respondWithError *)
    destruct wrote; cbn.
    + easy_fields Iwr.
    + destruct (Iunw eq_refl) as (-> & HR). easy_fields0.
      * intros _. rewrite wr_match.
        eexists _, (length all), []. rewrite app_nil_r.
        repeat split; auto; try lia;
          try (eapply respond_content; eauto; discriminate);
          try (rewrite Isplit, app_length; lia).
      * intros m' q HI. exfalso. eapply (wr_notif_free _ m' q). rewrite <- wr_match. exact HI.
  - (* TMid, respond first: cancel() *)
    easy_fields Iwr.
Qed.

Lemma inv_estep c all i s s' : Inv c all s -> estep i s = Some s' -> Inv c all s'.
Proof.
  intros I H. unfold estep in H.
  destruct s as [calls resp wrote canc bytes pp tp nots out done]. cbn in H.
  destruct (nth_error nots i) as [n|] eqn:En; inversion H; subst; clear H.
  inv_destruct I.
  assert (Hact : n_activated n = true -> before_write pp = false).
  { intros A. destruct (before_write pp) eqn:B; auto.
    pose proof (nth_error_Forall _ _ _ _ (Iinact eq_refl) En) as Hn. cbn in Hn. congruence. }
  easy_fields0.
