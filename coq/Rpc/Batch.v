(* Rpc/Batch.v — executable model of the JSON-RPC server's response bookkeeping,
   transcribed from /repo/rpc/json.go, /repo/rpc/handler.go and
   /repo/rpc/subscription.go (C49).  MODEL ONLY: no proofs in this file.

   What is modelled
     * message classification (json.go isNotification/isCall/isResponse/hasValidID),
       on the features of a decoded jsonrpcMessage (which fields are present);
     * handler.handleBatch: validity test (empty / item limit), handleResponses
       filtering, batchCallBuffer {calls, resp, wrote} with its atomic methods
       nextCall / pushResponse / write / respondWithError / doWrite (each is one
       region of batchCallBuffer.mutex), the processing loop (with the
       response-size-limit exit) and the timeout timer as a second thread;
     * handler.handleNonBatchCall: sync.Once-guarded response vs. timer;
     * Notifier (subscription.go): buffer / activated, Notify, activate.
   Concurrency is modelled as interleavings of atomic steps of the threads
     TP (the callProc goroutine), TT (the time.AfterFunc goroutine),
     TE i (a service goroutine calling Notify on notifier i),
     TX (anything outside the handler that cancels the request context).
   What executing a method does is environment: each message carries the class of
   the answer handleCall produces for it (m_out), that answer's size (m_size) and
   whether handleSubscribe installs a notifier (m_sub). *)
From Coq Require Import List NArith Bool.
Import ListNotations.

(* ------------------------------------------------------------------ *)
(* json.go: jsonrpcMessage, by the features the classification reads   *)
(* ------------------------------------------------------------------ *)

(* msg.ID : json.RawMessage.  IdAbsent = nil (no "id" member); IdVal valid tok =
   present, [valid] = hasValidID (non-empty, first byte not '{' or '['), [tok] names
   the raw text (the harness numbers the distinct id texts; JSON null has token 0). *)
Inductive idk := IdAbsent | IdVal (valid : bool) (tok : N).

(* msg.Method: "" | ends with "_subscription" | anything else *)
Inductive mkind := MEmpty | MPlain | MSubNotif.

Record msg := mkMsg {
  m_vsn : bool;          (* Version == "2.0" *)
  m_id : idk;
  m_method : mkind;
  m_params : bool;       (* Params != nil *)
  m_result : bool;       (* Result != nil *)
  m_error : bool;        (* Error != nil *)
  (* environment (service behaviour), read only when the message is executed *)
  m_out : N;             (* class of handleCall's answer: 0 = result, k > 0 = error class k *)
  m_size : N;            (* len(answer.Result) + len(answer.Error) *)
  m_sub : option (nat * nat)
                         (* Some (k, j): handleSubscribe installs a Notifier, the callback calls
                            Notify k times before it returns and a goroutine it started calls
                            Notify j more times at unspecified later moments (the TE steps;
                            j is only read by Run/C49.v to build its schedule) *)
}.

Definition has_valid_id (m : msg) : bool :=           (* hasValidID *)
  match m_id m with IdVal true _ => true | _ => false end.
Definition id_absent (m : msg) : bool :=              (* msg.ID == nil *)
  match m_id m with IdAbsent => true | _ => false end.
Definition has_method (m : msg) : bool :=             (* msg.Method != "" *)
  match m_method m with MEmpty => false | _ => true end.

(* json.go isNotification / isCall / isResponse *)
Definition is_notification (m : msg) : bool := m_vsn m && id_absent m && has_method m.
Definition is_call (m : msg) : bool := m_vsn m && has_valid_id m && has_method m.
Definition is_response (m : msg) : bool :=
  m_vsn m && has_valid_id m && negb (has_method m) && negb (m_params m) && (m_result m || m_error m).

(* ------------------------------------------------------------------ *)
(* responses                                                           *)
(* ------------------------------------------------------------------ *)

(* the "id" member of a written response: RNull = the literal null put by
   errorMessage; RCopy i = a copy of the request's ID (errorResponse / response);
   RCopy IdAbsent prints no "id" member at all (appendMessage: msg.ID != nil). *)
Inductive rid := RNull | RCopy (i : idk).

Record resp := mkResp { r_id : rid; r_kind : N }.   (* r_kind 0 = result, k > 0 = error class *)

(* error classes (by error code) *)
Definition E_INVALID_REQUEST : N := 1.   (* -32600 invalidRequestError *)
Definition E_TIMEOUT : N := 5.           (* -32002 errcodeTimeout *)
Definition E_TOO_LARGE : N := 6.         (* -32003 errcodeResponseTooLarge *)

Definition error_message (k : N) : resp := mkResp RNull k.                  (* json.go errorMessage *)
Definition error_response (m : msg) (k : N) : resp := mkResp (RCopy (m_id m)) k.  (* msg.errorResponse *)

Record cfg := mkCfg {
  c_item_limit : N;      (* h.batchRequestLimit, 0 = unlimited *)
  c_resp_limit : N;      (* h.batchResponseMaxSize, 0 = unlimited *)
  c_inv_size : N;        (* len of the "invalid request" error JSON *)
  c_timeout : bool;      (* ContextRequestTimeout(ctx) returned ok *)
  c_cancel_first : bool; (* order inside the batch timer callback.  false = the code as it
                            is now (respondWithError, then cancel); true = the order before
                            commit 09729572d9 (cancel, then respondWithError) *)
  c_write_on_cancel : bool;
                         (* end of handleBatch's goroutine.  false = the code as it is now (if
                            batchCtx.Err() != nil then respondWithError(timeout) else write);
                            true = the code before commit 01fbbf3d61 (always write) *)
  c_notif_timeout_reply : bool
                         (* handleNonBatchCall's timer callback.  false = the code as it is now
                            ("if msg.isNotification() { return }" inside the Once before the
                            timeout error is written); true = the code before commit
                            947a0e3339 (no such test) *)
}.

(* handler.handleCall: every path answers with msg.ID (msg.errorResponse / msg.response) *)
Definition exec_answer (m : msg) : resp := mkResp (RCopy (m_id m)) (m_out m).

(* handler.handleCallMsg *)
Definition handle_call_msg (m : msg) : resp :=
  if is_notification m then exec_answer m
  else if is_call m then exec_answer m
  else if has_valid_id m then error_response m E_INVALID_REQUEST
  else error_message E_INVALID_REQUEST.

Definition executes (m : msg) : bool := is_notification m || is_call m.

(* len(resp.Result) + len(resp.Error) of handleCallMsg's answer *)
Definition answer_size (c : cfg) (m : msg) : N :=
  if executes m then m_size m else c_inv_size c.

(* handler.handleResponses: which entries are handed to handleCall *)
Definition keep_as_call (m : msg) : bool :=
  if is_response m then false
  else if is_notification m then
    match m_method m with MSubNotif => false | _ => true end
  else true.

(* ------------------------------------------------------------------ *)
(* connection output and notifiers                                     *)
(* ------------------------------------------------------------------ *)

Inductive wevent :=
| WBatch (rs : list resp)                (* conn.writeJSONBatch *)
| WSingle (r : resp)                     (* conn.writeJSON of a response *)
| WNotif (owner : msg) (seq : nat).      (* Notifier.send: notification no. seq of the
                                            subscription created by message owner *)

(* subscription.go Notifier {buffer, activated}; n_count = number of Notify calls so far *)
Record notifier := mkNotifier {
  n_msg : msg; n_buffer : list nat; n_count : nat; n_activated : bool }.

Fixpoint upd_nth {A} (i : nat) (f : A -> A) (l : list A) : list A :=
  match l, i with
  | [], _ => []
  | x :: r, O => f x :: r
  | x :: r, S j => x :: upd_nth j f r
  end.

(* handler.handleSubscribe (reached from handleCall for calls and notifications) *)
Definition new_notifier (m : msg) : list notifier :=
  if executes m then
    match m_sub m with
    | Some (k, _) => [mkNotifier m (seq 0 k) k false]
    | None => []
    end
  else [].

(* Notifier.Notify: one region of n.mu *)
Definition notify_out (n : notifier) : list wevent :=
  if n_activated n then [WNotif (n_msg n) (n_count n)] else [].
Definition notify_upd (n : notifier) : notifier :=
  if n_activated n then mkNotifier (n_msg n) (n_buffer n) (S (n_count n)) true
  else mkNotifier (n_msg n) (n_buffer n ++ [n_count n]) (S (n_count n)) false.

(* Notifier.activate: one region of n.mu — flush the buffer, then activated = true *)
Definition activate_out (n : notifier) : list wevent := map (WNotif (n_msg n)) (n_buffer n).
Definition activate_upd (n : notifier) : notifier :=
  mkNotifier (n_msg n) (n_buffer n) (n_count n) true.

(* thread identifiers and timer program counter, shared by both systems *)
Inductive tid := TP | TT | TE (i : nat) | TX.
(* TX: something outside the handler cancels the request context (a deadline of the
   caller's own context, a cancelled parent): batchCtx.Err() becomes non-nil *)
Inductive tpc := TNone | TIdle | TMid | TDone | TStopped.
(* TNone: no timeout configured; TIdle: armed; TMid: callback between its two
   actions; TDone: callback finished; TStopped: timer.Stop() before it fired *)

Definition stop_timer (t : tpc) : tpc := match t with TIdle => TStopped | x => x end.

(* ------------------------------------------------------------------ *)
(* handleBatch                                                         *)
(* ------------------------------------------------------------------ *)

Inductive ppc :=
| PCheck                       (* loop head: if batchCtx.Err() != nil { break } *)
| PNext                        (* callBuffer.nextCall() *)
| PExec (m : msg)              (* h.handleCallMsg(cp, msg) running *)
| PPush (m : msg) (r : resp)   (* callBuffer.pushResponse(resp) + size accounting *)
| PTooLarge                    (* callBuffer.respondWithError(response too large); break *)
| PStop                        (* timer.Stop(); h.addSubscriptions *)
| PWrite                       (* the test "if batchCtx.Err() != nil" after the loop *)
| PRespondC                    (* callBuffer.respondWithError(timeout) — context was cancelled *)
| PWriteOk                     (* callBuffer.write *)
| PActivate (j : nat)          (* for _, n := range cp.notifiers { n.activate() }, at index j *)
| PDone.

Record bstate := mkB {
  b_calls : list msg;          (* batchCallBuffer.calls *)
  b_resp : list resp;          (* batchCallBuffer.resp *)
  b_wrote : bool;              (* batchCallBuffer.wrote *)
  b_cancelled : bool;          (* batchCtx.Err() != nil *)
  b_bytes : N;                 (* responseBytes *)
  b_ppc : ppc;
  b_tpc : tpc;
  b_notifiers : list notifier; (* cp.notifiers *)
  b_out : list wevent;         (* everything written to the connection, oldest first *)
  b_done : list msg            (* HISTORY variable: the messages popped by pushResponse so
                                  far.  Never read by any step. *)
}.

Definition answerable (l : list msg) : list msg :=
  filter (fun m => negb (is_notification m)) l.

(* batchCallBuffer.doWrite *)
Definition do_write (s : bstate) : bstate :=
  if b_wrote s then s
  else mkB (b_calls s) (b_resp s) true (b_cancelled s) (b_bytes s) (b_ppc s) (b_tpc s)
           (b_notifiers s)
           (b_out s ++ match b_resp s with [] => [] | _ => [WBatch (b_resp s)] end)
           (b_done s).

(* batchCallBuffer.respondWithError *)
Definition respond_with_error (k : N) (s : bstate) : bstate :=
  do_write (mkB (b_calls s)
                (b_resp s ++ map (fun m => error_response m k) (answerable (b_calls s)))
                (b_wrote s) (b_cancelled s) (b_bytes s) (b_ppc s) (b_tpc s)
                (b_notifiers s) (b_out s) (b_done s)).

Definition set_ppc (p : ppc) (s : bstate) : bstate :=
  mkB (b_calls s) (b_resp s) (b_wrote s) (b_cancelled s) (b_bytes s) p (b_tpc s)
      (b_notifiers s) (b_out s) (b_done s).
Definition set_tpc (t : tpc) (s : bstate) : bstate :=
  mkB (b_calls s) (b_resp s) (b_wrote s) (b_cancelled s) (b_bytes s) (b_ppc s) t
      (b_notifiers s) (b_out s) (b_done s).
Definition set_cancelled (s : bstate) : bstate :=
  mkB (b_calls s) (b_resp s) (b_wrote s) true (b_bytes s) (b_ppc s) (b_tpc s)
      (b_notifiers s) (b_out s) (b_done s).

(* one step of the callProc goroutine in handleBatch (after the validity switch) *)
Definition pstep (c : cfg) (s : bstate) : option bstate :=
  match b_ppc s with
  | PCheck => Some (set_ppc (if b_cancelled s then PStop else PNext) s)
  | PNext =>
      match b_calls s with
      | [] => Some (set_ppc PStop s)
      | m :: _ => Some (set_ppc (PExec m) s)
      end
  | PExec m =>
      Some (mkB (b_calls s) (b_resp s) (b_wrote s) (b_cancelled s) (b_bytes s)
                (PPush m (handle_call_msg m)) (b_tpc s)
                (b_notifiers s ++ new_notifier m) (b_out s) (b_done s))
  | PPush m r =>
      match b_calls s with
      | [] => None     (* b.calls[1:] on an empty slice would panic *)
      | _ :: rest =>
          (* "if msg.isNotification() { resp = nil }"; pushResponse; size accounting *)
          let keep := negb (is_notification m) in
          let resp' := if keep then b_resp s ++ [r] else b_resp s in
          let counted := keep && negb (c_resp_limit c =? 0)%N in
          let bytes' := if counted then (b_bytes s + answer_size c m)%N else b_bytes s in
          let next := if counted && (c_resp_limit c <? bytes')%N then PTooLarge else PCheck in
          Some (mkB rest resp' (b_wrote s) (b_cancelled s) bytes' next (b_tpc s)
                    (b_notifiers s) (b_out s) (b_done s ++ [m]))
      end
  | PTooLarge => Some (set_ppc PStop (respond_with_error E_TOO_LARGE s))
  | PStop => Some (set_ppc PWrite (set_tpc (stop_timer (b_tpc s)) s))
  | PWrite =>
      Some (set_ppc (if c_write_on_cancel c || negb (b_cancelled s) then PWriteOk else PRespondC) s)
  | PRespondC => Some (set_ppc (PActivate 0) (respond_with_error E_TIMEOUT s))
  | PWriteOk => Some (set_ppc (PActivate 0) (do_write s))
  | PActivate j =>
      match nth_error (b_notifiers s) j with
      | None => Some (set_ppc PDone s)
      | Some n =>
          Some (mkB (b_calls s) (b_resp s) (b_wrote s) (b_cancelled s) (b_bytes s)
                    (PActivate (S j)) (b_tpc s)
                    (upd_nth j activate_upd (b_notifiers s))
                    (b_out s ++ activate_out n) (b_done s))
      end
  | PDone => None
  end.

(* the time.AfterFunc callback of handleBatch: two actions, in the order given by
   c_cancel_first *)
Definition tstep (c : cfg) (s : bstate) : option bstate :=
  match b_tpc s with
  | TIdle =>
      if c_cancel_first c then Some (set_tpc TMid (set_cancelled s))
      else Some (set_tpc TMid (respond_with_error E_TIMEOUT s))
  | TMid =>
      if c_cancel_first c then Some (set_tpc TDone (respond_with_error E_TIMEOUT s))
      else Some (set_tpc TDone (set_cancelled s))
  | _ => None
  end.

(* a service goroutine calls Notify on notifier i *)
Definition estep (i : nat) (s : bstate) : option bstate :=
  match nth_error (b_notifiers s) i with
  | None => None
  | Some n =>
      Some (mkB (b_calls s) (b_resp s) (b_wrote s) (b_cancelled s) (b_bytes s) (b_ppc s)
                (b_tpc s) (upd_nth i notify_upd (b_notifiers s))
                (b_out s ++ notify_out n) (b_done s))
  end.

Definition bstep (c : cfg) (t : tid) (s : bstate) : option bstate :=
  match t with
  | TP => pstep c s | TT => tstep c s | TE i => estep i s
  | TX => Some (set_cancelled s)
  end.

Definition binit (c : cfg) (calls : list msg) : bstate :=
  mkB calls [] false false 0 PCheck (if c_timeout c then TIdle else TNone) [] [] [].

(* all interleavings: the states reachable by any sequence of enabled steps *)
Inductive breach (c : cfg) : bstate -> bstate -> Prop :=
| breach_refl s : breach c s s
| breach_step s s1 s2 t : breach c s s1 -> bstep c t s1 = Some s2 -> breach c s s2.

(* a schedule names the thread to run at each step; a step of a thread that is
   not enabled is skipped *)
Fixpoint brun (c : cfg) (sch : list tid) (s : bstate) : bstate :=
  match sch with
  | [] => s
  | t :: r => match bstep c t s with Some s' => brun c r s' | None => brun c r s end
  end.

(* the batch is over: goroutine returned and the timer callback is not in flight *)
Definition bfinal (s : bstate) : bool :=
  match b_ppc s, b_tpc s with
  | PDone, TMid => false
  | PDone, TIdle => false
  | PDone, _ => true
  | _, _ => false
  end.

(* handler.handleBatch up to the goroutine body's switch *)
Inductive front :=
| FNothing                       (* batch was entirely responses: nothing dispatched *)
| FEmpty (r : resp)              (* conn.writeJSON(errorMessage(empty batch)) *)
| FTooLarge (rs : list resp)     (* respondWithBatchTooLarge: conn.writeJSONBatch([resp]) *)
| FRun (calls : list msg).       (* the processing loop runs on calls *)

Fixpoint first_call_id (l : list msg) : rid :=     (* respondWithBatchTooLarge's loop *)
  match l with
  | [] => RNull
  | m :: r => if is_call m then RCopy (m_id m) else first_call_id r
  end.

Definition handle_batch_front (c : cfg) (msgs : list msg) : front :=
  let n := N.of_nat (length msgs) in
  let valid := (0 <? n)%N && ((c_item_limit c =? 0)%N || (n <=? c_item_limit c)%N) in
  if valid then
    match filter keep_as_call msgs with
    | [] => FNothing
    | calls => FRun calls
    end
  else if (n =? 0)%N then FEmpty (error_message E_INVALID_REQUEST)
  else FTooLarge [mkResp (first_call_id msgs) E_INVALID_REQUEST].

(* ------------------------------------------------------------------ *)
(* handleMsg / handleNonBatchCall                                      *)
(* ------------------------------------------------------------------ *)

Inductive spc :=
| SExec                        (* h.handleCallMsg(cp, msg) running *)
| SStop (r : resp)             (* timer.Stop(); h.addSubscriptions *)
| SRespond (r : resp)          (* responded.Do(write answer) *)
| SActivate (j : nat)
| SDone.

Record sstate := mkS {
  s_responded : bool;          (* the sync.Once has run *)
  s_cancelled : bool;
  s_spc : spc;
  s_tpc : tpc;
  s_notifiers : list notifier;
  s_out : list wevent
}.

(* responded.Do(f): atomic with respect to the other Do; f runs at most once *)
Definition once_write (ev : list wevent) (s : sstate) : sstate :=
  if s_responded s then s
  else mkS true (s_cancelled s) (s_spc s) (s_tpc s) (s_notifiers s) (s_out s ++ ev).

Definition sset_spc (p : spc) (s : sstate) : sstate :=
  mkS (s_responded s) (s_cancelled s) p (s_tpc s) (s_notifiers s) (s_out s).
Definition sset_tpc (t : tpc) (s : sstate) : sstate :=
  mkS (s_responded s) (s_cancelled s) (s_spc s) t (s_notifiers s) (s_out s).

Definition spstep (m : msg) (s : sstate) : option sstate :=
  match s_spc s with
  | SExec =>
      Some (mkS (s_responded s) (s_cancelled s) (SStop (handle_call_msg m)) (s_tpc s)
                (s_notifiers s ++ new_notifier m) (s_out s))
  | SStop r => Some (sset_spc (SRespond r) (sset_tpc (stop_timer (s_tpc s)) s))
  | SRespond r =>
      (* inside the Once: "if msg.isNotification() { return }" before writeJSON *)
      Some (sset_spc (SActivate 0)
              (once_write (if is_notification m then [] else [WSingle r]) s))
  | SActivate j =>
      match nth_error (s_notifiers s) j with
      | None => Some (sset_spc SDone s)
      | Some n =>
          Some (mkS (s_responded s) (s_cancelled s) (SActivate (S j)) (s_tpc s)
                    (upd_nth j activate_upd (s_notifiers s)) (s_out s ++ activate_out n))
      end
  | SDone => None
  end.

(* the time.AfterFunc callback of handleNonBatchCall: cancel(); responded.Do(func() {
   if msg.isNotification() { return }; write msg.errorResponse(timeout) }) *)
Definition ststep (c : cfg) (m : msg) (s : sstate) : option sstate :=
  match s_tpc s with
  | TIdle => Some (mkS (s_responded s) true (s_spc s) TMid (s_notifiers s) (s_out s))
  | TMid =>
      let silent := is_notification m && negb (c_notif_timeout_reply c) in
      Some (sset_tpc TDone
              (once_write (if silent then [] else [WSingle (error_response m E_TIMEOUT)]) s))
  | _ => None
  end.

Definition sestep (i : nat) (s : sstate) : option sstate :=
  match nth_error (s_notifiers s) i with
  | None => None
  | Some n =>
      Some (mkS (s_responded s) (s_cancelled s) (s_spc s) (s_tpc s)
                (upd_nth i notify_upd (s_notifiers s)) (s_out s ++ notify_out n))
  end.

Definition sstep (c : cfg) (m : msg) (t : tid) (s : sstate) : option sstate :=
  match t with
  | TP => spstep m s | TT => ststep c m s | TE i => sestep i s
  | TX => Some (mkS (s_responded s) true (s_spc s) (s_tpc s) (s_notifiers s) (s_out s))
  end.

Definition sinit (c : cfg) : sstate :=
  mkS false false SExec (if c_timeout c then TIdle else TNone) [] [].

Inductive sreach (c : cfg) (m : msg) : sstate -> sstate -> Prop :=
| sreach_refl s : sreach c m s s
| sreach_step s s1 s2 t : sreach c m s s1 -> sstep c m t s1 = Some s2 -> sreach c m s s2.

Fixpoint srun (c : cfg) (m : msg) (sch : list tid) (s : sstate) : sstate :=
  match sch with
  | [] => s
  | t :: r => match sstep c m t s with Some s' => srun c m r s' | None => srun c m r s end
  end.

Definition sfinal (s : sstate) : bool :=
  match s_spc s, s_tpc s with
  | SDone, TMid => false
  | SDone, TIdle => false
  | SDone, _ => true
  | _, _ => false
  end.

(* handler.handleMsg: handleResponses on the one-element batch decides whether a
   callProc is started at all *)
Definition handle_msg_dispatches (m : msg) : bool := keep_as_call m.

(* ------------------------------------------------------------------ *)
(* projections used by theorems and by Run                             *)
(* ------------------------------------------------------------------ *)

Definition batches (out : list wevent) : list (list resp) :=
  flat_map (fun e => match e with WBatch rs => [rs] | _ => [] end) out.
Definition singles (out : list wevent) : list resp :=
  flat_map (fun e => match e with WSingle r => [r] | _ => [] end) out.
Definition is_notif (e : wevent) : bool :=
  match e with WNotif _ _ => true | _ => false end.
