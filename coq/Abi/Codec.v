(* Abi/Codec.v — C51: (1) the SPEC encoder [enc] written from the Solidity ABI
   specification, (2) the IMPLEMENTATION model of pack (type.go Type.pack,
   pack.go, argument.go Arguments.Pack) and (3) the IMPLEMENTATION model of
   unpack (unpack.go, argument.go Arguments.Unpack/UnpackValues), transcribed
   from /repo/accounts/abi.  No proofs here.

   Conventions.  Go [int]/[uint64]/big.Int are [Z] (no Go expression in these
   functions can wrap while len(output) < 2^57, see checks/C51.json);
   every Go slice expression goes through [slice], which returns [None] where
   Go would panic (checked against len, which is stricter than Go's cap), and
   [None] becomes the distinguished result [Panic].  Errors are classes. *)
From GV Require Import Abi.Types.
Local Open Scope Z_scope.

(* ------------------------------------------------------------------ *)
(* results and error classes                                          *)

Inductive res (A : Type) : Type :=
| Ok (a : A)
| Err (c : N)
| Panic.
Arguments Ok {A} a.
Arguments Err {A} c.
Arguments Panic {A}.

Definition bind {A B} (r : res A) (f : A -> res B) : res B :=
  match r with Ok a => f a | Err c => Err c | Panic => Panic end.
Notation "x <- e ;; k" := (bind e (fun x => k))
  (at level 61, e at next level, right associativity).

Definition ELen    : N := 1.  (* "length insufficient"  (toGoType, lengthPrefixPointsTo) *)
Definition EOff    : N := 2.  (* "cannot marshal in to go slice: offset ... would go over slice boundary" *)
Definition EOff64  : N := 3.  (* "abi offset larger than int64" *)
Definition ELen64  : N := 4.  (* "abi: length larger than int64" *)
Definition EArr    : N := 5.  (* "cannot marshal into go array: offset ... would go over slice boundary" *)
Definition EOffArr : N := 6.  (* "toGoType offset greater than output length" *)
Definition EBool   : N := 7.  (* errBadBool *)
Definition EInt    : N := 8.  (* errBadUint8..64 / errBadInt8..64 *)
Definition EEmpty  : N := 9.  (* "attempting to unmarshal an empty string while arguments are expected" *)
Definition ENeg    : N := 10. (* "size is negative" *)
Definition ESign   : N := 20. (* errInvalidSign (pack) *)
Definition EType   : N := 21. (* typeCheck / argument count / value not representable in the Go type *)

(* ------------------------------------------------------------------ *)
(* bytes                                                              *)

(* big-endian, exactly n bytes, of z mod 256^n *)
Fixpoint be_bytes (n : nat) (z : N) : list N :=
  match n with
  | O => []
  | S n' => be_bytes n' (z / 256)%N ++ [(z mod 256)%N]
  end.

(* big.Int.SetBytes *)
Definition be_val (l : list N) : N := fold_left (fun a b => (a * 256 + b)%N) l 0%N.

Definition zeros (n : nat) : list N := repeat 0%N n.

(* Go s[lo:hi]; None = run-time panic *)
Definition slice (l : list N) (lo hi : Z) : option (list N) :=
  if (0 <=? lo) && (lo <=? hi) && (hi <=? zlen l)
  then Some (firstn (Z.to_nat (hi - lo)) (skipn (Z.to_nat lo) l))
  else None.

Definition gslice (l : list N) (lo hi : Z) : res (list N) :=
  match slice l lo hi with Some s => Ok s | None => Panic end.

(* ------------------------------------------------------------------ *)
(* (1) SPEC: Solidity ABI, "Formal Specification of the Encoding"      *)

(* a component already encoded, tagged with whether its type is dynamic *)
Definition part : Type := (bool * list N)%type.

(* tail(X(1)) ... tail(X(k)) *)
Fixpoint tails (ps : list part) : list N :=
  match ps with
  | [] => []
  | (true, b) :: r => b ++ tails r
  | (false, _) :: r => tails r
  end.

(* len(head(X(1)) ... head(X(k))): 32 for a dynamic component *)
Fixpoint head_len (ps : list part) : Z :=
  match ps with
  | [] => 0
  | (true, _) :: r => 32 + head_len r
  | (false, b) :: r => zlen b + head_len r
  end.

Definition spec_word (z : Z) : list N := be_bytes 32 (Z.to_N z).

(* head(X(i)) = enc(X(i)) for static X(i), and
   enc(len(head(X(1)) ... head(X(k)) tail(X(1)) ... tail(X(i-1)))) otherwise *)
Fixpoint spec_heads (hl : Z) (before ps : list part) : list N :=
  match ps with
  | [] => []
  | (dyn, b) :: r =>
      (if dyn then spec_word (hl + zlen (tails before)) else b)
        ++ spec_heads hl (before ++ [(dyn, b)]) r
  end.

(* enc(X) = head(X(1)) ... head(X(k)) tail(X(1)) ... tail(X(k)) *)
Definition enc_tuple (ps : list part) : list N :=
  spec_heads (head_len ps) [] ps ++ tails ps.

Section OptParts.
  Variable f : val -> option (list N).
  Fixpoint enc_elems (dyn : bool) (vs : list val) : option (list part) :=
    match vs with
    | [] => Some []
    | v :: r => match f v, enc_elems dyn r with
                | Some b, Some ps => Some ((dyn, b) :: ps)
                | _, _ => None
                end
    end.
End OptParts.

Section OptFields.
  Variable f : ty -> val -> option (list N).
  Fixpoint enc_fields (ts : list ty) (vs : list val) : option (list part) :=
    match ts, vs with
    | [], [] => Some []
    | t :: ts', v :: vs' => match f t v, enc_fields ts' vs' with
                            | Some b, Some ps => Some ((dynamic t, b) :: ps)
                            | _, _ => None
                            end
    | _, _ => None
    end.
End OptFields.

(* bytes of length k: enc(k) pad_right(X) with len(enc) a multiple of 32 *)
Definition spec_bytes (b : list N) : list N :=
  spec_word (zlen b) ++ b ++ zeros (Z.to_nat ((32 - zlen b mod 32) mod 32)).

Fixpoint enc (t : ty) (v : val) {struct t} : option (list N) :=
  match t, v with
  | TUInt n, VInt z => if in_unsigned n z then Some (spec_word z) else None
  | TInt n, VInt z =>  (* two's complement, sign-extended to 32 bytes *)
      if in_signed n z then Some (spec_word (if z <? 0 then z + 2 ^ 256 else z)) else None
  | TBool, VBool b => Some (spec_word (if b then 1 else 0))
  | TAddress, VBytes b => (* as uint160 *)
      if Nat.eqb (length b) 20 then Some (zeros 12 ++ b) else None
  | TFixedBytes n, VBytes b =>
      if (N.of_nat (length b) =? n)%N then Some (b ++ zeros (32 - length b)) else None
  | TBytes, VBytes b | TString, VBytes b => Some (spec_bytes b)
  | TArray e, VList vs => (* enc(k) enc((X[0], ..., X[k-1])) *)
      match enc_elems (enc e) (dynamic e) vs with
      | Some ps => Some (spec_word (zlen vs) ++ enc_tuple ps)
      | None => None
      end
  | TFixedArray k e, VList vs => (* as a tuple of k elements of the same type *)
      if Nat.eqb (length vs) k then
        match enc_elems (enc e) (dynamic e) vs with
        | Some ps => Some (enc_tuple ps)
        | None => None
        end
      else None
  | TTuple ts, VList vs =>
      match enc_fields enc ts vs with
      | Some ps => Some (enc_tuple ps)
      | None => None
      end
  | _, _ => None
  end.

(* top level: the arguments are encoded as a tuple *)
Definition enc_args (ts : list ty) (vs : list val) : option (list N) :=
  enc (TTuple ts) (VList vs).

(* ------------------------------------------------------------------ *)
(* (2) IMPLEMENTATION model: pack                                      *)

(* pack.go:83 packNum = math.U256Bytes: x AND (2^256-1) (two's complement
   for negative big.Int), left-padded to 32 bytes *)
Definition pack_num (z : Z) : list N := be_bytes 32 (Z.to_N (z mod 2 ^ 256)).

(* common.RightPadBytes / LeftPadBytes: unchanged when l <= len *)
Definition right_pad (b : list N) (l : nat) : list N := b ++ zeros (l - length b).
Definition left_pad (b : list N) (l : nat) : list N := zeros (l - length b) ++ b.

(* pack.go:31 packBytesSlice *)
Definition pack_bytes_slice (b : list N) : list N :=
  pack_num (zlen b) ++ right_pad b ((length b + 31) / 32 * 32).

(* pack.go:38 packElement (after type.go:274 typeCheck).  A native-width
   integer outside its Go type cannot be passed at all: EType. *)
Definition pack_element (t : ty) (v : val) : res (list N) :=
  match t, v with
  | TUInt n, VInt z =>
      if native_width n then (if in_unsigned n z then Ok (pack_num z) else Err EType)
      else if z <? 0 then Err ESign else Ok (pack_num z)
  | TInt n, VInt z =>
      if native_width n then (if in_signed n z then Ok (pack_num z) else Err EType)
      else Ok (pack_num z)
  | TString, VBytes b | TBytes, VBytes b => Ok (pack_bytes_slice b)
  | TAddress, VBytes b =>
      if Nat.eqb (length b) 20 then Ok (left_pad b 32) else Err EType
  | TBool, VBool b => Ok (pack_num (if b then 1 else 0))
  | TFixedBytes n, VBytes b =>
      if (N.of_nat (length b) =? n)%N then Ok (right_pad b 32) else Err EType
  | _, _ => Err EType
  end.

(* the loop bodies of type.go:294-307 (slice/array; every element has the
   same [offsetReq]) and type.go:328-345 / argument.go:245-266 (tuple,
   arguments): ret/tail/offset accumulators exactly as in Go *)
Fixpoint pack_loop (ps : list part) (offset : Z) (ret tail : list N) : list N :=
  match ps with
  | [] => ret ++ tail
  | (true, val) :: r =>
      pack_loop r (offset + zlen val) (ret ++ pack_num offset) (tail ++ val)
  | (false, val) :: r => pack_loop r offset (ret ++ val) tail
  end.

Section ResParts.
  Variable f : val -> res (list N).
  Fixpoint pack_elems (dyn : bool) (vs : list val) : res (list part) :=
    match vs with
    | [] => Ok []
    | v :: r => b <- f v;; ps <- pack_elems dyn r;; Ok ((dyn, b) :: ps)
    end.
End ResParts.

Section ResFields.
  Variable f : ty -> val -> res (list N).
  Fixpoint pack_fields (ts : list ty) (vs : list val) : res (list part) :=
    match ts, vs with
    | [], [] => Ok []
    | t :: ts', v :: vs' => b <- f t v;; ps <- pack_fields ts' vs';; Ok ((dynamic t, b) :: ps)
    | _, _ => Err EType
    end.
End ResFields.

(* type.go:271 Type.pack *)
Fixpoint pack (t : ty) (v : val) {struct t} : res (list N) :=
  match t, v with
  | TArray e, VList vs =>
      ps <- pack_elems (pack e) (dynamic e) vs;;
      let offset := if dynamic e then type_size e * zlen vs else 0 in
      Ok (pack_loop ps offset (pack_num (zlen vs)) [])
  | TFixedArray k e, VList vs =>
      if Nat.eqb (length vs) k then
        ps <- pack_elems (pack e) (dynamic e) vs;;
        let offset := if dynamic e then type_size e * zlen vs else 0 in
        Ok (pack_loop ps offset [] [])
      else Err EType
  | TTuple ts, VList vs =>
      ps <- pack_fields pack ts vs;;
      Ok (pack_loop ps (zsum (map type_size ts)) [] [])
  | TArray _, _ | TFixedArray _ _, _ | TTuple _, _ => Err EType
  | _, _ => pack_element t v
  end.

(* argument.go:229 Arguments.Pack *)
Definition pack_args (ts : list ty) (vs : list val) : res (list N) :=
  ps <- pack_fields pack ts vs;;
  Ok (pack_loop ps (zsum (map type_size ts)) [] []).

(* ------------------------------------------------------------------ *)
(* (3) IMPLEMENTATION model: unpack                                    *)

(* unpack.go:38 ReadInteger.  [u64 > MaxUintN] and [i64 < MinIntN || ...]
   are only evaluated when isu64/isi64 hold (short-circuit), where u64/i64
   equal the big value. *)
Definition read_integer (unsigned : bool) (size : N) (b : list N) : res val :=
  let ret := Z.of_N (be_val b) in
  if unsigned then
    let isu64 := ret <? 2 ^ 64 in
    match size with
    | 8%N => if negb isu64 || (ret >? 255) then Err EInt else Ok (VInt ret)
    | 16%N => if negb isu64 || (ret >? 65535) then Err EInt else Ok (VInt ret)
    | 32%N => if negb isu64 || (ret >? 4294967295) then Err EInt else Ok (VInt ret)
    | 64%N => if negb isu64 then Err EInt else Ok (VInt ret)
    | _ => Ok (VInt ret)
    end
  else
    let ret := if Z.testbit ret 255
               then - (((2 ^ 256 - 1) + (- ret)) + 1)   (* unpack.go:74-76 *)
               else ret in
    let isi64 := (- 2 ^ 63 <=? ret) && (ret <? 2 ^ 63) in
    match size with
    | 8%N => if negb isi64 || (ret <? -128) || (ret >? 127) then Err EInt else Ok (VInt ret)
    | 16%N => if negb isi64 || (ret <? -32768) || (ret >? 32767) then Err EInt else Ok (VInt ret)
    | 32%N => if negb isi64 || (ret <? -2147483648) || (ret >? 2147483647) then Err EInt else Ok (VInt ret)
    | 64%N => if negb isi64 then Err EInt else Ok (VInt ret)
    | _ => Ok (VInt ret)
    end.

(* unpack.go:108 readBool *)
Definition read_bool (word : list N) : res val :=
  hi <- gslice word 0 31;;
  if existsb (fun b => negb (b =? 0)%N) hi then Err EBool else
  match nth_error word 31 with
  | None => Panic
  | Some 0%N => Ok (VBool false)
  | Some 1%N => Ok (VBool true)
  | Some _ => Err EBool
  end.

(* unpack.go:140 ReadFixedBytes: word[0:t.Size] *)
Definition read_fixed_bytes (n : N) (word : list N) : res val :=
  b <- gslice word 0 (Z.of_N n);; Ok (VBytes b).

(* common.BytesToAddress: the last 20 bytes (b[len(b)-20:]) *)
Definition bytes_to_address (word : list N) : res val :=
  b <- gslice word (zlen word - 20) (zlen word);; Ok (VBytes b).

(* unpack.go:288 lengthPrefixPointsTo.  BitLen() > 63 <=> value >= 2^63. *)
Definition length_prefix_points_to (index : Z) (output : list N) : res (Z * Z) :=
  w <- gslice output index (index + 32);;
  let bigOffsetEnd := Z.of_N (be_val w) + 32 in
  let outputLength := zlen output in
  if bigOffsetEnd >? outputLength then Err EOff else
  if 2 ^ 63 <=? bigOffsetEnd then Err EOff64 else
  let offsetEnd := bigOffsetEnd in
  lw <- gslice output (offsetEnd - 32) offsetEnd;;
  let lengthBig := Z.of_N (be_val lw) in
  let totalSize := bigOffsetEnd + lengthBig in
  if 2 ^ 63 <=? totalSize then Err ELen64 else
  if totalSize >? outputLength then Err ELen else
  Ok (offsetEnd, lengthBig).

(* unpack.go:318 tuplePointsTo *)
Definition tuple_points_to (index : Z) (output : list N) : res Z :=
  w <- gslice output index (index + 32);;
  let offset := Z.of_N (be_val w) in
  if offset >? zlen output then Err EOff else
  if 2 ^ 63 <=? offset then Err EOff64 else
  Ok offset.

Section EachLoop.
  (* [dec1 i] = toGoType(i, *t.Elem, output) for the element type and output at hand *)
  Variable dec1 : Z -> res val.

  (* unpack.go:178-186, the loop of forEachUnpack *)
  Fixpoint for_each_loop (i elemSize : Z) (n : nat) : res (list val) :=
    match n with
    | O => Ok []
    | S n' => v <- dec1 i;; vs <- for_each_loop (i + elemSize) elemSize n';; Ok (v :: vs)
    end.

  (* unpack.go:152 forEachUnpack: checks, then the loop *)
  Definition for_each_unpack (elemSize : Z) (output : list N) (start size : Z) : res val :=
    if size <? 0 then Err ENeg else
    if start + 32 * size >? zlen output then Err EArr else
    vs <- for_each_loop start elemSize (Z.to_nat size);;
    Ok (VList vs).
End EachLoop.

Section FieldLoop.
  (* [dec e i] = toGoType(i, e, output) for the output at hand *)
  Variable dec : ty -> Z -> res val.

  (* unpack.go:192-220 forTupleUnpack and argument.go:191-218 UnpackValues:
     the same loop with the virtualArgs bookkeeping *)
  Fixpoint unpack_fields (ts : list ty) (index virtualArgs : Z) : res (list val) :=
    match ts with
    | [] => Ok []
    | elem :: r =>
        v <- dec elem ((index + virtualArgs) * 32);;
        let virtualArgs :=
          match elem with
          | TFixedArray _ _ | TTuple _ =>
              if negb (dynamic elem) then virtualArgs + (type_size elem / 32 - 1) else virtualArgs
          | _ => virtualArgs
          end in
        vs <- unpack_fields r (index + 1) virtualArgs;;
        Ok (v :: vs)
    end.
End FieldLoop.

(* unpack.go:224 toGoType *)
Fixpoint to_go_type (t : ty) (index : Z) (output : list N) {struct t} : res val :=
  if index + 32 >? zlen output then Err ELen else
  match t with
  | TTuple ts =>
      _ <- gslice output index (index + 32);;
      if existsb dynamic ts then
        begin <- tuple_points_to index output;;
        out' <- gslice output begin (zlen output);;
        vs <- unpack_fields (fun e i => to_go_type e i out') ts 0 0;;
        Ok (VList vs)
      else
        out' <- gslice output index (zlen output);;
        vs <- unpack_fields (fun e i => to_go_type e i out') ts 0 0;;
        Ok (VList vs)
  | TArray e =>
      bl <- length_prefix_points_to index output;;
      let '(begin, length) := bl in
      out' <- gslice output begin (zlen output);;
      for_each_unpack (fun i => to_go_type e i out') (type_size e) out' 0 length
  | TFixedArray k e =>
      returnOutput <- gslice output index (index + 32);;
      if dynamic e then
        w8 <- gslice returnOutput (zlen returnOutput - 8) (zlen returnOutput);;
        let offset := Z.of_N (be_val w8) in   (* binary.BigEndian.Uint64 *)
        if offset >? zlen output then Err EOffArr else
        out' <- gslice output offset (zlen output);;
        for_each_unpack (fun i => to_go_type e i out') (type_size e) out' 0 (Z.of_nat k)
      else
        out' <- gslice output index (zlen output);;
        for_each_unpack (fun i => to_go_type e i out') (type_size e) out' 0 (Z.of_nat k)
  | TString | TBytes =>
      bl <- length_prefix_points_to index output;;
      let '(begin, length) := bl in
      b <- gslice output begin (begin + length);;
      Ok (VBytes b)
  | TUInt n => w <- gslice output index (index + 32);; read_integer true n w
  | TInt n => w <- gslice output index (index + 32);; read_integer false n w
  | TBool => w <- gslice output index (index + 32);; read_bool w
  | TAddress => w <- gslice output index (index + 32);; bytes_to_address w
  | TFixedBytes n => w <- gslice output index (index + 32);; read_fixed_bytes n w
  end.

(* argument.go:184 UnpackValues *)
Definition unpack_values (ts : list ty) (data : list N) : res (list val) :=
  unpack_fields (fun e i => to_go_type e i data) ts 0 0.

(* argument.go:80 Arguments.Unpack *)
Definition unpack_args (ts : list ty) (data : list N) : res (list val) :=
  match data with
  | [] => match ts with [] => Ok [] | _ => Err EEmpty end
  | _ => unpack_values ts data
  end.
