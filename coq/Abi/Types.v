(* Abi/Types.v — ABI type grammar and value trees for C51, with the type-level
   functions of /repo/accounts/abi/type.go transcribed:
     dynamic                 = isDynamicType            (type.go:365-375)
     type_size               = getTypeSize              (type.go:385-400)
     requires_length_prefix  = Type.requiresLengthPrefix (type.go:354-356)
   Go [int] values are [Z]; bytes are [N] (< 256).  The fixed-array size is a
   [nat] (it is a type parameter, small), widths are [N].
   Not modelled: fixed-point, function and hash types; user-struct reflection. *)
From Coq Require Export List NArith ZArith Bool.
Export ListNotations.
Local Open Scope Z_scope.

Inductive ty : Type :=
| TUInt (n : N)                 (* uint<n>  *)
| TInt (n : N)                  (* int<n>   *)
| TBool
| TAddress
| TFixedBytes (n : N)           (* bytes<n> *)
| TBytes
| TString
| TArray (e : ty)               (* T[]  — Go SliceTy *)
| TFixedArray (k : nat) (e : ty)(* T[k] — Go ArrayTy *)
| TTuple (ts : list ty).

(* value trees: integers (uint/int of every width), booleans, byte strings
   (address = 20 bytes, bytes<n>, bytes, string) and lists (arrays, tuples) *)
Inductive val : Type :=
| VInt (z : Z)
| VBool (b : bool)
| VBytes (bs : list N)
| VList (vs : list val).

Section Forall2b.
  Context {A B : Type} (f : A -> B -> bool).
  Fixpoint forall2b (l : list A) (m : list B) : bool :=
    match l, m with
    | [], [] => true
    | a :: l', b :: m' => f a b && forall2b l' m'
    | _, _ => false
    end.
End Forall2b.

Definition zsum (l : list Z) : Z := fold_right Z.add 0 l.
Definition zlen {A} (l : list A) : Z := Z.of_nat (length l).

(* type.go:365 isDynamicType *)
Fixpoint dynamic (t : ty) : bool :=
  match t with
  | TTuple ts => existsb dynamic ts
  | TString | TBytes | TArray _ => true
  | TFixedArray _ e => dynamic e
  | _ => false
  end.

(* type.go:385 getTypeSize *)
Fixpoint type_size (t : ty) : Z :=
  match t with
  | TFixedArray k e =>
      if negb (dynamic e) then
        match e with
        | TFixedArray _ _ | TTuple _ => Z.of_nat k * type_size e
        | _ => Z.of_nat k * 32
        end
      else 32
  | TTuple ts =>
      if negb (existsb dynamic ts) then zsum (map type_size ts) else 32
  | _ => 32
  end.

(* type.go:354 requiresLengthPrefix *)
Definition requires_length_prefix (t : ty) : bool :=
  match t with TString | TBytes | TArray _ => true | _ => false end.

(* the widths for which GetType() is a native Go integer (reflect.go:60
   reflectIntType); every other width is *big.Int *)
Definition native_width (n : N) : bool :=
  match n with 8%N | 16%N | 32%N | 64%N => true | _ => false end.

Definition byteb (b : N) : bool := (b <? 256)%N.

(* ---- predicates used by the theorems (not by the executable model) ---- *)

(* what abi.NewType guarantees and the decoder relies on: bytes<n> has
   1 <= n <= 32 (type.go:159 rejects n > 32; "bytes0" parses as [bytes]) *)
Fixpoint ty_newtype (t : ty) : bool :=
  match t with
  | TFixedBytes n => (1 <=? n)%N && (n <=? 32)%N
  | TArray e | TFixedArray _ e => ty_newtype e
  | TTuple ts => forallb ty_newtype ts
  | _ => true
  end.

(* valid Solidity ABI types: integer widths 1..256, bytes<n> with 1 <= n <= 32
   (NewType also accepts e.g. uint512, represented as an unchecked *big.Int) *)
Fixpoint ty_valid (t : ty) : bool :=
  match t with
  | TUInt n | TInt n => (1 <=? n)%N && (n <=? 256)%N
  | TFixedBytes n => (1 <=? n)%N && (n <=? 32)%N
  | TArray e | TFixedArray _ e => ty_valid e
  | TTuple ts => forallb ty_valid ts
  | _ => true
  end.

(* guard of the round trip: additionally integer widths within 1..256 and no
   static component of encoded size 0 (T[0] for static T, the empty tuple) —
   the decoder demands 32 readable bytes at the position of every component,
   see C51_unpack_pack_zero_size_refuted *)
Fixpoint ty_rt (t : ty) : bool :=
  match t with
  | TUInt n | TInt n => (1 <=? n)%N && (n <=? 256)%N
  | TFixedBytes n => (1 <=? n)%N && (n <=? 32)%N
  | TArray e => ty_rt e
  | TFixedArray k e => ty_rt e && (dynamic e || negb (Nat.eqb k 0))
  | TTuple ts => forallb ty_rt ts && negb (match ts with [] => true | _ => false end)
  | _ => true
  end.

Definition in_unsigned (n : N) (z : Z) : bool := (0 <=? z) && (z <? 2 ^ Z.of_N n).
Definition in_signed (n : N) (z : Z) : bool :=
  (- 2 ^ (Z.of_N n - 1) <=? z) && (z <? 2 ^ (Z.of_N n - 1)).

(* ABI-typed values: the value is in the range of its Solidity type *)
Fixpoint wf_value (t : ty) (v : val) {struct t} : bool :=
  match t, v with
  | TUInt n, VInt z => in_unsigned n z
  | TInt n, VInt z => in_signed n z
  | TBool, VBool _ => true
  | TAddress, VBytes b => Nat.eqb (length b) 20 && forallb byteb b
  | TFixedBytes n, VBytes b => (N.of_nat (length b) =? n)%N && forallb byteb b
  | TBytes, VBytes b | TString, VBytes b => forallb byteb b
  | TArray e, VList vs => forallb (wf_value e) vs
  | TFixedArray k e, VList vs => Nat.eqb (length vs) k && forallb (wf_value e) vs
  | TTuple ts, VList vs => forall2b wf_value ts vs
  | _, _ => false
  end.

(* Go-representable values: what the Go types of GetType() can hold and what
   the decoder can return.  Differs from [wf_value] only on integers whose
   width is not 8/16/32/64: those are *big.Int, never range-checked against
   the declared width by pack or unpack (only against 256 bits). *)
Definition int_width (n : N) : N := if native_width n then n else 256%N.

Fixpoint val_rt (t : ty) (v : val) {struct t} : bool :=
  match t, v with
  | TUInt n, VInt z => in_unsigned (int_width n) z
  | TInt n, VInt z => in_signed (int_width n) z
  | TBool, VBool _ => true
  | TAddress, VBytes b => Nat.eqb (length b) 20 && forallb byteb b
  | TFixedBytes n, VBytes b => (N.of_nat (length b) =? n)%N && forallb byteb b
  | TBytes, VBytes b | TString, VBytes b => forallb byteb b
  | TArray e, VList vs => forallb (val_rt e) vs
  | TFixedArray k e, VList vs => Nat.eqb (length vs) k && forallb (val_rt e) vs
  | TTuple ts, VList vs => forall2b val_rt ts vs
  | _, _ => false
  end.
