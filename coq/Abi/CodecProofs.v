(* Abi/CodecProofs.v — lemmas about the model Abi/Codec.v (C51). *)
From GV Require Import Lib.Tactics Abi.Types Abi.Codec.
Local Open Scope Z_scope.

(* ------------------------------------------------------------------ *)
(* induction on types with the nested list                             *)

Section TyInd.
  Variable P : ty -> Prop.
  Hypothesis HU : forall n, P (TUInt n).
  Hypothesis HI : forall n, P (TInt n).
  Hypothesis HB : P TBool.
  Hypothesis HAd : P TAddress.
  Hypothesis HFB : forall n, P (TFixedBytes n).
  Hypothesis HBy : P TBytes.
  Hypothesis HS : P TString.
  Hypothesis HA : forall e, P e -> P (TArray e).
  Hypothesis HF : forall k e, P e -> P (TFixedArray k e).
  Hypothesis HT : forall ts, Forall P ts -> P (TTuple ts).
  Fixpoint ty_ind' (t : ty) : P t :=
    match t with
    | TUInt n => HU n | TInt n => HI n | TBool => HB | TAddress => HAd
    | TFixedBytes n => HFB n | TBytes => HBy | TString => HS
    | TArray e => HA e (ty_ind' e)
    | TFixedArray k e => HF k e (ty_ind' e)
    | TTuple ts =>
        HT ts ((fix go (ts : list ty) : Forall P ts :=
                  match ts with
                  | [] => Forall_nil P
                  | t :: r => Forall_cons t (ty_ind' t) (go r)
                  end) ts)
    end.
End TyInd.

(* ------------------------------------------------------------------ *)
(* bytes                                                               *)

Lemma zlen_app {A} (a b : list A) : zlen (a ++ b) = zlen a + zlen b.
Proof. unfold zlen. rewrite app_length. lia. Qed.

Lemma zlen_nonneg {A} (a : list A) : 0 <= zlen a.
Proof. unfold zlen. lia. Qed.

Lemma zlen_nil {A} : zlen (@nil A) = 0.
Proof. reflexivity. Qed.

Lemma zlen_cons {A} (x : A) l : zlen (x :: l) = 1 + zlen l.
Proof. unfold zlen. cbn [length]. lia. Qed.

Lemma be_bytes_length n z : length (be_bytes n z) = n.
Proof.
  revert z. induction n as [|n IH]; intros z; cbn [be_bytes]; [reflexivity|].
  rewrite app_length, IH. cbn. lia.
Qed.

Lemma zlen_be_bytes n z : zlen (be_bytes n z) = Z.of_nat n.
Proof. unfold zlen. now rewrite be_bytes_length. Qed.

Lemma be_val_snoc l b : be_val (l ++ [b]) = (be_val l * 256 + b)%N.
Proof. unfold be_val. now rewrite fold_left_app. Qed.

Lemma be_val_be_bytes n z : be_val (be_bytes n z) = (z mod 256 ^ N.of_nat n)%N.
Proof.
  revert z. induction n as [|n IH]; intros z.
  - cbn. now rewrite N.mod_1_r.
  - cbn [be_bytes]. rewrite be_val_snoc, IH.
    replace (N.of_nat (S n)) with (N.succ (N.of_nat n)) by lia.
    rewrite N.pow_succ_r'.
    assert (H : (256 ^ N.of_nat n <> 0)%N) by (apply N.pow_nonzero; lia).
    rewrite N.mod_mul_r by lia.
    lia.
Qed.

Lemma be_bytes_mod n z : be_bytes n (z mod 256 ^ N.of_nat n)%N = be_bytes n z.
Proof.
  revert z. induction n as [|n IH]; intros z; [reflexivity|].
  cbn [be_bytes].
  replace (N.of_nat (S n)) with (N.succ (N.of_nat n)) by lia.
  rewrite N.pow_succ_r'.
  assert (H : (256 ^ N.of_nat n <> 0)%N) by (apply N.pow_nonzero; lia).
  rewrite N.mod_mul_r by lia.
  set (q := ((z / 256) mod 256 ^ N.of_nat n)%N).
  assert (Hlt : (z mod 256 < 256)%N) by (apply N.mod_lt; lia).
  replace ((z mod 256 + 256 * q) / 256)%N with q.
  2:{ generalize dependent (z mod 256)%N. intros r Hr. lia. }
  replace ((z mod 256 + 256 * q) mod 256)%N with (z mod 256)%N.
  2:{ generalize dependent (z mod 256)%N. intros r Hr. lia. }
  unfold q. now rewrite IH.
Qed.

Lemma be_bytes_byteb n z : forallb byteb (be_bytes n z) = true.
Proof.
  revert z. induction n as [|n IH]; intros z; [reflexivity|].
  cbn [be_bytes]. rewrite forallb_app, IH. cbn. unfold byteb.
  assert ((z mod 256 < 256)%N) by (apply N.mod_lt; lia). lia.
Qed.

Lemma be_bytes_be_val l :
  forallb byteb l = true -> be_bytes (length l) (be_val l) = l.
Proof.
  induction l as [|b l IH] using rev_ind; intros H; [reflexivity|].
  rewrite forallb_app in H. apply andb_true_iff in H as [Hl Hb].
  cbn in Hb. unfold byteb in Hb.
  rewrite app_length. cbn [length]. rewrite Nat.add_1_r. cbn [be_bytes].
  rewrite be_val_snoc.
  replace ((be_val l * 256 + b) / 256)%N with (be_val l).
  2:{ lia. }
  replace ((be_val l * 256 + b) mod 256)%N with b.
  2:{ lia. }
  now rewrite IH.
Qed.

Lemma be_val_bound l :
  forallb byteb l = true -> (be_val l < 256 ^ N.of_nat (length l))%N.
Proof.
  intros H. rewrite <- (be_bytes_be_val l H) at 1.
  rewrite be_val_be_bytes. apply N.mod_lt. apply N.pow_nonzero. lia.
Qed.

Lemma pow256_32 : (256 ^ N.of_nat 32 = 2 ^ 256)%N.
Proof. reflexivity. Qed.

(* packNum of a non-negative number is the spec word, whatever its size *)
Lemma pack_num_spec z : 0 <= z -> pack_num z = spec_word z.
Proof.
  intros H. unfold pack_num, spec_word.
  rewrite <- (be_bytes_mod 32 (Z.to_N z)). f_equal.
  rewrite pow256_32. rewrite Z2N.inj_mod by lia. reflexivity.
Qed.

Lemma zlen_pack_num z : zlen (pack_num z) = 32.
Proof. unfold pack_num. now rewrite zlen_be_bytes. Qed.

Lemma zlen_spec_word z : zlen (spec_word z) = 32.
Proof. unfold spec_word. now rewrite zlen_be_bytes. Qed.

Lemma be_val_pack_num z : 0 <= z < 2 ^ 256 -> Z.of_N (be_val (pack_num z)) = z.
Proof.
  intros H. unfold pack_num. rewrite be_val_be_bytes, pow256_32.
  rewrite Z.mod_small by lia. rewrite N.mod_small; lia.
Qed.

Lemma zeros_length n : length (zeros n) = n.
Proof. apply repeat_length. Qed.

Lemma zlen_zeros n : zlen (zeros n) = Z.of_nat n.
Proof. unfold zlen. now rewrite zeros_length. Qed.

(* ------------------------------------------------------------------ *)
(* slices                                                              *)

Lemma slice_app_mid pre b post :
  slice (pre ++ b ++ post) (zlen pre) (zlen pre + zlen b) = Some b.
Proof.
  unfold slice. rewrite !zlen_app.
  pose proof (zlen_nonneg pre). pose proof (zlen_nonneg b). pose proof (zlen_nonneg post).
  replace ((0 <=? zlen pre) && (zlen pre <=? zlen pre + zlen b)
           && (zlen pre + zlen b <=? zlen pre + (zlen b + zlen post))) with true by lia.
  f_equal. unfold zlen. rewrite Nat2Z.id.
  rewrite skipn_app, skipn_all, Nat.sub_diag. cbn [skipn app].
  replace (Z.to_nat (Z.of_nat (length pre) + Z.of_nat (length b) - Z.of_nat (length pre)))
    with (length b + 0)%nat by lia.
  rewrite firstn_app_2. cbn. apply app_nil_r.
Qed.

Lemma slice_suffix pre rest :
  slice (pre ++ rest) (zlen pre) (zlen (pre ++ rest)) = Some rest.
Proof.
  pose proof (slice_app_mid pre rest []) as H. rewrite app_nil_r in H.
  rewrite zlen_app. exact H.
Qed.

Lemma slice_some l lo hi :
  0 <= lo -> lo <= hi -> hi <= zlen l -> exists s, slice l lo hi = Some s /\ zlen s = hi - lo.
Proof.
  intros H1 H2 H3. unfold slice.
  replace ((0 <=? lo) && (lo <=? hi) && (hi <=? zlen l)) with true by lia.
  eexists. split; [reflexivity|].
  unfold zlen in *. rewrite firstn_length, skipn_length. lia.
Qed.

Lemma slice_length l lo hi s : slice l lo hi = Some s -> zlen s = hi - lo.
Proof.
  unfold slice. destruct ((0 <=? lo) && (lo <=? hi) && (hi <=? zlen l)) eqn:E; [|discriminate].
  intros [= <-]. unfold zlen in *. rewrite firstn_length, skipn_length. lia.
Qed.

Lemma forallb_firstn {A} (f : A -> bool) n l : forallb f l = true -> forallb f (firstn n l) = true.
Proof.
  revert l. induction n as [|n IH]; intros [|x l] H; cbn in *; try reflexivity.
  apply andb_true_iff in H as [-> H]. cbn. auto.
Qed.

Lemma forallb_skipn {A} (f : A -> bool) n l : forallb f l = true -> forallb f (skipn n l) = true.
Proof.
  revert l. induction n as [|n IH]; intros [|x l] H; cbn in *; try reflexivity; auto.
  apply andb_true_iff in H as [_ H]. auto.
Qed.

Lemma slice_byteb l lo hi s :
  forallb byteb l = true -> slice l lo hi = Some s -> forallb byteb s = true.
Proof.
  unfold slice. destruct (_ && _); [|discriminate]. intros H [= <-].
  now apply forallb_firstn, forallb_skipn.
Qed.

(* ------------------------------------------------------------------ *)
(* the pack loop, functionally                                         *)

Fixpoint heads_acc (ps : list part) (off : Z) : list N :=
  match ps with
  | [] => []
  | (true, b) :: r => pack_num off ++ heads_acc r (off + zlen b)
  | (false, b) :: r => b ++ heads_acc r off
  end.

Lemma pack_loop_eq ps : forall off ret tail,
  pack_loop ps off ret tail = ret ++ heads_acc ps off ++ tail ++ tails ps.
Proof.
  induction ps as [|[[|] b] r IH]; intros off ret tail; cbn [pack_loop heads_acc tails].
  - now rewrite app_nil_r.
  - rewrite IH. now rewrite <- !app_assoc.
  - rewrite IH. now rewrite <- !app_assoc.
Qed.

Lemma tails_app a b : tails (a ++ b) = tails a ++ tails b.
Proof.
  induction a as [|[[|] x] r IH]; cbn [tails app]; [reflexivity| |assumption].
  now rewrite IH, app_assoc.
Qed.

Lemma head_len_nonneg ps : 0 <= head_len ps.
Proof.
  induction ps as [|[[|] b] r IH]; cbn [head_len]; try pose proof (zlen_nonneg b); lia.
Qed.

Lemma zlen_heads_acc ps : forall off, zlen (heads_acc ps off) = head_len ps.
Proof.
  induction ps as [|[[|] b] r IH]; intros off; cbn [heads_acc head_len]; [reflexivity| |];
    rewrite zlen_app, IH; [rewrite zlen_pack_num|]; reflexivity.
Qed.

Lemma spec_heads_eq hl ps : forall before, 0 <= hl ->
  spec_heads hl before ps = heads_acc ps (hl + zlen (tails before)).
Proof.
  induction ps as [|[[|] b] r IH]; intros before Hhl; cbn [spec_heads heads_acc]; [reflexivity| |].
  - rewrite IH by assumption. rewrite tails_app. cbn [tails]. rewrite app_nil_r, zlen_app.
    rewrite pack_num_spec by (pose proof (zlen_nonneg (tails before)); lia).
    now rewrite Z.add_assoc.
  - rewrite IH by assumption. rewrite tails_app. cbn [tails]. now rewrite app_nil_r.
Qed.

Lemma enc_tuple_eq ps : enc_tuple ps = pack_loop ps (head_len ps) [] [].
Proof.
  unfold enc_tuple. rewrite pack_loop_eq, spec_heads_eq by apply head_len_nonneg.
  cbn [tails app]. now rewrite zlen_nil, Z.add_0_r.
Qed.

Definition all_static (ps : list part) : Prop := Forall (fun p => fst p = false) ps.

Lemma heads_acc_static ps : all_static ps -> forall off off', heads_acc ps off = heads_acc ps off'.
Proof.
  induction 1 as [|[d b] r Hd _ IH]; intros off off'; [reflexivity|].
  cbn in Hd. subst d. cbn [heads_acc]. f_equal. apply IH.
Qed.

Lemma tails_static ps : all_static ps -> tails ps = [].
Proof.
  induction 1 as [|[d b] r Hd _ IH]; [reflexivity|]. cbn in Hd. subst d. exact IH.
Qed.

Lemma zlen_pack_loop ps off : zlen (pack_loop ps off [] []) = head_len ps + zlen (tails ps).
Proof. rewrite pack_loop_eq. cbn [app]. now rewrite zlen_app, zlen_heads_acc. Qed.

(* ------------------------------------------------------------------ *)
(* type sizes                                                          *)

Lemma dynamic_type_size t : dynamic t = true -> type_size t = 32.
Proof.
  destruct t; cbn [dynamic type_size]; intros H; try reflexivity; now rewrite H.
Qed.

Lemma type_size_fixed_static k e :
  dynamic e = false -> type_size (TFixedArray k e) = Z.of_nat k * type_size e.
Proof.
  intros H. cbn [type_size]. rewrite H. cbn [negb].
  destruct e; try reflexivity; cbn [dynamic] in H; try discriminate.
Qed.

Lemma type_size_tuple_static ts :
  existsb dynamic ts = false -> type_size (TTuple ts) = zsum (map type_size ts).
Proof. intros H. cbn [type_size]. now rewrite H. Qed.

Lemma bind_ok {A B} (r : res A) (f : A -> res B) b :
  bind r f = Ok b -> exists a, r = Ok a /\ f a = Ok b.
Proof. destruct r; cbn; intros H; try discriminate. eauto. Qed.

(* all elements of an array are packed with the same dynamic flag *)
Lemma pack_elems_inv f dyn vs : forall ps,
  pack_elems f dyn vs = Ok ps ->
  Forall2 (fun v p => fst p = dyn /\ f v = Ok (snd p)) vs ps.
Proof.
  induction vs as [|v r IH]; intros ps H; cbn [pack_elems] in H.
  - injection H as <-. constructor.
  - apply bind_ok in H as (b & Hb & H). apply bind_ok in H as (ps' & Hps & H).
    injection H as <-. constructor; [split; [reflexivity|exact Hb]|]. now apply IH.
Qed.

Lemma Forall2_len {A B} (R : A -> B -> Prop) l m : Forall2 R l m -> length l = length m.
Proof. induction 1; cbn; congruence. Qed.

Lemma head_len_uniform (ps : list part) sz :
  Forall (fun p : part => (if fst p then 32 else zlen (snd p)) = sz) ps ->
  head_len ps = zlen ps * sz.
Proof.
  induction 1 as [|[[|] b] r Hd _ IH]; cbn [head_len]; [reflexivity| |];
    cbn in Hd; rewrite IH, zlen_cons; lia.
Qed.

(* the static encoding length is the type size *)
Definition static_len_P (t : ty) : Prop :=
  forall v b, ty_newtype t = true -> pack t v = Ok b -> dynamic t = false -> zlen b = type_size t.

Lemma fields_head_len ts : Forall static_len_P ts -> forall vs ps,
  forallb ty_newtype ts = true ->
  pack_fields pack ts vs = Ok ps -> head_len ps = zsum (map type_size ts).
Proof.
  induction 1 as [|t r Ht _ IH]; intros vs ps Hnt H.
  - destruct vs; cbn in H; [|discriminate]. injection H as <-. reflexivity.
  - destruct vs as [|v vs]; cbn [pack_fields] in H; [discriminate|].
    cbn [forallb] in Hnt. apply andb_true_iff in Hnt as [Hnt1 Hnt2].
    apply bind_ok in H as (b & Hb & H). apply bind_ok in H as (ps' & Hps & H).
    injection H as <-. cbn [map zsum fold_right]. fold (zsum (map type_size r)).
    rewrite <- (IH _ _ Hnt2 Hps).
    destruct (dynamic t) eqn:Hd; cbn [head_len].
    + now rewrite dynamic_type_size.
    + now rewrite (Ht _ _ Hnt1 Hb Hd).
Qed.

Lemma pack_fields_static ts : forall vs ps,
  pack_fields pack ts vs = Ok ps -> existsb dynamic ts = false -> all_static ps.
Proof.
  induction ts as [|t r IH]; intros vs ps H Hd.
  - destruct vs; cbn in H; [|discriminate]. injection H as <-. constructor.
  - destruct vs as [|v vs]; cbn [pack_fields] in H; [discriminate|].
    cbn [existsb] in Hd. apply orb_false_iff in Hd as [Hd1 Hd2].
    apply bind_ok in H as (b & Hb & H). apply bind_ok in H as (ps' & Hps & H).
    injection H as <-. constructor; [exact Hd1|]. eapply IH; eauto.
Qed.

Lemma right_pad_len b l : (length b <= l)%nat -> zlen (right_pad b l) = Z.of_nat l.
Proof. intros H. unfold right_pad. rewrite zlen_app, zlen_zeros. unfold zlen. lia. Qed.

Lemma pack_static_len t : static_len_P t.
Proof.
  induction t using ty_ind'; intros v b Hnt Hp Hd; cbn [dynamic] in Hd; try discriminate.
  - cbn [pack] in Hp. destruct v; cbn [pack_element] in Hp; try discriminate.
    destruct (native_width n); [destruct (in_unsigned n z)|destruct (z <? 0)];
      try discriminate; injection Hp as <-; apply zlen_pack_num.
  - cbn [pack] in Hp. destruct v; cbn [pack_element] in Hp; try discriminate.
    destruct (native_width n); [destruct (in_signed n z)|];
      try discriminate; injection Hp as <-; apply zlen_pack_num.
  - cbn [pack] in Hp. destruct v; cbn [pack_element] in Hp; try discriminate.
    injection Hp as <-; apply zlen_pack_num.
  - cbn [pack] in Hp. destruct v; cbn [pack_element] in Hp; try discriminate.
    destruct (Nat.eqb (length bs) 20) eqn:E; [|discriminate]. injection Hp as <-.
    unfold left_pad. rewrite zlen_app, zlen_zeros. cbn [type_size]. unfold zlen. lia.
  - cbn [pack] in Hp. destruct v; cbn [pack_element] in Hp; try discriminate.
    destruct (N.of_nat (length bs) =? n)%N eqn:E; [|discriminate]. injection Hp as <-.
    cbn [ty_newtype] in Hnt. cbn [type_size]. apply right_pad_len. lia.
  - (* fixed array of static elements *)
    cbn [ty_newtype] in Hnt.
    rewrite type_size_fixed_static by assumption.
    destruct v; try (cbn [pack] in Hp; discriminate). cbn [pack] in Hp.
    destruct (Nat.eqb (length vs) k) eqn:Ek; [|discriminate].
    apply bind_ok in Hp as (ps & Hps & Hp). injection Hp as <-.
    apply pack_elems_inv in Hps.
    rewrite zlen_pack_loop.
    assert (Hst : all_static ps).
    { clear -Hps Hd. induction Hps as [|v p vs' ps' [Hf _] _ IH]; constructor; [congruence|exact IH]. }
    rewrite tails_static by assumption. rewrite zlen_nil, Z.add_0_r.
    rewrite (head_len_uniform ps (type_size t)).
    + apply Forall2_len in Hps. apply Nat.eqb_eq in Ek.
      f_equal. unfold zlen. f_equal. etransitivity; [symmetry; exact Hps|exact Ek].
    + clear -Hps Hd IHt Hnt. induction Hps as [|v p vs' ps' [Hf Hb] _ IH]; constructor; [|exact IH].
      destruct p as [d pb]. cbn in *. subst d. rewrite Hd. now apply (IHt v pb).
  - (* static tuple *)
    cbn [ty_newtype] in Hnt.
    rewrite type_size_tuple_static by assumption.
    destruct v; try (cbn [pack] in Hp; discriminate). cbn [pack] in Hp.
    apply bind_ok in Hp as (ps & Hps & Hp). injection Hp as <-.
    rewrite zlen_pack_loop.
    rewrite (tails_static ps) by (eapply pack_fields_static; eauto).
    rewrite zlen_nil, Z.add_0_r. eapply fields_head_len; eauto.
Qed.

(* ------------------------------------------------------------------ *)
(* pack = spec                                                         *)

Lemma ty_valid_newtype t : ty_valid t = true -> ty_newtype t = true.
Proof.
  induction t using ty_ind'; cbn [ty_valid ty_newtype]; auto.
  intros Hv. rewrite forallb_forall in *. rewrite Forall_forall in H. auto.
Qed.

Lemma pack_num_signed z :
  - 2 ^ 255 <= z < 2 ^ 255 -> pack_num z = spec_word (if z <? 0 then z + 2 ^ 256 else z).
Proof.
  intros H. destruct (z <? 0) eqn:E.
  - unfold pack_num, spec_word. do 2 f_equal. lia.
  - apply pack_num_spec. lia.
Qed.

Lemma in_signed_bound n z :
  (1 <= n)%N -> (n <= 256)%N -> in_signed n z = true -> - 2 ^ 255 <= z < 2 ^ 255.
Proof.
  intros H1 H2 H. unfold in_signed in H.
  assert (2 ^ (Z.of_N n - 1) <= 2 ^ 255) by (apply Z.pow_le_mono_r; lia).
  lia.
Qed.

Lemma pad_arith (n : nat) :
  ((n + 31) / 32 * 32 - n)%nat = Z.to_nat ((32 - Z.of_nat n mod 32) mod 32).
Proof. lia. Qed.

Lemma pack_bytes_spec b : pack_bytes_slice b = spec_bytes b.
Proof.
  unfold pack_bytes_slice, spec_bytes, right_pad.
  rewrite pack_num_spec by apply zlen_nonneg. do 3 f_equal. unfold zlen. apply pad_arith.
Qed.

Lemma elems_eq (f : val -> option (list N)) (g : val -> res (list N)) dyn vs :
  (forall v b, f v = Some b -> g v = Ok b) ->
  forall ps, enc_elems f dyn vs = Some ps -> pack_elems g dyn vs = Ok ps.
Proof.
  intros Hfg. induction vs as [|v r IH]; intros ps H; cbn [enc_elems pack_elems] in *.
  - now injection H as <-.
  - destruct (f v) eqn:Ef; [|discriminate]. destruct (enc_elems f dyn r) eqn:Er; [|discriminate].
    injection H as <-. rewrite (Hfg _ _ Ef). cbn [bind]. now rewrite (IH _ eq_refl).
Qed.

Lemma elems_parts f dyn (vs : list val) (ps : list part) :
  pack_elems f dyn vs = Ok ps ->
  Forall (fun p : part => fst p = dyn) ps /\ zlen ps = zlen vs.
Proof.
  intros H. apply pack_elems_inv in H. split.
  - induction H as [|v p vs' ps' [Hf _] _ IH]; constructor; auto.
  - unfold zlen. f_equal. symmetry. eapply Forall2_len; eauto.
Qed.

(* the initial offset of type.go:288-292 is the head length *)
Lemma array_heads e (vs : list val) (ps : list part) :
  Forall (fun p : part => fst p = dynamic e) ps -> zlen ps = zlen vs ->
  heads_acc ps (if dynamic e then type_size e * zlen vs else 0) = heads_acc ps (head_len ps).
Proof.
  intros Hf Hl. destruct (dynamic e) eqn:Hd.
  - f_equal. rewrite dynamic_type_size by assumption.
    rewrite (head_len_uniform ps 32); [lia|].
    eapply Forall_impl; [|exact Hf]. intros [d b] Hp. cbn in *. now subst d.
  - apply heads_acc_static. exact Hf.
Qed.

Definition pack_eq_spec_P (t : ty) : Prop :=
  forall v b, ty_valid t = true -> enc t v = Some b -> pack t v = Ok b.

Lemma fields_eq ts : Forall pack_eq_spec_P ts -> forall vs ps,
  forallb ty_valid ts = true ->
  enc_fields enc ts vs = Some ps -> pack_fields pack ts vs = Ok ps.
Proof.
  induction 1 as [|t r Ht _ IH]; intros vs ps Hv H.
  - destruct vs; cbn in *; [|discriminate]. now injection H as <-.
  - destruct vs as [|v vs]; cbn [enc_fields pack_fields] in *; [discriminate|].
    cbn [forallb] in Hv. apply andb_true_iff in Hv as [Hv1 Hv2].
    destruct (enc t v) eqn:Ef; [|discriminate].
    destruct (enc_fields enc r vs) eqn:Er; [|discriminate].
    injection H as <-. rewrite (Ht _ _ Hv1 Ef). cbn [bind]. now rewrite (IH _ _ Hv2 Er).
Qed.

Lemma forallb_valid_newtype ts : forallb ty_valid ts = true -> forallb ty_newtype ts = true.
Proof.
  rewrite !forallb_forall. intros H x Hx. apply ty_valid_newtype. auto.
Qed.

Lemma pack_tuple_eq ts vs ps :
  forallb ty_newtype ts = true ->
  pack_fields pack ts vs = Ok ps ->
  pack_loop ps (zsum (map type_size ts)) [] [] = enc_tuple ps.
Proof.
  intros Hnt H. rewrite enc_tuple_eq. f_equal. symmetry.
  eapply fields_head_len; eauto. apply Forall_forall. intros t _. apply pack_static_len.
Qed.

Lemma pack_eq_spec t : pack_eq_spec_P t.
Proof.
  induction t using ty_ind'; intros v b Hv He; destruct v; cbn [enc] in He; try discriminate;
    cbn [pack pack_element]; cbn [ty_valid] in Hv.
  - destruct (in_unsigned n z) eqn:E; [|discriminate]. injection He as <-.
    unfold in_unsigned in E.
    replace (z <? 0) with false by lia.
    rewrite pack_num_spec by lia. now destruct (native_width n).
  - destruct (in_signed n z) eqn:E; [|discriminate]. injection He as <-.
    rewrite pack_num_signed by (apply (in_signed_bound n); [lia|lia|exact E]).
    now destruct (native_width n).
  - injection He as <-. rewrite pack_num_spec by (destruct b0; lia). reflexivity.
  - destruct (Nat.eqb (length bs) 20) eqn:E; [|discriminate]. injection He as <-.
    apply Nat.eqb_eq in E. unfold left_pad. now rewrite E.
  - destruct (N.of_nat (length bs) =? n)%N eqn:E; [|discriminate]. now injection He as <-.
  - injection He as <-. now rewrite pack_bytes_spec.
  - injection He as <-. now rewrite pack_bytes_spec.
  - (* T[] *)
    destruct (enc_elems (enc t) (dynamic t) vs) as [ps|] eqn:E; [|discriminate].
    injection He as <-.
    assert (Hp : pack_elems (pack t) (dynamic t) vs = Ok ps).
    { eapply elems_eq; [|exact E]. intros v b. now apply IHt. }
    rewrite Hp. cbn [bind]. destruct (elems_parts _ _ _ _ Hp) as [Hf Hl].
    rewrite enc_tuple_eq, !pack_loop_eq. cbn [app].
    rewrite array_heads by assumption.
    now rewrite pack_num_spec by apply zlen_nonneg.
  - (* T[k] *)
    destruct (Nat.eqb (length vs) k); [|discriminate].
    destruct (enc_elems (enc t) (dynamic t) vs) as [ps|] eqn:E; [|discriminate].
    injection He as <-.
    assert (Hp : pack_elems (pack t) (dynamic t) vs = Ok ps).
    { eapply elems_eq; [|exact E]. intros v b. now apply IHt. }
    rewrite Hp. cbn [bind]. destruct (elems_parts _ _ _ _ Hp) as [Hf Hl].
    rewrite enc_tuple_eq, !pack_loop_eq. cbn [app].
    now rewrite array_heads by assumption.
  - (* tuple *)
    destruct (enc_fields enc ts vs) as [ps|] eqn:E; [|discriminate].
    injection He as <-.
    assert (Hp : pack_fields pack ts vs = Ok ps) by (eapply fields_eq; eauto).
    rewrite Hp. cbn [bind]. f_equal. apply pack_tuple_eq with (vs := vs); [|exact Hp].
    now apply forallb_valid_newtype.
Qed.

Lemma pack_args_eq_spec ts vs b :
  forallb ty_valid ts = true -> enc_args ts vs = Some b -> pack_args ts vs = Ok b.
Proof.
  intros Hv He. exact (pack_eq_spec (TTuple ts) (VList vs) b Hv He).
Qed.

(* the spec encoder is defined on every ABI-typed value *)
Definition enc_total_P (t : ty) : Prop :=
  forall v, wf_value t v = true -> exists b, enc t v = Some b.

Lemma enc_total t : enc_total_P t.
Proof.
  induction t using ty_ind'; intros v Hw; destruct v; cbn [wf_value] in Hw; try discriminate;
    cbn [enc].
  - rewrite Hw. eauto.
  - rewrite Hw. eauto.
  - eauto.
  - apply andb_true_iff in Hw as [-> _]. eauto.
  - apply andb_true_iff in Hw as [-> _]. eauto.
  - eauto.
  - eauto.
  - assert (exists ps, enc_elems (enc t) (dynamic t) vs = Some ps) as [ps ->]; [|eauto].
    induction vs as [|v r IH]; cbn [enc_elems forallb] in *; [eauto|].
    apply andb_true_iff in Hw as [H1 H2]. destruct (IHt _ H1) as [b ->].
    destruct (IH H2) as [ps ->]. eauto.
  - apply andb_true_iff in Hw as [-> Hw].
    assert (exists ps, enc_elems (enc t) (dynamic t) vs = Some ps) as [ps ->]; [|eauto].
    clear k. induction vs as [|v r IH]; cbn [enc_elems forallb] in *; [eauto|].
    apply andb_true_iff in Hw as [H1 H2]. destruct (IHt _ H1) as [b ->].
    destruct (IH H2) as [ps ->]. eauto.
  - assert (exists ps, enc_fields enc ts vs = Some ps) as [ps ->]; [|eauto].
    revert vs Hw. induction H as [|t r Ht _ IH]; intros [|v vs] Hw; cbn [forall2b enc_fields] in *;
      try discriminate; [eauto|].
    apply andb_true_iff in Hw as [H1 H2]. destruct (Ht _ H1) as [b ->].
    destruct (IH _ H2) as [ps ->]. eauto.
Qed.

(* ------------------------------------------------------------------ *)
(* unpack never reaches a Go run-time panic                            *)

Lemma bind_np {A B} (r : res A) (f : A -> res B) :
  r <> Panic -> (forall a, r = Ok a -> f a <> Panic) -> bind r f <> Panic.
Proof. destruct r; cbn; intros H1 H2; auto; discriminate. Qed.

Lemma gslice_np l lo hi : 0 <= lo -> lo <= hi -> hi <= zlen l -> gslice l lo hi <> Panic.
Proof.
  intros H1 H2 H3. unfold gslice. destruct (slice_some l lo hi H1 H2 H3) as (s & -> & _). discriminate.
Qed.

Lemma gslice_ok l lo hi s :
  gslice l lo hi = Ok s -> zlen s = hi - lo /\ 0 <= lo /\ lo <= hi /\ hi <= zlen l.
Proof.
  unfold gslice. destruct (slice l lo hi) eqn:E; [|discriminate]. intros [= <-].
  split; [eapply slice_length; eauto|].
  unfold slice in E. destruct ((0 <=? lo) && (lo <=? hi) && (hi <=? zlen l)) eqn:C; [lia|discriminate].
Qed.

Lemma read_integer_cases u n b :
  (exists z, read_integer u n b = Ok (VInt z)) \/ read_integer u n b = Err EInt.
Proof.
  unfold read_integer.
  repeat match goal with
         | |- context [match ?x with _ => _ end] => destruct x
         end; eauto.
Qed.

Lemma read_integer_np u n b : read_integer u n b <> Panic.
Proof. destruct (read_integer_cases u n b) as [[z ->]| ->]; discriminate. Qed.

Lemma nth_error_some_len {A} (l : list A) n : (n < length l)%nat -> exists x, nth_error l n = Some x.
Proof.
  intros H. destruct (nth_error l n) eqn:E; [eauto|]. apply nth_error_None in E. lia.
Qed.

Lemma read_bool_np w : zlen w = 32 -> read_bool w <> Panic.
Proof.
  intros Hl. unfold read_bool. apply bind_np; [apply gslice_np; lia|]. intros hi _.
  destruct (existsb _ hi); [discriminate|].
  destruct (nth_error_some_len w 31) as [x ->]; [unfold zlen in Hl; lia|].
  destruct x as [|[p|p|]]; discriminate.
Qed.

Lemma read_fixed_bytes_np n w : zlen w = 32 -> (n <= 32)%N -> read_fixed_bytes n w <> Panic.
Proof.
  intros Hl Hn. unfold read_fixed_bytes. apply bind_np; [apply gslice_np; lia|]. discriminate.
Qed.

Lemma bytes_to_address_np w : zlen w = 32 -> bytes_to_address w <> Panic.
Proof.
  intros Hl. unfold bytes_to_address. apply bind_np; [apply gslice_np; lia|]. discriminate.
Qed.

Ltac dif :=
  match goal with |- context [if ?c then _ else _] => destruct c eqn:? end.
Ltac difh H :=
  match type of H with context [if ?c then _ else _] => destruct c eqn:? end.

Lemma lpp_np index output :
  0 <= index -> index + 32 <= zlen output -> length_prefix_points_to index output <> Panic.
Proof.
  intros H1 H2. unfold length_prefix_points_to.
  apply bind_np; [apply gslice_np; lia|]. intros w Hw.
  dif; [discriminate|]. dif; [discriminate|].
  apply bind_np; [apply gslice_np; lia|]. intros lw Hlw.
  dif; [discriminate|]. dif; discriminate.
Qed.

Lemma lpp_ok index output b l :
  length_prefix_points_to index output = Ok (b, l) ->
  32 <= b /\ 0 <= l /\ b + l <= zlen output.
Proof.
  unfold length_prefix_points_to. intros H.
  apply bind_ok in H as (w & Hw & H).
  difh H; [discriminate|]. difh H; [discriminate|].
  apply bind_ok in H as (lw & Hlw & H).
  difh H; [discriminate|]. difh H; [discriminate|].
  injection H as <- <-. lia.
Qed.

Lemma tpt_np index output :
  0 <= index -> index + 32 <= zlen output -> tuple_points_to index output <> Panic.
Proof.
  intros H1 H2. unfold tuple_points_to.
  apply bind_np; [apply gslice_np; lia|]. intros w Hw.
  dif; [discriminate|]. dif; discriminate.
Qed.

Lemma tpt_ok index output b :
  tuple_points_to index output = Ok b -> 0 <= b <= zlen output.
Proof.
  unfold tuple_points_to. intros H. apply bind_ok in H as (w & Hw & H).
  difh H; [discriminate|]. difh H; [discriminate|].
  injection H as <-. lia.
Qed.

Lemma for_each_loop_np dec1 es n : forall i,
  (forall i, 0 <= i -> dec1 i <> Panic) -> 0 <= es -> 0 <= i ->
  for_each_loop dec1 i es n <> Panic.
Proof.
  induction n as [|n IH]; intros i Hd He Hi; cbn [for_each_loop]; [discriminate|].
  apply bind_np; [auto|]. intros v _. apply bind_np; [apply IH; auto; lia|]. discriminate.
Qed.

Lemma for_each_unpack_np dec1 es output start size :
  (forall i, 0 <= i -> dec1 i <> Panic) -> 0 <= es -> 0 <= start ->
  for_each_unpack dec1 es output start size <> Panic.
Proof.
  intros Hd He Hs. unfold for_each_unpack.
  dif; [discriminate|]. dif; [discriminate|].
  apply bind_np; [now apply for_each_loop_np|]. discriminate.
Qed.

Lemma zsum_nonneg l : Forall (fun z => 0 <= z) l -> 0 <= zsum l.
Proof. induction 1; cbn; [lia|]. fold (zsum l). lia. Qed.

Lemma type_size_nonneg t : 0 <= type_size t.
Proof.
  induction t using ty_ind'; cbn [type_size]; try lia.
  - destruct (negb (dynamic t)); [|lia]. destruct t; lia.
  - destruct (negb (existsb dynamic ts)); [|lia]. apply zsum_nonneg.
    apply Forall_map. exact H.
Qed.

Lemma unpack_fields_np dec ts : forall index virt,
  Forall (fun t => forall i, 0 <= i -> dec t i <> Panic) ts ->
  0 <= index + virt -> unpack_fields dec ts index virt <> Panic.
Proof.
  induction ts as [|t r IH]; intros index virt Hd Hi; cbn [unpack_fields]; [discriminate|].
  inversion Hd as [|? ? Ht Hr]; subst.
  apply bind_np; [apply Ht; lia|]. intros v _.
  apply bind_np; [|discriminate].
  apply IH; [exact Hr|].
  pose proof (type_size_nonneg t) as Hs.
  assert (0 <= type_size t / 32) by (apply Z.div_pos; lia).
  destruct t; try lia; destruct (negb _); lia.
Qed.

Definition no_panic_P (t : ty) : Prop :=
  forall index output, ty_newtype t = true -> 0 <= index -> to_go_type t index output <> Panic.

Ltac np_word :=
  apply bind_np; [apply gslice_np; lia|]; intros w Hw; apply gslice_ok in Hw as (Hwl & _).

Lemma to_go_type_np t : no_panic_P t.
Proof.
  induction t using ty_ind'; intros index output Hnt Hi; cbn [to_go_type];
    destruct (index + 32 >? zlen output) eqn:Hlen; try discriminate; cbn [ty_newtype] in Hnt.
  - np_word. apply read_integer_np.
  - np_word. apply read_integer_np.
  - np_word. apply read_bool_np. lia.
  - np_word. apply bytes_to_address_np. lia.
  - np_word. apply read_fixed_bytes_np; lia.
  - apply bind_np; [apply lpp_np; lia|]. intros [b l] Hbl. apply lpp_ok in Hbl.
    apply bind_np; [apply gslice_np; lia|]. discriminate.
  - apply bind_np; [apply lpp_np; lia|]. intros [b l] Hbl. apply lpp_ok in Hbl.
    apply bind_np; [apply gslice_np; lia|]. discriminate.
  - (* T[] *)
    apply bind_np; [apply lpp_np; lia|]. intros [b l] Hbl. apply lpp_ok in Hbl.
    apply bind_np; [apply gslice_np; lia|]. intros out' _.
    apply for_each_unpack_np; [|apply type_size_nonneg|lia]. intros i Hi'. now apply IHt.
  - (* T[k] *)
    np_word. destruct (dynamic t).
    + apply bind_np; [apply gslice_np; lia|]. intros w8 _.
      dif; [discriminate|].
      apply bind_np; [apply gslice_np; lia|]. intros out' _.
      apply for_each_unpack_np; [|apply type_size_nonneg|lia]. intros i Hi'. now apply IHt.
    + apply bind_np; [apply gslice_np; lia|]. intros out' _.
      apply for_each_unpack_np; [|apply type_size_nonneg|lia]. intros i Hi'. now apply IHt.
  - (* tuple *)
    assert (Hf : forall out', Forall (fun t => forall i, 0 <= i -> to_go_type t i out' <> Panic) ts).
    { intros out'. rewrite forallb_forall in Hnt. rewrite Forall_forall in *.
      intros t Ht i Hi'. apply H; auto. }
    np_word. destruct (existsb dynamic ts).
    + apply bind_np; [apply tpt_np; lia|]. intros b Hb. apply tpt_ok in Hb.
      apply bind_np; [apply gslice_np; lia|]. intros out' _.
      apply bind_np; [|discriminate]. apply unpack_fields_np; [apply Hf|lia].
    + apply bind_np; [apply gslice_np; lia|]. intros out' _.
      apply bind_np; [|discriminate]. apply unpack_fields_np; [apply Hf|lia].
Qed.

Lemma unpack_args_np ts data :
  forallb ty_newtype ts = true -> unpack_args ts data <> Panic.
Proof.
  intros Hnt. unfold unpack_args, unpack_values.
  destruct data as [|x data]; [destruct ts; discriminate|].
  apply unpack_fields_np; [|lia].
  rewrite forallb_forall in Hnt. apply Forall_forall. intros t Ht i Hi.
  apply to_go_type_np; auto.
Qed.

(* ------------------------------------------------------------------ *)
(* round trip: reading back single words                               *)

Lemma be_val_pack_num_mod z : Z.of_N (be_val (pack_num z)) = z mod 2 ^ 256.
Proof.
  unfold pack_num. rewrite be_val_be_bytes, pow256_32.
  assert (0 <= z mod 2 ^ 256 < 2 ^ 256) by (apply Z.mod_pos_bound; lia).
  rewrite N.mod_small; lia.
Qed.

Lemma native_cases n : native_width n = true -> (n = 8 \/ n = 16 \/ n = 32 \/ n = 64)%N.
Proof.
  unfold native_width. destruct n as [|p]; [discriminate|].
  do 7 (try destruct p as [p|p|]; try discriminate); auto.
Qed.

Lemma read_uint_big n b :
  native_width n = false -> read_integer true n b = Ok (VInt (Z.of_N (be_val b))).
Proof.
  unfold native_width, read_integer. destruct n as [|p]; [reflexivity|].
  repeat (destruct p as [p|p|]; try reflexivity; try discriminate).
Qed.

Lemma read_uint n z :
  in_unsigned (int_width n) z = true -> read_integer true n (pack_num z) = Ok (VInt z).
Proof.
  unfold in_unsigned, int_width. intros H. destruct (native_width n) eqn:En.
  - assert (Hx : Z.of_N (be_val (pack_num z)) = z).
    { rewrite be_val_pack_num_mod. apply Z.mod_small.
      assert (2 ^ Z.of_N n <= 2 ^ 256) by (apply Z.pow_le_mono_r; destruct (native_cases n En) as [->|[->|[->| ->]]]; lia).
      lia. }
    unfold read_integer. rewrite Hx.
    destruct (native_cases n En) as [->|[->|[->| ->]]]; cbn [Z.of_N] in H;
      match goal with |- (if ?c then _ else _) = _ => replace c with false by lia end; reflexivity.
  - rewrite read_uint_big by assumption. rewrite be_val_pack_num_mod.
    rewrite Z.mod_small by (cbn [Z.of_N] in H; lia). reflexivity.
Qed.

Lemma testbit_255 x : 0 <= x < 2 ^ 256 -> Z.testbit x 255 = (2 ^ 255 <=? x).
Proof.
  intros H. destruct (2 ^ 255 <=? x) eqn:E.
  - apply Z.testbit_true; [lia|]. lia.
  - apply not_true_is_false. intros Ht. apply Z.testbit_true in Ht; lia.
Qed.

Lemma decode_signed z : - 2 ^ 255 <= z < 2 ^ 255 ->
  (if Z.testbit (z mod 2 ^ 256) 255
   then - (((2 ^ 256 - 1) + (- (z mod 2 ^ 256))) + 1) else z mod 2 ^ 256) = z.
Proof.
  intros H. assert (0 <= z mod 2 ^ 256 < 2 ^ 256) by (apply Z.mod_pos_bound; lia).
  rewrite testbit_255 by assumption.
  destruct (2 ^ 255 <=? z mod 2 ^ 256) eqn:E; lia.
Qed.

Lemma read_int_big n b :
  native_width n = false ->
  read_integer false n b =
  Ok (VInt (let ret := Z.of_N (be_val b) in
            if Z.testbit ret 255 then - (((2 ^ 256 - 1) + (- ret)) + 1) else ret)).
Proof.
  unfold native_width, read_integer. destruct n as [|p]; [reflexivity|].
  repeat (destruct p as [p|p|]; try reflexivity; try discriminate).
Qed.

Lemma in_signed_int_width n z : in_signed (int_width n) z = true -> - 2 ^ 255 <= z < 2 ^ 255.
Proof.
  unfold int_width. intros H. destruct (native_width n) eqn:En.
  - apply (in_signed_bound n); [| |exact H]; destruct (native_cases n En) as [->|[->|[->| ->]]]; lia.
  - unfold in_signed in H. cbn [Z.of_N] in H. lia.
Qed.

Lemma read_int n z :
  in_signed (int_width n) z = true -> read_integer false n (pack_num z) = Ok (VInt z).
Proof.
  intros H. pose proof (in_signed_int_width n z H) as Hb.
  destruct (native_width n) eqn:En.
  - unfold read_integer. rewrite be_val_pack_num_mod, decode_signed by assumption.
    unfold in_signed, int_width in H. rewrite En in H.
    destruct (native_cases n En) as [->|[->|[->| ->]]]; cbn [Z.of_N] in H;
      match goal with |- (if ?c then _ else _) = _ => replace c with false by lia end; reflexivity.
  - rewrite read_int_big by assumption. cbv zeta.
    now rewrite be_val_pack_num_mod, decode_signed.
Qed.

Lemma read_bool_pack (b : bool) : read_bool (pack_num (if b then 1 else 0)) = Ok (VBool b).
Proof. destruct b; vm_compute; reflexivity. Qed.

(* ------------------------------------------------------------------ *)
(* placement of encoded components inside an output                    *)

Definition at_off (out : list N) (o : Z) (b : list N) : Prop :=
  exists pre post, out = pre ++ b ++ post /\ zlen pre = o.

Lemma at_off_bound out o b : at_off out o b -> 0 <= o /\ o + zlen b <= zlen out.
Proof.
  intros (pre & post & -> & <-). rewrite !zlen_app.
  pose proof (zlen_nonneg pre). pose proof (zlen_nonneg post). lia.
Qed.

Lemma at_off_slice out o b : at_off out o b -> gslice out o (o + zlen b) = Ok b.
Proof. intros (pre & post & -> & <-). unfold gslice. now rewrite slice_app_mid. Qed.

Lemma at_off_suffix out o b :
  at_off out o b -> exists post, gslice out o (zlen out) = Ok (b ++ post).
Proof.
  intros (pre & post & -> & <-). exists post. unfold gslice. now rewrite slice_suffix.
Qed.

Lemma at_off_app_l out o a b : at_off out o (a ++ b) -> at_off out o a.
Proof.
  intros (pre & post & -> & <-). exists pre, (b ++ post). now rewrite <- app_assoc.
Qed.

Lemma at_off_app_r out o a b : at_off out o (a ++ b) -> at_off out (o + zlen a) b.
Proof.
  intros (pre & post & -> & <-). exists (pre ++ a), post. rewrite zlen_app.
  now rewrite <- !app_assoc.
Qed.

Lemma at_off_0 (b post : list N) : at_off (b ++ post) 0 b.
Proof. exists [], post. split; reflexivity. Qed.

(* lengthPrefixPointsTo on a well-placed offset word / length word *)
Lemma lpp_placed out idx o l rest :
  zlen out < 2 ^ 63 ->
  at_off out idx (pack_num o) -> at_off out o (pack_num l ++ rest) ->
  0 <= l <= zlen rest ->
  length_prefix_points_to idx out = Ok (o + 32, l).
Proof.
  intros Hout Hw Hb Hl.
  pose proof (at_off_bound _ _ _ Hw) as Bw. rewrite zlen_pack_num in Bw.
  pose proof (at_off_bound _ _ _ Hb) as Bb. rewrite zlen_app, zlen_pack_num in Bb.
  unfold length_prefix_points_to.
  pose proof (at_off_slice _ _ _ Hw) as Sw. rewrite zlen_pack_num in Sw. rewrite Sw. cbn [bind].
  rewrite be_val_pack_num_mod, Z.mod_small by lia.
  replace (o + 32 >? zlen out) with false by lia.
  replace (2 ^ 63 <=? o + 32) with false by lia.
  pose proof (at_off_slice _ _ _ (at_off_app_l _ _ _ _ Hb)) as Sl. rewrite zlen_pack_num in Sl.
  replace (o + 32 - 32) with o by lia. rewrite Sl. cbn [bind].
  rewrite be_val_pack_num_mod, Z.mod_small by lia.
  replace (2 ^ 63 <=? o + 32 + l) with false by lia.
  replace (o + 32 + l >? zlen out) with false by lia.
  reflexivity.
Qed.

Lemma tpt_placed out idx o b :
  zlen out < 2 ^ 63 ->
  at_off out idx (pack_num o) -> at_off out o b ->
  tuple_points_to idx out = Ok o.
Proof.
  intros Hout Hw Hb.
  pose proof (at_off_bound _ _ _ Hw) as Bw. rewrite zlen_pack_num in Bw.
  pose proof (at_off_bound _ _ _ Hb) as Bb. pose proof (zlen_nonneg b).
  unfold tuple_points_to.
  pose proof (at_off_slice _ _ _ Hw) as Sw. rewrite zlen_pack_num in Sw. rewrite Sw. cbn [bind].
  rewrite be_val_pack_num_mod, Z.mod_small by lia.
  replace (o >? zlen out) with false by lia.
  replace (2 ^ 63 <=? o) with false by lia. reflexivity.
Qed.

Lemma be_bytes_app m n z :
  be_bytes (m + n) z = be_bytes m (z / 256 ^ N.of_nat n)%N ++ be_bytes n z.
Proof.
  revert z. induction n as [|n IH]; intros z.
  - rewrite Nat.add_0_r. cbn [be_bytes]. rewrite app_nil_r. cbn. now rewrite N.div_1_r.
  - rewrite Nat.add_succ_r. cbn [be_bytes]. rewrite IH, app_assoc. do 3 f_equal.
    replace (N.of_nat (S n)) with (N.succ (N.of_nat n)) by lia.
    rewrite N.pow_succ_r', N.div_div by (try apply N.pow_nonzero; lia). reflexivity.
Qed.

(* binary.BigEndian.Uint64 of the last 8 bytes of an offset word *)
Lemma last8_pack_num o : 0 <= o < 2 ^ 64 ->
  exists w8, gslice (pack_num o) (zlen (pack_num o) - 8) (zlen (pack_num o)) = Ok w8
             /\ Z.of_N (be_val w8) = o.
Proof.
  intros H. exists (be_bytes 8 (Z.to_N (o mod 2 ^ 256))). split.
  - set (x := Z.to_N (o mod 2 ^ 256)).
    assert (E : pack_num o = be_bytes 24 (x / 256 ^ N.of_nat 8)%N ++ be_bytes 8 x).
    { unfold pack_num. fold x. change 32%nat with (24 + 8)%nat. apply be_bytes_app. }
    rewrite E. set (pre := be_bytes 24 _). set (b := be_bytes 8 x).
    pose proof (slice_app_mid pre b []) as S. rewrite app_nil_r in S.
    rewrite zlen_app.
    assert (Hb : zlen b = 8) by (unfold b; now rewrite zlen_be_bytes).
    replace (zlen pre + zlen b - 8) with (zlen pre) by lia.
    unfold gslice. now rewrite S.
  - rewrite be_val_be_bytes. rewrite Z.mod_small by lia.
    change (256 ^ N.of_nat 8)%N with (2 ^ 64)%N. rewrite N.mod_small; lia.
Qed.

(* a component is placed at head position idx; a dynamic one through the
   offset word [off] *)
Definition placedp (d : bool) (b : list N) (idx off : Z) (out : list N) : Prop :=
  if d then at_off out idx (pack_num off) /\ at_off out off b else at_off out idx b.

Fixpoint parts_placed (ps : list part) (idx off : Z) (out : list N) : Prop :=
  match ps with
  | [] => True
  | (d, b) :: r =>
      placedp d b idx off out /\
      parts_placed r (idx + (if d then 32 else zlen b)) (if d then off + zlen b else off) out
  end.

Lemma parts_placed_intro ps : forall P M post off,
  off = zlen P + head_len ps + zlen M ->
  parts_placed ps (zlen P) off (P ++ heads_acc ps off ++ M ++ tails ps ++ post).
Proof.
  induction ps as [|[[|] b] r IH]; intros P M post off Hoff; cbn [parts_placed]; [exact I| |].
  - cbn [heads_acc tails head_len] in *. split; [split|].
    + exists P, (heads_acc r (off + zlen b) ++ M ++ (b ++ tails r) ++ post).
      split; [|reflexivity]. now rewrite <- !app_assoc.
    + exists (P ++ pack_num off ++ heads_acc r (off + zlen b) ++ M), (tails r ++ post).
      split; [now rewrite <- !app_assoc|].
      rewrite !zlen_app, zlen_pack_num, zlen_heads_acc. lia.
    + specialize (IH (P ++ pack_num off) (M ++ b) post (off + zlen b)).
      rewrite !zlen_app, zlen_pack_num in IH.
      replace (P ++ (pack_num off ++ heads_acc r (off + zlen b)) ++ M ++ (b ++ tails r) ++ post)
        with ((P ++ pack_num off) ++ heads_acc r (off + zlen b) ++ (M ++ b) ++ tails r ++ post)
        by (now rewrite <- !app_assoc).
      apply IH. lia.
  - cbn [heads_acc tails head_len] in *. split.
    + exists P, (heads_acc r off ++ M ++ tails r ++ post).
      split; [|reflexivity]. now rewrite <- !app_assoc.
    + specialize (IH (P ++ b) M post off). rewrite zlen_app in IH.
      replace (P ++ (b ++ heads_acc r off) ++ M ++ tails r ++ post)
        with ((P ++ b) ++ heads_acc r off ++ M ++ tails r ++ post)
        by (now rewrite <- !app_assoc).
      apply IH. lia.
Qed.

(* the body produced by the pack loop, followed by anything, has its parts placed *)
Lemma pack_loop_placed ps off0 post :
  heads_acc ps off0 = heads_acc ps (head_len ps) ->
  parts_placed ps 0 (head_len ps) (pack_loop ps off0 [] [] ++ post).
Proof.
  intros Hh. rewrite pack_loop_eq. cbn [app]. rewrite Hh.
  pose proof (parts_placed_intro ps [] [] post (head_len ps)) as H.
  cbn [app] in H. rewrite zlen_nil in H. rewrite <- app_assoc. apply H. lia.
Qed.

(* ------------------------------------------------------------------ *)
(* type sizes under the round-trip guard                               *)

Lemma ty_rt_newtype t : ty_rt t = true -> ty_newtype t = true.
Proof.
  induction t using ty_ind'; cbn [ty_rt ty_newtype]; auto.
  - intros Hv. apply andb_true_iff in Hv as [Hv _]. auto.
  - intros Hv. apply andb_true_iff in Hv as [Hv _].
    rewrite forallb_forall in *. rewrite Forall_forall in H. auto.
Qed.

Lemma type_size_mod32 t : type_size t mod 32 = 0.
Proof.
  induction t using ty_ind'; cbn [type_size]; try reflexivity.
  - destruct (negb (dynamic t)); [|reflexivity].
    destruct t; try (apply Z.mod_mul; lia);
      rewrite Z.mul_mod, IHt, Z.mul_0_r by lia; reflexivity.
  - destruct (negb (existsb dynamic ts)); [|reflexivity].
    induction H as [|t r Ht _ IH]; [reflexivity|].
    cbn [map zsum fold_right]. fold (zsum (map type_size r)).
    rewrite Z.add_mod, Ht, IH by lia. reflexivity.
Qed.

Lemma rt_size t : ty_rt t = true -> dynamic t = false -> 32 <= type_size t.
Proof.
  induction t using ty_ind'; intros Hrt Hd; cbn [dynamic] in Hd; try discriminate;
    try (cbn [type_size]; lia).
  - rewrite type_size_fixed_static by assumption. cbn [ty_rt] in Hrt.
    apply andb_true_iff in Hrt as [Hrt Hk]. rewrite Hd in Hk. cbn [orb] in Hk.
    specialize (IHt Hrt Hd). assert (1 <= Z.of_nat k) by (destruct k; [discriminate|lia]). nia.
  - rewrite type_size_tuple_static by assumption. cbn [ty_rt] in Hrt.
    apply andb_true_iff in Hrt as [Hrt Hne].
    destruct ts as [|t r]; [discriminate|].
    cbn [existsb] in Hd. apply orb_false_iff in Hd as [Hd1 _].
    cbn [forallb] in Hrt. apply andb_true_iff in Hrt as [Hrt1 _].
    inversion H as [|? ? Ht _]; subst.
    cbn [map zsum fold_right]. fold (zsum (map type_size r)).
    assert (0 <= zsum (map type_size r)).
    { apply zsum_nonneg, Forall_map, Forall_forall. intros x _. apply type_size_nonneg. }
    specialize (Ht Hrt1 Hd1). lia.
Qed.

(* every packed component of a round-trippable type occupies at least 32 bytes *)
Lemma rt_pack_len t v b :
  ty_rt t = true -> pack t v = Ok b -> dynamic t = false -> 32 <= zlen b.
Proof.
  intros Hrt Hp Hd. rewrite (pack_static_len t v b (ty_rt_newtype t Hrt) Hp Hd).
  now apply rt_size.
Qed.

(* ------------------------------------------------------------------ *)
(* round trip: unpack (pack v) = v                                     *)

Definition dec_P (t : ty) : Prop :=
  forall v b, ty_rt t = true -> val_rt t v = true -> pack t v = Ok b ->
  forall idx off out, zlen out < 2 ^ 63 -> placedp (dynamic t) b idx off out ->
  to_go_type t idx out = Ok v.

Lemma for_each_ok e out :
  dec_P e -> ty_rt e = true -> zlen out < 2 ^ 63 ->
  forall vs ps,
  Forall2 (fun v (p : part) => fst p = dynamic e /\ pack e v = Ok (snd p)) vs ps ->
  forallb (val_rt e) vs = true ->
  forall i off, parts_placed ps i off out ->
  for_each_loop (fun i => to_go_type e i out) i (type_size e) (length vs) = Ok vs.
Proof.
  intros He Hrt Hout vs ps HF. induction HF as [|v [d b] vs' ps' [Hd Hb] _ IH]; intros Hv i off Hpl.
  - reflexivity.
  - cbn [fst snd] in *. subst d. cbn [forallb] in Hv. apply andb_true_iff in Hv as [Hv1 Hv2].
    cbn [parts_placed] in Hpl. destruct Hpl as [Hp1 Hp2].
    cbn [length for_each_loop].
    rewrite (He v b Hrt Hv1 Hb i off out Hout Hp1). cbn [bind].
    assert (Hstep : i + type_size e = i + (if dynamic e then 32 else zlen b)).
    { destruct (dynamic e) eqn:Hd; [now rewrite dynamic_type_size|].
      now rewrite (pack_static_len e v b (ty_rt_newtype e Hrt) Hb Hd). }
    rewrite Hstep, (IH Hv2 _ _ Hp2). reflexivity.
Qed.

Lemma virt_step t v b index virt :
  ty_newtype t = true -> pack t v = Ok b ->
  (index + 1 +
   match t with
   | TFixedArray _ _ | TTuple _ =>
       if negb (dynamic t) then virt + (type_size t / 32 - 1) else virt
   | _ => virt
   end) * 32 = (index + virt) * 32 + (if dynamic t then 32 else zlen b).
Proof.
  intros Hnt Hp. pose proof (type_size_mod32 t) as Hm.
  destruct (dynamic t) eqn:Hd.
  - destruct t; cbn [negb]; lia.
  - rewrite (pack_static_len t v b Hnt Hp Hd).
    destruct t; cbn [negb]; try (cbn [type_size]; lia); lia.
Qed.

Lemma unpack_fields_ok out : zlen out < 2 ^ 63 ->
  forall ts, Forall dec_P ts -> forall vs ps index virt off,
  forallb ty_rt ts = true -> forall2b val_rt ts vs = true ->
  pack_fields pack ts vs = Ok ps ->
  parts_placed ps ((index + virt) * 32) off out ->
  unpack_fields (fun e i => to_go_type e i out) ts index virt = Ok vs.
Proof.
  intros Hout ts HF. induction HF as [|t r Ht _ IH]; intros vs ps index virt off Hrt Hv Hp Hpl.
  - destruct vs; cbn in *; [reflexivity|discriminate].
  - destruct vs as [|v vs]; cbn [forall2b pack_fields] in *; [discriminate|].
    cbn [forallb] in Hrt. apply andb_true_iff in Hrt as [Hrt1 Hrt2].
    apply andb_true_iff in Hv as [Hv1 Hv2].
    apply bind_ok in Hp as (b & Hb & Hp). apply bind_ok in Hp as (ps' & Hps & Hp).
    injection Hp as <-. cbn [parts_placed] in Hpl. destruct Hpl as [Hp1 Hp2].
    cbn [unpack_fields].
    rewrite (Ht v b Hrt1 Hv1 Hb _ off out Hout Hp1). cbn [bind].
    rewrite <- (virt_step t v b index virt (ty_rt_newtype t Hrt1) Hb) in Hp2.
    rewrite (IH vs ps' _ _ _ Hrt2 Hv2 Hps Hp2). reflexivity.
Qed.

Lemma head_len_ge (ps : list part) :
  Forall (fun p : part => 32 <= (if fst p then 32 else zlen (snd p))) ps ->
  32 * zlen ps <= head_len ps.
Proof.
  induction 1 as [|[[|] b] r Hd _ IH]; cbn [head_len]; [unfold zlen; cbn; lia| |];
    cbn in Hd; rewrite zlen_cons; lia.
Qed.

Lemma elems_sizes e vs ps :
  ty_rt e = true ->
  Forall2 (fun v (p : part) => fst p = dynamic e /\ pack e v = Ok (snd p)) vs ps ->
  Forall (fun p : part => 32 <= (if fst p then 32 else zlen (snd p))) ps.
Proof.
  intros Hrt HF. induction HF as [|v [d b] vs' ps' [Hd Hb] _ IH]; constructor; [|exact IH].
  cbn [fst snd] in *. subst d. destruct (dynamic e) eqn:Hd; [lia|]. eapply rt_pack_len; eauto.
Qed.

(* forEachUnpack on the body written by the pack loop *)
Lemma each_body e vs ps post :
  dec_P e -> ty_rt e = true ->
  pack_elems (pack e) (dynamic e) vs = Ok ps ->
  forallb (val_rt e) vs = true ->
  let body := pack_loop ps (if dynamic e then type_size e * zlen vs else 0) [] [] in
  zlen (body ++ post) < 2 ^ 63 ->
  for_each_unpack (fun i => to_go_type e i (body ++ post)) (type_size e) (body ++ post) 0 (zlen vs)
  = Ok (VList vs) /\ 32 * zlen vs <= zlen body.
Proof.
  intros He Hrt Hps Hv body Hout.
  destruct (elems_parts _ _ _ _ Hps) as [Hf Hl].
  pose proof (pack_elems_inv _ _ _ _ Hps) as HF.
  assert (Hsz : 32 * zlen vs <= zlen body).
  { unfold body. rewrite zlen_pack_loop. rewrite <- Hl.
    pose proof (head_len_ge ps (elems_sizes e vs ps Hrt HF)). pose proof (zlen_nonneg (tails ps)). lia. }
  split; [|exact Hsz].
  unfold for_each_unpack. pose proof (zlen_nonneg vs).
  replace (zlen vs <? 0) with false by lia.
  rewrite zlen_app. pose proof (zlen_nonneg post).
  replace (0 + 32 * zlen vs >? zlen body + zlen post) with false by lia.
  replace (Z.to_nat (zlen vs)) with (length vs) by (unfold zlen; lia).
  rewrite (for_each_ok e (body ++ post) He Hrt Hout vs ps HF Hv 0 (head_len ps)); [reflexivity|].
  apply pack_loop_placed. now apply array_heads.
Qed.

(* forTupleUnpack / UnpackValues on the body written by the pack loop *)
Lemma tuple_body ts vs ps post :
  Forall dec_P ts -> forallb ty_rt ts = true -> forall2b val_rt ts vs = true ->
  pack_fields pack ts vs = Ok ps ->
  let body := pack_loop ps (zsum (map type_size ts)) [] [] in
  zlen (body ++ post) < 2 ^ 63 ->
  unpack_fields (fun e i => to_go_type e i (body ++ post)) ts 0 0 = Ok vs.
Proof.
  intros HF Hrt Hv Hps body Hout.
  assert (Hnt : forallb ty_newtype ts = true).
  { rewrite forallb_forall in *. intros x Hx. apply ty_rt_newtype. auto. }
  assert (Hhl : zsum (map type_size ts) = head_len ps).
  { symmetry. eapply fields_head_len; eauto. apply Forall_forall. intros t _. apply pack_static_len. }
  eapply (unpack_fields_ok _ Hout ts HF vs ps 0 0 (head_len ps)); eauto.
  cbn [Z.add Z.mul]. unfold body. apply pack_loop_placed. now rewrite Hhl.
Qed.

Lemma static_word out idx b :
  at_off out idx b -> zlen b = 32 ->
  (idx + 32 >? zlen out) = false /\ gslice out idx (idx + 32) = Ok b.
Proof.
  intros Ha Hl. pose proof (at_off_bound _ _ _ Ha). pose proof (at_off_slice _ _ _ Ha) as S.
  rewrite Hl in *. split; [lia|exact S].
Qed.

Lemma some_word out idx :
  0 <= idx -> idx + 32 <= zlen out -> exists w, gslice out idx (idx + 32) = Ok w /\ zlen w = 32.
Proof.
  intros H1 H2. destruct (slice_some out idx (idx + 32)) as (s & Hs & Hl); try lia.
  exists s. unfold gslice. rewrite Hs. split; [reflexivity|lia].
Qed.

Lemma zlen_le_app_r {A} (a b : list A) : zlen b <= zlen (a ++ b).
Proof. rewrite zlen_app. pose proof (zlen_nonneg a). lia. Qed.

Lemma dec_all t : dec_P t.
Proof.
  induction t using ty_ind'; intros v b Hrt Hv Hp idx off out Hout Hpl;
    destruct v; cbn [val_rt] in Hv; try discriminate;
    cbn [dynamic placedp] in Hpl; cbn [to_go_type].
  - (* uint *)
    cbn [pack pack_element] in Hp.
    assert (b = pack_num z) as ->.
    { destruct (native_width n); [destruct (in_unsigned n z)|destruct (z <? 0)]; congruence. }
    destruct (static_word _ _ _ Hpl (zlen_pack_num z)) as [-> ->]. cbn [bind]. now apply read_uint.
  - (* int *)
    cbn [pack pack_element] in Hp.
    assert (b = pack_num z) as ->.
    { destruct (native_width n); [destruct (in_signed n z)|]; congruence. }
    destruct (static_word _ _ _ Hpl (zlen_pack_num z)) as [-> ->]. cbn [bind]. now apply read_int.
  - (* bool *)
    cbn [pack pack_element] in Hp. injection Hp as <-.
    destruct (static_word _ _ _ Hpl (zlen_pack_num _)) as [-> ->]. cbn [bind]. apply read_bool_pack.
  - (* address *)
    cbn [pack pack_element] in Hp. apply andb_true_iff in Hv as [Hl Hb].
    rewrite Hl in Hp. injection Hp as <-. apply Nat.eqb_eq in Hl.
    assert (E : left_pad bs 32 = zeros 12 ++ bs) by (unfold left_pad; now rewrite Hl).
    rewrite E in *.
    assert (Hz : zlen (zeros 12 ++ bs) = 32) by (rewrite zlen_app, zlen_zeros; unfold zlen; lia).
    destruct (static_word _ _ _ Hpl Hz) as [-> ->]. cbn [bind].
    unfold bytes_to_address. rewrite Hz.
    pose proof (slice_app_mid (zeros 12) bs []) as S. rewrite app_nil_r in S.
    rewrite zlen_zeros in S. unfold gslice.
    replace (32 - 20) with (Z.of_nat 12) by lia.
    replace (Z.of_nat 12 + zlen bs) with 32 in S by (unfold zlen; lia).
    now rewrite S.
  - (* bytes<n> *)
    cbn [pack pack_element] in Hp. apply andb_true_iff in Hv as [Hl Hb].
    rewrite Hl in Hp. injection Hp as <-. cbn [ty_rt] in Hrt.
    assert (Hz : zlen (right_pad bs 32) = 32) by (apply right_pad_len; lia).
    destruct (static_word _ _ _ Hpl Hz) as [-> ->]. cbn [bind].
    unfold read_fixed_bytes, right_pad.
    pose proof (slice_app_mid [] bs (zeros (32 - length bs))) as S. cbn [app] in S.
    rewrite zlen_nil in S. unfold gslice.
    replace (Z.of_N n) with (0 + zlen bs) by (unfold zlen; lia). now rewrite S.
  - (* bytes *)
    cbn [pack pack_element] in Hp. injection Hp as <-. destruct Hpl as [Hw Hb].
    pose proof (at_off_bound _ _ _ Hw) as Bw. rewrite zlen_pack_num in Bw.
    replace (idx + 32 >? zlen out) with false by lia.
    unfold pack_bytes_slice, right_pad in Hb.
    rewrite (lpp_placed out idx off (zlen bs) _ Hout Hw Hb)
      by (rewrite zlen_app; pose proof (zlen_nonneg bs); pose proof (zlen_nonneg (zeros ((length bs + 31) / 32 * 32 - length bs))); lia).
    cbn [bind].
    apply at_off_app_r in Hb. rewrite zlen_pack_num in Hb. apply at_off_app_l in Hb.
    now rewrite (at_off_slice _ _ _ Hb).
  - (* string *)
    cbn [pack pack_element] in Hp. injection Hp as <-. destruct Hpl as [Hw Hb].
    pose proof (at_off_bound _ _ _ Hw) as Bw. rewrite zlen_pack_num in Bw.
    replace (idx + 32 >? zlen out) with false by lia.
    unfold pack_bytes_slice, right_pad in Hb.
    rewrite (lpp_placed out idx off (zlen bs) _ Hout Hw Hb)
      by (rewrite zlen_app; pose proof (zlen_nonneg bs); pose proof (zlen_nonneg (zeros ((length bs + 31) / 32 * 32 - length bs))); lia).
    cbn [bind].
    apply at_off_app_r in Hb. rewrite zlen_pack_num in Hb. apply at_off_app_l in Hb.
    now rewrite (at_off_slice _ _ _ Hb).
  - (* T[] *)
    cbn [ty_rt] in Hrt. cbn [pack] in Hp.
    apply bind_ok in Hp as (ps & Hps & Hp). injection Hp as <-.
    destruct Hpl as [Hw Hb].
    pose proof (at_off_bound _ _ _ Hw) as Bw. rewrite zlen_pack_num in Bw.
    replace (idx + 32 >? zlen out) with false by lia.
    rewrite pack_loop_eq in Hb. cbn [app] in Hb.
    set (offset := if dynamic t then type_size t * zlen vs else 0) in *.
    assert (Eb : heads_acc ps offset ++ tails ps = pack_loop ps offset [] [])
      by (now rewrite pack_loop_eq).
    rewrite Eb in Hb.
    pose proof (at_off_app_r _ _ _ _ Hb) as Hbody. rewrite zlen_pack_num in Hbody.
    destruct (at_off_suffix _ _ _ Hbody) as [post Hsuf].
    pose proof (at_off_bound _ _ _ Hbody) as Bbody.
    assert (Hsl : zlen (pack_loop ps offset [] [] ++ post) < 2 ^ 63).
    { apply gslice_ok in Hsuf as (Hl & _). lia. }
    destruct (each_body t vs ps post IHt Hrt Hps Hv Hsl) as [Hdec Hsz]. fold offset in Hdec, Hsz.
    rewrite (lpp_placed out idx off (zlen vs) _ Hout Hw Hb)
      by (pose proof (zlen_nonneg vs); lia).
    cbn [bind]. rewrite Hsuf. cbn [bind]. exact Hdec.
  - (* T[k] *)
    cbn [ty_rt] in Hrt. apply andb_true_iff in Hrt as [Hrt Hk].
    apply andb_true_iff in Hv as [Hlen Hv].
    pose proof Hp as Hp0. cbn [pack] in Hp. rewrite Hlen in Hp.
    apply bind_ok in Hp as (ps & Hps & Hp). injection Hp as <-.
    apply Nat.eqb_eq in Hlen. subst k.
    set (offset := if dynamic t then type_size t * zlen vs else 0) in *.
    destruct (dynamic t) eqn:Hd.
    + destruct Hpl as [Hw Hb].
      pose proof (at_off_bound _ _ _ Hw) as Bw. rewrite zlen_pack_num in Bw.
      pose proof (at_off_bound _ _ _ Hb) as Bb. pose proof (zlen_nonneg (pack_loop ps offset [] [])).
      replace (idx + 32 >? zlen out) with false by lia.
      pose proof (at_off_slice _ _ _ Hw) as Sw. rewrite zlen_pack_num in Sw. rewrite Sw. cbn [bind].
      destruct (last8_pack_num off) as (w8 & Hw8 & Hval); [lia|].
      rewrite Hw8. cbn [bind]. rewrite Hval.
      replace (off >? zlen out) with false by lia.
      destruct (at_off_suffix _ _ _ Hb) as [post Hsuf]. rewrite Hsuf. cbn [bind].
      assert (Hsl : zlen (pack_loop ps offset [] [] ++ post) < 2 ^ 63).
      { apply gslice_ok in Hsuf as (Hl & _). lia. }
      rewrite <- Hd in Hps.
      pose proof (each_body t vs ps post IHt Hrt Hps Hv) as HB. cbv zeta in HB.
      rewrite Hd in HB. exact (proj1 (HB Hsl)).
    + pose proof (at_off_bound _ _ _ Hpl) as Bb.
      assert (Hge : 32 <= zlen (pack_loop ps offset [] [])).
      { eapply (rt_pack_len (TFixedArray (length vs) t)); [|exact Hp0|cbn [dynamic]; exact Hd].
        cbn [ty_rt]. rewrite Hrt, Hd. exact Hk. }
      replace (idx + 32 >? zlen out) with false by lia.
      destruct (some_word out idx) as (w & -> & _); [lia|lia|]. cbn [bind].
      destruct (at_off_suffix _ _ _ Hpl) as [post Hsuf]. rewrite Hsuf. cbn [bind].
      assert (Hsl : zlen (pack_loop ps offset [] [] ++ post) < 2 ^ 63).
      { apply gslice_ok in Hsuf as (Hl & _). lia. }
      rewrite <- Hd in Hps.
      pose proof (each_body t vs ps post IHt Hrt Hps Hv) as HB. cbv zeta in HB.
      rewrite Hd in HB. exact (proj1 (HB Hsl)).
  - (* tuple *)
    cbn [ty_rt] in Hrt. apply andb_true_iff in Hrt as [Hrt Hne].
    pose proof Hp as Hp0. cbn [pack] in Hp.
    apply bind_ok in Hp as (ps & Hps & Hp). injection Hp as <-.
    destruct (existsb dynamic ts) eqn:Hd.
    + destruct Hpl as [Hw Hb].
      pose proof (at_off_bound _ _ _ Hw) as Bw. rewrite zlen_pack_num in Bw.
      replace (idx + 32 >? zlen out) with false by lia.
      pose proof (at_off_slice _ _ _ Hw) as Sw. rewrite zlen_pack_num in Sw. rewrite Sw. cbn [bind].
      rewrite (tpt_placed out idx off _ Hout Hw Hb). cbn [bind].
      destruct (at_off_suffix _ _ _ Hb) as [post Hsuf]. rewrite Hsuf. cbn [bind].
      assert (Hsl : zlen (pack_loop ps (zsum (map type_size ts)) [] [] ++ post) < 2 ^ 63).
      { apply gslice_ok in Hsuf as (Hl & _). pose proof (at_off_bound _ _ _ Hb). lia. }
      now rewrite (tuple_body ts vs ps post H Hrt Hv Hps Hsl).
    + pose proof (at_off_bound _ _ _ Hpl) as Bb.
      assert (Hge : 32 <= zlen (pack_loop ps (zsum (map type_size ts)) [] [])).
      { eapply (rt_pack_len (TTuple ts)); [|exact Hp0|cbn [dynamic]; exact Hd].
        cbn [ty_rt]. now rewrite Hrt, Hne. }
      replace (idx + 32 >? zlen out) with false by lia.
      destruct (some_word out idx) as (w & -> & _); [lia|lia|]. cbn [bind].
      destruct (at_off_suffix _ _ _ Hpl) as [post Hsuf]. rewrite Hsuf. cbn [bind].
      assert (Hsl : zlen (pack_loop ps (zsum (map type_size ts)) [] [] ++ post) < 2 ^ 63).
      { apply gslice_ok in Hsuf as (Hl & _). lia. }
      now rewrite (tuple_body ts vs ps post H Hrt Hv Hps Hsl).
Qed.

(* ------------------------------------------------------------------ *)
(* top level                                                           *)

Lemma fields_head_ge ts : forall vs ps,
  forallb ty_rt ts = true -> pack_fields pack ts vs = Ok ps -> ts <> [] -> 32 <= head_len ps.
Proof.
  intros vs ps Hrt Hp Hne. destruct ts as [|t r]; [congruence|].
  destruct vs as [|v vs]; cbn [pack_fields] in Hp; [discriminate|].
  cbn [forallb] in Hrt. apply andb_true_iff in Hrt as [Hrt1 _].
  apply bind_ok in Hp as (b & Hb & Hp). apply bind_ok in Hp as (ps' & Hps & Hp).
  injection Hp as <-. pose proof (head_len_nonneg ps').
  destruct (dynamic t) eqn:Hd; cbn [head_len]; [lia|].
  pose proof (rt_pack_len t v b Hrt1 Hb Hd). lia.
Qed.

Lemma unpack_pack_args ts vs b :
  forallb ty_rt ts = true -> forall2b val_rt ts vs = true ->
  pack_args ts vs = Ok b -> zlen b < 2 ^ 63 ->
  unpack_args ts b = Ok vs.
Proof.
  intros Hrt Hv Hp Hlen. unfold pack_args in Hp.
  apply bind_ok in Hp as (ps & Hps & Hp). injection Hp as <-.
  set (body := pack_loop ps (zsum (map type_size ts)) [] []) in *.
  assert (HF : Forall dec_P ts) by (apply Forall_forall; intros t _; apply dec_all).
  assert (Hb : unpack_fields (fun e i => to_go_type e i body) ts 0 0 = Ok vs).
  { pose proof (tuple_body ts vs ps [] HF Hrt Hv Hps) as H. cbv zeta in H.
    rewrite app_nil_r in H. apply H. exact Hlen. }
  unfold unpack_args, unpack_values. destruct body as [|x body'] eqn:Eb; [|exact Hb].
  destruct ts as [|t r].
  - destruct vs; cbn in Hps; [reflexivity|discriminate].
  - exfalso. assert (H32 : 32 <= head_len ps) by (eapply fields_head_ge; eauto; discriminate).
    assert (Hz : zlen body = head_len ps + zlen (tails ps)) by apply zlen_pack_loop.
    rewrite Eb, zlen_nil in Hz. pose proof (zlen_nonneg (tails ps)). lia.
Qed.

Lemma in_unsigned_width n z :
  (n <= 256)%N -> in_unsigned n z = true -> in_unsigned (int_width n) z = true.
Proof.
  unfold int_width. destruct (native_width n); [auto|]. unfold in_unsigned. intros Hn H.
  assert (2 ^ Z.of_N n <= 2 ^ Z.of_N 256) by (apply Z.pow_le_mono_r; lia). lia.
Qed.

Lemma in_signed_width n z :
  (1 <= n)%N -> (n <= 256)%N -> in_signed n z = true -> in_signed (int_width n) z = true.
Proof.
  unfold int_width. destruct (native_width n); [auto|]. unfold in_signed. intros H1 Hn H.
  assert (2 ^ (Z.of_N n - 1) <= 2 ^ (Z.of_N 256 - 1)) by (apply Z.pow_le_mono_r; lia). lia.
Qed.

Lemma forallb_impl {A} (f g : A -> bool) l :
  (forall x, f x = true -> g x = true) -> forallb f l = true -> forallb g l = true.
Proof. intros H. rewrite !forallb_forall. auto. Qed.

(* ABI-typed values are Go-representable *)
Lemma wf_val_rt t : forall v, ty_valid t = true -> wf_value t v = true -> val_rt t v = true.
Proof.
  induction t using ty_ind'; intros v Hv Hw; destruct v; cbn [wf_value] in Hw; try discriminate;
    cbn [val_rt]; cbn [ty_valid] in Hv; auto.
  - apply in_unsigned_width; [lia|exact Hw].
  - apply in_signed_width; [lia|lia|exact Hw].
  - eapply forallb_impl; [|exact Hw]. auto.
  - apply andb_true_iff in Hw as [-> Hw]. cbn [andb]. eapply forallb_impl; [|exact Hw]. auto.
  - revert vs Hw. induction H as [|t r Ht _ IH]; intros [|v vs] Hw; cbn [forall2b] in *; auto.
    cbn [forallb] in Hv. apply andb_true_iff in Hv as [Hv1 Hv2].
    apply andb_true_iff in Hw as [H1 H2]. rewrite (Ht _ Hv1 H1). cbn [andb]. auto.
Qed.

Lemma ty_rt_valid t : ty_rt t = true -> ty_valid t = true.
Proof.
  induction t using ty_ind'; cbn [ty_rt ty_valid]; auto.
  - intros Hv. apply andb_true_iff in Hv as [Hv _]. auto.
  - intros Hv. apply andb_true_iff in Hv as [Hv _].
    rewrite forallb_forall in *. rewrite Forall_forall in H. auto.
Qed.

Lemma forallb_rt_valid ts : forallb ty_rt ts = true -> forallb ty_valid ts = true.
Proof. apply forallb_impl. apply ty_rt_valid. Qed.

(* the property at the level of Arguments.Pack / Arguments.Unpack *)
Lemma unpack_pack_wf ts vs :
  forallb ty_rt ts = true -> forall2b wf_value ts vs = true ->
  exists b, enc_args ts vs = Some b /\ pack_args ts vs = Ok b /\
            (zlen b < 2 ^ 63 -> unpack_args ts b = Ok vs).
Proof.
  intros Hrt Hw. pose proof (forallb_rt_valid ts Hrt) as Hval.
  destruct (enc_total (TTuple ts) (VList vs) Hw) as [b He].
  pose proof (pack_args_eq_spec ts vs b Hval He) as Hp.
  exists b. split; [exact He|]. split; [exact Hp|]. intros Hlen.
  apply unpack_pack_args; auto.
  exact (wf_val_rt (TTuple ts) (VList vs) Hval Hw).
Qed.

(* ------------------------------------------------------------------ *)
(* which padding the decoder checks: elementary types, one word        *)

Lemma gslice_eq l lo hi :
  0 <= lo -> lo <= hi -> hi <= zlen l ->
  gslice l lo hi = Ok (firstn (Z.to_nat (hi - lo)) (skipn (Z.to_nat lo) l)).
Proof.
  intros. unfold gslice, slice.
  replace ((0 <=? lo) && (lo <=? hi) && (hi <=? zlen l)) with true by lia. reflexivity.
Qed.

Lemma gslice_all l : gslice l 0 (zlen l) = Ok l.
Proof.
  rewrite gslice_eq by (pose proof (zlen_nonneg l); lia).
  cbn [Z.to_nat skipn]. rewrite Z.sub_0_r. unfold zlen. rewrite Nat2Z.id. now rewrite firstn_all.
Qed.

Lemma pack_num_be_val w : zlen w = 32 -> forallb byteb w = true ->
  forall z, z mod 2 ^ 256 = Z.of_N (be_val w) -> pack_num z = w.
Proof.
  intros Hl Hb z Hz. unfold pack_num. rewrite Hz, N2Z.id.
  replace 32%nat with (length w) by (unfold zlen in Hl; lia). now apply be_bytes_be_val.
Qed.

Lemma be_val_word_bound w : zlen w = 32 -> forallb byteb w = true ->
  0 <= Z.of_N (be_val w) < 2 ^ 256.
Proof.
  intros Hl Hb. pose proof (be_val_bound w Hb) as H.
  replace (length w) with 32%nat in H by (unfold zlen in Hl; lia).
  rewrite pow256_32 in H. lia.
Qed.

Lemma Ok_inj {A} (a b : A) : Ok a = Ok b -> a = b.
Proof. intros H. now inversion H. Qed.

Lemma read_uint_inv n w v :
  read_integer true n w = Ok v ->
  v = VInt (Z.of_N (be_val w)) /\
  (native_width n = true -> in_unsigned n (Z.of_N (be_val w)) = true).
Proof.
  destruct (native_width n) eqn:En.
  - unfold read_integer, in_unsigned.
    destruct (native_cases n En) as [->|[->|[->| ->]]]; cbn [Z.of_N];
      (dif; [discriminate|]); intros [= <-]; (split; [reflexivity|]); intros _; lia.
  - rewrite read_uint_big by assumption. intros [= <-]. split; [reflexivity|discriminate].
Qed.

Lemma read_int_inv n w v :
  read_integer false n w = Ok v ->
  let x := Z.of_N (be_val w) in
  let z := if Z.testbit x 255 then - (((2 ^ 256 - 1) + (- x)) + 1) else x in
  v = VInt z /\ (native_width n = true -> in_signed n z = true).
Proof.
  cbv zeta. destruct (native_width n) eqn:En.
  - unfold read_integer, in_signed.
    set (z := if Z.testbit _ 255 then _ else _). clearbody z.
    destruct (native_cases n En) as [->|[->|[->| ->]]]; cbn [Z.of_N];
      (dif; [discriminate|]); intros [= <-]; (split; [reflexivity|]); intros _; lia.
  - rewrite read_int_big by assumption. cbv zeta. intros H. apply Ok_inj in H.
    split; [now symmetry|discriminate].
Qed.

Lemma all_zero_zeros l :
  existsb (fun b => negb (b =? 0)%N) l = false -> l = zeros (length l).
Proof.
  induction l as [|x l IH]; cbn [existsb length]; [reflexivity|]. intros H.
  apply orb_false_iff in H as [Hx Hl]. cbn [zeros repeat]. f_equal; [lia|]. now apply IH.
Qed.

Lemma read_bool_inv w v : zlen w = 32 -> read_bool w = Ok v ->
  exists b : bool, v = VBool b /\ w = pack_num (if b then 1 else 0).
Proof.
  intros Hl. unfold read_bool. rewrite gslice_eq by lia. cbn [bind Z.to_nat skipn].
  change (Z.to_nat (31 - 0)) with 31%nat.
  destruct (existsb _ (firstn 31 w)) eqn:Ez; [discriminate|].
  apply all_zero_zeros in Ez. rewrite firstn_length in Ez.
  replace (Nat.min 31 (length w)) with 31%nat in Ez by (unfold zlen in Hl; lia).
  destruct (nth_error w 31) as [x|] eqn:En; [|discriminate].
  assert (Hw : w = zeros 31 ++ [x]).
  { rewrite <- (firstn_skipn 31 w) at 1. rewrite Ez. f_equal.
    apply nth_error_split in En as (l1 & l2 & -> & Hl1).
    rewrite skipn_app, skipn_all2 by lia. rewrite Hl1, Nat.sub_diag. cbn [skipn app].
    unfold zlen in Hl. rewrite app_length in Hl. cbn [length] in Hl.
    destruct l2; [reflexivity|cbn [length] in Hl; lia]. }
  destruct x as [|[p|p|]]; try discriminate; intros [= <-].
  - exists false. split; [reflexivity|]. rewrite Hw. reflexivity.
  - exists true. split; [reflexivity|]. rewrite Hw. reflexivity.
Qed.

Lemma canonical_word t w v :
  zlen w = 32 -> forallb byteb w = true -> to_go_type t 0 w = Ok v ->
  match t with
  | TUInt _ | TInt _ | TBool => pack t v = Ok w
  | TAddress => pack t v = Ok (zeros 12 ++ skipn 12 w)
  | TFixedBytes n => (n <= 32)%N -> pack t v = Ok (firstn (N.to_nat n) w ++ zeros (32 - N.to_nat n))
  | _ => True
  end.
Proof.
  intros Hl Hb. pose proof (be_val_word_bound w Hl Hb) as Hx.
  destruct t; try exact (fun _ => I); cbn [to_go_type]; rewrite Hl; cbn [Z.add Z.gtb Z.compare Pos.compare Pos.compare_cont];
    change (0 + 32) with 32; rewrite <- Hl at 1; rewrite gslice_all; cbn [bind]; intros H.
  - apply read_uint_inv in H as [-> Hr]. cbn [pack pack_element].
    rewrite (pack_num_be_val w Hl Hb) by (apply Z.mod_small; lia).
    destruct (native_width n); [now rewrite Hr|]. now replace (Z.of_N (be_val w) <? 0) with false by lia.
  - apply read_int_inv in H as [-> Hr]. cbn [pack pack_element].
    set (x := Z.of_N (be_val w)) in *.
    rewrite (pack_num_be_val w Hl Hb).
    + destruct (native_width n); [now rewrite Hr|reflexivity].
    + fold x. rewrite testbit_255 by assumption.
      destruct (2 ^ 255 <=? x) eqn:E.
      * replace (- (2 ^ 256 - 1 + - x + 1)) with (x + (-1) * 2 ^ 256) by lia.
        rewrite Z.mod_add by lia. apply Z.mod_small; lia.
      * apply Z.mod_small; lia.
  - apply read_bool_inv in H as (b & -> & Hw); [|exact Hl]. cbn [pack pack_element]. now rewrite <- Hw.
  - unfold bytes_to_address in H. rewrite Hl in H.
    apply bind_ok in H as (a & Ha & H). apply Ok_inj in H. subst v.
    rewrite gslice_eq in Ha by lia. apply Ok_inj in Ha. subst a.
    replace (Z.to_nat (32 - (32 - 20))) with 20%nat by lia.
    replace (Z.to_nat (32 - 20)) with 12%nat by lia.
    assert (Hsl : length (skipn 12 w) = 20%nat) by (rewrite skipn_length; unfold zlen in Hl; lia).
    rewrite firstn_all2 by lia. cbn [pack pack_element]. rewrite Hsl. cbn [Nat.eqb].
    unfold left_pad. now rewrite Hsl.
  - intros Hn. unfold read_fixed_bytes in H.
    apply bind_ok in H as (a & Ha & H). apply Ok_inj in H. subst v.
    rewrite gslice_eq in Ha by lia. apply Ok_inj in Ha. subst a.
    replace (Z.to_nat 0) with 0%nat by lia. rewrite Z.sub_0_r.
    replace (Z.to_nat (Z.of_N n)) with (N.to_nat n) by lia.
    change (skipn 0 w) with w.
    cbn [pack pack_element].
    assert (Hfl : length (firstn (N.to_nat n) w) = N.to_nat n)
      by (rewrite firstn_length; unfold zlen in Hl; lia).
    rewrite Hfl, N2Nat.id, N.eqb_refl. unfold right_pad. now rewrite Hfl.
Qed.

(* ------------------------------------------------------------------ *)
(* canonical prefix for a dynamic leaf under the canonical-offset       *)
(* hypothesis: bytes/string as sole argument, offset word = 32          *)

Lemma canonical_bytes l rest :
  0 <= l <= zlen rest -> zlen rest + 64 < 2 ^ 63 ->
  let out := pack_num 32 ++ pack_num l ++ rest in
  let c := firstn (Z.to_nat l) rest in
  unpack_args [TBytes] out = Ok [VBytes c] /\
  pack_args [TBytes] [VBytes c] =
    Ok (pack_num 32 ++ pack_num l ++ c ++ zeros (Z.to_nat ((32 - l mod 32) mod 32))).
Proof.
  intros Hl Hb out c.
  assert (Hc : zlen c = l).
  { unfold c, zlen in *. rewrite firstn_length. lia. }
  assert (Hrest : rest = c ++ skipn (Z.to_nat l) rest) by (unfold c; now rewrite firstn_skipn).
  assert (Hout : zlen out < 2 ^ 63).
  { unfold out. rewrite !zlen_app, !zlen_pack_num. lia. }
  assert (Hw : at_off out 0 (pack_num 32)) by (apply at_off_0).
  assert (Hbody : at_off out 32 (pack_num l ++ rest)).
  { exists (pack_num 32), (@nil N). split; [unfold out; now rewrite app_nil_r|apply zlen_pack_num]. }
  split.
  - unfold unpack_args, unpack_values. destruct out as [|x o'] eqn:Eo.
    { exfalso. unfold out in Eo. pose proof (zlen_pack_num 32) as Z32.
      destruct (pack_num 32); [rewrite zlen_nil in Z32; lia|discriminate]. }
    rewrite <- Eo in *. cbn [unpack_fields]. cbn [Z.add Z.mul].
    cbn [to_go_type].
    pose proof (at_off_bound _ _ _ Hw) as Bw. rewrite zlen_pack_num in Bw.
    replace (0 + 32 >? zlen out) with false by lia.
    rewrite (lpp_placed out 0 32 l rest Hout Hw Hbody Hl). cbn [bind].
    apply at_off_app_r in Hbody. rewrite zlen_pack_num in Hbody.
    rewrite Hrest in Hbody. apply at_off_app_l in Hbody.
    pose proof (at_off_slice _ _ _ Hbody) as S. rewrite Hc in S.
    change (32 + 32) with 64 in *. rewrite S. reflexivity.
  - unfold pack_args. cbn [pack_fields pack pack_element bind dynamic].
    cbn [map type_size zsum fold_right pack_loop]. cbn [app].
    change (32 + 0) with 32. do 2 f_equal.
    rewrite pack_bytes_spec. unfold spec_bytes. rewrite Hc.
    now rewrite <- pack_num_spec by lia.
Qed.
