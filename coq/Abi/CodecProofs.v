(* Abi/CodecProofs.v — lemmas about the model Abi/Codec.v (C51). *)
From GV Require Import Lib.Tactics Abi.Types Abi.Codec.
Local Open Scope Z_scope.

(* ------------------------------------------------------------------ *)
(* induction on types with the nested list                             *)

Section TyInd.
  Variable P : ty -> Prop.
  Hypothesis HU : forall n, P (TUInt n).
  Hypothesis HI : forall n, P (TInt n).
  Hypothesis HB : P TBool.
  Hypothesis HAd : P TAddress.
  Hypothesis HFB : forall n, P (TFixedBytes n).
  Hypothesis HBy : P TBytes.
  Hypothesis HS : P TString.
  Hypothesis HA : forall e, P e -> P (TArray e).
  Hypothesis HF : forall k e, P e -> P (TFixedArray k e).
  Hypothesis HT : forall ts, Forall P ts -> P (TTuple ts).
  Fixpoint ty_ind' (t : ty) : P t :=
    match t with
    | TUInt n => HU n | TInt n => HI n | TBool => HB | TAddress => HAd
    | TFixedBytes n => HFB n | TBytes => HBy | TString => HS
    | TArray e => HA e (ty_ind' e)
    | TFixedArray k e => HF k e (ty_ind' e)
    | TTuple ts =>
        HT ts ((fix go (ts : list ty) : Forall P ts :=
                  match ts with
                  | [] => Forall_nil P
                  | t :: r => Forall_cons t (ty_ind' t) (go r)
                  end) ts)
    end.
End TyInd.

(* ------------------------------------------------------------------ *)
(* bytes                                                               *)

Lemma zlen_app {A} (a b : list A) : zlen (a ++ b) = zlen a + zlen b.
Proof. unfold zlen. rewrite app_length. lia. Qed.

Lemma zlen_nonneg {A} (a : list A) : 0 <= zlen a.
Proof. unfold zlen. lia. Qed.

Lemma zlen_nil {A} : zlen (@nil A) = 0.
Proof. reflexivity. Qed.

Lemma zlen_cons {A} (x : A) l : zlen (x :: l) = 1 + zlen l.
Proof. unfold zlen. cbn [length]. lia. Qed.

Lemma be_bytes_length n z : length (be_bytes n z) = n.
Proof.
  revert z. induction n as [|n IH]; intros z; cbn [be_bytes]; [reflexivity|].
  rewrite app_length, IH. cbn. lia.
Qed.

Lemma zlen_be_bytes n z : zlen (be_bytes n z) = Z.of_nat n.
Proof. unfold zlen. now rewrite be_bytes_length. Qed.

Lemma be_val_snoc l b : be_val (l ++ [b]) = (be_val l * 256 + b)%N.
Proof. unfold be_val. now rewrite fold_left_app. Qed.

Lemma be_val_be_bytes n z : be_val (be_bytes n z) = (z mod 256 ^ N.of_nat n)%N.
Proof.
  revert z. induction n as [|n IH]; intros z.
  - cbn. now rewrite N.mod_1_r.
  - cbn [be_bytes]. rewrite be_val_snoc, IH.
    replace (N.of_nat (S n)) with (N.succ (N.of_nat n)) by lia.
    rewrite N.pow_succ_r'.
    assert (H : (256 ^ N.of_nat n <> 0)%N) by (apply N.pow_nonzero; lia).
    rewrite N.mod_mul_r by lia.
    lia.
Qed.

Lemma be_bytes_mod n z : be_bytes n (z mod 256 ^ N.of_nat n)%N = be_bytes n z.
Proof.
  revert z. induction n as [|n IH]; intros z; [reflexivity|].
  cbn [be_bytes].
  replace (N.of_nat (S n)) with (N.succ (N.of_nat n)) by lia.
  rewrite N.pow_succ_r'.
  assert (H : (256 ^ N.of_nat n <> 0)%N) by (apply N.pow_nonzero; lia).
  rewrite N.mod_mul_r by lia.
  set (q := ((z / 256) mod 256 ^ N.of_nat n)%N).
  assert (Hlt : (z mod 256 < 256)%N) by (apply N.mod_lt; lia).
  replace ((z mod 256 + 256 * q) / 256)%N with q.
  2:{ generalize dependent (z mod 256)%N. intros r Hr. lia. }
  replace ((z mod 256 + 256 * q) mod 256)%N with (z mod 256)%N.
  2:{ generalize dependent (z mod 256)%N. intros r Hr. lia. }
  unfold q. now rewrite IH.
Qed.

Lemma be_bytes_byteb n z : forallb byteb (be_bytes n z) = true.
Proof.
  revert z. induction n as [|n IH]; intros z; [reflexivity|].
  cbn [be_bytes]. rewrite forallb_app, IH. cbn. unfold byteb.
  assert ((z mod 256 < 256)%N) by (apply N.mod_lt; lia). lia.
Qed.

Lemma be_bytes_be_val l :
  forallb byteb l = true -> be_bytes (length l) (be_val l) = l.
Proof.
  induction l as [|b l IH] using rev_ind; intros H; [reflexivity|].
  rewrite forallb_app in H. apply andb_true_iff in H as [Hl Hb].
  cbn in Hb. unfold byteb in Hb.
  rewrite app_length. cbn [length]. rewrite Nat.add_1_r. cbn [be_bytes].
  rewrite be_val_snoc.
  replace ((be_val l * 256 + b) / 256)%N with (be_val l).
  2:{ lia. }
  replace ((be_val l * 256 + b) mod 256)%N with b.
  2:{ lia. }
  now rewrite IH.
Qed.

Lemma be_val_bound l :
  forallb byteb l = true -> (be_val l < 256 ^ N.of_nat (length l))%N.
Proof.
  intros H. rewrite <- (be_bytes_be_val l H) at 1.
  rewrite be_val_be_bytes. apply N.mod_lt. apply N.pow_nonzero. lia.
Qed.

Lemma pow256_32 : (256 ^ N.of_nat 32 = 2 ^ 256)%N.
Proof. reflexivity. Qed.

(* packNum of a non-negative number is the spec word, whatever its size *)
Lemma pack_num_spec z : 0 <= z -> pack_num z = spec_word z.
Proof.
  intros H. unfold pack_num, spec_word.
  rewrite <- (be_bytes_mod 32 (Z.to_N z)). f_equal.
  rewrite pow256_32. rewrite Z2N.inj_mod by lia. reflexivity.
Qed.

Lemma zlen_pack_num z : zlen (pack_num z) = 32.
Proof. unfold pack_num. now rewrite zlen_be_bytes. Qed.

Lemma zlen_spec_word z : zlen (spec_word z) = 32.
Proof. unfold spec_word. now rewrite zlen_be_bytes. Qed.

Lemma be_val_pack_num z : 0 <= z < 2 ^ 256 -> Z.of_N (be_val (pack_num z)) = z.
Proof.
  intros H. unfold pack_num. rewrite be_val_be_bytes, pow256_32.
  rewrite Z.mod_small by lia. rewrite N.mod_small; lia.
Qed.

Lemma zeros_length n : length (zeros n) = n.
Proof. apply repeat_length. Qed.

Lemma zlen_zeros n : zlen (zeros n) = Z.of_nat n.
Proof. unfold zlen. now rewrite zeros_length. Qed.

(* ------------------------------------------------------------------ *)
(* slices                                                              *)

Lemma slice_app_mid pre b post :
  slice (pre ++ b ++ post) (zlen pre) (zlen pre + zlen b) = Some b.
Proof.
  unfold slice. rewrite !zlen_app.
  pose proof (zlen_nonneg pre). pose proof (zlen_nonneg b). pose proof (zlen_nonneg post).
  replace ((0 <=? zlen pre) && (zlen pre <=? zlen pre + zlen b)
           && (zlen pre + zlen b <=? zlen pre + (zlen b + zlen post))) with true by lia.
  f_equal. unfold zlen. rewrite Nat2Z.id.
  rewrite skipn_app, skipn_all, Nat.sub_diag. cbn [skipn app].
  replace (Z.to_nat (Z.of_nat (length pre) + Z.of_nat (length b) - Z.of_nat (length pre)))
    with (length b + 0)%nat by lia.
  rewrite firstn_app_2. cbn. apply app_nil_r.
Qed.

Lemma slice_suffix pre rest :
  slice (pre ++ rest) (zlen pre) (zlen (pre ++ rest)) = Some rest.
Proof.
  pose proof (slice_app_mid pre rest []) as H. rewrite app_nil_r in H.
  rewrite zlen_app. exact H.
Qed.

Lemma slice_some l lo hi :
  0 <= lo -> lo <= hi -> hi <= zlen l -> exists s, slice l lo hi = Some s /\ zlen s = hi - lo.
Proof.
  intros H1 H2 H3. unfold slice.
  replace ((0 <=? lo) && (lo <=? hi) && (hi <=? zlen l)) with true by lia.
  eexists. split; [reflexivity|].
  unfold zlen in *. rewrite firstn_length, skipn_length. lia.
Qed.

Lemma slice_length l lo hi s : slice l lo hi = Some s -> zlen s = hi - lo.
Proof.
  unfold slice. destruct ((0 <=? lo) && (lo <=? hi) && (hi <=? zlen l)) eqn:E; [|discriminate].
  intros [= <-]. unfold zlen in *. rewrite firstn_length, skipn_length. lia.
Qed.

Lemma forallb_firstn {A} (f : A -> bool) n l : forallb f l = true -> forallb f (firstn n l) = true.
Proof.
  revert l. induction n as [|n IH]; intros [|x l] H; cbn in *; try reflexivity.
  apply andb_true_iff in H as [-> H]. cbn. auto.
Qed.

Lemma forallb_skipn {A} (f : A -> bool) n l : forallb f l = true -> forallb f (skipn n l) = true.
Proof.
  revert l. induction n as [|n IH]; intros [|x l] H; cbn in *; try reflexivity; auto.
  apply andb_true_iff in H as [_ H]. auto.
Qed.

Lemma slice_byteb l lo hi s :
  forallb byteb l = true -> slice l lo hi = Some s -> forallb byteb s = true.
Proof.
  unfold slice. destruct (_ && _); [|discriminate]. intros H [= <-].
  now apply forallb_firstn, forallb_skipn.
Qed.

(* ------------------------------------------------------------------ *)
(* the pack loop, functionally                                         *)

Fixpoint heads_acc (ps : list part) (off : Z) : list N :=
  match ps with
  | [] => []
  | (true, b) :: r => pack_num off ++ heads_acc r (off + zlen b)
  | (false, b) :: r => b ++ heads_acc r off
  end.

Lemma pack_loop_eq ps : forall off ret tail,
  pack_loop ps off ret tail = ret ++ heads_acc ps off ++ tail ++ tails ps.
Proof.
  induction ps as [|[[|] b] r IH]; intros off ret tail; cbn [pack_loop heads_acc tails].
  - now rewrite app_nil_r.
  - rewrite IH. now rewrite <- !app_assoc.
  - rewrite IH. now rewrite <- !app_assoc.
Qed.

Lemma tails_app a b : tails (a ++ b) = tails a ++ tails b.
Proof.
  induction a as [|[[|] x] r IH]; cbn [tails app]; [reflexivity| |assumption].
  now rewrite IH, app_assoc.
Qed.

Lemma head_len_nonneg ps : 0 <= head_len ps.
Proof.
  induction ps as [|[[|] b] r IH]; cbn [head_len]; try pose proof (zlen_nonneg b); lia.
Qed.

Lemma zlen_heads_acc ps : forall off, zlen (heads_acc ps off) = head_len ps.
Proof.
  induction ps as [|[[|] b] r IH]; intros off; cbn [heads_acc head_len]; [reflexivity| |];
    rewrite zlen_app, IH; [rewrite zlen_pack_num|]; reflexivity.
Qed.

Lemma spec_heads_eq hl ps : forall before, 0 <= hl ->
  spec_heads hl before ps = heads_acc ps (hl + zlen (tails before)).
Proof.
  induction ps as [|[[|] b] r IH]; intros before Hhl; cbn [spec_heads heads_acc]; [reflexivity| |].
  - rewrite IH by assumption. rewrite tails_app. cbn [tails]. rewrite app_nil_r, zlen_app.
    rewrite pack_num_spec by (pose proof (zlen_nonneg (tails before)); lia).
    now rewrite Z.add_assoc.
  - rewrite IH by assumption. rewrite tails_app. cbn [tails]. now rewrite app_nil_r.
Qed.

Lemma enc_tuple_eq ps : enc_tuple ps = pack_loop ps (head_len ps) [] [].
Proof.
  unfold enc_tuple. rewrite pack_loop_eq, spec_heads_eq by apply head_len_nonneg.
  cbn [tails app]. now rewrite zlen_nil, Z.add_0_r.
Qed.

Definition all_static (ps : list part) : Prop := Forall (fun p => fst p = false) ps.

Lemma heads_acc_static ps : all_static ps -> forall off off', heads_acc ps off = heads_acc ps off'.
Proof.
  induction 1 as [|[d b] r Hd _ IH]; intros off off'; [reflexivity|].
  cbn in Hd. subst d. cbn [heads_acc]. f_equal. apply IH.
Qed.

Lemma tails_static ps : all_static ps -> tails ps = [].
Proof.
  induction 1 as [|[d b] r Hd _ IH]; [reflexivity|]. cbn in Hd. subst d. exact IH.
Qed.

Lemma zlen_pack_loop ps off : zlen (pack_loop ps off [] []) = head_len ps + zlen (tails ps).
Proof. rewrite pack_loop_eq. cbn [app]. now rewrite zlen_app, zlen_heads_acc. Qed.

(* ------------------------------------------------------------------ *)
(* type sizes                                                          *)

Lemma dynamic_type_size t : dynamic t = true -> type_size t = 32.
Proof.
  destruct t; cbn [dynamic type_size]; intros H; try reflexivity; now rewrite H.
Qed.

Lemma type_size_fixed_static k e :
  dynamic e = false -> type_size (TFixedArray k e) = Z.of_nat k * type_size e.
Proof.
  intros H. cbn [type_size]. rewrite H. cbn [negb].
  destruct e; try reflexivity; cbn [dynamic] in H; try discriminate.
Qed.

Lemma type_size_tuple_static ts :
  existsb dynamic ts = false -> type_size (TTuple ts) = zsum (map type_size ts).
Proof. intros H. cbn [type_size]. now rewrite H. Qed.

Lemma bind_ok {A B} (r : res A) (f : A -> res B) b :
  bind r f = Ok b -> exists a, r = Ok a /\ f a = Ok b.
Proof. destruct r; cbn; intros H; try discriminate. eauto. Qed.

(* all elements of an array are packed with the same dynamic flag *)
Lemma pack_elems_inv f dyn vs : forall ps,
  pack_elems f dyn vs = Ok ps ->
  Forall2 (fun v p => fst p = dyn /\ f v = Ok (snd p)) vs ps.
Proof.
  induction vs as [|v r IH]; intros ps H; cbn [pack_elems] in H.
  - injection H as <-. constructor.
  - apply bind_ok in H as (b & Hb & H). apply bind_ok in H as (ps' & Hps & H).
    injection H as <-. constructor; [split; [reflexivity|exact Hb]|]. now apply IH.
Qed.

Lemma head_len_uniform (ps : list part) sz :
  Forall (fun p : part => (if fst p then 32 else zlen (snd p)) = sz) ps ->
  head_len ps = zlen ps * sz.
Proof.
  induction 1 as [|[[|] b] r Hd _ IH]; cbn [head_len]; [reflexivity| |];
    cbn in Hd; rewrite IH, zlen_cons; lia.
Qed.

(* the static encoding length is the type size *)
Definition static_len_P (t : ty) : Prop :=
  forall v b, ty_newtype t = true -> pack t v = Ok b -> dynamic t = false -> zlen b = type_size t.

Lemma fields_head_len ts : Forall static_len_P ts -> forall vs ps,
  forallb ty_newtype ts = true ->
  pack_fields pack ts vs = Ok ps -> head_len ps = zsum (map type_size ts).
Proof.
  induction 1 as [|t r Ht _ IH]; intros vs ps Hnt H.
  - destruct vs; cbn in H; [|discriminate]. injection H as <-. reflexivity.
  - destruct vs as [|v vs]; cbn [pack_fields] in H; [discriminate|].
    cbn [forallb] in Hnt. apply andb_true_iff in Hnt as [Hnt1 Hnt2].
    apply bind_ok in H as (b & Hb & H). apply bind_ok in H as (ps' & Hps & H).
    injection H as <-. cbn [map zsum fold_right]. fold (zsum (map type_size r)).
    rewrite <- (IH _ _ Hnt2 Hps).
    destruct (dynamic t) eqn:Hd; cbn [head_len].
    + now rewrite dynamic_type_size.
    + now rewrite (Ht _ _ Hnt1 Hb Hd).
Qed.

Lemma pack_fields_static ts : forall vs ps,
  pack_fields pack ts vs = Ok ps -> existsb dynamic ts = false -> all_static ps.
Proof.
  induction ts as [|t r IH]; intros vs ps H Hd.
  - destruct vs; cbn in H; [|discriminate]. injection H as <-. constructor.
  - destruct vs as [|v vs]; cbn [pack_fields] in H; [discriminate|].
    cbn [existsb] in Hd. apply orb_false_iff in Hd as [Hd1 Hd2].
    apply bind_ok in H as (b & Hb & H). apply bind_ok in H as (ps' & Hps & H).
    injection H as <-. constructor; [exact Hd1|]. eapply IH; eauto.
Qed.

Lemma right_pad_len b l : (length b <= l)%nat -> zlen (right_pad b l) = Z.of_nat l.
Proof. intros H. unfold right_pad. rewrite zlen_app, zlen_zeros. unfold zlen. lia. Qed.

Lemma pack_static_len t : static_len_P t.
Proof.
  induction t using ty_ind'; intros v b Hnt Hp Hd; cbn [dynamic] in Hd; try discriminate.
  - cbn [pack] in Hp. destruct v; cbn [pack_element] in Hp; try discriminate.
    destruct (native_width n); [destruct (in_unsigned n z)|destruct (z <? 0)];
      try discriminate; injection Hp as <-; apply zlen_pack_num.
  - cbn [pack] in Hp. destruct v; cbn [pack_element] in Hp; try discriminate.
    destruct (native_width n); [destruct (in_signed n z)|];
      try discriminate; injection Hp as <-; apply zlen_pack_num.
  - cbn [pack] in Hp. destruct v; cbn [pack_element] in Hp; try discriminate.
    injection Hp as <-; apply zlen_pack_num.
  - cbn [pack] in Hp. destruct v; cbn [pack_element] in Hp; try discriminate.
    destruct (Nat.eqb (length bs) 20) eqn:E; [|discriminate]. injection Hp as <-.
    unfold left_pad. rewrite zlen_app, zlen_zeros. cbn [type_size]. unfold zlen. lia.
  - cbn [pack] in Hp. destruct v; cbn [pack_element] in Hp; try discriminate.
    destruct (N.of_nat (length bs) =? n)%N eqn:E; [|discriminate]. injection Hp as <-.
    cbn [ty_newtype] in Hnt. cbn [type_size]. apply right_pad_len. lia.
  - (* fixed array of static elements *)
    cbn [ty_newtype] in Hnt.
    rewrite type_size_fixed_static by assumption.
    destruct v; try (cbn [pack] in Hp; discriminate). cbn [pack] in Hp.
    destruct (Nat.eqb (length vs) k) eqn:Ek; [|discriminate].
    apply bind_ok in Hp as (ps & Hps & Hp). injection Hp as <-.
    apply pack_elems_inv in Hps.
    rewrite zlen_pack_loop.
    assert (Hst : all_static ps).
    { clear -Hps Hd. induction Hps as [|v p vs' ps' [Hf _] _ IH]; constructor; [congruence|exact IH]. }
    rewrite tails_static by assumption. rewrite zlen_nil, Z.add_0_r.
    rewrite (head_len_uniform ps (type_size t)).
    + apply Forall2_length in Hps. unfold zlen. rewrite <- Hps. f_equal. lia.
    + clear -Hps Hd IHt Hnt. induction Hps as [|v p vs' ps' [Hf Hb] _ IH]; constructor; [|exact IH].
      destruct p as [d pb]. cbn in *. subst d. rewrite Hd. now apply (IHt v pb).
  - (* static tuple *)
    cbn [ty_newtype] in Hnt.
    rewrite type_size_tuple_static by assumption.
    destruct v; try (cbn [pack] in Hp; discriminate). cbn [pack] in Hp.
    apply bind_ok in Hp as (ps & Hps & Hp). injection Hp as <-.
    rewrite zlen_pack_loop.
    rewrite (tails_static ps) by (eapply pack_fields_static; eauto).
    rewrite zlen_nil, Z.add_0_r. eapply fields_head_len; eauto.
Qed.
