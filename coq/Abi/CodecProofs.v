(* Abi/CodecProofs.v — lemmas about the model Abi/Codec.v (C51). *)
From GV Require Import Lib.Tactics Abi.Types Abi.Codec.
Local Open Scope Z_scope.

(* ------------------------------------------------------------------ *)
(* induction on types with the nested list                             *)

Section TyInd.
  Variable P : ty -> Prop.
  Hypothesis HU : forall n, P (TUInt n).
  Hypothesis HI : forall n, P (TInt n).
  Hypothesis HB : P TBool.
  Hypothesis HAd : P TAddress.
  Hypothesis HFB : forall n, P (TFixedBytes n).
  Hypothesis HBy : P TBytes.
  Hypothesis HS : P TString.
  Hypothesis HA : forall e, P e -> P (TArray e).
  Hypothesis HF : forall k e, P e -> P (TFixedArray k e).
  Hypothesis HT : forall ts, Forall P ts -> P (TTuple ts).
  Fixpoint ty_ind' (t : ty) : P t :=
    match t with
    | TUInt n => HU n | TInt n => HI n | TBool => HB | TAddress => HAd
    | TFixedBytes n => HFB n | TBytes => HBy | TString => HS
    | TArray e => HA e (ty_ind' e)
    | TFixedArray k e => HF k e (ty_ind' e)
    | TTuple ts =>
        HT ts ((fix go (ts : list ty) : Forall P ts :=
                  match ts with
                  | [] => Forall_nil P
                  | t :: r => Forall_cons t (ty_ind' t) (go r)
                  end) ts)
    end.
End TyInd.

(* ------------------------------------------------------------------ *)
(* bytes                                                               *)

Lemma zlen_app {A} (a b : list A) : zlen (a ++ b) = zlen a + zlen b.
Proof. unfold zlen. rewrite app_length. lia. Qed.

Lemma zlen_nonneg {A} (a : list A) : 0 <= zlen a.
Proof. unfold zlen. lia. Qed.

Lemma zlen_nil {A} : zlen (@nil A) = 0.
Proof. reflexivity. Qed.

Lemma zlen_cons {A} (x : A) l : zlen (x :: l) = 1 + zlen l.
Proof. unfold zlen. cbn [length]. lia. Qed.

Lemma be_bytes_length n z : length (be_bytes n z) = n.
Proof.
  revert z. induction n as [|n IH]; intros z; cbn [be_bytes]; [reflexivity|].
  rewrite app_length, IH. cbn. lia.
Qed.

Lemma zlen_be_bytes n z : zlen (be_bytes n z) = Z.of_nat n.
Proof. unfold zlen. now rewrite be_bytes_length. Qed.

Lemma be_val_snoc l b : be_val (l ++ [b]) = (be_val l * 256 + b)%N.
Proof. unfold be_val. now rewrite fold_left_app. Qed.

Lemma be_val_be_bytes n z : be_val (be_bytes n z) = (z mod 256 ^ N.of_nat n)%N.
Proof.
  revert z. induction n as [|n IH]; intros z.
  - cbn. now rewrite N.mod_1_r.
  - cbn [be_bytes]. rewrite be_val_snoc, IH.
    replace (N.of_nat (S n)) with (N.succ (N.of_nat n)) by lia.
    rewrite N.pow_succ_r'.
    assert (H : (256 ^ N.of_nat n <> 0)%N) by (apply N.pow_nonzero; lia).
    rewrite N.mod_mul_r by lia.
    lia.
Qed.

Lemma be_bytes_mod n z : be_bytes n (z mod 256 ^ N.of_nat n)%N = be_bytes n z.
Proof.
  revert z. induction n as [|n IH]; intros z; [reflexivity|].
  cbn [be_bytes].
  replace (N.of_nat (S n)) with (N.succ (N.of_nat n)) by lia.
  rewrite N.pow_succ_r'.
  assert (H : (256 ^ N.of_nat n <> 0)%N) by (apply N.pow_nonzero; lia).
  rewrite N.mod_mul_r by lia.
  set (q := ((z / 256) mod 256 ^ N.of_nat n)%N).
  assert (Hlt : (z mod 256 < 256)%N) by (apply N.mod_lt; lia).
  replace ((z mod 256 + 256 * q) / 256)%N with q.
  2:{ generalize dependent (z mod 256)%N. intros r Hr. lia. }
  replace ((z mod 256 + 256 * q) mod 256)%N with (z mod 256)%N.
  2:{ generalize dependent (z mod 256)%N. intros r Hr. lia. }
  unfold q. now rewrite IH.
Qed.

Lemma be_bytes_byteb n z : forallb byteb (be_bytes n z) = true.
Proof.
  revert z. induction n as [|n IH]; intros z; [reflexivity|].
  cbn [be_bytes]. rewrite forallb_app, IH. cbn. unfold byteb.
  assert ((z mod 256 < 256)%N) by (apply N.mod_lt; lia). lia.
Qed.

Lemma be_bytes_be_val l :
  forallb byteb l = true -> be_bytes (length l) (be_val l) = l.
Proof.
  induction l as [|b l IH] using rev_ind; intros H; [reflexivity|].
  rewrite forallb_app in H. apply andb_true_iff in H as [Hl Hb].
  cbn in Hb. unfold byteb in Hb.
  rewrite app_length. cbn [length]. rewrite Nat.add_1_r. cbn [be_bytes].
  rewrite be_val_snoc.
  replace ((be_val l * 256 + b) / 256)%N with (be_val l).
  2:{ lia. }
  replace ((be_val l * 256 + b) mod 256)%N with b.
  2:{ lia. }
  now rewrite IH.
Qed.

Lemma be_val_bound l :
  forallb byteb l = true -> (be_val l < 256 ^ N.of_nat (length l))%N.
Proof.
  intros H. rewrite <- (be_bytes_be_val l H) at 1.
  rewrite be_val_be_bytes. apply N.mod_lt. apply N.pow_nonzero. lia.
Qed.

Lemma pow256_32 : (256 ^ N.of_nat 32 = 2 ^ 256)%N.
Proof. reflexivity. Qed.

(* packNum of a non-negative number is the spec word, whatever its size *)
Lemma pack_num_spec z : 0 <= z -> pack_num z = spec_word z.
Proof.
  intros H. unfold pack_num, spec_word.
  rewrite <- (be_bytes_mod 32 (Z.to_N z)). f_equal.
  rewrite pow256_32. rewrite Z2N.inj_mod by lia. reflexivity.
Qed.

Lemma zlen_pack_num z : zlen (pack_num z) = 32.
Proof. unfold pack_num. now rewrite zlen_be_bytes. Qed.

Lemma zlen_spec_word z : zlen (spec_word z) = 32.
Proof. unfold spec_word. now rewrite zlen_be_bytes. Qed.

Lemma be_val_pack_num z : 0 <= z < 2 ^ 256 -> Z.of_N (be_val (pack_num z)) = z.
Proof.
  intros H. unfold pack_num. rewrite be_val_be_bytes, pow256_32.
  rewrite Z.mod_small by lia. rewrite N.mod_small; lia.
Qed.

Lemma zeros_length n : length (zeros n) = n.
Proof. apply repeat_length. Qed.

Lemma zlen_zeros n : zlen (zeros n) = Z.of_nat n.
Proof. unfold zlen. now rewrite zeros_length. Qed.

(* ------------------------------------------------------------------ *)
(* slices                                                              *)

Lemma slice_app_mid pre b post :
  slice (pre ++ b ++ post) (zlen pre) (zlen pre + zlen b) = Some b.
Proof.
  unfold slice. rewrite !zlen_app.
  pose proof (zlen_nonneg pre). pose proof (zlen_nonneg b). pose proof (zlen_nonneg post).
  replace ((0 <=? zlen pre) && (zlen pre <=? zlen pre + zlen b)
           && (zlen pre + zlen b <=? zlen pre + (zlen b + zlen post))) with true by lia.
  f_equal. unfold zlen. rewrite Nat2Z.id.
  rewrite skipn_app, skipn_all, Nat.sub_diag. cbn [skipn app].
  replace (Z.to_nat (Z.of_nat (length pre) + Z.of_nat (length b) - Z.of_nat (length pre)))
    with (length b + 0)%nat by lia.
  rewrite firstn_app_2. cbn. apply app_nil_r.
Qed.

Lemma slice_suffix pre rest :
  slice (pre ++ rest) (zlen pre) (zlen (pre ++ rest)) = Some rest.
Proof.
  pose proof (slice_app_mid pre rest []) as H. rewrite app_nil_r in H.
  rewrite zlen_app. exact H.
Qed.

Lemma slice_some l lo hi :
  0 <= lo -> lo <= hi -> hi <= zlen l -> exists s, slice l lo hi = Some s /\ zlen s = hi - lo.
Proof.
  intros H1 H2 H3. unfold slice.
  replace ((0 <=? lo) && (lo <=? hi) && (hi <=? zlen l)) with true by lia.
  eexists. split; [reflexivity|].
  unfold zlen in *. rewrite firstn_length, skipn_length. lia.
Qed.

Lemma slice_length l lo hi s : slice l lo hi = Some s -> zlen s = hi - lo.
Proof.
  unfold slice. destruct ((0 <=? lo) && (lo <=? hi) && (hi <=? zlen l)) eqn:E; [|discriminate].
  intros [= <-]. unfold zlen in *. rewrite firstn_length, skipn_length. lia.
Qed.

Lemma forallb_firstn {A} (f : A -> bool) n l : forallb f l = true -> forallb f (firstn n l) = true.
Proof.
  revert l. induction n as [|n IH]; intros [|x l] H; cbn in *; try reflexivity.
  apply andb_true_iff in H as [-> H]. cbn. auto.
Qed.

Lemma forallb_skipn {A} (f : A -> bool) n l : forallb f l = true -> forallb f (skipn n l) = true.
Proof.
  revert l. induction n as [|n IH]; intros [|x l] H; cbn in *; try reflexivity; auto.
  apply andb_true_iff in H as [_ H]. auto.
Qed.

Lemma slice_byteb l lo hi s :
  forallb byteb l = true -> slice l lo hi = Some s -> forallb byteb s = true.
Proof.
  unfold slice. destruct (_ && _); [|discriminate]. intros H [= <-].
  now apply forallb_firstn, forallb_skipn.
Qed.

(* ------------------------------------------------------------------ *)
(* the pack loop, functionally                                         *)

Fixpoint heads_acc (ps : list part) (off : Z) : list N :=
  match ps with
  | [] => []
  | (true, b) :: r => pack_num off ++ heads_acc r (off + zlen b)
  | (false, b) :: r => b ++ heads_acc r off
  end.

Lemma pack_loop_eq ps : forall off ret tail,
  pack_loop ps off ret tail = ret ++ heads_acc ps off ++ tail ++ tails ps.
Proof.
  induction ps as [|[[|] b] r IH]; intros off ret tail; cbn [pack_loop heads_acc tails].
  - now rewrite app_nil_r.
  - rewrite IH. now rewrite <- !app_assoc.
  - rewrite IH. now rewrite <- !app_assoc.
Qed.

Lemma tails_app a b : tails (a ++ b) = tails a ++ tails b.
Proof.
  induction a as [|[[|] x] r IH]; cbn [tails app]; [reflexivity| |assumption].
  now rewrite IH, app_assoc.
Qed.

Lemma head_len_nonneg ps : 0 <= head_len ps.
Proof.
  induction ps as [|[[|] b] r IH]; cbn [head_len]; try pose proof (zlen_nonneg b); lia.
Qed.

Lemma zlen_heads_acc ps : forall off, zlen (heads_acc ps off) = head_len ps.
Proof.
  induction ps as [|[[|] b] r IH]; intros off; cbn [heads_acc head_len]; [reflexivity| |];
    rewrite zlen_app, IH; [rewrite zlen_pack_num|]; reflexivity.
Qed.

Lemma spec_heads_eq hl ps : forall before, 0 <= hl ->
  spec_heads hl before ps = heads_acc ps (hl + zlen (tails before)).
Proof.
  induction ps as [|[[|] b] r IH]; intros before Hhl; cbn [spec_heads heads_acc]; [reflexivity| |].
  - rewrite IH by assumption. rewrite tails_app. cbn [tails]. rewrite app_nil_r, zlen_app.
    rewrite pack_num_spec by (pose proof (zlen_nonneg (tails before)); lia).
    now rewrite Z.add_assoc.
  - rewrite IH by assumption. rewrite tails_app. cbn [tails]. now rewrite app_nil_r.
Qed.

Lemma enc_tuple_eq ps : enc_tuple ps = pack_loop ps (head_len ps) [] [].
Proof.
  unfold enc_tuple. rewrite pack_loop_eq, spec_heads_eq by apply head_len_nonneg.
  cbn [tails app]. now rewrite zlen_nil, Z.add_0_r.
Qed.

Definition all_static (ps : list part) : Prop := Forall (fun p => fst p = false) ps.

Lemma heads_acc_static ps : all_static ps -> forall off off', heads_acc ps off = heads_acc ps off'.
Proof.
  induction 1 as [|[d b] r Hd _ IH]; intros off off'; [reflexivity|].
  cbn in Hd. subst d. cbn [heads_acc]. f_equal. apply IH.
Qed.

Lemma tails_static ps : all_static ps -> tails ps = [].
Proof.
  induction 1 as [|[d b] r Hd _ IH]; [reflexivity|]. cbn in Hd. subst d. exact IH.
Qed.

Lemma zlen_pack_loop ps off : zlen (pack_loop ps off [] []) = head_len ps + zlen (tails ps).
Proof. rewrite pack_loop_eq. cbn [app]. now rewrite zlen_app, zlen_heads_acc. Qed.

(* ------------------------------------------------------------------ *)
(* type sizes                                                          *)

Lemma dynamic_type_size t : dynamic t = true -> type_size t = 32.
Proof.
  destruct t; cbn [dynamic type_size]; intros H; try reflexivity; now rewrite H.
Qed.

Lemma type_size_fixed_static k e :
  dynamic e = false -> type_size (TFixedArray k e) = Z.of_nat k * type_size e.
Proof.
  intros H. cbn [type_size]. rewrite H. cbn [negb].
  destruct e; try reflexivity; cbn [dynamic] in H; try discriminate.
Qed.

Lemma type_size_tuple_static ts :
  existsb dynamic ts = false -> type_size (TTuple ts) = zsum (map type_size ts).
Proof. intros H. cbn [type_size]. now rewrite H. Qed.

Lemma bind_ok {A B} (r : res A) (f : A -> res B) b :
  bind r f = Ok b -> exists a, r = Ok a /\ f a = Ok b.
Proof. destruct r; cbn; intros H; try discriminate. eauto. Qed.

(* all elements of an array are packed with the same dynamic flag *)
Lemma pack_elems_inv f dyn vs : forall ps,
  pack_elems f dyn vs = Ok ps ->
  Forall2 (fun v p => fst p = dyn /\ f v = Ok (snd p)) vs ps.
Proof.
  induction vs as [|v r IH]; intros ps H; cbn [pack_elems] in H.
  - injection H as <-. constructor.
  - apply bind_ok in H as (b & Hb & H). apply bind_ok in H as (ps' & Hps & H).
    injection H as <-. constructor; [split; [reflexivity|exact Hb]|]. now apply IH.
Qed.

Lemma Forall2_len {A B} (R : A -> B -> Prop) l m : Forall2 R l m -> length l = length m.
Proof. induction 1; cbn; congruence. Qed.

Lemma head_len_uniform (ps : list part) sz :
  Forall (fun p : part => (if fst p then 32 else zlen (snd p)) = sz) ps ->
  head_len ps = zlen ps * sz.
Proof.
  induction 1 as [|[[|] b] r Hd _ IH]; cbn [head_len]; [reflexivity| |];
    cbn in Hd; rewrite IH, zlen_cons; lia.
Qed.

(* the static encoding length is the type size *)
Definition static_len_P (t : ty) : Prop :=
  forall v b, ty_newtype t = true -> pack t v = Ok b -> dynamic t = false -> zlen b = type_size t.

Lemma fields_head_len ts : Forall static_len_P ts -> forall vs ps,
  forallb ty_newtype ts = true ->
  pack_fields pack ts vs = Ok ps -> head_len ps = zsum (map type_size ts).
Proof.
  induction 1 as [|t r Ht _ IH]; intros vs ps Hnt H.
  - destruct vs; cbn in H; [|discriminate]. injection H as <-. reflexivity.
  - destruct vs as [|v vs]; cbn [pack_fields] in H; [discriminate|].
    cbn [forallb] in Hnt. apply andb_true_iff in Hnt as [Hnt1 Hnt2].
    apply bind_ok in H as (b & Hb & H). apply bind_ok in H as (ps' & Hps & H).
    injection H as <-. cbn [map zsum fold_right]. fold (zsum (map type_size r)).
    rewrite <- (IH _ _ Hnt2 Hps).
    destruct (dynamic t) eqn:Hd; cbn [head_len].
    + now rewrite dynamic_type_size.
    + now rewrite (Ht _ _ Hnt1 Hb Hd).
Qed.

Lemma pack_fields_static ts : forall vs ps,
  pack_fields pack ts vs = Ok ps -> existsb dynamic ts = false -> all_static ps.
Proof.
  induction ts as [|t r IH]; intros vs ps H Hd.
  - destruct vs; cbn in H; [|discriminate]. injection H as <-. constructor.
  - destruct vs as [|v vs]; cbn [pack_fields] in H; [discriminate|].
    cbn [existsb] in Hd. apply orb_false_iff in Hd as [Hd1 Hd2].
    apply bind_ok in H as (b & Hb & H). apply bind_ok in H as (ps' & Hps & H).
    injection H as <-. constructor; [exact Hd1|]. eapply IH; eauto.
Qed.

Lemma right_pad_len b l : (length b <= l)%nat -> zlen (right_pad b l) = Z.of_nat l.
Proof. intros H. unfold right_pad. rewrite zlen_app, zlen_zeros. unfold zlen. lia. Qed.

Lemma pack_static_len t : static_len_P t.
Proof.
  induction t using ty_ind'; intros v b Hnt Hp Hd; cbn [dynamic] in Hd; try discriminate.
  - cbn [pack] in Hp. destruct v; cbn [pack_element] in Hp; try discriminate.
    destruct (native_width n); [destruct (in_unsigned n z)|destruct (z <? 0)];
      try discriminate; injection Hp as <-; apply zlen_pack_num.
  - cbn [pack] in Hp. destruct v; cbn [pack_element] in Hp; try discriminate.
    destruct (native_width n); [destruct (in_signed n z)|];
      try discriminate; injection Hp as <-; apply zlen_pack_num.
  - cbn [pack] in Hp. destruct v; cbn [pack_element] in Hp; try discriminate.
    injection Hp as <-; apply zlen_pack_num.
  - cbn [pack] in Hp. destruct v; cbn [pack_element] in Hp; try discriminate.
    destruct (Nat.eqb (length bs) 20) eqn:E; [|discriminate]. injection Hp as <-.
    unfold left_pad. rewrite zlen_app, zlen_zeros. cbn [type_size]. unfold zlen. lia.
  - cbn [pack] in Hp. destruct v; cbn [pack_element] in Hp; try discriminate.
    destruct (N.of_nat (length bs) =? n)%N eqn:E; [|discriminate]. injection Hp as <-.
    cbn [ty_newtype] in Hnt. cbn [type_size]. apply right_pad_len. lia.
  - (* fixed array of static elements *)
    cbn [ty_newtype] in Hnt.
    rewrite type_size_fixed_static by assumption.
    destruct v; try (cbn [pack] in Hp; discriminate). cbn [pack] in Hp.
    destruct (Nat.eqb (length vs) k) eqn:Ek; [|discriminate].
    apply bind_ok in Hp as (ps & Hps & Hp). injection Hp as <-.
    apply pack_elems_inv in Hps.
    rewrite zlen_pack_loop.
    assert (Hst : all_static ps).
    { clear -Hps Hd. induction Hps as [|v p vs' ps' [Hf _] _ IH]; constructor; [congruence|exact IH]. }
    rewrite tails_static by assumption. rewrite zlen_nil, Z.add_0_r.
    rewrite (head_len_uniform ps (type_size t)).
    + apply Forall2_len in Hps. apply Nat.eqb_eq in Ek.
      f_equal. unfold zlen. f_equal. etransitivity; [symmetry; exact Hps|exact Ek].
    + clear -Hps Hd IHt Hnt. induction Hps as [|v p vs' ps' [Hf Hb] _ IH]; constructor; [|exact IH].
      destruct p as [d pb]. cbn in *. subst d. rewrite Hd. now apply (IHt v pb).
  - (* static tuple *)
    cbn [ty_newtype] in Hnt.
    rewrite type_size_tuple_static by assumption.
    destruct v; try (cbn [pack] in Hp; discriminate). cbn [pack] in Hp.
    apply bind_ok in Hp as (ps & Hps & Hp). injection Hp as <-.
    rewrite zlen_pack_loop.
    rewrite (tails_static ps) by (eapply pack_fields_static; eauto).
    rewrite zlen_nil, Z.add_0_r. eapply fields_head_len; eauto.
Qed.

(* ------------------------------------------------------------------ *)
(* pack = spec                                                         *)

Lemma ty_valid_newtype t : ty_valid t = true -> ty_newtype t = true.
Proof.
  induction t using ty_ind'; cbn [ty_valid ty_newtype]; auto.
  intros Hv. rewrite forallb_forall in *. rewrite Forall_forall in H. auto.
Qed.

Lemma pack_num_signed z :
  - 2 ^ 255 <= z < 2 ^ 255 -> pack_num z = spec_word (if z <? 0 then z + 2 ^ 256 else z).
Proof.
  intros H. destruct (z <? 0) eqn:E.
  - unfold pack_num, spec_word. do 2 f_equal. lia.
  - apply pack_num_spec. lia.
Qed.

Lemma in_signed_bound n z :
  (1 <= n)%N -> (n <= 256)%N -> in_signed n z = true -> - 2 ^ 255 <= z < 2 ^ 255.
Proof.
  intros H1 H2 H. unfold in_signed in H.
  assert (2 ^ (Z.of_N n - 1) <= 2 ^ 255) by (apply Z.pow_le_mono_r; lia).
  lia.
Qed.

Lemma pad_arith (n : nat) :
  ((n + 31) / 32 * 32 - n)%nat = Z.to_nat ((32 - Z.of_nat n mod 32) mod 32).
Proof. lia. Qed.

Lemma pack_bytes_spec b : pack_bytes_slice b = spec_bytes b.
Proof.
  unfold pack_bytes_slice, spec_bytes, right_pad.
  rewrite pack_num_spec by apply zlen_nonneg. do 3 f_equal. unfold zlen. apply pad_arith.
Qed.

Lemma elems_eq (f : val -> option (list N)) (g : val -> res (list N)) dyn vs :
  (forall v b, f v = Some b -> g v = Ok b) ->
  forall ps, enc_elems f dyn vs = Some ps -> pack_elems g dyn vs = Ok ps.
Proof.
  intros Hfg. induction vs as [|v r IH]; intros ps H; cbn [enc_elems pack_elems] in *.
  - now injection H as <-.
  - destruct (f v) eqn:Ef; [|discriminate]. destruct (enc_elems f dyn r) eqn:Er; [|discriminate].
    injection H as <-. rewrite (Hfg _ _ Ef). cbn [bind]. now rewrite (IH _ eq_refl).
Qed.

Lemma elems_parts f dyn (vs : list val) (ps : list part) :
  pack_elems f dyn vs = Ok ps ->
  Forall (fun p : part => fst p = dyn) ps /\ zlen ps = zlen vs.
Proof.
  intros H. apply pack_elems_inv in H. split.
  - induction H as [|v p vs' ps' [Hf _] _ IH]; constructor; auto.
  - unfold zlen. f_equal. symmetry. eapply Forall2_len; eauto.
Qed.

(* the initial offset of type.go:288-292 is the head length *)
Lemma array_heads e (vs : list val) (ps : list part) :
  Forall (fun p : part => fst p = dynamic e) ps -> zlen ps = zlen vs ->
  heads_acc ps (if dynamic e then type_size e * zlen vs else 0) = heads_acc ps (head_len ps).
Proof.
  intros Hf Hl. destruct (dynamic e) eqn:Hd.
  - f_equal. rewrite dynamic_type_size by assumption.
    rewrite (head_len_uniform ps 32); [lia|].
    eapply Forall_impl; [|exact Hf]. intros [d b] Hp. cbn in *. now subst d.
  - apply heads_acc_static. exact Hf.
Qed.

Definition pack_eq_spec_P (t : ty) : Prop :=
  forall v b, ty_valid t = true -> enc t v = Some b -> pack t v = Ok b.

Lemma fields_eq ts : Forall pack_eq_spec_P ts -> forall vs ps,
  forallb ty_valid ts = true ->
  enc_fields enc ts vs = Some ps -> pack_fields pack ts vs = Ok ps.
Proof.
  induction 1 as [|t r Ht _ IH]; intros vs ps Hv H.
  - destruct vs; cbn in *; [|discriminate]. now injection H as <-.
  - destruct vs as [|v vs]; cbn [enc_fields pack_fields] in *; [discriminate|].
    cbn [forallb] in Hv. apply andb_true_iff in Hv as [Hv1 Hv2].
    destruct (enc t v) eqn:Ef; [|discriminate].
    destruct (enc_fields enc r vs) eqn:Er; [|discriminate].
    injection H as <-. rewrite (Ht _ _ Hv1 Ef). cbn [bind]. now rewrite (IH _ _ Hv2 Er).
Qed.

Lemma forallb_valid_newtype ts : forallb ty_valid ts = true -> forallb ty_newtype ts = true.
Proof.
  rewrite !forallb_forall. intros H x Hx. apply ty_valid_newtype. auto.
Qed.

Lemma pack_tuple_eq ts vs ps :
  forallb ty_newtype ts = true ->
  pack_fields pack ts vs = Ok ps ->
  pack_loop ps (zsum (map type_size ts)) [] [] = enc_tuple ps.
Proof.
  intros Hnt H. rewrite enc_tuple_eq. f_equal. symmetry.
  eapply fields_head_len; eauto. apply Forall_forall. intros t _. apply pack_static_len.
Qed.

Lemma pack_eq_spec t : pack_eq_spec_P t.
Proof.
  induction t using ty_ind'; intros v b Hv He; destruct v; cbn [enc] in He; try discriminate;
    cbn [pack pack_element]; cbn [ty_valid] in Hv.
  - destruct (in_unsigned n z) eqn:E; [|discriminate]. injection He as <-.
    unfold in_unsigned in E.
    replace (z <? 0) with false by lia.
    rewrite pack_num_spec by lia. now destruct (native_width n).
  - destruct (in_signed n z) eqn:E; [|discriminate]. injection He as <-.
    rewrite pack_num_signed by (apply (in_signed_bound n); [lia|lia|exact E]).
    now destruct (native_width n).
  - injection He as <-. rewrite pack_num_spec by (destruct b0; lia). reflexivity.
  - destruct (Nat.eqb (length bs) 20) eqn:E; [|discriminate]. injection He as <-.
    apply Nat.eqb_eq in E. unfold left_pad. now rewrite E.
  - destruct (N.of_nat (length bs) =? n)%N eqn:E; [|discriminate]. now injection He as <-.
  - injection He as <-. now rewrite pack_bytes_spec.
  - injection He as <-. now rewrite pack_bytes_spec.
  - (* T[] *)
    destruct (enc_elems (enc t) (dynamic t) vs) as [ps|] eqn:E; [|discriminate].
    injection He as <-.
    assert (Hp : pack_elems (pack t) (dynamic t) vs = Ok ps).
    { eapply elems_eq; [|exact E]. intros v b. now apply IHt. }
    rewrite Hp. cbn [bind]. destruct (elems_parts _ _ _ _ Hp) as [Hf Hl].
    rewrite enc_tuple_eq, !pack_loop_eq. cbn [app].
    rewrite array_heads by assumption.
    now rewrite pack_num_spec by apply zlen_nonneg.
  - (* T[k] *)
    destruct (Nat.eqb (length vs) k); [|discriminate].
    destruct (enc_elems (enc t) (dynamic t) vs) as [ps|] eqn:E; [|discriminate].
    injection He as <-.
    assert (Hp : pack_elems (pack t) (dynamic t) vs = Ok ps).
    { eapply elems_eq; [|exact E]. intros v b. now apply IHt. }
    rewrite Hp. cbn [bind]. destruct (elems_parts _ _ _ _ Hp) as [Hf Hl].
    rewrite enc_tuple_eq, !pack_loop_eq. cbn [app].
    now rewrite array_heads by assumption.
  - (* tuple *)
    destruct (enc_fields enc ts vs) as [ps|] eqn:E; [|discriminate].
    injection He as <-.
    assert (Hp : pack_fields pack ts vs = Ok ps) by (eapply fields_eq; eauto).
    rewrite Hp. cbn [bind]. f_equal. apply pack_tuple_eq with (vs := vs); [|exact Hp].
    now apply forallb_valid_newtype.
Qed.

Lemma pack_args_eq_spec ts vs b :
  forallb ty_valid ts = true -> enc_args ts vs = Some b -> pack_args ts vs = Ok b.
Proof.
  intros Hv He. exact (pack_eq_spec (TTuple ts) (VList vs) b Hv He).
Qed.

(* the spec encoder is defined on every ABI-typed value *)
Definition enc_total_P (t : ty) : Prop :=
  forall v, wf_value t v = true -> exists b, enc t v = Some b.

Lemma enc_total t : enc_total_P t.
Proof.
  induction t using ty_ind'; intros v Hw; destruct v; cbn [wf_value] in Hw; try discriminate;
    cbn [enc].
  - rewrite Hw. eauto.
  - rewrite Hw. eauto.
  - eauto.
  - apply andb_true_iff in Hw as [-> _]. eauto.
  - apply andb_true_iff in Hw as [-> _]. eauto.
  - eauto.
  - eauto.
  - assert (exists ps, enc_elems (enc t) (dynamic t) vs = Some ps) as [ps ->]; [|eauto].
    induction vs as [|v r IH]; cbn [enc_elems forallb] in *; [eauto|].
    apply andb_true_iff in Hw as [H1 H2]. destruct (IHt _ H1) as [b ->].
    destruct (IH H2) as [ps ->]. eauto.
  - apply andb_true_iff in Hw as [-> Hw].
    assert (exists ps, enc_elems (enc t) (dynamic t) vs = Some ps) as [ps ->]; [|eauto].
    clear k. induction vs as [|v r IH]; cbn [enc_elems forallb] in *; [eauto|].
    apply andb_true_iff in Hw as [H1 H2]. destruct (IHt _ H1) as [b ->].
    destruct (IH H2) as [ps ->]. eauto.
  - assert (exists ps, enc_fields enc ts vs = Some ps) as [ps ->]; [|eauto].
    revert vs Hw. induction H as [|t r Ht _ IH]; intros [|v vs] Hw; cbn [forall2b enc_fields] in *;
      try discriminate; [eauto|].
    apply andb_true_iff in Hw as [H1 H2]. destruct (Ht _ H1) as [b ->].
    destruct (IH _ H2) as [ps ->]. eauto.
Qed.

(* ------------------------------------------------------------------ *)
(* unpack never reaches a Go run-time panic                            *)

Lemma bind_np {A B} (r : res A) (f : A -> res B) :
  r <> Panic -> (forall a, r = Ok a -> f a <> Panic) -> bind r f <> Panic.
Proof. destruct r; cbn; intros H1 H2; auto; discriminate. Qed.

Lemma gslice_np l lo hi : 0 <= lo -> lo <= hi -> hi <= zlen l -> gslice l lo hi <> Panic.
Proof.
  intros H1 H2 H3. unfold gslice. destruct (slice_some l lo hi H1 H2 H3) as (s & -> & _). discriminate.
Qed.

Lemma gslice_ok l lo hi s :
  gslice l lo hi = Ok s -> zlen s = hi - lo /\ 0 <= lo /\ lo <= hi /\ hi <= zlen l.
Proof.
  unfold gslice. destruct (slice l lo hi) eqn:E; [|discriminate]. intros [= <-].
  split; [eapply slice_length; eauto|].
  unfold slice in E. destruct ((0 <=? lo) && (lo <=? hi) && (hi <=? zlen l)) eqn:C; [lia|discriminate].
Qed.

Lemma read_integer_cases u n b :
  (exists z, read_integer u n b = Ok (VInt z)) \/ read_integer u n b = Err EInt.
Proof.
  unfold read_integer.
  repeat match goal with
         | |- context [match ?x with _ => _ end] => destruct x
         end; eauto.
Qed.

Lemma read_integer_np u n b : read_integer u n b <> Panic.
Proof. destruct (read_integer_cases u n b) as [[z ->]| ->]; discriminate. Qed.

Lemma nth_error_some_len {A} (l : list A) n : (n < length l)%nat -> exists x, nth_error l n = Some x.
Proof.
  intros H. destruct (nth_error l n) eqn:E; [eauto|]. apply nth_error_None in E. lia.
Qed.

Lemma read_bool_np w : zlen w = 32 -> read_bool w <> Panic.
Proof.
  intros Hl. unfold read_bool. apply bind_np; [apply gslice_np; lia|]. intros hi _.
  destruct (existsb _ hi); [discriminate|].
  destruct (nth_error_some_len w 31) as [x ->]; [unfold zlen in Hl; lia|].
  destruct x as [|[p|p|]]; discriminate.
Qed.

Lemma read_fixed_bytes_np n w : zlen w = 32 -> (n <= 32)%N -> read_fixed_bytes n w <> Panic.
Proof.
  intros Hl Hn. unfold read_fixed_bytes. apply bind_np; [apply gslice_np; lia|]. discriminate.
Qed.

Lemma bytes_to_address_np w : zlen w = 32 -> bytes_to_address w <> Panic.
Proof.
  intros Hl. unfold bytes_to_address. apply bind_np; [apply gslice_np; lia|]. discriminate.
Qed.

Ltac dif :=
  match goal with |- context [if ?c then _ else _] => destruct c eqn:? end.
Ltac difh H :=
  match type of H with context [if ?c then _ else _] => destruct c eqn:? end.

Lemma lpp_np index output :
  0 <= index -> index + 32 <= zlen output -> length_prefix_points_to index output <> Panic.
Proof.
  intros H1 H2. unfold length_prefix_points_to.
  apply bind_np; [apply gslice_np; lia|]. intros w Hw.
  dif; [discriminate|]. dif; [discriminate|].
  apply bind_np; [apply gslice_np; lia|]. intros lw Hlw.
  dif; [discriminate|]. dif; discriminate.
Qed.

Lemma lpp_ok index output b l :
  length_prefix_points_to index output = Ok (b, l) ->
  32 <= b /\ 0 <= l /\ b + l <= zlen output.
Proof.
  unfold length_prefix_points_to. intros H.
  apply bind_ok in H as (w & Hw & H).
  difh H; [discriminate|]. difh H; [discriminate|].
  apply bind_ok in H as (lw & Hlw & H).
  difh H; [discriminate|]. difh H; [discriminate|].
  injection H as <- <-. lia.
Qed.

Lemma tpt_np index output :
  0 <= index -> index + 32 <= zlen output -> tuple_points_to index output <> Panic.
Proof.
  intros H1 H2. unfold tuple_points_to.
  apply bind_np; [apply gslice_np; lia|]. intros w Hw.
  dif; [discriminate|]. dif; discriminate.
Qed.

Lemma tpt_ok index output b :
  tuple_points_to index output = Ok b -> 0 <= b <= zlen output.
Proof.
  unfold tuple_points_to. intros H. apply bind_ok in H as (w & Hw & H).
  difh H; [discriminate|]. difh H; [discriminate|].
  injection H as <-. lia.
Qed.

Lemma for_each_loop_np dec1 es n : forall i,
  (forall i, 0 <= i -> dec1 i <> Panic) -> 0 <= es -> 0 <= i ->
  for_each_loop dec1 i es n <> Panic.
Proof.
  induction n as [|n IH]; intros i Hd He Hi; cbn [for_each_loop]; [discriminate|].
  apply bind_np; [auto|]. intros v _. apply bind_np; [apply IH; auto; lia|]. discriminate.
Qed.

Lemma for_each_unpack_np dec1 es output start size :
  (forall i, 0 <= i -> dec1 i <> Panic) -> 0 <= es -> 0 <= start ->
  for_each_unpack dec1 es output start size <> Panic.
Proof.
  intros Hd He Hs. unfold for_each_unpack.
  dif; [discriminate|]. dif; [discriminate|].
  apply bind_np; [now apply for_each_loop_np|]. discriminate.
Qed.

Lemma zsum_nonneg l : Forall (fun z => 0 <= z) l -> 0 <= zsum l.
Proof. induction 1; cbn; [lia|]. fold (zsum l). lia. Qed.

Lemma type_size_nonneg t : 0 <= type_size t.
Proof.
  induction t using ty_ind'; cbn [type_size]; try lia.
  - destruct (negb (dynamic t)); [|lia]. destruct t; lia.
  - destruct (negb (existsb dynamic ts)); [|lia]. apply zsum_nonneg.
    apply Forall_map. exact H.
Qed.

Lemma unpack_fields_np dec ts : forall index virt,
  Forall (fun t => forall i, 0 <= i -> dec t i <> Panic) ts ->
  0 <= index + virt -> unpack_fields dec ts index virt <> Panic.
Proof.
  induction ts as [|t r IH]; intros index virt Hd Hi; cbn [unpack_fields]; [discriminate|].
  inversion Hd as [|? ? Ht Hr]; subst.
  apply bind_np; [apply Ht; lia|]. intros v _.
  apply bind_np; [|discriminate].
  apply IH; [exact Hr|].
  pose proof (type_size_nonneg t) as Hs.
  assert (0 <= type_size t / 32) by (apply Z.div_pos; lia).
  destruct t; try lia; destruct (negb _); lia.
Qed.

Definition no_panic_P (t : ty) : Prop :=
  forall index output, ty_newtype t = true -> 0 <= index -> to_go_type t index output <> Panic.

Ltac np_word :=
  apply bind_np; [apply gslice_np; lia|]; intros w Hw; apply gslice_ok in Hw as (Hwl & _).

Lemma to_go_type_np t : no_panic_P t.
Proof.
  induction t using ty_ind'; intros index output Hnt Hi; cbn [to_go_type];
    destruct (index + 32 >? zlen output) eqn:Hlen; try discriminate; cbn [ty_newtype] in Hnt.
  - np_word. apply read_integer_np.
  - np_word. apply read_integer_np.
  - np_word. apply read_bool_np. lia.
  - np_word. apply bytes_to_address_np. lia.
  - np_word. apply read_fixed_bytes_np; lia.
  - apply bind_np; [apply lpp_np; lia|]. intros [b l] Hbl. apply lpp_ok in Hbl.
    apply bind_np; [apply gslice_np; lia|]. discriminate.
  - apply bind_np; [apply lpp_np; lia|]. intros [b l] Hbl. apply lpp_ok in Hbl.
    apply bind_np; [apply gslice_np; lia|]. discriminate.
  - (* T[] *)
    apply bind_np; [apply lpp_np; lia|]. intros [b l] Hbl. apply lpp_ok in Hbl.
    apply bind_np; [apply gslice_np; lia|]. intros out' _.
    apply for_each_unpack_np; [|apply type_size_nonneg|lia]. intros i Hi'. now apply IHt.
  - (* T[k] *)
    np_word. destruct (dynamic t).
    + apply bind_np; [apply gslice_np; lia|]. intros w8 _.
      dif; [discriminate|].
      apply bind_np; [apply gslice_np; lia|]. intros out' _.
      apply for_each_unpack_np; [|apply type_size_nonneg|lia]. intros i Hi'. now apply IHt.
    + apply bind_np; [apply gslice_np; lia|]. intros out' _.
      apply for_each_unpack_np; [|apply type_size_nonneg|lia]. intros i Hi'. now apply IHt.
  - (* tuple *)
    assert (Hf : forall out', Forall (fun t => forall i, 0 <= i -> to_go_type t i out' <> Panic) ts).
    { intros out'. rewrite forallb_forall in Hnt. rewrite Forall_forall in *.
      intros t Ht i Hi'. apply H; auto. }
    np_word. destruct (existsb dynamic ts).
    + apply bind_np; [apply tpt_np; lia|]. intros b Hb. apply tpt_ok in Hb.
      apply bind_np; [apply gslice_np; lia|]. intros out' _.
      apply bind_np; [|discriminate]. apply unpack_fields_np; [apply Hf|lia].
    + apply bind_np; [apply gslice_np; lia|]. intros out' _.
      apply bind_np; [|discriminate]. apply unpack_fields_np; [apply Hf|lia].
Qed.

Lemma unpack_args_np ts data :
  forallb ty_newtype ts = true -> unpack_args ts data <> Panic.
Proof.
  intros Hnt. unfold unpack_args, unpack_values.
  destruct data as [|x data]; [destruct ts; discriminate|].
  apply unpack_fields_np; [|lia].
  rewrite forallb_forall in Hnt. apply Forall_forall. intros t Ht i Hi.
  apply to_go_type_np; auto.
Qed.
