(* Trie/IterProofs.v — the iterator state machine of Trie/Iter.v (iterator.go)
   drained over a canonical in-memory trie yields exactly [entries], never runs
   out of fuel and never panics; [entries] holds exactly the key-value pairs of
   the trie. *)
From Coq Require Import Sorted.
From GV Require Import Lib.Tactics Trie.Hex Trie.HexProofs Trie.Node Trie.Ops Trie.OpsProofs Trie.Canon Trie.Iter.
Local Open Scope N_scope.

(* one nodeIterator.Next(true) from a running iterator *)
Definition nstep (it : iter) : tres (option iter) :=
  peek_push (S (length (it_stack it))) (it_stack it) (it_path it).

Definition olist {A} (o : option A) : list A := match o with Some a => [a] | None => [] end.

(* [yields r m l]: [r] is the result of a Next call; iterating on from there
   arrives at [m] more nodes, reports the leaves [l], and ends without error *)
Inductive yields : tres (option iter) -> nat -> list (list N * list N) -> Prop :=
| y_end : yields (TOk None) 0 []
| y_arrive it o m l :
    leaf_of it = TOk o -> yields (nstep it) m l ->
    yields (TOk (Some it)) (S m) (olist o ++ l).

Definition unhex (l : list (list N * list N)) : list (list N * list N) :=
  map (fun qv => (match hex_to_keybytes (fst qv) with Some k => k | None => [] end, snd qv)) l.

(* where the iterator may arrive: at a value under a complete key, or at a
   canonical node under a nibble path *)
Definition ipos (n : node) (p : list N) : Prop :=
  (exists v, n = NValue v /\ valid_key p) \/ (can n /\ nibbles p).

(* every leaf path below is the hex form of a byte key *)
Definition bk (n : node) (p : list N) : Prop :=
  forall q v, In (q, v) (entries n p) -> exists k, hex_to_keybytes q = Some k.

(* ---- entries / nsize of a full node, unfolded ---- *)

Definition ents_of (cs : list node) (p : list N) (todo : list nat) : list (list N * list N) :=
  flat_map (fun i => match nth_error cs i with
                     | Some c => entries c (p ++ [N.of_nat i])
                     | None => []
                     end) todo.

Definition size_of (cs : list node) (todo : list nat) : nat :=
  list_sum (map (fun i => match nth_error cs i with Some c => nsize c | None => O end) todo).

Lemma entries_full cs p : entries (NFull cs) p = ents_of cs p visit_order.
Proof.
  unfold ents_of. cbn [entries]. apply flat_map_ext. intros i.
  assert (E : (fix mp (l : list node) : list (list N -> list (list N * list N)) :=
               match l with [] => [] | c :: r => entries c :: mp r end) cs = map entries cs).
  { induction cs as [|c cs IH]; [reflexivity|]. simpl; f_equal; try exact IH. }
  rewrite E, nth_error_map. destruct (nth_error cs i); reflexivity.
Qed.

Lemma nsize_full cs : length cs = 17%nat -> nsize (NFull cs) = S (size_of cs visit_order).
Proof.
  intros H. do 17 (destruct cs as [|? cs]; [discriminate|]). destruct cs; [|discriminate].
  unfold size_of, visit_order. simpl. lia.
Qed.

Lemma size_of_cons cs j todo :
  size_of cs (j :: todo) =
  (match nth_error cs j with Some c => nsize c | None => O end + size_of cs todo)%nat.
Proof. reflexivity. Qed.

Lemma ents_of_cons cs p j todo :
  ents_of cs p (j :: todo) =
  match nth_error cs j with Some c => entries c (p ++ [N.of_nat j]) | None => [] end ++ ents_of cs p todo.
Proof. reflexivity. Qed.

Lemma unhex_app a b : unhex (a ++ b) = unhex a ++ unhex b.
Proof. apply map_app. Qed.

Lemma entries_short k c p : entries (NShort k c) p = entries c (p ++ k).
Proof. reflexivity. Qed.

(* ---- the traversal order ---- *)

Definition last_idx (done : list nat) : Z :=
  match rev done with [] => (-1)%Z | x :: _ => Z.of_nat x end.

Definition start_of (todo : list nat) : Z :=
  match todo with [] => 17%Z | j :: _ => Z.of_nat j end.

Lemma split_facts done todo : visit_order = done ++ todo ->
  next_ci (last_idx done) = start_of todo /\ Forall (fun j => (j < 17)%nat) todo.
Proof.
  intros H. unfold visit_order in H.
  do 18 (destruct done as [|? done];
         [simpl in H; subst todo; split; [reflexivity|repeat constructor]
         |simpl in H; try discriminate; injection H as <- H]).
Qed.

Lemma last_idx_snoc done j : last_idx (done ++ [j]) = Z.of_nat j.
Proof. unfold last_idx. rewrite rev_app_distr. reflexivity. Qed.

Lemma next_prev_ci j : (j < 17)%nat -> next_ci (prev_ci (Z.of_nat j)) = Z.of_nat j.
Proof.
  intros H. do 17 (destruct j as [|j]; [reflexivity|]). lia.
Qed.

(* first non-empty child among [todo] *)
Fixpoint first_ne (cs : list node) (todo : list nat) : option (node * Z) :=
  match todo with
  | [] => None
  | j :: r =>
      match nth_error cs j with
      | Some NEmpty | None => first_ne cs r
      | Some c => Some (c, Z.of_nat j)
      end
  end.

Lemma find_child_spec cs : length cs = 17%nat -> forall todo done f,
  visit_order = done ++ todo -> (length todo < f)%nat ->
  find_child f cs (start_of todo) = TOk (first_ne cs todo).
Proof.
  intros HL. induction todo as [|j todo IH]; intros done f Hs Hf.
  - destruct f; [lia|]. reflexivity.
  - destruct f; [simpl in Hf; lia|].
    destruct (split_facts _ _ Hs) as [_ Hlt]. inversion Hlt as [|? ? Hj _]; subst.
    assert (Hs' : visit_order = (done ++ [j]) ++ todo) by (rewrite <- app_assoc; exact Hs).
    destruct (split_facts _ _ Hs') as [Hn _]. rewrite last_idx_snoc in Hn.
    cbn [find_child start_of first_ne].
    replace (Z.ltb (Z.of_nat j) 17) with true by (symmetry; apply Z.ltb_lt; lia).
    replace (Z.ltb (Z.of_nat j) 0) with false by (symmetry; apply Z.ltb_ge; lia).
    rewrite Nat2Z.id.
    destruct (nth_error cs j) as [c|] eqn:Ec; [|apply nth_error_None in Ec; lia].
    destruct c; try reflexivity. rewrite Hn. apply (IH (done ++ [j])); [exact Hs'|simpl in Hf; lia].
Qed.

(* ---- the refinement ---- *)

Lemma has_term_valid p : valid_key p -> has_term p = true.
Proof. intros H. destruct (valid_key_snoc _ H) as [q ->]. apply has_term_app_16. Qed.

Lemma has_term_nibbles p : nibbles p -> has_term p = false.
Proof. intros H. apply has_term_nib_false. apply nibbles_forallb. exact H. Qed.

Definition arrive (n : node) (pl : nat) (rest : list ist) (p : list N) : iter :=
  mkIter (mkIst n (-1) pl :: rest) p.

Definition sub_ok (n : node) : Prop :=
  forall rest pl p m l, ipos n p -> bk n p ->
    yields (peek_push (S (length rest)) rest (firstn pl p)) m l ->
    yields (TOk (Some (arrive n pl rest p))) (m + nsize n) (unhex (entries n p) ++ l).

Lemma full_children cs rest pl p :
  can (NFull cs) -> nibbles p -> bk (NFull cs) p -> Forall sub_ok cs ->
  forall todo done idx m l,
    visit_order = done ++ todo -> next_ci idx = start_of todo ->
    yields (peek_push (S (length rest)) rest (firstn pl p)) m l ->
    yields (peek_push (S (S (length rest))) (mkIst (NFull cs) idx pl :: rest) p)
           (m + size_of cs todo) (unhex (ents_of cs p todo) ++ l).
Proof.
  intros Hcan Hp Hbk Hsub. destruct (can_full_inv _ Hcan) as (HL & Hch & H16 & _).
  induction todo as [|j todo IH]; intros done idx m l Hs Hidx HK.
  - cbn [peek_push next_child i_node i_index i_pathlen]. rewrite Hidx.
    rewrite (find_child_spec cs HL [] done 19 Hs ltac:(simpl; lia)). cbn [first_ne].
    unfold size_of, ents_of. simpl. rewrite Nat.add_0_r. exact HK.
  - destruct (split_facts _ _ Hs) as [_ Hlt]. inversion Hlt as [|? ? Hj _]; subst.
    assert (Hs' : visit_order = (done ++ [j]) ++ todo) by (rewrite <- app_assoc; exact Hs).
    destruct (split_facts _ _ Hs') as [Hn _]. rewrite last_idx_snoc in Hn.
    destruct (nth_error cs j) as [c|] eqn:Ec; [|apply nth_error_None in Ec; lia].
    assert (Hfc : find_child 19 cs (start_of (j :: todo)) = TOk (first_ne cs (j :: todo)))
      by (apply (find_child_spec cs HL _ done); [exact Hs|simpl; apply split_facts in Hs as [_ F];
          apply (f_equal (@length nat)) in Hs'; rewrite app_length in Hs'; simpl in *; lia]).
    assert (Hfc' : find_child 19 cs (start_of todo) = TOk (first_ne cs todo))
      by (apply (find_child_spec cs HL _ (done ++ [j])); [exact Hs'|
          apply (f_equal (@length nat)) in Hs'; rewrite app_length in Hs'; simpl in *; lia]).
    specialize (IH (done ++ [j]) (Z.of_nat j) m l Hs' Hn HK).
    rewrite size_of_cons, ents_of_cons, Ec.
    destruct (is_empty c) eqn:Ee.
    + (* empty slot: skipped by findChild *)
      destruct c; try discriminate. cbn [entries nsize app]. rewrite Nat.add_0_l.
      cbn [peek_push next_child i_node i_index i_pathlen] in IH |- *.
      rewrite Hidx, Hfc. rewrite Hn, Hfc' in IH. cbn [first_ne]. rewrite Ec. exact IH.
    + (* a child: arrive there, iterate it, come back *)
      assert (Hfn : first_ne cs (j :: todo) = Some (c, Z.of_nat j))
        by (cbn [first_ne]; rewrite Ec; destruct c; try reflexivity; discriminate).
      assert (Hpos : ipos c (p ++ [N.of_nat j])).
      { destruct (Nat.eq_dec j 16) as [->|Nj].
        - destruct (H16 _ Ec) as [->|[v ->]]; [discriminate|]. left. exists v. split; [reflexivity|].
          apply valid_key_app. exact Hp.
        - right. destruct (Hch _ _ Ec ltac:(lia)) as [->|Hc]; [discriminate|]. split; [exact Hc|].
          apply nibbles_app. split; [exact Hp|]. constructor; [lia|constructor]. }
      assert (Hbkc : bk c (p ++ [N.of_nat j])).
      { intros q v Hin. apply (Hbk q v). rewrite entries_full. unfold ents_of. apply in_flat_map.
        exists j. split; [|rewrite Ec; exact Hin]. rewrite Hs. apply in_or_app. right. left. reflexivity. }
      assert (Hnh : match c with NHash _ => False | _ => True end).
      { destruct Hpos as [(v & -> & _)|[Hc _]]; [exact I|]. inversion Hc; exact I. }
      rewrite Forall_forall in Hsub. pose proof (Hsub c (nth_error_In _ _ Ec)) as Hc.
      specialize (Hc (mkIst (NFull cs) (Z.of_nat j) pl :: rest) (length p) (p ++ [N.of_nat j])
                     (m + size_of cs todo)%nat (unhex (ents_of cs p todo) ++ l) Hpos Hbkc).
      rewrite firstn_app_exact in Hc. cbn [length] in Hc. specialize (Hc IH).
      cbn [peek_push next_child i_node i_index i_pathlen]. rewrite Hidx, Hfc, Hfn.
      cbn [i_node i_index i_pathlen]. rewrite (next_prev_ci j Hj).
      replace (Z.to_N (Z.of_nat j)) with (N.of_nat j) by lia.
      unfold arrive in Hc. rewrite unhex_app, <- app_assoc.
      replace (m + (nsize c + size_of cs todo))%nat with (m + size_of cs todo + nsize c)%nat by lia.
      destruct c; try exact Hc. destruct Hnh.
Qed.

Lemma sub_ok_all n : sub_ok n.
Proof.
  induction n as [|v|k c IH|cs IH|h] using node_ind'; intros rest pl p m l Hpos Hbk HK.
  - destruct Hpos as [(v & E & _)|[Hc _]]; [discriminate|inversion Hc].
  - (* a value: reported, then popped *)
    destruct Hpos as [(v' & E & Hv)|[Hc _]]; [|inversion Hc]. inversion E; subst v'.
    destruct (Hbk p v (or_introl eq_refl)) as [kb Ekb].
    replace (m + nsize (NValue v))%nat with (S m) by (simpl; lia).
    change (unhex (entries (NValue v) p) ++ l)
      with (olist (Some (match hex_to_keybytes p with Some k => k | None => [] end, v)) ++ l).
    apply y_arrive.
    + unfold leaf_of, arrive. cbn [it_path it_stack]. rewrite (has_term_valid _ Hv), Ekb. reflexivity.
    + unfold nstep, arrive. cbn [it_path it_stack length peek_push next_child i_node i_pathlen]. exact HK.
  - (* a short node *)
    destruct Hpos as [(v & E & _)|[Hc Hp]]; [discriminate|].
    assert (Hposc : ipos c (p ++ k)).
    { destruct (can_short_inv _ _ Hc) as [[Hk [v ->]]|(Hk & Hne & cs & -> & Hcf)].
      - left. exists v. split; [reflexivity|]. apply valid_key_nib_app; assumption.
      - right. split; [assumption|]. apply nibbles_app. auto. }
    assert (Hnh : match c with NHash _ => False | _ => True end).
    { destruct Hposc as [(v & -> & _)|[Hcc _]]; [exact I|]. inversion Hcc; exact I. }
    specialize (IH (mkIst (NShort k c) 16 pl :: rest) (length p) (p ++ k) m l Hposc Hbk).
    rewrite firstn_app_exact in IH. cbn [length] in IH.
    assert (HK' : yields (peek_push (S (S (length rest))) (mkIst (NShort k c) 16 pl :: rest) p) m l).
    { cbn [peek_push next_child i_node i_index i_pathlen]. exact HK. }
    specialize (IH HK').
    replace (m + nsize (NShort k c))%nat with (S (m + nsize c)) by (simpl; lia).
    rewrite entries_short. change (unhex (entries c (p ++ k)) ++ l)
      with (olist (@None (list N * list N)) ++ (unhex (entries c (p ++ k)) ++ l)).
    apply y_arrive.
    + unfold leaf_of, arrive. cbn [it_path]. rewrite (has_term_nibbles _ Hp). reflexivity.
    + unfold nstep, arrive. cbn [it_path it_stack length peek_push next_child i_node i_index i_pathlen].
      unfold arrive in IH. destruct c; try exact IH. destruct Hnh.
  - (* a full node *)
    destruct Hpos as [(v & E & _)|[Hc Hp]]; [discriminate|].
    destruct (can_full_inv _ Hc) as (HL & _).
    rewrite (nsize_full cs HL), entries_full.
    replace (m + S (size_of cs visit_order))%nat with (S (m + size_of cs visit_order)) by lia.
    change (unhex (ents_of cs p visit_order) ++ l)
      with (olist (@None (list N * list N)) ++ (unhex (ents_of cs p visit_order) ++ l)).
    apply y_arrive.
    + unfold leaf_of, arrive. cbn [it_path]. rewrite (has_term_nibbles _ Hp). reflexivity.
    + unfold nstep, arrive. cbn [it_path it_stack length].
      apply (full_children cs rest pl p Hc Hp Hbk IH visit_order [] (-1)%Z m l eq_refl eq_refl HK).
  - destruct Hpos as [(v & E & _)|[Hc _]]; [discriminate|inversion Hc].
Qed.

(* ---- from the relation to the fuel-driven loops ---- *)

Definition lift (r : tres (option iter)) : tres istate :=
  match r with
  | TOk None => TOk IEnd
  | TOk (Some it) => TOk (IRun it)
  | TErr e => TErr e
  end.

Lemma node_next_run root it : node_next root (IRun it) = lift (nstep it).
Proof. unfold node_next, nstep, lift. destruct (peek_push _ _ _) as [[?|]|]; reflexivity. Qed.

Lemma kv_next_yields root r m l : yields r m l -> forall s f,
  node_next root s = lift r -> (m < f)%nat ->
  (l = [] /\ kv_next f root s = TOk (IEnd, None)) \/
  (exists kv l' it' m', l = kv :: l' /\ kv_next f root s = TOk (IRun it', Some kv) /\
                        yields (nstep it') m' l' /\ (m' < m)%nat).
Proof.
  induction 1 as [|it o m l Hleaf Hy IH]; intros s f Hn Hf.
  - left. split; [reflexivity|]. destruct f; [lia|]. cbn [kv_next]. rewrite Hn. reflexivity.
  - destruct f; [lia|]. cbn [kv_next]. rewrite Hn. cbn [lift]. rewrite Hleaf. destruct o as [kv|].
    + right. exists kv, l, it, m. auto.
    + destruct (IH (IRun it) f (node_next_run root it) ltac:(lia)) as [[-> E]|(kv & l' & it' & m' & -> & E & Hy' & Hm')].
      * left. auto.
      * right. exists kv, l', it', m'. repeat split; auto.
Qed.

Lemma iter_all_yields root : forall f r m l s, yields r m l ->
  node_next root s = lift r -> (m < f)%nat -> iter_all f root s = TOk l.
Proof.
  induction f as [|f IH]; intros r m l s Hy Hn Hf; [lia|].
  cbn [iter_all].
  destruct (kv_next_yields root r m l Hy s (S f) Hn Hf) as [[-> E]|(kv & l' & it' & m' & -> & E & Hy' & Hm')].
  - rewrite E. reflexivity.
  - rewrite E. rewrite (IH _ _ _ (IRun it') Hy' (node_next_run root it') ltac:(lia)). reflexivity.
Qed.

(* the drained iterator = entries, with the fuel the model passes *)
Theorem iterate_entries t : canon t -> bk t [] ->
  trie_iterate t = TOk (unhex (entries t [])).
Proof.
  intros [->|Hc] Hbk; [reflexivity|].
  unfold trie_iterate, iter_fuel.
  pose proof (sub_ok_all t [] O [] O [] (or_intror (conj Hc (Forall_nil _))) Hbk y_end) as Hy.
  rewrite app_nil_r in Hy. simpl in Hy.
  apply (iter_all_yields t _ _ _ _ IStart Hy); [|lia].
  unfold node_next, arrive, lift. inversion Hc; reflexivity.
Qed.

(* ---- entries are exactly the lookups ---- *)

Lemma in_visit_order j : (j < 17)%nat -> In j visit_order.
Proof.
  intros H. unfold visit_order. do 17 (destruct j as [|j]; [simpl; intuition congruence|]). lia.
Qed.

Lemma entries_lk n : forall p q v, ipos n p ->
  (In (q, v) (entries n p) <-> exists k, q = p ++ k /\ lk n k = Some v).
Proof.
  induction n as [|v0|k0 c IH|cs IH|h] using node_ind'; intros p q v Hpos.
  - destruct Hpos as [(? & E & _)|[Hc _]]; [discriminate|inversion Hc].
  - simpl. split.
    + intros [E|[]]. inversion E; subst. exists []. rewrite app_nil_r. auto.
    + intros (k & -> & Hl). rewrite lk_value in Hl. destruct k; [|discriminate].
      inversion Hl; subst. rewrite app_nil_r. left. reflexivity.
  - destruct Hpos as [(? & E & _)|[Hc Hp]]; [discriminate|]. rewrite entries_short.
    assert (Hposc : ipos c (p ++ k0)).
    { destruct (can_short_inv _ _ Hc) as [[Hk [v1 ->]]|(Hk & Hne & cs & -> & Hcf)].
      - left. exists v1. split; [reflexivity|]. apply valid_key_nib_app; assumption.
      - right. split; [assumption|]. apply nibbles_app. auto. }
    rewrite (IH _ q v Hposc). split.
    + intros (k & -> & Hl). exists (k0 ++ k). split; [rewrite app_assoc; reflexivity|].
      rewrite lk_short, strip_app_same. exact Hl.
    + intros (k & -> & Hl). rewrite lk_short in Hl. destruct (strip k0 k) as [r|] eqn:S; [|discriminate].
      apply strip_some in S. subst k. exists r. split; [rewrite app_assoc; reflexivity|exact Hl].
  - destruct Hpos as [(? & E & _)|[Hc Hp]]; [discriminate|].
    destruct (can_full_inv _ Hc) as (HL & Hch & H16 & _).
    rewrite entries_full. unfold ents_of. rewrite in_flat_map.
    assert (Hchild : forall j c, nth_error cs j = Some c -> c <> NEmpty -> ipos c (p ++ [N.of_nat j])).
    { intros j c Ec Hne. assert (Hj : (j < 17)%nat) by (rewrite <- HL; apply nth_error_Some; congruence).
      destruct (Nat.eq_dec j 16) as [->|Nj].
      - destruct (H16 _ Ec) as [->|[v1 ->]]; [congruence|]. left. exists v1. split; [reflexivity|].
        apply valid_key_app. exact Hp.
      - right. destruct (Hch _ _ Ec ltac:(lia)) as [->|Hcc]; [congruence|]. split; [exact Hcc|].
        apply nibbles_app. split; [exact Hp|]. constructor; [lia|constructor]. }
    rewrite Forall_forall in IH. split.
    + intros (j & Hj & Hin). destruct (nth_error cs j) as [c|] eqn:Ec; [|destruct Hin].
      destruct (is_empty c) eqn:Ee; [destruct c; try discriminate; destruct Hin|].
      assert (Hne : c <> NEmpty) by (intros ->; discriminate).
      apply (IH c (nth_error_In _ _ Ec) _ q v (Hchild _ _ Ec Hne)) in Hin as (k & -> & Hl).
      exists (N.of_nat j :: k). split; [rewrite <- app_assoc; reflexivity|].
      rewrite lk_full, Nat2N.id, Ec. exact Hl.
    + intros (k & -> & Hl). destruct k as [|x k]; [rewrite lk_full_nil in Hl; discriminate|].
      rewrite lk_full in Hl. destruct (nth_error cs (N.to_nat x)) as [c|] eqn:Ec; [|discriminate].
      assert (Hne : c <> NEmpty) by (intros ->; rewrite lk_empty in Hl; discriminate).
      assert (Hx : (N.to_nat x < 17)%nat) by (rewrite <- HL; apply nth_error_Some; congruence).
      exists (N.to_nat x). split.
      * apply in_visit_order. exact Hx.
      * rewrite Ec. apply (IH c (nth_error_In _ _ Ec) _ _ v (Hchild _ _ Ec Hne)).
        exists k. rewrite N2Nat.id, <- app_assoc. auto.
  - destruct Hpos as [(? & E & _)|[Hc _]]; [discriminate|inversion Hc].
Qed.

(* ---- ascending order ---- *)

(* order of traversal inside a full node: the terminator (value slot) first *)
Definition rank (x : N) : N := if N.eqb x 16 then 0 else x + 1.

(* lexicographic order on hex paths by [rank] *)
Fixpoint hltb (a b : list N) : bool :=
  match a, b with
  | [], _ :: _ => true
  | x :: a', y :: b' =>
      if N.ltb (rank x) (rank y) then true
      else if N.eqb (rank x) (rank y) then hltb a' b' else false
  | _, [] => false
  end.

(* bytes.Compare(a, b) < 0 *)
Fixpoint bltb (a b : list N) : bool :=
  match a, b with
  | [], _ :: _ => true
  | x :: a', y :: b' =>
      if N.ltb x y then true else if N.eqb x y then bltb a' b' else false
  | _, [] => false
  end.

Lemma hltb_prefix p a b : hltb (p ++ a) (p ++ b) = hltb a b.
Proof. induction p as [|z p IH]; [reflexivity|]. simpl. rewrite N.ltb_irrefl, N.eqb_refl. exact IH. Qed.

Lemma rank_nib z : z < 16 -> rank z = z + 1.
Proof. intros H. unfold rank. destruct (N.eqb_spec z 16); [lia|reflexivity]. Qed.

Lemma hltb_hex k1 : forall k2, bytes_key k1 -> bytes_key k2 ->
  hltb (keybytes_to_hex k1) (keybytes_to_hex k2) = bltb k1 k2.
Proof.
  unfold bytes_key, keybytes_to_hex.
  induction k1 as [|x a IH]; intros [|y b] H1 H2; cbn [nibbles_of app hltb bltb forallb] in *.
  - reflexivity.
  - apply andb_true_iff in H2 as [Hy _]. unfold byteb in Hy.
    rewrite (rank_nib (y / 16)) by lia. change (rank 16) with 0.
    destruct (N.ltb_spec 0 (y / 16 + 1)); [reflexivity|lia].
  - apply andb_true_iff in H1 as [Hx _]. unfold byteb in Hx.
    rewrite (rank_nib (x / 16)) by lia. change (rank 16) with 0.
    destruct (N.ltb_spec (x / 16 + 1) 0); [lia|]. destruct (N.eqb_spec (x / 16 + 1) 0); [lia|reflexivity].
  - apply andb_true_iff in H1 as [Hx H1]. apply andb_true_iff in H2 as [Hy H2].
    unfold byteb in Hx, Hy. rewrite <- (IH b H1 H2).
    rewrite (rank_nib (x / 16)), (rank_nib (y / 16)), (rank_nib (x mod 16)), (rank_nib (y mod 16)) by lia.
    destruct (N.ltb_spec x y); destruct (N.eqb_spec x y);
      destruct (N.ltb_spec (x / 16 + 1) (y / 16 + 1)); destruct (N.eqb_spec (x / 16 + 1) (y / 16 + 1));
      destruct (N.ltb_spec (x mod 16 + 1) (y mod 16 + 1)); destruct (N.eqb_spec (x mod 16 + 1) (y mod 16 + 1));
      try reflexivity; lia.
Qed.

Lemma sorted_app {A} (R : A -> A -> Prop) l1 l2 :
  StronglySorted R l1 -> StronglySorted R l2 ->
  (forall a b, In a l1 -> In b l2 -> R a b) -> StronglySorted R (l1 ++ l2).
Proof.
  induction 1 as [|x l1 Hs IH Hx]; intros H2 Hc; [exact H2|]. simpl. constructor.
  - apply IH; [exact H2|]. intros a b Ha Hb. apply Hc; [right; exact Ha|exact Hb].
  - apply Forall_app. split; [exact Hx|]. apply Forall_forall. intros b Hb. apply Hc; [left; reflexivity|exact Hb].
Qed.

Definition hlt_ent (e1 e2 : list N * list N) : Prop := hltb (fst e1) (fst e2) = true.

Lemma rank_order done j todo : visit_order = done ++ j :: todo ->
  Forall (fun j' => rank (N.of_nat j) < rank (N.of_nat j')) todo.
Proof.
  intros H. unfold visit_order in H.
  do 17 (destruct done as [|? done];
         [simpl in H; injection H as <- <-; repeat constructor
         |simpl in H; try discriminate; injection H as <- H]).
  destruct done; discriminate.
Qed.

Lemma entries_sorted n : forall p, ipos n p -> StronglySorted hlt_ent (entries n p).
Proof.
  induction n as [|v0|k0 c IH|cs IH|h] using node_ind'; intros p Hpos.
  - constructor.
  - simpl. repeat constructor.
  - destruct Hpos as [(? & E & _)|[Hc Hp]]; [discriminate|]. rewrite entries_short. apply IH.
    destruct (can_short_inv _ _ Hc) as [[Hk [v1 ->]]|(Hk & Hne & cs & -> & Hcf)].
    + left. exists v1. split; [reflexivity|]. apply valid_key_nib_app; assumption.
    + right. split; [assumption|]. apply nibbles_app. auto.
  - destruct Hpos as [(? & E & _)|[Hc Hp]]; [discriminate|].
    destruct (can_full_inv _ Hc) as (HL & Hch & H16 & _).
    assert (Hchild : forall j c, nth_error cs j = Some c -> c <> NEmpty -> ipos c (p ++ [N.of_nat j])).
    { intros j c Ec Hne. assert (Hj : (j < 17)%nat) by (rewrite <- HL; apply nth_error_Some; congruence).
      destruct (Nat.eq_dec j 16) as [->|Nj].
      - destruct (H16 _ Ec) as [->|[v1 ->]]; [congruence|]. left. exists v1. split; [reflexivity|].
        apply valid_key_app. exact Hp.
      - right. destruct (Hch _ _ Ec ltac:(lia)) as [->|Hcc]; [congruence|]. split; [exact Hcc|].
        apply nibbles_app. split; [exact Hp|]. constructor; [lia|constructor]. }
    rewrite entries_full. rewrite Forall_forall in IH.
    assert (G : forall todo done, visit_order = done ++ todo ->
              StronglySorted hlt_ent (ents_of cs p todo) /\
              forall e, In e (ents_of cs p todo) -> exists j s, In j todo /\ fst e = p ++ N.of_nat j :: s).
    { induction todo as [|j todo IHt]; intros done Hs.
      - split; [constructor|intros e []].
      - assert (Hs' : visit_order = (done ++ [j]) ++ todo) by (rewrite <- app_assoc; exact Hs).
        destruct (IHt _ Hs') as [S1 P1]. rewrite ents_of_cons.
        assert (Pj : forall e, In e (match nth_error cs j with
                       | Some c => entries c (p ++ [N.of_nat j]) | None => [] end) ->
                     exists s, fst e = p ++ N.of_nat j :: s).
        { intros [q v] Hin. destruct (nth_error cs j) as [c|] eqn:Ec; [|destruct Hin].
          destruct (is_empty c) eqn:Ee; [destruct c; try discriminate; destruct Hin|].
          assert (Hne : c <> NEmpty) by (intros ->; discriminate).
          apply (entries_lk c _ q v (Hchild _ _ Ec Hne)) in Hin as (k & -> & _).
          exists k. simpl. rewrite <- app_assoc. reflexivity. }
        split.
        + apply sorted_app; [|exact S1|].
          * destruct (nth_error cs j) as [c|] eqn:Ec; [|constructor].
            destruct (is_empty c) eqn:Ee; [destruct c; try discriminate; constructor|].
            apply (IH c (nth_error_In _ _ Ec)). apply (Hchild _ _ Ec). intros ->; discriminate.
          * intros a b Ha Hb. destruct (Pj _ Ha) as [sa Ea]. destruct (P1 _ Hb) as (j' & sb & Hj' & Eb).
            unfold hlt_ent. rewrite Ea, Eb, hltb_prefix. simpl.
            pose proof (rank_order _ _ _ Hs) as Hr. rewrite Forall_forall in Hr. specialize (Hr _ Hj').
            destruct (N.ltb_spec (rank (N.of_nat j)) (rank (N.of_nat j'))); [reflexivity|lia].
        + intros e Hin. apply in_app_or in Hin as [Hin|Hin].
          * destruct (Pj _ Hin) as [s Es]. exists j, s. split; [left; reflexivity|exact Es].
          * destruct (P1 _ Hin) as (j' & s & Hj' & Es). exists j', s. split; [right; exact Hj'|exact Es]. }
    apply (G visit_order [] eq_refl).
  - constructor.
Qed.

Lemma sorted_map {A B} (R : A -> A -> Prop) (R' : B -> B -> Prop) (f : A -> B) l :
  StronglySorted R l ->
  (forall a b, In a l -> In b l -> R a b -> R' (f a) (f b)) ->
  StronglySorted R' (map f l).
Proof.
  induction 1 as [|x l Hs IH Hx]; intros Hf; [constructor|]. simpl. constructor.
  - apply IH. intros a b Ha Hb. apply Hf; right; assumption.
  - rewrite Forall_forall in *. intros y Hy. apply in_map_iff in Hy as (b & <- & Hb).
    apply Hf; [left; reflexivity|right; exact Hb|apply Hx; exact Hb].
Qed.

Lemma entries_lk_root t q v : canon t -> (In (q, v) (entries t []) <-> lk t q = Some v).
Proof.
  intros [->|Hc].
  - rewrite lk_empty. simpl. split; [tauto|discriminate].
  - rewrite (entries_lk t [] q v (or_intror (conj Hc (Forall_nil _)))). simpl. split.
    + intros (k & -> & H). exact H.
    + intros H. eauto.
Qed.

Definition blt_ent (e1 e2 : list N * list N) : Prop := bltb (fst e1) (fst e2) = true.

(* (g, iterator) draining NewIterator(t.NodeIterator(nil)) over the trie built by
   any history of updates never fails and yields exactly the final key-value
   map, in strictly ascending byte order of the keys (a key that is a prefix of
   another comes first) *)
Theorem iter_sorted_complete resolve ops t ev :
  bytes_ops ops -> update_seq resolve NEmpty ops = TOk (t, ev) ->
  exists L, trie_iterate t = TOk L /\
    (forall k v, In (k, v) L <-> bytes_key k /\ final_map ops k = Some v) /\
    StronglySorted blt_ent L.
Proof.
  intros HB Hu.
  destruct (update_seq_spec resolve ops HB NEmpty (fun _ => None) (or_introl eq_refl) lk_empty)
    as (t' & ev' & E & C & Lk).
  rewrite E in Hu. inversion Hu; subst t' ev'. clear Hu.
  assert (K : forall q v, lk t q = Some v ->
            exists kb, bytes_key kb /\ q = keybytes_to_hex kb /\ final_map ops kb = Some v).
  { intros q v Hl. rewrite Lk in Hl.
    destruct (in_dec (list_eq_dec N.eq_dec) q (map fst (hexops ops))) as [Hin|Hnin].
    - apply in_map_iff in Hin as ([hk' v'] & Eq & Hin). simpl in Eq. subst hk'.
      apply in_map_iff in Hin as ([kb v''] & Eq & Hin). simpl in Eq. inversion Eq; subst.
      assert (Hk : bytes_key kb).
      { unfold bytes_ops in HB. rewrite Forall_forall in HB. apply (HB _ Hin). }
      exists kb. split; [exact Hk|]. split; [reflexivity|]. unfold final_map.
      rewrite <- (apply_ops_hex ops HB (fun _ => None) (fun _ => None) kb Hk eq_refl). exact Hl.
    - rewrite apply_ops_notin in Hl by exact Hnin. discriminate. }
  assert (Hbk : bk t []).
  { intros q v Hin. apply (entries_lk_root t q v C) in Hin. destruct (K _ _ Hin) as (kb & Hk & -> & _).
    exists kb. apply keybytes_hex. exact Hk. }
  exists (unhex (entries t [])). split; [apply iterate_entries; assumption|]. split.
  - intros k v. unfold unhex. rewrite in_map_iff. split.
    + intros ([q v'] & Eq & Hin). simpl in Eq. injection Eq as Ek Ev. subst v'.
      apply (entries_lk_root t q v C) in Hin. destruct (K _ _ Hin) as (kb & Hk & -> & Hf).
      rewrite (keybytes_hex _ Hk) in Ek. subst kb. auto.
    + intros [Hk Hf]. exists (keybytes_to_hex k, v). simpl. rewrite (keybytes_hex _ Hk).
      split; [reflexivity|]. apply (entries_lk_root t _ v C). rewrite Lk.
      rewrite (apply_ops_hex ops HB (fun _ => None) (fun _ => None) k Hk eq_refl). exact Hf.
  - assert (Hs : StronglySorted hlt_ent (entries t [])).
    { destruct C as [->|Hc]; [constructor|]. apply entries_sorted. right. split; [exact Hc|constructor]. }
    unfold unhex. apply (sorted_map hlt_ent blt_ent _ _ Hs).
    intros [qa va] [qb vb] Ha Hb Hab. unfold hlt_ent, blt_ent in *. simpl in *.
    apply (entries_lk_root t qa va C) in Ha. apply (entries_lk_root t qb vb C) in Hb.
    destruct (K _ _ Ha) as (ka & Hka & -> & _). destruct (K _ _ Hb) as (kb & Hkb & -> & _).
    rewrite (keybytes_hex _ Hka), (keybytes_hex _ Hkb). rewrite <- hltb_hex by assumption. exact Hab.
Qed.

(* the same after any history mixing single updates and batches *)
Corollary iter_sorted_complete_hist resolve hs t :
  Forall hop_ok hs -> run_hist resolve NEmpty hs = TOk t ->
  exists L, trie_iterate t = TOk L /\
    (forall k v, In (k, v) L <-> bytes_key k /\ final_map (flat_map hop_kvs hs) k = Some v) /\
    StronglySorted blt_ent L.
Proof.
  intros Hok Hr.
  destruct (history_eq_sequential resolve hs Hok NEmpty (or_introl eq_refl)) as (t' & ev & R & S & _).
  rewrite R in Hr. inversion Hr; subst t'.
  exact (iter_sorted_complete resolve _ t ev (hist_bytes_ops resolve _ Hok) S).
Qed.
