(* Trie/IterProofs.v — the iterator state machine of Trie/Iter.v (iterator.go)
   drained over a canonical in-memory trie yields exactly [entries], never runs
   out of fuel and never panics; [entries] holds exactly the key-value pairs of
   the trie. *)
From GV Require Import Lib.Tactics Trie.Hex Trie.HexProofs Trie.Node Trie.Ops Trie.OpsProofs Trie.Canon Trie.Iter.
Local Open Scope N_scope.

(* one nodeIterator.Next(true) from a running iterator *)
Definition nstep (it : iter) : tres (option iter) :=
  peek_push (S (length (it_stack it))) (it_stack it) (it_path it).

Definition olist {A} (o : option A) : list A := match o with Some a => [a] | None => [] end.

(* [yields r m l]: [r] is the result of a Next call; iterating on from there
   arrives at [m] more nodes, reports the leaves [l], and ends without error *)
Inductive yields : tres (option iter) -> nat -> list (list N * list N) -> Prop :=
| y_end : yields (TOk None) 0 []
| y_arrive it o m l :
    leaf_of it = TOk o -> yields (nstep it) m l ->
    yields (TOk (Some it)) (S m) (olist o ++ l).

Definition unhex (l : list (list N * list N)) : list (list N * list N) :=
  map (fun qv => (match hex_to_keybytes (fst qv) with Some k => k | None => [] end, snd qv)) l.

(* where the iterator may arrive: at a value under a complete key, or at a
   canonical node under a nibble path *)
Definition ipos (n : node) (p : list N) : Prop :=
  (exists v, n = NValue v /\ valid_key p) \/ (can n /\ nibbles p).

(* every leaf path below is the hex form of a byte key *)
Definition bk (n : node) (p : list N) : Prop :=
  forall q v, In (q, v) (entries n p) -> exists k, hex_to_keybytes q = Some k.

(* ---- entries / nsize of a full node, unfolded ---- *)

Definition ents_of (cs : list node) (p : list N) (todo : list nat) : list (list N * list N) :=
  flat_map (fun i => match nth_error cs i with
                     | Some c => entries c (p ++ [N.of_nat i])
                     | None => []
                     end) todo.

Definition size_of (cs : list node) (todo : list nat) : nat :=
  list_sum (map (fun i => match nth_error cs i with Some c => nsize c | None => O end) todo).

Lemma entries_full cs p : entries (NFull cs) p = ents_of cs p visit_order.
Proof.
  unfold ents_of. cbn [entries]. apply flat_map_ext. intros i.
  assert (E : (fix mp (l : list node) : list (list N -> list (list N * list N)) :=
               match l with [] => [] | c :: r => entries c :: mp r end) cs = map entries cs).
  { induction cs as [|c cs IH]; [reflexivity|]. simpl; f_equal; try exact IH. }
  rewrite E, nth_error_map. destruct (nth_error cs i); reflexivity.
Qed.

Lemma nsize_full cs : length cs = 17%nat -> nsize (NFull cs) = S (size_of cs visit_order).
Proof.
  intros H. do 17 (destruct cs as [|? cs]; [discriminate|]). destruct cs; [|discriminate].
  unfold size_of, visit_order. simpl. lia.
Qed.

Lemma size_of_cons cs j todo :
  size_of cs (j :: todo) =
  (match nth_error cs j with Some c => nsize c | None => O end + size_of cs todo)%nat.
Proof. reflexivity. Qed.

Lemma ents_of_cons cs p j todo :
  ents_of cs p (j :: todo) =
  match nth_error cs j with Some c => entries c (p ++ [N.of_nat j]) | None => [] end ++ ents_of cs p todo.
Proof. reflexivity. Qed.

Lemma unhex_app a b : unhex (a ++ b) = unhex a ++ unhex b.
Proof. apply map_app. Qed.

Lemma entries_short k c p : entries (NShort k c) p = entries c (p ++ k).
Proof. reflexivity. Qed.

(* ---- the traversal order ---- *)

Definition last_idx (done : list nat) : Z :=
  match rev done with [] => (-1)%Z | x :: _ => Z.of_nat x end.

Definition start_of (todo : list nat) : Z :=
  match todo with [] => 17%Z | j :: _ => Z.of_nat j end.

Lemma split_facts done todo : visit_order = done ++ todo ->
  next_ci (last_idx done) = start_of todo /\ Forall (fun j => (j < 17)%nat) todo.
Proof.
  intros H. unfold visit_order in H.
  do 18 (destruct done as [|? done];
         [simpl in H; subst todo; split; [reflexivity|repeat constructor]
         |simpl in H; try discriminate; injection H as <- H]).
Qed.

Lemma last_idx_snoc done j : last_idx (done ++ [j]) = Z.of_nat j.
Proof. unfold last_idx. rewrite rev_app_distr. reflexivity. Qed.

Lemma next_prev_ci j : (j < 17)%nat -> next_ci (prev_ci (Z.of_nat j)) = Z.of_nat j.
Proof.
  intros H. do 17 (destruct j as [|j]; [reflexivity|]). lia.
Qed.

(* first non-empty child among [todo] *)
Fixpoint first_ne (cs : list node) (todo : list nat) : option (node * Z) :=
  match todo with
  | [] => None
  | j :: r =>
      match nth_error cs j with
      | Some NEmpty | None => first_ne cs r
      | Some c => Some (c, Z.of_nat j)
      end
  end.

Lemma find_child_spec cs : length cs = 17%nat -> forall todo done f,
  visit_order = done ++ todo -> (length todo < f)%nat ->
  find_child f cs (start_of todo) = TOk (first_ne cs todo).
Proof.
  intros HL. induction todo as [|j todo IH]; intros done f Hs Hf.
  - destruct f; [lia|]. reflexivity.
  - destruct f; [simpl in Hf; lia|].
    destruct (split_facts _ _ Hs) as [_ Hlt]. inversion Hlt as [|? ? Hj _]; subst.
    assert (Hs' : visit_order = (done ++ [j]) ++ todo) by (rewrite <- app_assoc; exact Hs).
    destruct (split_facts _ _ Hs') as [Hn _]. rewrite last_idx_snoc in Hn.
    cbn [find_child start_of first_ne].
    replace (Z.ltb (Z.of_nat j) 17) with true by (symmetry; apply Z.ltb_lt; lia).
    replace (Z.ltb (Z.of_nat j) 0) with false by (symmetry; apply Z.ltb_ge; lia).
    rewrite Nat2Z.id.
    destruct (nth_error cs j) as [c|] eqn:Ec; [|apply nth_error_None in Ec; lia].
    destruct c; try reflexivity. rewrite Hn. apply (IH (done ++ [j])); [exact Hs'|simpl in Hf; lia].
Qed.

(* ---- the refinement ---- *)

Lemma has_term_valid p : valid_key p -> has_term p = true.
Proof. intros H. destruct (valid_key_snoc _ H) as [q ->]. apply has_term_app_16. Qed.

Lemma has_term_nibbles p : nibbles p -> has_term p = false.
Proof. intros H. apply has_term_nib_false. apply nibbles_forallb. exact H. Qed.

Definition arrive (n : node) (pl : nat) (rest : list ist) (p : list N) : iter :=
  mkIter (mkIst n (-1) pl :: rest) p.

Definition sub_ok (n : node) : Prop :=
  forall rest pl p m l, ipos n p -> bk n p ->
    yields (peek_push (S (length rest)) rest (firstn pl p)) m l ->
    yields (TOk (Some (arrive n pl rest p))) (m + nsize n) (unhex (entries n p) ++ l).

Lemma full_children cs rest pl p :
  can (NFull cs) -> nibbles p -> bk (NFull cs) p -> Forall sub_ok cs ->
  forall todo done idx m l,
    visit_order = done ++ todo -> next_ci idx = start_of todo ->
    yields (peek_push (S (length rest)) rest (firstn pl p)) m l ->
    yields (peek_push (S (S (length rest))) (mkIst (NFull cs) idx pl :: rest) p)
           (m + size_of cs todo) (unhex (ents_of cs p todo) ++ l).
Proof.
  intros Hcan Hp Hbk Hsub. destruct (can_full_inv _ Hcan) as (HL & Hch & H16 & _).
  induction todo as [|j todo IH]; intros done idx m l Hs Hidx HK.
  - cbn [peek_push next_child i_node i_index i_pathlen]. rewrite Hidx.
    rewrite (find_child_spec cs HL [] done 19 Hs ltac:(simpl; lia)). cbn [first_ne].
    unfold size_of, ents_of. simpl. rewrite Nat.add_0_r. exact HK.
  - destruct (split_facts _ _ Hs) as [_ Hlt]. inversion Hlt as [|? ? Hj _]; subst.
    assert (Hs' : visit_order = (done ++ [j]) ++ todo) by (rewrite <- app_assoc; exact Hs).
    destruct (split_facts _ _ Hs') as [Hn _]. rewrite last_idx_snoc in Hn.
    destruct (nth_error cs j) as [c|] eqn:Ec; [|apply nth_error_None in Ec; lia].
    assert (Hfc : find_child 19 cs (start_of (j :: todo)) = TOk (first_ne cs (j :: todo)))
      by (apply (find_child_spec cs HL _ done); [exact Hs|simpl; apply split_facts in Hs as [_ F];
          apply (f_equal (@length nat)) in Hs'; rewrite app_length in Hs'; simpl in *; lia]).
    assert (Hfc' : find_child 19 cs (start_of todo) = TOk (first_ne cs todo))
      by (apply (find_child_spec cs HL _ (done ++ [j])); [exact Hs'|
          apply (f_equal (@length nat)) in Hs'; rewrite app_length in Hs'; simpl in *; lia]).
    specialize (IH (done ++ [j]) (Z.of_nat j) m l Hs' Hn HK).
    rewrite size_of_cons, ents_of_cons, Ec.
    destruct (is_empty c) eqn:Ee.
    + (* empty slot: skipped by findChild *)
      destruct c; try discriminate. cbn [entries nsize app]. rewrite Nat.add_0_l.
      cbn [peek_push next_child i_node i_index i_pathlen] in IH |- *.
      rewrite Hidx, Hfc. rewrite Hn, Hfc' in IH. cbn [first_ne]. rewrite Ec. exact IH.
    + (* a child: arrive there, iterate it, come back *)
      assert (Hfn : first_ne cs (j :: todo) = Some (c, Z.of_nat j))
        by (cbn [first_ne]; rewrite Ec; destruct c; try reflexivity; discriminate).
      assert (Hpos : ipos c (p ++ [N.of_nat j])).
      { destruct (Nat.eq_dec j 16) as [->|Nj].
        - destruct (H16 _ Ec) as [->|[v ->]]; [discriminate|]. left. exists v. split; [reflexivity|].
          apply valid_key_app. exact Hp.
        - right. destruct (Hch _ _ Ec ltac:(lia)) as [->|Hc]; [discriminate|]. split; [exact Hc|].
          apply nibbles_app. split; [exact Hp|]. constructor; [lia|constructor]. }
      assert (Hbkc : bk c (p ++ [N.of_nat j])).
      { intros q v Hin. apply (Hbk q v). rewrite entries_full. unfold ents_of. apply in_flat_map.
        exists j. split; [|rewrite Ec; exact Hin]. rewrite Hs. apply in_or_app. right. left. reflexivity. }
      assert (Hnh : match c with NHash _ => False | _ => True end).
      { destruct Hpos as [(v & -> & _)|[Hc _]]; [exact I|]. inversion Hc; exact I. }
      rewrite Forall_forall in Hsub. pose proof (Hsub c (nth_error_In _ _ Ec)) as Hc.
      specialize (Hc (mkIst (NFull cs) (Z.of_nat j) pl :: rest) (length p) (p ++ [N.of_nat j])
                     (m + size_of cs todo)%nat (unhex (ents_of cs p todo) ++ l) Hpos Hbkc).
      rewrite firstn_app_exact in Hc. cbn [length] in Hc. specialize (Hc IH).
      cbn [peek_push next_child i_node i_index i_pathlen]. rewrite Hidx, Hfc, Hfn.
      cbn [i_node i_index i_pathlen]. rewrite (next_prev_ci j Hj), Nat2Z.id.
      replace (Z.to_N (Z.of_nat j)) with (N.of_nat j) by lia.
      unfold arrive in Hc. rewrite unhex_app, <- app_assoc.
      replace (m + (nsize c + size_of cs todo))%nat with (m + size_of cs todo + nsize c)%nat by lia.
      destruct c; try exact Hc. destruct Hnh.
Qed.

Lemma sub_ok_all n : sub_ok n.
Proof.
  induction n as [|v|k c IH|cs IH|h] using node_ind'; intros rest pl p m l Hpos Hbk HK.
  - destruct Hpos as [(v & E & _)|[Hc _]]; [discriminate|inversion Hc].
  - (* a value: reported, then popped *)
    destruct Hpos as [(v' & E & Hv)|[Hc _]]; [|inversion Hc]. inversion E; subst v'.
    destruct (Hbk p v (or_introl eq_refl)) as [kb Ekb].
    replace (m + nsize (NValue v))%nat with (S m) by (simpl; lia).
    change (unhex (entries (NValue v) p) ++ l)
      with (olist (Some (match hex_to_keybytes p with Some k => k | None => [] end, v)) ++ l).
    apply y_arrive.
    + unfold leaf_of, arrive. cbn [it_path it_stack]. rewrite (has_term_valid _ Hv), Ekb. reflexivity.
    + unfold nstep, arrive. cbn [it_path it_stack length peek_push next_child i_node i_pathlen]. exact HK.
  - (* a short node *)
    destruct Hpos as [(v & E & _)|[Hc Hp]]; [discriminate|].
    assert (Hposc : ipos c (p ++ k)).
    { destruct (can_short_inv _ _ Hc) as [[Hk [v ->]]|(Hk & Hne & cs & -> & Hcf)].
      - left. exists v. split; [reflexivity|]. apply valid_key_nib_app; assumption.
      - right. split; [assumption|]. apply nibbles_app. auto. }
    assert (Hnh : match c with NHash _ => False | _ => True end).
    { destruct Hposc as [(v & -> & _)|[Hcc _]]; [exact I|]. inversion Hcc; exact I. }
    specialize (IH (mkIst (NShort k c) 16 pl :: rest) (length p) (p ++ k) m l Hposc Hbk).
    rewrite firstn_app_exact in IH. cbn [length] in IH.
    assert (HK' : yields (peek_push (S (S (length rest))) (mkIst (NShort k c) 16 pl :: rest) p) m l).
    { cbn [peek_push next_child i_node i_index i_pathlen]. exact HK. }
    specialize (IH HK').
    replace (m + nsize (NShort k c))%nat with (S (m + nsize c)) by (simpl; lia).
    rewrite entries_short. change (unhex (entries c (p ++ k)) ++ l)
      with (olist (@None (list N * list N)) ++ (unhex (entries c (p ++ k)) ++ l)).
    apply y_arrive.
    + unfold leaf_of, arrive. cbn [it_path]. rewrite (has_term_nibbles _ Hp). reflexivity.
    + unfold nstep, arrive. cbn [it_path it_stack length peek_push next_child i_node i_index i_pathlen].
      unfold arrive in IH. destruct c; try exact IH. destruct Hnh.
  - (* a full node *)
    destruct Hpos as [(v & E & _)|[Hc Hp]]; [discriminate|].
    destruct (can_full_inv _ Hc) as (HL & _).
    rewrite (nsize_full cs HL), entries_full.
    replace (m + S (size_of cs visit_order))%nat with (S (m + size_of cs visit_order)) by lia.
    change (unhex (ents_of cs p visit_order) ++ l)
      with (olist (@None (list N * list N)) ++ (unhex (ents_of cs p visit_order) ++ l)).
    apply y_arrive.
    + unfold leaf_of, arrive. cbn [it_path]. rewrite (has_term_nibbles _ Hp). reflexivity.
    + unfold nstep, arrive. cbn [it_path it_stack length].
      apply (full_children cs rest pl p Hc Hp Hbk IH visit_order [] (-1)%Z m l eq_refl eq_refl HK).
  - destruct Hpos as [(v & E & _)|[Hc _]]; [discriminate|inversion Hc].
Qed.

(* ---- from the relation to the fuel-driven loops ---- *)

Definition lift (r : tres (option iter)) : tres istate :=
  match r with
  | TOk None => TOk IEnd
  | TOk (Some it) => TOk (IRun it)
  | TErr e => TErr e
  end.

Lemma node_next_run root it : node_next root (IRun it) = lift (nstep it).
Proof. unfold node_next, nstep, lift. destruct (peek_push _ _ _) as [[?|]|]; reflexivity. Qed.

Lemma kv_next_yields root r m l : yields r m l -> forall s f,
  node_next root s = lift r -> (m < f)%nat ->
  (l = [] /\ kv_next f root s = TOk (IEnd, None)) \/
  (exists kv l' it' m', l = kv :: l' /\ kv_next f root s = TOk (IRun it', Some kv) /\
                        yields (nstep it') m' l' /\ (m' < m)%nat).
Proof.
  induction 1 as [|it o m l Hleaf Hy IH]; intros s f Hn Hf.
  - left. split; [reflexivity|]. destruct f; [lia|]. cbn [kv_next]. rewrite Hn. reflexivity.
  - destruct f; [lia|]. cbn [kv_next]. rewrite Hn. cbn [lift]. rewrite Hleaf. destruct o as [kv|].
    + right. exists kv, l, it, m. auto.
    + destruct (IH (IRun it) f (node_next_run root it) ltac:(lia)) as [[-> E]|(kv & l' & it' & m' & -> & E & Hy' & Hm')].
      * left. auto.
      * right. exists kv, l', it', m'. repeat split; auto.
Qed.

Lemma iter_all_yields root : forall f r m l s, yields r m l ->
  node_next root s = lift r -> (m < f)%nat -> iter_all f root s = TOk l.
Proof.
  induction f as [|f IH]; intros r m l s Hy Hn Hf; [lia|].
  cbn [iter_all].
  destruct (kv_next_yields root r m l Hy s (S f) Hn Hf) as [[-> E]|(kv & l' & it' & m' & -> & E & Hy' & Hm')].
  - rewrite E. reflexivity.
  - rewrite E. rewrite (IH _ _ _ (IRun it') Hy' (node_next_run root it') ltac:(lia)). reflexivity.
Qed.

(* the drained iterator = entries, with the fuel the model passes *)
Theorem iterate_entries t : canon t -> bk t [] ->
  trie_iterate t = TOk (unhex (entries t [])).
Proof.
  intros [->|Hc] Hbk; [reflexivity|].
  unfold trie_iterate, iter_fuel.
  pose proof (sub_ok_all t [] O [] O [] (or_intror (conj Hc (Forall_nil _))) Hbk y_end) as Hy.
  rewrite app_nil_r in Hy. simpl in Hy.
  apply (iter_all_yields t _ _ _ _ IStart Hy); [|lia].
  unfold node_next, arrive, lift. inversion Hc; reflexivity.
Qed.

(* ---- entries are exactly the lookups ---- *)

Lemma entries_lk n : forall p q v, ipos n p ->
  (In (q, v) (entries n p) <-> exists k, q = p ++ k /\ lk n k = Some v).
Proof.
  induction n as [|v0|k0 c IH|cs IH|h] using node_ind'; intros p q v Hpos.
  - destruct Hpos as [(? & E & _)|[Hc _]]; [discriminate|inversion Hc].
  - simpl. split.
    + intros [E|[]]. inversion E; subst. exists []. rewrite app_nil_r. auto.
    + intros (k & -> & Hl). rewrite lk_value in Hl. destruct k; [|discriminate].
      inversion Hl; subst. rewrite app_nil_r. left. reflexivity.
  - destruct Hpos as [(? & E & _)|[Hc Hp]]; [discriminate|]. rewrite entries_short.
    assert (Hposc : ipos c (p ++ k0)).
    { destruct (can_short_inv _ _ Hc) as [[Hk [v1 ->]]|(Hk & Hne & cs & -> & Hcf)].
      - left. exists v1. split; [reflexivity|]. apply valid_key_nib_app; assumption.
      - right. split; [assumption|]. apply nibbles_app. auto. }
    rewrite (IH _ q v Hposc). split.
    + intros (k & -> & Hl). exists (k0 ++ k). split; [rewrite app_assoc; reflexivity|].
      rewrite lk_short, strip_app_same. exact Hl.
    + intros (k & -> & Hl). rewrite lk_short in Hl. destruct (strip k0 k) as [r|] eqn:S; [|discriminate].
      apply strip_some in S. subst k. exists r. split; [rewrite app_assoc; reflexivity|exact Hl].
  - destruct Hpos as [(? & E & _)|[Hc Hp]]; [discriminate|].
    destruct (can_full_inv _ Hc) as (HL & Hch & H16 & _).
    rewrite entries_full. unfold ents_of. rewrite in_flat_map.
    assert (Hchild : forall j c, nth_error cs j = Some c -> c <> NEmpty -> ipos c (p ++ [N.of_nat j])).
    { intros j c Ec Hne. assert (Hj : (j < 17)%nat) by (rewrite <- HL; apply nth_error_Some; congruence).
      destruct (Nat.eq_dec j 16) as [->|Nj].
      - destruct (H16 _ Ec) as [->|[v1 ->]]; [congruence|]. left. exists v1. split; [reflexivity|].
        apply valid_key_app. exact Hp.
      - right. destruct (Hch _ _ Ec ltac:(lia)) as [->|Hcc]; [congruence|]. split; [exact Hcc|].
        apply nibbles_app. split; [exact Hp|]. constructor; [lia|constructor]. }
    rewrite Forall_forall in IH. split.
    + intros (j & Hj & Hin). destruct (nth_error cs j) as [c|] eqn:Ec; [|destruct Hin].
      destruct (is_empty c) eqn:Ee; [destruct c; try discriminate; destruct Hin|].
      assert (Hne : c <> NEmpty) by (intros ->; discriminate).
      apply (IH c (nth_error_In _ _ Ec) _ q v (Hchild _ _ Ec Hne)) in Hin as (k & -> & Hl).
      exists (N.of_nat j :: k). split; [rewrite <- app_assoc; reflexivity|].
      rewrite lk_full, Nat2N.id, Ec. exact Hl.
    + intros (k & -> & Hl). destruct k as [|x k]; [rewrite lk_full_nil in Hl; discriminate|].
      rewrite lk_full in Hl. destruct (nth_error cs (N.to_nat x)) as [c|] eqn:Ec; [|discriminate].
      assert (Hne : c <> NEmpty) by (intros ->; rewrite lk_empty in Hl; discriminate).
      assert (Hx : (N.to_nat x < 17)%nat) by (rewrite <- HL; apply nth_error_Some; congruence).
      exists (N.to_nat x). split.
      * unfold visit_order. do 17 (destruct (N.to_nat x) as [|?]; [simpl; tauto|]). lia.
      * rewrite Ec. apply (IH c (nth_error_In _ _ Ec) _ _ v (Hchild _ _ Ec Hne)).
        exists k. rewrite N2Nat.id, <- app_assoc. auto.
  - destruct Hpos as [(? & E & _)|[Hc _]]; [discriminate|inversion Hc].
Qed.
