(* Trie/X/CommitFinal.v — the complete session/generation invariant over every
   reachable state, and from it C07 in full for the path scheme:
   commit_exact_path (no stale node, none missing, none wrong), commit_reads_back,
   the unconditional opTracer specification. *)
From GV Require Import Lib.Tactics Lib.Bytes Rlp.Codec Trie.Hex Trie.Node Trie.Ops Trie.Hash.
From GV Require Import Trie.OpsProofs Trie.Canon Trie.Proof Trie.ProofProofs.
From GV Require Import Trie.Commit Trie.CommitProofs Trie.CommitTracer Trie.CommitReads Trie.CommitSim Trie.CommitSimDel Trie.CommitHist Trie.CommitExact Trie.CommitEvents Trie.CommitTrace Trie.CommitPv Trie.CommitInv3 Trie.CommitNoStale.
Local Open Scope N_scope.

Section Final.
  Variable H : list N -> list N.
  Hypothesis H_len : forall x, length (H x) = 32%nat.
  Hypothesis H_inj_empty : forall e, H e = H empty_root_preimage -> e = empty_root_preimage.

  (* a reachable state of the generation model is a reachable state of one session *)
  Lemma reachable_reach S ss : reachable H S ss -> reach H PathScheme S ss.
  Proof.
    induction 1 as [ss O|S ss r ons ss2 _ _ _ O|S ss key v ss' _ IH _ U|S ss key v ss' _ IH _ G|S ss path g ss' _ IH G].
    - eapply reach_open. exact O.
    - eapply reach_open. exact O.
    - eapply reach_update; eassumption.
    - eapply reach_get; eassumption.
    - eapply reach_getnode; eassumption.
  Qed.

  (* every raw entry of the store is the encoding of the hashed ground node at its path *)
  Definition rawx (S : store) (F : node) : Prop :=
    forall q b, am_get q S = Some b -> exists Gq, gsub H true [] F q Gq /\ node_enc H Gq = Some b.

  Lemma rawx_stored S F q b : gok F -> rawx S F -> am_get q S = Some b ->
    stored (resolve_of H PathScheme S) q.
  Proof.
    intros GO RX Q. destruct (RX q b Q) as (Gq & GS & EN).
    assert (W : pwf F).
    { destruct GO as [->|[_ W]]; [inversion GS; discriminate|exact W]. }
    pose proof (decode_enc H H_len Gq b (gsub_pwf H _ _ _ _ _ GS W) EN) as D. unfold proof_decode in D.
    exists (H b), (collapse H Gq), b. unfold resolve_of. rewrite Q, beqb_refl, D. reflexivity.
  Qed.

  (* when Commit returns no node set the store already is exact for the ground trie *)
  Lemma commit_none_exact S ss F0 F root0 r :
    sinv3 H S ss F0 F -> store_ok H S root0 F0 -> commit H ss = Some (r, None) ->
    exactb H (resolve_of H PathScheme S) true [] F.
  Proof.
    intros ((SI & Sz & T) & J & PV) (GO0 & XB0 & _) C. destruct SI as [GO Rp].
    unfold commit in C. remember (s_root ss) as n eqn:RT in *.
    destruct n as [|v|k c|cs|h].
    - assert (F = NEmpty) by (inversion Rp; subst; reflexivity). subst F.
      destruct (deleted_nodes (s_tr ss)) eqn:DN; [|discriminate].
      intros q _ St. exfalso.
      assert (GP0 : gpos [] F0 q).
      { destruct (XB0 q (ex_intro _ q (app_nil_l q)) St) as [Gq GS]. eapply gsub_gpos. exact GS. }
      assert (DQ : In q (deleted_nodes (s_tr ss))).
      { destruct (T q) as [TD _]. assert (X : am_has q (tr_del (s_tr ss)) = true) by (apply TD; split; [exact GP0|apply gpos_empty]).
        apply am_has_true in X. destruct X as [[] X]. apply am_get_in in X.
        unfold deleted_nodes. apply in_map_iff. exists (q, tt). split; [reflexivity|].
        apply filter_In. split; [exact X|]. apply PV; [exact St|apply gpos_empty]. }
      rewrite DN in DQ. destruct DQ.
    - cbn in C. discriminate.
    - repeat (dmatch C; try discriminate). apply negb_true_iff in Heqb.
      inversion Rp; subst. match goal with CO : clean_ok _ _ _ _ _ _ _ |- _ => destruct (CO Heqb) as [_ X]; exact (proj2 X) end.
    - repeat (dmatch C; try discriminate). apply negb_true_iff in Heqb.
      inversion Rp; subst. match goal with CO : clean_ok _ _ _ _ _ _ _ |- _ => destruct (CO Heqb) as [_ X]; exact (proj2 X) end.
    - cbn [negb] in C. repeat (dmatch C; try discriminate).
  Qed.

  (* the state invariant: the store holds exactly F0, the session represents F with
     the tracer, pre-value and size invariants *)
  Definition ginv (S : store) (ss : sess) (F0 F : node) (root0 : list N) : Prop :=
    store_ok H S root0 F0 /\ rawx S F0 /\ sinv3 H S ss F0 F /\ pv_ne (s_tr ss).

  (* exactness of the store after a commit (both kinds), with raw entries *)
  Lemma commit_exact S ss F0 F root0 r ons :
    ginv S ss F0 F root0 -> commit H ss = Some (r, ons) ->
    store_ok H (applied S ons) r F /\ rawx (applied S ons) F.
  Proof.
    intros (SO & RX & S3 & NE) C.
    pose proof S3 as ((SI & Sz & T) & J & PV).
    assert (XB : exactb H (resolve_of H PathScheme (applied S ons)) true [] F).
    { destruct ons as [ns|]; cbn [applied].
      - eapply commit_no_stale; eassumption.
      - eapply commit_none_exact; eassumption. }
    pose proof (commit_store_ok H H_len S ss F r ons SI C XB) as SO'.
    split; [exact SO'|].
    assert (GOF : gok F) by (destruct SI; assumption).
    assert (FIN : forall q b, stored (resolve_of H PathScheme (applied S ons)) q ->
                    am_get q (applied S ons) = Some b ->
                    exists Gq, gsub H true [] F q Gq /\ node_enc H Gq = Some b).
    { intros q b St Q. destruct (XB q (ex_intro _ q (app_nil_l q)) St) as [Gq GS]. exists Gq. split; [exact GS|].
      destruct SO' as (_ & _ & SO'').
      assert (C0 : cov0 H (resolve_of H PathScheme (applied S ons)) true [] F).
      { destruct F; try (inversion GS; discriminate); destruct SO'' as (e & _ & _ & X); exact X. }
      destruct (C0 q Gq GS) as (e & EN & RS). apply resolve_of_blob in RS. destruct RS as (_ & Q2 & _).
      rewrite Q in Q2. inversion Q2; subst. exact EN. }
    destruct ons as [ns|]; cbn [applied] in *.
    - intros q b Q.
      destruct (commit_exact_path_sinv H H_len S ss F r ns SI C q b Q) as [X|[NQ SQ]]; [exact X|].
      apply FIN; [|exact Q].
      (* an untouched old entry: it decodes, because the old store was exact *)
      destruct SO as (GO0 & _).
      destruct (rawx_stored S F0 q b GO0 RX SQ) as (h & n & b' & RS).
      pose proof RS as RB. apply resolve_of_blob in RB. destruct RB as (_ & Q1 & HB1). rewrite SQ in Q1. inversion Q1; subst b'.
      exists h, n, b. unfold resolve_of in *. rewrite Q. rewrite SQ in RS. exact RS.
    - intros q b Q. apply FIN; [|exact Q]. destruct SO as (GO0 & _). exact (rawx_stored S F0 q b GO0 RX Q).
  Qed.

  Theorem reachable_ginv S ss : reachable H S ss -> exists F0 F root0, ginv S ss F0 F root0.
  Proof.
    intro Rch. pose proof (reach_pv_ne H PathScheme S ss (reachable_reach S ss Rch)) as NE.
    induction Rch as [ss O|S ss r ons ss2 Rch IH C O|S ss key v ss' Rch IH OK U|S ss key v ss' Rch IH BK G|S ss path g ss' Rch IH G].
    - assert (Sz : gsizes NEmpty) by (intros k v L; rewrite lk_empty in L; discriminate).
      destruct (open_sinv3 H H_len H_inj_empty [] _ NEmpty (store_ok_empty H) Sz) as (ss0 & O0 & S3).
      rewrite O in O0. inversion O0; subst ss0. exists NEmpty, NEmpty, (H empty_root_preimage).
      split; [apply store_ok_empty|]. split; [intros q b X; discriminate|]. split; assumption.
    - destruct (IH (reach_pv_ne H PathScheme S ss (reachable_reach S ss Rch))) as (F0 & F & root0 & GI).
      destruct (commit_exact S ss F0 F root0 r ons GI C) as [SO' RX'].
      destruct GI as (_ & _ & ((_ & Sz & _) & _ & _) & _).
      destruct (open_sinv3 H H_len H_inj_empty _ _ F SO' Sz) as (ss0 & O0 & S3).
      rewrite O in O0. inversion O0; subst ss0. exists F, F, r.
      split; [exact SO'|]. split; [exact RX'|]. split; assumption.
    - destruct (IH (reach_pv_ne H PathScheme S ss (reachable_reach S ss Rch))) as (F0 & F & root0 & SO & RX & S3 & _).
      destruct (sess_update_sinv3 H H_len S ss F0 F key v ss' S3 OK U) as (F' & S3' & _).
      exists F0, F', root0. split; [exact SO|]. split; [exact RX|]. split; assumption.
    - destruct (IH (reach_pv_ne H PathScheme S ss (reachable_reach S ss Rch))) as (F0 & F & root0 & SO & RX & S3 & _).
      destruct (sess_get_sinv3 H H_len H_inj_empty S ss F0 F key v ss' S3 BK G) as [S3' _].
      exists F0, F, root0. split; [exact SO|]. split; [exact RX|]. split; assumption.
    - destruct (IH (reach_pv_ne H PathScheme S ss (reachable_reach S ss Rch))) as (F0 & F & root0 & SO & RX & S3 & _).
      pose proof (sess_getnode_sinv3 H H_len S ss F0 F path g ss' S3 G) as S3'.
      exists F0, F, root0. split; [exact SO|]. split; [exact RX|]. split; assumption.
  Qed.

  (* ---------------- C07 in full, path scheme ---------------- *)

  (* commit_exact_path: after applying the node set of any reachable session the
     path store holds EXACTLY the hashed nodes of the ground trie, each under its
     path with its encoding: no stale node, none missing, none wrong *)
  Theorem commit_exact_path S ss r ons :
    reachable H S ss -> commit H ss = Some (r, ons) ->
    exists F, sinv H S ss F /\ store_ok H (applied S ons) r F /\
      forall q b, am_get q (applied S ons) = Some b <->
                  exists Gq, gsub H true [] F q Gq /\ node_enc H Gq = Some b.
  Proof.
    intros Rch C. destruct (reachable_ginv S ss Rch) as (F0 & F & root0 & GI).
    destruct (commit_exact S ss F0 F root0 r ons GI C) as [SO' RX'].
    destruct GI as (_ & _ & ((SI & _) & _) & _).
    exists F. split; [exact SI|]. split; [exact SO'|]. intros q b. split; [apply RX'|].
    intros (Gq & GS & EN). destruct SO' as (_ & _ & SO'').
    assert (C0 : cov0 H (resolve_of H PathScheme (applied S ons)) true [] F).
    { destruct F; try (inversion GS; discriminate); destruct SO'' as (e & _ & _ & X); exact X. }
    destruct (C0 q Gq GS) as (e & EN' & RS). rewrite EN in EN'. inversion EN'; subst e.
    apply resolve_of_blob in RS. tauto.
  Qed.

  (* commit_reads_back *)
  Theorem commit_reads_back S ss r ons key :
    reachable H S ss -> commit H ss = Some (r, ons) -> forallb byteb key = true ->
    exists ss2,
      open_trie H PathScheme (applied S ons) r = TOk ss2 /\
      exists v t1 d1 ev1 t2 d2 ev2,
        trie_get (resolve_of H PathScheme S) (s_root ss) key = TOk (v, t1, d1, ev1) /\
        trie_get (resolve_of H PathScheme (applied S ons)) (s_root ss2) key = TOk (v, t2, d2, ev2).
  Proof.
    intros Rch C BK. destruct (reachable_ginv S ss Rch) as (F0 & F & root0 & GI).
    destruct (commit_exact S ss F0 F root0 r ons GI C) as [(_ & XB & _) _].
    destruct GI as (_ & _ & ((SI & _) & _) & _).
    destruct (commit_reads_back_sinv H H_len H_inj_empty S ss F r ons key SI C XB BK)
      as (ss2 & O & v & t1 & d1 & ev1 & t2 & d2 & ev2 & G1 & G2 & _).
    exists ss2. split; [exact O|]. exists v, t1, d1, ev1, t2, d2, ev2. split; assumption.
  Qed.

  Theorem reachable_sinv S ss : reachable H S ss -> exists F, sinv H S ss F /\ gsizes F.
  Proof.
    intro Rch. destruct (reachable_ginv S ss Rch) as (F0 & F & root0 & _ & _ & ((SI & Sz & _) & _) & _).
    exists F. split; assumption.
  Qed.

  (* the opTracer of every reachable session, unconditionally *)
  Theorem tracer_reachable S ss : reachable H S ss ->
    exists F0 F root0, store_ok H S root0 F0 /\ sinv H S ss F /\
      forall q,
        (am_has q (tr_del (s_tr ss)) = true <-> gpos [] F0 q /\ ~ gpos [] F q) /\
        (am_has q (tr_ins (s_tr ss)) = true <-> ~ gpos [] F0 q /\ gpos [] F q) /\
        (In q (deleted_nodes (s_tr ss)) <->
         gpos [] F0 q /\ ~ gpos [] F q /\ am_has q (tr_pv (s_tr ss)) = true).
  Proof.
    intro Rch. destruct (reachable_ginv S ss Rch) as (F0 & F & root0 & SO & _ & ((SI & _ & T) & _) & _).
    exists F0, F, root0. split; [exact SO|]. split; [exact SI|]. intro q.
    destruct (T q) as [TD TI]. split; [exact TD|]. split; [exact TI|].
    unfold deleted_nodes. split.
    - intro I. apply in_map_iff in I. destruct I as ([q1 u] & <- & I). cbn [fst] in *.
      apply filter_In in I. destruct I as [I Fp]. cbn [fst] in Fp.
      assert (Hq : am_has q1 (tr_del (s_tr ss)) = true).
      { destruct (am_in_get _ _ _ I) as [v' G]. unfold am_has. rewrite G. reflexivity. }
      destruct (T q1) as [TD1 _]. apply TD1 in Hq. tauto.
    - intros (P1 & P2 & P3).
      assert (Hq : am_has q (tr_del (s_tr ss)) = true) by (apply TD; tauto).
      apply am_has_true in Hq. destruct Hq as [[] G]. apply am_get_in in G.
      apply in_map_iff. exists (q, tt). split; [reflexivity|].
      apply filter_In. split; [exact G|exact P3].
  Qed.

  (* pre-value coverage, as theorems about every reachable session *)
  Theorem prevalue_coverage S ss : reachable H S ss ->
    exists F, sinv H S ss F /\
      (forall a, stored (resolve_of H PathScheme S) a -> gpos [] (s_root ss) a -> pvd (s_tr ss) a) /\
      (forall a, stored (resolve_of H PathScheme S) a -> ~ gpos [] F a -> pvd (s_tr ss) a).
  Proof.
    intro Rch. destruct (reachable_ginv S ss Rch) as (F0 & F & root0 & _ & _ & ((SI & _) & J & PV) & _).
    exists F. split; [exact SI|]. split; [exact J|exact PV].
  Qed.
End Final.
