(* Trie/GenerateAssemble2.v — assembleRoot with two or more populated partitions
   (Trie/Generate.v, C11): AssembleBranch over the hashes of the subtree-root
   blobs is the encoding of the 17-slot branch whose children are the partition
   subtries; the returned root is its hash and the only write is that node at
   the empty path. *)
From GV Require Import Lib.Tactics Lib.Bytes Rlp.Codec Trie.Hex Trie.Node Trie.Ops Trie.Hash Trie.OpsProofs Trie.Canon Trie.Stack Trie.StackProofs Trie.ProofProofs Trie.Commit Trie.Generate.
Local Open Scope N_scope.

Section Asm2.
  Variable H : list N -> list N.
  Hypothesis H_len : forall x, length (H x) = 32%nat.

  (* a partition slot: empty, or a subtree (short or full node) whose root blob has >= 32 bytes *)
  Definition slot_ok (t : node) : Prop :=
    t = NEmpty \/ (inner t /\ exists e, node_enc H t = Some e /\ (32 <= length e)%nat).

  Definition blob_of (t : node) : option (list N) :=
    match t with NEmpty => None | _ => node_enc H t end.

  Definition child_of (b : option (list N)) : list N :=
    match b with Some blob => H blob | None => [] end.

  Definition slot_bytes (c : list N) : list N :=
    match c with [] => [128] | _ => enc_child_val c end.

  Lemma enc16_slots ts : Forall slot_ok ts ->
    enc16 H ts = Some (concat (map slot_bytes (map child_of (map blob_of ts)))).
  Proof.
    induction 1 as [|t ts Ht _ IH]; [reflexivity|]. cbn [enc16 map concat]. rewrite IH.
    destruct Ht as [->|(Hin & e & Ee & Hbig)]; [reflexivity|].
    assert (Hs : slot_enc H t = Some (write_ref (ref_of_enc H e))).
    { destruct t; try destruct Hin; cbn [slot_enc]; rewrite Ee; reflexivity. }
    assert (Hb : blob_of t = Some e) by (destruct t; try destruct Hin; exact Ee).
    rewrite Hs, Hb. cbn [child_of]. unfold ref_of_enc, write_ref.
    replace (Nat.ltb (length e) 32) with false by (symmetry; apply Nat.ltb_ge; exact Hbig).
    rewrite H_len. cbn [Nat.ltb Nat.leb].
    pose proof (H_len e) as L. destruct (H e) as [|x r] eqn:EH; [discriminate|].
    unfold slot_bytes, enc_child_val. rewrite L. reflexivity.
  Qed.

  Theorem assemble_many sc ts : length ts = 16%nat -> Forall slot_ok ts ->
    (2 <= length (filter (fun b : option (list N) => match b with Some _ => true | None => false end) (map blob_of ts)))%nat ->
    exists e,
      node_enc H (NFull (ts ++ [NEmpty])) = Some e /\
      hash_root H (NFull (ts ++ [NEmpty])) = Some (H e) /\
      assemble_root H sc (map blob_of ts) = GOk (H e, [WNode (node_key sc zero_hash [] (H e)) e]).
  Proof.
    intros HL Hok Hpop.
    set (payload := concat (map slot_bytes (map child_of (map blob_of ts))) ++ [128]).
    assert (Ee : node_enc H (NFull (ts ++ [NEmpty])) = Some (list_wrap payload)).
    { rewrite (ProofProofs.node_enc_full H), (enc_go_split H ts 0 NEmpty) by lia.
      rewrite (enc16_slots ts Hok). reflexivity. }
    exists (list_wrap payload). split; [exact Ee|]. split.
    - unfold hash_root, node_ref. rewrite Ee, andb_false_r. reflexivity.
    - unfold assemble_root.
      destruct (length (filter (fun b : option (list N) => match b with Some _ => true | None => false end) (map blob_of ts)))
        as [|[|n]] eqn:En; try lia.
      unfold assemble_branch. rewrite map_app, concat_app. cbn [map concat slot_bytes]. rewrite app_nil_r.
      fold child_of. fold slot_bytes. reflexivity.
  Qed.

  (* the branch is canonical when the slots are, and holds slot i's content under nibble i *)
  Lemma many_can ts : length ts = 16%nat -> Forall (fun t => t = NEmpty \/ can t) ts ->
    (2 <= count ts)%nat -> can (NFull (ts ++ [NEmpty])).
  Proof.
    intros HL Hok Hcnt. apply can_full.
    - rewrite app_length. simpl. lia.
    - intros i c Hi Hlt. rewrite nth_error_app1 in Hi by lia.
      rewrite Forall_forall in Hok. apply Hok. eapply nth_error_In; eassumption.
    - intros c Hc. rewrite nth_error_app2 in Hc by lia. rewrite HL in Hc. cbn in Hc. inversion Hc; subst. apply vslot_empty.
    - unfold count in *. rewrite filter_app, app_length. lia.
  Qed.

  Lemma many_lk ts q r : length ts = 16%nat ->
    lk (NFull (ts ++ [NEmpty])) (q :: r) =
    match nth_error ts (N.to_nat q) with Some t => lk t r | None => None end.
  Proof.
    intros HL. rewrite lk_full. destruct (nth_error ts (N.to_nat q)) as [t|] eqn:E.
    - rewrite nth_error_app1 by (apply nth_error_Some; congruence). rewrite E. reflexivity.
    - apply nth_error_None in E. rewrite nth_error_app2 by exact E.
      destruct (N.to_nat q - length ts)%nat as [|[|m]]; reflexivity.
  Qed.
End Asm2.
