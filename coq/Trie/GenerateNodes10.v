(* Trie/GenerateNodes10.v — C11_gen_nodes_path at the level of the writes: the
   trie-node puts of a successful GenerateTrie are, as a multiset, exactly the
   canonical node sets of the state trie and of every account's storage trie,
   plus at most one orphan (the subtree root a single populated partition left
   at [p] when it was a short node), and that orphan is deleted afterwards. *)
From Coq Require Import Permutation.
From GV Require Import Lib.Tactics Lib.Bytes Rlp.Codec Trie.Hex Trie.HexProofs Trie.Node Trie.Ops Trie.Hash Trie.OpsProofs Trie.Canon Trie.Stack Trie.StackProofs Trie.ProofProofs Trie.Commit Trie.CommitProofs Trie.CommitTracer Trie.Generate Trie.GenerateProofs Trie.GenerateWalk Trie.GenerateWalk2 Trie.GenerateWalk3 Trie.GenerateKeys Trie.GenerateSize Trie.GenerateAssemble Trie.GenerateAssemble2 Trie.GenerateSched Trie.GenerateRoot Trie.GenerateRoot2 Trie.GenerateRoot3 Trie.GenerateFlat2 Trie.GenerateDisjoint Trie.GenerateNodes Trie.GenerateNodes2 Trie.GenerateNodes5 Trie.GenerateNodes6 Trie.GenerateNodes7 Trie.GenerateNodes8 Trie.GenerateNodes9 Trie.GenerateNodesPaths.
Local Open Scope N_scope.

Definition ndels (ws : list wop) : list (list N) :=
  flat_map (fun w => match w with WNodeDel k => [k] | _ => [] end) ws.

Lemma ndels_app a b : ndels (a ++ b) = ndels a ++ ndels b.
Proof. unfold ndels. apply flat_map_app. Qed.

Lemma nws_concat l : nws (concat l) = concat (map nws l).
Proof. induction l as [|x l IH]; [reflexivity|]. cbn [concat map]. rewrite nws_app, IH. reflexivity. Qed.
Lemma ndels_concat l : ndels (concat l) = concat (map ndels l).
Proof. induction l as [|x l IH]; [reflexivity|]. cbn [concat map]. rewrite ndels_app, IH. reflexivity. Qed.

Lemma flat_map_concat {A B} (f : A -> list B) (L : list (list A)) : flat_map f (concat L) = concat (map (flat_map f) L).
Proof. induction L as [|x L IH]; [reflexivity|]. cbn [concat map]. rewrite flat_map_app, IH. reflexivity. Qed.

Lemma F3_and_F2 {A B C} (P : A -> B -> C -> Prop) (Q : A -> B -> Prop) la lb lc :
  F3 P la lb lc -> Forall2 Q la lb -> F3 (fun a b c => P a b c /\ Q a b) la lb lc.
Proof. induction 1 as [|a b c la lb lc Hp _ IH]; intros HQ; inversion HQ; subst; constructor; auto. Qed.

Lemma F3_concat {A B C D} (P : A -> B -> C -> Prop) (f : B -> list D) (g : A -> list D) (h : A -> C -> list D) la lb lc :
  F3 P la lb lc -> (forall a b c, P a b c -> Permutation (f b) (g a ++ h a c)) ->
  Permutation (concat (map f lb)) (concat (map g la) ++ concat (map (fun ac => h (fst ac) (snd ac)) (combine la lc))).
Proof.
  induction 1 as [|a b c la lb lc Hp _ IH]; intros Hf; [constructor|]. cbn [map concat combine fst snd].
  eapply Permutation_trans; [apply Permutation_app; [apply (Hf a b c Hp)|apply IH, Hf]|]. apply perm_4.
Qed.

Section Nodes10.
  Variable H : list N -> list N.
  Hypothesis H_len : forall x, length (H x) = 32%nat.

  (* the canonical node store, as (rawdb key, blob) pairs *)
  Definition spec_nodes (sc : scheme) (db : gdb) : list (list N * list N) :=
    flat_map (snodes H sc (g_stor db)) (g_accts db) ++ nk H sc zero_hash (nodes_of H [] (state_trie H db)).

  (* account-trie nodes written by the partitions: partition i wrote the nodes of its subtrie under nibble i *)
  Definition anode (sc : scheme) (i : N) (t : node) : list (list N * list N) :=
    nk H sc zero_hash (prefix_em i (nodes_of H [] t)).
  Definition AN (sc : scheme) (i : nat) (ts : list node) : list (list N * list N) :=
    concat (map (fun jt => anode sc (N.of_nat (fst jt)) (snd jt)) (combine (seq i (length ts)) ts)).

  Lemma AN_cons sc i t ts : AN sc i (t :: ts) = anode sc (N.of_nat i) t ++ AN sc (S i) ts.
  Proof. reflexivity. Qed.

  Lemma AN_empty sc : forall n i, AN sc i (repeat NEmpty n) = [].
  Proof. induction n as [|n IH]; intros i; [reflexivity|]. cbn [repeat]. rewrite AN_cons, IH. reflexivity. Qed.

  Lemma AN_app sc : forall l1 i l2, AN sc i (l1 ++ l2) = AN sc i l1 ++ AN sc (i + length l1) l2.
  Proof.
    induction l1 as [|t l1 IH]; intros i l2; [cbn [app length]; rewrite Nat.add_0_r; reflexivity|].
    cbn [app length]. rewrite !AN_cons, IH, <- app_assoc. do 3 f_equal. lia.
  Qed.

  Lemma AN_partitions sc ts : length ts = 16%nat ->
    concat (map (fun pt => anode sc (fst pt) (snd pt)) (combine partitions ts)) = AN sc O ts.
  Proof.
    intros L. unfold AN. rewrite L.
    do 17 (destruct ts as [|? ts]; [try discriminate|]); try discriminate. reflexivity.
  Qed.

  Lemma AN_many sc : forall l i, Forall (tgood H) l ->
    nk H sc zero_hash (go_nodes (nodes_of H) [] i (l ++ [NEmpty])) = AN sc i l.
  Proof.
    induction l as [|t l IH]; intros i HF; [reflexivity|]. inversion HF as [|? ? Ht HF']; subst.
    cbn [app]. rewrite go_nodes_cons, nk_app, AN_cons, IH by exact HF'. f_equal. cbn [app]. unfold anode. f_equal.
    destruct Ht as [->|(Hc & _ & e & Ee & Le)]; [reflexivity|].
    rewrite (nodes_shift_root H [N.of_nat i] t e Hc Ee Le). reflexivity.
  Qed.

  Lemma own_root n e : node_enc H n = Some e -> own H [] n = [([], e)].
  Proof. intros Ee. unfold own. rewrite Ee. cbn [is_nil negb]. rewrite andb_false_r. reflexivity. Qed.

  (* the folded root spans [p]: the canonical trie has no node there *)
  Lemma orphan_fresh p k c e : k <> [] ->
    ~ In (node_key PathScheme zero_hash [p] (H e)) (map fst (nk H PathScheme zero_hash (nodes_of H [] (NShort (p :: k) c)))).
  Proof.
    intros Hk Hin. apply in_map_iff in Hin as (y & Ey & Hy). unfold nk in Hy. apply in_map_iff in Hy as (z & <- & Hz).
    cbn [fst node_key] in Ey. rewrite beqb_refl in Ey. inversion Ey as [E1].
    rewrite nodes_of_short in Hz. apply in_app_or in Hz as [Hz|Hz].
    - destruct (nodes_pfx H _ _ _ Hz) as [s Es]. cbn [app] in Es. rewrite E1 in Es. inversion Es. destruct k; [congruence|discriminate].
    - rewrite (own_path H _ _ _ Hz) in E1. discriminate.
  Qed.

  (* assembleRoot's writes complete the account-trie node set *)
  Lemma asm_nodes sc ts A ws : length ts = 16%nat -> Forall (tgood H) ts -> asm_case H sc ts A ws ->
    exists orphan, (length orphan <= 1)%nat /\
      Permutation (AN sc O ts ++ nws ws) (nk H sc zero_hash (nodes_of H [] A) ++ orphan) /\
      ndels ws = map fst orphan /\
      (sc = PathScheme -> forall x, In x orphan -> (exists path, fst x = 65 :: path) /\ ~ In (fst x) (map fst (nk H sc zero_hash (nodes_of H [] A)))) /\
      exists pw dw, ws = pw ++ dw /\ ndels pw = [] /\ nws dw = [].
  Proof.
    intros Lts Hgood [Hall -> ->|p t e e' Hp Ets Hne Hc Ee Le -> Ee' ->|e Hcnt -> Ee ->].
    - exists []. rewrite (all_empty_repeat ts Hall), AN_empty. cbn. split; [lia|]. split; [constructor|]. split; [reflexivity|]. split; [intros _ x []|].
      exists [], []. auto.
    - rewrite Ets, AN_app, AN_empty, AN_cons, AN_empty, app_nil_r. cbn [app Nat.add]. rewrite repeat_length. unfold anode.
      destruct (can_cases _ Hc) as [(k & v & -> & Hk)|[(k & cs & -> & Hk & Kne & Hcf)|(cs & ->)]]; cbn [mount is_short] in *.
      + (* leaf: folded, orphan at [p] *)
        exists [(node_key sc zero_hash [N.of_nat p] (H e), e)]. split; [cbn; lia|].
        split; [|split; [reflexivity|split; [intros -> x [<-|[]]; split; [eexists; cbn [fst node_key]; rewrite beqb_refl; reflexivity|apply orphan_fresh; destruct k; [destruct Hk|discriminate]]|]]].
        * rewrite !nodes_of_short. cbn [nodes_of app]. rewrite (own_root _ _ Ee), (own_root _ _ Ee').
          cbn [nws flat_map app prefix_em map fst snd nk]. apply Permutation_sym. apply perm_swap.
        * exists [WNode (node_key sc zero_hash [] (H e')) e'], [WNodeDel (node_key sc zero_hash [N.of_nat p] (H e))]. auto.
      + (* extension: folded, orphan at [p] *)
        exists [(node_key sc zero_hash [N.of_nat p] (H e), e)]. split; [cbn; lia|].
        split; [|split; [reflexivity|split; [intros -> x [<-|[]]; split; [eexists; cbn [fst node_key]; rewrite beqb_refl; reflexivity|apply orphan_fresh; exact Kne]|]]].
        * rewrite !nodes_of_short. cbn [app]. rewrite (own_root _ _ Ee), (own_root _ _ Ee').
          change (N.of_nat p :: k) with ([N.of_nat p] ++ k). rewrite (nodes_shift H [N.of_nat p] (NFull cs) k Kne).
          unfold prefix_em. rewrite map_app. fold (prefix_em (N.of_nat p) (nodes_of H k (NFull cs))). rewrite !nk_app.
          cbn [nws flat_map app map fst snd nk].
          rewrite <- !app_assoc. apply Permutation_app_head. cbn [app]. apply perm_swap.
        * exists [WNode (node_key sc zero_hash [] (H e')) e'], [WNodeDel (node_key sc zero_hash [N.of_nat p] (H e))]. auto.
      + (* branch: wrapped, nothing orphaned *)
        exists []. split; [cbn; lia|]. rewrite app_nil_r.
        split; [|split; [reflexivity|split; [intros _ x []|]]].
        * rewrite (nodes_of_short H [] [N.of_nat p] (NFull cs)). cbn [app]. rewrite (own_root _ _ Ee'), nk_app.
          rewrite (nodes_shift_root H [N.of_nat p] (NFull cs) e Hc Ee Le).
          cbn [nws flat_map app map fst snd nk]. apply Permutation_refl.
        * exists [WNode (node_key sc zero_hash [] (H e')) e'], []. auto.
    - exists []. split; [cbn; lia|]. rewrite app_nil_r.
      split; [|split; [reflexivity|split; [intros _ x []|]]].
      + rewrite nodes_of_full, nk_app, (own_root _ _ Ee), (AN_many sc ts O Hgood).
        cbn [nws flat_map app map fst snd nk]. apply Permutation_refl.
      + exists [WNode (node_key sc zero_hash [] (H e)) e], []. auto.
  Qed.
End Nodes10.
