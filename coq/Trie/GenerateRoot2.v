(* Trie/GenerateRoot2.v — C11 end to end: a successful GenerateTrie means that the
   expected root IS the root hash of the trie built by ordinary insertion
   (Trie/Ops.v update_seq) from the corrected accounts of the whole flat state. *)
From GV Require Import Lib.Tactics Lib.Bytes Rlp.Item Rlp.Codec Rlp.Schema Trie.Hex Trie.HexProofs Trie.Node Trie.Ops Trie.Hash Trie.OpsProofs Trie.Canon Trie.Stack Trie.StackProofs Trie.ProofProofs Trie.Commit Trie.CommitProofs Trie.CommitTracer Trie.Generate Trie.GenerateProofs Trie.GenerateWalk Trie.GenerateWalk2 Trie.GenerateWalk3 Trie.GenerateKeys Trie.GenerateSize Trie.GenerateAssemble Trie.GenerateAssemble2 Trie.GenerateSched Trie.GenerateRoot.
Local Open Scope N_scope.

Inductive F3 {A B C} (P : A -> B -> C -> Prop) : list A -> list B -> list C -> Prop :=
| F3_nil : F3 P [] [] []
| F3_cons a b c la lb lc : P a b c -> F3 P la lb lc -> F3 P (a :: la) (b :: lb) (c :: lc).

Lemma F2_ex_F3 {A B C} (P : A -> B -> C -> Prop) la lb :
  Forall2 (fun a b => exists c, P a b c) la lb -> exists lc, F3 P la lb lc.
Proof.
  induction 1 as [|a b la lb [c Hc] _ [lc IH]]; [exists []; constructor|]. exists (c :: lc). constructor; assumption.
Qed.

Lemma F3_len {A B C} (P : A -> B -> C -> Prop) la lb lc : F3 P la lb lc -> length lc = length la.
Proof. induction 1; simpl; congruence. Qed.

Lemma F3_nth {A B C} (P : A -> B -> C -> Prop) la lb lc : F3 P la lb lc ->
  forall i a, nth_error la i = Some a -> exists b c, nth_error lb i = Some b /\ nth_error lc i = Some c /\ P a b c.
Proof.
  induction 1 as [|a b c la lb lc Hp _ IH]; intros i x Hi; [destruct i; discriminate|].
  destruct i as [|i]; [simpl in Hi; inversion Hi; subst; exists b, c; auto|]. apply (IH i x Hi).
Qed.

Lemma F3_In3 {A B C} (P : A -> B -> C -> Prop) la lb lc : F3 P la lb lc ->
  forall c, In c lc -> exists a b, In a la /\ In b lb /\ P a b c.
Proof.
  induction 1 as [|a b c la lb lc Hp _ IH]; intros x Hx; [destruct Hx|].
  destruct Hx as [<-|Hx]; [exists a, b; simpl; auto|]. destruct (IH x Hx) as (a' & b' & ? & ? & ?). exists a', b'. simpl; auto.
Qed.

Lemma F3_map {A B C D} (P : A -> B -> C -> Prop) (f : B -> D) (g : C -> D) la lb lc :
  F3 P la lb lc -> (forall a b c, P a b c -> f b = g c) -> map f lb = map g lc.
Proof. induction 1 as [|a b c la lb lc Hp _ IH]; intros Hfg; [reflexivity|]. cbn [map]. rewrite (Hfg a b c Hp), IH by exact Hfg. reflexivity. Qed.

(* where a looked-up value comes from *)
Lemma apply_ops_src ops : forall m k v, apply_ops m ops k = Some v -> m k = Some v \/ In (k, v) ops.
Proof.
  induction ops as [|[k0 v0] ops IH]; intros m k v E; [left; exact E|]. cbn [apply_ops] in E.
  destruct (IH _ _ _ E) as [Hp|Hin]; [|right; right; exact Hin].
  unfold put in Hp. destruct (bytes_eqb k k0) eqn:B; [|left; exact Hp].
  apply bytes_eqb_eq in B. subst k0. right. left. destruct v0; [discriminate|]. cbn in Hp. congruence.
Qed.

Section Root2.
  Variable H : list N -> list N.
  Hypothesis H_len : forall x, length (H x) = 32%nat.

  Lemma run_partitions_F2 sc db : forall ps rs, run_partitions H sc db ps = GOk rs ->
    Forall2 (fun p r => generate_partition H sc p db = GOk r) ps rs.
  Proof.
    induction ps as [|p ps IH]; intros rs E; cbn [run_partitions] in E; [inversion E; constructor|].
    destruct (generate_partition H sc p db) as [x|e] eqn:Ep; [|discriminate].
    destruct (run_partitions H sc db ps) as [l|e]; [|discriminate]. inversion E; subst.
    constructor; [exact Ep|apply IH; reflexivity].
  Qed.

  (* the leaves of the state trie: every account with its corrected full RLP *)
  Definition leaves (db : gdb) : list (list N * list N) :=
    map (fun kv => (fst kv, leaf H (g_stor db) kv)) (g_accts db).
  Definition state_root (db : gdb) : list N := ref_root H (leaves db).

  Lemma hash_root_len t h : canon t -> hash_root H t = Some h -> length h = 32%nat.
  Proof.
    intros [->|Hc] E; [cbn in E; inversion E; apply H_len|].
    destruct (node_enc_total H _ Hc) as [e Ee]. unfold hash_root, node_ref in E.
    inversion Hc; subst; rewrite Ee, andb_false_r in E; inversion E; apply H_len.
  Qed.

  Lemma ref_root_spec kvs : bytes_ops kvs ->
    exists t ev h, update_seq no_resolve NEmpty kvs = TOk (t, ev) /\ canon t /\
      (forall hk, lk t hk = apply_ops (fun _ => None) (hexops kvs) hk) /\
      hash_root H t = Some h /\ ref_root H kvs = h /\ length h = 32%nat.
  Proof.
    intros Hb.
    destruct (update_seq_spec no_resolve kvs Hb NEmpty (fun _ => None) (or_introl eq_refl) (fun hk => lk_empty hk))
      as (t & ev & E & C & L).
    destruct (hash_root_total H t C) as [h Eh]. exists t, ev, h.
    split; [exact E|]. split; [exact C|]. split; [exact L|]. split; [exact Eh|].
    split; [unfold ref_root, ref_trie; rewrite E, Eh; reflexivity|eapply hash_root_len; eassumption].
  Qed.

  Lemma ref_sroot_len ss h : wf_stor ss -> length (ref_sroot H ss h) = 32%nat.
  Proof.
    intros Hw. destruct (ref_root_spec (byte_slots ss h) (byte_slots_ok ss h Hw)) as (t & ev & r & _ & _ & _ & _ & Er & Lr).
    unfold ref_sroot. rewrite Er. exact Lr.
  Qed.

  Lemma leaf_len ss kv : wf_stor ss -> full_account H (snd kv) <> None -> (32 <= length (leaf H ss kv))%nat.
  Proof.
    intros Hw Hd. unfold leaf. destruct (full_account H (snd kv)) as [acc|]; [|congruence].
    unfold full_rlp, corrected. cbn [a_nonce a_bal a_root a_code]. unfold encode_typed.
    cbn [enc_v map enc flat_map]. rewrite !app_length.
    pose proof (enc_str_ge (ref_sroot H ss (fst kv))) as G. rewrite (ref_sroot_len ss (fst kv) Hw) in G. lia.
  Qed.

  (* size guard of the whole state: corrected full account encodings are shorter than 2^32 bytes *)
  Definition small_state (db : gdb) : Prop :=
    Forall (fun kv => small (leaf H (g_stor db) kv)) (g_accts db).

  Definition tgood (t : node) : Prop :=
    t = NEmpty \/ (can t /\ pwf t /\ exists e, node_enc H t = Some e /\ (32 <= length e)%nat).

  Lemma pleaves_src db p hk v : wf_db db -> In (hk, v) (hops (pleaves H db p)) ->
    exists kv, In kv (part p db) /\ hk = tl (nibbles_of (fst kv)) ++ [16] /\ v = leaf H (g_stor db) kv.
  Proof.
    intros Hwf Hin. unfold hops, pleaves in Hin. rewrite map_map in Hin. apply in_map_iff in Hin as (kv & E & Hkv).
    cbn [fst snd] in E. inversion E; subst. exists kv. auto.
  Qed.

  Lemma pspec_good db p r t : wf_db db -> small_state db -> pspec H db p r t -> tgood t.
  Proof.
    intros Hwf Hsm (Hc & L & Hd & _ & _). destruct Hc as [->|Hc]; [left; reflexivity|right].
    assert (Hsrc : forall hk v, lk t hk = Some v ->
              exists kv, In kv (part p db) /\ hk = tl (nibbles_of (fst kv)) ++ [16] /\ v = leaf H (g_stor db) kv).
    { intros hk v E. rewrite L in E. destruct (apply_ops_src _ _ _ _ E) as [?|Hin]; [discriminate|].
      apply (pleaves_src db p hk v Hwf Hin). }
    assert (Hbig : bigvals t).
    { intros hk v E. destruct (Hsrc hk v E) as (kv & Hkv & _ & ->).
      apply leaf_len; [apply (wf_ks db Hwf)|]. rewrite Forall_forall in Hd. apply Hd. exact Hkv. }
    assert (Hsk : smallkv t).
    { intros hk v E. pose proof (Hbig hk v E) as Lv. destruct (Hsrc hk v E) as (kv & Hkv & -> & ->).
      destruct (part_key p db kv Hwf Hkv) as ((L32 & Hb) & _ & Hin). split.
      - unfold small, lenN. rewrite app_length. pose proof (nibbles_of_length (fst kv)) as Ln.
        destruct (nibbles_of (fst kv)); cbn [tl length] in *; assert (2 ^ 32 = 4294967296) by reflexivity; lia.
      - split; [destruct (leaf H (g_stor db) kv); [simpl in Lv; lia|discriminate]|].
        unfold small_state in Hsm. rewrite Forall_forall in Hsm. apply Hsm. exact Hin. }
    split; [exact Hc|]. split; [apply can_pwf; [exact Hc|apply (lk_sized H H_len); assumption]|].
    destruct (node_enc_total H _ Hc) as [e Ee]. exists e. split; [exact Ee|]. apply (big_enc H H_len t Hc Hbig e Ee).
  Qed.
End Root2.
