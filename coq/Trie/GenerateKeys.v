(* Trie/GenerateKeys.v — the sixteen hash ranges of GenerateTrie against the
   first nibble of 32-byte keys, and what seek / take_le select from sorted
   iterators (C11). *)
From GV Require Import Lib.Tactics Lib.Bytes Trie.Hex Trie.HexProofs Trie.Node Trie.OpsProofs Trie.Commit Trie.CommitProofs Trie.CommitTracer Trie.Generate Trie.GenerateWalk Trie.GenerateWalk2.
Local Open Scope N_scope.

(* first nibble of a key (16 for the empty key) *)
Definition nib0 (h : list N) : N := hd 16 (nibbles_of h).

Lemma nib0_cons x a : nib0 (x :: a) = x / 16.
Proof. reflexivity. Qed.

Lemma zeros_min n : forall a, length a = n -> bytes_cmp a (repeat 0 n) <> Lt.
Proof.
  induction n as [|n IH]; intros [|y a] L; try discriminate.
  cbn [repeat bytes_cmp]. destruct (N.compare_spec y 0) as [E|E|E]; [|lia|discriminate]. apply IH. simpl in L. lia.
Qed.

Lemma ffs_max n : forall a, length a = n -> forallb Hex.byteb a = true -> bytes_cmp a (repeat 255 n) <> Gt.
Proof.
  induction n as [|n IH]; intros [|y a] L Hb; try discriminate.
  cbn [repeat bytes_cmp]. simpl in Hb. apply andb_true_iff in Hb as [Hy Hb]. unfold Hex.byteb in Hy.
    destruct (N.compare_spec y 255) as [E|E|E]; [|discriminate|lia]. apply IH; [simpl in L; lia|exact Hb].
Qed.

Definition key32 (h : list N) : Prop := length h = 32%nat /\ forallb Hex.byteb h = true.

Lemma ltb_start p h : key32 h -> (bytes_ltb h (range_start p) = true <-> nib0 h < p).
Proof.
  intros [L Hb]. destruct h as [|x a]; [discriminate|]. rewrite nib0_cons. unfold bytes_ltb, range_start. cbn [bytes_cmp].
  destruct (N.compare_spec x (16 * p)) as [E|E|E].
  - subst x. pose proof (zeros_min 31 a ltac:(simpl in L; lia)) as Z.
    destruct (bytes_cmp a (repeat 0 31)); split; try congruence; try discriminate; intros; lia.
  - split; [intros _; lia|reflexivity].
  - split; [discriminate|intros; lia].
Qed.

Lemma gtb_end p h : key32 h -> (bytes_gtb h (range_end p) = true <-> p < nib0 h).
Proof.
  intros [L Hb]. destruct h as [|x a]; [discriminate|]. rewrite nib0_cons. unfold bytes_gtb, range_end. cbn [bytes_cmp].
  simpl in Hb. apply andb_true_iff in Hb as [Hx Hb].
  destruct (N.compare_spec x (16 * p + 15)) as [E|E|E].
  - subst x. pose proof (ffs_max 31 a ltac:(simpl in L; lia) Hb) as Z.
    destruct (bytes_cmp a (repeat 255 31)); split; try congruence; try discriminate; intros; lia.
  - split; [discriminate|intros; lia].
  - split; [intros _; lia|reflexivity].
Qed.

(* the order is monotone in the first nibble *)
Lemma nib0_mono h k : h <> [] -> k <> [] -> bytes_cmp h k = Lt -> nib0 h <= nib0 k.
Proof.
  destruct h as [|x a]; [congruence|]. destruct k as [|y b]; [congruence|]. intros _ _. rewrite !nib0_cons. cbn [bytes_cmp].
  destruct (N.compare_spec x y) as [E|E|E]; [subst; lia| |discriminate]. intros _.
  apply N.div_le_mono; lia.
Qed.

(* a 64-byte storage key against a 32-byte bound: decided by its account part *)
Lemma bcmp_app_lt : forall a b s, length a = length b -> s <> [] ->
  (bytes_cmp (a ++ s) b = Lt <-> bytes_cmp a b = Lt).
Proof.
  induction a as [|x a IH]; intros [|y b] s L Hs; try discriminate.
  - destruct s; [congruence|]. cbn. split; discriminate.
  - cbn [app bytes_cmp]. destruct (N.compare x y); [apply IH; [simpl in L; lia|exact Hs]|tauto|tauto].
Qed.

Lemma firstn_skipn_32 (k : list N) : length k = 64%nat -> exists a s, k = a ++ s /\ length a = 32%nat /\ s <> [] /\ firstn 32 k = a.
Proof.
  intros L. exists (firstn 32 k), (skipn 32 k). split; [symmetry; apply firstn_skipn|].
  split; [rewrite firstn_length; lia|]. split; [|reflexivity].
  intros E. apply (f_equal (@length N)) in E. rewrite skipn_length in E. simpl in E. lia.
Qed.

(* ---------------------------------------------------------------- seek on sorted iterators *)

Lemma seek_suffix {A} start : forall (m : amap A), exists pre, m = pre ++ seek start m /\
  Forall (fun kv => bytes_ltb (fst kv) start = true) pre.
Proof.
  induction m as [|[k v] m (pre & E & Hp)]; [exists []; split; [reflexivity|constructor]|].
  cbn [seek]. destruct (bytes_ltb k start) eqn:B.
  - exists ((k, v) :: pre). split; [cbn; f_equal; exact E|constructor; [exact B|exact Hp]].
  - exists []. split; [reflexivity|constructor].
Qed.

Lemma sorted_app_r {A} (a b : amap A) : sorted (a ++ b) -> sorted b.
Proof. induction a as [|x a IH]; [auto|]. cbn. intros Hs. inversion Hs; subst. auto. Qed.

Lemma sorted_seek {A} start (m : amap A) : sorted m -> sorted (seek start m).
Proof. intros Hs. destruct (seek_suffix start m) as (pre & E & _). rewrite E in Hs. eapply sorted_app_r; eassumption. Qed.

Lemma seek_In {A} start (m : amap A) kv : In kv (seek start m) -> In kv m.
Proof. intros Hin. destruct (seek_suffix start m) as (pre & E & _). rewrite E. apply in_or_app. right. exact Hin. Qed.

Lemma Forall_seek {A} (P : list N * A -> Prop) start (m : amap A) : Forall P m -> Forall P (seek start m).
Proof. rewrite !Forall_forall. intros Hm kv Hin. apply Hm. eapply seek_In; eassumption. Qed.

Lemma above_In {A} h (m : amap A) : above h m -> forall kv, In kv m -> bytes_cmp h (fst kv) = Lt.
Proof. unfold above. rewrite Forall_forall. auto. Qed.

(* on a sorted list, seek keeps exactly the keys not below start *)
Lemma seek_sorted_In {A} start : forall (m : amap A), sorted m -> forall kv, In kv m ->
  (In kv (seek start m) <-> bytes_ltb (fst kv) start = false).
Proof.
  induction m as [|[k v] m IH]; intros Hs kv Hin; [destruct Hin|].
  inversion Hs as [|? ? ? Hab Hs']; subst. cbn [seek]. destruct (bytes_ltb k start) eqn:B.
  - destruct Hin as [<-|Hin].
    + cbn [fst]. split; [|congruence]. intros Hk. exfalso.
      pose proof (above_In k m Hab (k, v) (seek_In _ _ _ Hk)) as C. cbn [fst] in C. rewrite bcmp_refl in C. discriminate.
    + apply IH; assumption.
  - split; [|intros _; exact Hin]. intros _. destruct Hin as [<-|Hin]; [exact B|].
    pose proof (above_In k m Hab kv Hin) as C. unfold bytes_ltb in *.
    destruct (bytes_cmp (fst kv) start) eqn:C2; try reflexivity.
    rewrite (bcmp_lt_trans _ _ _ C C2) in B. discriminate.
Qed.

(* ---------------------------------------------------------------- the accounts a partition processes *)

Definition in_part (p : N) (kv : list N * list N) : bool := N.eqb (nib0 (fst kv)) p.

Lemma filter_nil_of {A} (f : A -> bool) l : (forall x, In x l -> f x = false) -> filter f l = [].
Proof.
  induction l as [|x l IH]; intros Hf; [reflexivity|]. cbn [filter]. rewrite (Hf x (or_introl eq_refl)).
  apply IH. intros y Hy. apply Hf. right. exact Hy.
Qed.

Lemma take_le_filter p : forall m, sorted m -> wf_accts m ->
  Forall (fun kv => p <= nib0 (fst kv)) m -> take_le p m = filter (in_part p) m.
Proof.
  induction m as [|[h v] m IH]; intros Hs Hw Hge; [reflexivity|].
  inversion Hs as [|? ? ? Hab Hs']; subst. inversion Hw as [|? ? Hk Hw']; subst. inversion Hge as [|? ? Hh Hge']; subst.
  cbn [fst] in *. cbn [take_le filter]. unfold in_part at 1. cbn [fst].
  destruct (bytes_gtb h (range_end p)) eqn:G.
  - apply (gtb_end p h Hk) in G. replace (nib0 h =? p) with false by (symmetry; apply N.eqb_neq; lia).
    symmetry. apply filter_nil_of. intros kv Hin.
    assert (Hm : nib0 h <= nib0 (fst kv)).
    { apply nib0_mono; [destruct Hk as [L _]; destruct h; [discriminate|congruence]| |apply (above_keys_gt h m Hab kv Hin)].
      unfold wf_accts in Hw'. rewrite Forall_forall in Hw'. destruct (Hw' kv Hin) as [L _]. destruct (fst kv); [discriminate|congruence]. }
    unfold in_part. apply N.eqb_neq. lia.
  - assert (nib0 h = p).
    { destruct (N.lt_ge_cases p (nib0 h)) as [Hlt|Hle]; [apply (gtb_end p h Hk) in Hlt; congruence|lia]. }
    replace (nib0 h =? p) with true by (symmetry; apply N.eqb_eq; assumption).
    f_equal. apply IH; assumption.
Qed.
