(* Trie/SyncNodesOf.v — the target node set RN of the sync theorems (defined from the
   serving side's hash database by decoding) contains c11/c07's canonical node set
   [nodes_of H [] t] of an expanded trie t, when that database serves t's encodings. *)
From Coq Require Import ZArith Lia.
From GV Require Import Lib.Tactics Lib.Bytes Rlp.Codec Trie.Hex Trie.HexProofs Trie.Node Trie.Hash Trie.Proof Trie.ProofProofs.
From GV Require Import Trie.Generate Trie.GenerateNodes Trie.CommitStack Storage.KV Trie.Sync Trie.SyncInv.
Local Open Scope N_scope.

Section Bridge.
  Variable H : list N -> list N.
  Hypothesis H_len : forall x, length (H x) = 32%nat.

  Lemma list_wrap_len x : (length x <= length (list_wrap x))%nat.
  Proof. unfold list_wrap. rewrite app_length. lia. Qed.

  Lemma write_ref_hashed e : (32 <= length e)%nat -> length (write_ref (ref_of_enc H e)) = 33%nat.
  Proof.
    intros L. unfold ref_of_enc. assert (Nat.ltb (length e) 32 = false) as -> by (apply Nat.ltb_ge; exact L).
    unfold write_ref. rewrite H_len. cbn [Nat.ltb Nat.leb].
    pose proof (H_len e) as L32. destruct (H e) as [|x0 [|x1 r]] eqn:E; [discriminate|simpl in L32; lia|].
    unfold enc_str, enc_head. rewrite <- E. unfold lenN. rewrite H_len. simpl. rewrite H_len. reflexivity.
  Qed.

  Lemma enc16_slot : forall l a c, enc16 H l = Some a -> In c l ->
    exists sc, slot_enc H c = Some sc /\ (length sc <= length a)%nat.
  Proof.
    induction l as [|c0 l IH]; intros a c E Hin; [destruct Hin|]. cbn [enc16] in E.
    destruct (slot_enc H c0) as [s0|] eqn:E0; [|discriminate].
    destruct (enc16 H l) as [b|] eqn:E1; [|discriminate]. inversion E; subst a. rewrite app_length.
    destruct Hin as [->|Hin]; [exists s0; split; [exact E0|lia]|].
    destruct (IH b c eq_refl Hin) as (sc & A & B). exists sc. split; [exact A|lia].
  Qed.

  Lemma own_small p n e : p <> [] -> node_enc H n = Some e -> (length e < 32)%nat -> own H p n = [].
  Proof.
    intros Hp E L. unfold own. rewrite E. assert (Nat.ltb (length e) 32 = true) as -> by (apply Nat.ltb_lt; exact L).
    destruct p; [contradiction|reflexivity].
  Qed.

  Lemma slot_small c ec sc : pwf c -> node_enc H c = Some ec -> slot_enc H c = Some sc ->
    (length sc < 33)%nat -> (length ec < 32)%nat.
  Proof.
    intros Hw Ee Es L. destruct (Nat.lt_ge_cases (length ec) 32) as [X|X]; [exact X|].
    exfalso. destruct (pwf_shape c Hw) as [(k & c' & ->)|(cs & ->)]; cbn [slot_enc] in Es; rewrite Ee in Es;
      inversion Es; subst sc; rewrite (write_ref_hashed ec X) in L; lia.
  Qed.

  (* an embedded node (encoding < 32 bytes, not at the root) contains no stored node *)
  Lemma emb_no_nodes : forall n, pwf n -> forall p e, p <> [] -> node_enc H n = Some e ->
    (length e < 32)%nat -> nodes_of H p n = [].
  Proof.
    induction n as [|v|k c IH|cs IH|h] using node_ind'; intros Hw p e Hp Ee L; try reflexivity.
    - rewrite nodes_of_short, (own_small p _ e Hp Ee L), app_nil_r.
      inversion Hw as [k0 v Hk Hs Hv|k0 c0 Hn Hk0 Hs Hc|]; subst; [reflexivity|].
      assert (Ht : has_term k = false) by (apply has_term_nib_false; apply nibbles_forallb; exact Hn).
      destruct (pwf_enc_total H H_len c Hc) as [ec Eec].
      rewrite (node_enc_short_ext H k c Ht) in Ee
        by (destruct (pwf_shape c Hc) as [(k' & c' & ->)|(cs & ->)]; [left|right]; eauto).
      destruct (hex_to_compact k) as [ck|]; [|discriminate].
      destruct (slot_enc H c) as [b|] eqn:Es; [|discriminate].
      assert (Ee' : e = list_wrap (enc_str ck ++ b)).
      { clear - Ee. destruct c; try discriminate Ee; inversion Ee; reflexivity. }
      apply (IH Hc (p ++ k) ec); [intros X; apply app_eq_nil in X; destruct X; contradiction|exact Eec|].
      eapply slot_small; eauto. subst e. pose proof (list_wrap_len (enc_str ck ++ b)). rewrite app_length in H0. lia.
    - rewrite nodes_of_full, (own_small p _ e Hp Ee L), app_nil_r.
      inversion Hw as [| |cs0 L17 Hch H16]; subst.
      destruct (go_nodes (nodes_of H) p 0 cs) as [|[q e'] rest] eqn:Eg; [reflexivity|exfalso].
      assert (Hin : In (q, e') (go_nodes (nodes_of H) p 0 cs)) by (rewrite Eg; left; reflexivity).
      apply (in_go_nodes H H_len) in Hin. destruct Hin as (j & c & Hj & Hin). simpl in Hin.
      destruct (split17 cs L17) as (l & c16 & -> & Ll).
      rewrite node_enc_full, (enc_go_split H l 0 c16) in Ee by (simpl; lia).
      destruct (enc16 H l) as [a|] eqn:Ea; [|discriminate]. destruct (val_enc c16) as [b|]; [|discriminate].
      inversion Ee; subst e.
      destruct (Nat.lt_ge_cases j 16) as [J|J].
      + destruct (Hch j c Hj J) as [->|Hc]; [destruct Hin|].
        assert (Hcl : In c l).
        { rewrite nth_error_app1 in Hj by lia. eapply nth_error_In; eauto. }
        destruct (enc16_slot l a c Ea Hcl) as (sc & Es & Ls).
        destruct (pwf_enc_total H H_len c Hc) as [ec Eec].
        rewrite Forall_forall in IH.
        rewrite (IH c (nth_error_In _ _ Hj) Hc (p ++ [N.of_nat j]) ec) in Hin; [destruct Hin|intros X; apply app_eq_nil in X; destruct X; discriminate|exact Eec|].
        eapply slot_small; eauto. pose proof (list_wrap_len (a ++ b)). rewrite app_length in H0. lia.
      + assert (j = 16%nat) by (assert (j < length (l ++ [c16]))%nat by (apply nth_error_Some; congruence); rewrite app_length in H0; simpl in H0; lia).
        subst j. destruct (H16 c Hj) as [->|(v & -> & _)]; destruct Hin.
  Qed.

  Lemma full_children_nth p : forall cs i j c, nth_error cs j = Some c -> c <> NEmpty ->
    In (p ++ [i + N.of_nat j], c) (full_children p i cs).
  Proof.
    induction cs as [|c0 r IH]; intros i j c Hj Hne; [destruct j; discriminate|]. cbn [full_children].
    destruct j as [|j].
    - cbn in Hj. inversion Hj; subst c0. replace (i + N.of_nat 0) with i by lia.
      destruct c; try (left; reflexivity). contradiction Hne. reflexivity.
    - cbn in Hj. specialize (IH (i + 1) j c Hj Hne).
      replace (i + N.of_nat (S j)) with (i + 1 + N.of_nat j) by lia.
      destruct c0; try (right; exact IH). exact IH.
  Qed.

  Variable T : list N -> option (list N).
  Variable root : list N.
  Notation RN := (RN H T root CbNone).

  Lemma cref_hashed c ec : pwf c -> node_enc H c = Some ec -> (32 <= length ec)%nat ->
    cref H c (collapse H c) = NHash (H ec).
  Proof.
    intros Hw Ee L. destruct (pwf_shape c Hw) as [(k & c' & ->)|(cs & ->)]; unfold cref; rewrite Ee;
      (assert (Nat.ltb (length ec) 32 = false) as -> by (apply Nat.ltb_ge; exact L)); reflexivity.
  Qed.

  Lemma bridge_sub : forall n, pwf n -> forall p e, node_enc H n = Some e ->
    RN p (H e) CbNone -> T (H e) = Some e ->
    (forall q e', In (q, e') (nodes_of H p n) -> T (H e') = Some e') ->
    forall q e', In (q, e') (nodes_of H p n) -> RN q (H e') CbNone.
  Proof.
    induction n as [|v|k c IH|cs IH|h] using node_ind'; intros Hw p e Ee Rp Tp HT q e' Hin;
      try (destruct Hin; fail).
    - rewrite nodes_of_short, in_app_iff in Hin. destruct Hin as [Hin|Hin].
      2:{ apply (in_own H H_len) in Hin. destruct Hin as (-> & E2 & _). rewrite Ee in E2. inversion E2; subst. exact Rp. }
      inversion Hw as [k0 v Hk Hs Hv|k0 c0 Hn Hk0 Hs Hc|]; subst; [destruct Hin|].
      assert (Ht : has_term k = false) by (apply has_term_nib_false; apply nibbles_forallb; exact Hn).
      destruct (pwf_enc_total H H_len c Hc) as [ec Eec].
      assert (Pk : p ++ k <> []) by (intros X; apply app_eq_nil in X; destruct X; contradiction).
      destruct (Nat.lt_ge_cases (length ec) 32) as [L|L].
      { rewrite (emb_no_nodes c Hc (p ++ k) ec Pk Eec L) in Hin. destruct Hin. }
      assert (Hsub : forall x, In x (nodes_of H (p ++ k) c) -> In x (nodes_of H p (NShort k c))).
      { intros x Hx. rewrite nodes_of_short, in_app_iff. left. exact Hx. }
      assert (Hown : In (p ++ k, ec) (nodes_of H (p ++ k) c)).
      { assert (X : In (p ++ k, ec) (own H (p ++ k) c)).
        { apply (in_own H H_len). split; [reflexivity|split; [exact Eec|]]. unfold Commit.hashedb.
          apply orb_true_iff. right. apply Nat.leb_le. exact L. }
        destruct (pwf_shape c Hc) as [(k' & c' & ->)|(cs & ->)];
          [rewrite nodes_of_short|rewrite nodes_of_full]; apply in_app_iff; right; exact X. }
      apply (IH Hc (p ++ k) ec Eec);
        [|apply (HT (p ++ k) ec); apply Hsub; exact Hown
         |intros q0 e0 X; apply (HT q0 e0); apply Hsub; exact X|exact Hin].
      eapply RN_child; [exact Rp|exact Tp|apply (decode_enc H H_len _ _ Hw Ee)| |].
      + cbn [collapse child_list]. reflexivity.
      + rewrite (cref_hashed c ec Hc Eec L). unfold short_key. rewrite Ht. left. reflexivity.
    - rewrite nodes_of_full, in_app_iff in Hin. destruct Hin as [Hin|Hin].
      2:{ apply (in_own H H_len) in Hin. destruct Hin as (-> & E2 & _). rewrite Ee in E2. inversion E2; subst. exact Rp. }
      inversion Hw as [| |cs0 L17 Hch H16]; subst.
      pose proof Hin as Hin0.
      apply (in_go_nodes H H_len) in Hin. destruct Hin as (j & c & Hj & Hin). simpl in Hin.
      destruct (Nat.lt_ge_cases j 16) as [J|J].
      2:{ assert (j = 16%nat) by (assert (j < length cs)%nat by (apply nth_error_Some; congruence); lia).
          subst j. destruct (H16 c Hj) as [->|(v & -> & _)]; destruct Hin. }
      destruct (Hch j c Hj J) as [->|Hc]; [destruct Hin|].
      destruct (pwf_enc_total H H_len c Hc) as [ec Eec].
      assert (Pj : p ++ [N.of_nat j] <> []) by (intros X; apply app_eq_nil in X; destruct X; discriminate).
      destruct (Nat.lt_ge_cases (length ec) 32) as [L|L].
      { rewrite (emb_no_nodes c Hc _ ec Pj Eec L) in Hin. destruct Hin. }
      assert (Hsub : forall x, In x (nodes_of H (p ++ [N.of_nat j]) c) -> In x (nodes_of H p (NFull cs))).
      { intros x Hx. destruct x as [qx ex]. rewrite nodes_of_full, in_app_iff. left.
        apply (in_go_nodes H H_len). exists j, c. split; [exact Hj|exact Hx]. }
      assert (Hown : In (p ++ [N.of_nat j], ec) (nodes_of H (p ++ [N.of_nat j]) c)).
      { assert (X : In (p ++ [N.of_nat j], ec) (own H (p ++ [N.of_nat j]) c)).
        { apply (in_own H H_len). split; [reflexivity|split; [exact Eec|]]. unfold Commit.hashedb.
          apply orb_true_iff. right. apply Nat.leb_le. exact L. }
        destruct (pwf_shape c Hc) as [(k' & c' & ->)|(cs' & ->)];
          [rewrite nodes_of_short|rewrite nodes_of_full]; apply in_app_iff; right; exact X. }
      rewrite Forall_forall in IH.
      apply (IH c (nth_error_In _ _ Hj) Hc (p ++ [N.of_nat j]) ec Eec);
        [|apply (HT (p ++ [N.of_nat j]) ec); apply Hsub; exact Hown
         |intros q0 e0 X; apply (HT q0 e0); apply Hsub; exact X|exact Hin].
      eapply RN_child; [exact Rp|exact Tp|apply (decode_enc H H_len _ _ Hw Ee)| |].
      + cbn [collapse child_list]. reflexivity.
      + rewrite firstn_all2 by (rewrite map_length; lia).
        replace (N.of_nat j) with (0 + N.of_nat j) by lia. apply full_children_nth.
        * rewrite (map_nth_error _ _ _ Hj), (cref_hashed c ec Hc Eec L). reflexivity.
        * discriminate.
  Qed.

  (* c11/c07's canonical node set of the expanded trie t is contained in the sync target *)
  Theorem nodes_of_in_RN t et :
    pwf t -> node_enc H t = Some et -> root = H et -> root <> empty_root H ->
    (forall q e, In (q, e) (nodes_of H [] t) -> T (H e) = Some e) ->
    forall q e, In (q, e) (nodes_of H [] t) -> RN q (H e) CbNone.
  Proof.
    intros Hw Ee Er Hne HT.
    assert (Hown : In ([], et) (nodes_of H [] t)).
    { assert (X : In ([], et) (own H [] t)).
      { apply (in_own H H_len). split; [reflexivity|split; [exact Ee|reflexivity]]. }
      destruct (pwf_shape t Hw) as [(k' & c' & ->)|(cs' & ->)];
        [rewrite nodes_of_short|rewrite nodes_of_full]; apply in_app_iff; right; exact X. }
    apply (bridge_sub t Hw [] et Ee); [|apply (HT [] et); exact Hown|exact HT].
    rewrite <- Er. apply RN_root. exact Hne.
  Qed.

  (* ---- the converse inclusion: every target node is in nodes_of ---- *)
  Lemma full_children_in2 p : forall l i q c', In (q, c') (full_children p i l) ->
    exists j, nth_error l j = Some c' /\ q = p ++ [i + N.of_nat j].
  Proof.
    induction l as [|c0 r IH]; intros i q c'; cbn [full_children]; [intros []|].
    assert (Hr : In (q, c') (full_children p (i + 1) r) -> exists j, nth_error (c0 :: r) j = Some c' /\ q = p ++ [i + N.of_nat j]).
    { intros X. destruct (IH _ _ _ X) as (j & A & B). exists (S j). split; [exact A|]. rewrite B. f_equal. f_equal. lia. }
    destruct c0; try exact Hr;
      (intros [X|X]; [inversion X; subst; exists 0%nat; split; [reflexivity|f_equal; f_equal; lia]|exact (Hr X)]).
  Qed.

  Lemma nth_error_map_inv {A B} (f : A -> B) : forall l j y, nth_error (map f l) j = Some y ->
    exists x, nth_error l j = Some x /\ f x = y.
  Proof.
    induction l as [|a l IH]; intros j y E; [destruct j; discriminate|].
    destruct j; simpl in E; [inversion E; exists a; split; reflexivity|apply IH; exact E].
  Qed.

  Variable t : node.
  (* sub-nodes of t with their paths (descending through well-formed children only) *)
  Inductive sub : list N -> node -> Prop :=
  | sub_root : sub [] t
  | sub_short p k c : sub p (NShort k c) -> pwf c -> sub (p ++ k) c
  | sub_full p cs j c : sub p (NFull cs) -> nth_error cs j = Some c -> (j < 16)%nat -> pwf c ->
      sub (p ++ [N.of_nat j]) c.

  Lemma sub_in p n : sub p n -> forall x, In x (nodes_of H p n) -> In x (nodes_of H [] t).
  Proof.
    induction 1 as [|p k c S IH Hc|p cs j c S IH Hj J Hc]; intros x Hx; [exact Hx| |].
    - apply IH. rewrite nodes_of_short, in_app_iff. left. exact Hx.
    - apply IH. destruct x as [q e]. rewrite nodes_of_full, in_app_iff. left.
      apply (in_go_nodes H H_len). exists j, c. split; [exact Hj|exact Hx].
  Qed.

  Lemma own_in_nodes p n x : pwf n -> In x (own H p n) -> In x (nodes_of H p n).
  Proof.
    intros Hw Hx. destruct (pwf_shape n Hw) as [(k' & c' & ->)|(cs' & ->)];
      [rewrite nodes_of_short|rewrite nodes_of_full]; apply in_app_iff; right; exact Hx.
  Qed.

  Lemma cref_NHash_inv c ch : (c = NEmpty \/ (exists v, c = NValue v) \/ pwf c) ->
    cref H c (collapse H c) = NHash ch ->
    pwf c /\ exists ec, node_enc H c = Some ec /\ (32 <= length ec)%nat /\ ch = H ec.
  Proof.
    intros [->|[(v & ->)|Hc]] E; try discriminate E.
    split; [exact Hc|]. destruct (pwf_enc_total H H_len c Hc) as [ec Eec]. exists ec. split; [exact Eec|].
    destruct (Nat.lt_ge_cases (length ec) 32) as [L|L].
    - exfalso. destruct (pwf_shape c Hc) as [(k & c' & ->)|(cs & ->)]; unfold cref in E; rewrite Eec in E;
        (assert (Nat.ltb (length ec) 32 = true) as X by (apply Nat.ltb_lt; exact L)); rewrite X in E; discriminate E.
    - split; [exact L|]. rewrite (cref_hashed c ec Hc Eec L) in E. inversion E. reflexivity.
  Qed.

  Theorem RN_in_nodes_of et :
    pwf t -> node_enc H t = Some et -> root = H et ->
    (forall q e, In (q, e) (nodes_of H [] t) -> T (H e) = Some e) ->
    forall q h cb, RN q h cb -> exists e, In (q, e) (nodes_of H [] t) /\ H e = h.
  Proof.
    intros Hw Ee Er HT.
    assert (G : forall q h cb, RN q h cb ->
      exists n e, sub q n /\ pwf n /\ node_enc H n = Some e /\ H e = h /\ ((32 <= length e)%nat \/ q = [])).
    { intros q h cb R. induction R as [Hne|p h cb b n0 cl cp ch R IH Tb Dn Cl Hin|].
      - exists t, et. split; [apply sub_root|]. split; [exact Hw|]. split; [exact Ee|]. split; [auto|right; reflexivity].
      - destruct IH as (n & e & S & Pn & En & He & Hl).
        assert (Hown : In (p, e) (nodes_of H [] t)).
        { apply (sub_in p n S). apply (own_in_nodes p n _ Pn). apply (in_own H H_len).
          split; [reflexivity|split; [exact En|]]. unfold Commit.hashedb. apply orb_true_iff.
          destruct Hl as [L| ->]; [right; apply Nat.leb_le; exact L|left; reflexivity]. }
        pose proof (HT _ _ Hown) as Te. rewrite He in Te. rewrite Te in Tb. inversion Tb; subst b.
        pose proof (decode_enc H H_len _ _ Pn En) as De. unfold Proof.proof_decode in De. rewrite De in Dn. inversion Dn; subst n0.
        inversion Pn as [k v Hk Hs Hv|k c Hn Hk0 Hs Hc|cs L17 Hch H16]; subst n.
        + cbn [collapse child_list cref] in Cl. inversion Cl; subst cl. destruct Hin as [X|[]]. inversion X.
        + cbn [collapse child_list] in Cl. inversion Cl; subst cl. destruct Hin as [X|[]]. inversion X as [[X1 X2]].
          destruct (cref_NHash_inv c ch (or_intror (or_intror Hc)) X2) as (_ & ec & Eec & L & ->).
          assert (Ht : has_term k = false) by (apply has_term_nib_false; apply nibbles_forallb; exact Hn).
          unfold short_key. rewrite Ht.
          exists c, ec. split; [apply sub_short; assumption|]. split; [exact Hc|]. split; [exact Eec|]. split; [reflexivity|left; exact L].
        + assert (Ecl : Some (full_children p 0 (map (fun c => cref H c (collapse H c)) cs)) = Some cl).
          { rewrite <- Cl. cbn [collapse]. unfold child_list. rewrite firstn_all2 by (rewrite map_length; lia). reflexivity. }
          injection Ecl as Ecl. subst cl.
          destruct (full_children_in2 _ _ _ _ _ Hin) as (j & Hj & ->).
          apply nth_error_map_inv in Hj. destruct Hj as (c & Hc1 & Hc2).
          assert (Hcase : c = NEmpty \/ (exists v, c = NValue v) \/ pwf c).
          { destruct (Nat.lt_ge_cases j 16) as [J|J]; [destruct (Hch j c Hc1 J); auto|].
            assert (j = 16%nat) by (assert (j < length cs)%nat by (apply nth_error_Some; congruence); lia). subst j.
            destruct (H16 c Hc1) as [->|(v & -> & _)]; eauto. }
          destruct (cref_NHash_inv c ch Hcase Hc2) as (Pc & ec & Eec & L & ->).
          assert (J : (j < 16)%nat).
          { destruct (Nat.lt_ge_cases j 16) as [J|J]; [exact J|].
            assert (j = 16%nat) by (assert (j < length cs)%nat by (apply nth_error_Some; congruence); lia). subst j.
            destruct (H16 c Hc1) as [->|(v & -> & _)]; inversion Pc. }
          replace (0 + N.of_nat j) with (N.of_nat j) by lia.
          exists c, ec. split; [eapply sub_full; eauto|]. split; [exact Pc|]. split; [exact Eec|]. split; [reflexivity|left; exact L].
      - exfalso. assert (X : CbAccount = CbNone).
        { clear - R. remember CbAccount as cbx. induction R; subst; auto; try discriminate. }
        discriminate X. }
    intros q h cb R. destruct (G q h cb R) as (n & e & S & Pn & En & He & Hl).
    exists e. split; [|exact He].
    apply (sub_in q n S). apply (own_in_nodes q n _ Pn). apply (in_own H H_len).
    split; [reflexivity|split; [exact En|]]. unfold Commit.hashedb. apply orb_true_iff.
    destruct Hl as [L| ->]; [right; apply Nat.leb_le; exact L|left; reflexivity].
  Qed.
End Bridge.

From GV Require Import Trie.SyncProofs Trie.SyncComplete Trie.SyncCallback.

Section CompleteNodesOf.
  Variable H : list N -> list N.
  Hypothesis H_len : forall x, length (H x) = 32%nat.
  Variable T CD : list N -> option (list N).
  Variable db0 : kv.
  Variable t : node.
  Variable et : list N.

  (* completeness in terms of c11/c07's [nodes_of]: sync of one trie (no leaf callback),
     hash scheme: when nothing is pending, every node of the canonical node set of t is
     in the store under its hash *)
  Theorem sync_complete_nodes_of ops s' :
    pwf t -> node_enc H t = Some et -> H et <> empty_root H ->
    (forall q e, In (q, e) (nodes_of H [] t) -> T (H e) = Some e) ->
    (forall p h cb, RN H T (H et) CbNone p h cb -> h <> zero32) ->
    (forall p h cb, RN H T (H et) CbNone p h cb -> length h = 32%nat) ->
    (forall k v, get k db0 = Some v ->
       (forall b, RNh H T (H et) CbNone k -> T k = Some b -> v = b) /\
       (forall h c, k = code_key h -> RC H T (H et) CbNone h -> CD h = Some c -> v = c)) ->
    closedA H T (H et) CbNone db0 ->
    let s0 := unsum (new_sync H false db0 (H et) CbNone) in
    run_wf4 H T CD s0 ops ->
    pending (run H s0 ops) = O -> commit (run H s0 ops) = Some s' ->
    forall q e, In (q, e) (nodes_of H [] t) -> has (H e) (sc_db s') = true.
  Proof.
    intros Hw Ee Hne HT Hnz Hlen Ag C0 s0 W Hp Ec q e Hin.
    assert (Hk : forall p h cb p' cb', RN H T (H et) CbNone p h cb -> RN H T (H et) CbNone p' h cb' -> cb = cb').
    { assert (G : forall p h cb, RN H T (H et) CbNone p h cb -> cb = CbNone).
      { intros p h cb R. induction R; auto. }
      intros p h cb p' cb' R1 R2. rewrite (G _ _ _ R1), (G _ _ _ R2). reflexivity. }
    destruct (sync_complete_callback H T CD (H et) CbNone db0 Hk Hnz Hlen Ag ops s' C0 W Hp Ec) as (A & _).
    eapply A. eapply (nodes_of_in_RN H H_len T (H et) t et); eauto.
  Qed.

  (* exactness in terms of nodes_of: whatever the finished sync added to the store is a node
     of the canonical node set of t, under its hash *)
  Theorem sync_exact_nodes_of ops s' :
    pwf t -> node_enc H t = Some et -> H et <> empty_root H ->
    (forall q e, In (q, e) (nodes_of H [] t) -> T (H e) = Some e) ->
    (forall p h cb, RN H T (H et) CbNone p h cb -> h <> zero32) ->
    (forall p h cb, RN H T (H et) CbNone p h cb -> length h = 32%nat) ->
    (forall k v, get k db0 = Some v ->
       (forall b, RNh H T (H et) CbNone k -> T k = Some b -> v = b) /\
       (forall h c, k = code_key h -> RC H T (H et) CbNone h -> CD h = Some c -> v = c)) ->
    closedA H T (H et) CbNone db0 ->
    let s0 := unsum (new_sync H false db0 (H et) CbNone) in
    run_wf4 H T CD s0 ops ->
    pending (run H s0 ops) = O -> commit (run H s0 ops) = Some s' ->
    forall k v, get k (sc_db s') = Some v ->
      get k db0 = Some v \/ exists q, In (q, v) (nodes_of H [] t) /\ k = H v.
  Proof.
    intros Hw Ee Hne HT Hnz Hlen Ag C0 s0 W Hp Ec k v Ek.
    assert (G : forall p h cb, RN H T (H et) CbNone p h cb -> cb = CbNone).
    { intros p h cb R. induction R; auto. }
    assert (Hk : forall p h cb p' cb', RN H T (H et) CbNone p h cb -> RN H T (H et) CbNone p' h cb' -> cb = cb').
    { intros p h cb p' cb' R1 R2. rewrite (G _ _ _ R1), (G _ _ _ R2). reflexivity. }
    destruct (sync_complete_callback H T CD (H et) CbNone db0 Hk Hnz Hlen Ag ops s' C0 W Hp Ec) as (_ & _ & D).
    destruct (D k v Ek) as [X|[((q & cb & R) & Tk)|(h & _ & Rc & _)]]; [left; exact X| |].
    - right. destruct (RN_in_nodes_of H H_len T (H et) t et Hw Ee eq_refl HT q k cb R) as (e & Hin & He).
      pose proof (HT _ _ Hin) as Te. rewrite He in Te. rewrite Te in Tk. inversion Tk; subst v.
      exists q. split; [exact Hin|symmetry; exact He].
    - exfalso. destruct Rc. apply G in H0. discriminate.
  Qed.
End CompleteNodesOf.
