(* Trie/CommitExact.v — "none wrong": every node written by a commit is the
   encoding of the hashed ground node at that path; hence every entry of the
   updated path store is either a correct node of the new ground trie or an
   entry of the old store that the commit did not touch. *)
From GV Require Import Lib.Tactics Lib.Bytes Rlp.Codec Trie.Hex Trie.Node Trie.Ops Trie.Hash.
From GV Require Import Trie.OpsProofs Trie.Canon Trie.Proof Trie.ProofProofs.
From GV Require Import Trie.Commit Trie.CommitProofs Trie.CommitTracer Trie.CommitReads Trie.CommitSim Trie.CommitSimDel Trie.CommitHist.
Local Open Scope N_scope.

Section Exact.
  Variable H : list N -> list N.
  Hypothesis H_len : forall x, length (H x) = 32%nat.
  Variable R : list N -> list N -> option (node * list N).
  Variable dirty : list N -> bool.
  Variable delp : list N -> Prop.
  Variable tr : tracer.

  Definition is_upd (o : option nentry) (b : list N) : Prop :=
    exists h prev, o = Some (Upd h b prev).

  Lemma store_node_upd f p n2 ns1 n' ns' e q b :
    store_node H tr f p n2 ns1 = Some (n', ns') -> node_enc H n2 = Some e ->
    is_upd (am_get q ns') b -> is_upd (am_get q ns1) b \/ (q = p /\ b = e /\ hashedb f e = true).
  Proof.
    unfold store_node. intros E EN U. rewrite EN in E. destruct (hashedb f e) eqn:HB.
    - inversion E; subst. destruct U as (h & prev & U). rewrite am_get_put in U.
      destruct (bytes_eqb q p) eqn:Q.
      + apply beqb_eq in Q. inversion U; subst. right. auto.
      + left. exists h, prev. exact U.
    - destruct (pv_get p tr); inversion E; subst; [left; exact U|].
      destruct U as (h & prev & U). rewrite am_get_put in U.
      destruct (bytes_eqb q p); [discriminate|]. left. exists h, prev. exact U.
  Qed.

  Definition upd_spec (f : bool) (p : list N) (G : node) (ns ns' : nodeset) : Prop :=
    forall q b, is_upd (am_get q ns') b ->
      is_upd (am_get q ns) b \/ exists Gq, gsub H f p G q Gq /\ node_enc H Gq = Some b.

  Lemma children_upd fu p :
    (forall p n G ns n' ns',
        commit_node H fu dirty tr false p n ns = Some (n', ns') ->
        rep H R dirty delp false p n G -> (is_sf G = true -> can G) -> upd_spec false p G ns ns') ->
    forall l lg i ns l' ns',
      commit_children (commit_node H fu dirty tr false) p (N.of_nat i) l ns = Some (l', ns') ->
      length l = length lg -> (i + length l <= 17)%nat ->
      (forall j c c', nth_error l j = Some c -> nth_error lg j = Some c' ->
                      rep H R dirty delp false (p ++ [N.of_nat (i + j)]) c c') ->
      (forall j c', nth_error lg j = Some c' -> (i + j < 16)%nat -> c' = NEmpty \/ can c') ->
      forall q b, is_upd (am_get q ns') b ->
        is_upd (am_get q ns) b \/
        exists j c' Gq, nth_error lg j = Some c' /\ (i + j < 16)%nat /\
                        gsub H false (p ++ [N.of_nat (i + j)]) c' q Gq /\ node_enc H Gq = Some b.
  Proof.
    intros IHcn. induction l as [|c l IHl]; intros [|c' lg] i ns l' ns' E L B Rs Cs q b U; try discriminate.
    - inversion E; subst. left. exact U.
    - rewrite commit_children_cons in E.
      destruct (child_step (commit_node H fu dirty tr false) p (N.of_nat i) c ns) as [[c2 ns1]|] eqn:CS; [|discriminate].
      replace (N.of_nat i + 1) with (N.of_nat (Datatypes.S i)) in E by lia.
      destruct (commit_children (commit_node H fu dirty tr false) p (N.of_nat (Datatypes.S i)) l ns1)
        as [[r' ns2]|] eqn:CC; [|discriminate].
      inversion E; subst l' ns'. clear E. cbn [length] in B.
      destruct (IHl lg (Datatypes.S i) ns1 r' ns2 CC) with (q := q) (b := b) as [U1|(j & d' & Gq & X1 & X2 & X3 & X4)];
        try (cbn in L; lia); try exact U.
      + intros j d d' X X'. replace (Datatypes.S i + j)%nat with (i + Datatypes.S j)%nat by lia. apply Rs; assumption.
      + intros j d' X' J. apply (Cs (Datatypes.S j) d' X'). lia.
      + (* entry already in ns1: from the head child or older *)
        pose proof (Rs 0%nat c c' eq_refl eq_refl) as Rc. rewrite Nat.add_0_r in Rc.
        apply child_step_cases in CS. destruct CS as [(-> & -> & _)|(I & RC)]; [left; exact U1|].
        assert (I16 : (i < 16)%nat) by lia.
        destruct (IHcn _ _ _ _ _ _ RC Rc) with (q := q) (b := b) as [U0|(Gq & X3 & X4)]; try exact U1.
        * intros SF. destruct (Cs 0%nat c' eq_refl) as [->|X]; [lia|discriminate|exact X].
        * left. exact U0.
        * right. exists 0%nat, c', Gq. rewrite Nat.add_0_r. auto.
      + right. exists (Datatypes.S j), d', Gq.
        replace (i + Datatypes.S j)%nat with (Datatypes.S i + j)%nat by lia. split; [exact X1|]. split; [lia|auto].
  Qed.

  Lemma commit_node_upd : forall fuel f p n G ns n' ns',
    commit_node H fuel dirty tr f p n ns = Some (n', ns') ->
    rep H R dirty delp f p n G -> (is_sf G = true -> can G) -> upd_spec f p G ns ns'.
  Proof.
    induction fuel as [|fu IH]; intros f p n G ns n' ns' E Rp Cn; [discriminate|].
    destruct (clean_hashed H dirty f p n) as [h|] eqn:CH.
    - cbn [commit_node] in E. rewrite CH in E. inversion E; subst. intros q b U. left. exact U.
    - destruct n as [|v|k c|cs|hh]; try (cbn [commit_node] in E; rewrite CH in E; discriminate).
      + destruct (commit_short_inv H H_len _ _ _ _ _ _ _ _ _ _ E CH) as (c2 & ns1 & CR & EN & ST).
        inversion Rp as [| | |f0 p0 k0 c0 c' Rc CO|]; subst.
        pose proof (Cn eq_refl) as CanG.
        assert (C1 : upd_spec false (p ++ k) c' ns ns1).
        { destruct (can_short_inv k c' CanG) as [[_ [v ->]]|(_ & _ & cs' & -> & CanC)].
          - inversion Rc as [|f1 p1 v1|f1 p1 h G1 e1 SF1 | |]; subst; [|discriminate SF1].
            destruct CR as [-> ->]. intros q b U. left. exact U.
          - inversion Rc as [| |f1 p1 h G1 e1 SF1 W1 E1 Hh1 HB1 C1 U1| |f1 p1 cs0 cs1 HL1 Rcs1 CO1]; subst.
            + destruct CR as [-> ->]. intros q b U. left. exact U.
            + eapply IH; [exact CR|exact Rc|intros _; exact CanC]. }
        destruct (rep_enc H H_len R dirty delp f p _ _ Rp) as (_ & _ & ENG). specialize (ENG eq_refl).
        destruct (node_enc H (NShort k c2)) as [e|] eqn:E2; [|unfold store_node in ST; rewrite E2 in ST; discriminate].
        intros q b U. destruct (store_node_upd _ _ _ _ _ _ _ _ _ ST E2 U) as [U1|(-> & -> & HB)].
        * destruct (C1 q b U1) as [U0|(Gq & X1 & X2)]; [left; exact U0|right].
          exists Gq. split; [apply gsub_short; exact X1|exact X2].
        * right. exists (NShort k c'). split; [|congruence].
          eapply gsub_here; [reflexivity| |exact HB]. congruence.
      + destruct (commit_full_inv H H_len _ _ _ _ _ _ _ _ _ E CH) as (cs2 & ns1 & CC & EN & ST).
        inversion Rp as [| | | |f0 p0 cs0 cs' HL Rcs CO]; subst.
        pose proof (Cn eq_refl) as CanG.
        destruct (can_full_inv cs' CanG) as (L17 & Hch & _ & _).
        destruct (rep_enc H H_len R dirty delp f p _ _ Rp) as (_ & _ & ENG). specialize (ENG eq_refl).
        destruct (node_enc H (NFull cs2)) as [e|] eqn:E2; [|unfold store_node in ST; rewrite E2 in ST; discriminate].
        intros q b U. destruct (store_node_upd _ _ _ _ _ _ _ _ _ ST E2 U) as [U1|(-> & -> & HB)].
        * destruct (children_upd fu p (fun p n G ns n' ns' X => IH false p n G ns n' ns' X)
                      cs cs' 0%nat ns cs2 ns1 CC HL) with (q := q) (b := b)
            as [U0|(j & d' & Gq & X1 & X2 & X3 & X4)]; try exact U1.
          { lia. }
          { intros j c c' X X'. apply Rcs; assumption. }
          { intros j c' X J. apply (Hch j c' X). exact J. }
          { left. exact U0. }
          { right. exists Gq. split; [eapply gsub_full; eassumption|exact X4]. }
        * right. exists (NFull cs'). split; [|congruence].
          eapply gsub_here; [reflexivity| |exact HB]. congruence.
      + cbn [commit_node] in E. rewrite CH in E. inversion E; subst. intros q b U. left. exact U.
  Qed.
End Exact.

Lemma add_deletions_del tr q e : am_get q (add_deletions tr []) = Some e -> exists o, e = Del o.
Proof.
  unfold add_deletions.
  assert (X : forall l ns, (forall e0, am_get q ns = Some e0 -> exists o, e0 = Del o) ->
            forall e0, am_get q (fold_left (fun ns1 p => am_put p (Del (pv_get p tr)) ns1) l ns) = Some e0 ->
            exists o, e0 = Del o).
  { induction l as [|p l IH]; intros ns A e0; cbn [fold_left]; [apply A|].
    apply IH. intros e1. rewrite am_get_put. destruct (bytes_eqb q p); [|apply A].
    intro Y. inversion Y. eauto. }
  apply X. intros e0 Y. discriminate.
Qed.

Section ExactTop.
  Variable H : list N -> list N.
  Hypothesis H_len : forall x, length (H x) = 32%nat.
  Hypothesis H_inj_empty : forall e, H e = H empty_root_preimage -> e = empty_root_preimage.

  (* commit_exact_path, proved part for every reachable session: the updated store
     holds every hashed node of the new ground trie F at its path (none missing),
     every node the commit wrote is the encoding of the hashed node of F at that
     path (none wrong), and any other entry of the updated store is an entry of the
     old store that the node set does not mention *)
  Theorem commit_exact_path_sinv S ss F r ns :
    sinv H S ss F -> commit H ss = Some (r, Some ns) ->
    forall q b, am_get q (apply_nodeset PathScheme ns S) = Some b ->
      (exists Gq, gsub H true [] F q Gq /\ node_enc H Gq = Some b) \/
      (am_get q ns = None /\ am_get q S = Some b).
  Proof.
    intros SI C.
    intros q b Q. rewrite (apply_nodeset_path ns (commit_sorted H ss r ns C)) in Q.
    destruct (am_get q ns) as [[h b0 prev|prev]|] eqn:A; [|discriminate|right; auto].
    inversion Q; subst b0. left.
    destruct SI as [GO Rp]. unfold commit in C.
    assert (UPD : forall n0 ns1, commit_node H commit_fuel (dirty_at ss) (s_tr ss) true [] (s_root ss)
                                   (add_deletions (s_tr ss) []) = Some (n0, ns1) ->
                  is_sf F = true -> can F -> is_upd (am_get q ns1) b ->
                  exists Gq, gsub H true [] F q Gq /\ node_enc H Gq = Some b).
    { intros n0 ns1 CN SF Cn U.
      destruct (commit_node_upd H H_len _ _ _ _ _ _ _ _ _ _ _ _ CN Rp (fun _ => Cn) q b U) as [(h0 & p0 & U0)|X]; [|exact X].
      apply add_deletions_del in U0. destruct U0 as [o U0]. discriminate. }
    remember (s_root ss) as n eqn:RT in *.
    destruct n as [|v|k c|cs|hh].
    - destruct (deleted_nodes (s_tr ss)) eqn:D; inversion C; subst.
      apply add_deletions_del in A. destruct A as [o A]. discriminate.
    - cbn in C. discriminate.
    - assert (SFC : is_sf F = true /\ can F).
      { inversion Rp; subst. split; [reflexivity|]. destruct GO as [X|[X _]]; [discriminate|exact X]. }
      destruct SFC as [SF Cn].
      repeat (dmatch C; try discriminate). inversion C; subst.
      eapply UPD; [reflexivity|exact SF|exact Cn|]. exists h, prev. exact A.
    - assert (SFC : is_sf F = true /\ can F).
      { inversion Rp; subst. split; [reflexivity|]. destruct GO as [X|[X _]]; [discriminate|exact X]. }
      destruct SFC as [SF Cn].
      repeat (dmatch C; try discriminate). inversion C; subst.
      eapply UPD; [reflexivity|exact SF|exact Cn|]. exists h, prev. exact A.
    - assert (SFC : is_sf F = true /\ can F).
      { inversion Rp; subst. split; [assumption|]. destruct GO as [X|[X _]]; [subst; discriminate|exact X]. }
      destruct SFC as [SF Cn].
      repeat (dmatch C; try discriminate). inversion C; subst.
      eapply UPD; [reflexivity|exact SF|exact Cn|]. exists h, prev. exact A.
  Qed.

End ExactTop.
