(* Trie/WitnessProofs.v — the collected witness suffices for stateless re-execution,
   and a missing node is always noticed.  Lemmas about Trie/Witness.v (sessions over
   several tries) built on Trie/Ops.v (get / insert / delete with a resolver).

   The core is ONE simulation lemma per trie operation ([get_dich], [insert_dich],
   [delete_dich]): let r1, r2 be two node readers and P a set of blobs such that r2
   answers exactly like r1 on blobs in P and answers "missing" on blobs outside P.
   If the operation succeeds over r1 then over r2 it
     - returns the same value, the same new in-memory trie and emits the same events
       when every blob it resolved lies in P, and
     - returns MissingNodeError (never anything else) when some resolved blob does not.
   The stateless store made from a witness W is such an r2 for P = (In _ W), for ANY
   list W of blobs on which H has no collision. *)
From GV Require Import Lib.Tactics Lib.Bytes Trie.Hex Trie.Node Trie.Ops Trie.Hash Trie.Commit Trie.CommitProofs Trie.Witness.
Local Open Scope N_scope.

(* ------------------------------------------------------------------ *)
(* events inside / outside a set of blobs                              *)
(* ------------------------------------------------------------------ *)
Section Sets.
  Variable P : list N -> Prop.

  Definition evP (e : tev) : Prop := match e with TRes _ b => P b | _ => True end.
  Definition all_in (ev : list tev) : Prop := Forall evP ev.
  Definition some_out (ev : list tev) : Prop := Exists (fun e => ~ evP e) ev.

  Lemma all_in_not_some_out ev : all_in ev -> some_out ev -> False.
  Proof.
    unfold all_in, some_out. intros A S. induction S as [e l He|e l S IH].
    - inversion A; subst. contradiction.
    - inversion A; subst. apply IH; assumption.
  Qed.

  (* the same on events tagged with a session id *)
  Definition all_in_s (ev : list sev) : Prop := Forall (fun e => evP (snd e)) ev.
  Definition some_out_s (ev : list sev) : Prop := Exists (fun e => ~ evP (snd e)) ev.

  Lemma all_in_s_tag i ev : all_in_s (tag_evs i ev) <-> all_in ev.
  Proof. unfold all_in_s, all_in, tag_evs. rewrite Forall_map. cbn. reflexivity. Qed.
  Lemma some_out_s_tag i ev : some_out_s (tag_evs i ev) <-> some_out ev.
  Proof. unfold some_out_s, some_out, tag_evs. rewrite Exists_map. cbn. reflexivity. Qed.

  Lemma all_in_s_not_some_out ev : all_in_s ev -> some_out_s ev -> False.
  Proof.
    unfold all_in_s, some_out_s. intros A S. induction S as [e l He|e l S IH].
    - inversion A; subst. contradiction.
    - inversion A; subst. apply IH; assumption.
  Qed.

  Lemma all_in_s_blobs ev : all_in_s ev <-> (forall b, In b (ev_blobs ev) -> P b).
  Proof.
    unfold all_in_s, ev_blobs. induction ev as [|[i e] r IH]; cbn.
    - split; [intros _ b []|constructor].
    - rewrite Forall_cons_iff, IH. cbn. split.
      + intros [A B] b Hb. apply in_app_or in Hb. destruct Hb as [Hb|Hb]; [|apply B; exact Hb].
        destruct e; cbn in Hb; try contradiction. destruct Hb as [<-|[]]. exact A.
      + intros X. split.
        * destruct e; cbn; try exact I. apply X. apply in_or_app. left. left. reflexivity.
        * intros b Hb. apply X. apply in_or_app. right. exact Hb.
  Qed.

  Lemma some_out_s_blob ev b : In b (ev_blobs ev) -> ~ P b -> some_out_s ev.
  Proof.
    unfold some_out_s, ev_blobs. induction ev as [|[i e] r IH]; cbn; intros Hb nP; [contradiction|].
    apply in_app_or in Hb. destruct Hb as [Hb|Hb].
    - destruct e; cbn in Hb; try contradiction. destruct Hb as [<-|[]].
      apply Exists_cons_hd. cbn. exact nP.
    - apply Exists_cons_tl. apply IH; assumption.
  Qed.
End Sets.

Ltac ev_tac :=
  cbn [snd fst] in *; unfold all_in, some_out in *;
  rewrite ?Forall_app, ?Exists_app, ?Forall_cons_iff, ?Exists_cons, ?Exists_nil, ?Forall_nil_iff;
  cbn [evP]; tauto.
Ltac finL := left; split; [ev_tac | reflexivity].
Ltac finR := right; split; [ev_tac | reflexivity].

(* ------------------------------------------------------------------ *)
(* the simulation lemma for get / insert / delete                      *)
(* ------------------------------------------------------------------ *)
Section Sim.
  Variables r1 r2 : resolver.
  Variable P : list N -> Prop.
  Hypothesis HA : forall h p n b, r1 h p = Some (n, b) -> P b -> r2 h p = Some (n, b).
  Hypothesis HB : forall h p n b, r1 h p = Some (n, b) -> ~ P b -> r2 h p = None.
  Hypothesis Pdec : forall b, P b \/ ~ P b.

  Lemma get_dich : forall f n path key a,
    get r1 f n path key = TOk a ->
    (all_in P (snd a) /\ get r2 f n path key = TOk a) \/
    (some_out P (snd a) /\ get r2 f n path key = TErr EMissing).
  Proof.
    induction f as [|f IH]; intros n path key a E; cbn [get] in E |- *; [discriminate|].
    destruct n as [|val|nk nv|cs|h].
    - inversion E; subst. finL.
    - inversion E; subst. finL.
    - destruct (negb (is_prefix_of nk key)); [inversion E; subst; finL|].
      destruct (get r1 f nv (path ++ nk) (skipn (length nk) key)) as [[[[v0 n0] d0] ev0]|e] eqn:G; [|discriminate].
      destruct (IH _ _ _ _ G) as [[A1 ->]|[S1 ->]].
      + destruct d0; inversion E; subst; finL.
      + destruct d0; inversion E; subst; finR.
    - destruct key as [|k0 kr]; [discriminate|].
      destruct (child cs k0) as [c|]; [|discriminate].
      destruct (get r1 f c (path ++ [k0]) kr) as [[[[v0 n0] d0] ev0]|e] eqn:G; [|discriminate].
      destruct (IH _ _ _ _ G) as [[A1 ->]|[S1 ->]].
      + destruct d0; [destruct (set_child cs k0 n0); [|discriminate]|]; inversion E; subst; finL.
      + destruct d0; [destruct (set_child cs k0 n0); [|discriminate]|]; inversion E; subst; finR.
    - destruct (r1 h path) as [[rn blob]|] eqn:R; [|discriminate].
      destruct (get r1 f rn path key) as [[[[v0 n0] d0] ev0]|e] eqn:G; [|discriminate].
      inversion E; subst. destruct (Pdec blob) as [Pb|nPb].
      + rewrite (HA _ _ _ _ R Pb). destruct (IH _ _ _ _ G) as [[A1 ->]|[S1 ->]]; [finL|finR].
      + rewrite (HB _ _ _ _ R nPb). finR.
  Qed.

  Lemma insert_nil_all_in p k c : all_in P (snd (insert_nil p k c)).
  Proof. unfold insert_nil. destruct k; ev_tac. Qed.

  Lemma insert_dich : forall f n prefix key value a,
    insert r1 f n prefix key value = TOk a ->
    (all_in P (snd a) /\ insert r2 f n prefix key value = TOk a) \/
    (some_out P (snd a) /\ insert r2 f n prefix key value = TErr EMissing).
  Proof.
    induction f as [|f IH]; intros n prefix key value a E; cbn [insert] in E |- *; [discriminate|].
    destruct key as [|k0 kr].
    - destruct n, value; try discriminate; inversion E; subst; finL.
    - destruct n as [|val|nk nv|cs|h].
      + inversion E; subst. finL.
      + discriminate.
      + destruct (Nat.eqb (prefix_len (k0 :: kr) nk) (length nk)).
        * match type of E with match ?X with _ => _ end = _ => destruct X as [[[d0 n0] ev0]|e] eqn:G end;
            [|discriminate].
          destruct (IH _ _ _ _ _ G) as [[A1 ->]|[S1 ->]].
          -- destruct d0; inversion E; subst; finL.
          -- destruct d0; inversion E; subst; finR.
        * (* the branch split: no resolution at all, both sides are the same term *)
          left. split; [|exact E].
          destruct (nth_error nk (prefix_len (k0 :: kr) nk)); [|discriminate].
          destruct (nth_error (k0 :: kr) (prefix_len (k0 :: kr) nk)); [|discriminate].
          match type of E with context [insert_nil ?a ?b ?c] =>
            pose proof (insert_nil_all_in a b c) as X1; destruct (insert_nil a b c) as [c1 ev1] end.
          match type of E with context [insert_nil ?a ?b ?c] =>
            pose proof (insert_nil_all_in a b c) as X2; destruct (insert_nil a b c) as [c2 ev2] end.
          cbn [snd] in X1, X2.
          dmatch E; [|discriminate]. dmatch E; [|discriminate].
          destruct (Nat.eqb (prefix_len (k0 :: kr) nk) 0); inversion E; subst; ev_tac.
      + destruct (child cs k0) as [c|]; [|discriminate].
        destruct (insert r1 f c (prefix ++ [k0]) kr value) as [[[d0 n0] ev0]|e] eqn:G; [|discriminate].
        destruct (IH _ _ _ _ _ G) as [[A1 ->]|[S1 ->]].
        * destruct d0; [destruct (set_child cs k0 n0); [|discriminate]|]; inversion E; subst; finL.
        * destruct d0; [destruct (set_child cs k0 n0); [|discriminate]|]; inversion E; subst; finR.
      + destruct (r1 h prefix) as [[rn blob]|] eqn:R; [|discriminate].
        destruct (insert r1 f rn prefix (k0 :: kr) value) as [[[d0 n0] ev0]|e] eqn:G; [|discriminate].
        destruct (Pdec blob) as [Pb|nPb].
        * rewrite (HA _ _ _ _ R Pb). destruct (IH _ _ _ _ _ G) as [[A1 ->]|[S1 ->]].
          -- destruct d0; inversion E; subst; finL.
          -- destruct d0; inversion E; subst; finR.
        * rewrite (HB _ _ _ _ R nPb). destruct d0; inversion E; subst; finR.
  Qed.

  Lemma delete_dich : forall f n prefix key a,
    delete r1 f n prefix key = TOk a ->
    (all_in P (snd a) /\ delete r2 f n prefix key = TOk a) \/
    (some_out P (snd a) /\ delete r2 f n prefix key = TErr EMissing).
  Proof.
    induction f as [|f IH]; intros n prefix key a E; cbn [delete] in E |- *; [discriminate|].
    destruct n as [|val|nk nv|cs|h].
    - inversion E; subst. finL.
    - inversion E; subst. finL.
    - dmatch E; [inversion E; subst; finL|].
      dmatch E; [inversion E; subst; finL|].
      match type of E with match ?X with _ => _ end = _ => destruct X as [[[d0 n0] ev0]|e] eqn:G end;
        [|discriminate].
      destruct (IH _ _ _ _ G) as [[A1 ->]|[S1 ->]].
      + destruct d0; [destruct n0|]; inversion E; subst; finL.
      + destruct d0; [destruct n0|]; inversion E; subst; finR.
    - destruct key as [|k0 kr]; [discriminate|].
      destruct (child cs k0) as [c|]; [|discriminate].
      destruct (delete r1 f c (prefix ++ [k0]) kr) as [[[d0 nn] ev0]|e] eqn:G; [|discriminate].
      destruct (IH _ _ _ _ G) as [[A1 ->]|[S1 ->]].
      + (* the recursive call agrees; the collapse may resolve the remaining child *)
        destruct d0; [|inversion E; subst; finL].
        destruct (set_child cs k0 nn) as [cs'|]; [|discriminate].
        dmatch E; [inversion E; subst; finL|].
        destruct (single_child cs') as [[pos|]|]; try (inversion E; subst; finL).
        destruct (child cs' pos) as [rem|]; [|discriminate].
        dmatch E; [|inversion E; subst; finL].
        destruct rem as [|rv|rk rc|rcs|rh]; try (inversion E; subst; finL).
        destruct (r1 rh (prefix ++ [pos])) as [[rn blob]|] eqn:R; [|discriminate].
        destruct (Pdec blob) as [Pb|nPb].
        * rewrite (HA _ _ _ _ R Pb). destruct rn; inversion E; subst; finL.
        * rewrite (HB _ _ _ _ R nPb). destruct rn; inversion E; subst; finR.
      + (* the recursive call misses a node: so does the whole operation *)
        destruct d0; [|inversion E; subst; finR].
        destruct (set_child cs k0 nn) as [cs'|]; [|discriminate].
        dmatch E; [inversion E; subst; finR|].
        destruct (single_child cs') as [[pos|]|]; try (inversion E; subst; finR).
        destruct (child cs' pos) as [rem|]; [|discriminate].
        dmatch E; [|inversion E; subst; finR].
        destruct rem as [|rv|rk rc|rcs|rh]; try (inversion E; subst; finR).
        destruct (r1 rh (prefix ++ [pos])) as [[rn blob]|] eqn:R; [|discriminate].
        destruct rn; inversion E; subst; finR.
    - destruct (r1 h prefix) as [[rn blob]|] eqn:R; [|discriminate].
      destruct (delete r1 f rn prefix key) as [[[d0 n0] ev0]|e] eqn:G; [|discriminate].
      destruct (Pdec blob) as [Pb|nPb].
      + rewrite (HA _ _ _ _ R Pb). destruct (IH _ _ _ _ G) as [[A1 ->]|[S1 ->]].
        * destruct d0; inversion E; subst; finL.
        * destruct d0; inversion E; subst; finR.
      + rewrite (HB _ _ _ _ R nPb). destruct d0; inversion E; subst; finR.
  Qed.

  Lemma trie_get_dich root key a :
    trie_get r1 root key = TOk a ->
    (all_in P (snd a) /\ trie_get r2 root key = TOk a) \/
    (some_out P (snd a) /\ trie_get r2 root key = TErr EMissing).
  Proof. unfold trie_get. apply get_dich. Qed.

  Lemma update_dich root key value a :
    update r1 root key value = TOk a ->
    (all_in P (snd a) /\ update r2 root key value = TOk a) \/
    (some_out P (snd a) /\ update r2 root key value = TErr EMissing).
  Proof.
    unfold update. intro E. destruct value as [|v0 vr].
    - destruct (delete r1 (ops_fuel (keybytes_to_hex key)) root [] (keybytes_to_hex key))
        as [[[d0 n0] ev0]|e] eqn:G; [|discriminate].
      inversion E; subst. destruct (delete_dich _ _ _ _ _ G) as [[A1 ->]|[S1 ->]]; [finL|finR].
    - destruct (insert r1 (ops_fuel (keybytes_to_hex key)) root [] (keybytes_to_hex key) (NValue (v0 :: vr)))
        as [[[d0 n0] ev0]|e] eqn:G; [|discriminate].
      inversion E; subst. destruct (insert_dich _ _ _ _ _ _ G) as [[A1 ->]|[S1 ->]]; [finL|finR].
  Qed.
End Sim.

(* ------------------------------------------------------------------ *)
(* sessions over several tries                                         *)
(* ------------------------------------------------------------------ *)
Section SimState.
  Variable H : list N -> list N.
  Variables rs1 rs2 : nat -> resolver.
  Variable P : list N -> Prop.
  Hypothesis HA : forall i h p n b, rs1 i h p = Some (n, b) -> P b -> rs2 i h p = Some (n, b).
  Hypothesis HB : forall i h p n b, rs1 i h p = Some (n, b) -> ~ P b -> rs2 i h p = None.
  Hypothesis Pdec : forall b, P b \/ ~ P b.

  Lemma step_dich st op v st' ev :
    step H rs1 st op = TOk (v, st', ev) ->
    (all_in_s P ev /\ step H rs2 st op = TOk (v, st', ev)) \/
    (some_out_s P ev /\ step H rs2 st op = TErr EMissing).
  Proof.
    destruct op as [root|i key|i key value|i key]; cbn [step]; intro E.
    - destruct (is_empty_root H root).
      + inversion E; subst. left. split; [constructor|reflexivity].
      + destruct (rs1 (length st) root []) as [[n blob]|] eqn:R; [|discriminate].
        inversion E; subst. destruct (Pdec blob) as [Pb|nPb].
        * rewrite (HA _ _ _ _ _ R Pb). left. split; [|reflexivity].
          constructor; [exact Pb|constructor].
        * rewrite (HB _ _ _ _ _ R nPb). right. split; [|reflexivity].
          apply Exists_cons_hd. exact nPb.
    - destruct (nth_error st i) as [root|]; [|discriminate].
      destruct (trie_get (rs1 i) root key) as [[[[v0 n0] d0] ev0]|e] eqn:G; [|discriminate].
      destruct (trie_get_dich (rs1 i) (rs2 i) P (HA i) (HB i) Pdec _ _ _ G) as [[A1 ->]|[S1 ->]];
        cbn [snd] in *.
      + destruct (set_nth i (if d0 then n0 else root) st); [|discriminate].
        inversion E; subst. left. split; [apply all_in_s_tag; exact A1|reflexivity].
      + destruct (set_nth i (if d0 then n0 else root) st); [|discriminate].
        inversion E; subst. right. split; [apply some_out_s_tag; exact S1|reflexivity].
    - destruct (nth_error st i) as [root|]; [|discriminate].
      destruct (update (rs1 i) root key value) as [[n0 ev0]|e] eqn:G; [|discriminate].
      destruct (update_dich (rs1 i) (rs2 i) P (HA i) (HB i) Pdec _ _ _ _ G) as [[A1 ->]|[S1 ->]];
        cbn [snd] in *.
      + destruct (set_nth i n0 st); [|discriminate].
        inversion E; subst. left. split; [apply all_in_s_tag; exact A1|reflexivity].
      + destruct (set_nth i n0 st); [|discriminate].
        inversion E; subst. right. split; [apply some_out_s_tag; exact S1|reflexivity].
    - destruct (nth_error st i) as [root|]; [|discriminate].
      destruct (update (rs1 i) root key []) as [[n0 ev0]|e] eqn:G; [|discriminate].
      destruct (update_dich (rs1 i) (rs2 i) P (HA i) (HB i) Pdec _ _ _ _ G) as [[A1 ->]|[S1 ->]];
        cbn [snd] in *.
      + destruct (set_nth i n0 st); [|discriminate].
        inversion E; subst. left. split; [apply all_in_s_tag; exact A1|reflexivity].
      + destruct (set_nth i n0 st); [|discriminate].
        inversion E; subst. right. split; [apply some_out_s_tag; exact S1|reflexivity].
  Qed.

  (* the whole session: identical, or MissingNodeError — nothing else *)
  Lemma run_dich : forall ops st vs st' evs,
    run H rs1 st ops = TOk (vs, st', evs) ->
    (all_in_s P evs /\ run H rs2 st ops = TOk (vs, st', evs)) \/
    (some_out_s P evs /\ run H rs2 st ops = TErr EMissing).
  Proof.
    induction ops as [|op r IH]; intros st vs st' evs E; cbn [run] in E |- *.
    - inversion E; subst. left. split; [constructor|reflexivity].
    - destruct (step H rs1 st op) as [[[v0 st0] ev0]|e] eqn:S1; [|discriminate].
      destruct (run H rs1 st0 r) as [[[vs1 st1] ev1]|e] eqn:R1; [|discriminate].
      inversion E; subst.
      destruct (step_dich _ _ _ _ _ S1) as [[A0 ->]|[S0 ->]].
      + destruct (IH _ _ _ _ R1) as [[A1 ->]|[S ->]].
        * left. split; [|reflexivity]. unfold all_in_s in *. apply Forall_app. split; assumption.
        * right. split; [|reflexivity]. unfold some_out_s in *. apply Exists_app. right. exact S.
      + right. split; [|reflexivity]. unfold some_out_s in *. apply Exists_app. left. exact S0.
  Qed.
End SimState.

(* ------------------------------------------------------------------ *)
(* the stateless store made from a list of blobs (MakeHashDB)          *)
(* ------------------------------------------------------------------ *)
Section HashDB.
  Variable H : list N -> list N.

  Definition mk_db (s : store) (W : list (list N)) : store :=
    fold_left (fun s b => am_put (H b) b s) W s.

  Lemma make_hash_db_mk W : make_hash_db H W = mk_db [] W.
  Proof. reflexivity. Qed.

  (* whatever is found under key k was put there under its own hash *)
  Lemma mk_db_get : forall W s k b',
    am_get k (mk_db s W) = Some b' -> (In b' W /\ H b' = k) \/ am_get k s = Some b'.
  Proof.
    induction W as [|b W IH]; intros s k b' E; cbn in E; [right; exact E|].
    apply IH in E. destruct E as [[I1 E1]|E]; [left; split; [right; exact I1|exact E1]|].
    rewrite am_get_put in E. destruct (bytes_eqb k (H b)) eqn:K; [|right; exact E].
    apply beqb_eq in K. inversion E; subst. left. split; [left; reflexivity|reflexivity].
  Qed.

  Lemma mk_db_keeps : forall W s k, (exists v, am_get k s = Some v) -> exists v, am_get k (mk_db s W) = Some v.
  Proof.
    induction W as [|b W IH]; intros s k [v E]; cbn; [exists v; exact E|].
    apply IH. rewrite am_get_put. destruct (bytes_eqb k (H b)); eauto.
  Qed.

  Lemma mk_db_has : forall W s b, In b W -> exists v, am_get (H b) (mk_db s W) = Some v.
  Proof.
    induction W as [|b0 W IH]; intros s b I; [destruct I|]. cbn. destruct I as [->|I].
    - apply mk_db_keeps. exists b. apply am_get_put_same.
    - apply IH. exact I.
  Qed.

  Variable NS : list N -> Prop.
  Hypothesis H_inj : forall a b, NS a -> NS b -> H a = H b -> a = b.

  (* a node reader of the full node: whatever it returns is stored under its hash
     and decodes to the node it returns (reader.Node verifies/looks up by hash, then
     decodeNode), and its blobs are among the encodings H is collision free on *)
  Definition hashed (rs : nat -> resolver) : Prop :=
    forall i h p n b, rs i h p = Some (n, b) -> H b = h /\ decode_node b = DOk n /\ NS b.

  Variable rs1 : nat -> resolver.
  Hypothesis Hrs1 : hashed rs1.
  Variable W : list (list N).
  Hypothesis HW : forall b, In b W -> NS b.

  Lemma stateless_agree : forall i h p n b,
    rs1 i h p = Some (n, b) -> In b W -> stateless_rs H W i h p = Some (n, b).
  Proof.
    intros i h p n b R I. destruct (Hrs1 _ _ _ _ _ R) as (Hh & Hd & Hn).
    unfold stateless_rs, resolve_of. rewrite make_hash_db_mk.
    destruct (mk_db_has W [] b I) as [b' G]. rewrite Hh in G. rewrite G.
    apply mk_db_get in G. destruct G as [[I' E']|G]; [|discriminate].
    assert (b' = b) by (apply H_inj; [apply HW; exact I'|exact Hn|congruence]). subst b'.
    rewrite Hd. reflexivity.
  Qed.

  Lemma stateless_missing : forall i h p n b,
    rs1 i h p = Some (n, b) -> ~ In b W -> stateless_rs H W i h p = None.
  Proof.
    intros i h p n b R nI. destruct (Hrs1 _ _ _ _ _ R) as (Hh & Hd & Hn).
    unfold stateless_rs, resolve_of. rewrite make_hash_db_mk.
    destruct (am_get h (mk_db [] W)) as [b'|] eqn:G; [|reflexivity].
    apply mk_db_get in G. destruct G as [[I' E']|G]; [|discriminate].
    assert (b' = b) by (apply H_inj; [apply HW; exact I'|exact Hn|congruence]). subst b'.
    contradiction.
  Qed.

  Lemma in_blob_dec (b : list N) : In b W \/ ~ In b W.
  Proof. destruct (in_dec (list_eq_dec N.eq_dec) b W); [left|right]; assumption. Qed.

  (* never a different result: over ANY list of blobs the re-run is the full run or
     a missing-node error *)
  Lemma stateless_sound ops vs st evs :
    run H rs1 [] ops = TOk (vs, st, evs) ->
    (incl (ev_blobs evs) W /\ run_stateless H W ops = TOk (vs, st, evs)) \/
    (~ incl (ev_blobs evs) W /\ run_stateless H W ops = TErr EMissing).
  Proof.
    intro E. unfold run_stateless.
    destruct (run_dich H rs1 (stateless_rs H W) (fun b => In b W) stateless_agree stateless_missing
                in_blob_dec _ _ _ _ _ E) as [[A R]|[S R]].
    - left. split; [|exact R]. intros b Hb. apply (proj1 (all_in_s_blobs _ _) A). exact Hb.
    - right. split; [|exact R]. intro X.
      apply (all_in_s_not_some_out (fun b => In b W) evs); [|exact S].
      apply all_in_s_blobs. exact X.
  Qed.

  Lemma witness_sufficient ops vs st evs :
    run H rs1 [] ops = TOk (vs, st, evs) -> incl (ev_blobs evs) W ->
    run_stateless H W ops = TOk (vs, st, evs).
  Proof.
    intros E I. destruct (stateless_sound _ _ _ _ E) as [[_ R]|[nI _]]; [exact R|contradiction].
  Qed.

  Lemma stateless_eq_full ops vs st evs :
    run H rs1 [] ops = TOk (vs, st, evs) -> incl (ev_blobs evs) W ->
    exists st', run_stateless H W ops = TOk (vs, st', evs) /\ state_roots H st' = state_roots H st.
  Proof. intros E I. exists st. split; [apply witness_sufficient; assumption|reflexivity]. Qed.

  Lemma missing_node_errors ops vs st evs b :
    run H rs1 [] ops = TOk (vs, st, evs) -> In b (ev_blobs evs) -> ~ In b W ->
    run_stateless H W ops = TErr EMissing.
  Proof.
    intros E Ib nI. destruct (stateless_sound _ _ _ _ E) as [[I _]|[_ R]]; [|exact R].
    exfalso. apply nI. apply I. exact Ib.
  Qed.
End HashDB.


(* ------------------------------------------------------------------ *)
(* the node readers of Trie/Commit.v are [hashed]                      *)
(* ------------------------------------------------------------------ *)
Section Readers.
  Variable H : list N -> list N.
  Variable NS : list N -> Prop.

  (* hash-scheme store: every blob sits under its own hash (hashdb / rawdb
     WriteLegacyTrieNode are only ever called with hash = keccak(blob)) *)
  Definition store_hash_ok (S : store) : Prop := forall h b, am_get h S = Some b -> H b = h.
  Definition store_in (S : store) : Prop := forall k b, am_get k S = Some b -> NS b.

  Lemma resolve_of_hash_hashed S :
    store_hash_ok S -> store_in S -> hashed H NS (fun _ => resolve_of H HashScheme S).
  Proof.
    intros Hk Hin i h p n b R. unfold resolve_of in R.
    destruct (am_get h S) as [blob|] eqn:G; [|discriminate].
    destruct (decode_node blob) as [n'|e] eqn:D; [|discriminate]. inversion R; subst.
    split; [apply Hk; exact G|]. split; [exact D|]. eapply Hin; exact G.
  Qed.

  (* path-scheme stores (one per trie: the owner prefix): the reader itself checks
     the hash of what it found at the path *)
  Lemma resolve_of_path_hashed (Ss : nat -> store) :
    (forall i, store_in (Ss i)) -> hashed H NS (fun i => resolve_of H PathScheme (Ss i)).
  Proof.
    intros Hin i h p n b R. unfold resolve_of in R.
    destruct (am_get p (Ss i)) as [blob|] eqn:G; [|discriminate].
    destruct (bytes_eqb (H blob) h) eqn:K; [|discriminate].
    destruct (decode_node blob) as [n'|e] eqn:D; [|discriminate]. inversion R; subst.
    apply beqb_eq in K. split; [exact K|]. split; [exact D|]. eapply Hin; exact G.
  Qed.
End Readers.

(* ------------------------------------------------------------------ *)
(* what geth ships: the values of the path-keyed pre-value maps        *)
(* ------------------------------------------------------------------ *)
Section Shipped.
  Lemma am_put_in {A} k (v : A) m k' v' : In (k', v') (am_put k v m) -> (k' = k /\ v' = v) \/ In (k', v') m.
  Proof.
    induction m as [|[k0 v0] r IH]; cbn; intro I.
    - destruct I as [E|[]]. inversion E. left. split; reflexivity.
    - destruct (bytes_cmp k k0); cbn in I.
      + destruct I as [E|I]; [inversion E; left; split; reflexivity|right; right; exact I].
      + destruct I as [E|I]; [inversion E; left; split; reflexivity|right; exact I].
      + destruct I as [E|I]; [right; left; exact E|].
        apply IH in I. destruct I as [I|I]; [left; exact I|right; right; exact I].
  Qed.

  Definition res_blobs (ev : list tev) : list (list N) :=
    flat_map (fun e => match e with TRes _ b => [b] | _ => [] end) ev.

  Lemma trace_evs_values : forall ev tr p b,
    In (p, b) (tr_pv (trace_evs tr ev)) -> In (p, b) (tr_pv tr) \/ In b (res_blobs ev).
  Proof.
    induction ev as [|e ev IH]; intros tr p b I; cbn in I; [left; exact I|].
    apply IH in I. destruct I as [I|I]; [|right; cbn; apply in_or_app; right; exact I].
    destruct e as [q|q|q blob]; cbn in I.
    - unfold on_insert in I. destruct (am_has q (tr_del tr)); cbn in I; left; exact I.
    - unfold on_delete in I. destruct (am_has q (tr_ins tr)); cbn in I; left; exact I.
    - apply am_put_in in I. destruct I as [[-> ->]|I]; [|left; exact I].
      right. cbn. left. reflexivity.
  Qed.

  Lemma evs_of_blobs i evs b : In b (res_blobs (evs_of i evs)) -> In b (ev_blobs evs).
  Proof.
    unfold evs_of, ev_blobs. induction evs as [|[j e] r IH]; cbn; [tauto|].
    intro I. destruct (Nat.eqb j i); cbn in I.
    - apply in_app_or in I. apply in_or_app. destruct I as [I|I]; [left; exact I|right; apply IH; exact I].
    - apply in_or_app. right. apply IH. exact I.
  Qed.

  Lemma trie_witness_resolved i evs b : In b (trie_witness i evs) -> In b (ev_blobs evs).
  Proof.
    unfold trie_witness. intro I. apply in_map_iff in I. destruct I as [[p b'] [E I]]. cbn in E. subst b'.
    apply trace_evs_values in I. destruct I as [[]|I]. apply evs_of_blobs in I. exact I.
  Qed.

  Lemma add_state_in : forall blobs w b, In b (map fst (add_state blobs w)) -> In b blobs \/ In b (map fst w).
  Proof.
    induction blobs as [|x r IH]; intros w b I; cbn in I; [right; exact I|].
    apply IH in I. destruct I as [I|I]; [left; right; exact I|].
    apply in_map_iff in I. destruct I as [[k u] [E I]]. cbn in E. subst k.
    apply am_put_in in I. destruct I as [[-> _]|I]; [left; left; reflexivity|].
    right. apply in_map_iff. exists (b, u). split; [reflexivity|exact I].
  Qed.

  (* every node of the shipped witness was resolved during the full run *)
  Lemma collect_resolved : forall n evs b, In b (witness_nodes (collect n evs)) -> In b (ev_blobs evs).
  Proof.
    unfold witness_nodes. induction n as [|n IH]; intros evs b I; cbn in I; [destruct I|].
    apply add_state_in in I. destruct I as [I|I]; [eapply trie_witness_resolved; exact I|apply IH; exact I].
  Qed.

  (* ... and it holds every resolved node when [tracer_complete] says so *)
  Lemma collect_complete n evs :
    tracer_complete n evs = true -> incl (ev_blobs evs) (witness_nodes (collect n evs)).
  Proof.
    unfold tracer_complete, witness_nodes. intros T b I.
    rewrite forallb_forall in T. specialize (T b I).
    apply am_has_true in T. destruct T as [u G]. apply am_get_in in G.
    apply in_map_iff. exists (b, u). split; [reflexivity|exact G].
  Qed.
End Shipped.

(* ------------------------------------------------------------------ *)
(* blocks: the accesses are a deterministic function of the values read *)
(* ------------------------------------------------------------------ *)
Section Block.
  Variable H : list N -> list N.
  (* the block (EVM + transactions + state-DB logic), abstracted: after reading the
     values [h] (one entry per access made so far) it makes the access [Some op] or is
     finished [None] *)
  Variable next_access : list (option (list N)) -> option sop -> Prop.
  Hypothesis access_sequence_deterministic :
    forall h a b, next_access h a -> next_access h b -> a = b.

  (* a complete execution of the block over the node readers rs, from state st with
     history h: the accesses made, the values read, the final state, the events *)
  Inductive exec (rs : nat -> resolver)
    : list node -> list (option (list N)) -> list sop -> list (option (list N)) -> list node -> list sev -> Prop :=
  | exec_done st h : next_access h None -> exec rs st h [] [] st []
  | exec_step st h op v st1 ev ops vs st2 ev' :
      next_access h (Some op) -> step H rs st op = TOk (v, st1, ev) ->
      exec rs st1 (h ++ [v]) ops vs st2 ev' ->
      exec rs st h (op :: ops) (v :: vs) st2 (ev ++ ev').

  Lemma exec_run rs st h ops vs st' evs :
    exec rs st h ops vs st' evs -> run H rs st ops = TOk (vs, st', evs).
  Proof.
    induction 1 as [|st h op v st1 ev ops vs st2 ev' N S X IH]; cbn [run]; [reflexivity|].
    rewrite S, IH. reflexivity.
  Qed.

  (* the same readers: at most one complete execution *)
  Lemma exec_unique rs st h ops vs st' evs :
    exec rs st h ops vs st' evs -> forall ops2 vs2 st2 evs2,
    exec rs st h ops2 vs2 st2 evs2 -> ops2 = ops /\ vs2 = vs /\ st2 = st' /\ evs2 = evs.
  Proof.
    induction 1 as [st h N|st h op v st1 ev ops vs st2 ev' N S X IH]; intros ops2 vs2 st3 evs2 X2.
    - inversion X2; subst; [repeat split; reflexivity|].
      match goal with Hn : next_access h (Some _) |- _ =>
        pose proof (access_sequence_deterministic _ _ _ N Hn) as D; discriminate D end.
    - clear X. inversion X2 as [|? ? op2 v2 st1' ev2 ops2' vs2' st2' ev2' N2 S2 X3]; subst.
      + match goal with Hn : next_access h None |- _ =>
          pose proof (access_sequence_deterministic _ _ _ N Hn) as D; discriminate D end.
      + pose proof (access_sequence_deterministic _ _ _ N N2) as D. inversion D; subst op2.
        rewrite S in S2. inversion S2; subst.
        destruct (IH _ _ _ _ X3) as (E1 & E2 & E3 & E4). subst.
        repeat split; reflexivity.
  Qed.

  Variables rs1 rs2 : nat -> resolver.
  Variable P : list N -> Prop.
  Hypothesis HA : forall i h p n b, rs1 i h p = Some (n, b) -> P b -> rs2 i h p = Some (n, b).
  Hypothesis HB : forall i h p n b, rs1 i h p = Some (n, b) -> ~ P b -> rs2 i h p = None.
  Hypothesis Pdec : forall b, P b \/ ~ P b.

  Lemma exec_sim st h ops vs st' evs :
    exec rs1 st h ops vs st' evs -> all_in_s P evs -> exec rs2 st h ops vs st' evs.
  Proof.
    induction 1 as [st h N|st h op v st1 ev ops vs st2 ev' N S X IH]; intro A.
    - constructor. exact N.
    - unfold all_in_s in A. apply Forall_app in A. destruct A as [A0 A1].
      destruct (step_dich H rs1 rs2 P HA HB Pdec _ _ _ _ _ S) as [[_ S2]|[S0 _]].
      + econstructor; [exact N|exact S2|apply IH; exact A1].
      + exfalso. eapply all_in_s_not_some_out; [exact A0|exact S0].
  Qed.

  Lemma exec_blocked st h ops vs st' evs :
    exec rs1 st h ops vs st' evs -> some_out_s P evs ->
    forall ops2 vs2 st2 evs2, ~ exec rs2 st h ops2 vs2 st2 evs2.
  Proof.
    induction 1 as [st h N|st h op v st1 ev ops vs st2 ev' N S X IH]; intros O ops2 vs2 st3 evs2 X2.
    - inversion O.
    - clear X. inversion X2 as [|? ? op2 v2 st1' ev2 ops2' vs2' st2' ev2' N2 S3 X3]; subst.
      + match goal with Hn : next_access h None |- _ =>
          pose proof (access_sequence_deterministic _ _ _ N Hn) as D; discriminate D end.
      + pose proof (access_sequence_deterministic _ _ _ N N2) as D. inversion D; subst op2.
        destruct (step_dich H rs1 rs2 P HA HB Pdec _ _ _ _ _ S) as [[A0 S2]|[_ S2]].
        * rewrite S2 in S3. inversion S3; subst.
          unfold some_out_s in O. apply Exists_app in O. destruct O as [O|O].
          -- eapply all_in_s_not_some_out; [exact A0|exact O].
          -- exact (IH O _ _ _ _ X3).
        * rewrite S2 in S3. discriminate S3.
  Qed.
End Block.

(* the two block-level statements over the stateless store *)
Section BlockStateless.
  Variable H : list N -> list N.
  Variable NS : list N -> Prop.
  Hypothesis H_inj : forall a b, NS a -> NS b -> H a = H b -> a = b.
  Variable next_access : list (option (list N)) -> option sop -> Prop.
  Hypothesis access_sequence_deterministic :
    forall h a b, next_access h a -> next_access h b -> a = b.
  Variable rs1 : nat -> resolver.
  Hypothesis Hrs1 : hashed H NS rs1.
  Variable W : list (list N).
  Hypothesis HW : forall b, In b W -> NS b.

  Lemma block_stateless_eq_full ops vs st evs :
    exec H next_access rs1 [] [] ops vs st evs -> incl (ev_blobs evs) W ->
    exec H next_access (stateless_rs H W) [] [] ops vs st evs /\
    forall ops' vs' st' evs', exec H next_access (stateless_rs H W) [] [] ops' vs' st' evs' ->
      ops' = ops /\ vs' = vs /\ st' = st /\ evs' = evs.
  Proof.
    intros X I.
    assert (X2 : exec H next_access (stateless_rs H W) [] [] ops vs st evs).
    { apply (exec_sim H next_access rs1 (stateless_rs H W) (fun b => In b W)
               (stateless_agree H NS H_inj rs1 Hrs1 W HW) (stateless_missing H NS H_inj rs1 Hrs1 W HW)
               (in_blob_dec W) _ _ _ _ _ _ X).
      apply all_in_s_blobs. exact I. }
    split; [exact X2|]. intros ops' vs' st' evs' X3.
    exact (exec_unique H next_access access_sequence_deterministic _ _ _ _ _ _ _ X2 _ _ _ _ X3).
  Qed.

  Lemma block_missing_node ops vs st evs b :
    exec H next_access rs1 [] [] ops vs st evs -> In b (ev_blobs evs) -> ~ In b W ->
    (forall ops' vs' st' evs', ~ exec H next_access (stateless_rs H W) [] [] ops' vs' st' evs') /\
    run_stateless H W ops = TErr EMissing.
  Proof.
    intros X Ib nI. split.
    - apply (exec_blocked H next_access access_sequence_deterministic rs1 (stateless_rs H W) (fun b => In b W)
               (stateless_agree H NS H_inj rs1 Hrs1 W HW) (stateless_missing H NS H_inj rs1 Hrs1 W HW)
               (in_blob_dec W) _ _ _ _ _ _ X).
      eapply some_out_s_blob; [exact Ib|exact nI].
    - apply exec_run in X.
      exact (missing_node_errors H NS H_inj rs1 Hrs1 W HW _ _ _ _ b X Ib nI).
  Qed.
End BlockStateless.

(* ------------------------------------------------------------------ *)
(* a concrete instance (non-vacuity)                                   *)
(* ------------------------------------------------------------------ *)
(* a 32-byte toy hash: a polynomial checksum, left-padded with 7s; its collision
   freedom on the example's blobs is checked by computation *)
Definition mask248 : N := Eval vm_compute in (2 ^ 248 - 1).
Definition toyH (x : list N) : list N :=
  let bs := be_bytes (fold_left (fun a b => N.land (a * 257 + b + 1) mask248) x 0) in
  repeat 7 (32 - length bs) ++ bs.

Definition inj_onb (H : list N -> list N) (l : list (list N)) : bool :=
  forallb (fun a => forallb (fun b => implb (bytes_eqb (H a) (H b)) (bytes_eqb a b)) l) l.

Lemma inj_onb_sound H l : inj_onb H l = true ->
  forall a b, In a l -> In b l -> H a = H b -> a = b.
Proof.
  intros Hc a b Ha Hb E. unfold inj_onb in Hc. rewrite forallb_forall in Hc.
  specialize (Hc a Ha). rewrite forallb_forall in Hc. specialize (Hc b Hb).
  rewrite E, beqb_refl in Hc. cbn [implb] in Hc. apply beqb_eq, Hc.
Qed.

Definition store_hash_okb (H : list N -> list N) (S : store) : bool :=
  forallb (fun kv => bytes_eqb (H (snd kv)) (fst kv)) S.

Lemma store_hash_okb_sound H S : store_hash_okb H S = true -> store_hash_ok H S.
Proof.
  intros C h b G. apply am_get_in in G. unfold store_hash_okb in C. rewrite forallb_forall in C.
  specialize (C _ G). cbn in C. apply beqb_eq in C. exact C.
Qed.

Lemma store_in_values S : store_in (fun b => In b (map snd S)) S.
Proof. intros k b G. apply am_get_in in G. apply in_map_iff. exists (k, b). split; [reflexivity|exact G]. Qed.

(* commit a list of key/value pairs into a store (trie.NewEmpty, Update.., Commit) *)
Definition ex_build (sc : scheme) (s : store) (kvs : list (list N * list N)) : option (list N * store) :=
  match open_trie toyH sc s (toyH empty_root_preimage) with
  | TErr _ => None
  | TOk ss0 =>
      match fold_left (fun o kv => match o with
                                   | Some ss => match sess_update toyH sc s ss (fst kv) (snd kv) with
                                                | TOk ss' => Some ss' | TErr _ => None end
                                   | None => None end) kvs (Some ss0) with
      | None => None
      | Some ss =>
          match commit toyH ss with
          | Some (root, Some ns) => Some (root, apply_nodeset sc ns s)
          | _ => None
          end
      end
  end.

Definition ex_val (x : N) : list N := repeat x 33.
Definition ex_accounts : list (list N * list N) :=
  [([1; 17], ex_val 1); ([1; 18], ex_val 2); ([1; 33], ex_val 3); ([2; 17], ex_val 4);
   ([2; 18], [9]); ([52; 86], ex_val 6); ([52; 87], ex_val 7); ([255; 0], ex_val 8)].
Definition ex_storage : list (list N * list N) :=
  [([0; 1], ex_val 11); ([0; 2], ex_val 12); ([16; 1], ex_val 13); ([16; 2], ex_val 14)].

(* one hash store holding both tries, and their roots *)
(* (evaluated once, so that the store is a literal; written with projections because
   a nested pattern on a closed computable scrutinee makes Coq reduce it lazily) *)
Definition ex_state :=      (* no type annotation: with one the elaborator reduces the scrutinee *)
  Eval vm_compute in
  match ex_build HashScheme [] ex_accounts with
  | None => None
  | Some p0 =>
      match ex_build HashScheme (snd p0) ex_storage with
      | None => None
      | Some p1 => Some (fst p0, fst p1, snd p1)
      end
  end.
Definition ex_store :=
  Eval vm_compute in match ex_state with Some p => snd p | None => [] end.
Definition ex_root0 :=
  Eval vm_compute in match ex_state with Some p => fst (fst p) | None => [] end.
Definition ex_root1 :=
  Eval vm_compute in match ex_state with Some p => snd (fst p) | None => [] end.
Definition ex_blobs : list (list N) := map snd ex_store.
Definition ex_rs : nat -> resolver := fun _ => resolve_of toyH HashScheme ex_store.

(* reads (present and absent), an overwrite, an insertion that splits a node, a
   deletion that collapses a branch onto a sibling that has to be resolved *)
Definition ex_ops : list sop :=
  [SOpen ex_root0; SOpen ex_root1;
   SGet 0 [1; 17]; SGet 0 [7; 7]; SUpd 0 [1; 18] (ex_val 99); SUpd 0 [52; 80] [5];
   SGet 1 [16; 2]; SDel 1 [0; 1]; SDel 0 [2; 17]; SGet 1 [0; 2]; SUpd 1 [0; 2] []].

Definition res_eqb (a b : tres (list (option (list N)) * list node * list sev)) : bool :=
  match a, b with
  | TOk (vs, st, ev), TOk (vs', st', ev') =>
      Nat.eqb (length vs) (length vs') &&
      forallb (fun p => match fst p, snd p with
                        | Some x, Some y => bytes_eqb x y | None, None => true | _, _ => false end)
              (combine vs vs') &&
      Nat.eqb (length st) (length st') && forallb (fun p => node_eqb (fst p) (snd p)) (combine st st') &&
      Nat.eqb (length ev) (length ev') &&
      forallb (fun p => Nat.eqb (fst (fst p)) (fst (snd p)) &&
                        match snd (fst p), snd (snd p) with
                        | TRes q x, TRes q' y => bytes_eqb q q' && bytes_eqb x y
                        | TIns q, TIns q' | TDel q, TDel q' => bytes_eqb q q'
                        | _, _ => false end) (combine ev ev')
  | TErr EMissing, TErr EMissing => true
  | _, _ => false
  end.

(* the full run succeeds and resolves >= 6 nodes; the re-run over the store made from
   exactly the resolved blobs, and over what geth ships (the path-keyed maps), is
   identical and has the same roots; removing any single blob gives MissingNodeError *)
Definition ex_check : bool :=
  match run toyH ex_rs [] ex_ops with
  | TErr _ => false
  | TOk r =>
      let vs := fst (fst r) in
      let st := snd (fst r) in
      let evs := snd r in
      let W := ev_blobs evs in
      let shipped := witness_nodes (collect (length st) evs) in
      Nat.leb 6 (length shipped) &&
      tracer_complete (length st) evs &&
      res_eqb (run_stateless toyH W ex_ops) (TOk (vs, st, evs)) &&
      res_eqb (run_stateless toyH shipped ex_ops) (TOk (vs, st, evs)) &&
      forallb (fun b => res_eqb (run_stateless toyH (remove_blob b shipped) ex_ops) (TErr EMissing)) shipped &&
      match state_roots toyH st with Some [_; _] => true | _ => false end
  end.

Lemma ex_hypotheses :
  (forall a b, In a ex_blobs -> In b ex_blobs -> toyH a = toyH b -> a = b) /\
  hashed toyH (fun b => In b ex_blobs) ex_rs /\
  (Nat.leb 10 (length ex_blobs) && ex_check) = true.
Proof.
  split; [apply inj_onb_sound; vm_compute; reflexivity|].
  split; [|vm_compute; reflexivity].
  apply resolve_of_hash_hashed.
  - apply store_hash_okb_sound. vm_compute. reflexivity.
  - apply store_in_values.
Qed.
