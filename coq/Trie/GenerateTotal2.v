(* Trie/GenerateTotal2.v — C11_gen_total: the converse of C11_gen_root.  On a
   well-formed flat state in which every account decodes and every live slot
   value is non-empty, GenerateTrie called with the root of the corrected state
   returns nil. *)
From GV Require Import Lib.Tactics Lib.Bytes Rlp.Codec Trie.Hex Trie.HexProofs Trie.Node Trie.Ops Trie.Hash Trie.OpsProofs Trie.Canon Trie.Stack Trie.StackProofs Trie.ProofProofs Trie.Commit Trie.CommitProofs Trie.CommitTracer Trie.Generate Trie.GenerateProofs Trie.GenerateWalk Trie.GenerateWalk2 Trie.GenerateWalk3 Trie.GenerateKeys Trie.GenerateSize Trie.GenerateAssemble Trie.GenerateAssemble2 Trie.GenerateSched Trie.GenerateRoot Trie.GenerateRoot2 Trie.GenerateRoot3 Trie.GenerateFlat Trie.GenerateTotal.
Local Open Scope N_scope.

Section Total2.
  Variable H : list N -> list N.
  Hypothesis H_len : forall x, length (H x) = 32%nat.

  (* every account entry decodes; every slot stored under an existing account has a value *)
  Definition decodable (db : gdb) : Prop := forall kv, In kv (g_accts db) -> full_account H (snd kv) <> None.
  Definition live_values (db : gdb) : Prop :=
    forall kv, In kv (g_stor db) -> In (sa kv) (map fst (g_accts db)) -> snd kv <> [].

  Theorem partition_total sc p db : wf_db db -> decodable db -> live_values db ->
    exists r, generate_partition H sc p db = GOk r.
  Proof.
    intros Hwf Hdec Hval. pose proof Hwf as [Hsa Hss Hka Hks]. unfold generate_partition.
    set (accs := seek (range_start p) (g_accts db)). set (ss := seek (range_start p) (g_stor db)).
    assert (Hwa : wf_accts accs) by (apply Forall_seek; exact Hka).
    destruct (acct_loop_total H H_len sc p accs ss stack_new NEmpty) as [r0 Ea].
    - apply sorted_seek; exact Hsa.
    - exact Hwa.
    - rewrite Forall_forall. intros kv Hin.
      pose proof (proj1 (seek_sorted_In (range_start p) (g_accts db) Hsa kv (seek_In _ _ _ Hin)) Hin) as Hnl.
      assert (Hk : key32 (fst kv)) by (unfold wf_accts in Hwa; rewrite Forall_forall in Hwa; apply Hwa; exact Hin).
      destruct (N.lt_ge_cases (nib0 (fst kv)) p) as [Hlt|Hge]; [|exact Hge].
      apply (ltb_start p _ Hk) in Hlt. congruence.
    - intros kv Hin. apply Hdec. eapply seek_In; eassumption.
    - apply sorted_seek; exact Hss.
    - apply Forall_seek; exact Hks.
    - intros kv Hin Hk. apply Hval; [eapply seek_In; eassumption|].
      apply in_map_iff in Hk as (x & Ex & Hx). apply in_map_iff. exists x. split; [exact Ex|eapply seek_In; eassumption].
    - apply sroot_new.
    - left; reflexivity.
    - intros kv Hin _. cbn [stack_new snd].
      unfold wf_accts in Hwa. rewrite Forall_forall in Hwa. destruct (Hwa kv Hin) as [L32 _].
      pose proof (nibbles_of_length (fst kv)) as Ln. rewrite L32 in Ln.
      destruct (nibbles_of (fst kv)) as [|a [|b l]]; simpl in Ln; try lia. reflexivity.
    - rewrite Ea. destruct (tail_loop p (p_stor r0)) as [wt nt].
      destruct (acct_loop_spec H H_len sc p accs ss stack_new NEmpty r0) as ((t' & Hr' & _) & _);
        [apply sorted_seek; exact Hsa|exact Hwa|apply sorted_ndsa, sorted_seek; exact Hss
        |apply Forall_seek; exact Hks|apply sroot_new|left; reflexivity|exact Ea|].
      destruct (st_root_e_ok H H_len (p_trie r0) t' 63 Hr') as (h & em & Er & _). rewrite Er. eexists; reflexivity.
  Qed.

  Lemma run_partitions_total sc db : wf_db db -> decodable db -> live_values db ->
    forall ps, exists rs, run_partitions H sc db ps = GOk rs.
  Proof.
    intros Hwf Hdec Hval. induction ps as [|p ps [rs IH]]; [eexists; reflexivity|].
    destruct (partition_total sc p db Hwf Hdec Hval) as [r Er]. cbn [run_partitions]. rewrite Er, IH. eexists; reflexivity.
  Qed.

  Lemma assemble_total sc db rs : wf_db db -> small_state H db ->
    run_partitions H sc db partitions = GOk rs ->
    exists got ws, assemble_root H sc (map r_root rs) = GOk (got, ws).
  Proof.
    intros Hwf Hsm Er.
    pose proof (run_partitions_F2 H sc db partitions rs Er) as HF2.
    assert (HF2' : Forall2 (fun p r => exists t, pspec H db p r t) partitions rs).
    { eapply F2_impl; [|exact HF2]. intros p r E. apply (partition_spec H H_len sc p db r Hwf E). }
    destruct (F2_ex_F3 _ _ _ HF2') as [ts HF3].
    pose proof (F3_len _ _ _ _ HF3) as Lts. change (length partitions) with 16%nat in Lts.
    assert (Hblobs : map r_root rs = map (blob_of H) ts).
    { eapply F3_map; [exact HF3|]. intros p r t (_ & _ & _ & Hb & _). exact Hb. }
    assert (Hgood : Forall (tgood H) ts).
    { rewrite Forall_forall. intros t Ht. destruct (F3_In3 _ _ _ _ HF3 t Ht) as (p & r & _ & _ & Hp).
      eapply pspec_good; eassumption. }
    rewrite Hblobs.
    destruct (ts_shape ts) as [Hall|[(p & t & Ets & Hne & Hp)|Hcnt]].
    - rewrite (all_empty_repeat ts Hall), Lts, map_repeat. cbn [blob_of].
      destruct (assemble_empty H sc) as [Ae _]. rewrite Ae. eexists _, _; reflexivity.
    - rewrite Lts in Ets, Hp.
      assert (Ht : In t ts) by (rewrite Ets; apply in_or_app; right; left; reflexivity).
      rewrite Forall_forall in Hgood.
      destruct (blob_of_good H t (Hgood t Ht) Hne) as (e & Eb & Ee & Le & Hc & Hw).
      assert (Hsb : map (blob_of H) ts = single_blobs p e).
      { rewrite Ets, map_app. cbn [map]. rewrite !map_repeat, Eb. cbn [blob_of]. unfold single_blobs.
        replace (16 - 1 - p)%nat with (15 - p)%nat by lia. reflexivity. }
      rewrite Hsb. destruct (assemble_single H H_len sc p t e Hp Hc Hw Ee Le) as (e' & _ & _ & Am).
      rewrite Am. eexists _, _; reflexivity.
    - assert (Hslots : Forall (slot_ok H) ts).
      { eapply Forall_impl; [|exact Hgood]. intros t [->|(Hc & _ & e & Ee & Le)]; [left; reflexivity|right].
        split; [destruct (can_cases _ Hc) as [(? & ? & -> & _)|[(? & ? & -> & _)|(? & ->)]]; exact I|]. exists e. auto. }
      destruct (assemble_many H H_len sc ts Lts Hslots ltac:(rewrite (count_blobs H ts Hgood); exact Hcnt))
        as (e & _ & _ & Ab).
      rewrite Ab. eexists _, _; reflexivity.
  Qed.

  (* TOTALITY: with the right expected root, generation succeeds *)
  Theorem gen_total sc db : wf_db db -> small_state H db -> decodable db -> live_values db ->
    exists st, fst (generate H sc (state_root H db) db) = GOk st.
  Proof.
    intros Hwf Hsm Hdec Hval.
    destruct (run_partitions_total sc db Hwf Hdec Hval partitions) as [rs Er].
    destruct (assemble_total sc db rs Hwf Hsm Er) as (got & ws & Ea).
    assert (Hg : exists st, fst (generate H sc got db) = GOk st).
    { unfold generate. rewrite Er, Ea, beqb_refl. eexists; reflexivity. }
    destruct Hg as [st Hst]. pose proof (gen_root H H_len sc got db st Hwf Hsm Hst) as Eg.
    rewrite <- Eg. exists st. exact Hst.
  Qed.

  (* ... and with any other expected root it reports the mismatch (never another error, never success) *)
  Theorem gen_total_mismatch sc expected db : wf_db db -> small_state H db -> decodable db -> live_values db ->
    expected <> state_root H db -> fst (generate H sc expected db) = GErr GMismatch.
  Proof.
    intros Hwf Hsm Hdec Hval Hne.
    destruct (run_partitions_total sc db Hwf Hdec Hval partitions) as [rs Er].
    destruct (assemble_total sc db rs Hwf Hsm Er) as (got & ws & Ea).
    assert (Hg : exists st, fst (generate H sc got db) = GOk st).
    { unfold generate. rewrite Er, Ea, beqb_refl. eexists; reflexivity. }
    destruct Hg as [st Hst]. pose proof (gen_root H H_len sc got db st Hwf Hsm Hst) as Eg.
    apply (gen_mismatch H sc expected db rs got ws Er Ea). congruence.
  Qed.
End Total2.
