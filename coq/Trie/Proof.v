(* Trie/Proof.v — Merkle proofs: executable model of /repo/trie/proof.go
   Trie.Prove, VerifyProof and the proof-walk helper get(tn, key, skipResolved)
   (C08).  Definitions only; the lemmas are in Trie/ProofProofs.v.

   * The proof database (ethdb.KeyValueWriter / KeyValueReader) is the history
     of its Puts; Get returns the value of the LAST Put of the key (a map).
     VerifyProof never hashes what it reads: it trusts the database to be keyed
     by hash.  The model keeps that: [db_get] is a plain key lookup.
   * The hash function is the Section variable [H]; Prove's hash-node case goes
     through the Section variable [resolve] (reader.Node + mustDecodeNodeUnsafe).
   * Panics of the Go code (index out of range, "invalid node", failed type
     assertion in the encoder) are the explicit classes [EPanic] / [VPanic];
     model fuel exhaustion is [EFuel] / [VLoop] (for VerifyProof the Go loop
     `for i := 0; ; i++` is unbounded: it does not terminate on a database
     holding a reference cycle, see ProofProofs.verify_loops_on_cycle).

   Names other families rely on (keep stable):
     pdb db_get prove_path prove_emit prove pget proof_decode verify_f verify_proof
     verr VMissing VBad VPanic VLoop vres VOk VErr *)
From GV Require Import Lib.Bytes Rlp.Item Rlp.Raw Rlp.Codec Trie.Hex Trie.Node Trie.Ops Trie.Hash.
Local Open Scope N_scope.

(* memorydb as used by proofs: Put appends, Get finds the last Put of the key *)
Definition pdb : Type := list (list N * list N).

Fixpoint db_get (db : pdb) (k : list N) : option (list N) :=
  match db with
  | [] => None
  | (k', v) :: r =>
      match db_get r k with
      | Some x => Some x
      | None => if bytes_eqb k' k then Some v else None
      end
  end.

(* proof.go:get(tn, key, skipResolved = true) — walks through the resolved
   (embedded) nodes of one decoded proof node and returns (remaining key, child).
   None = the Go code panics (key[0] on an empty key / index out of range).
   The Go loop descends into n.Val / n.Children[..] only, hence structural. *)
Fixpoint pget (tn : node) (key : list N) {struct tn} : option (list N * node) :=
  match tn with
  | NShort nk nv =>
      if negb (is_prefix_of nk key) then Some ([], NEmpty)     (* return nil, nil *)
      else pget nv (skipn (length nk) key)
  | NFull cs =>
      match key with
      | [] => None                                             (* key[0]: index out of range *)
      | k0 :: kr =>
          (fix go (l : list node) (i : nat) {struct l} : option (list N * node) :=
             match l with
             | [] => None                                      (* n.Children[key[0]] out of range *)
             | c :: l' => match i with O => pget c kr | S i' => go l' i' end
             end) cs (N.to_nat k0)
      end
  | NHash _ => Some (key, tn)                                  (* return key, n *)
  | NEmpty => Some (key, NEmpty)                               (* return key, nil *)
  | NValue _ => Some ([], tn)                                  (* return nil, n *)
  end.

(* decodeNode as called by VerifyProof: Hash.decode_node.  Its fuel is the
   nesting depth of embedded nodes (34); an embedded node is shorter than 32
   bytes and every nesting level costs at least one byte, so it is never
   exhausted (ProofProofs.proof_decode_no_fuel), also on adversarial chains of
   empty-key extensions. *)
Definition proof_decode (buf : list N) : dres node := decode_node buf.

Inductive verr : Type :=
| VMissing (i : nat)            (* "proof node %d (hash …) missing" *)
| VBad (i : nat) (e : derr)     (* "bad proof node %d: %v" *)
| VPanic                        (* the Go code would panic *)
| VLoop.                        (* model fuel exhausted: the Go loop does not terminate *)

Inductive vres : Type :=
| VOk (v : option (list N))     (* (value, nil); None = (nil, nil): the trie does not contain the key *)
| VErr (e : verr).

(* the body of VerifyProof's loop; [i] = the loop counter (used in the errors) *)
Fixpoint verify_f (fuel : nat) (db : pdb) (want key : list N) (i : nat) : vres :=
  match fuel with
  | O => VErr VLoop
  | S f =>
      match db_get db want with
      | None => VErr (VMissing i)
      | Some buf =>
          match proof_decode buf with
          | DErr e => VErr (VBad i e)
          | DOk n =>
              match pget n key with
              | None => VErr VPanic
              | Some (keyrest, cld) =>
                  match cld with
                  | NEmpty => VOk None                               (* case nil *)
                  | NHash h => verify_f f db h keyrest (S i)         (* key = keyrest; copy(wantHash[:], cld) *)
                  | NValue v => VOk (Some v)                         (* case valueNode *)
                  | _ => VErr VLoop   (* no switch case: the loop would spin; get never returns these *)
                  end
              end
          end
      end
  end.

(* every iteration either consumes key elements or moves to another database
   entry without consuming; more than |db| consecutive non-consuming
   iterations revisit an entry with the same key, i.e. loop forever *)
(* The Go loop has NO bound.  For genuine proofs and for every hash-keyed
   database over a collision-free set any bound >= length key (= 2n+1 for an
   n-byte key) is never reached (ProofProofs.completeness_fuel / sound_fuel) and
   2n+1 is needed (ProofProofs.comb_tight); exhaustion is the distinct class
   [VLoop], never a value. *)
Definition verify_fuel (key : list N) (db : pdb) : nat :=
  (length key + 1) * (length db + 1) + 1.

(* VerifyProof(rootHash, key, proofDb) on a byte key *)
Definition verify_proof (root key : list N) (db : pdb) : vres :=
  let k := keybytes_to_hex key in
  verify_f (verify_fuel k db) db root k 0.

Section Prove.
  Variable H : list N -> list N.
  (* reader.Node(prefix, hash) + mustDecodeNodeUnsafe; None = the reader's error *)
  Variable resolve : list N -> list N -> option (node * list N).

  (* Trie.Prove, first loop: `for len(key) > 0 && tn != nil` collecting [nodes] *)
  Fixpoint prove_path (fuel : nat) (tn : node) (prefix key : list N) : tres (list node) :=
    match fuel with
    | O => TErr EFuel
    | S f =>
        match key with
        | [] => TOk []
        | k0 :: kr =>
            match tn with
            | NEmpty => TOk []
            | NShort nk nv =>
                if negb (is_prefix_of nk key) then TOk [tn]        (* tn = nil; nodes = append(nodes, n) *)
                else
                  match prove_path f nv (prefix ++ nk) (skipn (length nk) key) with
                  | TOk l => TOk (tn :: l)
                  | TErr e => TErr e
                  end
            | NFull cs =>
                match child cs k0 with
                | None => TErr EPanic
                | Some c =>
                    match prove_path f c (prefix ++ [k0]) kr with
                    | TOk l => TOk (tn :: l)
                    | TErr e => TErr e
                    end
                end
            | NHash h =>
                match resolve h prefix with
                | None => TErr EMissing
                | Some (rn, _) => prove_path f rn prefix key
                end
            | NValue _ => TErr EPanic                               (* default: invalid node *)
            end
        end
    end.

  (* second loop: enc := hasher.proofHash(n); if len(enc) >= 32 || i == 0 { Put(keccak(enc), enc) } *)
  Fixpoint prove_emit (first : bool) (nodes : list node) : tres pdb :=
    match nodes with
    | [] => TOk []
    | n :: r =>
        match node_enc H n with
        | None => TErr EPanic
        | Some enc =>
            match prove_emit false r with
            | TErr e => TErr e
            | TOk l => TOk (if Nat.leb 32 (length enc) || first then (H enc, enc) :: l else l)
            end
        end
    end.

  (* Trie.Prove(key, proofDb) on an uncommitted trie: the Puts made, in order *)
  Definition prove (root : node) (key : list N) : tres pdb :=
    let k := keybytes_to_hex key in
    match prove_path (ops_fuel k) root [] k with
    | TErr e => TErr e
    | TOk nodes => prove_emit true nodes
    end.
End Prove.
