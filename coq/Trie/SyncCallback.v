(* Trie/SyncCallback.v — the structural invariant through the account callback
   (storage tries and codes scheduled as children of the account leaf's node), HASH
   scheme; completeness and exactness over histories of Missing / deliveries / Commit. *)
From Coq Require Import ZArith Lia.
From GV Require Import Lib.Tactics Lib.Bytes Trie.Node Trie.Hash Storage.KV Storage.KVProofs Trie.Sync Trie.SyncProofs Trie.SyncInv Trie.SyncComplete.
Local Open Scope N_scope.

Section Callback.
  Variable H : list N -> list N.
  Variable T CD : list N -> option (list N).
  Variable root : list N.
  Variable cb0 : cbkind.
  Variable db0 : kv.
  Notation RN := (RN H T root cb0).
  Notation RC := (RC H T root cb0).
  Notation sound := (sound H T CD root cb0 db0).
  Notation invE := (invE H T root cb0).
  Notation reqT := (reqT H T root cb0).
  Notation availn := SyncComplete.availn.
  Notation availc := SyncComplete.availc.

  Hypothesis Hkind : forall p h cb p' cb', RN p h cb -> RN p' h cb' -> cb = cb'.
  Hypothesis Hnz : forall p h cb, RN p h cb -> h <> zero32.

  Lemma inv_add_sub_trie p s rt cpath parent cb :
    invE (Some p) s -> slack s zero -> reqT s -> has_data s p -> parent <> zero32 ->
    (rt <> empty_root H -> RN cpath rt cb) ->
    match add_sub_trie H s rt cpath parent p cb with
    | inl _ => True
    | inr s' => invE (Some p) s' /\ slack s' zero /\ reqT s' /\ ext p s s' /\ has_data s' p /\
                (rt = empty_root H \/ availn s' rt \/ pend_node s' p cpath rt)
    end.
  Proof.
    intros I SL RT HD Hpar Hrn. unfold add_sub_trie.
    destruct (beq rt (empty_root H)) eqn:Er.
    { apply beq_eq in Er. split; [exact I|split; [exact SL|split; [exact RT|split; [apply ext_refl|split; [exact HD|left; exact Er]]]]]. }
    assert (Hne : rt <> empty_root H) by (intros X; rewrite X, beq_refl in Er; discriminate).
    destruct (resolve_path cpath) as [[owner inner]|]; [|exact Logic.I].
    rewrite (has_node_hash H _ _ _ _ (iv_sc _ _ _ _ _ _ I)).
    destruct (has rt (sc_db s)) eqn:Eh.
    { split; [exact I|split; [exact SL|split; [exact RT|split; [apply ext_refl|split; [exact HD|right; left; left; exact Eh]]]]]. }
    cbv iota.
    destruct (aget cpath (nreqs s)) eqn:Ef; [exact Logic.I|].
    assert (Ez : negb (beq parent zero32) = true).
    { destruct (beq parent zero32) eqn:E; [apply beq_eq in E; contradiction|reflexivity]. }
    rewrite Ez. destruct HD as (rp & d & Ep & Dp). unfold bump_deps. rewrite Ep.
    set (rp' := mkNreq (nr_hash rp) (nr_data rp) (nr_parent rp) (nr_deps rp + 1) (nr_cb rp)).
    set (s2 := set_nreqs s (aput p rp' (nreqs s))).
    set (r := mkNreq rt None (Some p) 0 cb).
    assert (I2 : invE (Some p) s2) by (unfold s2; eapply inv_upd; eauto; intros X; congruence).
    assert (E2 : aget p (nreqs s2) = Some rp') by (unfold s2; ssimpl; rewrite aget_aput, beq_refl; reflexivity).
    assert (HD2 : has_data s2 p) by (exists rp', d; split; [exact E2|exact Dp]).
    assert (SL2 : slack s2 (fp p 1)).
    { intros q rq. unfold s2; ssimpl. rewrite aget_aput.
      pose proof (cntn_aput_same q p rp rp' (nreqs s) Ep eq_refl) as Le. unfold fp.
      destruct (beq q p) eqn:Eq.
      - apply beq_eq in Eq. subst q. intros Y; inversion Y; subst rq. unfold rp' in *; cbn [nr_deps].
        specialize (SL _ _ Ep). unfold zero in SL. lia.
      - intros Y. specialize (SL _ _ Y). unfold zero in SL. lia. }
    assert (RT2 : reqT s2).
    { intros q y. unfold s2; ssimpl. rewrite aget_aput. destruct (beq q p) eqn:Eq; [|apply RT].
      apply beq_eq in Eq. subst q. intros Y; inversion Y; subst y. apply (RT _ _ Ep). }
    assert (Ef2 : aget cpath (nreqs s2) = None).
    { unfold s2; ssimpl. rewrite aget_aput. destruct (beq cpath p) eqn:Eq; [|exact Ef].
      apply beq_eq in Eq. subst. congruence. }
    assert (I3 : invE (Some p) (schedule_node s2 cpath r)).
    { eapply (inv_sched H T CD root cb0 _ _ _ _ p); [exact I2|exact Ef2|reflexivity|reflexivity|reflexivity|exact HD2]. }
    assert (SL3 : slack (schedule_node s2 cpath r) zero).
    { apply (slack_fp0 H T CD root cb0 Hkind _ p). eapply (slack_sched' H T CD root cb0 Hkind); [exact I2|exact SL2|exact Ef2|exact HD2|reflexivity|reflexivity]. }
    assert (X2 : ext p s s2) by (unfold s2; eapply ext_upd; eauto).
    assert (X3 : ext p s (schedule_node s2 cpath r)) by (eapply ext_trans; [exact X2|apply ext_sched; exact Ef2]).
    split; [exact I3|]. split; [exact SL3|]. split.
    { intros q y. unfold schedule_node; ssimpl. rewrite aget_aput. destruct (beq q cpath) eqn:Eq; [|apply RT2].
      apply beq_eq in Eq. subst q. intros Y; inversion Y; subst y. simpl. split; [auto|discriminate]. }
    split; [exact X3|]. split.
    { destruct (proj2 (proj2 (proj2 X3)) _ Ep) as (rp2 & A & B & _). exists rp2, d. split; [exact A|congruence]. }
    right. right. exists r. split; [|split; reflexivity].
    unfold schedule_node; ssimpl. rewrite aget_aput, beq_refl. reflexivity.
  Qed.


  Lemma inv_bump p s :
    invE (Some p) s -> slack s zero -> reqT s -> has_data s p ->
    exists s2, bump_deps s p 1 = Some s2 /\ invE (Some p) s2 /\ slack s2 (fp p 1) /\ reqT s2 /\
               ext p s s2 /\ has_data s2 p /\ creqs s2 = creqs s /\ same_store s s2.
  Proof.
    intros I SL RT (rp & d & Ep & Dp). unfold bump_deps. rewrite Ep.
    set (rp' := mkNreq (nr_hash rp) (nr_data rp) (nr_parent rp) (nr_deps rp + 1) (nr_cb rp)).
    set (s2 := set_nreqs s (aput p rp' (nreqs s))).
    exists s2. split; [reflexivity|].
    assert (E2 : aget p (nreqs s2) = Some rp') by (unfold s2; ssimpl; rewrite aget_aput, beq_refl; reflexivity).
    split; [unfold s2; eapply inv_upd; eauto; intros X; congruence|].
    split.
    { intros q rq. unfold s2; ssimpl. rewrite aget_aput.
      pose proof (cntn_aput_same q p rp rp' (nreqs s) Ep eq_refl) as Le. unfold fp.
      destruct (beq q p) eqn:Eq.
      - apply beq_eq in Eq. subst q. intros Y; inversion Y; subst rq. unfold rp' in *; cbn [nr_deps].
        specialize (SL _ _ Ep). unfold zero in SL. lia.
      - intros Y. specialize (SL _ _ Y). unfold zero in SL. lia. }
    split.
    { intros q y. unfold s2; ssimpl. rewrite aget_aput. destruct (beq q p) eqn:Eq; [|apply RT].
      apply beq_eq in Eq. subst q. intros Y; inversion Y; subst y. apply (RT _ _ Ep). }
    split; [unfold s2; eapply ext_upd; eauto|].
    split; [exists rp', d; split; [exact E2|exact Dp]|]. split; [reflexivity|repeat split].
  Qed.

  Lemma inv_add_code_entry p s h cpath parent :
    invE (Some p) s -> slack s zero -> reqT s -> has_data s p -> parent <> zero32 ->
    match add_code_entry H s h cpath parent p with
    | inl _ => True
    | inr s' => invE (Some p) s' /\ slack s' zero /\ reqT s' /\ ext p s s' /\ has_data s' p /\
                (h = empty_code H \/ availc s' h \/ pend_code s' p h)
    end.
  Proof.
    intros I SL RT HD Hpar. unfold add_code_entry.
    destruct (beq h (empty_code H)) eqn:Er.
    { apply beq_eq in Er. split; [exact I|split; [exact SL|split; [exact RT|split; [apply ext_refl|split; [exact HD|left; exact Er]]]]]. }
    destruct (has h (mb_codes s)) eqn:Em.
    { split; [exact I|split; [exact SL|split; [exact RT|split; [apply ext_refl|split; [exact HD|right; left; right; exact Em]]]]]. }
    destruct (has (code_key h) (sc_db s)) eqn:Ed.
    { split; [exact I|split; [exact SL|split; [exact RT|split; [apply ext_refl|split; [exact HD|right; left; left; exact Ed]]]]]. }
    assert (Ez : negb (beq parent zero32) = true).
    { destruct (beq parent zero32) eqn:E; [apply beq_eq in E; contradiction|reflexivity]. }
    rewrite Ez. destruct (inv_bump p s I SL RT HD) as (s2 & Eb & I2 & SL2 & RT2 & X2 & HD2 & Ec & SS2).
    rewrite Eb.
    set (s3 := schedule_code s2 h (mkCreq cpath None [p])).
    assert (N3 : nreqs s3 = nreqs s2) by (unfold s3, schedule_code; destruct (aget h (creqs s2)); reflexivity).
    split; [apply inv_sched_code; assumption|].
    split; [apply (slack_fp0 H T CD root cb0 Hkind _ p); apply (slack_sched_code H T CD root cb0 Hkind); exact SL2|].
    split; [intros q y; rewrite N3; apply RT2|].
    split; [eapply ext_trans; [exact X2|apply ext_sched_code]|].
    split; [destruct HD2 as (r2 & d2 & A & B); exists r2, d2; rewrite N3; auto|].
    right. right. unfold pend_code, s3, schedule_code.
    destruct (aget h (creqs s2)) as [old|] eqn:Eo; ssimpl; rewrite aget_aput, beq_refl; eexists; (split; [reflexivity|]); simpl.
    - apply in_app_iff. right. left. reflexivity.
    - left. reflexivity.
  Qed.

  Lemma availn_ss s s' h : same_store s s' -> availn s h -> availn s' h.
  Proof. intros (_ & E1 & E2 & _). unfold SyncComplete.availn. rewrite E1, E2. auto. Qed.
  Lemma availc_ss s s' h : same_store s s' -> availc s h -> availc s' h.
  Proof. intros (_ & E1 & _ & E3). unfold SyncComplete.availc. rewrite E1, E3. auto. Qed.
  Lemma availn_ext p s s' h : ext p s s' -> availn s h -> availn s' h.
  Proof. intros (SS & _) A. eapply availn_ss; eauto. Qed.
  Lemma availc_ext p s s' h : ext p s s' -> availc s h -> availc s' h.
  Proof. intros (SS & _) A. eapply availc_ss; eauto. Qed.
  Lemma kid_ok_ext p s s' cb cp cn : ext p s s' -> kid_ok H s p cb cp cn -> kid_ok H s' p cb cp cn.
  Proof.
    intros X. apply kid_ok_mono.
    - intros h. apply (availn_ext p); exact X.
    - intros h. apply (availc_ext p); exact X.
    - intros ch P. right. apply (proj1 (proj2 X)). exact P.
    - intros h P. right. apply (proj1 (proj2 (proj2 X))). exact P.
  Qed.

  Lemma inv_on_account p s cpath leaf hp :
    invE (Some p) s -> slack s zero -> reqT s -> has_data s p -> hp <> zero32 ->
    (forall sroot ch, dec_account leaf = Some (sroot, ch) -> sroot <> empty_root H -> RN cpath sroot CbNone) ->
    snd (on_account H s cpath leaf hp p) = ROk ->
    let s' := fst (on_account H s cpath leaf hp p) in
    invE (Some p) s' /\ slack s' zero /\ reqT s' /\ ext p s s' /\ has_data s' p /\
    kid_ok H s' p CbAccount cpath (NValue leaf).
  Proof.
    intros I SL RT HD Hz Hrn. unfold on_account.
    destruct (dec_account leaf) as [[sroot ch]|] eqn:Ed; [|discriminate].
    pose proof (inv_add_sub_trie p s sroot cpath hp CbNone I SL RT HD Hz (Hrn _ _ eq_refl)) as A.
    destruct (add_sub_trie H s sroot cpath hp p CbNone) as [s1|s1]; [discriminate|].
    destruct A as (I1 & SL1 & RT1 & X1 & HD1 & K1).
    pose proof (inv_add_code_entry p s1 (bytes_to_hash ch) cpath hp I1 SL1 RT1 HD1 Hz) as B.
    destruct (add_code_entry H s1 (bytes_to_hash ch) cpath hp p) as [s2|s2]; [discriminate|].
    destruct B as (I2 & SL2 & RT2 & X2 & HD2 & K2). intros _. cbn [fst].
    split; [exact I2|]. split; [exact SL2|]. split; [exact RT2|].
    split; [eapply ext_trans; eauto|]. split; [exact HD2|].
    simpl. intros _ sroot' ch' Ed'. rewrite Ed in Ed'. inversion Ed'; subst sroot' ch'. split; [|exact K2].
    destruct K1 as [?|[A|P]]; [auto|right; left; eapply availn_ext; eauto|right; right; apply (proj1 (proj2 X2)); exact P].
  Qed.

  Definition kid_okA (s : sync) (acc : list (list N * nreq)) (p : list N) (cb : cbkind) (cp : list N) (cn : node) : Prop :=
    match cn with
    | NHash ch => availn s ch \/ In (cp, mkNreq ch None (Some p) 0 cb) acc
    | _ => kid_ok H s p cb cp cn
    end.

  Lemma inv_children_loop p hp cbp b n cl0 : forall cl s acc,
    invE (Some p) s -> slack s zero -> reqT s -> has_data s p ->
    RN p hp cbp -> T hp = Some b -> decode_node b = DOk n -> child_list p n = Some cl0 -> incl cl cl0 ->
    hp <> zero32 ->
    snd (children_loop H s p hp cbp cl acc) = ROk ->
    let s' := fst (fst (children_loop H s p hp cbp cl acc)) in
    let acc' := snd (fst (children_loop H s p hp cbp cl acc)) in
    invE (Some p) s' /\ slack s' zero /\ reqT s' /\ ext p s s' /\ has_data s' p /\
    (forall cp cn, In (cp, cn) cl -> kid_okA s' acc' p cbp cp cn) /\
    (forall x, In x acc -> In x acc') /\
    (forall x, In x acc' -> In x acc \/ kidreq p cbp s cl x).
  Proof.
    induction cl as [|[cpath cn] rest IH]; intros s acc I SL RT HD Rp Tp Dn Cl Hin Hz; cbn [children_loop].
    { intros _. cbn [fst snd]. split; [exact I|]. split; [exact SL|]. split; [exact RT|].
      split; [apply ext_refl|]. split; [exact HD|]. split; [intros ? ? []|split; auto]. }
    assert (Hin' : incl rest cl0) by (intros x Hx; apply Hin; right; exact Hx).
    assert (Hhd : In (cpath, cn) cl0) by (apply Hin; left; reflexivity).
    (* the callback part *)
    set (cbres := match cbp with
                  | CbNone => (s, ROk)
                  | CbAccount => match cn with
                                 | NValue v => if callback_paths_ok cpath then on_account H s cpath v hp p else (s, RPanic)
                                 | _ => (s, ROk)
                                 end
                  end).
    assert (CB : snd cbres = ROk ->
              invE (Some p) (fst cbres) /\ slack (fst cbres) zero /\ reqT (fst cbres) /\ ext p s (fst cbres) /\
              has_data (fst cbres) p /\ ((forall h, cn <> NHash h) -> kid_ok H (fst cbres) p cbp cpath cn)).
    { assert (Triv : invE (Some p) s /\ slack s zero /\ reqT s /\ ext p s s /\ has_data s p).
      { split; [exact I|split; [exact SL|split; [exact RT|split; [apply ext_refl|exact HD]]]]. }
      unfold cbres. destruct cbp.
      - intros _. cbn [fst]. destruct Triv as (A1 & A2 & A3 & A4 & A5). repeat (split; [assumption|]).
        intros Hn. destruct cn; simpl; auto; [discriminate|exfalso; eapply Hn; reflexivity].
      - destruct cn; try (intros _; cbn [fst]; destruct Triv as (A1 & A2 & A3 & A4 & A5); repeat (split; [assumption|]);
                          intros Hn; simpl; auto; exfalso; eapply Hn; reflexivity).
        destruct (callback_paths_ok cpath); [|discriminate].
        intros Hok.
        destruct (inv_on_account p s cpath v hp I SL RT HD Hz) as (B1 & B2 & B3 & B4 & B5 & B6); auto.
        { intros sroot ch Ed Hne. eapply RN_stor; eauto. }
        repeat (split; [assumption|]). intros _. exact B6. }
    destruct cbres as [s1 rc]. cbn [fst snd] in CB.
    destruct rc; try (cbn [snd]; discriminate).
    destruct (CB eq_refl) as (I1 & SL1 & RT1 & X1 & HD1 & K1). clear CB.
    assert (SD : sc_db s1 = sc_db s) by (destruct X1 as ((_ & E & _) & _); exact E).
    (* generic continuation for a child that is not a hash reference *)
    assert (Cont : forall acc1,
      (forall x, In x acc -> In x acc1) ->
      (forall x, In x acc1 -> In x acc \/ kidreq p cbp s ((cpath, cn) :: rest) x) ->
      (forall s' acc', ext p s1 s' -> (forall x, In x acc1 -> In x acc') -> kid_okA s' acc' p cbp cpath cn) ->
      snd (children_loop H s1 p hp cbp rest acc1) = ROk ->
      let s' := fst (fst (children_loop H s1 p hp cbp rest acc1)) in
      let acc' := snd (fst (children_loop H s1 p hp cbp rest acc1)) in
      invE (Some p) s' /\ slack s' zero /\ reqT s' /\ ext p s s' /\ has_data s' p /\
      (forall cp cn0, In (cp, cn0) ((cpath, cn) :: rest) -> kid_okA s' acc' p cbp cp cn0) /\
      (forall x, In x acc -> In x acc') /\
      (forall x, In x acc' -> In x acc \/ kidreq p cbp s ((cpath, cn) :: rest) x)).
    { intros acc1 F1 F2 Khead Hrc.
      destruct (IH s1 acc1 I1 SL1 RT1 HD1 Rp Tp Dn Cl Hin' Hz Hrc) as (A1 & A2 & A3 & A4 & A5 & A6 & A7 & A8).
      split; [exact A1|]. split; [exact A2|]. split; [exact A3|].
      split; [eapply ext_trans; eauto|]. split; [exact A5|]. split; [|split].
      - intros cp cn0 [E|E]; [inversion E; subst; apply Khead; assumption|apply A6; exact E].
      - intros x Hx. apply A7. apply F1. exact Hx.
      - intros x Hx. destruct (A8 x Hx) as [Y|(cp & h & E1 & E2 & E3)]; [apply F2; exact Y|].
        right. exists cp, h. split; [exact E1|split; [right; exact E2|rewrite <- SD; exact E3]]. }
    destruct cn as [| v | k c | cs | h].
    - apply (Cont acc); auto. intros s' acc' X _. exact Logic.I.
    - apply (Cont acc); auto. intros s' acc' X _. apply (kid_ok_ext p s1); [exact X|]. apply K1. intros; discriminate.
    - apply (Cont acc); auto. intros s' acc' X _. exact Logic.I.
    - apply (Cont acc); auto. intros s' acc' X _. exact Logic.I.
    - destruct (resolve_path cpath) as [[owner inner]|]; [|cbn [snd]; discriminate].
      rewrite (has_node_hash H _ _ _ _ (iv_sc _ _ _ _ _ _ I1)).
      destruct (has h (sc_db s1)) eqn:Eh.
      + apply (Cont acc); auto. intros s' acc' X _. left. apply (availn_ext p s1); [exact X|]. left. exact Eh.
      + cbv iota. apply (Cont ((cpath, mkNreq h None (Some p) 0 cbp) :: acc)).
        * intros x Hx. right. exact Hx.
        * intros x [Hx|Hx]; [|left; exact Hx]. right. exists cpath, h. split; [auto|split; [left; reflexivity|rewrite <- SD; exact Eh]].
        * intros s' acc' _ F. right. apply F. left. reflexivity.
  Qed.

  Lemma schedule_all_creqs : forall reqs s s', schedule_all s reqs = Some s' -> creqs s' = creqs s.
  Proof.
    induction reqs as [|[p r] rest IH]; intros s s' E; cbn [schedule_all] in E; [inversion E; reflexivity|].
    destruct (aget p (nreqs s)); [discriminate|]. rewrite (IH _ _ E). reflexivity.
  Qed.

  Lemma children_loop_rc : forall cl s p hp cb acc,
    In (snd (children_loop H s p hp cb cl acc)) [ROk; RCallback; RPanic].
  Proof.
    induction cl as [|[cpath cn] rest IH]; intros s p hp cb acc; cbn [children_loop]; [simpl; auto|].
    set (cbres := match cb with
                  | CbNone => (s, ROk)
                  | CbAccount => match cn with
                                 | NValue v => if callback_paths_ok cpath then on_account H s cpath v hp p else (s, RPanic)
                                 | _ => (s, ROk)
                                 end
                  end).
    assert (R : In (snd cbres) [ROk; RCallback; RPanic]).
    { unfold cbres. destruct cb; [simpl; auto|]. destruct cn; try (simpl; auto; fail).
      destruct (callback_paths_ok cpath); [|simpl; auto].
      unfold on_account. destruct (dec_account v) as [[sr ch]|]; [|simpl; auto].
      destruct (add_sub_trie H s sr cpath hp p CbNone); [simpl; auto|].
      destruct (add_code_entry H s0 (bytes_to_hash ch) cpath hp p); simpl; auto. }
    destruct cbres as [s1 rc]. cbn [snd] in R.
    destruct rc; try (cbn [snd]; exact R); try (simpl in R; repeat destruct R as [R|R]; try discriminate R; contradiction).
    destruct cn; try apply IH.
    destruct (resolve_path cpath) as [[owner inner]|]; [|simpl; auto].
    destruct (has_node H s1 owner inner h) as [ex inc]. destruct ex; apply IH.
  Qed.

  (* Sync.ProcessNode, any callback kind *)
  Lemma inv_process_node s path data :
    invE None s -> slack s zero -> reqT s ->
    (forall r, aget path (nreqs s) = Some r -> T (nr_hash r) = Some data) ->
    In (snd (process_node H s path data)) [ROk; RNotRequested; RAlreadyProcessed; RDecode] ->
    invE None (fst (process_node H s path data)) /\ slack (fst (process_node H s path data)) zero /\
    reqT (fst (process_node H s path data)).
  Proof.
    intros I SL RT Hd. unfold process_node.
    destruct (aget path (nreqs s)) as [r|] eqn:Er; [|auto].
    destruct (nr_data r) eqn:Edata; [auto|].
    destruct (decode_node data) as [n|] eqn:Edec; [|auto].
    set (r1 := mkNreq (nr_hash r) (Some data) (nr_parent r) (nr_deps r) (nr_cb r)).
    set (s1 := set_nreqs s (aput path r1 (nreqs s))).
    destruct (RT _ _ Er) as [Rr _].
    assert (I1 : invE (Some path) s1) by (apply inv_setdata; [exact I|exact Er|exact Edata|eapply decode_nonempty; eauto]).
    assert (E1 : aget path (nreqs s1) = Some r1) by (unfold s1; ssimpl; rewrite aget_aput, beq_refl; reflexivity).
    assert (SL1 : slack s1 zero).
    { unfold s1. eapply (slack_upd H T CD); eauto. specialize (SL _ _ Er). exact SL. }
    assert (RT1 : reqT s1).
    { intros q y. unfold s1; ssimpl. rewrite aget_aput. destruct (beq q path) eqn:Eq; [|apply RT].
      apply beq_eq in Eq. subst q. intros Y; inversion Y; subst y. simpl. split; [exact Rr|].
      intros b Yb; inversion Yb; subst. apply Hd. reflexivity. }
    assert (HD1 : has_data s1 path) by (exists r1, data; split; [exact E1|reflexivity]).
    clearbody s1.
    unfold children.
    destruct (child_list path n) as [cl|] eqn:Ecl; [|simpl; intros [X|[X|[X|[X|[]]]]]; discriminate X].
    rewrite (iv_sc _ _ _ _ _ _ I1).
    assert (Es : match n with NShort _ (NHash _) => Some s1 | _ => Some s1 end = Some s1)
      by (destruct n; try reflexivity; destruct n; reflexivity).
    rewrite Es. clear Es.
    pose proof (inv_children_loop path (nr_hash r) (nr_cb r) data n cl cl s1 [] I1 SL1 RT1 HD1 Rr
                  (Hd _ eq_refl) Edec Ecl (incl_refl _) (Hnz _ _ _ Rr)) as CL.
    pose proof (children_loop_rc cl s1 path (nr_hash r) (nr_cb r) []) as RCL.
    destruct (children_loop H s1 path (nr_hash r) (nr_cb r) cl []) as [[s2 reqs] rc]. cbn [fst snd] in CL, RCL.
    destruct rc; try (simpl; intros [X|[X|[X|[X|[]]]]]; discriminate X);
      try (exfalso; simpl in RCL; repeat destruct RCL as [RCL|RCL]; try discriminate RCL; contradiction).
    destruct (CL eq_refl) as (I2 & SL2 & RT2 & X12 & HD2 & Kids & _ & Sp3). clear CL.
    destruct (proj2 (proj2 (proj2 X12)) _ E1) as (r2 & E2 & D2 & H2 & C2). cbn [nr_data nr_hash nr_cb] in D2, H2, C2.
    rewrite E2.
    assert (Hrn : forall cp h, In (cp, NHash h) cl -> RN cp h (nr_cb r)).
    { intros cp h Hin. eapply RN_child; eauto. }
    assert (Lclose : forall s' r', aget path (nreqs s') = Some r' ->
              nr_data r' = Some data -> nr_cb r' = nr_cb r ->
              (forall cp cn, In (cp, cn) cl -> kid_ok H s' path (nr_cb r) cp cn) -> Lq H s' path).
    { intros s' r' Er' Dr' Cr' Hk r0 b0 n0 cl0 E0 D0 N0 C0 cp cn Hin.
      rewrite Er' in E0. inversion E0; subst r0. rewrite Dr' in D0. inversion D0; subst b0.
      rewrite Edec in N0. inversion N0; subst n0. rewrite Ecl in C0. inversion C0; subst cl0.
      rewrite Cr'. apply Hk. exact Hin. }
    destruct (Nat.eqb (length reqs) 0 && Z.eqb (nr_deps r2) 0) eqn:Ecase.
    - apply andb_prop in Ecase. destruct Ecase as [El Ez]. apply Nat.eqb_eq in El. apply Z.eqb_eq in Ez.
      destruct reqs; [|discriminate]. intros _.
      assert (I2' : invE None s2).
      { eapply inv_close; [exact I2|]. apply (Lclose s2 r2 E2 D2 C2).
        intros cp cn Hin. pose proof (Kids _ _ Hin) as K. destruct cn; simpl in K |- *; auto.
        destruct K as [K|[]]. left. exact K. }
      eapply (inv_cnr H T CD root cb0 Hkind (cnr_fuel s2) s2 path zero r2 data); auto.
    - set (r3 := mkNreq (nr_hash r2) (nr_data r2) (nr_parent r2) (nr_deps r2 + Z.of_nat (length reqs)) (nr_cb r2)).
      set (s3 := set_nreqs s2 (aput path r3 (nreqs s2))).
      destruct (schedule_all s3 (rev reqs)) as [s4|] eqn:Esa; [|simpl; intros [X|[X|[X|[X|[]]]]]; discriminate X].
      cbn [fst snd]. intros _.
      assert (I3 : invE (Some path) s3).
      { unfold s3. apply (inv_upd _ _ _ _ _ _ path r2 r3); [exact I2|exact E2|reflexivity|reflexivity|reflexivity|reflexivity|intros X; rewrite D2 in X; discriminate]. }
      assert (E3 : aget path (nreqs s3) = Some r3) by (unfold s3; ssimpl; rewrite aget_aput, beq_refl; reflexivity).
      assert (X23 : ext path s2 s3) by (unfold s3; apply (ext_upd path s2 path r2 r3 E2); reflexivity).
      assert (SL3 : slack s3 (fp path (length (rev reqs)))).
      { rewrite rev_length. intros q rq. unfold s3; ssimpl. rewrite aget_aput.
        pose proof (cntn_aput_same q path r2 r3 (nreqs s2) E2 eq_refl) as Le. unfold fp.
        destruct (beq q path) eqn:Eq.
        - apply beq_eq in Eq. subst q. intros Y; inversion Y; subst rq. unfold r3 in *; cbn [nr_deps].
          specialize (SL2 _ _ E2). unfold zero in SL2. lia.
        - intros Y. specialize (SL2 _ _ Y). unfold zero in SL2. lia. }
      assert (RT3 : reqT s3).
      { intros q y. unfold s3; ssimpl. rewrite aget_aput. destruct (beq q path) eqn:Eq; [|apply RT2].
        apply beq_eq in Eq. subst q. intros Y; inversion Y; subst y. apply (RT2 _ _ E2). }
      assert (HD3 : has_data s3 path) by (exists r3, data; split; [exact E3|exact D2]).
      assert (Hkr : forall x, In x (rev reqs) -> kidreq path (nr_cb r) s1 cl x).
      { intros x Hx. apply in_rev in Hx. destruct (Sp3 x Hx) as [[]|X]. exact X. }
      destruct (inv_schedule_all H T CD root cb0 Hkind path (nr_cb r) cl s1 (rev reqs) s3 s4 I3 SL3 RT3 HD3 Hrn Hkr Esa)
        as (A & B & C & D & F & G).
      pose proof (schedule_all_creqs _ _ _ Esa) as Ecr.
      split; [|split; [exact B|exact C]].
      eapply inv_close; [exact A|].
      apply (Lclose s4 r3 (G _ _ E3) D2 C2).
      intros cp cn Hin. pose proof (Kids _ _ Hin) as K.
      assert (AN : forall h, availn s2 h -> availn s4 h).
      { intros h A0. eapply availn_ss; [exact D|]. eapply availn_ext; eauto. }
      assert (AC : forall h, availc s2 h -> availc s4 h).
      { intros h A0. eapply availc_ss; [exact D|]. eapply availc_ext; eauto. }
      assert (PN : forall ch, pend_node s2 path cp ch -> pend_node s4 path cp ch).
      { intros ch P. apply (proj1 (proj2 X23)) in P. destruct P as (rc & P1 & P2 & P3). exists rc. split; [apply G; exact P1|auto]. }
      assert (PC : forall h, pend_code s2 path h -> pend_code s4 path h).
      { intros h (c & P1 & P2). exists c. rewrite Ecr. auto. }
      destruct cn; simpl in K |- *; auto.
      + intros Hcb sroot chash Hda. destruct (K Hcb _ _ Hda) as [K1 K2]. split.
        * destruct K1 as [?|[?|?]]; auto.
        * destruct K2 as [?|[?|?]]; auto.
      + destruct K as [K|K]; [left; auto|].
        right. exists (mkNreq h None (Some path) 0 (nr_cb r)). split; [|split; reflexivity].
        apply F. apply -> in_rev. exact K.
  Qed.

  (* Sync.commitCodeRequest, first half: the code is buffered and its request removed *)
  Lemma inv_remove_code s h c data f fe :
    invE None s -> slack s f -> aget h (creqs s) = Some c ->
    let s1 := mb_add_code s h data in
    let s2 := set_fetches (set_creqs s1 (adel h (creqs s1))) fe in
    invE None s2 /\ slack s2 (fun q => (f q + occ q (cr_parents c))%nat).
  Proof.
    intros I SL Hc s1 s2. pose proof I as [S0 ND NE Z PA CP L C RT].
    assert (AN : forall x, availn s x -> availn s2 x) by (intros x A; exact A).
    assert (AC : forall x, availc s x -> availc s2 x).
    { intros x [A|A]; [left; exact A|right]. unfold s2, s1, mb_add_code; ssimpl.
      apply has_true in A. destruct A as [v A]. apply has_true. rewrite get_put. destruct (beq x h); eauto. }
    assert (AH : availc s2 h).
    { right. unfold s2, s1, mb_add_code; ssimpl. apply has_true. exists data. rewrite get_put, beq_refl. reflexivity. }
    split.
    - constructor; unfold s2, s1, mb_add_code; ssimpl; auto.
      + intros h' c' q Hin Hq. apply In_adel in Hin. destruct Hin as [Hin _]. eapply CP; eauto.
      + intros q Hq r b n cl E D1 D2 D3 cp cn Hin.
        eapply kid_ok_mono; [exact AN|exact AC| | |eapply (L q Hq); eauto].
        * intros ch P. right. exact P.
        * intros h' (c' & E1 & E2). destruct (beq h' h) eqn:Eq.
          -- apply beq_eq in Eq. subst h'. left. exact AH.
          -- right. exists c'. split; [|exact E2]. unfold s2, s1, mb_add_code; ssimpl. rewrite aget_adel, Eq. exact E1.
      + intros p h' cb b n cl R A. intros Th D Cl cp cn Hin.
        eapply kid_avail_mono; [exact AN|exact AC|]. eapply C; eauto.
    - intros q rq E. change (aget q (nreqs s) = Some rq) in E. specialize (SL q rq E).
      unfold s2, s1, mb_add_code; ssimpl. pose proof (cntc_adel_found q h (creqs s) c Hc). lia.
  Qed.

  (* the parents loop of commitCodeRequest *)
  Lemma inv_ccp : forall parents s f,
    invE None s -> slack s (fun q => (f q + occ q parents)%nat) -> reqT s ->
    invE None (fst (commit_code_parents s parents)) /\ slack (fst (commit_code_parents s parents)) f /\
    reqT (fst (commit_code_parents s parents)).
  Proof.
    induction parents as [|pp rest IH]; intros s f I SL RT; cbn [commit_code_parents].
    - cbn [fst]. split; [exact I|split; [|exact RT]]. intros q rq E. specialize (SL q rq E). cbn [occ] in SL. lia.
    - assert (Weak : slack s f).
      { intros q rq E. specialize (SL q rq E). cbn beta in SL. lia. }
      destruct (aget pp (nreqs s)) as [rp|] eqn:Ep; [|cbn [fst]; auto].
      set (rp' := mkNreq (nr_hash rp) (nr_data rp) (nr_parent rp) (nr_deps rp - 1) (nr_cb rp)).
      set (s1 := set_nreqs s (aput pp rp' (nreqs s))).
      assert (I1 : invE None s1).
      { unfold s1. apply (inv_upd _ _ _ _ _ _ pp rp rp'); [exact I|exact Ep|reflexivity|reflexivity|reflexivity|reflexivity|].
        intros Dn. pose proof (iv_z _ _ _ _ _ _ I _ _ Ep Dn). unfold rp'; cbn [nr_deps]. lia. }
      assert (SL1 : slack s1 (fun q => (f q + occ q rest)%nat)).
      { intros q rq. unfold s1; ssimpl. rewrite aget_aput.
        pose proof (cntn_aput_same q pp rp rp' (nreqs s) Ep eq_refl) as Le.
        destruct (beq q pp) eqn:Eq.
        - apply beq_eq in Eq. subst q. intros Y; inversion Y; subst rq. unfold rp' in *; cbn [nr_deps].
          specialize (SL _ _ Ep). cbn [occ] in SL. rewrite beq_refl in SL. lia.
        - intros Y. specialize (SL _ _ Y). cbn [occ] in SL. lia. }
      assert (RT1 : reqT s1).
      { intros q y. unfold s1; ssimpl. rewrite aget_aput. destruct (beq q pp) eqn:Eq; [|apply RT].
        apply beq_eq in Eq. subst q. intros Y; inversion Y; subst y. apply (RT _ _ Ep). }
      fold rp'. fold s1.
      destruct (Z.eqb (nr_deps rp - 1) 0) eqn:Ed; [|apply IH; assumption].
      apply Z.eqb_eq in Ed.
      assert (Hdp : exists dp, nr_data rp = Some dp).
      { destruct (nr_data rp) eqn:Dn; [eauto|]. pose proof (iv_z _ _ _ _ _ _ I _ _ Ep Dn). lia. }
      destruct Hdp as [dp Hdp].
      assert (E1 : aget pp (nreqs s1) = Some rp') by (unfold s1; ssimpl; rewrite aget_aput, beq_refl; reflexivity).
      destruct (inv_cnr H T CD root cb0 Hkind (cnr_fuel s1) s1 pp _ rp' dp I1 SL1 RT1 E1 Hdp Ed) as (A & B & C).
      destruct (commit_node_request (cnr_fuel s1) s1 pp) as [s2 rc]. cbn [fst] in A, B, C.
      destruct rc; try (cbn [fst]; split; [exact A|split; [|exact C]];
                        intros q rq E; specialize (B q rq E); cbn beta in B; lia).
      apply IH; assumption.
  Qed.

  (* Sync.ProcessCode *)
  Lemma inv_process_code s h data :
    invE None s -> slack s zero -> reqT s ->
    invE None (fst (process_code s h data)) /\ slack (fst (process_code s h data)) zero /\
    reqT (fst (process_code s h data)).
  Proof.
    intros I SL RT. unfold process_code.
    destruct (aget h (creqs s)) as [c|] eqn:Ec; [|auto].
    destruct (cr_data c); [auto|].
    destruct (inv_remove_code s h c data zero (fadd (Z.of_nat (length (cr_path c))) (-1) (fetches (mb_add_code s h data))) I SL Ec)
      as [I2 SL2].
    apply inv_ccp; [exact I2|exact SL2|].
    intros q y E. apply RT. exact E.
  Qed.

  (* ---- Commit inside a history ---- *)
  Lemma bytes_to_hash_len b : length (bytes_to_hash b) = 32%nat.
  Proof.
    unfold bytes_to_hash. destruct (Nat.ltb 32 (length b)) eqn:E.
    - apply Nat.ltb_lt in E. rewrite skipn_length. lia.
    - apply Nat.ltb_ge in E. rewrite app_length, repeat_length. lia.
  Qed.
  Lemma RC_len h : RC h -> length h = 32%nat.
  Proof. intros R. destruct R. apply bytes_to_hash_len. Qed.

  Lemma apply_ops_has2 : forall ops d d' h,
    apply_ops false d ops = Some d' -> (forall o p, ~ In (OpDel o p) ops) ->
    (has h d = true -> has h d' = true) /\
    ((exists o p b, In (OpWrite o p b h) ops) -> has h d' = true) /\
    (has h d' = true -> has h d = true \/ exists o p b, In (OpWrite o p b h) ops /\ b <> []).
  Proof.
    induction ops as [|o ops IH]; simpl; intros d d' h E Hn.
    - inversion E; subst. split; [auto|]. split; [intros (? & ? & ? & [])|auto].
    - destruct (apply_op false d o) as [d1|] eqn:E1; [|discriminate].
      destruct o as [ow pa|ow pa blob hash]; [exfalso; eapply Hn; left; reflexivity|].
      simpl in E1. destruct blob as [|b0 bl]; [discriminate|]. inversion E1; subst d1.
      destruct (IH _ _ h E (fun o p Hin => Hn o p (or_intror Hin))) as (A & B & C).
      assert (Hput : forall k, has k d = true -> has k (put hash (b0 :: bl) d) = true).
      { intros k Hk. apply has_true in Hk. destruct Hk as [v Hk]. apply has_true.
        rewrite get_put. destruct (beq k hash); eauto. }
      split; [|split].
      + intros Hd. apply A. apply Hput. exact Hd.
      + intros (o & p & b & [X|X]).
        * inversion X; subst. apply A. apply has_true. exists (b0 :: bl). rewrite get_put, beq_refl. reflexivity.
        * apply B. eauto.
      + intros Hd. destruct (C Hd) as [X|(o & p & b & X & Y)]; [|right; exists o, p, b; auto].
        apply has_true in X. destruct X as [v X]. rewrite get_put in X. destruct (beq h hash) eqn:Eq.
        * apply beq_eq in Eq. subst h. right. exists ow, pa, (b0 :: bl). split; [left; reflexivity|discriminate].
        * left. apply has_true. eauto.
  Qed.

  Lemma write_codes_has2 : forall codes d k,
    (has k d = true -> has k (write_codes d codes) = true) /\
    ((exists c v, In (c, v) codes /\ k = code_key c) -> has k (write_codes d codes) = true) /\
    (has k (write_codes d codes) = true -> has k d = true \/ exists c v, In (c, v) codes /\ k = code_key c).
  Proof.
    unfold write_codes. induction codes as [|[h c] rest IH]; simpl; intros d k.
    - split; [auto|]. split; [intros (? & ? & [] & _)|auto].
    - destruct (IH (put (code_key h) c d) k) as (A & B & C).
      assert (Hput : has k d = true -> has k (put (code_key h) c d) = true).
      { intros Hk. apply has_true in Hk. destruct Hk as [v Hk]. apply has_true.
        rewrite get_put. destruct (beq k (code_key h)); eauto. }
      split; [intros X; apply A; apply Hput; exact X|]. split.
      + intros (c0 & v & [X|X] & Y).
        * inversion X; subst. apply A. apply has_true. exists v. rewrite get_put, beq_refl. reflexivity.
        * apply B. eauto.
      + intros X. destruct (C X) as [Y|(c0 & v & Y1 & Y2)]; [|right; exists c0, v; auto].
        apply has_true in Y. destruct Y as [v Y]. rewrite get_put in Y. destruct (beq k (code_key h)) eqn:Eq.
        * apply beq_eq in Eq. right. exists h, c. auto.
        * left. apply has_true. eauto.
  Qed.

  Hypothesis Hlen : forall p h cb, RN p h cb -> length h = 32%nat.

  Lemma inv_commit s s' :
    invE None s -> slack s zero -> reqT s -> sound s -> commit s = Some s' ->
    invE None s' /\ slack s' zero /\ reqT s'.
  Proof.
    intros I SL RT SO Ec. unfold commit in Ec. rewrite (iv_sc _ _ _ _ _ _ I) in Ec.
    destruct (apply_ops false (sc_db s) (rev (mb_nodes s))) as [d|] eqn:Ea; [|discriminate].
    inversion Ec; subst s'. clear Ec.
    assert (Hnd : forall o p, ~ In (OpDel o p) (rev (mb_nodes s))).
    { intros o q Hin. apply in_rev in Hin. exact (so_nodel _ _ _ _ _ _ s SO o q Hin). }
    set (s' := set_mb (set_db s (write_codes d (mb_codes s))) [] [] 0).
    assert (AN : forall h, availn s h -> availn s' h).
    { intros h A. left. unfold s'; ssimpl. apply (proj1 (write_codes_has2 (mb_codes s) d h)).
      destruct (apply_ops_has2 _ _ _ h Ea Hnd) as (B & C & _).
      destruct A as [A|(o & q & b & Hin & _)]; [apply B; exact A|].
      apply C. exists o, q, b. apply -> in_rev. exact Hin. }
    assert (AC : forall h, availc s h -> availc s' h).
    { intros h A. left. unfold s'; ssimpl. destruct A as [A|A].
      - apply (proj1 (write_codes_has2 (mb_codes s) d (code_key h))).
        apply (proj1 (apply_ops_has2 _ _ _ (code_key h) Ea Hnd)). exact A.
      - apply (proj1 (proj2 (write_codes_has2 (mb_codes s) d (code_key h)))).
        apply has_true in A. destruct A as [v A]. exists h, v. split; [apply get_In; exact A|reflexivity]. }
    assert (ANinv : forall p h cb, RN p h cb -> availn s' h -> availn s h).
    { intros p h cb R [A|(o & q & b & [] & _)]. unfold s' in A; ssimpl.
      destruct (proj2 (proj2 (write_codes_has2 (mb_codes s) d h)) A) as [X|(c & v & X1 & X2)].
      - destruct (proj2 (proj2 (apply_ops_has2 _ _ _ h Ea Hnd)) X) as [Y|(o & q & b & Y1 & Y2)]; [left; exact Y|].
        right. exists o, q, b. split; [apply in_rev; exact Y1|exact Y2].
      - exfalso. pose proof (Hlen _ _ _ R) as L1.
        pose proof (proj1 (Forall_forall _ _) (so_codes _ _ _ _ _ _ s SO) (c, v) X1) as [Rc _]. simpl in Rc.
        apply RC_len in Rc. subst h. unfold code_key in L1. simpl in L1. lia. }
    pose proof I as [S0 ND NE Z PA CP L C RTT].
    split; [|split].
    - constructor; unfold s'; ssimpl; auto.
      + intros q Hq r b n cl E D1 D2 D3 cp cn Hin.
        eapply kid_ok_mono; [exact AN|exact AC| | |eapply (L q Hq); eauto]; intros; right; assumption.
      + intros p h cb b n cl R A Th D Cl cp cn Hin.
        eapply kid_avail_mono; [exact AN|exact AC|]. eapply C; eauto.
      + destruct RTT as [?|[A|?]]; auto.
    - intros q rq E. apply SL. exact E.
    - intros q rq E. apply RT. exact E.
  Qed.

  (* ---- all histories of Missing / node deliveries / code deliveries / Commit ---- *)
  Definition InvA (s : sync) : Prop := invE None s /\ slack s zero /\ reqT s /\ sound s.

  Definition op_wf4 (s : sync) (o : op) : Prop :=
    match o with
    | ODeliverNode p h b =>
        (forall r, aget p (nreqs s) = Some r -> h = nr_hash r /\ (H b = h -> T h = Some b)) /\
        (H b = h -> In (snd (process_node H s p b)) [ROk; RNotRequested; RAlreadyProcessed; RDecode])
    | ODeliverCode h b => H b = h -> CD h = Some b
    | _ => True
    end.
  Fixpoint run_wf4 (s : sync) (ops : list op) : Prop :=
    match ops with [] => True | o :: r => op_wf4 s o /\ run_wf4 (step H s o) r end.

  Hypothesis agree0 : forall k v, get k db0 = Some v ->
    (forall b, RNh H T root cb0 k -> T k = Some b -> v = b) /\
    (forall h c, k = code_key h -> RC h -> CD h = Some c -> v = c).

  Lemma InvA_step s o : op_wf4 s o -> InvA s -> InvA (step H s o).
  Proof.
    intros W (I & SL & RT & SO).
    assert (SO' : sound (step H s o)).
    { apply (sound_step H T CD root cb0 db0 agree0); [|exact SO].
      destruct o; simpl in *; auto. destruct W as [W _]. exact W. }
    destruct o as [k|p h b|h b|]; simpl in *.
    - pose proof (missing_go_same max_fetches_per_depth (queue s) k 0 s [] []) as Sm. unfold missing, missing_b in *.
      split; [eapply inv_same; eauto|split; [eapply slack_same; eauto|split; [eapply reqT_same; eauto|exact SO']]].
    - destruct W as (W1 & W2). unfold deliver_node in *.
      destruct (beq (H b) h) eqn:E; [|split; [exact I|split; [exact SL|split; [exact RT|exact SO]]]].
      apply beq_eq in E.
      destruct (inv_process_node s p b I SL RT) as (A & B & C).
      + intros r Hr. destruct (W1 r Hr) as [-> Ht]. apply Ht. exact E.
      + apply W2. exact E.
      + split; [exact A|split; [exact B|split; [exact C|exact SO']]].
    - unfold deliver_code in *. destruct (beq (H b) h) eqn:E; [|split; [exact I|split; [exact SL|split; [exact RT|exact SO]]]].
      destruct (inv_process_code s h b I SL RT) as (A & B & C).
      split; [exact A|split; [exact B|split; [exact C|exact SO']]].
    - destruct (commit s) as [s'|] eqn:E; [|split; [exact I|split; [exact SL|split; [exact RT|exact SO]]]].
      destruct (inv_commit s s' I SL RT SO E) as (A & B & C).
      split; [exact A|split; [exact B|split; [exact C|exact SO']]].
  Qed.

  Lemma InvA_run : forall ops s, run_wf4 s ops -> InvA s -> InvA (run H s ops).
  Proof.
    induction ops as [|o r IH]; intros s W I; simpl; [exact I|].
    destruct W as [W1 W2]. apply IH; [exact W2|]. apply InvA_step; assumption.
  Qed.

  (* the destination is closed under children (incl. storage roots and codes of account
     leaves) where it already holds target nodes *)
  Definition closedA : Prop :=
    forall p h cb b n cl cp cn, RN p h cb -> has h db0 = true -> T h = Some b ->
      decode_node b = DOk n -> child_list p n = Some cl -> In (cp, cn) cl ->
      match cn with
      | NHash ch => has ch db0 = true
      | NValue v => cb = CbAccount -> forall sroot chash, dec_account v = Some (sroot, chash) ->
          (sroot = empty_root H \/ has sroot db0 = true) /\
          (bytes_to_hash chash = empty_code H \/ has (code_key (bytes_to_hash chash)) db0 = true)
      | _ => True
      end.

  Lemma InvA_new_sync : closedA -> InvA (unsum (new_sync H false db0 root cb0)).
  Proof.
    intros C0.
    assert (G : forall s, sc_path s = false -> sc_db s = db0 -> mb_nodes s = [] -> mb_codes s = [] -> creqs s = [] ->
      (forall k r, In (k, r) (nreqs s) ->
         nr_data r = None /\ nr_parent r = None /\ nr_deps r = 0%Z /\ RN k (nr_hash r) (nr_cb r)) ->
      (root = empty_root H \/ availn s root \/ exists r, aget [] (nreqs s) = Some r /\ nr_hash r = root) ->
      invE None s /\ slack s zero /\ reqT s).
    { intros s S0 E1 E2 E4 E3 Hreq RT.
      assert (Hr : forall k r, aget k (nreqs s) = Some r ->
         nr_data r = None /\ nr_parent r = None /\ nr_deps r = 0%Z /\ RN k (nr_hash r) (nr_cb r)).
      { intros k r E. apply Hreq. apply aget_In. exact E. }
      assert (AV : forall h, availn s h -> has h db0 = true).
      { intros h [A|(o & q & b0 & X & _)]; [rewrite <- E1; exact A|rewrite E2 in X; destruct X]. }
      split; [|split].
      - constructor; auto.
        + intros p r b E D. destruct (Hr _ _ E) as (X & _). congruence.
        + intros o p b h Hin. rewrite E2 in Hin. destruct Hin.
        + intros p r E _. destruct (Hr _ _ E) as (_ & _ & X & _). lia.
        + intros k rc q Hin Hq. destruct (Hreq _ _ Hin) as (_ & X & _). congruence.
        + intros h c q Hin. rewrite E3 in Hin. destruct Hin.
        + intros q _ r b n cl E D. destruct (Hr _ _ E) as (X & _). congruence.
        + intros p h cb b n cl R A Th D Cl cp cn Hin.
          pose proof (C0 p h cb b n cl cp cn R (AV _ A) Th D Cl Hin) as K.
          destruct cn; simpl; auto.
          * intros Hcb sroot chash Hd. destruct (K Hcb _ _ Hd) as [K1 K2]. split.
            -- destruct K1 as [?|X]; [auto|]. right. left. rewrite E1. exact X.
            -- destruct K2 as [?|X]; [auto|]. right. left. rewrite E1. exact X.
          * left. rewrite E1. exact K.
      - intros q rq E. destruct (Hr _ _ E) as (_ & _ & X & _). rewrite X, E3.
        rewrite cntn_zero_of; [simpl; unfold zero; lia|].
        intros k rc Hin. destruct (Hreq _ _ Hin) as (_ & Y & _). congruence.
      - intros q rq E. destruct (Hr _ _ E) as (X & _ & _ & R). split; [exact R|]. intros b Y. congruence. }
    split; [|split; [|split]]; try apply sound_new_sync.
    all: unfold new_sync, add_sub_trie.
    all: destruct (beq root (empty_root H)) eqn:Er;
      [apply beq_eq in Er; apply G; auto; intros k r []|].
    all: assert (Hne : root <> empty_root H) by (intros X; rewrite X, beq_refl in Er; discriminate).
    all: change (resolve_path []) with (Some (zero32, @nil N)); cbv iota beta; unfold has_node; ssimpl.
    all: destruct (has root db0) eqn:Eh;
      [apply G; auto; [intros k r []|right; left; left; exact Eh]|].
    all: ssimpl; simpl aget; cbv iota.
    all: assert (Ez : negb (beq zero32 zero32) = false) by (rewrite beq_refl; reflexivity).
    all: rewrite Ez; simpl unsum; unfold schedule_node.
    all: apply G; ssimpl; auto;
      [intros k r [X|[]]; inversion X; subst; simpl; repeat split; auto; apply RN_root; exact Hne
      |right; right; eexists; split; reflexivity].
  Qed.

  Lemma all_availA s : invE None s -> nreqs s = [] ->
    (forall p h cb, RN p h cb -> availn s h) /\ (forall c, RC c -> availc s c).
  Proof.
    intros I En.
    assert (A : forall p h cb, RN p h cb -> availn s h).
    { intros p h cb R. induction R.
      - destruct (iv_Rt _ _ _ _ _ _ I) as [X|[X|(r & E & _)]]; [contradiction|exact X|].
        rewrite En in E. discriminate.
      - exact (iv_C _ _ _ _ _ _ I _ _ _ _ _ _ R IHR H0 H1 H2 _ _ H3).
      - pose proof (iv_C _ _ _ _ _ _ I _ _ _ _ _ _ R IHR H0 H1 H2 _ _ H3) as K. simpl in K.
        destruct (K eq_refl _ _ H4) as [[X|X] _]; [contradiction|exact X]. }
    split; [exact A|]. intros c R. destruct R.
    pose proof (iv_C _ _ _ _ _ _ I _ _ _ _ _ _ H0 (A _ _ _ H0) H1 H2 H3 _ _ H4) as K. simpl in K.
    destruct (K eq_refl _ _ H5) as [_ [X|X]]; [contradiction|exact X].
  Qed.

  (* COMPLETENESS AND EXACTNESS, hash scheme, with the account callback *)
  Theorem sync_complete_callback ops s' :
    closedA ->
    let s0 := unsum (new_sync H false db0 root cb0) in
    run_wf4 s0 ops ->
    pending (run H s0 ops) = O -> commit (run H s0 ops) = Some s' ->
    (forall p h cb, RN p h cb -> has h (sc_db s') = true) /\
    (forall c, RC c -> has (code_key c) (sc_db s') = true) /\
    (forall k v, get k (sc_db s') = Some v ->
       get k db0 = Some v \/ (RNh H T root cb0 k /\ T k = Some v) \/
       (exists h, k = code_key h /\ RC h /\ CD h = Some v)).
  Proof.
    intros C0 s0 W Hp Ec.
    destruct (InvA_run ops s0 W (InvA_new_sync C0)) as (I & SL & RT & SO).
    assert (En : nreqs (run H s0 ops) = []).
    { unfold pending in Hp. destruct (nreqs (run H s0 ops)); [reflexivity|simpl in Hp; discriminate]. }
    destruct (all_availA _ I En) as [AN AC].
    destruct (inv_commit _ _ I SL RT SO Ec) as (I' & _ & _).
    pose proof (sound_commit H T CD root cb0 db0 agree0 _ _ SO Ec) as SO'.
    assert (MB : mb_nodes s' = [] /\ mb_codes s' = []).
    { unfold commit in Ec. destruct (apply_ops _ _ _); [|discriminate]. inversion Ec; subst. split; reflexivity. }
    destruct MB as [M1 M2].
    split; [|split].
    - intros p h cb R. pose proof (AN p h cb R) as A.
      assert (A' : availn s' h).
      { clear - A Ec I SO. unfold commit in Ec. rewrite (iv_sc _ _ _ _ _ _ I) in Ec.
        destruct (apply_ops false _ _) as [d|] eqn:Ea; [|discriminate]. inversion Ec; subst. left. ssimpl.
        apply (proj1 (write_codes_has2 _ d h)).
        assert (Hnd : forall o p, ~ In (OpDel o p) (rev (mb_nodes (run H s0 ops)))).
        { intros o q Hin. apply in_rev in Hin. exact (so_nodel _ _ _ _ _ _ _ SO o q Hin). }
        destruct (apply_ops_has2 _ _ _ h Ea Hnd) as (B & C & _).
        destruct A as [A|(o & q & b & Hin & _)]; [apply B; exact A|]. apply C. exists o, q, b. apply -> in_rev. exact Hin. }
      destruct A' as [X|(o & q & b & X & _)]; [exact X|rewrite M1 in X; destruct X].
    - intros c R. pose proof (AC c R) as A.
      assert (A' : availc s' c).
      { clear - A Ec I SO. unfold commit in Ec. rewrite (iv_sc _ _ _ _ _ _ I) in Ec.
        destruct (apply_ops false _ _) as [d|] eqn:Ea; [|discriminate]. inversion Ec; subst. left. ssimpl.
        assert (Hnd : forall o p, ~ In (OpDel o p) (rev (mb_nodes (run H s0 ops)))).
        { intros o q Hin. apply in_rev in Hin. exact (so_nodel _ _ _ _ _ _ _ SO o q Hin). }
        destruct A as [A|A].
        - apply (proj1 (write_codes_has2 _ d (code_key c))). apply (proj1 (apply_ops_has2 _ _ _ (code_key c) Ea Hnd)). exact A.
        - apply (proj1 (proj2 (write_codes_has2 _ d (code_key c)))).
          apply has_true in A. destruct A as [v A]. exists c, v. split; [apply get_In; exact A|reflexivity]. }
      destruct A' as [X|X]; [exact X|rewrite M2 in X; discriminate].
    - exact (so_db _ _ _ _ _ _ s' SO').
  Qed.

  (* the four facts about the store after a complete run *)
  Definition final_facts (d : kv) : Prop :=
    (forall p h cb, RN p h cb -> has h d = true) /\
    (forall c, RC c -> has (code_key c) d = true) /\
    (forall k v, get k d = Some v ->
       get k db0 = Some v \/ (RNh H T root cb0 k /\ T k = Some v) \/
       (exists h, k = code_key h /\ RC h /\ CD h = Some v)) /\
    (forall k v, get k db0 = Some v -> get k d = Some v).

  Lemma final_facts_run ops s' :
    closedA ->
    let s0 := unsum (new_sync H false db0 root cb0) in
    run_wf4 s0 ops -> pending (run H s0 ops) = O -> commit (run H s0 ops) = Some s' ->
    final_facts (sc_db s').
  Proof.
    intros C0 s0 W Hp Ec.
    destruct (sync_complete_callback ops s' C0 W Hp Ec) as (A & B & C).
    split; [exact A|split; [exact B|split; [exact C|]]].
    destruct (InvA_run ops s0 W (InvA_new_sync C0)) as (_ & _ & _ & SO).
    exact (so_db0 _ _ _ _ _ _ s' (sound_commit H T CD root cb0 db0 agree0 _ _ SO Ec)).
  Qed.

  Lemma final_facts_sub d1 d2 : final_facts d1 -> final_facts d2 ->
    forall k v, get k d1 = Some v -> get k d2 = Some v.
  Proof.
    intros (A1 & B1 & C1 & Z1) (A2 & B2 & C2 & Z2) k v E.
    destruct (C1 k v E) as [X|[(Rk & Tk)|(h & -> & Rh & Ch)]].
    - apply Z2. exact X.
    - destruct Rk as (p & cb & Rk). pose proof (A2 _ _ _ Rk) as Hh. apply has_true in Hh. destruct Hh as [v2 E2].
      rewrite E2. f_equal.
      destruct (C2 k v2 E2) as [X|[(_ & Tk2)|(h & -> & Rh & _)]].
      + apply (proj1 (agree0 _ _ X)); [exists p, cb; exact Rk|exact Tk].
      + congruence.
      + exfalso. pose proof (Hlen _ _ _ Rk) as L. apply RC_len in Rh. unfold code_key in L. simpl in L. lia.
    - pose proof (B2 _ Rh) as Hh. apply has_true in Hh. destruct Hh as [v2 E2].
      rewrite E2. f_equal.
      destruct (C2 _ v2 E2) as [X|[((p & cb & Rk) & _)|(h' & Eh & Rh' & Ch')]].
      + eapply (proj2 (agree0 _ _ X)); eauto.
      + exfalso. pose proof (Hlen _ _ _ Rk) as L. apply RC_len in Rh. unfold code_key in L. simpl in L. lia.
      + unfold code_key in Eh. inversion Eh; subst h'. congruence.
  Qed.

  (* ORDER IRRELEVANCE: any two histories that reach Pending() = 0 leave the same store *)
  Theorem sync_order_irrelevant ops1 ops2 s1' s2' :
    closedA ->
    let s0 := unsum (new_sync H false db0 root cb0) in
    run_wf4 s0 ops1 -> pending (run H s0 ops1) = O -> commit (run H s0 ops1) = Some s1' ->
    run_wf4 s0 ops2 -> pending (run H s0 ops2) = O -> commit (run H s0 ops2) = Some s2' ->
    forall k, get k (sc_db s1') = get k (sc_db s2').
  Proof.
    intros C0 s0 W1 P1 E1 W2 P2 E2 k.
    pose proof (final_facts_run ops1 s1' C0 W1 P1 E1) as F1.
    pose proof (final_facts_run ops2 s2' C0 W2 P2 E2) as F2.
    destruct (get k (sc_db s1')) as [v1|] eqn:G1.
    - symmetry. exact (final_facts_sub _ _ F1 F2 k v1 G1).
    - destruct (get k (sc_db s2')) as [v2|] eqn:G2; [|reflexivity].
      rewrite (final_facts_sub _ _ F2 F1 k v2 G2) in G1. discriminate.
  Qed.

  Lemma apply_ops_total : forall ops psch d,
    (forall o p b h, In (OpWrite o p b h) ops -> b <> []) -> exists d', apply_ops psch d ops = Some d'.
  Proof.
    induction ops as [|o ops IH]; intros psch d Hn; simpl; [eauto|].
    destruct o as [ow pa|ow pa blob hash]; simpl.
    - apply IH. intros; eapply Hn; right; eauto.
    - destruct blob as [|b0 bl]; [exfalso; eapply (Hn ow pa [] hash); [left; reflexivity|reflexivity]|].
      apply IH. intros; eapply Hn; right; eauto.
  Qed.

  (* Commit never fails on a reachable state (every buffered write has a non-empty blob) *)
  Theorem commit_succeeds ops :
    closedA ->
    let s0 := unsum (new_sync H false db0 root cb0) in
    run_wf4 s0 ops -> exists s', commit (run H s0 ops) = Some s'.
  Proof.
    intros C0 s0 W. destruct (InvA_run ops s0 W (InvA_new_sync C0)) as (I & _).
    unfold commit.
    destruct (apply_ops_total (rev (mb_nodes (run H s0 ops))) (sc_path (run H s0 ops)) (sc_db (run H s0 ops))) as [d Ed].
    - intros o p b h Hin. apply in_rev in Hin. exact (iv_ne _ _ _ _ _ _ I o p b h Hin).
    - rewrite Ed. eauto.
  Qed.
End Callback.

(* ---------- a concrete instance of the hypotheses of sync_complete_callback ---------- *)
From GV Require Import Trie.SyncQueue.

Definition ex_T (h : list N) : option (list N) := find (fun b => beq (toyH b) h) q_src.
Definition ex_CD (_ : list N) : option (list N) := None.

Definition opt_beq (a b : option (list N)) : bool :=
  match a, b with Some x, Some y => beq x y | None, None => true | _, _ => false end.
Lemma opt_beq_eq a b : opt_beq a b = true -> a = b.
Proof. destruct a, b; simpl; intros E; try discriminate; [apply beq_eq in E; subst|]; reflexivity. Qed.

Definition rc_okb (rc : rclass) : bool :=
  match rc with ROk | RNotRequested | RAlreadyProcessed | RDecode => true | _ => false end.

Definition op_wf4b (s : sync) (o : op) : bool :=
  match o with
  | ODeliverNode p h b =>
      match aget p (nreqs s) with Some r => beq h (nr_hash r) | None => true end &&
      (if beq (toyH b) h then opt_beq (ex_T h) (Some b) && rc_okb (snd (process_node toyH s p b)) else true)
  | ODeliverCode h b => negb (beq (toyH b) h)
  | _ => true
  end.
Fixpoint run_wf4b (s : sync) (ops : list op) : bool :=
  match ops with [] => true | o :: r => op_wf4b s o && run_wf4b (step toyH s o) r end.

Lemma run_wf4b_sound : forall ops s, run_wf4b s ops = true -> run_wf4 toyH ex_T ex_CD s ops.
Proof.
  induction ops as [|o r IH]; intros s E; simpl in *; [exact Logic.I|].
  apply andb_prop in E. destruct E as [E1 E2]. split; [|apply IH; exact E2].
  destruct o as [k|p h b|h b|]; simpl in *; auto.
  - apply andb_prop in E1. destruct E1 as [A B]. split.
    + intros r0 Hr. rewrite Hr in A. apply beq_eq in A. split; [exact A|].
      intros Hb. rewrite <- Hb, beq_refl in B. rewrite Hb in B. apply andb_prop in B. destruct B as [B _].
      apply opt_beq_eq. exact B.
    + intros Hb. rewrite <- Hb, beq_refl in B. rewrite Hb in B. apply andb_prop in B. destruct B as [_ B].
      destruct (snd (process_node toyH s p b)); simpl in *; try discriminate; auto.
  - intros Hb. rewrite Hb, beq_refl in E1. discriminate.
Qed.

Definition ex4_s0 : sync := unsum (new_sync toyH false [] q_root CbNone).
Definition ex4_ops : list op :=
  [OMissing 0; ODeliverNode [] q_root [1; 2]; ODeliverNode [] q_root q_root_blob; OMissing 2;
   ODeliverNode [2] (toyH (q_leaf 2)) (q_leaf 2); OCommit; OMissing 0;
   ODeliverNode [1] (toyH (q_leaf 1)) (q_leaf 1); ODeliverNode [1] (toyH (q_leaf 1)) (q_leaf 1);
   ODeliverNode [5] (toyH (q_leaf 3)) (q_leaf 3)].
Definition ex4_check : bool :=
  run_wf4b ex4_s0 ex4_ops && Nat.eqb (pending (run toyH ex4_s0 ex4_ops)) 0
  && match commit (run toyH ex4_s0 ex4_ops) with Some s' => Nat.eqb (length (sc_db s')) 4 | None => false end.

Lemma ex4_RN_enum : forall p h cb, RN toyH ex_T q_root CbNone p h cb ->
  cb = CbNone /\ In h [q_root; toyH (q_leaf 1); toyH (q_leaf 2); toyH (q_leaf 3)].
Proof.
  intros p h cb R. induction R.
  - split; [reflexivity|left; reflexivity].
  - destruct IHR as [-> Hin]. split; [reflexivity|].
    assert (Hb : In b q_src).
    { unfold ex_T in H. apply find_some in H. exact (proj1 H). }
    simpl in Hb. destruct Hb as [<-|[<-|[<-|[<-|[]]]]]; vm_compute in H0; inversion H0; subst n;
      simpl in H1; inversion H1; subst cl; simpl in H2;
      repeat (destruct H2 as [H2|H2]; [inversion H2; subst; simpl; auto 6|]); try contradiction.
  - destruct IHR as [X _]. discriminate.
Qed.

Lemma ex4_hyps :
  (forall p h cb p' cb', RN toyH ex_T q_root CbNone p h cb -> RN toyH ex_T q_root CbNone p' h cb' -> cb = cb') /\
  (forall p h cb, RN toyH ex_T q_root CbNone p h cb -> h <> zero32) /\
  (forall p h cb, RN toyH ex_T q_root CbNone p h cb -> length h = 32%nat) /\
  (forall k v, get k [] = Some v ->
     (forall b, RNh toyH ex_T q_root CbNone k -> ex_T k = Some b -> v = b) /\
     (forall h c, k = code_key h -> RC toyH ex_T q_root CbNone h -> ex_CD h = Some c -> v = c)) /\
  closedA toyH ex_T q_root CbNone [] /\
  run_wf4 toyH ex_T ex_CD ex4_s0 ex4_ops /\
  pending (run toyH ex4_s0 ex4_ops) = O /\
  (exists s', commit (run toyH ex4_s0 ex4_ops) = Some s' /\ length (sc_db s') = 4%nat).
Proof.
  assert (Ck : ex4_check = true) by (vm_compute; reflexivity).
  unfold ex4_check in Ck. apply andb_prop in Ck. destruct Ck as [Ck C3]. apply andb_prop in Ck. destruct Ck as [C1 C2].
  split; [|split; [|split; [|split; [|split; [|split; [|split]]]]]].
  - intros p h cb p' cb' R1 R2. destruct (ex4_RN_enum _ _ _ R1) as [-> _]. destruct (ex4_RN_enum _ _ _ R2) as [-> _]. reflexivity.
  - intros p h cb R E. destruct (ex4_RN_enum _ _ _ R) as [_ Hin]. subst h.
    simpl in Hin. destruct Hin as [X|[X|[X|[X|[]]]]]; vm_compute in X; discriminate X.
  - intros p h cb R. destruct (ex4_RN_enum _ _ _ R) as [_ Hin].
    simpl in Hin. destruct Hin as [<-|[<-|[<-|[<-|[]]]]]; apply toyH_len.
  - intros k v E. discriminate E.
  - intros p h cb b n cl cp cn R Hh. discriminate Hh.
  - apply run_wf4b_sound. exact C1.
  - apply Nat.eqb_eq. exact C2.
  - destruct (commit (run toyH ex4_s0 ex4_ops)) as [s'|]; [|discriminate]. exists s'. split; [reflexivity|].
    apply Nat.eqb_eq. exact C3.
Qed.
