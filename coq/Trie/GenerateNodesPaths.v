(* Trie/GenerateNodesPaths.v — the paths of a canonical node set: all below the
   root path, pairwise different (C11, gen_nodes_path). *)
From Coq Require Import Permutation.
From GV Require Import Lib.Tactics Lib.Bytes Rlp.Codec Trie.Hex Trie.HexProofs Trie.Node Trie.Ops Trie.Hash Trie.OpsProofs Trie.Canon Trie.Stack Trie.Commit Trie.Generate Trie.GenerateNodes Trie.GenerateNodes2.
Local Open Scope N_scope.

Lemma NoDup_app_intro {A} (a b : list A) : NoDup a -> NoDup b -> (forall x, In x a -> ~ In x b) -> NoDup (a ++ b).
Proof.
  induction a as [|x a IH]; intros Ha Hb Hd; [exact Hb|]. inversion Ha; subst. cbn. constructor.
  - intros Hin. apply in_app_or in Hin as [Hin|Hin]; [contradiction|]. apply (Hd x (or_introl eq_refl) Hin).
  - apply IH; [assumption|assumption|]. intros y Hy. apply Hd. right. exact Hy.
Qed.

Section Paths.
  Variable H : list N -> list N.

  Definition pfx (path pa : list N) : Prop := exists s, pa = path ++ s.

  Lemma pfx_app path k pa : pfx (path ++ k) pa -> pfx path pa.
  Proof. intros [s ->]. exists (k ++ s). rewrite app_assoc. reflexivity. Qed.

  Lemma own_path path n x : In x (own H path n) -> fst x = path.
  Proof.
    unfold own. destruct (node_enc H n); [|intros []]. destruct (_ && _); [intros []|]. intros [<-|[]]. reflexivity.
  Qed.

  Lemma own_nodup path n : NoDup (map fst (own H path n)).
  Proof.
    unfold own. destruct (node_enc H n); [|constructor]. destruct (_ && _); [constructor|]. cbn. constructor; [intros []|constructor].
  Qed.

  Lemma go_nodes_in (rec : list N -> node -> ems) path x : forall l i, In x (go_nodes rec path i l) ->
    exists j c, nth_error l j = Some c /\ In x (rec (path ++ [N.of_nat (i + j)]) c).
  Proof.
    induction l as [|c l IH]; intros i Hin; [destruct Hin|]. rewrite go_nodes_cons in Hin.
    apply in_app_or in Hin as [Hin|Hin].
    - exists O, c. rewrite Nat.add_0_r. auto.
    - destruct (IH (S i) Hin) as (j & c' & Ej & Hj). exists (S j), c'. split; [exact Ej|].
      replace (i + S j)%nat with (S i + j)%nat by lia. exact Hj.
  Qed.

  Lemma nodes_pfx : forall n path x, In x (nodes_of H path n) -> pfx path (fst x).
  Proof.
    induction n as [| |k c IH|cs IH|] using node_ind'; intros path x Hin; try solve [destruct Hin].
    - rewrite nodes_of_short in Hin. apply in_app_or in Hin as [Hin|Hin].
      + eapply pfx_app. eapply IH. exact Hin.
      + rewrite (own_path _ _ _ Hin). exists []. rewrite app_nil_r. reflexivity.
    - rewrite nodes_of_full in Hin. apply in_app_or in Hin as [Hin|Hin].
      + destruct (go_nodes_in _ _ _ _ _ Hin) as (j & c & Ej & Hj). rewrite Forall_forall in IH.
        eapply pfx_app. eapply (IH c (nth_error_In _ _ Ej)). exact Hj.
      + rewrite (own_path _ _ _ Hin). exists []. rewrite app_nil_r. reflexivity.
  Qed.

  Lemma pfx_longer path k pa : pfx (path ++ k) pa -> k <> [] -> pa <> path.
  Proof.
    intros [s ->] Hk E. rewrite <- app_assoc in E. rewrite <- (app_nil_r path) in E at 2.
    apply app_inv_head in E. destruct k; [congruence|discriminate].
  Qed.

  (* extension/leaf keys are non-empty all the way down *)
  Inductive kok : node -> Prop :=
  | kok_e : kok NEmpty
  | kok_v v : kok (NValue v)
  | kok_h h : kok (NHash h)
  | kok_s k c : k <> [] -> kok c -> kok (NShort k c)
  | kok_f cs : Forall kok cs -> kok (NFull cs).

  Lemma can_kok : forall n, can n -> kok n.
  Proof.
    induction n as [| |k c IH|cs IH|] using node_ind'; intros Hc; try solve [inversion Hc].
    - destruct (can_short_inv _ _ Hc) as [[Hk [v ->]]|(Hk & Hne & cs & -> & Hcf)].
      + constructor; [destruct k; [destruct Hk|discriminate]|constructor].
      + constructor; [exact Hne|apply IH; exact Hcf].
    - destruct (can_full_inv _ Hc) as (HL & Hch & H16 & _). constructor. rewrite Forall_forall in *. intros c Hin.
      destruct (In_nth_error _ _ Hin) as [i Hi].
      assert (Li : (i < 17)%nat) by (rewrite <- HL; apply nth_error_Some; congruence).
      destruct (Nat.eq_dec i 16) as [->|Ni].
      + destruct (H16 _ Hi) as [->|[v ->]]; constructor.
      + destruct (Hch _ _ Hi ltac:(lia)) as [->|Hcc]; [constructor|apply (IH c Hin Hcc)].
  Qed.

  Lemma nodes_nodup : forall n, kok n -> forall path, NoDup (map fst (nodes_of H path n)).
  Proof.
    induction n as [| |k c IH|cs IH|] using node_ind'; intros Hk path; try solve [constructor].
    - inversion Hk as [| | |? ? Hne Hkc|]; subst. rewrite nodes_of_short, map_app. apply NoDup_app_intro.
      + apply IH. exact Hkc.
      + apply own_nodup.
      + intros pa Ha Hb. apply in_map_iff in Ha as (x & <- & Hx). apply in_map_iff in Hb as (y & Ey & Hy).
        rewrite (own_path _ _ _ Hy) in Ey. apply (pfx_longer path k (fst x)); [eapply nodes_pfx; exact Hx|exact Hne|congruence].
    - inversion Hk as [| | | |? Hks]; subst. rewrite nodes_of_full, map_app. apply NoDup_app_intro.
      + assert (G : forall l i, Forall kok l -> Forall (fun n => kok n -> forall path, NoDup (map fst (nodes_of H path n))) l ->
                  NoDup (map fst (go_nodes (nodes_of H) path i l))).
        { induction l as [|c l IHl]; intros i HK HF; [constructor|]. inversion HK; subst. inversion HF as [|? ? Hc HF']; subst.
          rewrite go_nodes_cons, map_app. apply NoDup_app_intro; [apply Hc; assumption|apply IHl; assumption|].
          intros pa Ha Hb. apply in_map_iff in Ha as (x & <- & Hx). apply in_map_iff in Hb as (y & Ey & Hy).
          destruct (go_nodes_in _ _ _ _ _ Hy) as (j & c' & Ej & Hj).
          destruct (nodes_pfx _ _ _ Hx) as [s1 E1]. destruct (nodes_pfx _ _ _ Hj) as [s2 E2].
          rewrite Ey, E1, <- !app_assoc in E2. apply app_inv_head in E2. cbn [app] in E2.
          assert (E3 : N.of_nat i = N.of_nat (S i + j)) by congruence.
          apply Nat2N.inj in E3. lia. }
        apply G; assumption.
      + apply own_nodup.
      + intros pa Ha Hb. apply in_map_iff in Ha as (x & <- & Hx). apply in_map_iff in Hb as (y & Ey & Hy).
        rewrite (own_path _ _ _ Hy) in Ey. destruct (go_nodes_in _ _ _ _ _ Hx) as (j & c' & Ej & Hj).
        apply (pfx_longer path [N.of_nat (0 + j)] (fst x)); [eapply nodes_pfx; exact Hj|discriminate|congruence].
  Qed.
End Paths.
