(* Trie/WitnessComplete.v — what geth ships as witness (the values of the per-trie
   path-keyed PrevalueTracer maps, gathered into the set Witness.State) holds EVERY
   blob the full run resolved, for every session of trie.New / Get / Update / Delete
   over any number of tries — hence (with Trie/WitnessProofs.v) re-running over
   MakeHashDB of the shipped witness reproduces the run.

   The one thing that could lose a blob is PrevalueTracer.Put(path, blob) overwriting
   an earlier, different blob at the same path of the same trie.  A path-scheme reader
   answers BY PATH (reader.Node(owner, path, hash) returns the blob stored at
   owner/path and only then compares its hash), so all blobs resolved at one path of one
   trie are equal: [by_path], proved for the path-scheme readers over ARBITRARY stores
   (no reachability or well-formedness of the store is needed).  A hash-scheme full
   node that holds the same nodes under their hashes makes the same run (simulation
   lemma of Trie/WitnessProofs.v), so the statement transfers. *)
From GV Require Import Lib.Tactics Lib.Bytes Trie.Hex Trie.Node Trie.Ops Trie.Hash Trie.Commit Trie.CommitProofs Trie.Witness Trie.WitnessProofs.
Local Open Scope N_scope.

(* ------------------------------------------------------------------ *)
(* the pre-value map keeps every blob when blobs are a function of path *)
(* ------------------------------------------------------------------ *)
Section PvMap.
  Variable B : list N -> list N -> Prop.
  Hypothesis B_fun : forall p x y, B p x -> B p y -> x = y.

  Lemma trace_ev_pv_other e tr : match e with TRes _ _ => False | _ => True end ->
    tr_pv (trace_ev tr e) = tr_pv tr.
  Proof.
    destruct e as [q|q|q x]; cbn; intro X; [| |destruct X].
    - unfold on_insert. destruct (am_has q (tr_del tr)); reflexivity.
    - unfold on_delete. destruct (am_has q (tr_ins tr)); reflexivity.
  Qed.

  Lemma trace_evs_keeps : forall ev tr p b,
    (forall q x, In (TRes q x) ev -> B q x) ->
    (am_get p (tr_pv tr) = Some b /\ B p b) \/ In (TRes p b) ev ->
    am_get p (tr_pv (trace_evs tr ev)) = Some b.
  Proof.
    induction ev as [|e ev IH]; intros tr p b HB X; cbn.
    - destruct X as [[G _]|[]]. exact G.
    - apply IH; [intros q x I; apply HB; right; exact I|].
      destruct X as [[G Bb]|[E|I]].
      + left. split; [|exact Bb].
        destruct e as [q|q|q x]; try (rewrite trace_ev_pv_other; [exact G|exact I]).
        cbn. rewrite am_get_put. destruct (bytes_eqb p q) eqn:K; [|exact G].
        apply beqb_eq in K. subst q. f_equal. apply (B_fun p); [apply HB; left; reflexivity|exact Bb].
      + subst e. left. split; [|apply HB; left; reflexivity].
        cbn. apply am_get_put_same.
      + right. exact I.
  Qed.
End PvMap.

(* ------------------------------------------------------------------ *)
(* events of a session come from the readers; session ids are in range  *)
(* ------------------------------------------------------------------ *)
Section FromReaders.
  Variable H : list N -> list N.
  Variable rs : nat -> resolver.

  Definition sev_ok (e : sev) : Prop :=
    match snd e with TRes p b => exists h n, rs (fst e) h p = Some (n, b) | _ => True end.

  Lemma tag_evs_ok i ev : evs_ok (rs i) ev -> Forall sev_ok (tag_evs i ev).
  Proof.
    unfold tag_evs, evs_ok. intro X. apply Forall_map. eapply Forall_impl; [|exact X].
    intros e Y. unfold sev_ok. cbn. destruct e; exact Y.
  Qed.

  Lemma update_evs_ok r root key value n ev : update r root key value = TOk (n, ev) -> evs_ok r ev.
  Proof.
    unfold update. destruct value as [|v0 vr]; intro E.
    - destruct (delete r (ops_fuel (keybytes_to_hex key)) root [] (keybytes_to_hex key))
        as [[[d0 n0] ev0]|e] eqn:G; [|discriminate].
      inversion E; subst. eapply delete_evs_ok; exact G.
    - destruct (insert r (ops_fuel (keybytes_to_hex key)) root [] (keybytes_to_hex key) (NValue (v0 :: vr)))
        as [[[d0 n0] ev0]|e] eqn:G; [|discriminate].
      inversion E; subst. eapply insert_evs_ok; exact G.
  Qed.

  Lemma set_nth_length {A} : forall i (v : A) l l', set_nth i v l = Some l' -> length l' = length l.
  Proof.
    induction i as [|i IH]; intros v [|x l] l' E; cbn in E; try discriminate.
    - inversion E; reflexivity.
    - destruct (set_nth i v l) as [r|] eqn:G; [|discriminate]. inversion E; subst. cbn. f_equal. eapply IH; exact G.
  Qed.

  Definition ids_below (n : nat) (ev : list sev) : Prop := Forall (fun e => (fst e < n)%nat) ev.

  Lemma ids_below_tag i n ev : (i < n)%nat -> ids_below n (tag_evs i ev).
  Proof. intro L. unfold ids_below, tag_evs. apply Forall_map. apply Forall_forall. intros e _. exact L. Qed.

  Lemma step_facts st op v st' ev :
    step H rs st op = TOk (v, st', ev) ->
    Forall sev_ok ev /\ (length st <= length st')%nat /\ ids_below (length st') ev.
  Proof.
    destruct op as [root|i key|i key value|i key]; cbn [step]; intro E.
    - destruct (is_empty_root H root).
      + inversion E; subst. rewrite app_length. cbn. repeat split; [constructor|lia|constructor].
      + destruct (rs (length st) root []) as [[n blob]|] eqn:R; [|discriminate].
        inversion E; subst. rewrite app_length. cbn. repeat split; [|lia|].
        * constructor; [|constructor]. unfold sev_ok. cbn. exists root, n. exact R.
        * constructor; [cbn; lia|constructor].
    - destruct (nth_error st i) as [root|] eqn:Ni; [|discriminate].
      assert (Li : (i < length st)%nat) by (apply nth_error_Some; congruence).
      destruct (trie_get (rs i) root key) as [[[[v0 n0] d0] ev0]|e] eqn:G; [|discriminate].
      destruct (set_nth i (if d0 then n0 else root) st) as [st1|] eqn:Sn; [|discriminate].
      inversion E; subst. apply set_nth_length in Sn. rewrite Sn.
      repeat split; [|lia|apply ids_below_tag; exact Li].
      apply tag_evs_ok. unfold trie_get in G. eapply get_evs_ok; exact G.
    - destruct (nth_error st i) as [root|] eqn:Ni; [|discriminate].
      assert (Li : (i < length st)%nat) by (apply nth_error_Some; congruence).
      destruct (update (rs i) root key value) as [[n0 ev0]|e] eqn:G; [|discriminate].
      destruct (set_nth i n0 st) as [st1|] eqn:Sn; [|discriminate].
      inversion E; subst. apply set_nth_length in Sn. rewrite Sn.
      repeat split; [|lia|apply ids_below_tag; exact Li].
      apply tag_evs_ok. eapply update_evs_ok; exact G.
    - destruct (nth_error st i) as [root|] eqn:Ni; [|discriminate].
      assert (Li : (i < length st)%nat) by (apply nth_error_Some; congruence).
      destruct (update (rs i) root key []) as [[n0 ev0]|e] eqn:G; [|discriminate].
      destruct (set_nth i n0 st) as [st1|] eqn:Sn; [|discriminate].
      inversion E; subst. apply set_nth_length in Sn. rewrite Sn.
      repeat split; [|lia|apply ids_below_tag; exact Li].
      apply tag_evs_ok. eapply update_evs_ok; exact G.
  Qed.

  Lemma run_facts : forall ops st vs st' evs,
    run H rs st ops = TOk (vs, st', evs) ->
    Forall sev_ok evs /\ (length st <= length st')%nat /\ ids_below (length st') evs.
  Proof.
    induction ops as [|op r IH]; intros st vs st' evs E; cbn [run] in E.
    - inversion E; subst. repeat split; [constructor|lia|constructor].
    - destruct (step H rs st op) as [[[v0 st0] ev0]|e] eqn:S1; [|discriminate].
      destruct (run H rs st0 r) as [[[vs1 st1] ev1]|e] eqn:R1; [|discriminate].
      inversion E; subst.
      destruct (step_facts _ _ _ _ _ S1) as (A0 & L0 & I0).
      destruct (IH _ _ _ _ R1) as (A1 & L1 & I1).
      repeat split; [apply Forall_app; split; assumption|lia|].
      unfold ids_below in *. apply Forall_app. split; [|exact I1].
      eapply Forall_impl; [|exact I0]. cbn. intros e X. lia.
  Qed.
End FromReaders.

(* ------------------------------------------------------------------ *)
(* completeness of the shipped witness                                  *)
(* ------------------------------------------------------------------ *)
Section Complete.
  Variable H : list N -> list N.
  Variable rs : nat -> resolver.

  (* the reader of every trie answers by path: whatever hash is asked for at a
     path, the blob returned there is the same *)
  Definition by_path : Prop :=
    forall i h h' p n n' b b', rs i h p = Some (n, b) -> rs i h' p = Some (n', b') -> b = b'.
  Hypothesis Hbp : by_path.

  Lemma evs_of_in i evs e : In (i, e) evs -> In e (evs_of i evs).
  Proof.
    unfold evs_of. induction evs as [|[j x] r IH]; cbn; [tauto|]. intros [E|I].
    - inversion E; subst. rewrite Nat.eqb_refl. left. reflexivity.
    - apply in_or_app. right. apply IH. exact I.
  Qed.

  Lemma evs_of_from i evs e : In e (evs_of i evs) -> In (i, e) evs.
  Proof.
    unfold evs_of. induction evs as [|[j x] r IH]; cbn; [tauto|]. intro I.
    destruct (Nat.eqb_spec j i) as [->|Ne]; cbn in I.
    - destruct I as [->|I]; [left; reflexivity|right; apply IH; exact I].
    - right. apply IH. exact I.
  Qed.

  Lemma add_state_has : forall blobs w b,
    In b blobs \/ am_has b w = true -> am_has b (add_state blobs w) = true.
  Proof.
    induction blobs as [|x r IH]; intros w b X; cbn.
    - destruct X as [[]|X]. exact X.
    - apply IH. destruct X as [[->|I]|X].
      + right. unfold am_has. rewrite am_get_put_same. reflexivity.
      + left. exact I.
      + right. unfold am_has in *. rewrite am_get_put. destruct (bytes_eqb b x); [reflexivity|exact X].
  Qed.

  Lemma collect_has : forall n evs i b, (i < n)%nat -> In b (trie_witness i evs) ->
    am_has b (collect n evs) = true.
  Proof.
    induction n as [|n IH]; intros evs i b L I; [lia|]. cbn [collect]. apply add_state_has.
    destruct (Nat.eq_dec i n) as [->|Ne]; [left; exact I|right; apply (IH evs i); [lia|exact I]].
  Qed.

  Lemma resolved_in_trie_witness evs i p b :
    Forall (sev_ok rs) evs -> In (i, TRes p b) evs -> In b (trie_witness i evs).
  Proof.
    intros A I. unfold trie_witness.
    assert (G : am_get p (tr_pv (trace_evs tr_empty (evs_of i evs))) = Some b).
    { apply (trace_evs_keeps (fun q x => exists h n, rs i h q = Some (n, x))).
      - intros q x y (h & n & R) (h' & n' & R'). eapply Hbp; [exact R|exact R'].
      - intros q x Iq. apply evs_of_from in Iq. rewrite Forall_forall in A. exact (A _ Iq).
      - right. apply evs_of_in. exact I. }
    apply am_get_in in G. apply in_map_iff. exists (p, b). split; [reflexivity|exact G].
  Qed.

  Lemma tracer_complete_holds ops vs st evs :
    run H rs [] ops = TOk (vs, st, evs) -> tracer_complete (length st) evs = true.
  Proof.
    intro E. destruct (run_facts H rs _ _ _ _ _ E) as (A & _ & Ids).
    unfold tracer_complete. apply forallb_forall. intros b Ib.
    unfold ev_blobs in Ib. apply in_flat_map in Ib. destruct Ib as [[i e] [Ie Ib]].
    destruct e as [q|q|p x]; cbn in Ib; try contradiction. destruct Ib as [<-|[]].
    unfold ids_below in Ids. rewrite Forall_forall in Ids. pose proof (Ids _ Ie) as Li. cbn in Li.
    eapply collect_has; [exact Li|]. eapply resolved_in_trie_witness; [exact A|exact Ie].
  Qed.

  (* every blob the run resolved is in the shipped witness *)
  Lemma shipped_witness_complete ops vs st evs :
    run H rs [] ops = TOk (vs, st, evs) ->
    incl (ev_blobs evs) (witness_nodes (collect (length st) evs)).
  Proof. intro E. apply collect_complete. eapply tracer_complete_holds; exact E. Qed.

  (* ... so the re-run over MakeHashDB of the SHIPPED witness reproduces the run *)
  Variable NS : list N -> Prop.
  Hypothesis H_inj : forall a b, NS a -> NS b -> H a = H b -> a = b.
  Hypothesis Hrs : hashed H NS rs.

  Lemma shipped_in_NS ops vs st evs :
    run H rs [] ops = TOk (vs, st, evs) ->
    forall b, In b (witness_nodes (collect (length st) evs)) -> NS b.
  Proof.
    intros E b I. apply collect_resolved in I.
    destruct (run_facts H rs _ _ _ _ _ E) as (A & _ & _). rewrite Forall_forall in A.
    unfold ev_blobs in I. apply in_flat_map in I. destruct I as [[i e] [Ie Ib]].
    destruct e as [q|q|p x]; cbn in Ib; try contradiction. destruct Ib as [<-|[]].
    specialize (A _ Ie). unfold sev_ok in A. cbn in A. destruct A as (h & n & R).
    exact (proj2 (proj2 (Hrs _ _ _ _ _ R))).
  Qed.

  Lemma shipped_witness_reproduces ops vs st evs :
    run H rs [] ops = TOk (vs, st, evs) ->
    run_stateless H (witness_nodes (collect (length st) evs)) ops = TOk (vs, st, evs).
  Proof.
    intro E. apply (witness_sufficient H NS H_inj rs Hrs _ (shipped_in_NS _ _ _ _ E) _ _ _ _ E).
    exact (shipped_witness_complete _ _ _ _ E).
  Qed.
End Complete.

(* ------------------------------------------------------------------ *)
(* path-scheme readers answer by path; hash-scheme nodes make the same run *)
(* ------------------------------------------------------------------ *)
Section Schemes.
  Variable H : list N -> list N.

  Lemma path_readers_by_path (Ss : nat -> store) : by_path (fun i => resolve_of H PathScheme (Ss i)).
  Proof.
    intros i h h' p n n' b b' R R'. unfold resolve_of in R, R'.
    destruct (am_get p (Ss i)) as [blob|]; [|discriminate].
    destruct (bytes_eqb (H blob) h); [|discriminate].
    destruct (bytes_eqb (H blob) h'); [|discriminate].
    destruct (decode_node blob); [|discriminate]. inversion R; inversion R'; subst. reflexivity.
  Qed.

  (* a hash-scheme store that holds, under its hash, every node the path-scheme
     stores serve: the hash-scheme full node makes the identical run *)
  Lemma hash_node_same_run NS (Ss : nat -> store) Sh ops vs st evs :
    hashed H NS (fun i => resolve_of H PathScheme (Ss i)) ->
    (forall i h p n b, resolve_of H PathScheme (Ss i) h p = Some (n, b) -> am_get h Sh = Some b) ->
    run H (fun i => resolve_of H PathScheme (Ss i)) [] ops = TOk (vs, st, evs) ->
    run H (fun _ => resolve_of H HashScheme Sh) [] ops = TOk (vs, st, evs).
  Proof.
    intros Hh Hold E.
    destruct (run_dich H (fun i => resolve_of H PathScheme (Ss i)) (fun _ => resolve_of H HashScheme Sh)
                (fun _ => True)) with (ops := ops) (st := @nil node) (vs := vs) (st' := st) (evs := evs)
      as [[_ R]|[S _]]; try exact E.
    - intros i h p n b R _. pose proof (Hold _ _ _ _ _ R) as G.
      destruct (Hh _ _ _ _ _ R) as (_ & D & _).
      unfold resolve_of at 1. rewrite G, D. reflexivity.
    - intros i h p n b _ X. exfalso. apply X. exact I.
    - intro b. left. exact I.
    - exact R.
    - exfalso. unfold some_out_s in S. apply Exists_exists in S. destruct S as (e & _ & X).
      apply X. destruct (snd e); exact I.
  Qed.
End Schemes.

(* ------------------------------------------------------------------ *)
(* a concrete path-scheme instance (non-vacuity)                        *)
(* ------------------------------------------------------------------ *)
(* the example tries of Trie/WitnessProofs.v, each committed into its own path store *)
Definition ex_pstore0 :=
  Eval vm_compute in match ex_build PathScheme [] ex_accounts with Some p => snd p | None => [] end.
Definition ex_pstore1 :=
  Eval vm_compute in match ex_build PathScheme [] ex_storage with Some p => snd p | None => [] end.
Definition ex_pstores (i : nat) : store := match i with O => ex_pstore0 | _ => ex_pstore1 end.
Definition ex_prs : nat -> resolver := fun i => resolve_of toyH PathScheme (ex_pstores i).
Definition ex_pblobs : list (list N) := map snd ex_pstore0 ++ map snd ex_pstore1.

(* the path-scheme full run succeeds, equals the hash-scheme full run, resolves >= 6
   nodes, and the re-run over the shipped witness is identical *)
Definition ex_pcheck : bool :=
  match run toyH ex_prs [] ex_ops with
  | TErr _ => false
  | TOk r =>
      let shipped := witness_nodes (collect (length (snd (fst r))) (snd r)) in
      Nat.leb 6 (length shipped) &&
      res_eqb (run toyH ex_rs [] ex_ops) (TOk r) &&
      res_eqb (run_stateless toyH shipped ex_ops) (TOk r)
  end.

Lemma ex_phypotheses :
  (forall a b, In a ex_pblobs -> In b ex_pblobs -> toyH a = toyH b -> a = b) /\
  hashed toyH (fun b => In b ex_pblobs) ex_prs /\
  by_path ex_prs /\
  ex_pcheck = true.
Proof.
  split; [apply inj_onb_sound; vm_compute; reflexivity|].
  split; [|split; [apply path_readers_by_path|vm_compute; reflexivity]].
  apply (resolve_of_path_hashed toyH (fun b => In b ex_pblobs) ex_pstores).
  intros i k b G. apply am_get_in in G. unfold ex_pblobs. apply in_or_app.
  destruct i; [left|right]; apply in_map_iff; exists (k, b); (split; [reflexivity|exact G]).
Qed.
