(* Trie/CommitSimDel.v — trie.go delete preserves the representation relation
   (Trie/CommitReads.v): branch collapse with resolution of the remaining child,
   short-node merging, and the growing deletion set. *)
From GV Require Import Lib.Tactics Lib.Bytes Rlp.Codec Trie.Hex Trie.Node Trie.Ops Trie.Hash.
From GV Require Import Trie.OpsProofs Trie.Canon Trie.Proof Trie.ProofProofs.
From GV Require Import Trie.Commit Trie.CommitProofs Trie.CommitTracer Trie.CommitReads Trie.CommitSim.
Local Open Scope N_scope.

Lemma sc_agree : forall cs cs' i,
  length cs = length cs' ->
  (forall j c c', nth_error cs j = Some c -> nth_error cs' j = Some c' -> is_empty c = is_empty c') ->
  single_child_from i cs = single_child_from i cs'.
Proof.
  induction cs as [|c cs IH]; intros [|c' cs'] i L A; try discriminate; [reflexivity|].
  cbn [single_child_from]. rewrite (A 0%nat c c' eq_refl eq_refl).
  rewrite (IH cs' (i + 1)); [reflexivity|cbn in L; lia|].
  intros j d d' X X'. apply (A (Datatypes.S j)); assumption.
Qed.

Definition is_hashb (n : node) : bool := match n with NHash _ => true | _ => false end.
Definition ev_below (p : list N) (ev : list tev) : Prop := forall q, In (TDel q) ev -> ple p q.

Lemma ev_below_app p a b : ev_below p a -> ev_below p b -> ev_below p (a ++ b).
Proof. intros A B q I. apply in_app_or in I. destruct I; [apply A|apply B]; assumption. Qed.
Lemma ev_below_up p r ev : ev_below (p ++ r) ev -> ev_below p ev.
Proof. intros A q I. eapply ple_app_l. apply A. exact I. Qed.
Lemma ev_below_nil p : ev_below p [].
Proof. intros q []. Qed.
Lemma ev_below_res p q b ev : ev_below p ev -> ev_below p (TRes q b :: ev).
Proof. intros A x [X|X]; [discriminate|apply A; exact X]. Qed.
Lemma only_res_nodel ev q : only_res ev -> ~ In (TDel q) ev.
Proof.
  intros O I. unfold only_res in O. rewrite Forall_forall in O. apply O in I. exact I.
Qed.

Lemma rep_is_empty_gen H R dirty (delp : list N -> Prop) f p n G :
  rep H R dirty delp f p n G -> is_empty n = is_empty G.
Proof. destruct 1; try reflexivity. destruct G; try discriminate; reflexivity. Qed.

Lemma single_child_pos cs2 pos k0 :
  single_child cs2 = Some (Some pos) -> nth_error cs2 (N.to_nat k0) = Some NEmpty ->
  exists rem, nth_error cs2 (N.to_nat pos) = Some rem /\ rem <> NEmpty /\ pos <> k0 /\
              forall j c, nth_error cs2 j = Some c -> j <> N.to_nat pos -> c = NEmpty.
Proof.
  unfold single_child. intros SC K. pose proof (single_child_from_spec cs2 0) as X. rewrite SC in X.
  destruct X as (_ & j & c & -> & Ej & Ne & Oth). rewrite N.add_0_l, Nat2N.id.
  exists c. split; [exact Ej|]. split; [exact Ne|]. split; [|exact Oth].
  intros <-. rewrite Nat2N.id in K. congruence.
Qed.

Lemma wfn_short_key k c : wfn (NShort k c) -> k <> [].
Proof. intro W. inversion W; subst; [apply valid_key_nonempty; assumption|assumption]. Qed.

Lemma of_nat_to_nat_neq j (k0 : N) : j <> N.to_nat k0 -> N.of_nat j <> k0.
Proof. intros X Y. apply X. subst. rewrite Nat2N.id. reflexivity. Qed.

Section SimDel.
  Variable H : list N -> list N.
  Hypothesis H_len : forall x, length (H x) = 32%nat.
  Variable R : list N -> list N -> option (node * list N).
  Variable dirty dirty' : list N -> bool.
  Variable delp delp' : list N -> Prop.
  Hypothesis D_mono : forall q, dirty' q = false -> dirty q = false.

  Lemma rep_is_empty f p n G : rep H R dirty delp f p n G -> is_empty n = is_empty G.
  Proof. destruct 1; try reflexivity. destruct G; try discriminate; reflexivity. Qed.

  Lemma keep f p n G :
    rep H R dirty delp f p n G -> (forall q, delp' q -> delp q \/ ~ ple p q) ->
    rep H R dirty' delp' f p n G.
  Proof. intros X Y. eapply rep_mono; eassumption. Qed.

  Lemma dirty_ok f p G : dirty' p = true -> clean_ok H R dirty' delp' f p G.
  Proof. intros X Y. congruence. Qed.

  (* the deletion-set growth allowed at a call with path [p], events [ev], result [d] *)
  Definition dp_ok (p : list N) (ev : list tev) (d : bool) : Prop :=
    forall q, delp' q -> delp q \/ In (TDel q) ev \/ ~ ple p q \/ (q = p /\ d = true).

  Definition del_concl (f : bool) (p key : list N) (G : node) (d : bool) (n' : node) (ev : list tev) : Prop :=
    exists G', rep H R dirty' delp' f p n' G' /\
               (d = false -> G' = G /\ only_res ev) /\
               (d = true -> is_hashb n' = false) /\
               ev_below p ev /\
               (forall fu', (length key < fu')%nat -> exists ev', delete R fu' G p key = TOk (d, G', ev') /\ nores ev' = nores ev).

  Lemma dp_keep f p n G ev :
    rep H R dirty delp f p n G -> dp_ok p ev false -> only_res ev -> rep H R dirty' delp' f p n G.
  Proof.
    intros Rp DP O. apply keep; [exact Rp|]. intros q Dq.
    destruct (DP q Dq) as [X|[X|[X|[_ X]]]]; [left; exact X| |right; exact X|discriminate].
    exfalso. eapply only_res_nodel; eassumption.
  Qed.

  Lemma delete_rep : forall fu n p key d n' ev f G,
    delete R fu n p key = TOk (d, n', ev) ->
    rep H R dirty delp f p n G -> wfpos G key ->
    dp_ok p ev d ->
    (d = true -> forall q, ple q (p ++ key) -> dirty' q = true) ->
    del_concl f p key G d n' ev.
  Proof.
    induction fu as [|fu IH]; intros n p key d n' ev f G E Rp Wp DP Dk; [discriminate|].
    inversion Rp as [f0 p0|f0 p0 v0|f0 p0 h G0 e SF W EN Hh HB C U|f0 p0 nk c c' Rc CO|f0 p0 cs cs' HL Rcs CO]; subst.
    - (* nil *)
      cbn in E. inversion E; subst. exists NEmpty. split; [constructor|]. split; [intros _; split; [reflexivity|constructor]|].
      split; [discriminate|]. split; [apply ev_below_nil|].
      intros [|fu'] L; [lia|]. eexists. split; reflexivity.
    - (* value *)
      cbn in E. inversion E; subst. exists NEmpty. split; [constructor|]. split; [discriminate|].
      split; [reflexivity|]. split; [apply ev_below_nil|].
      intros [|fu'] L; [lia|]. eexists. split; reflexivity.
    - (* hash node *)
      destruct (proj1 C p G (gsub_here H f p G e SF EN HB)) as (e' & E' & RS).
      rewrite EN in E'. inversion E'; subst e'.
      cbn [delete] in E. rewrite RS in E.
      destruct (delete R fu (collapse H G) p key) as [[[d1 n1] ev1]|er] eqn:DE; [|discriminate].
      pose proof (rep_collapse H H_len R dirty delp G W f p C U) as RC.
      assert (DP1 : dp_ok p ev1 d1).
      { intros q Dq. destruct d1; inversion E; subst;
          (destruct (DP q Dq) as [X|[X|[X|X]]]; [left; exact X| |right; right; left; exact X|right; right; right; exact X]);
          destruct X as [X|X]; try discriminate; right; left; exact X. }
      destruct d1; inversion E; subst.
      + destruct (IH _ _ _ _ _ _ _ _ DE RC Wp DP1 Dk) as (G' & X1 & X2 & X3 & X4 & X5).
        exists G'. split; [exact X1|]. split; [discriminate|]. split; [exact X3|].
        split; [apply ev_below_res; exact X4|exact X5].
      + destruct (IH _ _ _ _ _ _ _ _ DE RC Wp DP1) as (G' & X1 & X2 & X3 & X4 & X5); [discriminate|].
        destruct (X2 eq_refl) as [-> OR].
        exists G. split.
        * eapply dp_keep; [exact RC|exact DP|]. constructor; [exact I|exact OR].
        * split; [intros _; split; [reflexivity|constructor; [exact I|exact OR]]|].
          split; [discriminate|]. split; [apply ev_below_res; exact X4|exact X5].
    - (* short node *)
      destruct Wp as [[-> VS]|[Vk Wn]]; [destruct VS as [X|[v0 X]]; discriminate|].
      cbn [delete] in E.
      destruct (prefix_len_split key nk) as (pp & a' & b' & Ek & En & Em & Dab).
      assert (GU : forall fu'', delete R (Datatypes.S fu'') (NShort nk c') p key = _) by (intro; cbn [delete]; reflexivity).
      destruct (Nat.ltb (prefix_len key nk) (length nk)) eqn:LT.
      { (* mismatch: nothing changes *)
        inversion E; subst d n' ev.
        exists (NShort nk c'). split; [eapply dp_keep; [exact Rp|exact DP|constructor]|].
        split; [intros _; split; [reflexivity|constructor]|]. split; [discriminate|]. split; [apply ev_below_nil|].
        intros [|fu'] L; [lia|]. rewrite GU. eexists. split; reflexivity. }
      destruct (Nat.eqb (prefix_len key nk) (length key)) eqn:EQ.
      { (* the whole key matches: the leaf goes away *)
        inversion E; subst d n' ev.
        exists NEmpty. split; [constructor|]. split; [discriminate|]. split; [reflexivity|].
        split; [intros q [X|[]]; inversion X; apply ple_refl|].
        intros [|fu'] L; [lia|]. rewrite GU. eexists. split; reflexivity. }
      apply Nat.ltb_ge in LT. apply Nat.eqb_neq in EQ. rewrite Em in *.
      assert (b' = []).
      { destruct b' as [|x b']; [reflexivity|]. rewrite En, app_length in LT. cbn in LT. lia. }
      subst b'. rewrite app_nil_r in En. subst pp.
      assert (AN : a' <> []) by (intros ->; rewrite Ek, app_nil_r in EQ; congruence).
      rewrite Ek, firstn_app_exact, skipn_app_exact in E.
      rewrite Ek in Vk. destruct (wfn_short_child nk c' a' Wn Vk) as (Wc & KN & _).
      destruct (delete R fu c (p ++ nk) a') as [[[d1 n1] ev1]|er] eqn:DE; [|discriminate].
      assert (DP1 : dp_ok (p ++ nk) ev1 d1).
      { intros q Dq. destruct (DP q Dq) as [X|[X|[X|[X Y]]]].
        - left. exact X.
        - destruct d1; [destruct n1|]; inversion E; subst d n' ev; try (right; left; exact X).
          apply in_app_or in X. destruct X as [X|[X|[]]]; [right; left; exact X|].
          inversion X; subst. right. right. right. split; reflexivity.
        - right. right. left. intro Y. apply X. eapply ple_app_l. exact Y.
        - right. right. left. subst q. intro Z. apply ple_self_app in Z. contradiction. }
      assert (Dk1 : d1 = true -> forall q, ple q ((p ++ nk) ++ a') -> dirty' q = true).
      { intros -> q Q. apply Dk; [destruct n1; inversion E; reflexivity|]. rewrite Ek, app_assoc. exact Q. }
      destruct (IH _ _ _ _ _ _ _ _ DE Rc Wc DP1 Dk1) as (G1 & X1 & X2 & X3 & X4 & X5).
      assert (GR : forall fu', (length key < fu')%nat -> exists ev',
                 delete R fu' (NShort nk c') p key =
                 match d1, G1 with
                 | false, _ => TOk (false, NShort nk c', ev')
                 | true, NShort ck cv => TOk (true, NShort (nk ++ ck) cv, ev' ++ [TDel (p ++ nk)])
                 | true, c0 => TOk (true, NShort nk c0, ev')
                 end /\ nores ev' = nores ev1).
      { intros [|fu''] L; [lia|]. rewrite GU.
        destruct (X5 fu'') as (ev' & DE' & NE).
        { rewrite Ek, app_length in L. destruct nk; [congruence|cbn in L; lia]. }
        rewrite Ek, firstn_app_exact, skipn_app_exact.
        rewrite DE'. exists ev'. split; [destruct d1; [destruct G1|]; reflexivity|exact NE]. }
      destruct d1.
      + pose proof (X3 eq_refl) as NH.
        assert (SH : (exists ck cv cv', n1 = NShort ck cv /\ G1 = NShort ck cv' /\
                        rep H R dirty' delp' false ((p ++ nk) ++ ck) cv cv') \/
                     ((forall ck cv, n1 <> NShort ck cv) /\ (forall ck cv, G1 <> NShort ck cv))).
        { inversion X1; subst; try discriminate;
            try (right; split; intros; discriminate).
          left. eauto 8. }
        destruct SH as [(ck & cv & cv' & -> & -> & Rcv)|[N1 N2]].
        * inversion E; subst d n' ev.
          exists (NShort (nk ++ ck) cv'). split.
          { apply rep_short; [rewrite app_assoc; exact Rcv|]. apply dirty_ok. apply Dk; [reflexivity|apply ple_app]. }
          split; [discriminate|]. split; [reflexivity|]. split.
          { apply ev_below_app; [eapply ev_below_up; exact X4|]. intros q [X|[]]. inversion X. apply ple_app. }
          intros fu' L. destruct (GR fu' L) as (ev' & X & NE). eexists. split; [exact X|]. rewrite !nores_app, NE. reflexivity.
        * assert (E' : TOk (true, NShort nk n1, ev1) = TOk (d, n', ev)) by (destruct n1; try exact E; exfalso; eapply N1; reflexivity).
          inversion E'; subst d n' ev.
          exists (NShort nk G1). split.
          { apply rep_short; [exact X1|]. apply dirty_ok. apply Dk; [reflexivity|apply ple_app]. }
          split; [discriminate|]. split; [reflexivity|]. split; [eapply ev_below_up; exact X4|].
          intros fu' L. destruct (GR fu' L) as (ev' & X & NE). exists ev'. split; [|exact NE]. rewrite X.
          destruct G1; try reflexivity. exfalso. eapply N2. reflexivity.
      + inversion E; subst d n' ev. destruct (X2 eq_refl) as [-> OR].
        exists (NShort nk c'). split; [eapply dp_keep; [exact Rp|exact DP|exact OR]|].
        split; [intros _; split; [reflexivity|exact OR]|]. split; [discriminate|].
        split; [eapply ev_below_up; exact X4|exact GR].
    - (* full node *)
      destruct Wp as [[-> VS]|[Vk Wn]]; [destruct VS as [X|[v0 X]]; discriminate|].
      destruct key as [|k0 kr]; [inversion Vk|].
      destruct (wfn_full_child cs' k0 kr Wn Vk) as (c' & Ec' & Wc).
      cbn [delete] in E. unfold child in E.
      destruct (nth_error cs (N.to_nat k0)) as [c|] eqn:Ec; [|discriminate].
      pose proof (Rcs _ _ _ Ec Ec') as Rc. rewrite N2Nat.id in Rc.
      destruct (delete R fu c (p ++ [k0]) kr) as [[[d1 n1] ev1]|er] eqn:DE; [|discriminate].
      assert (IHc : dp_ok (p ++ [k0]) ev1 d1 -> (d1 = true -> d = true) ->
                    del_concl false (p ++ [k0]) kr c' d1 n1 ev1).
      { intros DP1 DD. eapply IH; [exact DE|exact Rc|exact Wc|exact DP1|].
        intros D1 q Q. apply Dk; [apply DD; exact D1|]. rewrite <- app_assoc in Q. exact Q. }
      (* deletion-set growth seen from the child and from the siblings *)
      assert (DPC : forall ev2, ev = ev1 ++ ev2 ->
                (forall q, In (TDel q) ev2 -> exists pos, q = p ++ [pos] /\ pos <> k0) ->
                dp_ok (p ++ [k0]) ev1 d1).
      { intros ev2 -> O q Dq. destruct (DP q Dq) as [X|[X|[X|[X Y]]]].
        - left. exact X.
        - apply in_app_or in X. destruct X as [X|X]; [right; left; exact X|].
          destruct (O q X) as (pos & -> & NP). right. right. left.
          intro Z. eapply (ple_sibling p k0 pos); [congruence|exact Z|apply ple_refl].
        - right. right. left. intro Z. apply X. eapply ple_app_l. exact Z.
        - right. right. left. subst q. intro Z. apply ple_self_app in Z. discriminate. }
      assert (SIB : forall ev2 j, ev = ev1 ++ ev2 -> ev_below (p ++ [k0]) ev1 ->
                (forall q, In (TDel q) ev2 -> exists pos, q = p ++ [pos] /\ pos <> N.of_nat j) ->
                j <> N.to_nat k0 ->
                forall q, delp' q -> delp q \/ ~ ple (p ++ [N.of_nat j]) q).
      { intros ev2 j -> B O J q Dq. destruct (DP q Dq) as [X|[X|[X|[X Y]]]].
        - left. exact X.
        - right. apply in_app_or in X. destruct X as [X|X].
          + intro Z. eapply (ple_sibling p (N.of_nat j) k0); [apply of_nat_to_nat_neq; exact J|exact Z|apply B; exact X].
          + destruct (O q X) as (pos & -> & NP). intro Z.
            eapply (ple_sibling p (N.of_nat j) pos); [congruence|exact Z|apply ple_refl].
        - right. intro Z. apply X. eapply ple_app_l. exact Z.
        - right. subst q. intro Z. apply ple_self_app in Z. discriminate. }
      destruct d1.
      2: { (* the child did not change *)
        inversion E; subst d n' ev.
        destruct IHc as (G1 & X1 & X2 & X3 & X4 & X5).
        { apply (DPC []); [rewrite app_nil_r; reflexivity|intros q []]. }
        { discriminate. }
        destruct (X2 eq_refl) as [-> OR].
        exists (NFull cs'). split; [eapply dp_keep; [exact Rp|exact DP|exact OR]|].
        split; [intros _; split; [reflexivity|exact OR]|]. split; [discriminate|].
        split; [eapply ev_below_up; exact X4|].
        intros [|fu''] L; [lia|]. destruct (X5 fu'') as (ev' & DE' & NE); [cbn in L; lia|].
        cbn [delete]. unfold child. rewrite Ec', DE'. exists ev'. split; [reflexivity|exact NE]. }
      unfold set_child in E.
      destruct (set_nth (N.to_nat k0) n1 cs) as [cs2|] eqn:SN; [|discriminate].
      destruct (set_nth_spec _ _ _ _ SN) as [L2 N2].
      assert (DT : d = true).
      { clear -E. repeat (dmatch E; try discriminate); inversion E; reflexivity. }
      subst d.
      (* the result when the branch node survives *)
      assert (FULLRES : forall G1 cs2', ev = ev1 ->
                rep H R dirty' delp' false (p ++ [k0]) n1 G1 -> ev_below (p ++ [k0]) ev1 ->
                set_nth (N.to_nat k0) G1 cs' = Some cs2' ->
                rep H R dirty' delp' f p (NFull cs2) (NFull cs2')).
      { intros G1 cs2' -> X1 X4 SN'. destruct (set_nth_spec _ _ _ _ SN') as [L2' N2'].
        apply rep_full; [lia| |apply dirty_ok; apply Dk; [reflexivity|apply ple_app]].
        intros i x x' E1 E2. rewrite N2 in E1. rewrite N2' in E2.
        destruct (Nat.eqb i (N.to_nat k0)) eqn:IK.
        - apply Nat.eqb_eq in IK. subst i. inversion E1; inversion E2; subst. rewrite N2Nat.id. exact X1.
        - apply Nat.eqb_neq in IK. apply keep; [apply Rcs; assumption|].
          apply (SIB [] i); [rewrite app_nil_r; reflexivity|exact X4|intros q []|exact IK]. }
      assert (IHc2 : forall ev2, ev = ev1 ++ ev2 ->
                (forall q, In (TDel q) ev2 -> exists pos, q = p ++ [pos] /\ pos <> k0) ->
                del_concl false (p ++ [k0]) kr c' true n1 ev1).
      { intros ev2 EE O. apply IHc; [eapply DPC; eassumption|reflexivity]. }
      assert (EB : forall ev2, ev_below (p ++ [k0]) ev1 ->
                (forall q, In (TDel q) ev2 -> exists pos, q = p ++ [pos]) -> ev_below p (ev1 ++ ev2)).
      { intros ev2 B O. apply ev_below_app; [eapply ev_below_up; exact B|].
        intros q Iq. destruct (O q Iq) as (pos & ->). apply ple_app. }
      (* the ground branch after the child's deletion *)
      assert (GSET : forall G1, exists cs2', set_nth (N.to_nat k0) G1 cs' = Some cs2').
      { intro G1. apply set_nth_some. apply nth_error_Some. congruence. }
      destruct (negb (is_empty n1)) eqn:NE.
      { (* the child is still there *)
        inversion E; subst n' ev.
        destruct (IHc2 [] (eq_sym (app_nil_r ev1))) as (G1 & X1 & X2 & X3 & X4 & X5); [intros q []|].
        destruct (GSET G1) as [cs2' SN'].
        exists (NFull cs2'). split; [eapply FULLRES; [reflexivity|exact X1|exact X4|exact SN']|].
        split; [discriminate|]. split; [reflexivity|]. split; [eapply ev_below_up; exact X4|].
        intros [|fu''] L; [lia|]. destruct (X5 fu'') as (ev' & DE' & NEV); [cbn in L; lia|].
        cbn [delete]. unfold child. rewrite Ec', DE'. unfold set_child. rewrite SN'.
        rewrite <- (rep_is_empty_gen _ _ _ _ _ _ _ _ X1), NE. exists ev'. split; [reflexivity|exact NEV]. }
      apply negb_false_iff in NE. assert (n1 = NEmpty) by (destruct n1; try discriminate; reflexivity). subst n1.
      assert (K2 : nth_error cs2 (N.to_nat k0) = Some NEmpty) by (rewrite N2, Nat.eqb_refl; reflexivity).
      destruct (GSET NEmpty) as [cs2' SN']. destruct (set_nth_spec _ _ _ _ SN') as [L2' N2'].
      assert (SCA : single_child cs2' = single_child cs2).
      { unfold single_child. symmetry. apply sc_agree; [lia|].
        intros j x x' E1 E2. rewrite N2 in E1. rewrite N2' in E2.
        destruct (Nat.eqb j (N.to_nat k0)); [inversion E1; inversion E2; reflexivity|].
        eapply rep_is_empty_gen. apply Rcs; eassumption. }
      assert (G1E : forall G1, rep H R dirty' delp' false (p ++ [k0]) NEmpty G1 -> G1 = NEmpty).
      { intros G1 X. inversion X; reflexivity. }
      destruct (single_child cs2) as [[pos|]|] eqn:SC.
      2: { inversion E; subst n' ev.
        destruct (IHc2 [] (eq_sym (app_nil_r ev1))) as (G1 & X1 & X2 & X3 & X4 & X5); [intros q []|].
        pose proof (G1E _ X1); subst G1.
        exists (NFull cs2'). split; [eapply FULLRES; [reflexivity|exact X1|exact X4|exact SN']|].
        split; [discriminate|]. split; [reflexivity|]. split; [eapply ev_below_up; exact X4|].
        intros [|fu''] L; [lia|]. destruct (X5 fu'') as (ev' & DE' & NEV); [cbn in L; lia|].
        cbn [delete]. unfold child. rewrite Ec', DE'. unfold set_child. rewrite SN'. cbn [is_empty negb].
        rewrite SCA. exists ev'. split; [reflexivity|exact NEV]. }
      2: { inversion E; subst n' ev.
        destruct (IHc2 [] (eq_sym (app_nil_r ev1))) as (G1 & X1 & X2 & X3 & X4 & X5); [intros q []|].
        pose proof (G1E _ X1); subst G1.
        exists (NFull cs2'). split; [eapply FULLRES; [reflexivity|exact X1|exact X4|exact SN']|].
        split; [discriminate|]. split; [reflexivity|]. split; [eapply ev_below_up; exact X4|].
        intros [|fu''] L; [lia|]. destruct (X5 fu'') as (ev' & DE' & NEV); [cbn in L; lia|].
        cbn [delete]. unfold child. rewrite Ec', DE'. unfold set_child. rewrite SN'. cbn [is_empty negb].
        rewrite SCA. exists ev'. split; [reflexivity|exact NEV]. }
      (* exactly one entry is left: the branch collapses *)
      destruct (single_child_pos cs2 pos k0 SC K2) as (rem & Er & RN & PK & OTH).
      rewrite Er in E.
      assert (PKn : N.to_nat pos <> N.to_nat k0) by (intro X; apply PK; apply N2Nat.inj; exact X).
      assert (Er0 : nth_error cs (N.to_nat pos) = Some rem).
      { rewrite N2 in Er. apply Nat.eqb_neq in PKn. rewrite PKn in Er. exact Er. }
      assert (Er' : exists rem', nth_error cs' (N.to_nat pos) = Some rem').
      { destruct (nth_error cs' (N.to_nat pos)) eqn:X; [eauto|]. apply nth_error_None in X.
        assert (N.to_nat pos < length cs)%nat by (apply nth_error_Some; congruence). lia. }
      destruct Er' as [rem' Er'].
      assert (Er2' : nth_error cs2' (N.to_nat pos) = Some rem').
      { rewrite N2'. apply Nat.eqb_neq in PKn. rewrite PKn. exact Er'. }
      pose proof (Rcs _ _ _ Er0 Er') as Rr. rewrite N2Nat.id in Rr.
      (* the ground run up to the inspection of the remaining child *)
      assert (GPRE : forall fu', (length (k0 :: kr) < fu')%nat -> forall G1, G1 = NEmpty ->
                (forall fu2, (length kr < fu2)%nat -> exists ev', delete R fu2 c' (p ++ [k0]) kr = TOk (true, G1, ev') /\ nores ev' = nores ev1) ->
                exists ev', nores ev' = nores ev1 /\ delete R fu' (NFull cs') p (k0 :: kr) =
                  (if negb (pos =? 16) then
                     match (match rem' with
                            | NHash h => match R h (p ++ [pos]) with
                                         | Some (rn, blob) => Some (rn, [TRes (p ++ [pos]) blob])
                                         | None => None
                                         end
                            | _ => Some (rem', [])
                            end) with
                     | None => TErr EMissing
                     | Some (NShort ck cv, ev2) => TOk (true, NShort (pos :: ck) cv, ev' ++ ev2 ++ [TDel (p ++ [pos])])
                     | Some (_, ev2) => TOk (true, NShort [pos] rem', ev' ++ ev2)
                     end
                   else TOk (true, NShort [pos] rem', ev'))).
      { intros [|fu''] L G1 -> X5; [lia|]. destruct (X5 fu'') as (ev' & DE' & NEV); [cbn in L; lia|].
        exists ev'. split; [exact NEV|]. cbn [delete]. unfold child. rewrite Ec', DE'. unfold set_child. rewrite SN'. cbn [is_empty negb].
        rewrite SCA. rewrite Er2'. reflexivity. }
      assert (POSJ : forall q ev2, (forall x, In (TDel x) ev2 -> x = p ++ [pos]) -> In (TDel q) ev2 ->
                       exists pos0, q = p ++ [pos0] /\ pos0 <> k0).
      { intros q ev2 O Iq. exists pos. split; [apply O; exact Iq|exact PK]. }
      assert (MRG : forall ev2 ck, ev = ev1 ++ ev2 -> ev_below (p ++ [k0]) ev1 ->
                (forall x, In (TDel x) ev2 -> x = p ++ [pos]) -> ck <> [] ->
                forall q, delp' q -> delp q \/ ~ ple (p ++ pos :: ck) q).
      { intros ev2 ck -> B O CK q Dq.
        assert (PP : forall x, ple (p ++ pos :: ck) x -> ple (p ++ [pos]) x).
        { intros x Z. replace (p ++ pos :: ck) with ((p ++ [pos]) ++ ck) in Z by (rewrite <- app_assoc; reflexivity).
          eapply ple_app_l. exact Z. }
        destruct (DP q Dq) as [X|[X|[X|[X Y]]]].
        - left. exact X.
        - right. apply in_app_or in X. destruct X as [X|X].
          + intro Z. eapply (ple_sibling p pos k0); [exact PK|apply PP; exact Z|apply B; exact X].
          + rewrite (O q X). intro Z.
            replace (p ++ pos :: ck) with ((p ++ [pos]) ++ ck) in Z by (rewrite <- app_assoc; reflexivity).
            apply ple_self_app in Z. contradiction.
        - right. intro Z. apply X. eapply ple_app_l. exact Z.
        - right. subst q. intro Z. apply ple_self_app in Z. discriminate. }
      assert (REM : forall ev2, ev = ev1 ++ ev2 -> ev_below (p ++ [k0]) ev1 ->
                (forall x, In (TDel x) ev2 -> False) ->
                rep H R dirty' delp' false (p ++ [pos]) rem rem').
      { intros ev2 EE B O. apply keep; [exact Rr|]. rewrite <- (N2Nat.id pos).
        apply (SIB ev2 (N.to_nat pos) EE B); [|exact PKn]. intros q Iq. destruct (O q Iq). }
      assert (TOP : dirty' p = true) by (apply Dk; [reflexivity|apply ple_app]).
      destruct (negb (pos =? 16)) eqn:P16.
      2: { (* the value slot is left *)
        inversion E; subst n' ev.
        destruct (IHc2 [] (eq_sym (app_nil_r ev1))) as (G1 & X1 & X2 & X3 & X4 & X5); [intros q []|].
        pose proof (G1E _ X1); subst G1.
        exists (NShort [pos] rem'). split.
        { apply rep_short; [|apply dirty_ok; exact TOP].
          apply (REM []); [rewrite app_nil_r; reflexivity|exact X4|intros x []]. }
        split; [discriminate|]. split; [reflexivity|]. split; [eapply ev_below_up; exact X4|].
        intros fu' L. destruct (GPRE fu' L NEmpty eq_refl X5) as (ev' & NEV & X). eexists. split; [exact X|]. rewrite ?nores_app, NEV. reflexivity. }
      assert (P15 : (N.to_nat pos < 16)%nat).
      { apply negb_true_iff in P16. apply N.eqb_neq in P16.
        assert (N.to_nat pos < length cs')%nat by (apply nth_error_Some; congruence).
        inversion Wn; subst. lia. }
      assert (WR : wfn rem') by (inversion Wn; subst; eauto).
      destruct rem as [|rv|ck cv|l|h].
      + congruence.
      + (* a value in a child slot: kept under a one-nibble short node *)
        inversion Rr; subst. inversion WR.
      + (* the remaining child is a short node: merged *)
        inversion Rr as [| | |f1 p1 k1 c1 cv' Rcv CO1|]; subst.
        inversion E; subst n' ev.
        destruct (IHc2 ([] ++ [TDel (p ++ [pos])]) eq_refl) as (G1 & X1 & X2 & X3 & X4 & X5).
        { intros q Iq. eapply POSJ; [|exact Iq]. intros x [X|[]]. inversion X. reflexivity. }
        pose proof (G1E _ X1); subst G1.
        exists (NShort (pos :: ck) cv'). split.
        { apply rep_short; [|apply dirty_ok; exact TOP].
          apply keep; [rewrite <- app_assoc in Rcv; exact Rcv|].
          apply (MRG ([] ++ [TDel (p ++ [pos])]) ck eq_refl X4).
          - intros x [X|[]]. inversion X. reflexivity.
          - eapply wfn_short_key. exact WR. }
        split; [discriminate|]. split; [reflexivity|]. split.
        { apply EB; [exact X4|]. intros q [X|[]]. inversion X. eauto. }
        intros fu' L. destruct (GPRE fu' L NEmpty eq_refl X5) as (ev' & NEV & X). eexists. split; [exact X|]. rewrite ?nores_app, NEV. reflexivity.
      + (* the remaining child is a full node *)
        inversion Rr as [| | | |f1 p1 l0 l' HL1 Rl CO1]; subst.
        inversion E; subst n' ev.
        destruct (IHc2 [] eq_refl) as (G1 & X1 & X2 & X3 & X4 & X5); [intros q []|].
        pose proof (G1E _ X1); subst G1.
        exists (NShort [pos] (NFull l')). split.
        { apply rep_short; [|apply dirty_ok; exact TOP]. apply (REM [] eq_refl X4). intros x []. }
        split; [discriminate|]. split; [reflexivity|]. split.
        { apply EB; [exact X4|]. intros q []. }
        intros fu' L. destruct (GPRE fu' L NEmpty eq_refl X5) as (ev' & NEV & X). eexists. split; [exact X|]. rewrite ?nores_app, NEV. reflexivity.
      + (* the remaining child is not loaded: resolved for the check *)
        inversion Rr as [| |f1 p1 h1 G2 e2 SF2 W2 EN2 Hh2 HB2 C2 U2| |]; subst.
        destruct (proj1 C2 (p ++ [pos]) rem' (gsub_here H false _ rem' e2 SF2 EN2 HB2)) as (e3 & E3 & RS).
        rewrite EN2 in E3. inversion E3; subst e3. rewrite RS in E.
        pose proof (rep_collapse H H_len R dirty delp rem' W2 false (p ++ [pos]) C2 U2) as RC.
        destruct rem' as [|rv|ck cv0|l0|h0]; try discriminate.
        * cbn [collapse] in E, RC. inversion E; subst n' ev.
          inversion RC as [| | |f1 p1 k1 c1 cv' Rcv CO1|]; subst.
          destruct (IHc2 ([TRes (p ++ [pos]) e2] ++ [TDel (p ++ [pos])]) eq_refl) as (G1 & X1 & X2 & X3 & X4 & X5).
          { intros q Iq. eapply POSJ; [|exact Iq]. intros x [X|[X|[]]]; [discriminate|]. inversion X. reflexivity. }
          pose proof (G1E _ X1); subst G1.
          exists (NShort (pos :: ck) cv0). split.
          { apply rep_short; [|apply dirty_ok; exact TOP].
            apply keep; [rewrite <- app_assoc in Rcv; exact Rcv|].
            apply (MRG ([TRes (p ++ [pos]) e2] ++ [TDel (p ++ [pos])]) ck eq_refl X4).
            - intros x [X|[X|[]]]; [discriminate|]. inversion X. reflexivity.
            - eapply wfn_short_key. exact WR. }
          split; [discriminate|]. split; [reflexivity|]. split.
          { apply EB; [exact X4|]. intros q [X|[X|[]]]; [discriminate|]. inversion X. eauto. }
          intros fu' L. destruct (GPRE fu' L NEmpty eq_refl X5) as (ev' & NEV & X). eexists. split; [exact X|]. rewrite ?nores_app, NEV. reflexivity.
        * cbn [collapse] in E. inversion E; subst n' ev.
          destruct (IHc2 [TRes (p ++ [pos]) e2] eq_refl) as (G1 & X1 & X2 & X3 & X4 & X5).
          { intros q [X|[]]. discriminate. }
          pose proof (G1E _ X1); subst G1.
          exists (NShort [pos] (NFull l0)). split.
          { apply rep_short; [|apply dirty_ok; exact TOP].
            apply (REM [TRes (p ++ [pos]) e2] eq_refl X4). intros x [X|[]]. discriminate. }
          split; [discriminate|]. split; [reflexivity|]. split.
          { apply EB; [exact X4|]. intros q [X|[]]. discriminate. }
          intros fu' L. destruct (GPRE fu' L NEmpty eq_refl X5) as (ev' & NEV & X). eexists. split; [exact X|]. rewrite ?nores_app, NEV. reflexivity.
  Qed.
End SimDel.
