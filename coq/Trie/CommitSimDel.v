(* Trie/CommitSimDel.v — trie.go delete preserves the representation relation
   (Trie/CommitReads.v): branch collapse with resolution of the remaining child,
   short-node merging, and the growing deletion set. *)
From GV Require Import Lib.Tactics Lib.Bytes Rlp.Codec Trie.Hex Trie.Node Trie.Ops Trie.Hash.
From GV Require Import Trie.OpsProofs Trie.Canon Trie.Proof Trie.ProofProofs.
From GV Require Import Trie.Commit Trie.CommitProofs Trie.CommitTracer Trie.CommitReads Trie.CommitSim.
Local Open Scope N_scope.

Lemma sc_agree : forall cs cs' i,
  length cs = length cs' ->
  (forall j c c', nth_error cs j = Some c -> nth_error cs' j = Some c' -> is_empty c = is_empty c') ->
  single_child_from i cs = single_child_from i cs'.
Proof.
  induction cs as [|c cs IH]; intros [|c' cs'] i L A; try discriminate; [reflexivity|].
  cbn [single_child_from]. rewrite (A 0%nat c c' eq_refl eq_refl).
  rewrite (IH cs' (i + 1)); [reflexivity|cbn in L; lia|].
  intros j d d' X X'. apply (A (Datatypes.S j)); assumption.
Qed.

Definition is_hashb (n : node) : bool := match n with NHash _ => true | _ => false end.
Definition ev_below (p : list N) (ev : list tev) : Prop := forall q, In (TDel q) ev -> ple p q.

Lemma ev_below_app p a b : ev_below p a -> ev_below p b -> ev_below p (a ++ b).
Proof. intros A B q I. apply in_app_or in I. destruct I; [apply A|apply B]; assumption. Qed.
Lemma ev_below_up p r ev : ev_below (p ++ r) ev -> ev_below p ev.
Proof. intros A q I. eapply ple_app_l. apply A. exact I. Qed.
Lemma ev_below_nil p : ev_below p [].
Proof. intros q []. Qed.
Lemma ev_below_res p q b ev : ev_below p ev -> ev_below p (TRes q b :: ev).
Proof. intros A x [X|X]; [discriminate|apply A; exact X]. Qed.
Lemma only_res_nodel ev q : only_res ev -> ~ In (TDel q) ev.
Proof.
  intros O I. unfold only_res in O. rewrite Forall_forall in O. apply O in I. exact I.
Qed.

Section SimDel.
  Variable H : list N -> list N.
  Hypothesis H_len : forall x, length (H x) = 32%nat.
  Variable R : list N -> list N -> option (node * list N).
  Variable dirty dirty' : list N -> bool.
  Variable delp delp' : list N -> Prop.
  Hypothesis D_mono : forall q, dirty' q = false -> dirty q = false.

  Lemma rep_is_empty f p n G : rep H R dirty delp f p n G -> is_empty n = is_empty G.
  Proof. destruct 1; try reflexivity. destruct G; try discriminate; reflexivity. Qed.

  Lemma keep f p n G :
    rep H R dirty delp f p n G -> (forall q, delp' q -> delp q \/ ~ ple p q) ->
    rep H R dirty' delp' f p n G.
  Proof. intros X Y. eapply rep_mono; eassumption. Qed.

  Lemma dirty_ok f p G : dirty' p = true -> clean_ok H R dirty' delp' f p G.
  Proof. intros X Y. congruence. Qed.

  (* the deletion-set growth allowed at a call with path [p], events [ev], result [d] *)
  Definition dp_ok (p : list N) (ev : list tev) (d : bool) : Prop :=
    forall q, delp' q -> delp q \/ In (TDel q) ev \/ ~ ple p q \/ (q = p /\ d = true).

  Definition del_concl (f : bool) (p key : list N) (G : node) (d : bool) (n' : node) (ev : list tev) : Prop :=
    exists G', rep H R dirty' delp' f p n' G' /\
               (d = false -> G' = G /\ only_res ev) /\
               (d = true -> is_hashb n' = false) /\
               ev_below p ev /\
               (forall fu', (length key < fu')%nat -> exists ev', delete R fu' G p key = TOk (d, G', ev')).

  Lemma dp_keep f p n G ev :
    rep H R dirty delp f p n G -> dp_ok p ev false -> only_res ev -> rep H R dirty' delp' f p n G.
  Proof.
    intros Rp DP O. apply keep; [exact Rp|]. intros q Dq.
    destruct (DP q Dq) as [X|[X|[X|[_ X]]]]; [left; exact X| |right; exact X|discriminate].
    exfalso. eapply only_res_nodel; eassumption.
  Qed.

  Lemma delete_rep : forall fu n p key d n' ev f G,
    delete R fu n p key = TOk (d, n', ev) ->
    rep H R dirty delp f p n G -> wfpos G key ->
    dp_ok p ev d ->
    (d = true -> forall q, ple q (p ++ key) -> dirty' q = true) ->
    del_concl f p key G d n' ev.
  Proof.
    induction fu as [|fu IH]; intros n p key d n' ev f G E Rp Wp DP Dk; [discriminate|].
    inversion Rp as [f0 p0|f0 p0 v0|f0 p0 h G0 e SF W EN Hh HB C U|f0 p0 nk c c' Rc CO|f0 p0 cs cs' HL Rcs CO]; subst.
    - (* nil *)
      cbn in E. inversion E; subst. exists NEmpty. split; [constructor|]. split; [intros _; split; [reflexivity|constructor]|].
      split; [discriminate|]. split; [apply ev_below_nil|].
      intros [|fu'] L; [lia|]. eexists. reflexivity.
    - (* value *)
      cbn in E. inversion E; subst. exists NEmpty. split; [constructor|]. split; [discriminate|].
      split; [reflexivity|]. split; [apply ev_below_nil|].
      intros [|fu'] L; [lia|]. eexists. reflexivity.
    - (* hash node *)
      destruct (C p G (gsub_here H f p G e SF EN HB)) as (e' & E' & RS).
      rewrite EN in E'. inversion E'; subst e'.
      cbn [delete] in E. rewrite RS in E.
      destruct (delete R fu (collapse H G) p key) as [[[d1 n1] ev1]|er] eqn:DE; [|discriminate].
      pose proof (rep_collapse H H_len R dirty delp G W f p C U) as RC.
      assert (DP1 : dp_ok p ev1 d1).
      { intros q Dq. destruct d1; inversion E; subst;
          (destruct (DP q Dq) as [X|[X|[X|X]]]; [left; exact X| |right; right; left; exact X|right; right; right; exact X]);
          destruct X as [X|X]; try discriminate; right; left; exact X. }
      destruct d1; inversion E; subst.
      + destruct (IH _ _ _ _ _ _ _ _ DE RC Wp DP1 Dk) as (G' & X1 & X2 & X3 & X4 & X5).
        exists G'. split; [exact X1|]. split; [discriminate|]. split; [exact X3|].
        split; [apply ev_below_res; exact X4|exact X5].
      + destruct (IH _ _ _ _ _ _ _ _ DE RC Wp DP1) as (G' & X1 & X2 & X3 & X4 & X5); [discriminate|].
        destruct (X2 eq_refl) as [-> OR].
        exists G. split.
        * eapply dp_keep; [exact RC|exact DP|]. constructor; [exact I|exact OR].
        * split; [intros _; split; [reflexivity|constructor; [exact I|exact OR]]|].
          split; [discriminate|]. split; [apply ev_below_res; exact X4|exact X5].
    - (* short node *)
      destruct Wp as [[-> VS]|[Vk Wn]]; [destruct VS as [X|[v0 X]]; discriminate|].
      cbn [delete] in E.
      destruct (prefix_len_split key nk) as (pp & a' & b' & Ek & En & Em & Dab).
      assert (GU : forall fu'', delete R (Datatypes.S fu'') (NShort nk c') p key = _) by (intro; cbn [delete]; reflexivity).
      destruct (Nat.ltb (prefix_len key nk) (length nk)) eqn:LT.
      { (* mismatch: nothing changes *)
        inversion E; subst.
        exists (NShort nk c'). split; [eapply dp_keep; [exact Rp|exact DP|constructor]|].
        split; [intros _; split; [reflexivity|constructor]|]. split; [discriminate|]. split; [apply ev_below_nil|].
        intros [|fu'] L; [lia|]. rewrite GU. eexists. reflexivity. }
      destruct (Nat.eqb (prefix_len key nk) (length key)) eqn:EQ.
      { (* the whole key matches: the leaf goes away *)
        inversion E; subst.
        exists NEmpty. split; [constructor|]. split; [discriminate|]. split; [reflexivity|].
        split; [intros q [X|[]]; inversion X; apply ple_refl|].
        intros [|fu'] L; [lia|]. rewrite GU. eexists. reflexivity. }
      apply Nat.ltb_ge in LT. apply Nat.eqb_neq in EQ. rewrite Em in *.
      assert (b' = []).
      { destruct b' as [|x b']; [reflexivity|]. rewrite En, app_length in LT. cbn in LT. lia. }
      subst b'. rewrite app_nil_r in En. subst pp.
      assert (AN : a' <> []) by (intros ->; rewrite Ek, app_nil_r in EQ; congruence).
      rewrite Ek, firstn_app_exact, skipn_app_exact in E. rewrite Ek, firstn_app_exact, skipn_app_exact in GU.
      rewrite Ek in Vk. destruct (wfn_short_child nk c' a' Wn Vk) as (Wc & KN & _).
      destruct (delete R fu c (p ++ nk) a') as [[[d1 n1] ev1]|er] eqn:DE; [|discriminate].
      assert (DP1 : dp_ok (p ++ nk) ev1 d1).
      { intros q Dq. destruct (DP q Dq) as [X|[X|[X|[X Y]]]].
        - left. exact X.
        - destruct d1; [destruct n1|]; inversion E; subst; try (right; left; exact X).
          apply in_app_or in X. destruct X as [X|[X|[]]]; [right; left; exact X|].
          inversion X; subst. right. right. right. split; reflexivity.
        - right. right. left. intro Y. apply X. eapply ple_app_l. exact Y.
        - right. right. left. subst q. intro Z. apply ple_self_app in Z. contradiction. }
      assert (Dk1 : d1 = true -> forall q, ple q ((p ++ nk) ++ a') -> dirty' q = true).
      { intros -> q Q. apply Dk; [destruct n1; inversion E; reflexivity|]. rewrite Ek, app_assoc. exact Q. }
      destruct (IH _ _ _ _ _ _ _ _ DE Rc Wc DP1 Dk1) as (G1 & X1 & X2 & X3 & X4 & X5).
      assert (GR : forall fu', (length key < fu')%nat -> exists ev',
                 delete R fu' (NShort nk c') p key =
                 match d1, G1 with
                 | false, _ => TOk (false, NShort nk c', ev')
                 | true, NShort ck cv => TOk (true, NShort (nk ++ ck) cv, ev' ++ [TDel (p ++ nk)])
                 | true, c0 => TOk (true, NShort nk c0, ev')
                 end).
      { intros [|fu''] L; [lia|]. rewrite GU.
        destruct (X5 fu'') as [ev' DE'].
        { rewrite Ek, app_length in L. destruct nk; [congruence|cbn in L; lia]. }
        rewrite Ek at 1. rewrite Ek at 1.
        replace (Nat.ltb (prefix_len (nk ++ a') nk) (length nk)) with false
          by (symmetry; apply Nat.ltb_ge; rewrite <- Ek, Em; lia).
        replace (Nat.eqb (prefix_len (nk ++ a') nk) (length (nk ++ a'))) with false
          by (symmetry; apply Nat.eqb_neq; rewrite <- Ek, Em; exact EQ).
        rewrite DE'. destruct d1; [destruct G1|]; eauto. }
      destruct d1.
      + pose proof (X3 eq_refl) as NH.
        assert (SH : (exists ck cv cv', n1 = NShort ck cv /\ G1 = NShort ck cv' /\
                        rep H R dirty' delp' false ((p ++ nk) ++ ck) cv cv') \/
                     ((forall ck cv, n1 <> NShort ck cv) /\ (forall ck cv, G1 <> NShort ck cv))).
        { inversion X1; subst; try discriminate;
            try (right; split; intros; discriminate).
          left. eauto 8. }
        destruct SH as [(ck & cv & cv' & -> & -> & Rcv)|[N1 N2]].
        * inversion E; subst.
          exists (NShort (nk ++ ck) cv'). split.
          { apply rep_short; [rewrite app_assoc; exact Rcv|]. apply dirty_ok. apply Dk; [reflexivity|apply ple_app]. }
          split; [discriminate|]. split; [reflexivity|]. split.
          { apply ev_below_app; [eapply ev_below_up; exact X4|]. intros q [X|[]]. inversion X. apply ple_app. }
          exact GR.
        * assert (E' : TOk (true, NShort nk n1, ev1) = TOk (d, n', ev)) by (destruct n1; try exact E; exfalso; eapply N1; reflexivity).
          inversion E'; subst.
          exists (NShort nk G1). split.
          { apply rep_short; [exact X1|]. apply dirty_ok. apply Dk; [reflexivity|apply ple_app]. }
          split; [discriminate|]. split; [reflexivity|]. split; [eapply ev_below_up; exact X4|].
          intros fu' L. destruct (GR fu' L) as [ev' X]. exists ev'. rewrite X.
          destruct G1; try reflexivity. exfalso. eapply N2. reflexivity.
      + inversion E; subst. destruct (X2 eq_refl) as [-> OR].
        exists (NShort nk c'). split; [eapply dp_keep; [exact Rp|exact DP|exact OR]|].
        split; [intros _; split; [reflexivity|exact OR]|]. split; [discriminate|].
        split; [eapply ev_below_up; exact X4|exact GR].
    - (* full node *)
      admit.
  Admitted.
End SimDel.
