(* Trie/GenerateSize.v — size facts about canonical tries derived from their
   lookups (C11): a canonical trie all of whose values have >= 32 bytes encodes
   to >= 32 bytes (so account-trie subtree roots are always referenced by hash),
   and a canonical trie whose keys/values are below the size guard is [sized]. *)
From GV Require Import Lib.Tactics Lib.Bytes Rlp.Codec Trie.Hex Trie.HexProofs Trie.Node Trie.Ops Trie.Hash Trie.OpsProofs Trie.Canon Trie.Stack Trie.StackProofs Trie.ProofProofs.
Local Open Scope N_scope.

Lemma enc_head_app_len a b s (p : list N) : (length p <= length (enc_head a b s ++ p))%nat.
Proof. rewrite app_length. lia. Qed.

Lemma enc_str_ge (b : list N) : (2 <= length b)%nat -> (length b <= length (enc_str b))%nat.
Proof.
  intros L. destruct b as [|x [|y r]]; simpl in L; try lia. unfold enc_str. apply enc_head_app_len.
Qed.

Lemma list_wrap_ge p : (length p <= length (list_wrap p))%nat.
Proof. unfold list_wrap. apply enc_head_app_len. Qed.

Section Size.
  Variable H : list N -> list N.
  Hypothesis H_len : forall x, length (H x) = 32%nat.

  Definition bigvals (t : node) : Prop := forall k v, lk t k = Some v -> (32 <= length v)%nat.

  Lemma ref_big e : (32 <= length e)%nat -> (32 <= length (write_ref (ref_of_enc H e)))%nat.
  Proof.
    intros L. unfold ref_of_enc, write_ref.
    replace (Nat.ltb (length e) 32) with false by (symmetry; apply Nat.ltb_ge; exact L).
    rewrite H_len. cbn [Nat.ltb Nat.leb]. pose proof (enc_str_ge (H e)) as G. rewrite H_len in G. lia.
  Qed.

  (* the payload of a full node is at least as long as any of its slots' contributions *)
  Lemma enc_go_ge : forall l i p j c e, enc_go H i l = Some p -> nth_error l j = Some c ->
    (i + j < 16)%nat -> can c -> node_enc H c = Some e -> (32 <= length e)%nat -> (32 <= length p)%nat.
  Proof.
    induction l as [|c0 l IH]; intros i p j c e Ep Hj Hlt Hc Ee Hb; [destruct j; discriminate|].
    cbn [enc_go] in Ep.
    destruct j as [|j].
    - simpl in Hj. inversion Hj; subst c0.
      replace (Nat.eqb i 16) with false in Ep by (symmetry; apply Nat.eqb_neq; lia).
      assert (Es : (match c with
                    | NEmpty => Some [128]
                    | _ => match c with
                           | NHash [] => Some [128]
                           | NHash h => Some (write_ref h)
                           | NShort _ _ | NFull _ =>
                               match node_enc H c with Some e => Some (write_ref (ref_of_enc H e)) | None => None end
                           | _ => None
                           end
                    end) = Some (write_ref (ref_of_enc H e))).
      { inversion Hc; subst; rewrite Ee; reflexivity. }
      rewrite Es in Ep. destruct (enc_go H (S i) l) as [b|]; [|discriminate]. inversion Ep; subst.
      rewrite app_length. pose proof (ref_big e Hb). lia.
    - simpl in Hj. destruct (match c0 with NEmpty => Some [128] | _ => _ end) as [a|]; [|discriminate].
      destruct (enc_go H (S i) l) as [b|] eqn:Eb; [|discriminate]. inversion Ep; subst.
      rewrite app_length. pose proof (IH (S i) b j c e Eb Hj ltac:(lia) Hc Ee Hb). lia.
  Qed.

  Lemma big_enc : forall t, can t -> bigvals t -> forall e, node_enc H t = Some e -> (32 <= length e)%nat.
  Proof.
    induction t as [| |k c IH|cs IH|] using node_ind'; intros Hc Hb e Ee; try solve [inversion Hc].
    - rewrite Canon.node_enc_short in Ee. destruct (hex_to_compact k) as [ck|]; [|discriminate]. cbv zeta in Ee.
      destruct (can_short_inv _ _ Hc) as [[Hk [v ->]]|(Hk & Hne & cs & -> & Hcf)].
      + rewrite (valid_key_has_term _ Hk) in Ee. inversion Ee; subst.
        assert (Lv : (32 <= length v)%nat) by (apply (Hb k v); rewrite lk_leaf, bytes_eqb_refl; reflexivity).
        pose proof (list_wrap_ge (enc_str ck ++ enc_str v)). rewrite app_length in *.
        pose proof (enc_str_ge v ltac:(lia)). lia.
      + rewrite (has_term_nib_false _ (nibbles_forallb _ Hk)) in Ee.
        destruct (node_enc H (NFull cs)) as [ec|] eqn:Eec; [|discriminate]. inversion Ee; subst.
        assert (Lc : (32 <= length ec)%nat).
        { apply (IH Hcf); [|reflexivity]. intros k' v' L'. apply (Hb (k ++ k') v'). rewrite lk_short, strip_app_same. exact L'. }
        pose proof (list_wrap_ge (enc_str ck ++ write_ref (ref_of_enc H ec))). rewrite app_length in *.
        pose proof (ref_big ec Lc). lia.
    - rewrite (ProofProofs.node_enc_full H) in Ee. destruct (enc_go H 0 cs) as [p|] eqn:Ep; [|discriminate]. inversion Ee; subst.
      destruct (can_full_inv _ Hc) as (HL & Hch & H16 & Hcnt).
      destruct (count_ge_2_ex _ Hcnt) as (i & j & ci & cj & Hij & Hi & Hci & Hj & Hcj).
      assert (Hex : exists m cm, (m < 16)%nat /\ nth_error cs m = Some cm /\ cm <> NEmpty).
      { assert (Li : (i < 17)%nat) by (rewrite <- HL; apply nth_error_Some; congruence).
        assert (Lj : (j < 17)%nat) by (rewrite <- HL; apply nth_error_Some; congruence).
        destruct (Nat.eq_dec i 16) as [->|Ni]; [exists j, cj; repeat split; [lia|assumption|assumption]|].
        exists i, ci. repeat split; [lia|assumption|assumption]. }
      destruct Hex as (m & cm & Lm & Hm & Hne).
      destruct (Hch _ _ Hm Lm) as [->|Hcm]; [congruence|].
      destruct (node_enc_total H _ Hcm) as [em Eem].
      rewrite Forall_forall in IH.
      assert (Lem : (32 <= length em)%nat).
      { apply (IH cm (nth_error_In _ _ Hm) Hcm); [|exact Eem]. intros k' v' L'.
        apply (Hb (N.of_nat m :: k') v'). rewrite lk_full, Nat2N.id, Hm. exact L'. }
      pose proof (enc_go_ge cs 0 p m cm em Ep Hm ltac:(lia) Hcm Eem Lem).
      pose proof (list_wrap_ge p). lia.
  Qed.

  (* sizes from lookups *)
  Definition smallkv (t : node) : Prop := forall k v, lk t k = Some v -> small k /\ val_ok v.

  Lemma small_app_r (a b : list N) : small (a ++ b) -> small b.
  Proof. unfold small, lenN. rewrite app_length. lia. Qed.
  Lemma small_app_l (a b : list N) : small (a ++ b) -> small a.
  Proof. unfold small, lenN. rewrite app_length. lia. Qed.

  Lemma lk_sized : forall t, can t -> smallkv t -> sized t.
  Proof.
    induction t as [| |k c IH|cs IH|] using node_ind'; intros Hc Hs; try solve [inversion Hc].
    - destruct (can_short_inv _ _ Hc) as [[Hk [v ->]]|(Hk & Hne & cs & -> & Hcf)].
      + destruct (Hs k v) as [Sk Sv]; [rewrite lk_leaf, bytes_eqb_refl; reflexivity|]. split; assumption.
      + destruct (can_has_key _ Hcf) as (kk & v & _ & Lk).
        destruct (Hs (k ++ kk) v) as [Sk _]; [rewrite lk_short, strip_app_same; exact Lk|].
        split; [eapply small_app_l; exact Sk|]. apply (IH Hcf).
        intros k' v' L'. destruct (Hs (k ++ k') v') as [S1 S2]; [rewrite lk_short, strip_app_same; exact L'|].
        split; [eapply small_app_r; exact S1|exact S2].
    - apply sized_full. rewrite Forall_forall in *. intros c Hin.
      destruct (In_nth_error _ _ Hin) as [i Hi].
      destruct (can_full_inv _ Hc) as (HL & Hch & H16 & _).
      assert (Li : (i < 17)%nat) by (rewrite <- HL; apply nth_error_Some; congruence).
      destruct (Nat.eq_dec i 16) as [->|Ni].
      + destruct (H16 _ Hi) as [->|[v ->]]; [exact I|]. cbn [sized].
        destruct (Hs [16] v) as [_ Sv]; [rewrite lk_full; change (N.to_nat 16) with 16%nat; rewrite Hi; reflexivity|exact Sv].
      + destruct (Hch _ _ Hi ltac:(lia)) as [->|Hcc]; [exact I|]. apply (IH c Hin Hcc).
        intros k' v' L'. destruct (Hs (N.of_nat i :: k') v') as [S1 S2]; [rewrite lk_full, Nat2N.id, Hi; exact L'|].
        split; [|exact S2]. change (N.of_nat i :: k') with ([N.of_nat i] ++ k') in S1. eapply small_app_r; exact S1.
  Qed.
End Size.
