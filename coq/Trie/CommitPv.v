(* Trie/X/CommitPv.v — which in-memory node paths an operation can create or
   delete: every short/full node path of the result that holds a stored node was a
   node path before, or was announced by onInsert, or was resolved during the
   operation; every onDelete path holding a stored node was a node path before or
   was resolved.  (Ingredients of pre-value coverage.) *)
From GV Require Import Lib.Tactics Lib.Bytes Rlp.Codec Trie.Hex Trie.Node Trie.Ops Trie.Hash.
From GV Require Import Trie.OpsProofs Trie.Canon Trie.Proof Trie.ProofProofs.
From GV Require Import Trie.Commit Trie.CommitProofs Trie.CommitTracer Trie.CommitReads Trie.CommitSim Trie.CommitSimDel Trie.CommitEvents.
Local Open Scope N_scope.

Definition in_res (a : list N) (ev : list tev) : Prop := exists b, In (TRes a b) ev.

Lemma in_res_cons a e ev : in_res a ev -> in_res a (e :: ev).
Proof. intros [b X]. exists b. right. exact X. Qed.
Lemma in_res_app_l a x y : in_res a x -> in_res a (x ++ y).
Proof. intros [b X]. exists b. apply in_or_app. left. exact X. Qed.
Lemma in_res_app_r a x y : in_res a y -> in_res a (x ++ y).
Proof. intros [b X]. exists b. apply in_or_app. right. exact X. Qed.

Section Pv.
  Variable H : list N -> list N.
  Hypothesis H_len : forall x, length (H x) = 32%nat.

  (* inside the decoded encoding of a ground node the only stored (hashed) node
     path that is an in-memory node path is the root: hashed children are hash
     nodes, embedded children are not stored *)
  Lemma collapse_pos G : pwf G -> forall f p a Ga,
    gpos p (collapse H G) a -> gsub H f p G a Ga -> a = p.
  Proof.
    induction G as [|v|k c IH|cs IH|h] using node_ind'; intros W f p a Ga GP GS;
      try (apply gpos_sf in GP; discriminate).
    - cbn [collapse] in GP. apply gpos_short_iff in GP. destruct GP as [->|GP]; [reflexivity|].
      inversion GS as [| f0 p0 k0 c0 q Gq GSc|]; subst; [reflexivity|].
      assert (KN : k <> []) by (inversion W; subst; [apply valid_key_nonempty; assumption|assumption]).
      assert (Wc : pwf c).
      { inversion W; subst; [inversion GSc; discriminate|assumption]. }
      destruct (pwf_enc_total H H_len c Wc) as [e E].
      unfold cref in GP. destruct (pwf_shape c Wc) as [(k1 & c1 & ->)|(cs1 & ->)]; rewrite E in GP;
        (destruct (Nat.ltb (length e) 32) eqn:L; [|exfalso; apply gpos_sf in GP; discriminate]);
        pose proof (IH Wc false (p ++ k) a Ga GP GSc) as ->;
        exfalso; inversion GSc as [f1 p1 G1 e1 SF1 E1 HB1| f1 p1 k2 c2 q1 Gq1 GS2|f1 p1 cs2 i2 c2 q1 Gq1 X2 I2 GS2]; subst.
      + rewrite E in E1. inversion E1; subst e1. unfold hashedb in HB1. cbn [orb] in HB1.
        apply Nat.leb_le in HB1. apply Nat.ltb_lt in L. lia.
      + apply gsub_ple in GS2. apply ple_self_app in GS2. subst.
        inversion Wc as [k9 v9 VK9| |]; subst; [exact (valid_key_nonempty _ VK9 eq_refl)|congruence].
      + rewrite E in E1. inversion E1; subst e1. unfold hashedb in HB1. cbn [orb] in HB1.
        apply Nat.leb_le in HB1. apply Nat.ltb_lt in L. lia.
      + apply gsub_ple in GS2. apply ple_self_app in GS2. discriminate.
    - cbn [collapse] in GP. apply gpos_full_iff in GP. destruct GP as [->|(i & d & Ed & GP)]; [reflexivity|].
      rewrite nth_error_map in Ed.
      inversion GS as [| |f0 p0 cs0 j cj q Gq Ej Ij GSc]; subst; [reflexivity|].
      destruct (nth_error cs i) as [ci|] eqn:Ei; [|discriminate]. cbn in Ed. inversion Ed; subst d. clear Ed.
      assert (i = j).
      { destruct (Nat.eq_dec i j) as [X|NE]; [exact X|exfalso].
        eapply (ple_sibling p (N.of_nat i) (N.of_nat j)); [lia|eapply gpos_ple; exact GP|eapply gsub_ple; exact GSc]. }
      subst j. rewrite Ei in Ej. inversion Ej; subst cj.
      assert (Wc : pwf ci).
      { inversion W as [| |cs0 HL Hch H16]; subst. destruct (Hch i ci Ei Ij) as [->|X]; [inversion GSc; discriminate|exact X]. }
      destruct (pwf_enc_total H H_len ci Wc) as [e E].
      rewrite Forall_forall in IH. pose proof (IH ci (nth_error_In _ _ Ei) Wc) as IHc.
      unfold cref in GP. destruct (pwf_shape ci Wc) as [(k1 & c1 & ->)|(cs1 & ->)]; rewrite E in GP;
        (destruct (Nat.ltb (length e) 32) eqn:L; [|exfalso; apply gpos_sf in GP; discriminate]);
        pose proof (IHc false (p ++ [N.of_nat i]) a Ga GP GSc) as ->;
        exfalso; inversion GSc as [f1 p1 G1 e1 SF1 E1 HB1| f1 p1 k2 c2 q1 Gq1 GS2|f1 p1 cs2 i2 c2 q1 Gq1 X2 I2 GS2]; subst.
      + rewrite E in E1. inversion E1; subst e1. unfold hashedb in HB1. cbn [orb] in HB1.
        apply Nat.leb_le in HB1. apply Nat.ltb_lt in L. lia.
      + apply gsub_ple in GS2. apply ple_self_app in GS2. subst.
        inversion Wc as [k9 v9 VK9| |]; subst; [exact (valid_key_nonempty _ VK9 eq_refl)|congruence].
      + rewrite E in E1. inversion E1; subst e1. unfold hashedb in HB1. cbn [orb] in HB1.
        apply Nat.leb_le in HB1. apply Nat.ltb_lt in L. lia.
      + apply gsub_ple in GS2. apply ple_self_app in GS2. discriminate.
  Qed.

  Section Ops.
    Variable R : list N -> list N -> option (node * list N).
    Variable dirty : list N -> bool.
    Variable delp : list N -> Prop.

    Lemma region_pos f p G a : pwf G -> covered H R f p G ->
      gpos p (collapse H G) a -> stored R a -> a = p.
    Proof.
      intros W [_ X] GP St. destruct (X a (gpos_ple _ _ _ GP) St) as [Ga GS].
      eapply collapse_pos; eassumption.
    Qed.

    Definition pos_new (p : list N) (n n' : node) (ev : list tev) : Prop :=
      forall a, gpos p n' a -> stored R a -> gpos p n a \/ In (TIns a) ev \/ in_res a ev.

    Lemma pos_new_refl p n : pos_new p n n [].
    Proof. intros a X _. left. exact X. Qed.

    Lemma insert_pos : forall fu n p key v d n' ev f G,
      insert R fu n p key (NValue v) = TOk (d, n', ev) ->
      rep H R dirty delp f p n G -> pos_new p n n' ev.
    Proof.
      induction fu as [|fu IH]; intros n p key v d n' ev f G E Rp; [discriminate|].
      destruct key as [|k0 kr].
      { cbn in E. destruct n; inversion E; subst; intros a X; exfalso; eapply gpos_value; exact X. }
      inversion Rp as [f0 p0|f0 p0 v0|f0 p0 h G0 e SF W EN Hh HB C U|f0 p0 nk c c' Rc CO|f0 p0 cs cs' HL Rcs CO]; subst.
      - cbn in E. inversion E; subst. intros a X _. right. left. left.
        apply gpos_short_iff in X. destruct X as [->|X]; [reflexivity|exfalso; eapply gpos_value; exact X].
      - cbn in E. discriminate.
      - (* hash node *)
        destruct (proj1 C p G (gsub_here H f p G e SF EN HB)) as (e' & E' & RS).
        rewrite EN in E'. inversion E'; subst e'.
        cbn [insert] in E. rewrite RS in E.
        destruct (insert R fu (collapse H G) p (k0 :: kr) (NValue v)) as [[[d1 n1] ev1]|er] eqn:IE; [|discriminate].
        pose proof (rep_collapse H H_len R dirty delp G W f p C U) as RC.
        assert (TOP : forall a, gpos p (collapse H G) a -> stored R a -> in_res a (TRes p e :: ev1)).
        { intros a X St. rewrite (region_pos f p G a W C X St). exists e. left. reflexivity. }
        destruct d1; inversion E; subst.
        + intros a X St. destruct (IH _ _ _ _ _ _ _ _ _ IE RC a X St) as [Y|[Y|Y]].
          * right. right. apply TOP; assumption.
          * right. left. right. exact Y.
          * right. right. apply in_res_cons. exact Y.
        + intros a X St. right. right. apply TOP; assumption.
      - (* short node *)
        set (key := k0 :: kr) in *.
        rewrite (insert_short_unfold R fu nk c p key (NValue v)) in E by discriminate. cbv zeta in E.
        destruct (prefix_len_split key nk) as (pp & a' & b' & Ek & En & Em & Dab).
        destruct (Nat.eqb (prefix_len key nk) (length nk)) eqn:ML.
        + apply Nat.eqb_eq in ML. rewrite Em in ML.
          assert (b' = []).
          { rewrite En, app_length in ML. destruct b'; [reflexivity|cbn in ML; lia]. }
          subst b'. rewrite app_nil_r in En. subst pp.
          rewrite Em, Ek, firstn_app_exact, skipn_app_exact in E.
          destruct (insert R fu c (p ++ nk) a' (NValue v)) as [[[d1 n1] ev1]|er] eqn:IE; [|discriminate].
          pose proof (IH _ _ _ _ _ _ _ _ _ IE Rc) as PN.
          destruct d1; inversion E; subst d n' ev; [|intros a X _; left; exact X].
          intros a X St. apply gpos_short_iff in X. destruct X as [->|X]; [left; apply gpos_here; reflexivity|].
          destruct (PN a X St) as [Y|Y]; [left; apply gpos_short; exact Y|right; exact Y].
        + apply Nat.eqb_neq in ML. rewrite Em in *.
          destruct (nth_error nk (length pp)) as [a0|] eqn:NA; [|discriminate].
          destruct (nth_error key (length pp)) as [b0|] eqn:NB; [|discriminate].
          rewrite En, nth_error_app_exact in NA. rewrite Ek, nth_error_app_exact in NB.
          destruct b' as [|a1 nkr]; [discriminate|]. destruct a' as [|b1 keyr]; [discriminate|].
          cbn in NA, NB. inversion NA; inversion NB; subst a1 b1. clear NA NB.
          rewrite En, Ek, !firstn_app_succ, !skipn_app_succ, firstn_app_exact in E.
          destruct (insert_nil (p ++ pp ++ [a0]) nkr c) as [c1 ev1] eqn:I1.
          destruct (insert_nil (p ++ pp ++ [b0]) keyr (NValue v)) as [c2 ev2] eqn:I2.
          pose proof (insert_nil_fst (p ++ pp ++ [a0]) nkr c) as F1. rewrite I1 in F1. cbn in F1. subst c1.
          pose proof (insert_nil_snd (p ++ pp ++ [a0]) nkr c) as S1. rewrite I1 in S1. cbn in S1. subst ev1.
          pose proof (insert_nil_fst (p ++ pp ++ [b0]) keyr (NValue v)) as F2. rewrite I2 in F2. cbn in F2. subst c2.
          pose proof (insert_nil_snd (p ++ pp ++ [b0]) keyr (NValue v)) as S2. rewrite I2 in S2. cbn in S2. subst ev2.
          destruct (set_child empty17 a0 (inil nkr c)) as [cs1|] eqn:SC1; [|discriminate].
          destruct (set_child cs1 b0 (inil keyr (NValue v))) as [cs2|] eqn:SC2; [|discriminate].
          assert (AB : a0 <> b0) by exact (fun X => Dab (eq_sym X)).
          set (P0 := p ++ pp) in *.
          assert (PA : p ++ pp ++ [a0] = P0 ++ [a0]) by (unfold P0; rewrite app_assoc; reflexivity).
          assert (PB : p ++ pp ++ [b0] = P0 ++ [b0]) by (unfold P0; rewrite app_assoc; reflexivity).
          assert (PN : p ++ nk = (P0 ++ [a0]) ++ nkr) by (unfold P0; rewrite En, <- !app_assoc; reflexivity).
          rewrite PA, PB in E.
          assert (BR := fun q => branch_pos P0 a0 b0 _ _ cs1 cs2 q AB SC1 SC2).
          assert (OLD : forall a, gpos ((P0 ++ [a0]) ++ nkr) c a -> gpos p (NShort nk c) a)
            by (intros a X; apply gpos_short; rewrite PN; exact X).
          assert (BRP : forall a, gpos P0 (NFull cs2) a ->
                   a = P0 \/ (nkr <> [] /\ a = P0 ++ [a0]) \/ (keyr <> [] /\ a = P0 ++ [b0]) \/
                   gpos p (NShort nk c) a).
          { intros a X. apply BR in X. destruct X as [X|[X|X]]; [auto| |].
            - apply gpos_inil in X. destruct X as [X|X]; [auto|right; right; right; apply OLD; exact X].
            - apply gpos_inil in X. destruct X as [X|X]; [auto|exfalso; eapply gpos_value; exact X]. }
          destruct (Nat.eqb (length pp) 0) eqn:M0; inversion E; subst d n' ev; intros a X _.
          * apply Nat.eqb_eq in M0. destruct pp; [|discriminate]. unfold P0 in *. rewrite app_nil_r in *.
            destruct (BRP a X) as [->|[[NE ->]|[[NE ->]|Y]]].
            -- left. apply gpos_here. reflexivity.
            -- right. left. destruct nkr; [congruence|]. left. reflexivity.
            -- right. left. apply in_or_app. right. destruct keyr; [congruence|]. left. reflexivity.
            -- left. exact Y.
          * apply gpos_short_iff in X. destruct X as [->|X]; [left; apply gpos_here; reflexivity|].
            destruct (BRP a X) as [->|[[NE ->]|[[NE ->]|Y]]].
            -- right. left. apply in_or_app. right. apply in_or_app. right. left. reflexivity.
            -- right. left. destruct nkr; [congruence|]. left. reflexivity.
            -- right. left. apply in_or_app. right. apply in_or_app. left. destruct keyr; [congruence|]. left. reflexivity.
            -- left. exact Y.
      - (* full node *)
        cbn [insert] in E. unfold child in E.
        destruct (nth_error cs (N.to_nat k0)) as [c|] eqn:Ec; [|discriminate].
        assert (Ec' : exists c', nth_error cs' (N.to_nat k0) = Some c').
        { destruct (nth_error cs' (N.to_nat k0)) eqn:X; [eauto|]. apply nth_error_None in X.
          assert (N.to_nat k0 < length cs)%nat by (apply nth_error_Some; congruence). lia. }
        destruct Ec' as [c' Ec'].
        pose proof (Rcs _ _ _ Ec Ec') as Rc. rewrite N2Nat.id in Rc.
        destruct (insert R fu c (p ++ [k0]) kr (NValue v)) as [[[d1 n1] ev1]|er] eqn:IE; [|discriminate].
        pose proof (IH _ _ _ _ _ _ _ _ _ IE Rc) as PN.
        destruct d1; [|inversion E; subst; intros a X _; left; exact X].
        unfold set_child in E. destruct (set_nth (N.to_nat k0) n1 cs) as [cs2|] eqn:SN; [|discriminate].
        inversion E; subst d n' ev. intros a X St.
        apply (full_set_iff p cs (N.to_nat k0) n1 cs2 a SN) in X. rewrite N2Nat.id in X.
        destruct X as [->|[X|(j & cj & NE & Ej & X)]].
        + left. apply gpos_here. reflexivity.
        + destruct (PN a X St) as [Y|Y]; [left|right; exact Y].
          eapply gpos_full; [exact Ec|]. rewrite N2Nat.id. exact Y.
        + left. eapply gpos_full; eassumption.
    Qed.

    Definition del_pos (p : list N) (n n' : node) (ev : list tev) : Prop :=
      (forall a, gpos p n' a -> stored R a -> gpos p n a \/ in_res a ev) /\
      (forall a, In (TDel a) ev -> stored R a -> gpos p n a \/ in_res a ev).

    Lemma del_pos_refl p n : del_pos p n n [].
    Proof. split; [intros a X _; left; exact X|intros a []]. Qed.

    (* a deletion returning a short node started from a short/full node, or resolved one *)
    Lemma del_top fu c q k ck cv ev :
      delete R fu c q k = TOk (true, NShort ck cv, ev) -> is_sf c = true \/ in_res q ev.
    Proof.
      destruct fu as [|fu]; [discriminate|]. destruct c as [|v|k1 c1|cs|h]; cbn [delete]; intro E;
        try (left; reflexivity); try discriminate.
      right. destruct (R h q) as [[rn blob]|]; [|discriminate].
      destruct (delete R fu rn q k) as [[[[|] n0] ev0]|er]; inversion E; subst; exists blob; left; reflexivity.
    Qed.

    Lemma delete_pos : forall fu n p key d n' ev f G,
      delete R fu n p key = TOk (d, n', ev) ->
      rep H R dirty delp f p n G -> del_pos p n n' ev.
    Proof.
      induction fu as [|fu IH]; intros n p key d n' ev f G E Rp; [discriminate|].
      inversion Rp as [f0 p0|f0 p0 v0|f0 p0 h G0 e SF W EN Hh HB C U|f0 p0 nk c c' Rc CO|f0 p0 cs cs' HL Rcs CO]; subst.
      - cbn in E. inversion E; subst. apply del_pos_refl.
      - cbn in E. inversion E; subst. split; [intros a X; exfalso; eapply gpos_empty; exact X|intros a []].
      - (* hash node *)
        destruct (proj1 C p G (gsub_here H f p G e SF EN HB)) as (e' & E' & RS).
        rewrite EN in E'. inversion E'; subst e'.
        cbn [delete] in E. rewrite RS in E.
        destruct (delete R fu (collapse H G) p key) as [[[d1 n1] ev1]|er] eqn:DE; [|discriminate].
        pose proof (rep_collapse H H_len R dirty delp G W f p C U) as RC.
        assert (TOP : forall a, gpos p (collapse H G) a -> stored R a -> in_res a (TRes p e :: ev1)).
        { intros a X St. rewrite (region_pos f p G a W C X St). exists e. left. reflexivity. }
        destruct (IH _ _ _ _ _ _ _ _ DE RC) as [P1 P2].
        assert (DL : forall a, In (TDel a) (TRes p e :: ev1) -> stored R a ->
                     gpos p (NHash (H e)) a \/ in_res a (TRes p e :: ev1)).
        { intros a [X|X] St; [discriminate|]. right.
          destruct (P2 a X St) as [Y|Y]; [apply TOP; assumption|apply in_res_cons; exact Y]. }
        destruct d1; inversion E; subst; (split; [|exact DL]).
        + intros a X St. right. destruct (P1 a X St) as [Y|Y]; [apply TOP; assumption|apply in_res_cons; exact Y].
        + intros a X St. right. apply TOP; assumption.
      - (* short node *)
        cbn [delete] in E.
        destruct (prefix_len_split key nk) as (pp & a' & b' & Ek & En & Em & Dab).
        destruct (Nat.ltb (prefix_len key nk) (length nk)) eqn:LT.
        { inversion E; subst d n' ev. apply del_pos_refl. }
        destruct (Nat.eqb (prefix_len key nk) (length key)) eqn:EQ.
        { inversion E; subst d n' ev. split.
          - intros a X. exfalso. eapply gpos_empty. exact X.
          - intros a [X|[]] _. inversion X; subst. left. apply gpos_here. reflexivity. }
        apply Nat.ltb_ge in LT. rewrite Em in *.
        assert (b' = []).
        { destruct b' as [|x b']; [reflexivity|]. rewrite En, app_length in LT. cbn in LT. lia. }
        subst b'. rewrite app_nil_r in En. subst pp.
        rewrite Ek, firstn_app_exact, skipn_app_exact in E.
        destruct (delete R fu c (p ++ nk) a') as [[[d1 n1] ev1]|er] eqn:DE; [|discriminate].
        destruct (IH _ _ _ _ _ _ _ _ DE Rc) as [P1 P2].
        assert (UP : forall a, gpos (p ++ nk) c a \/ in_res a ev1 ->
                     gpos p (NShort nk c) a \/ in_res a ev1)
          by (intros a [Y|Y]; [left; apply gpos_short; exact Y|right; exact Y]).
        destruct d1; [|inversion E; subst d n' ev; split; [intros a X _; left; exact X|intros a X St; apply UP; apply P2; assumption]].
        destruct n1 as [|v1|ck cv|l|h1];
          try (inversion E; subst d n' ev; split;
               [intros a X St; apply gpos_short_iff in X; destruct X as [->|X];
                [left; apply gpos_here; reflexivity|apply UP; apply P1; assumption]
               |intros a X St; apply UP; apply P2; assumption]).
        (* merged with the short node the child became *)
        inversion E; subst d n' ev. split.
        + intros a X St. apply gpos_short_iff in X. destruct X as [->|X]; [left; apply gpos_here; reflexivity|].
          rewrite app_assoc in X.
          destruct (UP a (P1 a (gpos_short _ _ _ _ X) St)) as [Y|Y]; [left; exact Y|right; apply in_res_app_l; exact Y].
        + intros a X St. apply in_app_or in X. destruct X as [X|[X|[]]].
          * destruct (UP a (P2 a X St)) as [Y|Y]; [left; exact Y|right; apply in_res_app_l; exact Y].
          * inversion X; subst a. destruct (del_top _ _ _ _ _ _ _ DE) as [SFc|Y].
            -- left. apply gpos_short. apply gpos_here. exact SFc.
            -- right. apply in_res_app_l. exact Y.
      - (* full node *)
        destruct key as [|k0 kr]; [cbn in E; discriminate|].
        cbn [delete] in E. unfold child in E.
        destruct (nth_error cs (N.to_nat k0)) as [c|] eqn:Ec; [|discriminate].
        assert (Ec' : exists c', nth_error cs' (N.to_nat k0) = Some c').
        { destruct (nth_error cs' (N.to_nat k0)) eqn:X; [eauto|]. apply nth_error_None in X.
          assert (N.to_nat k0 < length cs)%nat by (apply nth_error_Some; congruence). lia. }
        destruct Ec' as [c' Ec'].
        pose proof (Rcs _ _ _ Ec Ec') as Rc. rewrite N2Nat.id in Rc.
        destruct (delete R fu c (p ++ [k0]) kr) as [[[d1 n1] ev1]|er] eqn:DE; [|discriminate].
        destruct (IH _ _ _ _ _ _ _ _ DE Rc) as [P1 P2].
        assert (UP : forall a, gpos (p ++ [k0]) c a \/ in_res a ev1 ->
                     gpos p (NFull cs) a \/ in_res a ev1).
        { intros a [Y|Y]; [left|right; exact Y]. eapply gpos_full; [exact Ec|]. rewrite N2Nat.id. exact Y. }
        destruct d1; [|inversion E; subst d n' ev; split; [intros a X _; left; exact X|intros a X St; apply UP; apply P2; assumption]].
        unfold set_child in E. destruct (set_nth (N.to_nat k0) n1 cs) as [cs2|] eqn:SN; [|discriminate].
        destruct (set_nth_spec _ _ _ _ SN) as [L2 N2].
        assert (FULLP : forall a, gpos p (NFull cs2) a -> stored R a -> gpos p (NFull cs) a \/ in_res a ev1).
        { intros a X St. apply (full_set_iff p cs (N.to_nat k0) n1 cs2 a SN) in X. rewrite N2Nat.id in X.
          destruct X as [->|[X|(j & cj & NE & Ej & X)]].
          - left. apply gpos_here. reflexivity.
          - apply UP. apply P1; assumption.
          - left. eapply gpos_full; eassumption. }
        assert (DELP : forall a, In (TDel a) ev1 -> stored R a -> gpos p (NFull cs) a \/ in_res a ev1)
          by (intros a X St; apply UP; apply P2; assumption).
        destruct (negb (is_empty n1)) eqn:NE.
        { inversion E; subst d n' ev. split; assumption. }
        apply negb_false_iff in NE. assert (n1 = NEmpty) by (destruct n1; try discriminate; reflexivity). subst n1.
        assert (K2 : nth_error cs2 (N.to_nat k0) = Some NEmpty) by (rewrite N2, Nat.eqb_refl; reflexivity).
        destruct (single_child cs2) as [[pos|]|] eqn:SC;
          try (inversion E; subst d n' ev; split; assumption).
        destruct (single_child_pos cs2 pos k0 SC K2) as (rem & Er & RN & PK & OTH).
        rewrite Er in E.
        assert (PKn : N.to_nat pos <> N.to_nat k0) by (intro X; apply PK; apply N2Nat.inj; exact X).
        assert (Er0 : nth_error cs (N.to_nat pos) = Some rem).
        { rewrite N2 in Er. apply Nat.eqb_neq in PKn. rewrite PKn in Er. exact Er. }
        assert (REMP : forall a, gpos (p ++ [pos]) rem a -> gpos p (NFull cs) a).
        { intros a X. eapply gpos_full; [exact Er0|]. rewrite N2Nat.id. exact X. }
        assert (KEEP : forall evx, del_pos p (NFull cs) (NShort [pos] rem) (ev1 ++ evx) \/ True) by (intros; right; exact I).
        assert (SAME : forall evx, (forall a, ~ In (TDel a) evx) ->
                  del_pos p (NFull cs) (NShort [pos] rem) (ev1 ++ evx)).
        { intros evx ND. split.
          - intros a X St. apply gpos_short_iff in X. destruct X as [->|X]; [left; apply gpos_here; reflexivity|].
            left. apply REMP. exact X.
          - intros a X St. apply in_app_or in X. destruct X as [X|X]; [|exfalso; eapply ND; exact X].
            destruct (DELP a X St) as [Y|Y]; [left; exact Y|right; apply in_res_app_l; exact Y]. }
        destruct (negb (pos =? 16)) eqn:P16.
        2: { inversion E; subst d n' ev. rewrite <- (app_nil_r ev1). apply SAME. intros a []. }
        assert (Er' : exists rem', nth_error cs' (N.to_nat pos) = Some rem').
        { destruct (nth_error cs' (N.to_nat pos)) eqn:X; [eauto|]. apply nth_error_None in X.
          assert (N.to_nat pos < length cs)%nat by (apply nth_error_Some; congruence). lia. }
        destruct Er' as [rem' Er'].
        pose proof (Rcs _ _ _ Er0 Er') as Rr. rewrite N2Nat.id in Rr.
        destruct rem as [|rv|ck cv|l|h].
        + congruence.
        + inversion E; subst d n' ev. apply SAME. intros a [].
        + (* merged with the remaining in-memory short node *)
          inversion E; subst d n' ev. split.
          * intros a X St. apply gpos_short_iff in X. destruct X as [->|X]; [left; apply gpos_here; reflexivity|].
            left. apply REMP. apply gpos_short. rewrite <- app_assoc. exact X.
          * intros a X St. apply in_app_or in X. destruct X as [X|[X|[]]].
            -- destruct (DELP a X St) as [Y|Y]; [left; exact Y|right; apply in_res_app_l; exact Y].
            -- inversion X; subst a. left. apply REMP. apply gpos_here. reflexivity.
        + inversion E; subst d n' ev. apply SAME. intros a [].
        + (* the remaining child is resolved for the check *)
          inversion Rr as [| |f1 p1 h1 G2 e2 SF2 W2 EN2 Hh2 HB2 C2 U2| |]; subst.
          destruct (proj1 C2 (p ++ [pos]) rem' (gsub_here H false _ rem' e2 SF2 EN2 HB2)) as (e3 & E3 & RS).
          rewrite EN2 in E3. inversion E3; subst e3. rewrite RS in E.
          destruct rem' as [|rv|ck cv0|l0|h0]; try discriminate.
          * cbn [collapse] in E. inversion E; subst d n' ev. split.
            -- intros a X St. apply gpos_short_iff in X. destruct X as [->|X]; [left; apply gpos_here; reflexivity|].
               exfalso.
               assert (GP : gpos (p ++ [pos]) (collapse H (NShort ck cv0)) a).
               { cbn [collapse]. apply gpos_short. rewrite <- app_assoc. exact X. }
               pose proof (region_pos false (p ++ [pos]) _ a W2 C2 GP St) as Y. subst a.
               apply gpos_ple in X. replace (p ++ pos :: ck) with ((p ++ [pos]) ++ ck) in X by (rewrite <- app_assoc; reflexivity).
               apply ple_self_app in X. subst ck. inversion W2 as [k9 v9 VK9| |]; subst; [exact (valid_key_nonempty _ VK9 eq_refl)|congruence].
            -- intros a X St. apply in_app_or in X. destruct X as [X|[X|[X|[]]]]; [|discriminate|].
               ++ destruct (DELP a X St) as [Y|Y]; [left; exact Y|right; apply in_res_app_l; exact Y].
               ++ inversion X; subst a. right. apply in_res_app_r. exists e2. left. reflexivity.
          * cbn [collapse] in E. inversion E; subst d n' ev. apply SAME. intros a [X|[]]. discriminate.
    Qed.

    Definition pos_res (p : list N) (n n' : node) (ev : list tev) : Prop :=
      forall a, gpos p n' a -> stored R a -> gpos p n a \/ in_res a ev.

    Lemma get_pos : forall fuel f p t G key v t' d ev,
      get R fuel t p key = TOk (v, t', d, ev) ->
      rep H R dirty delp f p t G -> pos_res p t t' ev.
    Proof.
      induction fuel as [|fuel IH]; intros f p t G key v t' d ev E Rp; [discriminate|].
      inversion Rp as [f0 p0|f0 p0 v0|f0 p0 h G0 e SF W EN Hh HB C U|f0 p0 k c c' Rc CO|f0 p0 cs cs' HL Rcs CO]; subst.
      - cbn in E. inversion E; subst. intros a X _. left. exact X.
      - cbn in E. inversion E; subst. intros a X _. left. exact X.
      - destruct (proj1 C p G (gsub_here H f p G e SF EN HB)) as (e' & E' & RS).
        rewrite EN in E'. inversion E'; subst e'.
        cbn [get] in E. rewrite RS in E.
        destruct (get R fuel (collapse H G) p key) as [[[[v1 n1] d1] ev1]|er] eqn:GE; [|discriminate].
        inversion E; subst.
        pose proof (IH _ _ _ _ _ _ _ _ _ GE (rep_collapse H H_len R dirty delp G W f p C U)) as P1.
        intros a X St. right. destruct (P1 a X St) as [Y|Y]; [|apply in_res_cons; exact Y].
        rewrite (region_pos f p G a W C Y St). exists e. left. reflexivity.
      - cbn [get] in E. destruct (negb (is_prefix_of k key)); [inversion E; subst; intros a X _; left; exact X|].
        destruct (get R fuel c (p ++ k) (skipn (length k) key)) as [[[[v1 n1] d1] ev1]|er] eqn:GE; [|discriminate].
        pose proof (IH _ _ _ _ _ _ _ _ _ GE Rc) as P1.
        destruct d1; inversion E; subst; [|intros a X _; left; exact X].
        intros a X St. apply gpos_short_iff in X. destruct X as [->|X]; [left; apply gpos_here; reflexivity|].
        destruct (P1 a X St) as [Y|Y]; [left; apply gpos_short; exact Y|right; exact Y].
      - destruct key as [|k0 kr]; [cbn in E; discriminate|].
        cbn [get] in E. unfold child in E.
        destruct (nth_error cs (N.to_nat k0)) as [c|] eqn:Ec; [|discriminate].
        assert (Ec' : exists c', nth_error cs' (N.to_nat k0) = Some c').
        { destruct (nth_error cs' (N.to_nat k0)) eqn:X; [eauto|]. apply nth_error_None in X.
          assert (N.to_nat k0 < length cs)%nat by (apply nth_error_Some; congruence). lia. }
        destruct Ec' as [c' Ec'].
        pose proof (Rcs _ _ _ Ec Ec') as Rc. rewrite N2Nat.id in Rc.
        destruct (get R fuel c (p ++ [k0]) kr) as [[[[v1 n1] d1] ev1]|er] eqn:GE; [|discriminate].
        pose proof (IH _ _ _ _ _ _ _ _ _ GE Rc) as P1.
        destruct d1; [|inversion E; subst; intros a X _; left; exact X].
        unfold set_child in E. destruct (set_nth (N.to_nat k0) n1 cs) as [cs2|] eqn:SN; [|discriminate].
        inversion E; subst. intros a X St.
        apply (full_set_iff p cs (N.to_nat k0) n1 cs2 a SN) in X. rewrite N2Nat.id in X.
        destruct X as [->|[X|(j & cj & NE & Ej & X)]].
        + left. apply gpos_here. reflexivity.
        + destruct (P1 a X St) as [Y|Y]; [left|right; exact Y].
          eapply gpos_full; [exact Ec|]. rewrite N2Nat.id. exact Y.
        + left. eapply gpos_full; eassumption.
    Qed.
  End Ops.

  Section GetNode.
    Variable sc : scheme.
    Variable S : store.
    Variable dirty0 dirty : list N -> bool.
    Variable delp : list N -> Prop.
    Let R := resolve_of H sc S.

    Lemma getnode_pos : forall fu n p rest g n' r ev f G,
      getnode H fu sc S dirty0 n p rest = (g, n', r, ev) ->
      rep H R dirty delp f p n G -> pos_res R p n n' ev.
    Proof.
      induction fu as [|fu IH]; intros n p rest g n' r ev f G E Rp; cbn [getnode] in E.
      - inversion E; subst. intros a X _. left. exact X.
      - inversion Rp as [f0 p0|f0 p0 v0|f0 p0 h G0 e SF W EN Hh HB C U|f0 p0 k c c' Rc CO|f0 p0 cs cs' HL Rcs CO]; subst.
        + inversion E; subst. intros a X _. left. exact X.
        + destruct rest; inversion E; subst; intros a X _; [left; exact X|exfalso; eapply gpos_empty; exact X].
        + destruct rest as [|r0 rr].
          * repeat (dmatch E; try (inversion E; subst; intros a X _; left; exact X)).
          * destruct (proj1 C p G (gsub_here H f p G e SF EN HB)) as (e' & E' & RS).
            rewrite EN in E'. inversion E'; subst e'. fold R in E. rewrite RS in E.
            destruct (getnode H fu sc S dirty0 (collapse H G) p (r0 :: rr)) as [[[g1 c1] r1] ev1] eqn:GE.
            inversion E; subst.
            pose proof (IH _ _ _ _ _ _ _ _ _ GE (rep_collapse H H_len R dirty delp G W f p C U)) as P1.
            intros a X St. right. destruct (P1 a X St) as [Y|Y]; [|apply in_res_cons; exact Y].
            rewrite (region_pos R f p G a W C Y St). exists e. left. reflexivity.
        + destruct rest as [|r0 rr].
          * repeat (dmatch E; try (inversion E; subst; intros a X _; left; exact X)).
          * dmatch E; [inversion E; subst; intros a X _; left; exact X|].
            destruct (getnode H fu sc S dirty0 c (p ++ k) (skipn (length k) (r0 :: rr))) as [[[g1 c1] r1] ev1] eqn:GE.
            pose proof (IH _ _ _ _ _ _ _ _ _ GE Rc) as P1.
            inversion E; subst. destruct (gres_ok g && r); [|intros a X _; left; exact X].
            intros a X St. apply gpos_short_iff in X. destruct X as [->|X]; [left; apply gpos_here; reflexivity|].
            destruct (P1 a X St) as [Y|Y]; [left; apply gpos_short; exact Y|right; exact Y].
        + destruct rest as [|r0 rr].
          * repeat (dmatch E; try (inversion E; subst; intros a X _; left; exact X)).
          * unfold child in E. destruct (nth_error cs (N.to_nat r0)) as [c|] eqn:Ec;
              [|inversion E; subst; intros a X _; left; exact X].
            destruct (getnode H fu sc S dirty0 c (p ++ [r0]) rr) as [[[g1 c1] r1] ev1] eqn:GE.
            assert (Ec' : exists c', nth_error cs' (N.to_nat r0) = Some c').
            { destruct (nth_error cs' (N.to_nat r0)) eqn:X; [eauto|]. apply nth_error_None in X.
              assert (N.to_nat r0 < length cs)%nat by (apply nth_error_Some; congruence). lia. }
            destruct Ec' as [c' Ec'].
            pose proof (Rcs _ _ _ Ec Ec') as Rc. rewrite N2Nat.id in Rc.
            pose proof (IH _ _ _ _ _ _ _ _ _ GE Rc) as P1.
            destruct (gres_ok g1 && r1); [|inversion E; subst; intros a X _; left; exact X].
            unfold set_child in E. destruct (set_nth (N.to_nat r0) c1 cs) as [cs2|] eqn:SN;
              inversion E; subst; [|intros a X _; left; exact X].
            intros a X St.
            apply (full_set_iff p cs (N.to_nat r0) c1 cs2 a SN) in X. rewrite N2Nat.id in X.
            destruct X as [->|[X|(j & cj & NE & Ej & X)]].
            -- left. apply gpos_here. reflexivity.
            -- destruct (P1 a X St) as [Y|Y]; [left|right; exact Y].
               eapply gpos_full; [exact Ec|]. rewrite N2Nat.id. exact Y.
            -- left. eapply gpos_full; eassumption.
    Qed.
  End GetNode.
End Pv.
