(* Trie/GenerateSched.v — schedules and the mismatch check of GenerateTrie (C11).
   The sixteen partition goroutines flush their batches in an arbitrary
   interleaving.  A history is a list of (partition, write); if writes of
   different partitions commute (they address different keys, or put the same
   blob under the same hash) every history whose per-partition projections are
   the partitions' write lists leaves the same database as running the
   partitions one after the other. *)
From GV Require Import Lib.Tactics Lib.Interleave Trie.Node Trie.OpsProofs Trie.Commit Trie.CommitProofs Trie.Generate.
Local Open Scope N_scope.

Section Sched.
  Variable H : list N -> list N.

  Definition commute (w1 w2 : wop) : Prop :=
    forall db, apply_w (apply_w db w1) w2 = apply_w (apply_w db w2) w1.

  Lemma apply_ws_app db a b : apply_ws (apply_ws db a) b = apply_ws db (a ++ b).
  Proof. unfold apply_ws. rewrite fold_left_app. reflexivity. Qed.

  Lemma apply_ws_cons db w ws : apply_ws db (w :: ws) = apply_ws (apply_w db w) ws.
  Proof. reflexivity. Qed.

  Lemma apply_ws_commute w ws : Forall (commute w) ws ->
    forall db, apply_ws (apply_w db w) ws = apply_w (apply_ws db ws) w.
  Proof.
    induction 1 as [|x ws Hx _ IH]; intros db; [reflexivity|].
    cbn [apply_ws fold_left]. rewrite (Hx db). apply IH.
  Qed.

  Definition hist := list (N * wop).
  Definition others (p : N) (h : hist) : hist := filter (fun e => negb (N.eqb (fst e) p)) h.

  Definition cross_commute (h : hist) : Prop :=
    forall e1 e2, In e1 h -> In e2 h -> fst e1 <> fst e2 -> commute (snd e1) (snd e2).

  (* pull the writes of partition p to the front *)
  Lemma pull_front p : forall h, cross_commute h -> forall db,
    apply_ws db (map snd h) = apply_ws db (proj N.eqb p h ++ map snd (others p h)).
  Proof.
    induction h as [|e h IH]; intros Hc db; [reflexivity|].
    assert (Hc' : cross_commute h) by (intros a b Ha Hb; apply Hc; right; assumption).
    unfold proj, others in *. cbn [map filter].
    destruct (N.eqb_spec (fst e) p) as [Ep|Np]; cbn [negb map app].
    - rewrite !apply_ws_cons. apply (IH Hc').
    - rewrite apply_ws_cons. rewrite (IH Hc' (apply_w db (snd e))).
      rewrite <- !apply_ws_app. rewrite apply_ws_cons. f_equal.
      apply apply_ws_commute. rewrite Forall_forall. intros w Hw.
      apply in_map_iff in Hw as (e2 & <- & Hin). apply filter_In in Hin as [Hin He2].
      apply N.eqb_eq in He2. apply Hc; [left; reflexivity|right; exact Hin|congruence].
  Qed.

  Lemma proj_others p q h : q <> p -> proj N.eqb q (others p h) = proj N.eqb q h.
  Proof.
    intros Hqp. unfold proj, others. induction h as [|e h IH]; [reflexivity|]. cbn [filter].
    destruct (N.eqb_spec (fst e) p) as [Ep|Np]; cbn [negb].
    - destruct (N.eqb_spec (fst e) q) as [Eq|Nq]; [congruence|exact IH].
    - cbn [filter]. destruct (N.eqb (fst e) q); cbn [map]; rewrite IH; reflexivity.
  Qed.

  (* any interleaving = the partitions one after the other *)
  Theorem order_irrelevant : forall (ps : list N) (h : hist),
    NoDup ps -> (forall e, In e h -> In (fst e) ps) -> cross_commute h ->
    forall db, apply_ws db (map snd h) = apply_ws db (concat (map (fun p => proj N.eqb p h) ps)).
  Proof.
    induction ps as [|p ps IH]; intros h Hnd Hin Hc db.
    - destruct h as [|e h]; [reflexivity|]. destruct (Hin e (or_introl eq_refl)).
    - inversion Hnd as [|? ? Hnp Hnd']; subst. cbn [map concat].
      rewrite (pull_front p h Hc db), <- !apply_ws_app.
      rewrite (IH (others p h) Hnd').
      + f_equal. f_equal. apply map_ext_in. intros q Hq. apply proj_others. intros ->. contradiction.
      + intros e He. unfold others in He. apply filter_In in He as [He Hne].
        destruct (Hin e He) as [Ep|Hps]; [|exact Hps].
        apply negb_true_iff, N.eqb_neq in Hne. congruence.
      + intros a b Ha Hb. apply Hc; [apply (proj1 (filter_In _ _ _) Ha)|apply (proj1 (filter_In _ _ _) Hb)].
  Qed.

  (* writes to different keys commute as far as every lookup can tell *)
  Definition db_get (db : gdb) (which : N) (k : list N) : option (list N) :=
    if which =? 0 then am_get k (g_accts db) else if which =? 1 then am_get k (g_stor db) else am_get k (g_nodes db).

  Definition w_key (w : wop) : N * list N :=
    match w with
    | WAcct h _ => (0, h)
    | WStorDel k => (1, k)
    | WNode k _ | WNodeDel k => (2, k)
    end.

  Lemma disjoint_commute_lookup w1 w2 : w_key w1 <> w_key w2 ->
    forall db which k, db_get (apply_w (apply_w db w1) w2) which k = db_get (apply_w (apply_w db w2) w1) which k.
  Proof.
    intros Hne db which k. unfold db_get.
    destruct w1 as [k1 v1|k1|h1 v1|k1]; destruct w2 as [k2 v2|k2|h2 v2|k2]; cbn [apply_w g_accts g_stor g_nodes w_key] in *;
      try reflexivity;
      destruct (which =? 0); try reflexivity; destruct (which =? 1); try reflexivity;
      repeat (first [rewrite am_get_put | rewrite am_get_del
                    | match goal with |- context [bytes_eqb ?a ?b] => destruct (bytes_eqb a b) eqn:? end]);
      try reflexivity;
      repeat match goal with B : bytes_eqb _ _ = true |- _ => apply beqb_eq in B end; subst; congruence.
  Qed.

  (* ---------------------------------------------------------------- the mismatch check *)

  Theorem gen_mismatch sc expected db rs got ws :
    run_partitions H sc db partitions = GOk rs ->
    assemble_root H sc (map r_root rs) = GOk (got, ws) ->
    got <> expected ->
    fst (generate H sc expected db) = GErr GMismatch.
  Proof.
    intros E1 E2 Hne. unfold generate. rewrite E1, E2.
    rewrite beqb_neq by exact Hne. reflexivity.
  Qed.

  Theorem gen_ok_root sc expected db st :
    fst (generate H sc expected db) = GOk st ->
    exists rs ws,
      run_partitions H sc db partitions = GOk rs /\
      assemble_root H sc (map r_root rs) = GOk (expected, ws) /\
      snd (generate H sc expected db) =
        apply_ws (fold_left (fun d r => apply_ws d (r_ws r)) rs db) ws.
  Proof.
    unfold generate. destruct (run_partitions H sc db partitions) as [rs|e] eqn:E1; [|discriminate].
    destruct (assemble_root H sc (map r_root rs)) as [[got ws]|e] eqn:E2; [|discriminate].
    destruct (bytes_eqb got expected) eqn:B; [|discriminate].
    apply beqb_eq in B. subst. intros _. exists rs, ws. split; [reflexivity|split; [exact E2|reflexivity]].
  Qed.
End Sched.
